(* General (all sizes) facts about the tessellation model Model/Tess.v:
   the generic cell loop with fix_numbering equals the closed form, vertex / face counts, in-range ids,
   stored uv = grid parameter, the two triangles of a cell partition it, export index ranges. *)
From Coq Require Import List Arith Bool Lia Reals Lra Psatz.
From NV Require Import Scalar.Ops Model.Common Model.Knots Model.Geom2D Model.Tess.
Import ListNotations.

(* ------------------------------------------------------------------ list helpers *)
Lemma combine_app {A B} (a b : list A) (c d : list B) :
  length a = length c -> combine (a ++ b) (c ++ d) = combine a c ++ combine b d.
Proof.
  revert c. induction a as [|x a IH]; intros [|y c] H; simpl in *; try discriminate; auto.
  f_equal. apply IH. lia.
Qed.
Lemma number_from_length {A} s (l : list A) : length (number_from s l) = length l.
Proof. unfold number_from. rewrite combine_length, seq_length. lia. Qed.
Lemma number_from_app {A} s (l1 l2 : list A) :
  number_from s (l1 ++ l2) = number_from s l1 ++ number_from (s + length l1) l2.
Proof.
  unfold number_from. rewrite app_length, seq_app. apply combine_app. apply seq_length.
Qed.
Lemma map_snd_combine' {A B} (a : list A) (b : list B) : length a = length b -> map snd (combine a b) = b.
Proof.
  revert b. induction a as [|x a IH]; intros [|y b] H; simpl in *; try discriminate; auto.
  f_equal. apply IH. lia.
Qed.
Lemma map_snd_number_from {A} s (l : list A) : map snd (number_from s l) = l.
Proof. unfold number_from. apply map_snd_combine'. apply seq_length. Qed.
Lemma map_fst_number_from {A} s (l : list A) : map fst (number_from s l) = seq s (length l).
Proof.
  unfold number_from. revert s. induction l as [|t l IH]; intros s; simpl; [reflexivity|]. f_equal. apply IH.
Qed.
Lemma in_number_from {A} s (l : list A) i x : In (i, x) (number_from s l) -> In x l.
Proof. unfold number_from. intros H. eapply in_combine_r. exact H. Qed.
Lemma flat_map_length_const {A B} (f : A -> list B) n l :
  (forall x, In x l -> length (f x) = n) -> length (flat_map f l) = n * length l.
Proof.
  induction l as [|x l IH]; intros H; simpl; [lia|].
  rewrite app_length, H by (simpl; auto). rewrite IH by (intros y Hy; apply H; simpl; auto). lia.
Qed.

Lemma memb_true x l : memb x l = true <-> In x l.
Proof.
  unfold memb. rewrite existsb_exists. split.
  - intros [y [Hy He]]. apply Nat.eqb_eq in He. subst. exact Hy.
  - intros H. exists x. split; [exact H|apply Nat.eqb_refl].
Qed.
Lemma memb_false x l : memb x l = false <-> ~ In x l.
Proof. rewrite <- memb_true. destruct (memb x l); split; intros H; congruence. Qed.

Lemma index_of_seq x s n : s <= x < s + n -> index_of x (seq s n) = Some (x - s).
Proof.
  revert s. induction n as [|n IH]; intros s H; [lia|]. simpl.
  destruct (Nat.eqb x s) eqn:E.
  - apply Nat.eqb_eq in E. subst. f_equal. lia.
  - apply Nat.eqb_neq in E. rewrite IH by lia. f_equal. lia.
Qed.

(* ------------------------------------------------------------------ cells and their triangles *)
Definition cell_tris (b : nat) (c : nat * nat) : list tri :=
  match cell_corners b (fst c) (snd c) with
  | [v1; v2; v3; v4] => [(v1, v2, v3); (v1, v3, v4)]
  | _ => []
  end.
Lemma plain_tris_eq a b : plain_tris a b = flat_map (cell_tris b) (cells a b).
Proof. reflexivity. Qed.
Lemma cell_tris_explicit b i j :
  cell_tris b (i, j) = [(j + i * b, j + (i + 1) * b, j + 1 + (i + 1) * b); (j + i * b, j + 1 + (i + 1) * b, j + 1 + i * b)].
Proof. reflexivity. Qed.

Lemma in_cells a b i j : In (i, j) (cells a b) <-> i < a - 1 /\ j < b - 1.
Proof.
  unfold cells. rewrite in_flat_map. split.
  - intros [x [Hx H]]. rewrite in_seq in Hx. rewrite in_map_iff in H. destruct H as [y [He Hy]].
    rewrite in_seq in Hy. inversion He; subst. lia.
  - intros [Hi Hj]. exists i. split; [rewrite in_seq; lia|]. rewrite in_map_iff. exists j. split; [reflexivity|rewrite in_seq; lia].
Qed.
Lemma cells_length a b : length (cells a b) = (a - 1) * (b - 1).
Proof.
  unfold cells. rewrite (flat_map_length_const _ (b - 1)).
  - rewrite seq_length. lia.
  - intros x _. rewrite map_length, seq_length. reflexivity.
Qed.

(* [G] number of triangles *)
Lemma plain_tris_length a b : length (plain_tris a b) = 2 * ((a - 1) * (b - 1)).
Proof.
  rewrite plain_tris_eq, (flat_map_length_const _ 2), cells_length; [reflexivity|].
  intros [i j] _. reflexivity.
Qed.

(* [G] every triangle refers to existing vertices *)
Lemma plain_tris_in_range a b x y z : In (x, y, z) (plain_tris a b) -> x < a * b /\ y < a * b /\ z < a * b.
Proof.
  rewrite plain_tris_eq, in_flat_map. intros [[i j] [Hc Ht]]. apply in_cells in Hc.
  rewrite cell_tris_explicit in Ht. simpl in Ht.
  assert (Hb : (i + 1) * b + b <= a * b) by nia.
  destruct Ht as [Ht|[Ht|[]]]; inversion Ht; subst; nia.
Qed.

(* [G] every vertex of the array is a corner of some triangle (sizes >= 2) *)
Lemma plain_tris_cover a b g : 2 <= a -> 2 <= b -> g < a * b -> In g (flat_map tri_ids (plain_tris a b)).
Proof.
  intros Ha Hb Hg.
  assert (Hb0 : b <> 0) by lia.
  pose proof (Nat.div_mod g b Hb0) as Hdm.
  pose proof (Nat.mod_upper_bound g b Hb0) as Hm.
  assert (Hi : g / b < a). { apply Nat.div_lt_upper_bound; [lia|]. nia. }
  set (i := g / b) in *. set (j := g mod b) in *.
  rewrite in_flat_map.
  destruct (Nat.eq_dec i (a - 1)) as [Ei|Ei]; destruct (Nat.eq_dec j (b - 1)) as [Ej|Ej].
  - (* v3 of cell (i-1, j-1) *)
    exists (j - 1 + (i - 1) * b, j - 1 + 1 + (i - 1 + 1) * b, j - 1 + 1 + (i - 1) * b). split.
    + rewrite plain_tris_eq, in_flat_map. exists (i - 1, j - 1). split; [apply in_cells; lia|].
      rewrite cell_tris_explicit. right. left. reflexivity.
    + simpl. right. left. replace (j - 1 + 1) with j by lia. replace (i - 1 + 1) with i by lia. nia.
  - (* v2 of cell (i-1, j) *)
    exists (j + (i - 1) * b, j + (i - 1 + 1) * b, j + 1 + (i - 1 + 1) * b). split.
    + rewrite plain_tris_eq, in_flat_map. exists (i - 1, j). split; [apply in_cells; lia|].
      rewrite cell_tris_explicit. left. reflexivity.
    + simpl. right. left. replace (i - 1 + 1) with i by lia. nia.
  - (* v4 of cell (i, j-1) *)
    exists (j - 1 + i * b, j - 1 + 1 + (i + 1) * b, j - 1 + 1 + i * b). split.
    + rewrite plain_tris_eq, in_flat_map. exists (i, j - 1). split; [apply in_cells; lia|].
      rewrite cell_tris_explicit. right. left. reflexivity.
    + simpl. right. right. left. replace (j - 1 + 1) with j by lia. nia.
  - (* v1 of cell (i, j) *)
    exists (j + i * b, j + (i + 1) * b, j + 1 + (i + 1) * b). split.
    + rewrite plain_tris_eq, in_flat_map. exists (i, j). split; [apply in_cells; lia|].
      rewrite cell_tris_explicit. left. reflexivity.
    + simpl. left. nia.
Qed.

(* ------------------------------------------------------------------ the generic loop at surface_tessellate *)
Lemma surface_tessellate_cell b c vi ti :
  surface_tessellate tt (cell_corners b (fst c) (snd c)) vi ti = (tt, [], number_from ti (cell_tris b c)).
Proof. reflexivity. Qed.

Lemma plain_loop b vl vi : forall l T,
  fold_left (mesh_step surface_tessellate b) l (tt, vl, number_from 0 T, vi, length T) =
  (tt, vl, number_from 0 (T ++ flat_map (cell_tris b) l), vi, length (T ++ flat_map (cell_tris b) l)).
Proof.
  induction l as [|c l IH]; intros T.
  - simpl. rewrite app_nil_r. reflexivity.
  - cbn [fold_left flat_map]. unfold mesh_step at 2. rewrite surface_tessellate_cell.
    rewrite app_nil_r. cbn [length]. rewrite Nat.add_0_r, number_from_length.
    replace (number_from 0 T ++ number_from (length T) (cell_tris b c)) with (number_from 0 (T ++ cell_tris b c))
      by (rewrite number_from_app; reflexivity).
    replace (length T + length (cell_tris b c)) with (length (T ++ cell_tris b c)) by (rewrite app_length; reflexivity).
    rewrite IH, <- app_assoc. reflexivity.
Qed.

Lemma mesh_loop_plain a b :
  mesh_loop surface_tessellate a b tt =
  (tt, seq 0 (a * b), number_from 0 (plain_tris a b), a * b, length (plain_tris a b)).
Proof. unfold mesh_loop. apply (plain_loop b (seq 0 (a * b)) (a * b) (cells a b) []). Qed.

(* fix_numbering keeps every object when all ids are used *)
Lemma fix_fold ids : forall l fin seen,
  NoDup l -> (forall x, In x l -> memb x ids = true) -> (forall x, In x l -> memb x seen = false) ->
  fold_left (fun acc o => if andb (memb o ids) (negb (memb o (snd acc))) then (o :: fst acc, o :: snd acc) else acc)
            l (fin, seen) = (rev l ++ fin, rev l ++ seen).
Proof.
  induction l as [|x l IH]; intros fin seen Hnd Hin Hseen; [reflexivity|].
  cbn [fold_left fst snd]. cbv zeta beta.
  rewrite (Hin x (or_introl eq_refl)), (Hseen x (or_introl eq_refl)). cbn [andb negb fst snd].
  inversion Hnd as [|? ? Hx Hnd']; subst.
  rewrite IH; auto.
  - cbn [rev]. rewrite <- !app_assoc. reflexivity.
  - intros y Hy. apply Hin. simpl; auto.
  - intros y Hy. apply memb_false. intros [E|Hin']; [subst; contradiction|].
    apply (proj1 (memb_false _ _) (Hseen y (or_intror Hy))). exact Hin'.
Qed.

Lemma fix_numbering_all n tris :
  (forall g, g < n -> In g (flat_map tri_ids tris)) -> fix_numbering (fun o => o) (seq 0 n) tris = seq 0 n.
Proof.
  intros H. unfold fix_numbering.
  replace (flat_map (fun t => map (fun o : nat => o) (tri_ids t)) tris) with (flat_map tri_ids tris).
  2:{ clear H. induction tris as [|t r IHr]; simpl; [reflexivity|]. rewrite map_id. f_equal. exact IHr. }
  rewrite (fix_fold (flat_map tri_ids tris) (seq 0 n) [] []).
  - cbn [fst]. rewrite app_nil_r, rev_involutive. reflexivity.
  - apply seq_NoDup.
  - intros x Hx. apply memb_true. apply H. apply in_seq in Hx. lia.
  - intros x _. reflexivity.
Qed.

Lemma new_id_seq n x : x < n -> new_id (fun o => o) (seq 0 n) x = x.
Proof. intros H. unfold new_id. rewrite index_of_seq by lia. lia. Qed.

Lemma varr_size_ge2 size k : 1 <= k -> k <= size - 1 -> 2 <= varr_size size k.
Proof.
  intros Hk Hs. unfold varr_size.
  assert (0 < (size - 1) / k) by (apply Nat.div_str_pos; lia). lia.
Qed.

(* [G] the generic cell loop + fix_numbering is the closed form, for all sample sizes and spacings k <= size-1 *)
Theorem make_triangle_mesh_closed_form npts su sv k :
  1 <= k -> k <= su - 1 -> k <= sv - 1 -> make_triangle_mesh npts su sv k = plain_mesh npts su sv k.
Proof.
  intros Hk Hu Hv. unfold make_triangle_mesh, plain_mesh.
  destruct (orb (Nat.eqb k 0) (orb (Nat.leb su 1) (Nat.leb sv 1))); [reflexivity|].
  cbv zeta.
  set (a := varr_size su k). set (b := varr_size sv k).
  assert (Ha : 2 <= a) by (apply varr_size_ge2; assumption).
  assert (Hb : 2 <= b) by (apply varr_size_ge2; assumption).
  destruct (negb (Nat.ltb (grid_point_index sv k b (a * b - 1)) npts)); [reflexivity|].
  rewrite mesh_loop_plain. cbv beta iota. rewrite map_snd_number_from.
  rewrite fix_numbering_all by (intros g Hg; apply plain_tris_cover; assumption).
  apply (f_equal (@Ok _)). apply (f_equal (pair _)).
  rewrite <- (map_id (number_from 0 (plain_tris a b))) at 2.
  apply map_ext_in. intros [i [[x y] z]] Hin.
  apply in_number_from in Hin. apply plain_tris_in_range in Hin. destruct Hin as [Hx [Hy Hz]].
  rewrite !new_id_seq by assumption. reflexivity.
Qed.

(* [G] counts: V = a*b, F = 2(a-1)(b-1); vertex ids are the positions 0..V-1, triangle ids 0..F-1 *)
Theorem mesh_counts npts su sv k vs ts :
  1 <= k -> k <= su - 1 -> k <= sv - 1 -> make_triangle_mesh npts su sv k = Ok (vs, ts) ->
  let a := varr_size su k in let b := varr_size sv k in
  length vs = a * b /\ length ts = 2 * ((a - 1) * (b - 1)) /\ map fst ts = seq 0 (length ts) /\
  map snd ts = plain_tris a b /\
  Forall (fun t => let '(x, y, z) := snd t in x < length vs /\ y < length vs /\ z < length vs) ts.
Proof.
  intros Hk Hu Hv H. rewrite make_triangle_mesh_closed_form in H by assumption.
  unfold plain_mesh in H.
  destruct (orb (Nat.eqb k 0) (orb (Nat.leb su 1) (Nat.leb sv 1))); [discriminate|].
  cbv zeta in H.
  destruct (negb (Nat.ltb _ npts)); [discriminate|].
  inversion H; subst vs ts; clear H. cbv zeta.
  rewrite map_length, seq_length, number_from_length, plain_tris_length, map_snd_number_from.
  repeat split.
  - rewrite map_fst_number_from, plain_tris_length. reflexivity.
  - apply Forall_forall. intros [i [[x y] z]] Hin. apply in_number_from in Hin.
    apply plain_tris_in_range in Hin. exact Hin.
Qed.

(* ------------------------------------------------------------------ stored uv = grid parameter (over R) *)
Lemma tess_ofnat_INR n : ofnat Rops n = INR n.
Proof. induction n as [|n IH]; [reflexivity|]. cbn [ofnat]. rsimp. rewrite IH, S_INR. reflexivity. Qed.

Lemma uv_acc_R jump n : uv_acc Rops jump n = (INR n * jump)%R.
Proof.
  induction n as [|n IH]; cbn [uv_acc]; rsimp; [simpl; lra|]. rewrite IH, S_INR. lra.
Qed.

(* [G] the accumulated parameter of grid step n is n*k/(size-1) *)
Theorem vertex_u_is_grid_parameter size k n :
  2 <= size -> uv_acc Rops (uv_jump Rops size k) n = (INR (n * k) / INR (size - 1))%R.
Proof.
  intros Hs. rewrite uv_acc_R. unfold uv_jump. rsimp. rewrite !tess_ofnat_INR, mult_INR.
  assert (INR (size - 1) <> 0)%R by (apply not_0_INR; lia).
  field. assumption.
Qed.

(* ... which is the linspace(0, 1, size) parameter of sample n*k, i.e. the parameter at which evalpts[n*k] was computed *)
Theorem vertex_u_is_linspace_sample tol8 size k n :
  2 <= size -> n * k < size -> (0 <= tol8 < 1)%R ->
  uv_acc Rops (uv_jump Rops size k) n = nth (n * k) (linspace Rops tol8 0%R 1%R size) 0%R.
Proof.
  intros Hs Hn Ht. rewrite vertex_u_is_grid_parameter by assumption.
  unfold linspace. rsimp.
  assert (Hab : oleb Rops (oabs Rops (0 - 1)%R) tol8 = false).
  { unfold oabs, oneg. rsimp. unfold Rleb.
    destruct (Rle_dec 0 (0 - 1)%R) as [Hc|Hc]; [lra|].
    destruct (Rle_dec (0 - (0 - 1))%R tol8) as [Hd|Hd]; [lra|reflexivity]. }
  rsimp. rewrite Hab.
  assert (Hlt : Nat.ltb 1 size = true) by (apply Nat.ltb_lt; lia). rewrite Hlt.
  set (f := fun x : nat => (0 + ofnat Rops x * (1 - 0) / ofnat Rops (Nat.pred size))%R).
  rewrite (nth_indep _ 0%R (f 0)) by (rewrite map_length, seq_length; exact Hn).
  rewrite map_nth, seq_nth by exact Hn. subst f. cbn beta. rewrite !tess_ofnat_INR.
  replace (Nat.pred size) with (size - 1) by lia.
  assert (INR (size - 1) <> 0)%R by (apply not_0_INR; lia).
  simpl (0 + n * k). field. assumption.
Qed.

(* ------------------------------------------------------------------ the two triangles of a cell partition it *)
(* cell with corners v1 = (u0,v0), v2 = (u1,v0), v3 = (u1,v1), v4 = (u0,v1) (u along i, v along j) *)
Definition in_tri (p q r x : list R) : Prop :=
  (0 <= is_left Rops p q x)%R /\ (0 <= is_left Rops q r x)%R /\ (0 <= is_left Rops r p x)%R.

Theorem cell_partition u0 u1 v0 v1 x y :
  (u0 < u1)%R -> (v0 < v1)%R -> (u0 <= x <= u1)%R -> (v0 <= y <= v1)%R ->
  let p1 := [u0; v0] in let p2 := [u1; v0] in let p3 := [u1; v1] in let p4 := [u0; v1] in
  (* both triangles are counter-clockwise and their areas add up to the cell *)
  (0 < is_left Rops p1 p2 p3)%R /\ (0 < is_left Rops p1 p3 p4)%R /\
  (is_left Rops p1 p2 p3 + is_left Rops p1 p3 p4 = 2 * ((u1 - u0) * (v1 - v0)))%R /\
  (* every point of the cell lies in one of them, and in both only on the shared diagonal *)
  (in_tri p1 p2 p3 [x; y] \/ in_tri p1 p3 p4 [x; y]) /\
  (in_tri p1 p2 p3 [x; y] -> in_tri p1 p3 p4 [x; y] -> is_left Rops p1 p3 [x; y] = 0%R).
Proof.
  intros Hu Hv Hx Hy. cbv zeta. unfold in_tri, is_left, cx, cy. cbn [nth]. rsimp.
  assert (Hd : (0 < (u1 - u0) * (v1 - v0))%R) by (apply Rmult_lt_0_compat; lra).
  repeat split; nra.
Qed.

(* ------------------------------------------------------------------ writers: index ranges, offsets, counts *)
Section Writers.
Context {T : Type}.

Definition tri_lt (n : nat) (t : tri) : Prop := let '(x, y, z) := t in x < n /\ y < n /\ z < n.
Definition smesh_ok (m : list (list T) * list tri) : Prop := Forall (tri_lt (length (fst m))) (snd m).

Definition obj_step (acc : list (list T) * list (list nat)) (m : list (list T) * list tri) :=
  (fst acc ++ fst m, snd acc ++ map (fun t => map (fun i => Nat.add (Nat.add i 1) (length (fst acc))) (tri_ids t)) (snd m)).
Definition off_step (acc : list (list T) * list (list nat)) (m : list (list T) * list tri) :=
  (fst acc ++ fst m, snd acc ++ map (fun t => 3 :: map (fun i => Nat.add i (length (fst acc))) (tri_ids t)) (snd m)).
Lemma export_obj_step ms : export_obj ms = fold_left obj_step ms ([], []).
Proof. reflexivity. Qed.
Lemma export_off_step ms :
  export_off ms = let r := fold_left off_step ms ([], []) in ((length (fst r), length (snd r), 0), fst r, snd r).
Proof. reflexivity. Qed.

Lemma obj_fold_spec (ms : list (list (list T) * list tri)) : Forall smesh_ok ms -> forall V Fs,
  Forall (Forall (fun i => 1 <= i <= length V)) Fs ->
  fst (fold_left obj_step ms (V, Fs)) = V ++ concat (map fst ms) /\
  Forall (Forall (fun i => 1 <= i <= length (fst (fold_left obj_step ms (V, Fs))))) (snd (fold_left obj_step ms (V, Fs))).
Proof.
  induction 1 as [|m ms Hm Hok IH]; intros V Fs HF.
  - simpl. rewrite app_nil_r. split; [reflexivity|exact HF].
  - cbn [fold_left map concat]. unfold obj_step at 2 4 6. cbn [fst snd].
    destruct (IH (V ++ fst m) (Fs ++ map (fun t => map (fun i => i + 1 + length V) (tri_ids t)) (snd m))) as [E1 E2].
    + apply Forall_app. split.
      * eapply Forall_impl; [|exact HF]. intros f Hf. eapply Forall_impl; [|exact Hf].
        intros i Hi. cbv beta in *. rewrite app_length. lia.
      * apply Forall_map. unfold smesh_ok in Hm. eapply Forall_impl; [|exact Hm].
        intros [[x y] z] [Hx [Hy Hz]]. cbn [tri_ids map]. rewrite app_length.
        repeat constructor; lia.
    + split; [rewrite E1, <- app_assoc; reflexivity|exact E2].
Qed.

(* [G] OBJ: the vertex list is the concatenation of the surfaces' vertices; every face index is within 1 .. #vertices;
   the faces of a surface are shifted by the number of vertices of the surfaces before it (prefix sum, obj_step) *)
Theorem export_obj_in_range (ms : list (list (list T) * list tri)) :
  Forall smesh_ok ms ->
  fst (export_obj ms) = concat (map fst ms) /\
  Forall (Forall (fun i => 1 <= i <= length (fst (export_obj ms)))) (snd (export_obj ms)).
Proof.
  intros Hok. rewrite export_obj_step. exact (obj_fold_spec ms Hok [] [] (Forall_nil _)).
Qed.

Definition off_line_ok (n : nat) (l : list nat) : Prop := exists x y z, l = [3; x; y; z] /\ x < n /\ y < n /\ z < n.
Lemma off_fold_spec (ms : list (list (list T) * list tri)) : Forall smesh_ok ms -> forall V Fs,
  Forall (off_line_ok (length V)) Fs ->
  fst (fold_left off_step ms (V, Fs)) = V ++ concat (map fst ms) /\
  length (snd (fold_left off_step ms (V, Fs))) = length Fs + length (concat (map snd ms)) /\
  Forall (off_line_ok (length (fst (fold_left off_step ms (V, Fs))))) (snd (fold_left off_step ms (V, Fs))).
Proof.
  induction 1 as [|m ms Hm Hok IH]; intros V Fs HF.
  - simpl. rewrite app_nil_r. repeat split; [lia|exact HF].
  - cbn [fold_left map concat]. unfold off_step at 2 4 6 8. cbn [fst snd].
    destruct (IH (V ++ fst m) (Fs ++ map (fun t => 3 :: map (fun i => i + length V) (tri_ids t)) (snd m))) as [E1 [E2 E3]].
    + apply Forall_app. split.
      * eapply Forall_impl; [|exact HF]. intros l [x [y [z [El H']]]]. exists x, y, z. rewrite app_length. split; [exact El|lia].
      * apply Forall_map. unfold smesh_ok in Hm. eapply Forall_impl; [|exact Hm].
        intros [[x y] z] [Hx [Hy Hz]]. cbn [tri_ids map]. rewrite app_length.
        exists (x + length V), (y + length V), (z + length V). split; [reflexivity|lia].
    + split; [rewrite E1, <- app_assoc; reflexivity|]. split; [|exact E3].
      rewrite E2, !app_length, map_length. lia.
Qed.

(* [G] OFF: header counts = number of vertex / face lines; every face line is `3 i j k` with 0-based indices below the vertex count *)
Theorem export_off_counts (ms : list (list (list T) * list tri)) :
  Forall smesh_ok ms ->
  let '(h, v, f) := export_off ms in
  h = (length v, length f, 0) /\ v = concat (map fst ms) /\ length f = length (concat (map snd ms)) /\
  Forall (off_line_ok (length v)) f.
Proof.
  intros Hok. rewrite export_off_step. cbv zeta.
  destruct (off_fold_spec ms Hok [] [] (Forall_nil _)) as [E1 [E2 E3]].
  repeat split; assumption.
Qed.
End Writers.

(* [G] containers: vertex ids are 0 .. V-1 in order, every face of element n refers to vertices of element n
   (ids in [offset, offset + nv)), offsets are prefix sums, face ids are shifted by the number of faces before *)
Definition cmesh_ok (m : nat * list (nat * tri)) : Prop := Forall (fun f => tri_lt (fst m) (snd f)) (snd m).

Theorem container_offsets_spec ms : forall voff foff,
  Forall cmesh_ok ms ->
  let r := container_offsets voff foff ms in
  fst r = seq voff (fold_right (fun m s => fst m + s) 0 ms) /\
  length (snd r) = fold_right (fun m s => length (snd m) + s) 0 ms /\
  Forall (fun f => let '(x, y, z) := snd f in
                   voff <= x < voff + length (fst r) /\ voff <= y < voff + length (fst r) /\ voff <= z < voff + length (fst r)) (snd r).
Proof.
  induction ms as [|[nv fs] ms IH]; intros voff foff Hok; cbv zeta.
  - simpl. repeat split; constructor.
  - inversion Hok as [|? ? Hm Hok']; subst. cbn [container_offsets fold_right fst snd].
    destruct (IH (voff + nv) (foff + length fs) Hok') as [E1 [E2 E3]]. cbv zeta in *.
    rewrite E1. split; [rewrite seq_app; reflexivity|].
    split; [rewrite app_length, map_length; f_equal; exact E2|].
    rewrite app_length, !seq_length.
    apply Forall_app. split.
    + apply Forall_map. unfold cmesh_ok in Hm. cbn [fst snd] in Hm. eapply Forall_impl; [|exact Hm].
      intros [i [[x y] z]] H. cbn [snd] in *. unfold tri_lt in H. lia.
    + eapply Forall_impl; [|exact E3]. intros [i [[x y] z]] H. cbn [snd] in *.
      rewrite E1, seq_length in H. lia.
Qed.

Theorem container_tessellate_in_range ms :
  Forall cmesh_ok ms ->
  let r := container_tessellate ms in
  fst r = seq 0 (length (fst r)) /\
  Forall (fun f => tri_lt (length (fst r)) (snd f)) (snd r).
Proof.
  intros Hok. cbv zeta. unfold container_tessellate.
  destruct (container_offsets_spec ms 0 0 Hok) as [E1 [E2 E3]]. cbv zeta in *.
  split.
  - rewrite E1 at 1. rewrite E1, seq_length. reflexivity.
  - eapply Forall_impl; [|exact E3]. intros [i [[x y] z]] H. cbn [snd] in *. unfold tri_lt. lia.
Qed.

(* [G] STL: the facet normal is the cross product of two edges, hence orthogonal to the facet *)
Theorem triangle_normal_orthogonal x0 y0 z0 x1 y1 z1 x2 y2 z2 :
  let p0 := [x0; y0; z0] in let p1 := [x1; y1; z1] in let p2 := [x2; y2; z2] in
  let n := triangle_normal Rops p0 p1 p2 in
  vdot Rops n (vsub Rops p1 p0) = 0%R /\ vdot Rops n (vsub Rops p2 p1) = 0%R /\ vdot Rops n (vsub Rops p0 p2) = 0%R.
Proof.
  cbv zeta. unfold triangle_normal, cross3, vdot, vsub, cx, cy, cz. cbn [combine map nth sumT fst snd]. rsimp.
  repeat split; ring.
Qed.
