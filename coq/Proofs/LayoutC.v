(* C13: extraction / construction round trips, sweeping boundaries, evaluator subscripts. *)
From Coq Require Import List Arith Bool Lia PeanoNat.
From NV Require Import Model.Common Model.Layout Proofs.LayoutP Proofs.LayoutR.
Import ListNotations.

Section C.
Context {A Kn : Type} (d : A) (kv_ok : nat -> list Kn -> nat -> bool).
Notation at_ := (at_ d).
Notation surf := (surf A Kn).
Notation curve := (curve A Kn).
Notation vol := (vol A Kn).

Lemma flat_map_map {X Y Z} (f : X -> Y) (g : Y -> list Z) l : flat_map g (map f l) = flat_map (fun x => g (f x)) l.
Proof. induction l as [|x l IH]; simpl; [reflexivity|]. rewrite IH. reflexivity. Qed.

(* ------------------------------------------------------------------ extract_curves *)
Lemma extract_curves_u (s : surf) u v : u < s_su s -> v < s_sv s ->
  let c := nth v (fst (extract_curves d s)) (mkCrv 0 [] []) in
  c_p c = s_pu s /\ c_U c = s_Uu s /\ length (c_P c) = s_su s /\ at_ (c_P c) u = at_ (s_P s) (idx2 (s_sv s) u v).
Proof.
  intros Hu Hv c. unfold c, extract_curves. cbn [fst]. rewrite nth_map_seq by exact Hv. cbn [c_p c_U c_P].
  rewrite map_length, seq_length. repeat split. unfold Layout.at_ at 1. rewrite nth_map_seq by exact Hu. reflexivity.
Qed.
Lemma extract_curves_v (s : surf) u v : u < s_su s -> v < s_sv s ->
  let c := nth u (snd (extract_curves d s)) (mkCrv 0 [] []) in
  c_p c = s_pv s /\ c_U c = s_Uv s /\ length (c_P c) = s_sv s /\ at_ (c_P c) v = at_ (s_P s) (idx2 (s_sv s) u v).
Proof.
  intros Hu Hv c. unfold c, extract_curves. cbn [snd]. rewrite nth_map_seq by exact Hu. cbn [c_p c_U c_P].
  rewrite map_length, seq_length. repeat split. unfold Layout.at_ at 1. rewrite nth_map_seq by exact Hv. reflexivity.
Qed.

(* ------------------------------------------------------------------ construct_surface *)
Lemma same_curves_true p n (cs : list curve) :
  Forall (fun c => c_p c = p /\ length (c_P c) = n) cs -> same_curves p n cs = true.
Proof.
  intros H. unfold same_curves. apply forallb_forall. intros c Hc. rewrite Forall_forall in H.
  destruct (H c Hc) as [-> ->]. rewrite !Nat.eqb_refl. reflexivity.
Qed.

Lemma construct_surface_sections dr deg kv (cs : list curve) p n U : (dr = DU \/ dr = DV) ->
  2 <= length cs -> deg <> 0 -> Forall (fun c => c_p c = p /\ length (c_P c) = n /\ c_U c = U) cs ->
  construct_surface d kv_ok dr deg kv cs =
    match dr with
    | DU => build_surf kv_ok deg p (length cs) n (flat_map c_P cs) kv U
    | _ => build_surf kv_ok p deg n (length cs) (flip_ctrlpts_u d (flat_map c_P cs) n (length cs)) U kv
    end.
Proof.
  intros Hdr Hlen Hdeg HF.
  assert (Hs : same_curves p n cs = true).
  { apply same_curves_true. eapply Forall_impl; [|exact HF]. cbn. tauto. }
  destruct cs as [|c0 [|c1 r]]; cbn [length] in Hlen; try lia.
  assert (H0 : c_p c0 = p /\ length (c_P c0) = n /\ c_U c0 = U) by (inversion HF; assumption).
  destruct H0 as (E1 & E2 & E3).
  unfold construct_surface. destruct (Nat.eqb_spec deg 0) as [|_]; [contradiction|].
  rewrite E1, E2, E3, Hs. cbn [negb]. destruct Hdr as [-> | ->]; reflexivity.
Qed.

Definition valid_surf (s : surf) : Prop :=
  s_pu s <> 0 /\ s_pv s <> 0 /\ s_pu s + 1 <= s_su s /\ s_pv s + 1 <= s_sv s /\ length (s_P s) = s_su s * s_sv s /\
  kv_ok (s_pu s) (s_Uu s) (s_su s) = true /\ kv_ok (s_pv s) (s_Uv s) (s_sv s) = true.

Lemma build_surf_ok (s : surf) : valid_surf s ->
  build_surf kv_ok (s_pu s) (s_pv s) (s_su s) (s_sv s) (s_P s) (s_Uu s) (s_Uv s) = Ok s.
Proof.
  intros (H1 & H2 & H3 & H4 & H5 & H6 & H7). unfold build_surf.
  destruct (Nat.eqb_spec (s_pu s) 0) as [|_]; [contradiction|]. destruct (Nat.eqb_spec (s_pv s) 0) as [|_]; [contradiction|]. cbn [orb].
  destruct (Nat.ltb_spec (s_su s) (s_pu s + 1)) as [|_]; [lia|]. destruct (Nat.ltb_spec (s_sv s) (s_pv s + 1)) as [|_]; [lia|]. cbn [orb].
  rewrite H6, H7. cbn [negb]. destruct s; reflexivity.
Qed.

(* extract the curves of one family and stack them along the matching direction: the original surface *)
Theorem extract_construct_surface_u (s : surf) : valid_surf s ->
  construct_surface d kv_ok DU (s_pu s) (s_Uu s) (snd (extract_curves d s)) = Ok s.
Proof.
  intros Hv. pose proof Hv as (H1 & H2 & H3 & H4 & H5 & H6 & H7).
  rewrite construct_surface_sections with (p := s_pv s) (n := s_sv s) (U := s_Uv s); auto.
  - unfold extract_curves. cbn [snd]. rewrite map_length, seq_length, flat_map_map. cbn [c_P].
    replace (flat_map _ (seq 0 (s_su s))) with (s_P s); [apply build_surf_ok; exact Hv|].
    symmetry. apply (tab2_eq d (s_su s) (s_sv s) (fun u v => at_ (s_P s) (v + s_sv s * u))); [exact H5|]. reflexivity.
  - unfold extract_curves. cbn [snd]. rewrite map_length, seq_length. lia.
  - unfold extract_curves. cbn [snd]. apply Forall_forall. intros c Hc. apply in_map_iff in Hc. destruct Hc as (u & <- & _).
    cbn. rewrite map_length, seq_length. auto.
Qed.
Theorem extract_construct_surface_v (s : surf) : valid_surf s ->
  construct_surface d kv_ok DV (s_pv s) (s_Uv s) (fst (extract_curves d s)) = Ok s.
Proof.
  intros Hv. pose proof Hv as (H1 & H2 & H3 & H4 & H5 & H6 & H7).
  rewrite construct_surface_sections with (p := s_pu s) (n := s_su s) (U := s_Uu s); auto.
  - unfold extract_curves. cbn [fst]. rewrite map_length, seq_length, flat_map_map. cbn [c_P].
    replace (flip_ctrlpts_u d _ (s_su s) (s_sv s)) with (s_P s); [apply build_surf_ok; exact Hv|].
    symmetry. unfold flip_ctrlpts_u. apply tab2_eq with (d := d); [exact H5|]. intros i j Hi Hj.
    unfold Layout.at_ at 1.
    change (flat_map (fun x => map (fun u => at_ (s_P s) (x + s_sv s * u)) (seq 0 (s_su s))) (seq 0 (s_sv s)))
      with (tab2 (s_sv s) (s_su s) (fun v u => at_ (s_P s) (v + s_sv s * u))).
    replace (i + j * s_su s) with (i + s_su s * j) by ring. rewrite nth_tab2 by assumption. reflexivity.
  - unfold extract_curves. cbn [fst]. rewrite map_length, seq_length. lia.
  - unfold extract_curves. cbn [fst]. apply Forall_forall. intros c Hc. apply in_map_iff in Hc. destruct Hc as (u & <- & _).
    cbn. rewrite map_length, seq_length. auto.
Qed.

(* ------------------------------------------------------------------ extract_surfaces *)
Lemma surf_of2d_tab pu pv (Uu Uv : list Kn) (g : nat -> nat -> A) na nb : 0 < na ->
  surf_of2d d pu pv Uu Uv (map (fun a => map (g a) (seq 0 nb)) (seq 0 na)) = mkSurf pu pv Uu Uv na nb (tab2 na nb g).
Proof. intros H. unfold surf_of2d. rewrite set2d_tab by exact H. reflexivity. Qed.

Definition cell (b : vol) (u v w : nat) : A := at_ (v_P b) (idx3 (v_su b) (v_sv b) u v w).

Lemma extract_surfaces_eq (b : vol) : 0 < v_su b -> 0 < v_sv b ->
  extract_surfaces d b =
  (map (fun w => mkSurf (v_pu b) (v_pv b) (v_Uu b) (v_Uv b) (v_su b) (v_sv b) (tab2 (v_su b) (v_sv b) (fun u v => cell b u v w))) (seq 0 (v_sw b)),
   map (fun v => mkSurf (v_pu b) (v_pw b) (v_Uu b) (v_Uw b) (v_su b) (v_sw b) (tab2 (v_su b) (v_sw b) (fun u w => cell b u v w))) (seq 0 (v_sv b)),
   map (fun u => mkSurf (v_pv b) (v_pw b) (v_Uv b) (v_Uw b) (v_sv b) (v_sw b) (tab2 (v_sv b) (v_sw b) (fun v w => cell b u v w))) (seq 0 (v_su b))).
Proof.
  intros Hu Hv. unfold extract_surfaces. f_equal; [f_equal|]; apply map_ext; intros x.
  - apply (surf_of2d_tab _ _ _ _ (fun u v => cell b u v x)). exact Hu.
  - apply (surf_of2d_tab _ _ _ _ (fun u w => cell b u x w)). exact Hu.
  - apply (surf_of2d_tab _ _ _ _ (fun v w => cell b x v w)). exact Hv.
Qed.

(* every extracted surface addresses the volume point of the same (u,v,w) *)
Lemma extract_surfaces_uv (b : vol) u v w : 0 < v_su b -> 0 < v_sv b -> u < v_su b -> v < v_sv b -> w < v_sw b ->
  let s := nth w (fst (fst (extract_surfaces d b))) (mkSurf 0 0 [] [] 0 0 []) in
  (s_pu s, s_pv s, s_Uu s, s_Uv s, s_su s, s_sv s) = (v_pu b, v_pv b, v_Uu b, v_Uv b, v_su b, v_sv b) /\
  at_ (s_P s) (idx2 (s_sv s) u v) = cell b u v w.
Proof.
  intros H0 H1 Hu Hv Hw s. unfold s. rewrite extract_surfaces_eq by assumption. cbn [fst]. rewrite nth_map_seq by exact Hw.
  cbn [s_pu s_pv s_Uu s_Uv s_su s_sv s_P]. split; [reflexivity|]. unfold idx2, Layout.at_ at 1. apply (nth_tab2 d _ _ (fun u0 v0 => cell b u0 v0 w)); assumption.
Qed.
Lemma extract_surfaces_uw (b : vol) u v w : 0 < v_su b -> 0 < v_sv b -> u < v_su b -> v < v_sv b -> w < v_sw b ->
  let s := nth v (snd (fst (extract_surfaces d b))) (mkSurf 0 0 [] [] 0 0 []) in
  (s_pu s, s_pv s, s_Uu s, s_Uv s, s_su s, s_sv s) = (v_pu b, v_pw b, v_Uu b, v_Uw b, v_su b, v_sw b) /\
  at_ (s_P s) (idx2 (s_sv s) u w) = cell b u v w.
Proof.
  intros H0 H1 Hu Hv Hw s. unfold s. rewrite extract_surfaces_eq by assumption. cbn [fst snd]. rewrite nth_map_seq by exact Hv.
  cbn [s_pu s_pv s_Uu s_Uv s_su s_sv s_P]. split; [reflexivity|]. unfold idx2, Layout.at_ at 1. apply (nth_tab2 d _ _ (fun u0 w0 => cell b u0 v w0)); assumption.
Qed.
Lemma extract_surfaces_vw (b : vol) u v w : 0 < v_su b -> 0 < v_sv b -> u < v_su b -> v < v_sv b -> w < v_sw b ->
  let s := nth u (snd (extract_surfaces d b)) (mkSurf 0 0 [] [] 0 0 []) in
  (s_pu s, s_pv s, s_Uu s, s_Uv s, s_su s, s_sv s) = (v_pv b, v_pw b, v_Uv b, v_Uw b, v_sv b, v_sw b) /\
  at_ (s_P s) (idx2 (s_sv s) v w) = cell b u v w.
Proof.
  intros H0 H1 Hu Hv Hw s. unfold s. rewrite extract_surfaces_eq by assumption. cbn [snd]. rewrite nth_map_seq by exact Hu.
  cbn [s_pu s_pv s_Uu s_Uv s_su s_sv s_P]. split; [reflexivity|]. unfold idx2, Layout.at_ at 1. apply (nth_tab2 d _ _ (fun v0 w0 => cell b u v0 w0)); assumption.
Qed.

(* ------------------------------------------------------------------ construct_volume *)
Lemma same_surfs_true pu pv su sv (ss : list surf) :
  Forall (fun s => s_pu s = pu /\ s_pv s = pv /\ s_su s = su /\ s_sv s = sv) ss -> same_surfs pu pv su sv ss = true.
Proof.
  intros H. unfold same_surfs. apply forallb_forall. intros s Hs. rewrite Forall_forall in H.
  destruct (H s Hs) as (-> & -> & -> & ->). rewrite !Nat.eqb_refl. reflexivity.
Qed.

Lemma construct_volume_sections dr deg kv (ss : list surf) pu pv su sv Uu Uv : dr <> DBad ->
  2 <= length ss -> deg <> 0 ->
  Forall (fun s => s_pu s = pu /\ s_pv s = pv /\ s_su s = su /\ s_sv s = sv /\ s_Uu s = Uu /\ s_Uv s = Uv) ss ->
  construct_volume d kv_ok dr deg kv ss =
    let k := length ss in let cat := flat_map s_P ss in
    match dr with
    | DU => build_vol kv_ok deg pu pv k su sv (tab3 sv k su (fun w u v => at_ cat (w + v * sv + u * su * sv))) kv Uu Uv
    | DV => build_vol kv_ok pu deg pv su k sv (tab3 sv su k (fun w u v => at_ cat (w + u * sv + v * su * sv))) Uu kv Uv
    | _ => build_vol kv_ok pu pv deg su sv k cat Uu Uv kv
    end.
Proof.
  intros Hdr Hlen Hdeg HF.
  assert (Hs : same_surfs pu pv su sv ss = true).
  { apply same_surfs_true. eapply Forall_impl; [|exact HF]. cbn. tauto. }
  destruct ss as [|s0 [|s1 r]]; cbn [length] in Hlen; try lia.
  assert (H0 : s_pu s0 = pu /\ s_pv s0 = pv /\ s_su s0 = su /\ s_sv s0 = sv /\ s_Uu s0 = Uu /\ s_Uv s0 = Uv) by (inversion HF; assumption).
  destruct H0 as (E1 & E2 & E3 & E4 & E5 & E6).
  unfold construct_volume. destruct (Nat.eqb_spec deg 0) as [|_]; [contradiction|].
  rewrite E1, E2, E3, E4, E5, E6, Hs. cbn [negb]. destruct dr; try reflexivity. contradiction.
Qed.

Definition valid_vol (b : vol) : Prop :=
  v_pu b <> 0 /\ v_pv b <> 0 /\ v_pw b <> 0 /\ v_pu b + 1 <= v_su b /\ v_pv b + 1 <= v_sv b /\ v_pw b + 1 <= v_sw b /\
  length (v_P b) = v_su b * v_sv b * v_sw b /\
  kv_ok (v_pu b) (v_Uu b) (v_su b) = true /\ kv_ok (v_pv b) (v_Uv b) (v_sv b) = true /\ kv_ok (v_pw b) (v_Uw b) (v_sw b) = true.

Lemma build_vol_ok (b : vol) : valid_vol b ->
  build_vol kv_ok (v_pu b) (v_pv b) (v_pw b) (v_su b) (v_sv b) (v_sw b) (v_P b) (v_Uu b) (v_Uv b) (v_Uw b) = Ok b.
Proof.
  intros (H1 & H2 & H3 & H4 & H5 & H6 & H7 & H8 & H9 & H10). unfold build_vol.
  destruct (Nat.eqb_spec (v_pu b) 0) as [|_]; [contradiction|]. destruct (Nat.eqb_spec (v_pv b) 0) as [|_]; [contradiction|].
  destruct (Nat.eqb_spec (v_pw b) 0) as [|_]; [contradiction|]. cbn [orb].
  destruct (Nat.ltb_spec (v_su b) (v_pu b + 1)) as [|_]; [lia|]. destruct (Nat.ltb_spec (v_sv b) (v_pv b + 1)) as [|_]; [lia|].
  destruct (Nat.ltb_spec (v_sw b) (v_pw b + 1)) as [|_]; [lia|]. cbn [orb].
  rewrite H8, H9, H10. cbn [negb]. destruct b; reflexivity.
Qed.

Lemma flat_map_tab2 {X} n a bb (g : nat -> nat -> nat -> X) :
  flat_map (fun i => tab2 a bb (g i)) (seq 0 n) = tab3 n a bb g.
Proof. reflexivity. Qed.

Theorem extract_construct_volume_w (b : vol) : valid_vol b ->
  construct_volume d kv_ok DW (v_pw b) (v_Uw b) (fst (fst (extract_surfaces d b))) = Ok b.
Proof.
  intros Hv. pose proof Hv as (H1 & H2 & H3 & H4 & H5 & H6 & H7 & H8 & H9 & H10).
  rewrite extract_surfaces_eq by lia. cbn [fst].
  rewrite construct_volume_sections with (pu := v_pu b) (pv := v_pv b) (su := v_su b) (sv := v_sv b) (Uu := v_Uu b) (Uv := v_Uv b);
    [|discriminate|rewrite map_length, seq_length; lia|exact H3|].
  - cbv zeta. rewrite map_length, seq_length, flat_map_map. cbn [s_P]. rewrite flat_map_tab2.
    replace (tab3 (v_sw b) (v_su b) (v_sv b) _) with (v_P b); [apply build_vol_ok; exact Hv|].
    symmetry. apply tab3_eq with (d := d); [rewrite H7; ring|]. intros i j k Hi Hj Hk. reflexivity.
  - apply Forall_forall. intros s Hs. apply in_map_iff in Hs. destruct Hs as (w & <- & _). cbn. tauto.
Qed.

Theorem extract_construct_volume_v (b : vol) : valid_vol b ->
  construct_volume d kv_ok DV (v_pv b) (v_Uv b) (snd (fst (extract_surfaces d b))) = Ok b.
Proof.
  intros Hv. pose proof Hv as (H1 & H2 & H3 & H4 & H5 & H6 & H7 & H8 & H9 & H10).
  rewrite extract_surfaces_eq by lia. cbn [fst snd].
  rewrite construct_volume_sections with (pu := v_pu b) (pv := v_pw b) (su := v_su b) (sv := v_sw b) (Uu := v_Uu b) (Uv := v_Uw b);
    [|discriminate|rewrite map_length, seq_length; lia|exact H2|].
  - cbv zeta. rewrite map_length, seq_length, flat_map_map. cbn [s_P]. rewrite flat_map_tab2.
    replace (tab3 (v_sw b) (v_su b) (v_sv b) _) with (v_P b); [apply build_vol_ok; exact Hv|].
    symmetry. apply tab3_eq with (d := d); [rewrite H7; ring|]. intros i j k Hi Hj Hk.
    unfold Layout.at_ at 1.
    replace (i + j * v_sw b + k * v_su b * v_sw b) with (i + v_sw b * (j + v_su b * k)) by ring.
    rewrite nth_tab3 by assumption. reflexivity.
  - apply Forall_forall. intros s Hs. apply in_map_iff in Hs. destruct Hs as (w & <- & _). cbn. tauto.
Qed.

Theorem extract_construct_volume_u (b : vol) : valid_vol b ->
  construct_volume d kv_ok DU (v_pu b) (v_Uu b) (snd (extract_surfaces d b)) = Ok b.
Proof.
  intros Hv. pose proof Hv as (H1 & H2 & H3 & H4 & H5 & H6 & H7 & H8 & H9 & H10).
  rewrite extract_surfaces_eq by lia. cbn [fst snd].
  rewrite construct_volume_sections with (pu := v_pv b) (pv := v_pw b) (su := v_sv b) (sv := v_sw b) (Uu := v_Uv b) (Uv := v_Uw b);
    [|discriminate|rewrite map_length, seq_length; lia|exact H1|].
  - cbv zeta. rewrite map_length, seq_length, flat_map_map. cbn [s_P]. rewrite flat_map_tab2.
    replace (tab3 (v_sw b) (v_su b) (v_sv b) _) with (v_P b); [apply build_vol_ok; exact Hv|].
    symmetry. apply tab3_eq with (d := d); [rewrite H7; ring|]. intros i j k Hi Hj Hk.
    unfold Layout.at_ at 1.
    replace (i + k * v_sw b + j * v_sv b * v_sw b) with (i + v_sw b * (k + v_sv b * j)) by ring.
    rewrite nth_tab3 by assumption. reflexivity.
  - apply Forall_forall. intros s Hs. apply in_map_iff in Hs. destruct Hs as (w & <- & _). cbn. tauto.
Qed.
End C.

Section S.
Context {A Kn : Type} (d : A) (kv_ok : nat -> list Kn -> nat -> bool) (tr : A -> A).
Notation at_ := (at_ d).

Lemma build_surf_fields pu pv su sv (P : list A) (Uu Uv : list Kn) s : build_surf kv_ok pu pv su sv P Uu Uv = Ok s ->
  s = mkSurf pu pv Uu Uv su sv P.
Proof.
  unfold build_surf. repeat match goal with |- context [if ?c then _ else _] => destruct c end; intros E; inversion E; reflexivity.
Qed.
Lemma build_vol_fields pu pv pw su sv sw (P : list A) (Uu Uv Uw : list Kn) b : build_vol kv_ok pu pv pw su sv sw P Uu Uv Uw = Ok b ->
  b = mkVol pu pv pw Uu Uv Uw su sv sw P.
Proof.
  unfold build_vol. repeat match goal with |- context [if ?c then _ else _] => destruct c end; intros E; inversion E; reflexivity.
Qed.

(* sweeping a curve: a surface with two u-sections, the input (u = 0) and its translate (u = 1), keeping the
   curve's degree and knots in the v direction *)
Theorem sweep_curve_boundaries kv2 (c : curve A Kn) s : sweep_curve d kv_ok tr kv2 c = Ok s ->
  s_su s = 2 /\ s_sv s = length (c_P c) /\ s_pv s = c_p c /\ s_Uv s = c_U c /\ s_pu s = 1 /\ s_Uu s = kv2 /\
  map (@c_P A Kn) (snd (extract_curves d s)) = [c_P c; map tr (c_P c)] /\
  (forall v, v < length (c_P c) -> at_ (s_P s) (idx2 (s_sv s) 0 v) = at_ (c_P c) v /\
                                   at_ (s_P s) (idx2 (s_sv s) 1 v) = tr (at_ (c_P c) v)).
Proof.
  unfold sweep_curve. intros E.
  rewrite construct_surface_sections with (p := c_p c) (n := length (c_P c)) (U := c_U c) in E; auto.
  2:{ repeat constructor; cbn; rewrite ?map_length; reflexivity. }
  apply build_surf_fields in E. subst s. cbn [s_su s_sv s_pu s_pv s_Uu s_Uv s_P length flat_map c_P].
  rewrite app_nil_r. repeat split.
  - unfold extract_curves. cbn [snd s_su s_sv s_P s_pv s_Uv seq map c_P]. f_equal; [|f_equal].
    + apply nth_ext with (d := d) (d' := d); [rewrite map_length, seq_length; reflexivity|].
      intros v Hv. rewrite map_length, seq_length in Hv. rewrite nth_map_seq by exact Hv.
      unfold Layout.at_. rewrite Nat.mul_0_r, Nat.add_0_r. apply app_nth1. exact Hv.
    + apply nth_ext with (d := d) (d' := d); [rewrite !map_length, seq_length; reflexivity|].
      intros v Hv. rewrite map_length, seq_length in Hv. rewrite nth_map_seq by exact Hv.
      unfold Layout.at_. rewrite Nat.mul_1_r. rewrite app_nth2 by lia. f_equal. lia.
  - unfold idx2, Layout.at_. rewrite Nat.mul_0_r, Nat.add_0_r. apply app_nth1. exact H.
  - unfold idx2, Layout.at_. rewrite Nat.mul_1_r. rewrite app_nth2 by lia.
    replace (v + length (c_P c) - length (c_P c)) with v by lia.
    rewrite nth_indep with (d' := tr d) by (rewrite map_length; exact H). apply map_nth.
Qed.

(* sweeping a surface: a volume with two w-layers, the input (w = 0) and its translate (w = 1) *)
Theorem sweep_surface_boundaries kv2 (s : surf A Kn) b : length (s_P s) = s_su s * s_sv s -> sweep_surface d kv_ok tr kv2 s = Ok b ->
  (v_su b, v_sv b, v_sw b) = (s_su s, s_sv s, 2) /\ (v_pu b, v_pv b, v_pw b) = (s_pu s, s_pv s, 1) /\
  (v_Uu b, v_Uv b, v_Uw b) = (s_Uu s, s_Uv s, kv2) /\
  (forall u v, u < s_su s -> v < s_sv s ->
     at_ (v_P b) (idx3 (v_su b) (v_sv b) u v 0) = at_ (s_P s) (idx2 (s_sv s) u v) /\
     at_ (v_P b) (idx3 (v_su b) (v_sv b) u v 1) = tr (at_ (s_P s) (idx2 (s_sv s) u v))).
Proof.
  unfold sweep_surface. intros HL E.
  rewrite construct_volume_sections with (pu := s_pu s) (pv := s_pv s) (su := s_su s) (sv := s_sv s) (Uu := s_Uu s) (Uv := s_Uv s) in E;
    [|discriminate|cbn; lia|discriminate|repeat constructor; cbn; tauto].
  cbv zeta in E. apply build_vol_fields in E. subst b.
  cbn [v_su v_sv v_sw v_pu v_pv v_pw v_Uu v_Uv v_Uw v_P length flat_map s_P]. rewrite app_nil_r.
  repeat split; intros; pose proof (idx2_lt _ _ u v H H0) as Hlt; unfold idx3, idx2 in *; unfold Layout.at_.
  - rewrite Nat.mul_0_r, Nat.add_0_r. apply app_nth1. lia.
  - rewrite Nat.mul_1_r. rewrite app_nth2 by nia.
    replace (v + s_sv s * (u + s_su s) - length (s_P s)) with (v + s_sv s * u) by nia.
    rewrite nth_indep with (d' := tr d) by (rewrite map_length; lia). apply map_nth.
Qed.
End S.

(* ------------------------------------------------------------------ evaluator subscripts at the knots of degree-1 shapes *)
Section E.
Context {A : Type} (d : A).
Lemma eval_knots2_reads_idx2 su sv (P : list A) : 2 <= su -> 2 <= sv ->
  eval_knots2 d su sv P = tab2 su sv (fun i j => at_ d P (idx2 sv i j)).
Proof.
  intros Hu Hv. unfold eval_knots2. apply (tab2_ext d). intros i j Hi Hj. rewrite ev_idx2_is_idx2. f_equal. f_equal; lia.
Qed.
Lemma eval_knots3_reads_idx3 su sv sw (P : list A) : 2 <= su -> 2 <= sv -> 2 <= sw ->
  eval_knots3 d su sv sw P = tab3 su sv sw (fun i j k => at_ d P (idx3 su sv i j k)).
Proof.
  intros Hu Hv Hw. unfold eval_knots3. apply (tab3_ext d). intros i j k Hi Hj Hk. rewrite ev_idx3_is_idx3. f_equal. f_equal; lia.
Qed.
End E.
