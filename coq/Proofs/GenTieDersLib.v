(* Helper lemmas for Proofs/GenTieDers.v.
   Tie: generated helpers.basis_function_ders (A2.3) = Model/Basis.v basis_function_ders, for every scalar instance.
   The model computes the ndu table with functional arrays (lock step with the generated loops), then - differently from
   the Python code - one column of derivatives per function index r with a FRESH 2 x (p+1) array `a`, and multiplies by
   the factors afterwards.  The Python code reuses one array `a` for all r and only resets a[0][0]: the proof shows that
   every entry of `a` that is read in step k was written in step k-1 of the same r (reads_in_W), so stale entries are
   never read. *)
From Coq Require Import List ZArith Arith Bool Lia QArith.
From NV Require Import Scalar.Ops Model.Common Model.Basis Gen.Prelude Gen.Helpers Proofs.GenTieLib Proofs.GenTieBasisOne.
Import ListNotations.
Local Open Scope nat_scope.

(* ---- which entries of a[s2] step k writes (= which entries of a[s1] step k+1 may read) ---- *)
Definition j1f (r k : nat) : nat := if Nat.leb k (S r) then 1 else k - r.
Definition j2f (p r k : nat) : nat := if Nat.leb (Nat.pred r) (p - k) then Nat.pred k else p - r.
Definition Wset (p r k j : nat) : Prop :=
  if Nat.eqb k O then j = O
  else (j = O /\ k <= r) \/ (j1f r k <= j /\ j <= j2f p r k) \/ (j = k /\ r <= p - k).

Lemma reads_in_W p r k : 1 <= k -> k <= p -> r <= p ->
  (k <= r -> Wset p r (k - 1) O)
  /\ (forall j, j1f r k <= j -> j <= j2f p r k -> Wset p r (k - 1) j /\ Wset p r (k - 1) (j - 1))
  /\ (r <= p - k -> Wset p r (k - 1) (k - 1)).
Proof.
  intros Hk Hkp Hr. unfold Wset, j1f, j2f.
  destruct (Nat.eqb_spec (k - 1) O) as [E|E].
  - (* k = 1 *)
    assert (k = 1) by lia. subst k. cbn [Nat.leb]. repeat split; try lia.
    + destruct (Nat.leb_spec (Nat.pred r) (p - 1)); lia.
    + destruct (Nat.leb_spec (Nat.pred r) (p - 1)); lia.
  - repeat split.
    + intros. left. lia.
    + destruct (Nat.leb_spec k (S r)); destruct (Nat.leb_spec (k - 1) (S r)); try (exfalso; lia);
        destruct (Nat.leb_spec (Nat.pred r) (p - k)); destruct (Nat.leb_spec (Nat.pred r) (p - (k - 1))); try (exfalso; lia);
        intros; (destruct (Nat.eq_dec j O); [left; lia|right; (destruct (Nat.eq_dec j (k - 1)); [right; lia|left; lia])]).
    + destruct (Nat.leb_spec k (S r)); destruct (Nat.leb_spec (k - 1) (S r)); try (exfalso; lia);
        destruct (Nat.leb_spec (Nat.pred r) (p - k)); destruct (Nat.leb_spec (Nat.pred r) (p - (k - 1))); try (exfalso; lia);
        intros; (destruct (Nat.eq_dec (j - 1) O); [left; lia|right; (destruct (Nat.eq_dec (j - 1) (k - 1)); [right; lia|left; lia])]).
    + intros. right. right. lia.
Qed.

Lemma j_bounds p r k j : 1 <= k -> k <= p -> r <= p -> j1f r k <= j -> j <= j2f p r k ->
  1 <= j /\ j <= p /\ k <= r + j /\ r + j - k <= p.
Proof.
  unfold j1f, j2f. intros.
  destruct (Nat.leb_spec k (S r)); destruct (Nat.leb_spec (Nat.pred r) (p - k)); lia.
Qed.

Section Tie.
Context {T : Type} (K : ops T).
Notation kn := (kn K).
Notation "0" := (o0 K).
Notation g2 := (get2 K).

Definition wfm (r c : nat) (N : list (list T)) : Prop := length N = r /\ forall j, j < r -> length (nth j N []) = c.

Lemma wfm_set2 r c N j k v : wfm r c N -> wfm r c (set2 N j k v).
Proof.
  intros [H1 H2]. unfold set2. split; [now rewrite upd_length|].
  intros j' Hj'. rewrite nth_upd. destruct (Nat.eqb_spec j j') as [->|Hne]; auto.
  destruct (Nat.ltb_spec j' (length N)); [|lia]. rewrite upd_length. auto.
Qed.

Lemma mk2_wfm r c x : wfm r c (mk2 r c x).
Proof. unfold mk2. split; [apply repeat_length|]. intros j Hj. rewrite nth_repeat_lt by lia. apply repeat_length. Qed.

Lemma mk2_get r c x i j : i < r -> j < c -> g2 (mk2 r c x) i j = x.
Proof. intros. unfold get2, mk2. rewrite nth_repeat_lt by lia. now apply nth_repeat_lt. Qed.

Lemma get_set2 r c N i j v a b : wfm r c N ->
  g2 (set2 N i j v) a b = if andb (Nat.eqb i a) (Nat.eqb j b) then (if andb (Nat.ltb a r) (Nat.ltb b c) then v else 0) else g2 N a b.
Proof.
  intros [H1 H2]. unfold get2, set2. rewrite nth_nth_upd2.
  destruct (Nat.eqb_spec i a) as [->|]; cbn [andb]; auto.
  destruct (Nat.eqb_spec j b) as [->|]; auto.
  rewrite H1. destruct (Nat.ltb_spec a r); cbn [andb]; auto. rewrite H2 by lia. reflexivity.
Qed.

Lemma get_set2_same r c N i j v : wfm r c N -> i < r -> j < c -> g2 (set2 N i j v) i j = v.
Proof.
  intros. rewrite (get_set2 r c) by auto. rewrite !Nat.eqb_refl. cbn [andb].
  destruct (Nat.ltb_spec i r); [|lia]. destruct (Nat.ltb_spec j c); [|lia]. reflexivity.
Qed.

Lemma get_set2_other r c N i j v a b : wfm r c N -> (i <> a \/ j <> b) -> g2 (set2 N i j v) a b = g2 N a b.
Proof.
  intros. rewrite (get_set2 r c) by auto.
  destruct (Nat.eqb_spec i a); destruct (Nat.eqb_spec j b); cbn [andb]; auto. lia.
Qed.

(* the generated   do row <- znth m i ;; do row' <- zset row j v ;; zset m i row'   is set2 *)
Lemma zset2 r c (N : list (list T)) (i j : Z) v : wfm r c N -> (0 <= i < Z.of_nat r)%Z -> (0 <= j < Z.of_nat c)%Z ->
  gbind (znth N i) (fun row => gbind (zset row j v) (fun row' => zset N i row')) = GOk (set2 N (Z.to_nat i) (Z.to_nat j) v).
Proof.
  intros [H1 H2] Hi Hj. rewrite (znth_Z N i []) by lia. cbn [gbind].
  rewrite zset_Z by (rewrite H2; lia). cbn [gbind]. rewrite zset_Z by lia. reflexivity.
Qed.

Lemma zget2 r c (N : list (list T)) (i j : Z) : wfm r c N -> (0 <= i < Z.of_nat r)%Z -> (0 <= j < Z.of_nat c)%Z ->
  forall B (k : T -> gres B), gbind (znth N i) (fun row => gbind (znth row j) k) = k (g2 N (Z.to_nat i) (Z.to_nat j)).
Proof.
  intros [H1 H2] Hi Hj B k. rewrite (znth_Z N i []) by lia. cbn [gbind].
  rewrite (znth_Z _ j 0) by (rewrite H2; lia). reflexivity.
Qed.

(* the two arrays a agree on row s at the columns in S *)
Definition agree (p : nat) (aG aM : list (list T)) (s : nat) (S : nat -> Prop) : Prop :=
  forall j, S j -> j <= p -> g2 aG s j = g2 aM s j.

Lemma agree_set2 p aG aM s c v (S : nat -> Prop) : wfm 2 (Datatypes.S p) aG -> wfm 2 (Datatypes.S p) aM -> s < 2 -> c <= p ->
  agree p aG aM s S -> agree p (set2 aG s c v) (set2 aM s c v) s (fun j => S j \/ j = c).
Proof.
  intros WG WM Hs Hc H j Hj Hjp.
  destruct (Nat.eq_dec j c) as [->|Hne].
  - rewrite !(get_set2_same 2 (Datatypes.S p)) by (auto; lia). reflexivity.
  - rewrite !(get_set2_other 2 (Datatypes.S p)) by (auto; lia). apply H; auto. destruct Hj; [auto|lia].
Qed.

Lemma agree_set2_other p aG aM s s' c v v' (S : nat -> Prop) : wfm 2 (Datatypes.S p) aG -> wfm 2 (Datatypes.S p) aM -> s <> s' ->
  agree p aG aM s S -> agree p (set2 aG s' c v) (set2 aM s' c v') s S.
Proof.
  intros WG WM Hs H j Hj Hjp. rewrite !(get_set2_other 2 (Datatypes.S p)) by (auto; lia). apply H; auto.
Qed.

Lemma agree_weaken p aG aM s (S S' : nat -> Prop) : (forall j, S' j -> S j) -> agree p aG aM s S -> agree p aG aM s S'.
Proof. intros HS H j Hj. apply H. auto. Qed.
End Tie.

Section Tie2.
Context {T : Type} (K : ops T).
Notation "0" := (o0 K).
Notation g2 := (get2 K).
(* continuation forms of the 2-D accesses the generated code makes *)
Lemma zget2k r c (N : list (list T)) (i j : Z) {B} (k : T -> gres B) :
  wfm r c N -> (0 <= i < Z.of_nat r)%Z -> (0 <= j < Z.of_nat c)%Z ->
  gbind (znth N i) (fun row => gbind (znth row j) k) = k (g2 N (Z.to_nat i) (Z.to_nat j)).
Proof.
  intros [H1 H2] Hi Hj. rewrite (znth_Z N i []) by lia. cbn [gbind].
  rewrite (znth_Z _ j 0) by (rewrite H2; lia). reflexivity.
Qed.
Lemma zset2k r c (N : list (list T)) (i j : Z) v {B} (k : list (list T) -> gres B) :
  wfm r c N -> (0 <= i < Z.of_nat r)%Z -> (0 <= j < Z.of_nat c)%Z ->
  gbind (znth N i) (fun row => gbind (zset row j v) (fun row' => gbind (zset N i row') k)) = k (set2 N (Z.to_nat i) (Z.to_nat j) v).
Proof.
  intros [H1 H2] Hi Hj. rewrite (znth_Z N i []) by lia. cbn [gbind].
  rewrite zset_Z by (rewrite H2; lia). cbn [gbind]. rewrite zset_Z by lia. reflexivity.
Qed.
End Tie2.
