(* C05: the list X of knots that helpers.knot_refinement inserts by default (Model.KnotRefine.refine_plan with
   knot_list = None, add_knot_list = []): the distinct knots of U[p:-p], bisected `density` times, each value as often
   as its multiplicity in U is short of the degree.  Characterisation of X as a multiset, and the facts about X
   that the general A5.4 theorems (Proofs/RefineGeneral.v) need. *)
From Coq Require Import List Reals Lra Lia Arith Bool Permutation Sorted.
From NV Require Import Scalar.Ops Model.Common Model.Basis Model.KnotIns Model.InsertKnot Model.KnotRefine
  Proofs.BasisR Proofs.KnotInsR Proofs.KnotRefineR Proofs.RefineGenI.
Import ListNotations.
Local Open Scope nat_scope.

Notation strictR := (StronglySorted Rlt).
Notation cnt := (count_occ Req_EM_T).

(* ---------- sorted(set(l)) ---------- *)
Lemma ins_uniq_In x : forall l z, In z (ins_uniq Rops x l) <-> z = x \/ In z l.
Proof.
  induction l as [|y r IH]; intros z; cbn [ins_uniq].
  - cbn. intuition.
  - rsimp. unfold Rltb, Rleb. destruct (Rlt_dec x y) as [Hlt|Hnlt].
    + cbn [In]. intuition.
    + destruct (Rle_dec x y) as [Hle|Hnle].
      * assert (x = y) by lra. subst y. cbn [In]. intuition.
      * cbn [In]. rewrite IH. intuition.
Qed.

Lemma ins_uniq_strict x : forall l, strictR l -> strictR (ins_uniq Rops x l).
Proof.
  induction l as [|y r IH]; intros Hs; cbn [ins_uniq].
  - constructor; constructor.
  - apply StronglySorted_inv in Hs. destruct Hs as [Hr Hy].
    rsimp. unfold Rltb, Rleb. destruct (Rlt_dec x y) as [Hlt|Hnlt].
    + constructor; [constructor; assumption|]. constructor; [exact Hlt|].
      rewrite Forall_forall in *. intros z Hz. specialize (Hy z Hz). lra.
    + destruct (Rle_dec x y) as [Hle|Hnle].
      * constructor; assumption.
      * constructor; [apply IH; exact Hr|]. rewrite Forall_forall in *. intros z Hz.
        apply ins_uniq_In in Hz. destruct Hz as [->|Hz]; [lra|apply Hy; exact Hz].
Qed.

Lemma sort_uniq_gen : forall l acc, strictR acc ->
  strictR (fold_left (fun acc x => ins_uniq Rops x acc) l acc) /\
  forall z, In z (fold_left (fun acc x => ins_uniq Rops x acc) l acc) <-> In z l \/ In z acc.
Proof.
  induction l as [|x l IH]; intros acc Hs; cbn [fold_left].
  - split; [exact Hs|]. intros z. cbn. intuition.
  - destruct (IH (ins_uniq Rops x acc) (ins_uniq_strict x acc Hs)) as [H1 H2]. split; [exact H1|].
    intros z. rewrite H2, ins_uniq_In. cbn [In]. intuition.
Qed.

Lemma sort_uniq_spec l : strictR (sort_uniq Rops l) /\ forall z, In z (sort_uniq Rops l) <-> In z l.
Proof.
  unfold sort_uniq. destruct (sort_uniq_gen l [] ltac:(constructor)) as [H1 H2]. split; [exact H1|].
  intros z. rewrite H2. cbn. intuition.
Qed.

(* ---------- bisection keeps the list strictly increasing, inside its bounds, and keeps the old entries ---------- *)
Lemma bisect_bounds lo hi : forall l, (forall w, In w l -> (lo <= w <= hi)%R) ->
  forall z, In z (bisect Rops l) -> (lo <= z <= hi)%R.
Proof.
  induction l as [|x r IH]; intros Hb z Hz; [destruct Hz|].
  destruct r as [|y r'].
  - cbn in Hz. destruct Hz as [<-|[]]. apply Hb. left. reflexivity.
  - change (bisect Rops (x :: y :: r')) with (x :: mid Rops x y :: bisect Rops (y :: r')) in Hz.
    destruct Hz as [<-|[<-|Hz]].
    + apply Hb. left. reflexivity.
    + assert (lo <= x <= hi)%R by (apply Hb; left; reflexivity).
      assert (lo <= y <= hi)%R by (apply Hb; right; left; reflexivity).
      unfold mid, o2. rsimp. lra.
    + apply IH; [|exact Hz]. intros w Hw. apply Hb. right. exact Hw.
Qed.

Lemma bisect_In : forall l z, In z l -> In z (bisect Rops l).
Proof.
  induction l as [|x r IH]; intros z Hz; [destruct Hz|].
  destruct r as [|y r'].
  - exact Hz.
  - change (bisect Rops (x :: y :: r')) with (x :: mid Rops x y :: bisect Rops (y :: r')).
    destruct Hz as [<-|Hz]; [left; reflexivity|]. right. right. apply IH. exact Hz.
Qed.

Lemma bisect_lower : forall l lo, (forall w, In w l -> (lo <= w)%R) -> forall z, In z (bisect Rops l) -> (lo <= z)%R.
Proof.
  induction l as [|x r IH]; intros lo Hb z Hz; [destruct Hz|].
  destruct r as [|y r'].
  - cbn in Hz. destruct Hz as [<-|[]]. apply Hb. left. reflexivity.
  - change (bisect Rops (x :: y :: r')) with (x :: mid Rops x y :: bisect Rops (y :: r')) in Hz.
    destruct Hz as [<-|[<-|Hz]].
    + apply Hb. left. reflexivity.
    + assert (lo <= x)%R by (apply Hb; left; reflexivity).
      assert (lo <= y)%R by (apply Hb; right; left; reflexivity).
      unfold mid, o2. rsimp. lra.
    + apply (IH lo); [|exact Hz]. intros w Hw. apply Hb. right. exact Hw.
Qed.

Lemma bisect_strict : forall l, strictR l -> strictR (bisect Rops l).
Proof.
  induction l as [|x r IH]; intros Hs; [constructor|].
  destruct r as [|y r'].
  - exact Hs.
  - change (bisect Rops (x :: y :: r')) with (x :: mid Rops x y :: bisect Rops (y :: r')).
    apply StronglySorted_inv in Hs. destruct Hs as [Hr Hx].
    pose proof Hr as Hr'. apply StronglySorted_inv in Hr'. destruct Hr' as [_ Hy].
    assert (Hxy : (x < y)%R) by (inversion Hx; assumption).
    assert (Hge : forall z, In z (bisect Rops (y :: r')) -> (y <= z)%R).
    { intros z Hz. apply (bisect_lower (y :: r') y); [|exact Hz].
      intros w [<-|Hw]; [lra|]. rewrite Forall_forall in Hy. specialize (Hy w Hw). lra. }
    assert (Hmid : (x < mid Rops x y < y)%R) by (unfold mid, o2; rsimp; lra).
    constructor; [constructor; [apply IH; exact Hr|]|].
    + rewrite Forall_forall. intros z Hz. specialize (Hge z Hz). lra.
    + constructor; [lra|]. rewrite Forall_forall. intros z Hz. specialize (Hge z Hz). lra.
Qed.

Lemma iter_bisect_spec d : forall l lo hi, strictR l -> (forall w, In w l -> (lo <= w <= hi)%R) ->
  strictR (iter_bisect Rops d l) /\ (forall z, In z (iter_bisect Rops d l) -> (lo <= z <= hi)%R) /\
  (forall z, In z l -> In z (iter_bisect Rops d l)).
Proof.
  induction d as [|d IH]; intros l lo hi Hs Hb; cbn [iter_bisect].
  - repeat split; auto; apply Hb; assumption.
  - destruct (IH (bisect Rops l) lo hi (bisect_strict l Hs) (bisect_bounds lo hi l Hb)) as [H1 [H2 H3]].
    split; [exact H1|]. split; [exact H2|]. intros z Hz. apply H3. apply bisect_In. exact Hz.
Qed.

(* ---------- multiplicity with a separating tolerance = number of occurrences ---------- *)
Lemma oabs_Rabs z : oabs Rops z = Rabs z.
Proof.
  unfold oabs, oneg. rsimp. unfold Rleb. destruct (Rle_dec 0 z) as [H|H].
  - rewrite Rabs_right; lra.
  - rewrite Rabs_left; lra.
Qed.

Lemma find_multiplicity_count tol v : forall U, (0 <= tol)%R ->
  (forall y, In y U -> (Rabs (v - y) <= tol)%R -> y = v) ->
  find_multiplicity Rops tol v U = cnt U v.
Proof.
  intros U Ht. unfold find_multiplicity. induction U as [|y U IH]; intros Hsep; [reflexivity|].
  cbn [filter count_occ]. rewrite oabs_Rabs. rsimp. unfold Rleb.
  destruct (Rle_dec (Rabs (v - y)) tol) as [Hle|Hn].
  - assert (y = v) by (apply Hsep; [left; reflexivity|exact Hle]). subst y.
    destruct (Req_EM_T v v); [|congruence]. cbn [length]. f_equal. apply IH. intros y Hy. apply Hsep. right. exact Hy.
  - destruct (Req_EM_T y v) as [E|E].
    + subst y. exfalso. apply Hn. replace (v - v)%R with 0%R by ring. rewrite Rabs_R0. exact Ht.
    + apply IH. intros y' Hy. apply Hsep. right. exact Hy.
Qed.

(* ---------- repeat-each lists over a strictly increasing list ---------- *)
Lemma StronglySorted_sortedR l : StronglySorted Rle l -> sortedR l.
Proof.
  induction 1 as [|x l Hs IH Hx]; intros i j Hij; cbn [length] in Hij.
  - lia.
  - unfold kn. cbn [o0 Rops]. destruct i as [|i]; destruct j as [|j]; cbn [nth]; try lia.
    + lra.
    + rewrite Forall_forall in Hx. apply Hx. apply nth_In. lia.
    + apply IH. lia.
Qed.

Lemma strict_lt_In x l : strictR (x :: l) -> forall z, In z l -> (x < z)%R.
Proof. intros H z Hz. apply StronglySorted_inv in H. destruct H as [_ H]. rewrite Forall_forall in H. apply H. exact Hz. Qed.

Lemma flat_repeat_In (f : R -> nat) : forall L z, In z (flat_map (fun v => repeat v (f v)) L) -> In z L /\ 0 < f z.
Proof.
  induction L as [|v L IH]; intros z Hz; cbn [flat_map] in Hz; [destruct Hz|].
  apply in_app_or in Hz. destruct Hz as [Hz|Hz].
  - apply repeat_spec in Hz as E. subst z. split; [left; reflexivity|]. destruct (f v); [destruct Hz|lia].
  - destruct (IH z Hz). split; [right|]; assumption.
Qed.

Lemma flat_repeat_sorted (f : R -> nat) : forall L, strictR L -> StronglySorted Rle (flat_map (fun v => repeat v (f v)) L).
Proof.
  induction L as [|v L IH]; intros Hs; cbn [flat_map]; [constructor|].
  pose proof (strict_lt_In v L Hs) as Hv. apply StronglySorted_inv in Hs. destruct Hs as [Hs _].
  specialize (IH Hs). induction (f v) as [|n IHn]; cbn [repeat app]; [exact IH|].
  constructor; [exact IHn|]. rewrite Forall_forall. intros z Hz. apply in_app_or in Hz. destruct Hz as [Hz|Hz].
  - apply repeat_spec in Hz. subst z. lra.
  - apply flat_repeat_In in Hz. destruct Hz as [Hz _]. specialize (Hv z Hz). lra.
Qed.

Lemma flat_repeat_count (f : R -> nat) : forall L, strictR L -> forall z,
  cnt (flat_map (fun v => repeat v (f v)) L) z = if in_dec Req_EM_T z L then f z else 0.
Proof.
  induction L as [|v L IH]; intros Hs z; cbn [flat_map]; [reflexivity|].
  pose proof (strict_lt_In v L Hs) as Hv. apply StronglySorted_inv in Hs. destruct Hs as [Hs _].
  rewrite count_occ_app, (IH Hs).
  destruct (Req_EM_T z v) as [E|E].
  - subst z. rewrite count_occ_repeat_eq by reflexivity.
    destruct (in_dec Req_EM_T v L) as [Hin|_]; [specialize (Hv v Hin); lra|].
    destruct (in_dec Req_EM_T v (v :: L)) as [_|Hn]; [lia|exfalso; apply Hn; left; reflexivity].
  - rewrite count_occ_repeat_neq by exact E.
    destruct (in_dec Req_EM_T z L) as [Hin|Hn]; destruct (in_dec Req_EM_T z (v :: L)) as [Hin'|Hn']; try reflexivity.
    + exfalso. apply Hn'. right. exact Hin.
    + exfalso. destruct Hin' as [E'|Hin']; [congruence|contradiction].
Qed.

Lemma flat_map_ext_in_ {A B} (f g : A -> list B) : forall l, (forall a, In a l -> f a = g a) -> flat_map f l = flat_map g l.
Proof.
  induction l as [|a l IH]; intros H; cbn [flat_map]; [reflexivity|].
  rewrite H by (left; reflexivity). rewrite IH by (intros; apply H; right; assumption). reflexivity.
Qed.

(* ---------- [G] 3. the list of knots to insert: any knot_list / add_knot_list ---------- *)
Section Plan.
Variables (tol : R) (p : nat) (U : list R) (d : nat) (kl : list R) (lo hi : R).
Hypothesis Htol0 : (0 <= tol)%R.
Hypothesis Hkl : forall z, In z kl -> (lo <= z <= hi)%R.

(* the distinct listed values, bisected d times *)
Definition refine_Lk : list R := iter_bisect Rops d (sort_uniq Rops kl).
(* the tolerance of find_multiplicity does not identify a listed value with a different knot *)
Hypothesis Hsep : forall v y, In v refine_Lk -> In y U -> (Rabs (v - y) <= tol)%R -> y = v.

Lemma refine_Lk_spec :
  strictR refine_Lk /\ (forall z, In z refine_Lk -> (lo <= z <= hi)%R) /\ (forall z, In z kl -> In z refine_Lk).
Proof.
  destruct (sort_uniq_spec kl) as [Hs Hin].
  destruct (iter_bisect_spec d (sort_uniq Rops kl) lo hi Hs) as [H1 [H2 H3]].
  - intros w Hw. apply Hkl. apply Hin. exact Hw.
  - split; [exact H1|]. split; [exact H2|]. intros z Hz. apply H3. apply Hin. exact Hz.
Qed.

Definition refine_Xk : list R := refine_X Rops tol p U refine_Lk.

Lemma refine_Xk_eq : refine_Xk = flat_map (fun v => repeat v (p - cnt U v)) refine_Lk.
Proof.
  unfold refine_Xk, refine_X. apply flat_map_ext_in_. intros v Hv.
  rewrite find_multiplicity_count; [reflexivity|exact Htol0|]. intros y Hy. apply Hsep; assumption.
Qed.

(* the multiset X: every value of the bisected list exactly (p - its multiplicity in U) times, nothing else;
   X is sorted and lies between the bounds of the listed values *)
Theorem refine_Xk_spec :
  strictR refine_Lk /\ sortedR refine_Xk /\
  (forall z, cnt refine_Xk z = if in_dec Req_EM_T z refine_Lk then p - cnt U z else 0) /\
  (forall z, In z refine_Xk -> In z refine_Lk /\ cnt U z < p /\ (lo <= z <= hi)%R).
Proof.
  destruct refine_Lk_spec as [Hs [Hb Hk]]. rewrite refine_Xk_eq.
  split; [exact Hs|]. split; [apply StronglySorted_sortedR, flat_repeat_sorted; exact Hs|].
  split; [apply flat_repeat_count; exact Hs|].
  intros z Hz. apply flat_repeat_In in Hz. destruct Hz as [Hz Hc]. split; [exact Hz|]. split; [lia|apply Hb; exact Hz].
Qed.

(* after any operation that returns a permutation of U ++ X (A5.4 does): every listed value whose multiplicity in U
   did not exceed p has multiplicity exactly p; all other values keep their multiplicity *)
Theorem refine_multiplicities_k V : Permutation V (U ++ refine_Xk) ->
  (forall z, In z refine_Lk -> cnt U z <= p -> cnt V z = p) /\
  (forall z, ~ In z refine_Lk -> cnt V z = cnt U z).
Proof.
  intros HP. destruct refine_Xk_spec as [Hs [_ [Hc Hin]]].
  assert (HV : forall z, cnt V z = cnt U z + cnt refine_Xk z).
  { intros z. rewrite (proj1 (Permutation_count_occ Req_EM_T _ _) HP z). apply count_occ_app. }
  split.
  - intros z Hz Hle. rewrite HV, Hc. destruct (in_dec Req_EM_T z refine_Lk); [lia|contradiction].
  - intros z Hz. rewrite HV, Hc. destruct (in_dec Req_EM_T z refine_Lk); [contradiction|lia].
Qed.
End Plan.

(* the helper's plan is this list (any knot_list, add_knot_list, density; check_num on or off) *)
Lemma refine_plan_X tol check p U klo add d X : refine_plan Rops tol check p U klo add d = Ok X ->
  let kl := (match klo with Some l => l | None => slice U p (length U - p) end) ++ add in
  X = refine_Xk tol p U d kl /\ X <> [] /\ (check = true -> 1 <= d).
Proof.
  unfold refine_plan. cbv zeta. destruct (andb check (Nat.eqb d 0)) eqn:Ec; [discriminate|].
  destruct (andb (Nat.ltb 0 d) _); [discriminate|].
  fold (refine_Lk d ((match klo with Some l => l | None => slice U p (length U - p) end) ++ add)).
  fold (refine_Xk tol p U d ((match klo with Some l => l | None => slice U p (length U - p) end) ++ add)).
  destruct (refine_Xk tol p U d _) as [|x0 Xr] eqn:E; [discriminate|].
  intros H. inversion H. subst X. split; [reflexivity|]. split; [discriminate|].
  intros ->. destruct (Nat.eqb_spec d 0); [discriminate|lia].
Qed.

(* ---------- the default list (knot_list = U[p:-p], no additional knots) ---------- *)
Section Default.
Variables (tol : R) (p : nat) (U : list R) (d : nat).
Hypothesis Usorted : sortedR U.
Hypothesis HlenU : 2 * p < length U.
Hypothesis Htol0 : (0 <= tol)%R.

(* the distinct knots of U[p:-p], bisected d times *)
Definition refine_L : list R := refine_Lk d (slice U p (length U - p)).
(* the tolerance of find_multiplicity does not identify a listed value with a different knot *)
Hypothesis Hsep : forall v y, In v refine_L -> In y U -> (Rabs (v - y) <= tol)%R -> y = v.

Lemma slice_In z : In z (slice U p (length U - p)) <-> exists j, p <= j < length U - p /\ knR U j = z.
Proof.
  unfold slice. split.
  - intros Hz. apply (In_nth _ _ 0%R) in Hz. destruct Hz as [q [Hq E]].
    rewrite firstn_length, skipn_length in Hq.
    rewrite nth_firstn_lt in E by lia. rewrite nth_skipn_add in E.
    exists (p + q). split; [lia|exact E].
  - intros [j [Hj E]]. subst z. unfold kn. cbn [o0 Rops].
    replace j with (p + (j - p)) by lia. rewrite <- nth_skipn_add.
    rewrite <- (nth_firstn_lt (skipn p U) (length U - p - p)) by lia.
    apply nth_In. rewrite firstn_length, skipn_length. lia.
Qed.

Lemma slice_bounds z : In z (slice U p (length U - p)) -> (knR U p <= z <= knR U (length U - p - 1))%R.
Proof. intros Hz. apply slice_In in Hz. destruct Hz as [j [Hj <-]]. split; apply Usorted; lia. Qed.

Lemma refine_L_spec :
  strictR refine_L /\
  (forall z, In z refine_L -> (knR U p <= z <= knR U (length U - p - 1))%R) /\
  (forall j, p <= j < length U - p -> In (knR U j) refine_L).
Proof.
  destruct (refine_Lk_spec d (slice U p (length U - p)) _ _ slice_bounds) as [H1 [H2 H3]].
  split; [exact H1|]. split; [exact H2|]. intros j Hj. apply H3. apply slice_In. exists j. split; [exact Hj|reflexivity].
Qed.

Definition refine_Xd : list R := refine_Xk tol p U d (slice U p (length U - p)).

(* the multiset X: every value of the bisected list exactly (p - its multiplicity in U) times, nothing else;
   X is sorted and lies in the domain [U_p, U_{m-p}] *)
Theorem refine_default_X_spec :
  strictR refine_L /\ sortedR refine_Xd /\
  (forall z, cnt refine_Xd z = if in_dec Req_EM_T z refine_L then p - cnt U z else 0) /\
  (forall z, In z refine_Xd -> In z refine_L /\ cnt U z < p /\ (knR U p <= z <= knR U (length U - p - 1))%R).
Proof. exact (refine_Xk_spec tol p U d (slice U p (length U - p)) _ _ Htol0 slice_bounds Hsep). Qed.

(* the helper's plan is this list *)
Lemma refine_plan_default X : refine_plan Rops tol true p U None [] d = Ok X -> X = refine_Xd /\ X <> [] /\ 1 <= d.
Proof.
  intros H. apply refine_plan_X in H. cbv zeta in H. rewrite app_nil_r in H. destruct H as [H1 [H2 H3]].
  split; [exact H1|]. split; [exact H2|apply H3; reflexivity].
Qed.

(* after any operation that returns a permutation of U ++ X (A5.4 does, refine_kv_is_merge): every listed value whose
   multiplicity in U did not exceed p has multiplicity exactly p; all other values keep their multiplicity *)
Theorem refine_default_multiplicities V : Permutation V (U ++ refine_Xd) ->
  (forall z, In z refine_L -> cnt U z <= p -> cnt V z = p) /\
  (forall z, ~ In z refine_L -> cnt V z = cnt U z) /\
  (* in particular every knot of V strictly inside the domain *)
  (forall z, In z V -> (knR U p < z < knR U (length U - p - 1))%R -> cnt U z <= p -> cnt V z = p).
Proof.
  intros HP. destruct refine_default_X_spec as [Hs [_ [Hc Hin]]]. destruct refine_L_spec as [_ [_ Hk]].
  destruct (refine_multiplicities_k tol p U d (slice U p (length U - p)) _ _ Htol0 slice_bounds Hsep V HP) as [H1 H2].
  split; [exact H1|]. split; [exact H2|].
  intros z Hz Hdom Hle. apply H1; [|exact Hle].
  apply (Permutation_in _ HP) in Hz. apply in_app_or in Hz. destruct Hz as [Hz|Hz]; [|apply Hin; exact Hz].
  apply (In_nth _ _ 0%R) in Hz. destruct Hz as [j [Hj E]]. change (knR U j = z) in E. subst z.
  apply Hk. destruct (le_lt_dec p j) as [H1'|H1'].
  + destruct (le_lt_dec (length U - p) j) as [H2'|H2']; [|lia].
    exfalso. assert (knR U (length U - p - 1) <= knR U j)%R by (apply Usorted; lia). lra.
  + exfalso. assert (knR U j <= knR U p)%R by (apply Usorted; lia). lra.
Qed.
End Default.
