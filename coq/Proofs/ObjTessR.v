(* C12: the tessellation aggregates of a SurfaceContainer (multi.SurfaceContainer.vertices / faces, Model/Obj.v c_tess,
   c_fill_tess, c_read_tess) are covered by a container invariant like the sampled-points cache (Proofs/ObjR.v Cinv):
   after any history whose steps satisfy the side condition, the cache is empty or equals the aggregate (vertices
   concatenated, faces re-indexed by the vertex offset) of the freshly tessellated elements at the container's density,
   and a vertices/faces read returns exactly that aggregate.  The view functions and the scalar type are arbitrary.
   New file; nothing existing is modified. *)
From Coq Require Import List Arith Bool Lia.
From NV Require Import Scalar.Ops Model.Common Model.Knots Model.Weights Model.Equal Model.Obj Proofs.ObjR.
Import ListNotations.
Local Open Scope nat_scope.

Section TW.
Context {T : Type} (K : ops T).
Variable f_ev : @defn T -> list (list T).
Variable f_bbox : list (list T) -> list T * list T.
Variable f_tess : nat -> @defn T -> list (list T) -> list (list T) * list (list nat).
Notation obj := (@obj T). Notation world := (@world T). Notation tessres := (@tessres T).
Notation oinv := (oinv K f_ev f_bbox f_tess).
Notation ginv := (ginv K f_ev f_bbox f_tess).
Notation Cinv := (Cinv K f_ev).
Notation wstep := (wstep K f_ev f_bbox f_tess).
Notation cstep := (cstep K f_ev f_bbox f_tess).
Notation gstep := (gstep K f_ev f_bbox f_tess).
Notation wrun := (wrun K f_ev f_bbox f_tess).
Notation dld := (dld K).

(* ---------------------------------------------------------------- the aggregate *)
(* SurfaceContainer.tessellate: vertices concatenated, faces shifted by the number of vertices collected so far *)
Definition agg_step (acc te : tessres) : tessres :=
  (fst acc ++ fst te, snd acc ++ offset_faces (length (fst acc)) (snd te)).
Definition agg (ms : list tessres) : tessres := fold_left agg_step ms ([], []).
(* closed form: the faces of element n are shifted by the total number of vertices of the elements before it *)
Fixpoint faces_from (off : nat) (ms : list tessres) : list (list nat) :=
  match ms with [] => [] | m :: r => offset_faces off (snd m) ++ faces_from (off + length (fst m)) r end.
Lemma agg_fold ms : forall acc,
  fold_left agg_step ms acc = (fst acc ++ concat (map fst ms), snd acc ++ faces_from (length (fst acc)) ms).
Proof.
  induction ms as [|m r IH]; intros [v f]; cbn [fold_left map concat faces_from fst snd].
  - rewrite !app_nil_r. reflexivity.
  - rewrite IH. unfold agg_step. cbn [fst snd]. rewrite app_length, <- !app_assoc. reflexivity.
Qed.
Theorem agg_spec ms : agg ms = (concat (map fst ms), faces_from 0 ms).
Proof. unfold agg. rewrite agg_fold. reflexivity. Qed.

(* what a freshly built element reports as vertices / faces: spacing 1 tessellation of its sampled points (surfaces) *)
Definition etess (d : @defn T) : tessres := if Nat.eqb (d_pdim d) 2 then f_tess 1 d (f_ev d) else ([], []).
Definition tess_val (o : obj) : tessres := match o_tess o with Some (_, x) => x | None => ([], []) end.
Lemma etess_fresh d ids : etess d = tess_val (tessellate f_ev f_tess (fresh d ids) 0).
Proof.
  unfold etess, tessellate, tess_val. destruct (Nat.eqb (d_pdim d) 2) eqn:P; cbn [fresh o_def]; rewrite P; [|reflexivity].
  cbn [Nat.eqb is_tessellated fresh o_tess]. unfold do_tess, read_eval. cbn. reflexivity.
Qed.
Lemma etess_fresh_read d ids : etess d = snd (read_tess f_ev f_tess (fresh d ids)).
Proof. unfold read_tess. cbn [snd]. apply etess_fresh. Qed.

(* the aggregate a container must report: its elements, each at the container's density (dld = "elem.delta = delta") *)
Definition ctderive (w : world) (c : @cont T) : tessres :=
  agg (map (fun i => etess (dld (o_def (geom w i)) 0 (c_delta c))) (c_elems c)).
Definition ctinv (w : world) (c : @cont T) : Prop := c_tess c = None \/ c_tess c = Some (ctderive w c).
(* the container invariant extended to the tessellation aggregates *)
Definition CTinv (w : world) : Prop := Cinv w /\ forall j, ctinv w (contr w j).

(* side condition: ObjR.safe (for the sampled-points caches) and the same for the tessellation caches: the operation does not
   modify a geometry held by ANOTHER container whose vertices/faces cache is filled *)
Definition safe_t (w : world) (o : @wop T) : Prop :=
  forall j', (match o with C j _ => j' <> j | _ => True end) -> c_tess (contr w j') <> None ->
  forall i, In i (wfoot w o) -> ~ In i (c_elems (contr w j')).
Definition safe2 (w : world) (o : @wop T) : Prop := safe w o /\ safe_t w o.

Lemma ctderive_ext (w w' : world) c : (forall i, In i (c_elems c) -> o_def (geom w' i) = o_def (geom w i)) ->
  ctderive w' c = ctderive w c.
Proof. intro H. unfold ctderive. f_equal. apply map_ext_in. intros i Hi. rewrite H by exact Hi. reflexivity. Qed.

(* ---------------------------------------------------------------- one element touched by the container *)
Lemma tessellate0_val (o : obj) : oinv o -> o_tess o = None ->
  tess_val (tessellate f_ev f_tess o 0) = etess (o_def o).
Proof.
  intros H N. unfold tessellate, etess. destruct (Nat.eqb (d_pdim (o_def o)) 2) eqn:P.
  - apply Nat.eqb_eq in P. cbn [Nat.eqb]. unfold is_tessellated. rewrite N.
    destruct (do_tess_spec K f_ev f_bbox f_tess o 1 H P (le_n 1)) as (_ & _ & X). unfold tess_val. rewrite X. reflexivity.
  - unfold tess_val. rewrite N. reflexivity.
Qed.
Lemma c_touch_tess_val c (o : obj) n : oinv o ->
  tess_val (c_touch_tess K f_ev f_tess c o n) = etess (o_def (c_touch_tess K f_ev f_tess c o n)).
Proof.
  intro H. unfold c_touch_tess. pose proof (set_delta_list_pres K f_ev f_bbox f_tess (c_delta c) o 0 n H) as H1.
  set (o1 := set_delta_list K o 0 (c_delta c) n) in *.
  pose proof (reset_eval_inv K f_ev f_bbox f_tess _ H1) as H2.
  destruct (read_eval_spec K f_ev f_bbox f_tess _ H2) as (H3 & _ & D).
  assert (N : o_tess (fst (read_eval f_ev (reset_eval o1))) = None).
  { unfold read_eval. cbn [reset_eval o_eval is_nil fst o_tess o_def].
    destruct (Nat.eqb (d_pdim (o_def o1)) 2) eqn:P; [reflexivity|].
    destruct H1 as [_ _ _ _ _ F]. destruct F as [F|(F & _)]; [exact F|]. rewrite F in P. discriminate. }
  rewrite (tessellate0_val _ H3 N). rewrite (proj2 (tessellate_spec K f_ev f_bbox f_tess _ 0 H3)). reflexivity.
Qed.

Lemma fold_left_map {A B C} (g : A -> B -> A) (h : C -> B) l : forall a,
  fold_left (fun acc i => g acc (h i)) l a = fold_left g (map h l) a.
Proof. induction l as [|x l IH]; intro a; [reflexivity|]. cbn [fold_left map]. apply IH. Qed.

(* what c_fill_tess stores and returns, in terms of the world before the call *)
Lemma c_fill_tess_eq (w : world) j : ginv w -> crange w ->
  let c := contr w j in
  let w1 := fold_left (fun wa i => put_geom wa i (c_touch_tess K f_ev f_tess c (geom wa i) (w_next wa))) (c_elems c) w in
  c_fill_tess K f_ev f_tess w j =
    (put_cont w1 j (mkCont (c_pdim c) (c_dim c) (c_delta c) (c_elems c) (c_eval c) (Some (ctderive w c))), ctderive w c) /\
  (forall i, In i (c_elems c) -> o_def (geom w1 i) = dld (o_def (geom w i)) 0 (c_delta c)).
Proof.
  intros Hg Hr c w1. unfold c_fill_tess. cbv zeta. fold c. fold w1.
  assert (Q : forall i, In i (c_elems c) ->
            o_def (geom w1 i) = dld (o_def (geom w i)) 0 (c_delta c) /\ tess_val (geom w1 i) = etess (o_def (geom w1 i))).
  { intros i Hi.
    refine ((fun X => conj (proj1 (proj2 X)) (proj2 (proj2 X))) _).
    unfold w1.
    apply (fold_put_touched (c_touch_tess K f_ev f_tess c)
             (fun o' => oinv o' /\ o_def o' = o_def (geom w i))
             (fun o' => oinv o' /\ o_def o' = dld (o_def (geom w i)) 0 (c_delta c) /\ tess_val o' = etess (o_def o'))).
    - intros o n [Io Do]. split; [apply c_touch_tess_pres; exact Io|]. split; [|apply c_touch_tess_val; exact Io].
      rewrite <- Do. apply (c_touch_tess_def K f_ev f_bbox f_tess); exact Io.
    - intros o n (Io & Do & _). split; [apply c_touch_tess_pres; exact Io|]. split; [|apply c_touch_tess_val; exact Io].
      rewrite (c_touch_tess_def K f_ev f_bbox f_tess c o n Io), Do. apply dld_idem.
    - exact Hi.
    - exact (Hr j i Hi).
    - left. split; [apply ginv_geom; exact Hg|reflexivity]. }
  match goal with |- context [fold_left ?f (c_elems c) ([], [])] =>
    assert (Et : fold_left f (c_elems c) ([], []) = ctderive w c) end.
  { change (fold_left (fun (acc : tessres) i => agg_step acc (tess_val (geom w1 i))) (c_elems c) ([], []) = ctderive w c).
    rewrite (fold_left_map agg_step (fun i => tess_val (geom w1 i))). unfold ctderive, agg. f_equal.
    apply map_ext_in. intros i Hi. destruct (Q i Hi) as [Q1 Q2]. rewrite Q2, Q1. reflexivity. }
  rewrite Et. split; [reflexivity|]. intros i Hi. apply (Q i Hi).
Qed.

(* ---------------------------------------------------------------- Inv_step *)
Lemma ctinv_other (w w1 : world) j' : ctinv w (contr w j') -> contr w1 j' = contr w j' ->
  (c_tess (contr w j') <> None -> forall i, In i (c_elems (contr w j')) -> o_def (geom w1 i) = o_def (geom w i)) ->
  ctinv w1 (contr w1 j').
Proof.
  intros H Ec Hd. rewrite Ec. destruct H as [X|X]; [left; exact X|]. right. rewrite X. f_equal. symmetry.
  apply ctderive_ext. apply Hd. rewrite X. discriminate.
Qed.

(* generic step for operations that change geometries only through a fold over the elements of container j *)
Lemma ctinv_fold (F : obj -> nat -> obj) (w : world) j cnew o :
  safe_t w o -> (forall j', (match o with C j0 _ => j' <> j0 | _ => True end) <-> j' <> j) -> wfoot w o = c_elems (contr w j) ->
  (forall j', ctinv w (contr w j')) ->
  let w1 := fold_left (fun wa i => put_geom wa i (F (geom wa i) (w_next wa))) (c_elems (contr w j)) w in
  ctinv (put_cont w1 j cnew) cnew ->
  forall j', ctinv (put_cont w1 j cnew) (contr (put_cont w1 j cnew) j').
Proof.
  intros Hs Ho Hf Hc w1 Hn j'.
  destruct (fold_put_conts F (c_elems (contr w j)) w) as (a & b & _). fold w1 in a, b.
  rewrite contr_put. destruct (andb (Nat.eqb j' j) _) eqn:E; [exact Hn|].
  assert (Ec : contr w1 j' = contr w j') by (unfold contr; rewrite a; reflexivity). rewrite Ec.
  destruct (Hc j') as [X|X]; [left; exact X|]. right. rewrite X. f_equal. symmetry.
  destruct (Nat.eq_dec j' j) as [->|Ne].
  - rewrite Nat.eqb_refl in E. simpl in E. apply Nat.ltb_ge in E. rewrite a in E.
    unfold contr in X. rewrite nth_overflow in X by exact E. discriminate.
  - apply ctderive_ext. intros i Hi. rewrite geom_put_cont. unfold w1. rewrite fold_put_other; [reflexivity|].
    intro Hin. refine (Hs j' (proj2 (Ho j') Ne) _ i _ Hi); [rewrite X; discriminate|rewrite Hf; exact Hin].
Qed.

Lemma ctinv_put_cont_reset (w : world) j c' : (forall j', ctinv w (contr w j')) -> c_tess c' = None ->
  forall j', ctinv (put_cont w j c') (contr (put_cont w j c') j').
Proof.
  intros Hc He j'. rewrite contr_put. destruct (andb _ _); [left; exact He|].
  destruct (Hc j') as [X|X]; [left; exact X|right; exact X].
Qed.

Lemma cstep_ctinv (w : world) j co : ginv w -> Cinv w -> (forall j', ctinv w (contr w j')) -> safe_t w (C j co) ->
  forall j', ctinv (fst (cstep w j co)) (contr (fst (cstep w j co)) j').
Proof.
  intros Hg HC Hc Hs. pose proof HC as [Hr _].
  assert (Ho : forall j', (match C j co with C j0 _ => j' <> j0 | _ => True end) <-> j' <> j) by (intro; simpl; tauto).
  destruct co; simpl.
  - (* CAdd *) destruct (negb (Nat.ltb i _)); [exact Hc|].
    destruct (Nat.eqb _ (c_pdim _)).
    + destruct (Nat.eqb (c_dim _) 0); [|destruct (Nat.eqb (c_dim _) _); [|exact Hc]]; simpl;
        (apply ctinv_put_cont_reset; [exact Hc|reflexivity]).
    + simpl. apply ctinv_put_cont_reset; [exact Hc|reflexivity].
  - destruct (delta_ok K x); [|exact Hc]. simpl. apply ctinv_put_cont_reset; [exact Hc|reflexivity].
  - destruct (delta_ok K x); [|exact Hc]. simpl. apply ctinv_put_cont_reset; [exact Hc|reflexivity].
  - destruct (Nat.ltb n 2); [exact Hc|]. simpl. apply ctinv_put_cont_reset; [exact Hc|reflexivity].
  - destruct (Nat.ltb n 2); [exact Hc|]. simpl. apply ctinv_put_cont_reset; [exact Hc|reflexivity].
  - (* CTranslate *) destruct (orb _ _); [exact Hc|]. simpl.
    apply (ctinv_fold (fun o n => fst (map_pts K o (fun pt => vadd K pt vec) n)) w j _ (C j (CTranslate vec))); auto.
    left; reflexivity.
  - (* CScale *) simpl.
    apply (ctinv_fold (fun o n => fst (scale K o m n)) w j _ (C j (CScale m))); auto. left; reflexivity.
  - (* CReadEval: the elements get the container's density; the aggregate is stated at that density already *)
    unfold c_read_eval. destruct (is_nil (c_eval (contr w j))) eqn:N; [|exact Hc].
    unfold c_fill_eval. cbv zeta. simpl.
    set (c := contr w j). set (w1 := fold_left _ (c_elems c) w).
    apply (ctinv_fold (c_touch K f_ev c) w j _ (C j CReadEval)); auto.
    fold w1. destruct (Hc j) as [Y|Y]; [left; exact Y|]. right. fold c in Y. cbn [c_tess]. rewrite Y. apply f_equal.
    unfold ctderive. cbn [c_elems c_delta]. apply (f_equal agg). apply map_ext_in. intros i Hi.
    assert (Q : o_def (geom w1 i) = dld (o_def (geom w i)) 0 (c_delta c)).
    { refine (proj1 (proj2 (_ : oinv (geom w1 i) /\ _ /\ o_eval (geom w1 i) = f_ev (dld (o_def (geom w i)) 0 (c_delta c))))).
      unfold w1.
      apply (fold_put_touched (c_touch K f_ev c)
               (fun o' => oinv o' /\ o_def o' = o_def (geom w i))
               (fun o' => oinv o' /\ o_def o' = dld (o_def (geom w i)) 0 (c_delta c) /\ o_eval o' = f_ev (dld (o_def (geom w i)) 0 (c_delta c)))).
      - intros o n [Io Do]. destruct (c_touch_def K f_ev f_bbox f_tess c o n Io) as (d1 & d2). rewrite Do in d1, d2.
        split; [apply c_touch_pres; exact Io|auto].
      - intros o n (Io & Do & _). destruct (c_touch_def K f_ev f_bbox f_tess c o n Io) as (d1 & d2). rewrite Do, dld_idem in d1, d2.
        split; [apply c_touch_pres; exact Io|auto].
      - exact Hi.
      - exact (Hr j i Hi).
      - left. split; [apply ginv_geom; exact Hg|reflexivity]. }
    rewrite geom_put_cont. subst w1 c. rewrite Q, dld_idem. reflexivity.
  - (* CReadBBox *) destruct (c_read_bbox_frame K f_ev f_bbox f_tess w j) as (a & b & d). specialize (d Hg).
    destruct (c_read_bbox K f_bbox w j) as [w1 bx]. simpl in *. intro j'.
    apply (ctinv_other w w1 j' (Hc j')); [unfold contr; rewrite a; reflexivity|]. intros _ i _. apply d.
  - (* CReadTess *) destruct (Nat.eqb (c_pdim (contr w j)) 2); [|exact Hc]. unfold c_read_tess.
    assert (X : forall j', ctinv (fst (c_fill_tess K f_ev f_tess w j)) (contr (fst (c_fill_tess K f_ev f_tess w j)) j')).
    { destruct (c_fill_tess_eq w j Hg Hr) as (V1 & V3). cbv zeta in V1, V3. rewrite V1. cbn [fst].
      set (c := contr w j) in *.
      apply (ctinv_fold (c_touch_tess K f_ev f_tess c) w j _ (C j CReadTess)); auto.
      right. cbn [c_tess]. apply f_equal. unfold ctderive. cbn [c_elems c_delta]. apply (f_equal agg).
      apply map_ext_in. intros i Hi. rewrite geom_put_cont. subst c. rewrite (V3 i Hi), dld_idem. reflexivity. }
    destruct (c_tess (contr w j)) as [t|]; [destruct (tess_nonempty t); [exact Hc|]|]; destruct (c_fill_tess K f_ev f_tess w j); exact X.
Qed.

Lemma ctinv_grow (w : world) extra cextra n' : crange w -> (forall j', ctinv w (contr w j')) ->
  (forall c, In c cextra -> c_tess c = None) ->
  forall j, ctinv (mkWorld (w_geoms w ++ extra) (w_conts w ++ cextra) n') (contr (mkWorld (w_geoms w ++ extra) (w_conts w ++ cextra) n') j).
Proof.
  intros Hr Hc Hx j. unfold contr. cbn [w_conts].
  destruct (Nat.lt_ge_cases j (length (w_conts w))) as [L|L].
  - rewrite app_nth1 by exact L. fold (contr w j).
    destruct (Hc j) as [X|X]; [left; exact X|right]. rewrite X. f_equal. symmetry. apply ctderive_ext.
    intros i Hi. rewrite geom_app_old; [reflexivity|exact (Hr j i Hi)].
  - rewrite app_nth2 by exact L. left.
    destruct (Nat.lt_ge_cases (j - length (w_conts w)) (length cextra)) as [L2|L2].
    + apply Hx. apply nth_In. exact L2.
    + rewrite nth_overflow by exact L2. reflexivity.
Qed.

(* [Inv_step] every operation that satisfies the side condition keeps, for every container, the vertices/faces cache empty
   or equal to the aggregate of its freshly tessellated elements (and the sampled-points invariant of ObjR) *)
Theorem CTinv_wstep (w : world) o : ginv w -> CTinv w -> safe2 w o -> CTinv (fst (wstep w o)).
Proof.
  intros Hg [HC Hc] [Hs Hst]. split; [apply (Cinv_wstep K f_ev f_bbox f_tess); assumption|].
  pose proof HC as [Hr _]. destruct o; simpl.
  - rewrite <- (app_nil_r (w_conts w)). apply ctinv_grow; [exact Hr|exact Hc|intros c []].
  - pose proof (reader_def K f_ev f_bbox f_tess g (geom w i) (w_next w) (ginv_geom K f_ev f_bbox f_tess w i Hg)) as Rd.
    destruct (gstep (geom w i) g (w_next w)) as [o1 r]. simpl in *. intro j'.
    apply (ctinv_other w (put_geom w i o1) j' (Hc j')); [reflexivity|]. intros Hn k Hk.
    rewrite geom_put. destruct (andb (Nat.eqb k i) _) eqn:E; [|reflexivity].
    apply andb_prop in E. destruct E as [E _]. apply Nat.eqb_eq in E. subst k.
    destruct (is_reader g) eqn:R; [apply Rd; reflexivity|].
    exfalso. refine (Hst j' I Hn i _ Hk). simpl. rewrite R. left; reflexivity.
  - rewrite <- (app_nil_r (w_conts w)). apply ctinv_grow; [exact Hr|exact Hc|intros c []].
  - rewrite <- (app_nil_r (w_geoms w)). apply ctinv_grow; [exact Hr|exact Hc|]. intros c [<-|[]]. reflexivity.
  - apply cstep_ctinv; assumption.
  - apply ctinv_grow; [exact Hr|exact Hc|]. intros c [<-|[]]. reflexivity.
Qed.

Lemma CTinv_init : CTinv (mkWorld [] [] 0).
Proof. split; [apply Cinv_init|]. intro j. left. unfold contr. simpl. destruct j; reflexivity. Qed.

(* [Inv_reachable] *)
Fixpoint all_safe2 (w : world) (ops : list (@wop T)) : Prop :=
  match ops with [] => True | o :: r => safe2 w o /\ all_safe2 (fst (wstep w o)) r end.
Theorem CTinv_wrun ops : forall w, ginv w -> CTinv w -> all_safe2 w ops -> CTinv (wrun w ops).
Proof.
  induction ops as [|o r IH]; intros w Hg HC Hs; simpl; auto. destruct Hs as [S1 S2].
  apply IH; [apply (ginv_wstep K f_ev f_bbox f_tess); exact Hg|apply CTinv_wstep; assumption|exact S2].
Qed.

(* [read_equals_fresh] reading a SurfaceContainer's vertices/faces in a state satisfying the invariants returns the aggregate
   of the freshly tessellated elements at the container's density *)
Theorem c_read_tess_equals_fresh (w : world) j : ginv w -> CTinv w ->
  snd (c_read_tess K f_ev f_tess w j) = ctderive w (contr w j).
Proof.
  intros Hg [[Hr _] Hc]. unfold c_read_tess.
  destruct (c_tess (contr w j)) as [t|] eqn:E.
  - destruct (tess_nonempty t).
    + cbn [snd]. destruct (Hc j) as [X|X]; rewrite E in X; [discriminate|]. injection X as ->. reflexivity.
    + rewrite (proj1 (c_fill_tess_eq w j Hg Hr)). reflexivity.
  - rewrite (proj1 (c_fill_tess_eq w j Hg Hr)). reflexivity.
Qed.

(* the aggregate spelled out with fresh objects: vertices = concatenation of the elements' vertices, faces of element n shifted
   by the number of vertices of the elements before it, each element being a freshly built object with the element's
   definition at the container's density, read through .vertices/.faces *)
Theorem ctderive_fresh (w : world) (c : @cont T) ids :
  let ms := map (fun i => snd (read_tess f_ev f_tess (fresh (dld (o_def (geom w i)) 0 (c_delta c)) ids))) (c_elems c) in
  ctderive w c = (concat (map fst ms), faces_from 0 ms).
Proof.
  cbv zeta. unfold ctderive. rewrite agg_spec.
  rewrite (map_ext (fun i => etess (dld (o_def (geom w i)) 0 (c_delta c)))
                   (fun i => snd (read_tess f_ev f_tess (fresh (dld (o_def (geom w i)) 0 (c_delta c)) ids)))); [reflexivity|].
  intro i. apply etess_fresh_read.
Qed.

(* after ANY safe history: read = aggregate of fresh elements *)
Corollary container_tess_read_reachable ops j ids : all_safe2 (mkWorld [] [] 0) ops ->
  let w := wrun (mkWorld [] [] 0) ops in
  let ms := map (fun i => snd (read_tess f_ev f_tess (fresh (dld (o_def (geom w i)) 0 (c_delta (contr w j))) ids))) (c_elems (contr w j)) in
  snd (c_read_tess K f_ev f_tess w j) = (concat (map fst ms), faces_from 0 ms).
Proof.
  intros Hs. cbv zeta. rewrite <- ctderive_fresh. apply c_read_tess_equals_fresh.
  - apply (ginv_wrun K f_ev f_bbox f_tess). apply ginv_init.
  - apply CTinv_wrun; [apply ginv_init|apply CTinv_init|exact Hs].
Qed.
End TW.

Print Assumptions CTinv_wstep.
Print Assumptions CTinv_wrun.
Print Assumptions c_read_tess_equals_fresh.
Print Assumptions container_tess_read_reachable.
