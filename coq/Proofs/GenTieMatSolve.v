(* Ties: generated linalg.matrix_determinant / matrix_inverse / lu_factor (Gen/LinalgMat.v) = Model/LinAlg.v, under
   sum_laws K (they go through lu_decomposition / lu_solve / matrix_multiply, whose sums Python forms from the left and
   the model from the right).  lu_factor AS REPAIRED (fixes/C16-*.diff): the right-hand side is permuted, b := P b. *)
From Coq Require Import List ZArith Arith Bool Lia QArith.
From NV Require Import Scalar.Ops Model.Common Model.LinAlg Gen.Prelude Gen.PreludeExt Gen.LinalgInternal Gen.Linalg Gen.LinalgMat
  Proofs.GenTieLib Proofs.GenTieLib2 Proofs.GenTieBasisOne Proofs.GenTieDersLib Proofs.GenTieSums Proofs.GenTieLinAlg
  Proofs.GenTieLU Proofs.GenTieLUSolve Proofs.GenTieMat.
Import ListNotations.
Local Open Scope nat_scope.

Section Tie.
Context {T : Type} (K : ops T) (LW : sum_laws K).
Notation "0" := (o0 K).
Notation g2 := (get2 K).

Lemma wfm_is_square (m : list (list T)) : wfm (length m) (length m) m -> is_square m = true.
Proof.
  intros [_ H]. unfold is_square. apply forallb_forall. intros r Hr. apply Nat.eqb_eq.
  destruct (In_nth _ _ [] Hr) as (i & Hi & <-). now apply H.
Qed.

Lemma lu_decomposition_square (m : list (list T)) : is_square m = true -> LinAlg.lu_decomposition K m = Ok (LinAlg.doolittle K m).
Proof. intros H. unfold LinAlg.lu_decomposition. now rewrite H. Qed.

(* ---- matrix_determinant.  wf: the matrix is square (Crash in the model otherwise) ---- *)
Theorem matrix_determinant_tie (m : list (list T)) : is_square m = true ->
  LinalgMat.matrix_determinant K m = res_to_gres (fun x => x) ValueError IndexError (LinAlg.matrix_determinant K m).
Proof.
  intros Hsq. unfold LinalgMat.matrix_determinant, LinAlg.matrix_determinant, matrix_determinant_with, pivot_res.
  rewrite Hsq, (matrix_pivot_sign_tie K m Hsq). fold (pivot_out K m).
  destruct (pivot_out_wfm K m Hsq) as [Wmp Wp]. destruct (pivot_out K m) as [[mp p] ns] eqn:Ep. cbn [fst snd gbind res_bind] in *.
  assert (Lmp : length mp = length m) by apply Wmp.
  assert (Hsq' : is_square mp = true) by (apply wfm_is_square; rewrite Lmp; exact Wmp).
  rewrite (lu_decomposition_tie K LW), (lu_decomposition_square mp Hsq'). cbn [res_to_gres gbind res_bind].
  destruct (doolittle_wfm K mp) as [WL WU]. rewrite Lmp in WL, WU.
  destruct (LinAlg.doolittle K mp) as [L U]. cbn [fst snd] in *.
  unfold zlen. rewrite zrange_0_nat. set (n := length m) in *.
  match goal with |- context [gfor (map Z.of_nat (seq O n)) ?ff ?s0] =>
    destruct (gfor_seq_fold (fun (_ : nat) (d d' : T) => d = d') ff (fun d i => omul K d (omul K (g2 L i i) (g2 U i i))) n O)
      with (s := s0) (s' := o1 K) as (dF & EF & ->)
  end.
  - intros i d d' Hi ->. cbn [gbind]. rewrite (zget2k K n n L) by (auto; lia). rewrite (zget2k K n n U) by (auto; lia).
    rewrite !Nat2Z.id. eexists. split; reflexivity.
  - reflexivity.
  - rewrite EF. reflexivity.
Qed.

(* what lu_solve_tie needs of the factors of a square n x n matrix, given that their diagonals have no zero *)
Lemma factor_conditions (mp L U : list (list T)) n : length mp = n -> LinAlg.doolittle K mp = (L, U) ->
  (forall i, i < n -> oeqb K (g2 L i i) 0 = false /\ oeqb K (g2 U i i) 0 = false) ->
  forall i, i < n -> i < length (nth i L []) /\ oeqb K (g2 L i i) 0 = false /\ n <= length (nth i U []) /\ oeqb K (g2 U i i) 0 = false.
Proof.
  intros Ln E Hd i Hi. destruct (doolittle_wfm K mp) as [[_ WL] [_ WU]]. rewrite E, Ln in WL, WU. cbn [fst snd] in *.
  rewrite WL, WU by exact Hi. destruct (Hd i Hi). repeat split; auto; lia.
Qed.

(* ---- matrix_inverse.  wf: square, non-empty, and the LU factors of the pivoted matrix have no zero on their diagonals
   (ZeroDivisionError <-> Crash otherwise: not tied, as for lu_solve) ---- *)
Theorem matrix_inverse_tie (m L U : list (list T)) :
  is_square m = true -> m <> [] ->
  LinAlg.doolittle K (fst (fst (pivot_out K m))) = (L, U) ->
  (forall i, i < length m -> oeqb K (g2 L i i) 0 = false /\ oeqb K (g2 U i i) 0 = false) ->
  LinalgMat.matrix_inverse K m = res_to_gres (fun x => x) ValueError IndexError (LinAlg.matrix_inverse K m)
  /\ exists x, LinAlg.matrix_inverse K m = Ok x.
Proof.
  intros Hsq Hne HLU Hd. unfold LinalgMat.matrix_inverse, LinAlg.matrix_inverse, matrix_inverse_with, pivot_res.
  rewrite Hsq, (matrix_pivot_tie K m Hsq). fold (pivot_out K m).
  destruct (pivot_out_wfm K m Hsq) as [Wmp Wp]. destruct (pivot_out K m) as [[mp p] ns] eqn:Ep. cbn [fst snd gbind res_bind] in *.
  assert (Lmp : length mp = length m) by apply Wmp.
  assert (Hsq' : is_square mp = true) by (apply wfm_is_square; rewrite Lmp; exact Wmp).
  set (n := length m) in *. assert (Hn : 1 <= n) by (subst n; destruct m; [congruence|simpl; lia]).
  destruct Wp as [Wp1 Wp2].
  destruct (lu_solve_tie K LW mp p L U) as [E1 E2].
  - intros ->. simpl in Wp1. lia.
  - intros r Hr. destruct (In_nth _ _ [] Hr) as (i & Hi & <-). rewrite Wp2 by lia.
    destruct p as [|p0 pr]; [simpl in Wp1; lia|]. cbn [hd]. rewrite <- (Wp2 O) by lia. reflexivity.
  - rewrite (lu_decomposition_square mp Hsq'), HLU. reflexivity.
  - rewrite Wp1. apply (factor_conditions mp L U n Lmp HLU Hd).
  - destruct E2 as [x Ex]. rewrite E1, Ex. cbn [res_to_gres gbind]. split; [reflexivity|eexists; reflexivity].
Qed.

(* ---- lu_factor (repaired).  wf: A square, b a non-empty matrix with len(b) = len(A) whose rows are not shorter than its
   first row, no zero on the diagonals of the LU factors of the pivoted matrix.  The generated loop is, after the pivoting,
   the factorisation and b := P b, literally the loop of lu_solve on (P A, P b): the tie goes through lu_solve_tie ---- *)
Theorem lu_factor_tie (A b L U : list (list T)) :
  is_square A = true -> b <> [] -> length b = length A -> (forall r, In r b -> length (hd [] b) <= length r) ->
  LinAlg.doolittle K (fst (fst (pivot_out K A))) = (L, U) ->
  (forall i, i < length A -> oeqb K (g2 L i i) 0 = false /\ oeqb K (g2 U i i) 0 = false) ->
  LinalgMat.lu_factor K A b = res_to_gres (fun x => x) ValueError IndexError (LinAlg.lu_factor K A b)
  /\ exists x, LinAlg.lu_factor K A b = Ok x.
Proof.
  intros Hsq Hne Hlen Hrows HLU Hd.
  destruct (pivot_out_wfm K A Hsq) as [Wmp Wp]. 
  assert (Epiv := matrix_pivot_tie K A Hsq).
  destruct (pivot_out K A) as [[mp p] ns] eqn:Ep. cbn [fst snd] in *.
  assert (Lmp : length mp = length A) by apply Wmp.
  assert (Hsq' : is_square mp = true) by (apply wfm_is_square; rewrite Lmp; exact Wmp).
  set (n := length A) in *. assert (Hn : 1 <= n) by (rewrite <- Hlen; destruct b; [congruence|simpl; lia]).
  destruct Wp as [Wp1 Wp2].
  destruct b as [|b0 br] eqn:Eb; [congruence|]. rewrite <- Eb in *. clear Hne.
  assert (Ehd : hd [] b = b0) by (rewrite Eb; reflexivity). rewrite Ehd in Hrows.
  (* P b *)
  assert (Emul : Linalg.matrix_multiply K p b = GOk (mmul K p b) /\ LinAlg.matrix_multiply K p b = Ok (mmul K p b)).
  { rewrite (matrix_multiply_tie K LW).
    - unfold LinAlg.matrix_multiply. destruct p as [|p0 pr] eqn:Epp; [simpl in Wp1; lia|]. rewrite <- Epp in *.
      assert (L0 : length p0 = n) by (rewrite <- (Wp2 O) by lia; rewrite Epp; reflexivity).
      rewrite L0, Hlen, Nat.eqb_refl. cbn [negb]. rewrite Eb at 1 3. split; reflexivity.
    - intros ra Hra. destruct (In_nth _ _ [] Hra) as (i & Hi & <-). rewrite Wp2 by lia. lia.
    - intros rb Hrb. rewrite Ehd. now apply Hrows. }
  destruct Emul as [EmulG EmulM]. set (pb := mmul K p b) in *.
  assert (Lpb : length pb = n) by (subst pb; unfold mmul; now rewrite map_length).
  assert (Rpb : forall r, In r pb -> length r = length b0).
  { intros r Hr. subst pb. unfold mmul in Hr. apply in_map_iff in Hr. destruct Hr as (ra & <- & _).
    rewrite map_length, seq_length, Ehd. reflexivity. }
  assert (Hpb : exists q0 qr, pb = q0 :: qr) by (destruct pb as [|q0 qr]; [simpl in Lpb; lia|eauto]).
  destruct Hpb as (q0 & qr & Epb).
  assert (Lq0 : length q0 = length b0) by (apply Rpb; rewrite Epb; now left).
  (* the generated lu_factor is lu_solve on (mp, pb) *)
  assert (Egen : LinalgMat.lu_factor K A b = Linalg.lu_solve K mp pb).
  { unfold LinalgMat.lu_factor, Linalg.lu_solve.
    replace (znth b 0%Z) with (GOk b0) by (rewrite Eb; reflexivity).
    replace (znth pb 0%Z) with (GOk q0) by (rewrite Epb; reflexivity). cbn [gbind].
    rewrite Epiv. cbn [gbind].
    rewrite (lu_decomposition_tie K LW), (lu_decomposition_square mp Hsq'), HLU. cbn [res_to_gres gbind].
    rewrite EmulG. cbn [gbind]. unfold zlen. rewrite Lq0, Lpb, Hlen. reflexivity. }
  (* the model's lu_factor is the model's lu_solve on (mp, pb) *)
  assert (Emod : LinAlg.lu_factor K A b = LinAlg.lu_solve K mp pb).
  { assert (Hm : forall X : res (list (list T)), match b with [] => Crash | _ :: _ => X end = X) by (rewrite Eb; reflexivity).
    unfold LinAlg.lu_factor, lu_factor_with, LinAlg.lu_solve, pivot_res. rewrite Hm. rewrite Hsq.
    fold n. change (pivot_with K (LinAlg.matrix_identity K n) A) with (pivot_out K A). rewrite Ep. cbn [res_bind fst snd].
    rewrite (lu_decomposition_square mp Hsq'), HLU. cbn [res_bind fst snd]. rewrite EmulM. cbn [res_bind].
    fold pb. assert (Hm' : forall X : res (list (list T)), match pb with [] => Crash | _ :: _ => X end = X) by (rewrite Epb; reflexivity).
    rewrite Hm'. reflexivity. }
  rewrite Egen, Emod.
  apply (lu_solve_tie K LW mp pb L U).
  - rewrite Epb. discriminate.
  - intros r Hr. rewrite Epb at 1. cbn [hd]. rewrite Lq0, (Rpb r Hr). lia.
  - rewrite (lu_decomposition_square mp Hsq'), HLU. reflexivity.
  - rewrite Lpb. apply (factor_conditions mp L U n Lmp HLU Hd).
Qed.
End Tie.

Definition matrix_determinant_tie_R := @matrix_determinant_tie _ Rops Rops_sum_laws.
Definition matrix_determinant_tie_Q := @matrix_determinant_tie _ Qops Qops_sum_laws.
Definition matrix_inverse_tie_R := @matrix_inverse_tie _ Rops Rops_sum_laws.
Definition matrix_inverse_tie_Q := @matrix_inverse_tie _ Qops Qops_sum_laws.
Definition lu_factor_tie_R := @lu_factor_tie _ Rops Rops_sum_laws.
Definition lu_factor_tie_Q := @lu_factor_tie _ Qops Qops_sum_laws.

(* ---- non-vacuity: a matrix whose pivoting swaps rows (the unpivoted Doolittle would meet a zero pivot) ---- *)
Local Open Scope Q_scope.
Example matsolve_ex :
  let A := [[0; 2; 1]; [1; 1; 0]; [2; 1; 3]] in
  LinalgMat.matrix_determinant Qops A = GOk (-7) /\ LinAlg.matrix_determinant Qops A = Ok (-7)
  /\ LinalgMat.matrix_inverse Qops A = GOk [[-3#7; 5#7; 1#7]; [3#7; 2#7; -1#7]; [1#7; -4#7; 2#7]]
  /\ LinAlg.matrix_inverse Qops A = Ok [[-3#7; 5#7; 1#7]; [3#7; 2#7; -1#7]; [1#7; -4#7; 2#7]]
  /\ LinalgMat.lu_factor Qops A [[1; 2]; [3; 4]; [5; 6]] = GOk [[17#7; 20#7]; [4#7; 8#7]; [-1#7; -2#7]]
  /\ LinAlg.lu_factor Qops A [[1; 2]; [3; 4]; [5; 6]] = Ok [[17#7; 20#7]; [4#7; 8#7]; [-1#7; -2#7]]
  /\ LinalgMat.matrix_determinant Qops [[1; 2]; [3]] = GErr IndexError
  /\ LinalgMat.lu_factor Qops A [[1; 2]; [3; 4]] = GErr GeomdlError /\ LinAlg.lu_factor Qops A [[1; 2]; [3; 4]] = Rejected
  /\ LinalgMat.matrix_inverse Qops [[1; 2]; [2; 4]] = GErr ZeroDivisionError /\ LinAlg.matrix_inverse Qops [[1; 2]; [2; 4]] = Crash.
Proof. repeat split; vm_compute; reflexivity. Qed.
