(* Direction lifting of knot insertion for volumes: in each of the three directions the new control net is
   fibre-wise the curve algorithm (the gather into rows / scatter back are identity index maps), hence an insertion
   with any admissible count preserves every volume point (triple Cox-de Boor sum). *)
From Coq Require Import List Reals Lra Lia Arith Bool ZArith.
From NV Require Import Scalar.Ops Model.Common Model.Basis Model.KnotIns Model.InsertKnot
  Proofs.Boehm Proofs.BasisR Proofs.KnotInsR Proofs.InsertKnotR Proofs.KnotInsN Proofs.InsertNR Proofs.InsertDirR.
Import ListNotations.
Local Open Scope nat_scope.

Section Fib.
Context {T : Type} (K : ops T).
Variables (g : vol (T:=T)) (t : T) (num s k : nat).
Notation su := (v_su g). Notation sv := (v_sv g). Notation sw := (v_sw g).
Notation P := (v_P g).

(* the three families of control-point fibres *)
Definition fib_u (j l : nat) : list (list T) := map (fun i => getp P (vidx g i j l)) (seq 0 su).
Definition fib_v (i l : nat) : list (list T) := map (fun j => getp P (vidx g i j l)) (seq 0 sv).
Definition fib_w (i j : nat) : list (list T) := map (fun l => getp P (vidx g i j l)) (seq 0 sw).

Lemma map_ext_seq {B} (f h : nat -> B) n : (forall i, i < n -> f i = h i) -> map f (seq 0 n) = map h (seq 0 n).
Proof. intros H. apply map_ext_in. intros i Hi. apply in_seq in Hi. apply H. lia. Qed.

(* ---- w ---- *)
Lemma vol_net_w_fibre i j l :
  s <= v_pw g -> v_pw g <= k -> k < sw -> num <= v_pw g - s -> i < su -> j < sv -> l < sw + num ->
  getp (vol_net_w K g t num s k) (j + i * sv + l * su * sv) = getp (knot_insertion K (v_pw g) (v_Uw g) (fib_w i j) t num s k) l.
Proof.
  intros H1 H2 H3 H4 Hi Hj Hl. unfold vol_net_w.
  set (uv := su * sv).
  set (C := map (fun w_ => map (fun i0 => getp P (i0 + w_ * uv)) (seq 0 uv)) (seq 0 sw)).
  assert (HlC : length C = sw) by (unfold C; rewrite map_length, seq_length; reflexivity).
  assert (Hrows : forall q, q < length C -> length (nth q C []) = uv).
  { intros q Hq. unfold C. rewrite nth_map_seq by lia. rewrite map_length, seq_length. reflexivity. }
  assert (Hidx : j + i * sv < uv) by (unfold uv; nia).
  replace (j + i * sv + l * su * sv) with ((j + i * sv) + uv * l) by (unfold uv; lia).
  unfold getp at 1.
  rewrite (nth_flat_map_const (fun w_ => nth w_ (knot_insertion_rows K (v_pw g) (v_Uw g) C t num s k) []) uv); auto.
  2:{ intros q Hq. apply (rows_length K (v_pw g) (v_Uw g) C t num s k uv (j + i * sv)); auto; lia. }
  change (nth l (knot_insertion_rows K (v_pw g) (v_Uw g) C t num s k) []) with (getA [] (knot_insertion_rows K (v_pw g) (v_Uw g) C t num s k) l).
  rewrite (rows_fibre K (v_pw g) (v_Uw g) C t num s k uv (j + i * sv)); auto; try lia.
  f_equal. f_equal. unfold fibre, C, fib_w. rewrite map_map. apply map_ext_seq. intros q Hq.
  rewrite nth_map_seq by exact Hidx. f_equal. unfold vidx, uv. lia.
Qed.

(* ---- v ---- *)
Lemma vol_net_v_fibre i j l :
  s <= v_pv g -> v_pv g <= k -> k < sv -> num <= v_pv g - s -> i < su -> j < sv + num -> l < sw ->
  getp (vol_net_v K g t num s k) (j + i * (sv + num) + l * su * (sv + num)) = getp (knot_insertion K (v_pv g) (v_Uv g) (fib_v i l) t num s k) j.
Proof.
  intros H1 H2 H3 H4 Hi Hj Hl. unfold vol_net_v.
  set (C := map (fun v_ => flat_map (fun w_ => map (fun u_ => getp P (vidx g u_ v_ w_)) (seq 0 su)) (seq 0 sw)) (seq 0 sv)).
  assert (HlC : length C = sv) by (unfold C; rewrite map_length, seq_length; reflexivity).
  assert (Hrows : forall q, q < length C -> length (nth q C []) = su * sw).
  { intros q Hq. unfold C. rewrite nth_map_seq by lia. apply flat_map_length_const. intros. rewrite map_length, seq_length. reflexivity. }
  assert (Hidx : i + su * l < su * sw) by nia.
  replace (j + i * (sv + num) + l * su * (sv + num)) with ((j + (sv + num) * i) + ((sv + num) * su) * l) by lia.
  unfold getp at 1.
  rewrite (nth_flat_map_const (fun w_ => flat_map (fun u_ => map (fun v_ => getp (nth v_ (knot_insertion_rows K (v_pv g) (v_Uv g) C t num s k) []) (u_ + w_ * su))
             (seq 0 (sv + num))) (seq 0 su)) ((sv + num) * su)); auto; try nia.
  2:{ intros q Hq. apply flat_map_length_const. intros. rewrite map_length, seq_length. reflexivity. }
  rewrite (nth_flat_map_const (fun u_ => map (fun v_ => getp (nth v_ (knot_insertion_rows K (v_pv g) (v_Uv g) C t num s k) []) (u_ + l * su))
             (seq 0 (sv + num))) (sv + num)); auto.
  2:{ intros. rewrite map_length, seq_length. reflexivity. }
  rewrite nth_map_seq by exact Hj.
  change (nth j (knot_insertion_rows K (v_pv g) (v_Uv g) C t num s k) []) with (getA [] (knot_insertion_rows K (v_pv g) (v_Uv g) C t num s k) j).
  unfold getp at 1. replace (i + l * su) with (i + su * l) by lia.
  rewrite (rows_fibre K (v_pv g) (v_Uv g) C t num s k (su * sw) (i + su * l)); auto; try lia.
  f_equal. f_equal. unfold fibre, C, fib_v. rewrite map_map. apply map_ext_seq. intros q Hq.
  rewrite (nth_flat_map_const (fun w_ => map (fun u_ => getp P (vidx g u_ q w_)) (seq 0 su)) su); auto.
  2:{ intros. rewrite map_length, seq_length. reflexivity. }
  rewrite nth_map_seq by exact Hi. reflexivity.
Qed.

(* ---- u ---- *)
Lemma vol_net_u_fibre i j l :
  s <= v_pu g -> v_pu g <= k -> k < su -> num <= v_pu g - s -> i < su + num -> j < sv -> l < sw ->
  getp (vol_net_u K g t num s k) (j + i * sv + l * (su + num) * sv) = getp (knot_insertion K (v_pu g) (v_Uu g) (fib_u j l) t num s k) i.
Proof.
  intros H1 H2 H3 H4 Hi Hj Hl. unfold vol_net_u.
  set (C := map (fun u_ => flat_map (fun w_ => map (fun v_ => getp P (vidx g u_ v_ w_)) (seq 0 sv)) (seq 0 sw)) (seq 0 su)).
  assert (HlC : length C = su) by (unfold C; rewrite map_length, seq_length; reflexivity).
  assert (Hrows : forall q, q < length C -> length (nth q C []) = sv * sw).
  { intros q Hq. unfold C. rewrite nth_map_seq by lia. apply flat_map_length_const. intros. rewrite map_length, seq_length. reflexivity. }
  assert (Hidx : j + sv * l < sv * sw) by nia.
  replace (j + i * sv + l * (su + num) * sv) with ((j + sv * i) + (sv * (su + num)) * l) by lia.
  unfold getp at 1.
  rewrite (nth_flat_map_const (fun w_ => flat_map (fun u_ => map (fun v_ => getp (nth u_ (knot_insertion_rows K (v_pu g) (v_Uu g) C t num s k) []) (v_ + w_ * sv))
             (seq 0 sv)) (seq 0 (su + num))) (sv * (su + num))); auto; try nia.
  2:{ intros q Hq. apply flat_map_length_const. intros. rewrite map_length, seq_length. reflexivity. }
  rewrite (nth_flat_map_const (fun u_ => map (fun v_ => getp (nth u_ (knot_insertion_rows K (v_pu g) (v_Uu g) C t num s k) []) (v_ + l * sv))
             (seq 0 sv)) sv); auto.
  2:{ intros. rewrite map_length, seq_length. reflexivity. }
  rewrite nth_map_seq by exact Hj.
  change (nth i (knot_insertion_rows K (v_pu g) (v_Uu g) C t num s k) []) with (getA [] (knot_insertion_rows K (v_pu g) (v_Uu g) C t num s k) i).
  unfold getp at 1. replace (j + l * sv) with (j + sv * l) by lia.
  rewrite (rows_fibre K (v_pu g) (v_Uu g) C t num s k (sv * sw) (j + sv * l)); auto; try lia.
  f_equal. f_equal. unfold fibre, C, fib_u. rewrite map_map. apply map_ext_seq. intros q Hq.
  rewrite (nth_flat_map_const (fun w_ => map (fun v_ => getp P (vidx g q v_ w_)) (seq 0 sv)) sv); auto.
  2:{ intros. rewrite map_length, seq_length. reflexivity. }
  rewrite nth_map_seq by exact Hj. reflexivity.
Qed.
End Fib.

(* ---------- volume points ---------- *)
Local Open Scope R_scope.

Lemma sum_swap2 (a b : nat -> R) (X : nat -> nat -> R) n m :
  sumf (fun i => a i * sumf (fun j => b j * X i j) m) n = sumf (fun j => b j * sumf (fun i => a i * X i j) n) m.
Proof.
  rewrite (sumf_ext _ (fun i => sumf (fun j => a i * (b j * X i j)) m)) by (intros; rewrite sumf_scal; reflexivity).
  rewrite sumf_swap. apply sumf_ext. intros j _. rewrite <- sumf_scal. apply sumf_ext. intros i _. ring.
Qed.

Definition vol_pt (g : vol (T:=R)) (c : nat) (tu tv tw : R) : R :=
  sumf (fun i => N (Ufun (v_Uu g)) (v_pu g) i tu *
    sumf (fun j => N (Ufun (v_Uv g)) (v_pv g) j tv *
      sumf (fun l => N (Ufun (v_Uw g)) (v_pw g) l tw * coord c (v_P g) (vidx g i j l)) (v_sw g)) (v_sv g)) (v_su g).

Definition vol_after_u (g : vol (T:=R)) (t : R) (num s k : nat) : vol :=
  mkV (v_pu g) (v_pv g) (v_pw g) (knot_insertion_kv (v_Uu g) t k num) (v_Uv g) (v_Uw g) (v_su g + num) (v_sv g) (v_sw g)
      (vol_net_u Rops g t num s k).
Definition vol_after_v (g : vol (T:=R)) (t : R) (num s k : nat) : vol :=
  mkV (v_pu g) (v_pv g) (v_pw g) (v_Uu g) (knot_insertion_kv (v_Uv g) t k num) (v_Uw g) (v_su g) (v_sv g + num) (v_sw g)
      (vol_net_v Rops g t num s k).
Definition vol_after_w (g : vol (T:=R)) (t : R) (num s k : nat) : vol :=
  mkV (v_pu g) (v_pv g) (v_pw g) (v_Uu g) (v_Uv g) (knot_insertion_kv (v_Uw g) t k num) (v_su g) (v_sv g) (v_sw g + num)
      (vol_net_w Rops g t num s k).

Section VolThm.
Variables (g : vol (T:=R)) (t : R) (num s k dim : nat).
Hypothesis Hdim : forall i, (i < v_su g * v_sv g * v_sw g)%nat -> length (getp (v_P g) i) = dim.

Lemma vidx_lt i j l : (i < v_su g)%nat -> (j < v_sv g)%nat -> (l < v_sw g)%nat -> (vidx g i j l < v_su g * v_sv g * v_sw g)%nat.
Proof.
  intros Hi Hj Hl. unfold vidx.
  assert (H1 : (i * v_sv g + v_sv g <= v_su g * v_sv g)%nat) by nia.
  assert (H2 : (l * (v_su g * v_sv g) + v_su g * v_sv g <= v_sw g * (v_su g * v_sv g))%nat) by nia.
  nia.
Qed.

Section W.
Hypothesis Usorted : sortedR (v_Uw g).
Hypothesis HlenU : length (v_Uw g) = (v_sw g + v_pw g + 1)%nat.
Hypothesis Hsp : (s <= v_pw g)%nat.
Hypothesis Hnum : (num <= v_pw g - s)%nat.
Hypothesis Hpk : (v_pw g <= k)%nat.
Hypothesis Hk : (k < v_sw g)%nat.
Hypothesis Hu : knR (v_Uw g) k <= t < knR (v_Uw g) (k + 1).
Hypothesis Hmult : forall i, (k - s < i <= k)%nat -> knR (v_Uw g) i = t.

Theorem vol_insert_w_preserves c tu tv tw : (c < dim)%nat -> vol_pt (vol_after_w g t num s k) c tu tv tw = vol_pt g c tu tv tw.
Proof.
  intros Hc. unfold vol_pt, vol_after_w. cbn [v_pu v_pv v_pw v_Uu v_Uv v_Uw v_su v_sv v_sw v_P].
  apply sumf_ext. intros i Hi. f_equal. apply sumf_ext. intros j Hj. f_equal.
  assert (Hf : length (fib_w g i j) = v_sw g) by (unfold fib_w; rewrite map_length, seq_length; reflexivity).
  assert (HKL : length (knot_insertion Rops (v_pw g) (v_Uw g) (fib_w g i j) t num s k) = (v_sw g + num)%nat).
  { destruct (knot_insertion_frame Rops (v_pw g) (v_Uw g) (fib_w g i j) t num s k) as [HL _]; rewrite ?Hf; auto. rewrite HL, Hf. reflexivity. }
  transitivity (curve_pt (v_pw g) (knot_insertion_kv (v_Uw g) t k num) (knot_insertion Rops (v_pw g) (v_Uw g) (fib_w g i j) t num s k) c tw).
  - unfold curve_pt. rewrite HKL. apply sumf_ext. intros l Hl. f_equal. unfold coord.
    unfold vidx at 1. cbn [v_su v_sv v_sw].
    rewrite (vol_net_w_fibre Rops g t num s k i j l) by lia. reflexivity.
  - rewrite (insertN_model_preserves_curve (v_pw g) (v_Uw g) (fib_w g i j) t s k dim); auto; rewrite ?Hf; auto.
    + unfold curve_pt. rewrite Hf. apply sumf_ext. intros l Hl. f_equal. unfold coord, fib_w, getp at 1.
      rewrite nth_map_seq by exact Hl. reflexivity.
    + intros l Hl. unfold fib_w, getp at 1. rewrite nth_map_seq by exact Hl. apply Hdim. apply vidx_lt; assumption.
Qed.
End W.

Section V.
Hypothesis Usorted : sortedR (v_Uv g).
Hypothesis HlenU : length (v_Uv g) = (v_sv g + v_pv g + 1)%nat.
Hypothesis Hsp : (s <= v_pv g)%nat.
Hypothesis Hnum : (num <= v_pv g - s)%nat.
Hypothesis Hpk : (v_pv g <= k)%nat.
Hypothesis Hk : (k < v_sv g)%nat.
Hypothesis Hu : knR (v_Uv g) k <= t < knR (v_Uv g) (k + 1).
Hypothesis Hmult : forall i, (k - s < i <= k)%nat -> knR (v_Uv g) i = t.

Theorem vol_insert_v_preserves c tu tv tw : (c < dim)%nat -> vol_pt (vol_after_v g t num s k) c tu tv tw = vol_pt g c tu tv tw.
Proof.
  intros Hc. unfold vol_pt, vol_after_v. cbn [v_pu v_pv v_pw v_Uu v_Uv v_Uw v_su v_sv v_sw v_P].
  apply sumf_ext. intros i Hi. f_equal.
  rewrite sum_swap2. rewrite (sum_swap2 _ _ _ (v_sv g)).
  apply sumf_ext. intros l Hl. f_equal.
  assert (Hf : length (fib_v g i l) = v_sv g) by (unfold fib_v; rewrite map_length, seq_length; reflexivity).
  assert (HKL : length (knot_insertion Rops (v_pv g) (v_Uv g) (fib_v g i l) t num s k) = (v_sv g + num)%nat).
  { destruct (knot_insertion_frame Rops (v_pv g) (v_Uv g) (fib_v g i l) t num s k) as [HL _]; rewrite ?Hf; auto. rewrite HL, Hf. reflexivity. }
  transitivity (curve_pt (v_pv g) (knot_insertion_kv (v_Uv g) t k num) (knot_insertion Rops (v_pv g) (v_Uv g) (fib_v g i l) t num s k) c tv).
  - unfold curve_pt. rewrite HKL. apply sumf_ext. intros j Hj. f_equal. unfold coord.
    unfold vidx at 1. cbn [v_su v_sv v_sw].
    rewrite (vol_net_v_fibre Rops g t num s k i j l) by lia. reflexivity.
  - rewrite (insertN_model_preserves_curve (v_pv g) (v_Uv g) (fib_v g i l) t s k dim); auto; rewrite ?Hf; auto.
    + unfold curve_pt. rewrite Hf. apply sumf_ext. intros j Hj. f_equal. unfold coord, fib_v, getp at 1.
      rewrite nth_map_seq by exact Hj. reflexivity.
    + intros j Hj. unfold fib_v, getp at 1. rewrite nth_map_seq by exact Hj. apply Hdim. apply vidx_lt; assumption.
Qed.
End V.

Section U.
Hypothesis Usorted : sortedR (v_Uu g).
Hypothesis HlenU : length (v_Uu g) = (v_su g + v_pu g + 1)%nat.
Hypothesis Hsp : (s <= v_pu g)%nat.
Hypothesis Hnum : (num <= v_pu g - s)%nat.
Hypothesis Hpk : (v_pu g <= k)%nat.
Hypothesis Hk : (k < v_su g)%nat.
Hypothesis Hu : knR (v_Uu g) k <= t < knR (v_Uu g) (k + 1).
Hypothesis Hmult : forall i, (k - s < i <= k)%nat -> knR (v_Uu g) i = t.

Theorem vol_insert_u_preserves c tu tv tw : (c < dim)%nat -> vol_pt (vol_after_u g t num s k) c tu tv tw = vol_pt g c tu tv tw.
Proof.
  intros Hc. unfold vol_pt, vol_after_u. cbn [v_pu v_pv v_pw v_Uu v_Uv v_Uw v_su v_sv v_sw v_P].
  rewrite sum_swap2. rewrite (sum_swap2 _ _ _ (v_su g)).
  apply sumf_ext. intros j Hj. f_equal.
  rewrite sum_swap2. rewrite (sum_swap2 _ _ _ (v_su g)).
  apply sumf_ext. intros l Hl. f_equal.
  assert (Hf : length (fib_u g j l) = v_su g) by (unfold fib_u; rewrite map_length, seq_length; reflexivity).
  assert (HKL : length (knot_insertion Rops (v_pu g) (v_Uu g) (fib_u g j l) t num s k) = (v_su g + num)%nat).
  { destruct (knot_insertion_frame Rops (v_pu g) (v_Uu g) (fib_u g j l) t num s k) as [HL _]; rewrite ?Hf; auto. rewrite HL, Hf. reflexivity. }
  transitivity (curve_pt (v_pu g) (knot_insertion_kv (v_Uu g) t k num) (knot_insertion Rops (v_pu g) (v_Uu g) (fib_u g j l) t num s k) c tu).
  - unfold curve_pt. rewrite HKL. apply sumf_ext. intros i Hi. f_equal. unfold coord.
    unfold vidx at 1. cbn [v_su v_sv v_sw].
    rewrite (vol_net_u_fibre Rops g t num s k i j l) by lia. reflexivity.
  - rewrite (insertN_model_preserves_curve (v_pu g) (v_Uu g) (fib_u g j l) t s k dim); auto; rewrite ?Hf; auto.
    + unfold curve_pt. rewrite Hf. apply sumf_ext. intros i Hi. f_equal. unfold coord, fib_u, getp at 1.
      rewrite nth_map_seq by exact Hi. reflexivity.
    + intros i Hi. unfold fib_u, getp at 1. rewrite nth_map_seq by exact Hi. apply Hdim. apply vidx_lt; assumption.
Qed.
End U.
End VolThm.
