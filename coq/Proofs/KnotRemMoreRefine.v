(* C06 leftovers, part 2: removal after a GENERAL knot refinement (A5.4, Model.KnotRefine.refine_pts / knot_refinement with any
   sorted list X of new knots).
   1. refine_is_insert_chain : A5.4 computes exactly (control points and knot vector, as lists) what repeated
      operations.insert_knot(curve, [x], [1]) computes when the knots of X are inserted one at a time from the LAST to the first.
   2. remove_after_refine_sched : operations.remove_knot applied along any "schedule" [(x_1, n_1); ...; (x_m, n_m)] whose
      expansion x_1^n_1 ... x_m^n_m is the list X (increasing = reverse order of insertion; one knot at a time, or every knot with
      its full count, or any grouping in between) never raises, gives back the ORIGINAL control points and knot vector, and
      every intermediate curve has the points of the original curve.
   Details: Proofs/KnotRemMore.README. *)
From Coq Require Import List Reals Lra Lia Arith Bool ZArith Permutation.
From NV Require Import Scalar.Ops Model.Common Model.Basis Model.KnotIns Model.InsertKnot Model.KnotRem Model.KnotRefine
  Proofs.Boehm Proofs.BasisR Proofs.KnotInsR Proofs.KnotInsN Proofs.InsertKnotR Proofs.InsertNR Proofs.InsertDirR Proofs.InsertVolR
  Proofs.InsertOpR Proofs.InsertOpSurf Proofs.KnotRemR Proofs.KnotRemGeneral Proofs.KnotRemGeneralDir Proofs.KnotRemGeneralVol
  Proofs.KnotRemMultiDir Proofs.KnotRefineR Proofs.RefineR Proofs.RefineGenS Proofs.RefineGenI Proofs.RefineGeneral Proofs.RefineDefault Proofs.RefineOp Proofs.KnotRemRefine Proofs.KnotRemMore.
Import ListNotations.
Local Open Scope nat_scope.

(* ================================================================== curves: the stages of insert_knot / remove_knot *)
Definition cwf (c : curve (T:=R)) (dim : nat) : Prop :=
  dir_wf (c_p c) (c_U c) (length (c_P c)) /\ forall i, i < length (c_P c) -> length (getp (c_P c) i) = dim.

Definition cstep (tol : R) (c : curve (T:=R)) (o : option R) (n : nat) : curve * bool :=
  match dir_prep Rops tol true (c_p c) (c_U c) (length (c_P c)) o n with
  | None => (c, false)
  | Some None => (c, true)
  | Some (Some (u, s, k, kv)) => (mkC (c_p c) kv (knot_insertion Rops (c_p c) (c_U c) (c_P c) u n s k), false)
  end.
Definition crstep (tol tol2 : R) (c : curve (T:=R)) (o : option R) (n : nat) : curve * bool :=
  match rem_prep Rops tol true (c_p c) (c_U c) (length (c_P c)) o n with
  | None => (c, false)
  | Some None => (c, true)
  | Some (Some (u, s, k, kv)) => (mkC (c_p c) kv (knot_removal Rops (pdim (c_P c)) tol2 (c_p c) (c_U c) (c_P c) u n s k), false)
  end.

Lemma insert_knot_curve_steps tol c o n : insert_knot_curve Rops tol true c [o] [Z.of_nat n] = cstep tol c o n.
Proof.
  unfold insert_knot_curve. change [Z.of_nat n] with (map Z.of_nat [n]).
  rewrite (nums_ok_nat 1 [n]) by reflexivity. cbn [andb negb map]. unfold numat, parat. cbn [nth].
  rewrite !Nat2Z.id. reflexivity.
Qed.
Lemma remove_knot_curve_steps tol tol2 c o n : remove_knot_curve Rops tol tol2 true c [o] [Z.of_nat n] = crstep tol tol2 c o n.
Proof.
  unfold remove_knot_curve. change [Z.of_nat n] with (map Z.of_nat [n]).
  rewrite (nums_ok_nat 1 [n]) by reflexivity. cbn [andb negb map]. unfold numat, parat. cbn [nth].
  rewrite !Nat2Z.id. reflexivity.
Qed.

Lemma cstep_zero tol c x : cstep tol c (Some x) 0 = (c, false).
Proof. reflexivity. Qed.
Lemma crstep_zero tol tol2 c x : crstep tol tol2 c (Some x) 0 = (c, false).
Proof. reflexivity. Qed.

Lemma cstep_mono tol c x r r' : r' <= r -> snd (cstep tol c (Some x) r) = false -> snd (cstep tol c (Some x) r') = false.
Proof.
  intros Hr. unfold cstep. intros H.
  pose proof (dir_prep_mono tol (c_p c) (c_U c) (length (c_P c)) (Some x) r r' Hr) as M.
  destruct (dir_prep Rops tol true (c_p c) (c_U c) (length (c_P c)) (Some x) r) as [[[[[t s] k] kv]|]|]; cbn [snd] in H; try discriminate;
  (destruct (dir_prep Rops tol true (c_p c) (c_U c) (length (c_P c)) (Some x) r') as [[[[[t' s'] k'] kv']|]|]; cbn [snd];
    [reflexivity|exfalso; apply M; [discriminate|reflexivity]|reflexivity]).
Qed.

Lemma cwf_Forall c dim : cwf c dim -> Forall (fun pt => length pt = dim) (c_P c).
Proof.
  intros (_ & Wd). rewrite Forall_forall. intros x Hx. destruct (In_nth _ _ [] Hx) as (i & Hi & <-). apply Wd. exact Hi.
Qed.

(* an accepted stage: what it returns, well-formedness, every curve point unchanged *)
Lemma cstep_accept tol c dim x n : cwf c dim -> par_ok tol (c_p c) (c_U c) (length (c_P c)) (Some x) -> 1 <= n ->
  snd (cstep tol c (Some x) n) = false ->
  let s := find_multiplicity Rops tol x (c_U c) in let k := find_span_linear Rops (c_p c) (c_U c) (length (c_P c)) x in
  n <= c_p c - s /\
  cstep tol c (Some x) n = (mkC (c_p c) (knot_insertion_kv (c_U c) x k n) (knot_insertion Rops (c_p c) (c_U c) (c_P c) x n s k), false) /\
  cwf (fst (cstep tol c (Some x) n)) dim /\
  length (c_P (fst (cstep tol c (Some x) n))) = length (c_P c) + n /\
  forall cc t, cc < dim ->
    curve_pt (c_p c) (c_U (fst (cstep tol c (Some x) n))) (c_P (fst (cstep tol c (Some x) n))) cc t = curve_pt (c_p c) (c_U c) (c_P c) cc t.
Proof.
  intros [W Wd] Hpar H1. cbv zeta. unfold cstep.
  pose proof (dir_prep_spec tol (c_p c) (c_U c) (length (c_P c)) (Some x) n) as D.
  destruct (dir_prep Rops tol true (c_p c) (c_U c) (length (c_P c)) (Some x) n) as [[[[[t s] k] kv]|]|]; cbn [fst snd]; intros Rr; try discriminate.
  - destruct D as (Eo & _ & -> & Hn & -> & ->). injection Eo as <-.
    destruct (dir_accept tol (c_p c) (c_U c) (length (c_P c)) x n W Hpar H1 Hn) as (A1 & A2 & A3 & A4 & A5 & A6). cbv zeta in *.
    set (k := find_span_linear Rops (c_p c) (c_U c) (length (c_P c)) x) in *. set (s := find_multiplicity Rops tol x (c_U c)) in *.
    destruct (knot_insertion_frame Rops (c_p c) (c_U c) (c_P c) x n s k A1 A2 A3 Hn) as [HL _].
    split; [exact Hn|]. split; [reflexivity|]. cbn [c_p c_U c_P]. split; [|split; [exact HL|]].
    + split; cbn [c_p c_U c_P]; [rewrite HL; exact A6|].
      intros i Hi. rewrite HL in Hi. apply (ki_dim Rops (c_p c) (c_U c) (c_P c) x n s k dim); assumption.
    + intros cc t Hcc. destruct W as (Us & Hp & HLU).
      apply (insertN_model_preserves_curve (c_p c) (c_U c) (c_P c) x s k dim); assumption.
  - cbn [eff] in D. lia.
Qed.

(* [G] curves: a removal stage with a count j <= r after an accepted r-fold insertion stage returns what the insertion stage builds
   for r - j (j = r: the curve itself) *)
Lemma crstep_less tol tol2 c dim x r j : cwf c dim -> par_ok tol (c_p c) (c_U c) (length (c_P c)) (Some x) ->
  (0 <= tol)%R -> (0 <= tol2)%R -> j <= r -> snd (cstep tol c (Some x) r) = false ->
  crstep tol tol2 (fst (cstep tol c (Some x) r)) (Some x) j = cstep tol c (Some x) (r - j).
Proof.
  intros F Hpar Ht Ht2 Hj Acc.
  destruct (Nat.eq_dec r 0) as [->|Hr0]. { replace j with 0 by lia. reflexivity. }
  destruct (Nat.eq_dec j 0) as [->|Hj0].
  { rewrite Nat.sub_0_r. rewrite crstep_zero. destruct (cstep tol c (Some x) r) as [c1 q]. cbn [snd fst] in *. subst q. reflexivity. }
  destruct (cstep_accept tol c dim x r F Hpar ltac:(lia) Acc) as (Hn & E & _ & HL1 & _). cbv zeta in *.
  pose proof F as [W Wd].
  destruct (dir_accept tol (c_p c) (c_U c) (length (c_P c)) x r W Hpar ltac:(lia) Hn) as (A1 & A2 & A3 & A4 & A5 & A6). cbv zeta in *.
  rewrite E in HL1 |- *. cbn [fst c_P] in HL1. cbn [fst]. unfold crstep. cbn [c_p c_U c_P]. rewrite HL1.
  rewrite (rem_prep_after_insertion_le tol (c_p c) (c_U c) (length (c_P c)) x r j W Hpar Ht ltac:(lia) Hn).
  set (k := find_span_linear Rops (c_p c) (c_U c) (length (c_P c)) x) in *. set (s := find_multiplicity Rops tol x (c_U c)) in *.
  destruct W as (Us & Hp & HLU).
  assert (Hlt : (knR (c_U c) (k - s) < x)%R).
  { apply (mult_strict_below tol (c_U c) x k Us Ht); [lia|exact A4|fold s; lia]. }
  rewrite (remove_j_insert_r _ tol2 (c_p c) (c_U c) (c_P c) x s k dim r j); try assumption; try lia; try lra.
  2:{ apply cwf_Forall. exact F. }
  unfold cstep.
  destruct (Nat.eq_dec (r - j) 0) as [E0|E0].
  - rewrite E0. cbn [dir_prep Nat.eqb]. rewrite kv_zero. rewrite ki_zero by assumption. destruct c; reflexivity.
  - unfold dir_prep. destruct (Nat.eqb_spec (r - j) 0) as [E1|_]; [lia|]. fold s.
    destruct (Nat.ltb_spec (c_p c - s) (r - j)) as [E1|_]; [lia|]. cbn [andb]. fold k. reflexivity.
Qed.

(* [G] (n + 1)-fold insertion stage = n-fold stage followed by a single stage (the code's own lookups on the inserted vector) *)
Lemma cstep_succ tol c dim x n : cwf c dim -> par_ok tol (c_p c) (c_U c) (length (c_P c)) (Some x) -> (0 <= tol)%R ->
  snd (cstep tol c (Some x) (S n)) = false ->
  cstep tol (fst (cstep tol c (Some x) n)) (Some x) 1 = cstep tol c (Some x) (S n).
Proof.
  intros F Hpar Ht Acc.
  destruct (Nat.eq_dec n 0) as [->|Hn0]. { reflexivity. }
  pose proof (cstep_mono tol c x (S n) n ltac:(lia) Acc) as Acc'.
  destruct (cstep_accept tol c dim x (S n) F Hpar ltac:(lia) Acc) as (HnS & ES & _). cbv zeta in *.
  destruct (cstep_accept tol c dim x n F Hpar ltac:(lia) Acc') as (Hn & E & _ & HL1 & _). cbv zeta in *.
  pose proof F as [W Wd].
  destruct (dir_accept tol (c_p c) (c_U c) (length (c_P c)) x n W Hpar ltac:(lia) Hn) as (A1 & A2 & A3 & A4 & A5 & A6). cbv zeta in *.
  rewrite ES. rewrite E in HL1 |- *. cbn [fst c_P] in HL1. cbn [fst]. unfold cstep at 1. cbn [c_p c_U c_P]. rewrite HL1.
  unfold dir_prep. cbn [Nat.eqb].
  rewrite find_multiplicity_after_insertion by exact Ht.
  rewrite (find_span_after_insertion tol (c_p c) (c_U c) (length (c_P c)) x n W Hpar ltac:(lia) Hn).
  set (k := find_span_linear Rops (c_p c) (c_U c) (length (c_P c)) x) in *. set (s := find_multiplicity Rops tol x (c_U c)) in *.
  destruct (Nat.ltb_spec (c_p c - (s + n)) 1) as [E1|_]; [lia|]. cbn [andb].
  destruct W as (Us & Hp & HLU).
  rewrite <- (kv_succ (c_U c) x k n) by lia.
  rewrite !knot_insertion_is_g.
  rewrite (ki_succ Rops (lerp Rops) [] (c_p c) (c_U c) (c_P c) x n s k) by (assumption || lia). reflexivity.
Qed.

Lemma cstep_succ_acc tol c dim x m : cwf c dim -> par_ok tol (c_p c) (c_U c) (length (c_P c)) (Some x) -> (0 <= tol)%R ->
  1 <= m -> snd (cstep tol c (Some x) m) = false -> snd (cstep tol (fst (cstep tol c (Some x) m)) (Some x) 1) = false ->
  snd (cstep tol c (Some x) (S m)) = false.
Proof.
  intros F Hpar Ht Hm Acc Acc1.
  destruct (cstep_accept tol c dim x m F Hpar Hm Acc) as (Hn & E & _ & HL1 & _). cbv zeta in *.
  rewrite E in Acc1, HL1. cbn [fst c_P] in *. unfold cstep in Acc1. cbn [c_p c_U c_P] in Acc1.
  unfold dir_prep in Acc1. cbn [Nat.eqb] in Acc1. rewrite find_multiplicity_after_insertion in Acc1 by exact Ht.
  unfold cstep, dir_prep. cbn [Nat.eqb andb].
  destruct (Nat.ltb_spec (c_p c - (find_multiplicity Rops tol x (c_U c) + m)) 1) as [H|H]; cbn [andb snd] in Acc1; [discriminate|].
  destruct (Nat.ltb_spec (c_p c - find_multiplicity Rops tol x (c_U c)) (S m)) as [H'|H']; [lia|]. reflexivity.
Qed.

(* ================================================================== chains of stages *)
Section Chain.
Variables (tol tol2 : R) (dim : nat).
Hypothesis Ht : (0 <= tol)%R.
Hypothesis Ht2 : (0 <= tol2)%R.

(* an entry (x, n) = "the knot x, n times" *)
Definition insS (c : curve (T:=R)) (e : R * nat) : curve := fst (cstep tol c (Some (fst e)) (snd e)).
Definition remS (c : curve (T:=R)) (e : R * nat) : curve := fst (crstep tol tol2 c (Some (fst e)) (snd e)).
Definition good (c : curve (T:=R)) (e : R * nat) : Prop := 1 <= snd e ->
  cwf c dim /\ par_ok tol (c_p c) (c_U c) (length (c_P c)) (Some (fst e)) /\ snd (cstep tol c (Some (fst e)) (snd e)) = false.
Fixpoint chain (c : curve (T:=R)) (l : list (R * nat)) : Prop :=
  match l with [] => True | e :: l' => good c e /\ chain (insS c e) l' end.
Definition cpts (c : curve (T:=R)) (cc : nat) (t : R) : R := curve_pt (c_p c) (c_U c) (c_P c) cc t.

Lemma chain_app : forall l1 c l2, chain c (l1 ++ l2) <-> chain c l1 /\ chain (fold_left insS l1 c) l2.
Proof.
  induction l1 as [|e l1 IH]; intros c l2; cbn [app chain fold_left]; [tauto|]. rewrite IH. tauto.
Qed.

Lemma insS_zero c x : insS c (x, 0) = c.
Proof. reflexivity. Qed.

Lemma insS_pts c e cc t : good c e -> cc < dim -> cpts (insS c e) cc t = cpts c cc t.
Proof.
  intros G Hc. destruct e as [x n]. destruct (Nat.eq_dec n 0) as [->|Hn]; [reflexivity|].
  destruct (G ltac:(cbn; lia)) as (F & Hpar & Acc). cbn [fst snd] in *.
  destruct (cstep_accept tol c dim x n F Hpar ltac:(lia) Acc) as (_ & E & _ & _ & Hpt). cbv zeta in *.
  unfold cpts, insS. cbn [fst snd]. rewrite <- (Hpt cc t Hc). rewrite E. reflexivity.
Qed.

Lemma insS_cwf c e : good c e -> 1 <= snd e -> cwf (insS c e) dim.
Proof.
  intros G Hn. destruct (G Hn) as (F & Hpar & Acc). destruct e as [x n]. cbn [fst snd] in *.
  apply (cstep_accept tol c dim x n F Hpar Hn Acc).
Qed.

Lemma chain_pts : forall l c cc t, chain c l -> cc < dim -> cpts (fold_left insS l c) cc t = cpts c cc t.
Proof.
  induction l as [|e l IH]; intros c cc t H Hc; cbn [fold_left]; [reflexivity|]. destruct H as [G H].
  rewrite IH by assumption. apply insS_pts; assumption.
Qed.

(* one removal stage undoes the last insertion stage *)
Lemma remS_insS c e : good c e ->
  remS (insS c e) e = c /\ snd (crstep tol tol2 (insS c e) (Some (fst e)) (snd e)) = false.
Proof.
  intros G. destruct e as [x n]. cbn [fst snd]. unfold remS, insS. cbn [fst snd].
  destruct (Nat.eq_dec n 0) as [->|Hn]; [split; reflexivity|].
  destruct (G ltac:(cbn; lia)) as (F & Hpar & Acc). cbn [fst snd] in *.
  rewrite (crstep_less tol tol2 c dim x n n F Hpar Ht Ht2 (le_n n) Acc). rewrite Nat.sub_diag. split; reflexivity.
Qed.

(* [G] removing along a prefix of the schedule: what remains is the insertion chain of the rest *)
Lemma rem_chain_prefix : forall s1 s2 c, chain c (rev (s1 ++ s2)) ->
  fold_left remS s1 (fold_left insS (rev (s1 ++ s2)) c) = fold_left insS (rev s2) c.
Proof.
  induction s1 as [|e s1 IH]; intros s2 c H; [reflexivity|].
  cbn [app rev] in *. rewrite fold_left_app in *. cbn [fold_left].
  apply chain_app in H. destruct H as [H1 H2]. cbn [chain] in H2. destruct H2 as [G _].
  rewrite (proj1 (remS_insS _ e G)). apply IH. exact H1.
Qed.

Lemma rem_chain_flag s1 e s2 c : chain c (rev (s1 ++ e :: s2)) ->
  fold_left remS s1 (fold_left insS (rev (s1 ++ e :: s2)) c) = insS (fold_left insS (rev s2) c) e /\
  good (fold_left insS (rev s2) c) e /\
  snd (crstep tol tol2 (fold_left remS s1 (fold_left insS (rev (s1 ++ e :: s2)) c)) (Some (fst e)) (snd e)) = false.
Proof.
  intros H. rewrite (rem_chain_prefix s1 (e :: s2) c H). cbn [rev]. rewrite fold_left_app. cbn [fold_left].
  rewrite rev_app_distr in H. cbn [rev] in H. rewrite <- app_assoc in H. apply chain_app in H. destruct H as [_ H].
  cbn [app chain] in H. destruct H as [G _].
  split; [reflexivity|]. split; [exact G|]. apply (remS_insS _ e G).
Qed.

Lemma rem_chain sched c : chain c (rev sched) -> fold_left remS sched (fold_left insS (rev sched) c) = c.
Proof. intros H. pose proof (rem_chain_prefix sched [] c) as E. rewrite app_nil_r in E. apply E. exact H. Qed.

(* ---------- regrouping: n single stages with the same knot = one n-fold stage ---------- *)
Lemma singles_group : forall n c x, chain c (repeat (x, 1) n) ->
  good c (x, n) /\ fold_left insS (repeat (x, 1) n) c = insS c (x, n).
Proof.
  induction n as [|m IH]; intros c x H.
  - split; [intros Hn; cbn in Hn; lia|reflexivity].
  - change (repeat (x, 1) (S m)) with ((x, 1) :: repeat (x, 1) m) in *. rewrite repeat_cons in *.
    apply chain_app in H. destruct H as [H1 H2]. destruct (IH c x H1) as [Gm Em].
    rewrite fold_left_app, Em. cbn [fold_left]. cbn [chain] in H2. destruct H2 as [G1 _]. rewrite Em in G1.
    destruct (Nat.eq_dec m 0) as [->|Hm].
    { rewrite insS_zero in *. split; [exact G1|reflexivity]. }
    destruct (Gm ltac:(cbn; lia)) as (F & Hpar & Acc). destruct (G1 ltac:(cbn; lia)) as (_ & _ & Acc1). cbn [fst snd] in *.
    unfold insS in Acc1. cbn [fst snd] in Acc1.
    pose proof (cstep_succ_acc tol c dim x m F Hpar Ht ltac:(lia) Acc Acc1) as AccS.
    split.
    + intros _. cbn [fst snd]. split; [exact F|]. split; [exact Hpar|exact AccS].
    + unfold insS. cbn [fst snd]. rewrite (cstep_succ tol c dim x m F Hpar Ht AccS). reflexivity.
Qed.

Definition expand1 (l : list (R * nat)) : list (R * nat) := flat_map (fun e => repeat (fst e, 1) (snd e)) l.

Lemma group_chain : forall l c, chain c (expand1 l) -> chain c l /\ fold_left insS l c = fold_left insS (expand1 l) c.
Proof.
  induction l as [|[x n] l IH]; intros c H; [split; [exact I|reflexivity]|].
  unfold expand1 in *. cbn [flat_map fst snd] in *. apply chain_app in H. destruct H as [H1 H2].
  destruct (singles_group n c x H1) as [G E]. rewrite E in H2. destruct (IH _ H2) as [C2 E2].
  cbn [chain fold_left]. split; [split; assumption|]. rewrite fold_left_app, E. exact E2.
Qed.
End Chain.

(* ================================================================== A5.4 = a chain of single insertions *)
Lemma lerp_zero : forall x y : list R, length x = length y -> lerp Rops 0%R x y = x.
Proof.
  intros x y H. replace 0%R with (1 - 1)%R by ring. rewrite lerp_compl. apply lerp_one. symmetry. exact H.
Qed.

(* the multiplicity search counts exactly the occurrences when the tolerance does not confuse distinct knots *)
Lemma find_multiplicity_count tol x : (0 <= tol)%R -> forall W : list R,
  (forall y, In y W -> (Rabs (x - y) <= tol)%R -> y = x) ->
  find_multiplicity Rops tol x W = count_occ Req_EM_T W x.
Proof.
  intros Ht. unfold find_multiplicity. induction W as [|y W IH]; intros Hsep; [reflexivity|].
  cbn [filter count_occ]. fold (nearb tol x y).
  destruct (Req_EM_T y x) as [E|E].
  - rewrite (nearb_eq tol x Ht y E). cbn [length]. f_equal. apply IH. intros z Hz. apply Hsep. right. exact Hz.
  - destruct (nearb tol x y) eqn:N.
    + exfalso. apply E. apply Hsep; [left; reflexivity|]. apply nearb_abs. exact N.
    + apply IH. intros z Hz. apply Hsep. right. exact Hz.
Qed.

(* list-level readings of the lerp / copy decision of A5.4 *)
Lemma ins_h_copy tol p (U kv : list R) x i k l (y z : list R) :
  knR kv (k + l) = x -> length y = length z -> ins_h tol p U x kv i k l y z = z.
Proof.
  intros E HL. unfold ins_h. rewrite E. destruct (oltb Rops _ tol); [reflexivity|]. rsimp.
  replace ((x - x) / (x - knR U (i - p + l)))%R with 0%R by (unfold Rdiv; ring).
  apply lerp_zero. symmetry. exact HL.
Qed.
Lemma ins_h_lerp tol p (U kv : list R) x i k l (y z : list R) :
  (x < knR kv (k + l))%R -> (tol <= knR kv (k + l) - x)%R ->
  ins_h tol p U x kv i k l y z
  = lerp Rops ((knR kv (k + l) - x) / (knR kv (k + l) - knR U (i - p + l)))%R z y.
Proof.
  intros Hlt Ht. unfold ins_h. unfold oabs. rsimp.
  set (v := knR kv (k + l)) in *.
  unfold Rleb. destruct (Rle_dec 0 (v - x)) as [|Hn]; [|exfalso; lra].
  unfold Rltb. destruct (Rlt_dec (v - x) tol); [exfalso; lra|]. reflexivity.
Qed.

Section RefChain.
Variables (tol tolm : R) (p : nat) (U : list R) (P : list (list R)) (X : list R) (dim : nat).
Hypothesis Hp1 : 1 <= p.
Hypothesis Usorted : sortedR U.
Hypothesis HpP : p < length P.
Hypothesis HlenU : length U = length P + p + 1.
Hypothesis Xne : X <> [].
Hypothesis Xsorted : sortedR X.
Hypothesis Xlo : (knR U p <= nth 0 X 0)%R.
Hypothesis Xhi : (nth (length X - 1) X 0 < knR U (length P))%R.
Hypothesis HY : Hyps tol p U P X dim.
Hypothesis Htm : (0 <= tolm)%R.
Hypothesis Hsepm : forall x y, In x X -> In y (X ++ U) -> (Rabs (x - y) <= tolm)%R -> y = x.

Let a := find_span_linear Rops p U (S (length P - 1)) (nth 0 X 0%R).
Let b := S (find_span_linear Rops p U (S (length P - 1)) (nth (length X - 1) X 0%R)).

Definition view (st : list (list R) * list R * nat * nat) : curve (T:=R) :=
  let '(nw, kv, i, k) := st in mkC p (Wl U kv i k) (Rl p P nw i k).

(* one outer iteration of A5.4 IS operations.insert_knot(view, [x], [1]), and that call is accepted *)
Lemma step_ins Xrem x st : Inv tol p U P X dim (Xrem ++ [x]) st ->
  good tolm dim (view st) (x, 1) /\ view (rstep tol p U P a st x) = insS tolm (view st) (x, 1).
Proof.
  destruct st as [[[nw0 kv0] i0] k0]. unfold Inv at 1. cbv zeta.
  intros [Hai0 [HiU0 [Hk0 [HLk0 [HLn0 [[Xdone EX] [HWs0 [HWe0 [HX0 [Hkv0 [Hnw0 [HPerm0 [_ HC0]]]]]]]]]]]]].
  rewrite app_length in Hk0. cbn [length] in Hk0.
  destruct (a_spec p U P X Hp1 HpP HlenU Xne Xsorted Xlo Xhi) as [Ha [Ha1 Ha2]]. fold a in Ha, Ha1, Ha2.
  assert (HlX : length Xrem + 1 + length Xdone = length X).
  { rewrite EX, !app_length. cbn [length]. lia. }
  assert (HxX : In x X) by (rewrite EX; apply in_or_app; left; apply in_or_app; right; left; reflexivity).
  destruct (X_in_dom p U P X Hp1 HpP HlenU Xne Xsorted Xlo Xhi x HxX) as [[Hxa Hxb] HxP]. fold a in Hxa.
  unfold rstep. cbn [view].
  pose proof (shift_spec p U P x a (proj1 Ha) (S (length U)) nw0 kv0 i0 k0 (length Xrem + 1)
                Hai0 HiU0 ltac:(lia) ltac:(lia) Hk0 ltac:(lia) ltac:(lia) ltac:(lia)) as HS.
  destruct (refine_shift Rops [] (S (length U)) p U P x a (nw0, kv0, i0, k0)) as [[[nw kv] i] k].
  destruct HS as [Hi [Hk [HLk [HLn [EW [ER [Hkv [Hnw [Hexit HxS]]]]]]]]].
  rewrite <- EW in HWs0, HWe0, HX0, HPerm0, HC0, HxS |- *. rewrite <- ER in HC0 |- *. cbn [view].
  set (W := Wl U kv i k) in *. set (Rv := Rl p P nw i k) in *.
  assert (HiU : i < length U) by lia.
  assert (HLW : length W = length U + length X - (length Xrem + 1)).
  { unfold W. rewrite Wl_length by lia. lia. }
  assert (HLR : length Rv = length P + length X - (length Xrem + 1)).
  { unfold Rv. rewrite Rl_length by lia. lia. }
  assert (HxS' : (x <= knR W (S i))%R).
  { apply HxS. apply HX0. apply in_or_app. right. left. reflexivity. }
  assert (HWi : knR W i = knR U i).
  { unfold W, kn. rewrite Wl_nth by lia. destruct (Nat.leb_spec i i); [reflexivity|lia]. }
  assert (Hxi : (knR W i <= x)%R).
  { rewrite HWi. destruct Hexit as [->|Hlt]; lra. }
  set (e := length W - p - 1) in *.
  assert (HeR : e = length Rv) by (unfold e; lia).
  destruct (HC0 HY) as [Hdim0 _]. destruct HY as [Htol [Hmult Hdim]].
  (* the view is a valid curve and x a valid parameter for it *)
  assert (WF : dir_wf p W (length Rv)).
  { split; [exact HWs0|]. split; lia. }
  assert (HWp : knR W p = knR U p).
  { unfold W, kn. rewrite Wl_nth by lia. destruct (Nat.leb_spec p i); [reflexivity|lia]. }
  assert (HinW : forall j, j < length W -> In (knR W j) (X ++ U)).
  { intros j Hj. apply (Permutation_in _ HPerm0). apply in_or_app. right. unfold kn. apply nth_In. exact Hj. }
  assert (PAR : par_ok tolm p W (length Rv) (Some x)).
  { split.
    - rewrite HWp, <- HeR. rewrite HWe0. split; [|exact HxP].
      destruct (X_bounds p U P X Hp1 HpP HlenU Xsorted x HxX). lra.
    - intros j Hj Habs. apply (Hsepm x (knR W j) HxX (HinW j Hj) Habs). }
  set (cv := mkC p W Rv).
  assert (CW : cwf cv dim).
  { split; [exact WF|]. cbn [cv c_P]. intros j Hj. apply Hdim0. exact Hj. }
  set (s' := find_multiplicity Rops tolm x W). set (k' := find_span_linear Rops p W (length Rv) x).
  assert (Hs'c : s' = count_occ Req_EM_T W x).
  { apply find_multiplicity_count; [exact Htm|]. intros y Hy Habs. destruct (In_nth _ _ 0%R Hy) as (j & Hj & <-).
    apply (Hsepm x (knR W j) HxX (HinW j Hj) Habs). }
  assert (Hs'p : s' + 1 <= p).
  { pose proof (proj1 (Permutation_count_occ Req_EM_T _ _) HPerm0 x) as Hpc.
    rewrite !count_occ_app in Hpc. cbn [count_occ] in Hpc. destruct (Req_EM_T x x) as [_|Hne]; [|congruence].
    pose proof (Hmult x HxX) as Hm. rewrite count_occ_app in Hm. lia. }
  destruct (dir_accept tolm p W (length Rv) x 1 WF PAR (le_n 1) ltac:(fold s'; lia)) as (A1 & A2 & A3 & A4 & A5 & A6).
  cbv zeta in *. fold s' k' in A1, A2, A3, A4, A5, A6.
  assert (Hik' : i <= k').
  { destruct (le_lt_dec i k') as [|Hlt]; [assumption|]. exfalso.
    assert (knR W (k' + 1) <= knR W i)%R by (apply HWs0; lia). lra. }
  assert (Hrun : forall q, i < q <= k' -> nth q W 0%R = x).
  { intros q Hq. assert (knR W (S i) <= knR W q)%R by (apply HWs0; lia).
    assert (knR W q <= knR W k')%R by (apply HWs0; lia). unfold kn in *. cbn [o0 Rops] in *. lra. }
  assert (Hlow : (knR W (k' - s') < x)%R).
  { apply (mult_strict_below tolm W x k' HWs0 Htm); [lia|exact A4|fold s'; lia]. }
  assert (Hk's' : k' - s' <= i).
  { destruct (le_lt_dec (k' - s') i) as [|Hlt]; [assumption|]. exfalso.
    assert (nth (k' - s') W 0%R = x) by (apply Hrun; lia). unfold kn in Hlow. cbn [o0 Rops] in Hlow. lra. }
  assert (Acc : snd (cstep tolm cv (Some x) 1) = false).
  { unfold cstep, dir_prep. cbn [cv c_p c_U c_P Nat.eqb andb]. fold s'.
    destruct (Nat.ltb_spec (p - s') 1); [lia|]. reflexivity. }
  split.
  { intros _. cbn [fst snd]. split; [exact CW|]. split; [exact PAR|exact Acc]. }
  destruct (cstep_accept tolm cv dim x 1 CW PAR (le_n 1) Acc) as (_ & E & _). cbv zeta in E. cbn [cv c_p c_U c_P] in E.
  fold s' k' in E. unfold insS. cbn [fst snd]. fold cv. rewrite E. cbn [fst].
  (* knot vector *)
  assert (EW' : Wl U (upd kv k x) i (Nat.pred k) = knot_insertion_kv W x k' 1).
  { rewrite Wl_insert by lia. fold W. apply kv_same_run; try lia. exact Hrun. }
  rewrite EW'. f_equal.
  (* control points *)
  assert (HkL : k < length nw) by lia.
  set (Rv' := Rl p P (ins_nw tol p U x nw kv i k) i (Nat.pred k)).
  assert (HLR' : length Rv' = S (length Rv)).
  { unfold Rv'. rewrite Rl_length by lia. rewrite ins_nw_length. lia. }
  assert (HRv' : forall w, nth w Rv' [] =
    if Nat.leb w (i - p) then nth w Rv []
    else if Nat.leb w i then ins_h tol p U x kv i k (w - (i - p)) (nth (w - 1) Rv []) (nth w Rv [])
    else nth (w - 1) Rv []).
  { intros w. unfold Rv', Rv. apply (Rl_insert_nth tol p U P X Hp1 HpP HlenU); lia. }
  apply nth_ext with (d := []) (d' := []).
  { rewrite HLR'. symmetry. apply (knot_insertion1_length Rops); lia. }
  intros w Hw. rewrite HLR' in Hw. rewrite HRv'.
  change (nth w (knot_insertion Rops p W Rv x 1 s' k') []) with (getp (knot_insertion Rops p W Rv x 1 s' k') w).
  rewrite (knot_insertion1_nth Rops) by lia. unfold getp.
  assert (Hkvw : forall w0, i - p < w0 <= i -> knR kv (k + (w0 - (i - p))) = knR W (w0 + p)).
  { intros w0 Hw0. unfold W, kn. rewrite Wl_nth by lia. destruct (Nat.leb_spec (w0 + p) i); [lia|]. f_equal. lia. }
  assert (HUw : forall w0, i - p < w0 <= i -> knR U (i - p + (w0 - (i - p))) = knR W w0).
  { intros w0 Hw0. unfold W, kn. rewrite Wl_nth by lia. destruct (Nat.leb_spec w0 i); [|lia]. f_equal. lia. }
  assert (Hlen2 : forall w0, 1 <= w0 -> w0 < length Rv -> length (nth (w0 - 1) Rv []) = length (nth w0 Rv [])).
  { intros w0 H1 H2. rewrite !Hdim0 by lia. reflexivity. }
  destruct (Nat.leb_spec w (i - p)) as [H1|H1].
  { destruct (Nat.leb_spec w (k' - p)); [reflexivity|lia]. }
  destruct (Nat.leb_spec w i) as [H2|H2].
  2:{ destruct (Nat.leb_spec w (k' - p)); [lia|]. destruct (Nat.leb_spec w (k' - s')); [lia|]. reflexivity. }
  destruct (Nat.leb_spec w (k' - p)) as [H3|H3].
  { (* copy: the knot p places further is x *)
    apply ins_h_copy; [|apply Hlen2; lia].
    rewrite Hkvw by lia. unfold kn. cbn [o0 Rops]. apply Hrun. lia. }
  assert (Hgt : (x < knR W (w + p))%R).
  { assert (knR W (k' + 1) <= knR W (w + p))%R by (apply HWs0; lia). lra. }
  assert (Hsep1 : (tol <= knR W (w + p) - x)%R).
  { apply Htol; [exact HxX| |exact Hgt]. apply HinW. lia. }
  rewrite ins_h_lerp by (rewrite Hkvw by lia; assumption).
  rewrite Hkvw, HUw by lia.
  destruct (Nat.leb_spec w (k' - s')) as [H4|H4].
  - (* Boehm's combination *)
    rewrite <- lerp_compl. f_equal. unfold ins_alpha. rsimp.
    replace (k' - p + 1 + (w - (k' - p + 1))) with w by lia.
    replace (S (w - (k' - p + 1) + k')) with (w + p) by lia.
    assert (knR W w <= x)%R.
    { assert (knR W w <= knR W i)%R by (apply HWs0; lia). lra. }
    field. lra.
  - (* alpha = 1: the knot at w is x itself *)
    assert (EWw : knR W w = x) by (apply (A5 w); lia).
    rewrite EWw. replace ((knR W (w + p) - x) / (knR W (w + p) - x))%R with 1%R by (field; lra).
    apply lerp_one. symmetry. apply Hlen2; lia.
Qed.

(* the initial state of A5.4 shows the input curve, the final state the output *)
Lemma view_init : view (rinit p U P X a b) = mkC p U P.
Proof.
  destruct (a_spec p U P X Hp1 HpP HlenU Xne Xsorted Xlo Xhi) as [Ha [Ha1 Ha2]]. fold a in Ha, Ha1, Ha2.
  destruct (b_spec p U P X Hp1 HpP HlenU Xne Xsorted Xlo Xhi) as [Hb [Hb1 Hb2]]. fold b in Hb, Hb1, Hb2.
  pose proof (a_lt_b p U P X Hp1 Usorted HpP HlenU Xne Xsorted Xlo Xhi) as Hab. fold a b in Hab.
  pose proof (Xlen p U P X Hp1 HpP HlenU Xne Xsorted Xlo Xhi) as HX1.
  unfold rinit. cbv zeta. cbn [view].
  set (r := length X - 1). set (n := length P - 1). set (m := n + p + 1).
  set (new0 := repeat [] (n + r + 2)).
  set (new1 := fold_left (fun nw j => upd nw j (getA [] P j)) (seq 0 (S (a - p))) new0).
  set (new2 := fold_left (fun nw j => upd nw (j + r + 1) (getA [] P j)) (seq (b - 1) (S n - (b - 1))) new1).
  set (kv0 := repeat 0%R (m + r + 2)).
  set (kv1 := fold_left (fun kv j => upd kv j (knR U j)) (seq 0 (S a)) kv0).
  set (kv2 := fold_left (fun kv j => upd kv (j + r + 1) (knR U j)) (seq (b + p) (S m - (b + p))) kv1).
  assert (HLn : length new2 = length P + length X).
  { unfold new2, new1, new0. rewrite !fold_upd_length, repeat_length. unfold n, r. lia. }
  assert (HLn1 : length new1 = length P + length X).
  { unfold new1, new0. rewrite !fold_upd_length, repeat_length. unfold n, r. lia. }
  assert (HLk : length kv2 = length U + length X).
  { unfold kv2, kv1, kv0. rewrite !fold_upd_length, repeat_length. unfold m, n, r. lia. }
  assert (HLk1 : length kv1 = length U + length X).
  { unfold kv1, kv0. rewrite !fold_upd_length, repeat_length. unfold m, n, r. lia. }
  assert (Hkv2 : forall j, nth j kv2 0%R =
     if andb (Nat.leb (b + p + (r + 1)) j) (Nat.ltb j (length U + length X)) then knR U (j - (r + 1)) else nth j kv1 0%R).
  { intros j. unfold kv2.
    rewrite (fold_left_ext (fun kv j0 => upd kv (j0 + r + 1) (knR U j0)) (fun kv j0 => upd kv (j0 + (r + 1)) (knR U j0)))
      by (intros; f_equal; lia).
    rewrite nth_fold_upd_shift, HLk1.
    destruct (Nat.leb_spec (b + p + (r + 1)) j); destruct (Nat.ltb_spec j (b + p + (S m - (b + p)) + (r + 1)));
    destruct (Nat.ltb_spec j (length U + length X)); cbn [andb]; auto; unfold m, n, r in *; lia. }
  assert (Hnw2 : forall j, nth j new2 [] =
     if andb (Nat.leb (b - 1 + (r + 1)) j) (Nat.ltb j (length P + length X)) then nth (j - (r + 1)) P [] else nth j new1 []).
  { intros j. unfold new2.
    rewrite (fold_left_ext (fun nw j0 => upd nw (j0 + r + 1) (getA [] P j0)) (fun nw j0 => upd nw (j0 + (r + 1)) (getA [] P j0)))
      by (intros; f_equal; lia).
    rewrite nth_fold_upd_shift, HLn1.
    destruct (Nat.leb_spec (b - 1 + (r + 1)) j); destruct (Nat.ltb_spec j (b - 1 + (S n - (b - 1)) + (r + 1)));
    destruct (Nat.ltb_spec j (length P + length X)); cbn [andb]; auto; unfold n, r in *; lia. }
  f_equal.
  - unfold Wl. replace (S (b + p - 1)) with (b + p) by lia.
    rewrite <- (firstn_skipn (b + p) U) at 2. f_equal.
    apply (nth_ext _ _ 0%R 0%R).
    + rewrite !skipn_length, HLk. unfold r. lia.
    + intros j Hj. rewrite skipn_length, HLk in Hj. rewrite !nth_skipn_add, Hkv2.
      destruct (Nat.leb_spec (b + p + (r + 1)) (S (b + p + r) + j)); [|lia].
      destruct (Nat.ltb_spec (S (b + p + r) + j) (length U + length X)); [|unfold r in *; lia].
      cbn [andb]. unfold kn. cbn [o0 Rops]. f_equal. lia.
  - unfold Rl. replace (b + p - 1 - p) with (b - 1) by lia. replace (b + p + r - p) with (b + r) by lia.
    rewrite <- (firstn_skipn (b - 1) P) at 2. f_equal.
    apply (nth_ext _ _ [] []).
    + rewrite !skipn_length, HLn. unfold r. lia.
    + intros j Hj. rewrite skipn_length, HLn in Hj. rewrite !nth_skipn_add, Hnw2.
      destruct (Nat.leb_spec (b - 1 + (r + 1)) (b + r + j)); [|lia].
      destruct (Nat.ltb_spec (b + r + j) (length P + length X)); [|unfold r in *; lia].
      cbn [andb]. f_equal. lia.
Qed.

Lemma view_final nwF kvF i k : Inv tol p U P X dim [] (nwF, kvF, i, k) -> view (nwF, kvF, i, k) = mkC p kvF nwF.
Proof.
  unfold Inv. cbv zeta. fold a.
  intros [_ [HiU [Hk [HLk [HLn [_ [Hs [_ [_ [Hkv [Hnw [HPerm [Hia HC]]]]]]]]]]]]].
  specialize (Hia eq_refl). cbn [length] in Hk. subst i. rewrite Nat.add_0_r in Hk. subst k.
  destruct (a_spec p U P X Hp1 HpP HlenU Xne Xsorted Xlo Xhi) as [Ha _]. fold a in Ha.
  cbn [view]. f_equal.
  - unfold Wl. rewrite <- (firstn_skipn (S a) kvF) at 2. f_equal.
    apply (nth_ext _ _ 0%R 0%R).
    + rewrite !firstn_length. lia.
    + intros j Hj. rewrite firstn_length in Hj. rewrite !nth_firstn_lt by lia. symmetry. apply Hkv. lia.
  - unfold Rl. rewrite <- (firstn_skipn (a - p) nwF) at 2. f_equal.
    apply (nth_ext _ _ [] []).
    + rewrite !firstn_length. lia.
    + intros j Hj. rewrite firstn_length in Hj. rewrite !nth_firstn_lt by lia. symmetry. apply Hnw. lia.
Qed.

Definition singles (l : list R) : list (R * nat) := map (fun x => (x, 1)) l.

Lemma fold_ins : forall Xrem st, Inv tol p U P X dim Xrem st ->
  chain tolm dim (view st) (singles (rev Xrem)) /\
  view (fold_left (rstep tol p U P a) (rev Xrem) st) = fold_left (insS tolm) (singles (rev Xrem)) (view st).
Proof.
  induction Xrem as [|x Xrem IH] using List.rev_ind; intros st H; [split; [exact I|reflexivity]|].
  rewrite rev_app_distr. cbn [rev app singles map fold_left chain]. fold (singles (rev Xrem)).
  destruct (step_ins Xrem x st H) as [G E].
  pose proof (Inv_step tol p U P X dim Hp1 Usorted HpP HlenU Xne Xsorted Xlo Xhi Xrem x st H) as H'. fold a in H'.
  destruct (IH _ H') as [C EF]. rewrite E in C, EF. split; [split; assumption|exact EF].
Qed.

(* [G] A5.4 with the sorted list X computes exactly what inserting the knots of X one at a time, last knot first, with
   operations.insert_knot computes; every one of these insert_knot calls is accepted *)
Theorem refine_is_insert_chain_sec :
  chain tolm dim (mkC p U P) (singles (rev X)) /\
  refine_pts Rops tol p U P X
  = (c_P (fold_left (insS tolm) (singles (rev X)) (mkC p U P)), c_U (fold_left (insS tolm) (singles (rev X)) (mkC p U P))).
Proof.
  pose proof (Inv_init tol p U P X dim Hp1 Usorted HpP HlenU Xne Xsorted Xlo Xhi) as H0. fold a b in H0.
  destruct (fold_ins X _ H0) as [C E]. rewrite view_init in C, E. split; [exact C|].
  rewrite refine_pts_fold. cbv zeta. fold a b.
  pose proof (Inv_fold tol p U P X dim Hp1 Usorted HpP HlenU Xne Xsorted Xlo Xhi X _ H0) as HF. fold a in HF.
  destruct (fold_left (rstep tol p U P a) (rev X) (rinit p U P X a b)) as [[[nwF kvF] i] k].
  rewrite (view_final nwF kvF i k HF) in E. rewrite <- E. reflexivity.
Qed.
End RefChain.

(* ================================================================== schedules *)
(* a removal schedule: (knot, count) pairs; its expansion lists every knot as often as its count *)
Definition expand (sched : list (R * nat)) : list R := flat_map (fun e => repeat (fst e) (snd e)) sched.

Lemma rev_repeat_ {A} (x : A) : forall n, rev (repeat x n) = repeat x n.
Proof. induction n as [|n IH]; [reflexivity|]. cbn [repeat rev]. rewrite IH. symmetry. apply repeat_cons. Qed.
Lemma singles_repeat x : forall n, singles (repeat x n) = repeat (x, 1) n.
Proof. induction n as [|n IH]; [reflexivity|]. cbn [repeat singles map]. f_equal. exact IH. Qed.
Lemma singles_app l1 l2 : singles (l1 ++ l2) = singles l1 ++ singles l2.
Proof. apply map_app. Qed.

Lemma singles_rev_expand : forall sched, singles (rev (expand sched)) = expand1 (rev sched).
Proof.
  induction sched as [|[x n] s IH]; [reflexivity|].
  unfold expand in *. cbn [flat_map fst snd rev]. rewrite rev_app_distr, singles_app, IH, rev_repeat_, singles_repeat.
  unfold expand1. rewrite flat_map_app. cbn [flat_map fst snd]. rewrite app_nil_r. reflexivity.
Qed.

Lemma expand_singles : forall l, expand (singles l) = l.
Proof. induction l as [|x l IH]; [reflexivity|]. unfold expand in *. cbn [singles map flat_map fst snd repeat app]. f_equal. exact IH. Qed.

Lemma insS_p tol c e : c_p (insS tol c e) = c_p c.
Proof.
  unfold insS, cstep. destruct (dir_prep Rops tol true (c_p c) (c_U c) (length (c_P c)) (Some (fst e)) (snd e)) as [[[[[t s] k] kv]|]|]; reflexivity.
Qed.
Lemma fold_insS_p tol : forall l c, c_p (fold_left (insS tol) l c) = c_p c.
Proof. induction l as [|e l IH]; intros c; cbn [fold_left]; [reflexivity|]. rewrite IH. apply insS_p. Qed.

Lemma fold_left_map_ {A B C} (f : A -> B -> A) (g : C -> B) : forall l a, fold_left f (map g l) a = fold_left (fun a x => f a (g x)) l a.
Proof. induction l as [|x l IH]; intros a0; cbn [map fold_left]; [reflexivity|]. apply IH. Qed.

Open Scope R_scope.

(* [G] THE THEOREM.  p >= 1, U sorted, X a non-empty sorted list of new knots in the half-open domain (the hypotheses of
   RefineGeneral.refine_preserves_curve: tol = tolerance of A5.4's alpha test, no knot above multiplicity p afterwards, points of
   one dimension); tolm = multiplicity tolerance of remove_knot (>= 0, does not confuse a new knot with a different knot),
   tol2 = squared removal tolerance >= 0.  For EVERY schedule sched = [(x_1, n_1); ...] whose expansion is X:
   (a) running operations.remove_knot(curve, [x_i], [n_i]) along the schedule on the refined curve returns the original curve
       record (degree, knot vector, control points);
   (b) no call raises;
   (c) after every prefix of the schedule the curve has the points of the original curve (every coordinate, every parameter). *)
Theorem remove_after_refine_sched (tol tolm tol2 : R) (p : nat) (U : list R) (P : list (list R)) (X : list R) (dim : nat)
    (sched : list (R * nat)) :
  (1 <= p)%nat -> sortedR U -> (p < length P)%nat -> length U = (length P + p + 1)%nat ->
  X <> [] -> sortedR X -> knR U p <= nth 0 X 0 -> nth (length X - 1) X 0 < knR U (length P) ->
  (forall x y, In x X -> In y (X ++ U) -> x < y -> tol <= y - x) ->
  (forall x, In x X -> (count_occ Req_EM_T (X ++ U) x <= p)%nat) ->
  (forall i, (i < length P)%nat -> length (getp P i) = dim) ->
  0 <= tolm -> (forall x y, In x X -> In y (X ++ U) -> Rabs (x - y) <= tolm -> y = x) -> 0 <= tol2 ->
  expand sched = X ->
  let rm := fun (c : curve (T:=R)) (e : R * nat) => remove_knot_curve Rops tolm tol2 true c [Some (fst e)] [Z.of_nat (snd e)] in
  let '(Q, V) := refine_pts Rops tol p U P X in
  fold_left (fun c e => fst (rm c e)) sched (mkC p V Q) = mkC p U P /\
  (forall s1 e s2, sched = s1 ++ e :: s2 -> snd (rm (fold_left (fun c e => fst (rm c e)) s1 (mkC p V Q)) e) = false) /\
  (forall s1 s2, sched = s1 ++ s2 -> forall cc t, (cc < dim)%nat ->
     let c := fold_left (fun c e => fst (rm c e)) s1 (mkC p V Q) in
     c_p c = p /\ curve_pt p (c_U c) (c_P c) cc t = curve_pt p U P cc t).
Proof.
  intros H1 H2 H3 H4 H5 H6 H7 H8 H9 H10 H11 Htm Hsepm Ht2 EX. cbv zeta.
  destruct (refine_is_insert_chain_sec tol tolm p U P X dim H1 H2 H3 H4 H5 H6 H7 H8 (conj H9 (conj H10 H11)) Htm Hsepm) as [C E].
  rewrite E. set (c0 := mkC p U P) in *.
  rewrite <- EX in C. rewrite <- EX. rewrite singles_rev_expand in *.
  destruct (group_chain tolm dim Htm (rev sched) c0 C) as [C' E']. rewrite <- E'.
  set (cF := fold_left (insS tolm) (rev sched) c0).
  assert (EcF : mkC p (c_U cF) (c_P cF) = cF).
  { pose proof (fold_insS_p tolm (rev sched) c0) as Hp. fold cF in Hp. cbn [c0 c_p] in Hp. destruct cF as [p' U' P']. cbn [c_p c_U c_P] in *. subst p'. reflexivity. }
  rewrite EcF.
  assert (Efun : forall l c, fold_left (fun c e => fst (remove_knot_curve Rops tolm tol2 true c [Some (fst e)] [Z.of_nat (snd e)])) l c
                           = fold_left (remS tolm tol2) l c).
  { intros l c. apply fold_left_ext. intros c1 e. rewrite remove_knot_curve_steps. reflexivity. }
  split; [|split].
  - rewrite Efun. apply (rem_chain tolm tol2 dim Htm Ht2). exact C'.
  - intros s1 e s2 ES. rewrite Efun, remove_knot_curve_steps. unfold cF. rewrite ES in *.
    apply (rem_chain_flag tolm tol2 dim Htm Ht2 s1 e s2 c0 C').
  - intros s1 s2 ES cc t Hcc. cbv zeta. rewrite Efun. unfold cF. rewrite ES in *.
    rewrite (rem_chain_prefix tolm tol2 dim Htm Ht2 s1 s2 c0 C').
    rewrite rev_app_distr in C'. apply chain_app in C'. destruct C' as [C1 _].
    split; [apply (fold_insS_p tolm (rev s2) c0)|].
    pose proof (chain_pts tolm dim (rev s2) c0 cc t C1 Hcc) as Hp. unfold cpts in Hp.
    rewrite (fold_insS_p tolm (rev s2) c0) in Hp. exact Hp.
Qed.

(* [G] A5.4 = repeated operations.insert_knot, the statement with the operation itself: the knots of X one at a time, last first;
   every call is accepted (tolm = multiplicity tolerance of insert_knot) *)
Theorem refine_is_insert_chain (tol tolm : R) (p : nat) (U : list R) (P : list (list R)) (X : list R) (dim : nat) :
  (1 <= p)%nat -> sortedR U -> (p < length P)%nat -> length U = (length P + p + 1)%nat ->
  X <> [] -> sortedR X -> knR U p <= nth 0 X 0 -> nth (length X - 1) X 0 < knR U (length P) ->
  (forall x y, In x X -> In y (X ++ U) -> x < y -> tol <= y - x) ->
  (forall x, In x X -> (count_occ Req_EM_T (X ++ U) x <= p)%nat) ->
  (forall i, (i < length P)%nat -> length (getp P i) = dim) ->
  0 <= tolm -> (forall x y, In x X -> In y (X ++ U) -> Rabs (x - y) <= tolm -> y = x) ->
  let ins := fun (c : curve (T:=R)) (x : R) => insert_knot_curve Rops tolm true c [Some x] [1%Z] in
  let cF := fold_left (fun c x => fst (ins c x)) (rev X) (mkC p U P) in
  refine_pts Rops tol p U P X = (c_P cF, c_U cF) /\ c_p cF = p /\
  (forall l1 x l2, rev X = l1 ++ x :: l2 -> snd (ins (fold_left (fun c x => fst (ins c x)) l1 (mkC p U P)) x) = false).
Proof.
  intros H1 H2 H3 H4 H5 H6 H7 H8 H9 H10 H11 Htm Hsepm. cbv zeta.
  destruct (refine_is_insert_chain_sec tol tolm p U P X dim H1 H2 H3 H4 H5 H6 H7 H8 (conj H9 (conj H10 H11)) Htm Hsepm) as [C E].
  assert (Efun : forall l c, fold_left (fun c x => fst (insert_knot_curve Rops tolm true c [Some x] [1%Z])) l c
                           = fold_left (insS tolm) (singles l) c).
  { intros l c. unfold singles. rewrite fold_left_map_. apply fold_left_ext. intros c1 x.
    change 1%Z with (Z.of_nat 1). rewrite insert_knot_curve_steps. reflexivity. }
  rewrite !Efun. split; [exact E|]. split; [apply fold_insS_p|].
  intros l1 x l2 EL. rewrite Efun. change 1%Z with (Z.of_nat 1). rewrite insert_knot_curve_steps.
  rewrite EL in C. unfold singles in C. rewrite map_app in C. apply chain_app in C. destruct C as [_ C].
  cbn [map chain] in C. destruct C as [G _]. apply (G (le_n 1)).
Qed.

(* [G] one knot at a time, in increasing order (= reverse order of insertion) *)
Corollary remove_after_refine_one_by_one (tol tolm tol2 : R) (p : nat) (U : list R) (P : list (list R)) (X : list R) (dim : nat) :
  (1 <= p)%nat -> sortedR U -> (p < length P)%nat -> length U = (length P + p + 1)%nat ->
  X <> [] -> sortedR X -> knR U p <= nth 0 X 0 -> nth (length X - 1) X 0 < knR U (length P) ->
  (forall x y, In x X -> In y (X ++ U) -> x < y -> tol <= y - x) ->
  (forall x, In x X -> (count_occ Req_EM_T (X ++ U) x <= p)%nat) ->
  (forall i, (i < length P)%nat -> length (getp P i) = dim) ->
  0 <= tolm -> (forall x y, In x X -> In y (X ++ U) -> Rabs (x - y) <= tolm -> y = x) -> 0 <= tol2 ->
  let '(Q, V) := refine_pts Rops tol p U P X in
  fold_left (fun c x => fst (remove_knot_curve Rops tolm tol2 true c [Some x] [1%Z])) X (mkC p V Q) = mkC p U P.
Proof.
  intros H1 H2 H3 H4 H5 H6 H7 H8 H9 H10 H11 Htm Hsepm Ht2.
  pose proof (remove_after_refine_sched tol tolm tol2 p U P X dim (singles X) H1 H2 H3 H4 H5 H6 H7 H8 H9 H10 H11 Htm Hsepm Ht2
                (expand_singles X)) as H. cbv zeta in H.
  destruct (refine_pts Rops tol p U P X) as [Q V]. destruct H as [H _].
  unfold singles in H. rewrite fold_left_map_ in H. exact H.
Qed.

(* [G] helpers.knot_refinement (any knot_list / add_knot_list / density) followed by operations.remove_knot of every listed value
   mk "with its count" p - mult_U(mk) (the number of copies the refinement inserted; 0 = nothing to do), in increasing order:
   the original curve record comes back.  RefineOp.plan_ok: the hypotheses of C05_knot_refinement_correct. *)
Corollary remove_after_knot_refinement (tol tol2 : R) check (p : nat) (U : list R) (P : list (list R)) klo add d (dim : nat) Q V :
  let kl := (match klo with Some l => l | None => slice U p (length U - p) end) ++ add in
  RefineOp.plan_ok tol p U (length P) d kl -> (forall i, (i < length P)%nat -> length (getp P i) = dim) -> 0 <= tol2 ->
  knot_refinement Rops tol check p U P klo add d = Ok (Q, V) ->
  fold_left (fun c mk => fst (remove_knot_curve Rops tol tol2 true c [Some mk] [Z.of_nat (p - find_multiplicity Rops tol mk U)]))
            (RefineDefault.refine_Lk d kl) (mkC p V Q) = mkC p U P.
Proof.
  cbv zeta. set (kl := _ ++ add). intros Hok Hdim Ht2 Hk.
  unfold knot_refinement, knot_refinement_g in Hk.
  destruct (refine_plan Rops tol check p U klo add d) as [X| |] eqn:Hplan; cbn [res_map] in Hk; try discriminate.
  destruct (RefineOp.plan_refine_ok tol check p U (length P) klo add d X Hok Hplan) as [EX HX]. fold kl in EX.
  change (refine_g Rops (lerp Rops) [] tol p U P X) with (refine_pts Rops tol p U P X) in Hk.
  destruct HX as (H1 & H2 & H3 & H4 & H5 & H6 & H7 & H8 & H9 & H10).
  set (L := RefineDefault.refine_Lk d kl) in *.
  set (sched := map (fun mk => (mk, p - find_multiplicity Rops tol mk U)%nat) L).
  assert (ES : expand sched = X).
  { rewrite EX. unfold RefineDefault.refine_Xk, refine_X. fold L. unfold expand, sched. rewrite flat_map_concat_map, map_map.
    rewrite <- flat_map_concat_map. reflexivity. }
  pose proof Hok as (_ & _ & _ & _ & Htol & _ & _ & Hsep7).
  assert (HXL : forall x, In x X -> In x L).
  { intros x Hx. rewrite EX in Hx. unfold RefineDefault.refine_Xk, refine_X in Hx. fold L in Hx.
    apply in_flat_map in Hx. destruct Hx as (mk & Hmk & Hin). apply repeat_spec in Hin. subst x. exact Hmk. }
  assert (Hsepm : forall x y, In x X -> In y (X ++ U) -> Rabs (x - y) <= tol -> y = x).
  { intros x y Hx Hy Habs. destruct (Req_dec x y) as [E|E]; [symmetry; exact E|]. exfalso.
    assert (tol < Rabs (x - y)); [|lra]. apply Hsep7; [apply HXL; exact Hx| |exact E].
    apply in_app_or in Hy. apply in_or_app. destruct Hy as [Hy|Hy]; [left; apply HXL; exact Hy|right; exact Hy]. }
  pose proof (remove_after_refine_sched tol tol tol2 p U P X dim sched H1 H2 H3 H4 H5 H6 H7 H8 H9 H10 Hdim Htol Hsepm Ht2 ES) as H.
  cbv zeta in H. destruct (refine_pts Rops tol p U P X) as [Q' V']. inversion Hk. subst Q' V'.
  destruct H as [H _]. unfold sched in H. rewrite fold_left_map_ in H. exact H.
Qed.

Print Assumptions refine_is_insert_chain.
Print Assumptions remove_after_refine_sched.
Print Assumptions remove_after_refine_one_by_one.
Print Assumptions remove_after_knot_refinement.
