(* C06, "a knot produced by refinement": knot refinement (A5.4, Model.KnotRefine.refine_pts) with ONE new knot x computes
   exactly the control points of helpers.knot_insertion (num = 1) and the knot vector knot_insertion_kv, so
   helpers.knot_removal (num = 1) applied to the refined curve restores the original control points.
   Bounded sub-case (one refined knot, X = [x]); general X needs the commutation of insertions and is not proved here. *)
From Coq Require Import List Reals Lra Lia Arith Bool.
From NV Require Import Scalar.Ops Model.Common Model.Basis Model.KnotIns Model.InsertKnot Model.KnotRefine Model.KnotRem
  Proofs.Boehm Proofs.BasisR Proofs.KnotInsR Proofs.InsertKnotR Proofs.KnotRefineR Proofs.RefineR
  Proofs.KnotRemR Proofs.KnotRemGeneral.
Import ListNotations.
Local Open Scope nat_scope.

Lemma lerp_compl a : forall x y : list R, lerp Rops (1 - a)%R y x = lerp Rops a x y.
Proof.
  induction x as [|x0 x IH]; intros [|y0 y]; try reflexivity.
  unfold lerp in *. cbn [combine map fst snd]. rsimp. f_equal; [ring|apply IH].
Qed.

Lemma lerp_one : forall x y : list R, length x = length y -> lerp Rops 1%R x y = y.
Proof.
  induction x as [|x0 x IH]; intros [|y0 y] H; cbn in H; try discriminate; try reflexivity.
  unfold lerp in *. cbn [combine map fst snd]. rsimp. f_equal; [ring|apply IH; lia].
Qed.

Section RefOne.
Variables (td : nat) (tol tol2 : R) (p : nat) (U : list R) (P : list (list R)) (x : R) (dim s : nat).
Hypothesis Hp : 1 <= p.
Hypothesis Usorted : sortedR U.
Hypothesis HpP : p < length P.
Hypothesis HlenU : length U = length P + p + 1.
Hypothesis Hx : (knR U p <= x < knR U (length P))%R.
Hypothesis Htol : forall i, i < length U -> (x < knR U i)%R -> (tol <= knR U i - x)%R.
Hypothesis Hdim : forall i, i < length P -> length (getp P i) = dim.
Hypothesis Htol2 : (0 <= tol2)%R.

Let a := find_span_linear Rops p U (length P) x.
(* x has multiplicity s < p in U: U[a-s] < x = U[a-s+1] = ... = U[a] *)
Hypothesis Hsp : s + 1 <= p.
Hypothesis Hmult : forall i, a - s < i <= a -> knR U i = x.
Hypothesis Hlt : (knR U (a - s) < x)%R.

Lemma refine_one_is_insertion :
  refine_pts Rops tol p U P [x] = (knot_insertion Rops p U P x 1 s a, knot_insertion_kv U x a 1).
Proof.
  destruct (RefineR.a_spec p U P x Hp HpP HlenU Hx) as [[Ha1 Ha2] [Ha3 Ha4]]. fold a in Ha1, Ha2, Ha3, Ha4.
  assert (HSn : S (length P - 1) = length P) by lia.
  pose proof (refine_one_closed Rops (lerp Rops) [] tol p U P x Hp) as H.
  rewrite HSn in H. fold a in H.
  unfold refine_pts.
  destruct (refine_g Rops (lerp Rops) [] tol p U P [x]) as [Q V].
  destruct H as [HV [HL HQ]]; try assumption.
  - intros i Hi. rsimp. unfold Rleb. destruct (Rle_dec x (knR U i)) as [|Hn]; [reflexivity|].
    exfalso. apply Hn. assert (knR U (S a) <= knR U i)%R by (apply Usorted; lia). lra.
  - intros l Hl. rsimp. unfold oabs, oneg. rsimp.
    assert (Hpos : (knR U (S a) <= knR U (a + l))%R) by (apply Usorted; lia).
    assert (Ht : (tol <= knR U (a + l) - x)%R) by (apply Htol; [lia|lra]).
    unfold Rleb. destruct (Rle_dec 0 (knR U (a + l) - x)) as [|Hn]; [|exfalso; lra].
    unfold Rltb. destruct (Rlt_dec (knR U (a + l) - x) tol); [lra|reflexivity].
  - f_equal; [|exact HV].
    apply nth_ext with (d := []) (d' := []).
    + rewrite HL. symmetry. apply (knot_insertion1_length Rops); lia.
    + intros m Hm. rewrite HL in Hm.
      change (nth m Q []) with (getA [] Q m). rewrite HQ.
      change (nth m (knot_insertion Rops p U P x 1 s a) []) with (getp (knot_insertion Rops p U P x 1 s a) m).
      rewrite (knot_insertion1_nth Rops) by lia. unfold getA. fold (getp P m). fold (getp P (m - 1)).
      destruct (Nat.leb_spec m (a - p)) as [H1|H1]; [reflexivity|].
      destruct (Nat.leb_spec m a) as [H2|H2].
      * assert (Hd1 : length (getp P m) = dim) by (apply Hdim; lia).
        assert (Hd2 : length (getp P (m - 1)) = dim) by (apply Hdim; lia).
        assert (HUm : (knR U m <= x)%R).
        { apply Rle_trans with (knR U a); [apply Usorted; lia|exact Ha3]. }
        assert (HUmp : (x < knR U (m + p))%R).
        { apply Rlt_le_trans with (knR U (S a)); [exact Ha4|apply Usorted; lia]. }
        destruct (Nat.leb_spec m (a - s)) as [H3|H3].
        -- rewrite <- lerp_compl. f_equal. unfold ref_alpha, ins_alpha. rsimp.
           replace (a - p + 1 + (m - (a - p + 1))) with m by lia.
           replace (S (m - (a - p + 1) + a)) with (m + p) by lia. field. lra.
        -- assert (E : ref_alpha Rops p U x m = 1%R).
           { unfold ref_alpha. rsimp. rewrite (Hmult m) by lia. field. lra. }
           rewrite E. apply lerp_one. lia.
      * destruct (Nat.leb_spec m (a - s)); [lia|reflexivity].
Qed.

(* [B: one refined knot] removing the knot that a one-knot refinement produced restores the control points *)
Theorem remove_after_refine_one :
  let '(Q, V) := refine_pts Rops tol p U P [x] in
  knot_removal Rops td tol2 p V Q x 1 (s + 1) (a + 1) = P /\ knot_removal_kv V (a + 1) 1 = U.
Proof.
  destruct (RefineR.a_spec p U P x Hp HpP HlenU Hx) as [[Ha1 Ha2] [Ha3 Ha4]]. fold a in Ha1, Ha2, Ha3, Ha4.
  rewrite refine_one_is_insertion. split.
  - apply (remove_r_insert_r_id td tol2 p U P x s a dim 1); auto; try lia.
    + replace (a + 1) with (S a) by lia. exact Ha4.
    + rewrite Forall_forall. intros pt Hin. destruct (In_nth P pt [] Hin) as (i & Hi & <-). apply Hdim. exact Hi.
  - apply rem_kv_inverts_ins_kv. lia.
Qed.
End RefOne.
Print Assumptions remove_after_refine_one.
