(* Real-number theorems about knot refinement (A5.4): with one knot to insert the model computes Boehm's
   points and the knot vector with x in sorted position, hence every curve point is unchanged. *)
From Coq Require Import List Reals Lra Lia Arith Bool.
From NV Require Import Scalar.Ops Model.Common Model.Basis Model.KnotIns Model.InsertKnot Model.KnotRefine
  Proofs.Boehm Proofs.BasisR Proofs.KnotInsR Proofs.InsertKnotR Proofs.KnotRefineR.
Import ListNotations.
Open Scope R_scope.

Section One.
Variables (tol : R) (p : nat) (U : list R) (P : list (list R)) (x : R) (dim : nat).
Hypothesis Hp : (1 <= p)%nat.
Hypothesis Usorted : sortedR U.
Hypothesis HpP : (p < length P)%nat.
Hypothesis HlenU : length U = (length P + p + 1)%nat.
Hypothesis Hx : knR U p <= x < knR U (length P).
Hypothesis Htol : forall i, (i < length U)%nat -> x < knR U i -> tol <= knR U i - x.
Hypothesis Hdim : forall i, (i < length P)%nat -> length (getp P i) = dim.

Let a := find_span_linear Rops p U (length P) x.

Lemma a_spec : (p <= a < length P)%nat /\ knR U a <= x < knR U (S a).
Proof.
  pose proof (find_span_linear_spec U x p (length P) HpP ltac:(lia) (proj1 Hx)) as H.
  cbv zeta in H. fold a in H. destruct H as [H1 [H2 [H3|[H3 H4]]]].
  - split; [exact H1|split; assumption].
  - lra.
Qed.

Theorem refine_one_spec :
  let '(Q, V) := refine_pts Rops tol p U P [x] in
  V = knot_insertion_kv U x a 1 /\ length Q = S (length P) /\
  forall c i, (c < dim)%nat -> (i < S (length P))%nat ->
    coord c Q i = alpha (Ufun U) a x p i * coord c P i + (1 - alpha (Ufun U) a x p i) * coord c P (pred i).
Proof.
  destruct a_spec as [[Ha1 Ha2] [Ha3 Ha4]].
  assert (HSn : S (length P - 1) = length P) by lia.
  pose proof (refine_one_closed Rops (lerp Rops) [] tol p U P x Hp) as H.
  rewrite HSn in H. fold a in H.
  unfold refine_pts.
  destruct (refine_g Rops (lerp Rops) [] tol p U P [x]) as [Q V].
  destruct H as [HV [HL HQ]]; try assumption.
  - intros i Hi. rsimp. unfold Rleb. destruct (Rle_dec x (knR U i)) as [|Hn]; [reflexivity|].
    exfalso. apply Hn. assert (knR U (S a) <= knR U i) by (apply Usorted; lia). lra.
  - intros l Hl. rsimp. unfold oabs, oneg. rsimp.
    assert (Hpos : knR U (S a) <= knR U (a + l)) by (apply Usorted; lia).
    assert (Ht : tol <= knR U (a + l) - x) by (apply Htol; [lia|lra]).
    unfold Rleb. destruct (Rle_dec 0 (knR U (a + l) - x)) as [|Hn]; [|exfalso; lra].
    unfold Rltb. destruct (Rlt_dec (knR U (a + l) - x) tol); [lra|reflexivity].
  - split; [exact HV|]. split; [exact HL|].
    intros c i Hc Hi. unfold coord, getp. fold (InsertKnot.getA (@nil R) Q i). rewrite HQ.
    replace (pred i) with (i - 1)%nat by lia.
    destruct (Nat.leb_spec i (a - p)).
    + rewrite alpha_one by lia. unfold InsertKnot.getA. ring.
    + destruct (Nat.leb_spec i a).
      * rewrite alpha_frac by lia. unfold InsertKnot.getA.
        change 0 with (o0 Rops). rewrite lerp_nth.
        2:{ change (nth i P []) with (getp P i). rewrite Hdim; lia. }
        2:{ change (nth (i - 1) P []) with (getp P (i - 1)). rewrite Hdim; lia. }
        rsimp. unfold ref_alpha. rsimp. rewrite !Ufun_in by lia.
        assert (knR U i <= knR U a) by (apply Usorted; lia).
        assert (knR U (S a) <= knR U (i + p)) by (apply Usorted; lia).
        field. lra.
      * rewrite alpha_zero by lia. unfold InsertKnot.getA. ring.
Qed.

Theorem refine_one_preserves_curve c t : (c < dim)%nat ->
  let '(Q, V) := refine_pts Rops tol p U P [x] in curve_pt p V Q c t = curve_pt p U P c t.
Proof.
  intros Hc. pose proof refine_one_spec as H.
  destruct (refine_pts Rops tol p U P [x]) as [Q V]. destruct H as [HV [HL HQ]].
  destruct a_spec as [[Ha1 Ha2] [Ha3 Ha4]].
  unfold curve_pt. rewrite HL.
  assert (Ht : Ufun U a <= x < Ufun U (S a)) by (rewrite !Ufun_in by lia; split; assumption).
  rewrite (insert1_preserves_curve (Ufun U) (Ufun_sorted U Usorted) a x Ht p (length P) (coord c P) t Ha1 Ha2).
  apply sumf_ext. intros i Hi. subst V.
  rewrite (N_ext (Ufun (knot_insertion_kv U x a 1)) (Ub (Ufun U) a x)) by (intros j; apply Ufun_kv1; lia).
  rewrite HQ by assumption. reflexivity.
Qed.
End One.

(* ---------- density d: every interval of the list is bisected d times ---------- *)
Lemma iter_bisect_length d : forall (l : list R), l <> [] -> length (iter_bisect Rops d l) = ((length l - 1) * 2 ^ d + 1)%nat.
Proof.
  induction d as [|d IH]; intros l Hne.
  - cbn [iter_bisect Nat.pow]. destruct l; [congruence|cbn [length]; lia].
  - cbn [iter_bisect]. assert (Hb : bisect Rops l <> []).
    { intro E. apply (f_equal (@length R)) in E. rewrite bisect_length in E by exact Hne. destruct l; [congruence|cbn in E; lia]. }
    rewrite IH by exact Hb. rewrite bisect_length by exact Hne.
    destruct l; [congruence|]. cbn [length Nat.pow]. lia.
Qed.

Theorem iter_bisect_nth d : forall (l : list R) i j, (S i < length l)%nat -> (j <= 2 ^ d)%nat ->
  nth (i * 2 ^ d + j) (iter_bisect Rops d l) 0 = nth i l 0 + INR j / 2 ^ d * (nth (S i) l 0 - nth i l 0).
Proof.
  induction d as [|d IH]; intros l i j Hi Hj.
  - cbn [iter_bisect Nat.pow pow] in *. rewrite Nat.mul_1_r.
    assert (j = 0 \/ j = 1)%nat as [->| ->] by lia.
    + rewrite Nat.add_0_r. cbn [INR]. field.
    + replace (i + 1)%nat with (S i) by lia. cbn [INR]. field.
  - cbn [iter_bisect].
    assert (Hne : l <> []) by (destruct l; [cbn in Hi; lia|congruence]).
    assert (HLb : length (bisect Rops l) = (2 * length l - 1)%nat) by (apply bisect_length; exact Hne).
    assert (Hpow : (2 ^ S d = 2 * 2 ^ d)%nat) by (cbn; lia).
    assert (Hpos : (0 < 2 ^ d)%R) by (apply pow_lt; lra).
    assert (He : forall q, (q < length l)%nat -> nth (2 * q) (bisect Rops l) 0 = nth q l 0) by (intros; apply bisect_nth_even; assumption).
    assert (Ho : nth (2 * i + 1) (bisect Rops l) 0 = nth i l 0 + (nth (S i) l 0 - nth i l 0) / 2).
    { rewrite bisect_nth_odd by exact Hi. unfold mid, o2. rsimp. reflexivity. }
    destruct (le_lt_dec j (2 ^ d)) as [Hjd|Hjd].
    + replace (i * 2 ^ S d + j)%nat with ((2 * i) * 2 ^ d + j)%nat by (rewrite Hpow; lia).
      rewrite IH by lia. replace (S (2 * i)) with (2 * i + 1)%nat by lia.
      rewrite Ho, He by lia. cbn [pow]. field. lra.
    + replace (i * 2 ^ S d + j)%nat with ((2 * i + 1) * 2 ^ d + (j - 2 ^ d))%nat by (rewrite Hpow; lia).
      rewrite IH by lia. replace (S (2 * i + 1)) with (2 * S i)%nat by lia.
      rewrite Ho, He by lia. rewrite minus_INR by lia. rewrite pow_INR. cbn [pow INR]. 
      replace (1 + 1) with 2 by ring. field. lra.
Qed.
