(* C07, surfaces: operations.split_surface_u / split_surface_v (Model/Split.v) at an interior parameter of the split
   direction are not rejected and both pieces coincide with the original surface under the affine maps of the pieces'
   normalised knot vectors (both directions: the other direction's knot vector is normalised by the setter too).
   Reduction to the curve theorems of Proofs/SplitCoincide.v: column-wise (u) / row-wise (v). *)
From Coq Require Import List Reals Lra Lia Arith Bool ZArith.
From NV Require Import Scalar.Ops Model.Common Model.Basis Model.Knots Model.KnotIns Model.InsertKnot Model.Split
  Proofs.Boehm Proofs.BasisR Proofs.KnotsR Proofs.KnotInsR Proofs.InsertKnotR Proofs.KnotInsN Proofs.InsertNR Proofs.InsertDirR
  Proofs.SplitR Proofs.SplitBezier Proofs.SplitLocal Proofs.SplitCoincide.
Import ListNotations.
Open Scope R_scope.

(* ---------------------------------------------------------------- the knot vectors and nets of the two pieces of a split
   in one direction: degree p, knot vector U, n control points in that direction, parameter t *)
Definition skv_left (tol : R) (p : nat) (U : list R) (n : nat) (t : R) : list R :=
  let k := find_span_linear Rops p U n t in let s := find_multiplicity Rops tol t U in let r := (p - s)%nat in
  map (fun x => (x - knR U 0) / (t - knR U 0)) (firstn (S (k + r)) (knot_insertion_kv U t k r) ++ [t]).
Definition skv_right (tol : R) (p : nat) (U : list R) (n : nat) (t : R) : list R :=
  let k := find_span_linear Rops p U n t in let s := find_multiplicity Rops tol t U in let r := (p - s)%nat in
  map (fun x => (x - t) / (knR U (n + p) - t)) (repeat t (S p) ++ skipn (S (k + r)) (knot_insertion_kv U t k r)).
Definition snet_left (tol : R) (p : nat) (U : list R) (n : nat) (t : R) (P : list (list R)) : list (list R) :=
  let k := find_span_linear Rops p U n t in let s := find_multiplicity Rops tol t U in let r := (p - s)%nat in
  firstn (k - s + 1) (knot_insertion Rops p U P t r s k).
Definition snet_right (tol : R) (p : nat) (U : list R) (n : nat) (t : R) (P : list (list R)) : list (list R) :=
  let k := find_span_linear Rops p U n t in let s := find_multiplicity Rops tol t U in let r := (p - s)%nat in
  skipn (k - s) (knot_insertion Rops p U P t r s k).
(* sizes of the pieces in the split direction *)
Definition ssize_left (tol : R) (p : nat) (U : list R) (n : nat) (t : R) : nat :=
  (find_span_linear Rops p U n t - find_multiplicity Rops tol t U + 1)%nat.
Definition ssize_right (tol : R) (p : nat) (U : list R) (n : nat) (t : R) : nat :=
  (n + (p - find_multiplicity Rops tol t U) - (find_span_linear Rops p U n t - find_multiplicity Rops tol t U))%nat.

(* hypotheses on the split direction *)
Definition dir_split_hyps (tol : R) (p : nat) (U : list R) (n : nat) (t : R) : Prop :=
  sortedR U /\ (p < n)%nat /\ length U = (n + p + 1)%nat /\ knR U p < t < knR U n /\
  (forall i, (i < length U)%nat -> Rabs (t - knR U i) <= tol -> knR U i = t) /\
  (find_multiplicity Rops tol t U <= p)%nat.
(* hypotheses on the other direction: its knot vector passes the setter and has a non-degenerate range *)
Definition dir_keep_hyps (q : nat) (V : list R) (nv : nat) : Prop :=
  sortedR V /\ length V = S (q + nv) /\ knR V 0 < knR V (q + nv).

(* ---------------------------------------------------------------- lists *)
Lemma firstn_seq_add a b s0 : firstn a (seq s0 (a + b)) = seq s0 a.
Proof. revert s0. induction a as [|a IH]; intros s0; [reflexivity|]. cbn. f_equal. apply IH. Qed.

Lemma skipn_seq_add a b s0 : skipn a (seq s0 (a + b)) = seq (s0 + a) b.
Proof.
  revert s0. induction a as [|a IH]; intros s0; cbn.
  - rewrite Nat.add_0_r. reflexivity.
  - rewrite IH. f_equal. lia.
Qed.

Lemma firstn_seq_le a n0 s0 : (a <= n0)%nat -> firstn a (seq s0 n0) = seq s0 a.
Proof. intros H. replace n0 with (a + (n0 - a))%nat by lia. apply firstn_seq_add. Qed.
Lemma skipn_seq_le a n0 s0 : (a <= n0)%nat -> skipn a (seq s0 n0) = seq (s0 + a) (n0 - a).
Proof. intros H. replace n0 with (a + (n0 - a))%nat at 1 by lia. apply skipn_seq_add. Qed.

Lemma map_seq_shift {B} (f : nat -> B) b : forall a, map f (seq a b) = map (fun i => f (a + i)%nat) (seq 0 b).
Proof.
  induction b as [|b IH]; intros a; [reflexivity|]. cbn [seq map]. f_equal; [f_equal; lia|].
  rewrite IH. rewrite <- seq_shift, map_map. apply map_ext. intros i. f_equal. lia.
Qed.

Lemma nth_concat_rows {B} (f : nat -> list B) w d nrows i j :
  (forall i, (i < nrows)%nat -> length (f i) = w) -> (i < nrows)%nat -> (j < w)%nat ->
  nth (j + w * i) (concat (map f (seq 0 nrows))) d = nth j (f i) d.
Proof. intros. rewrite <- flat_map_concat_map. apply nth_flat_map_const; auto. Qed.

Lemma mk_surf_ok p q (rows : list (list (list R))) kvu kvv su' sv' Ku Kv :
  length rows = su' -> length (nth 0 rows []) = sv' ->
  set_kv Rops p kvu su' = Ok Ku -> set_kv Rops q kvv sv' = Ok Kv ->
  mk_surf Rops p q rows kvu kvv = Ok (mkS p q Ku Kv su' sv' (concat rows)).
Proof. intros H1 H2 H3 H4. unfold mk_surf. rewrite H1, H2, H3. cbn [res_bind]. rewrite H4. reflexivity. Qed.

Lemma surf_eta (g : @surf R) : g = mkS (s_pu g) (s_pv g) (s_Uu g) (s_Uv g) (s_su g) (s_sv g) (s_P g).
Proof. destruct g; reflexivity. Qed.

Lemma col_len (g : @surf R) j : length (col_u g j) = s_su g.
Proof. unfold col_u. rewrite map_length, seq_length. reflexivity. Qed.
Lemma row_len (g : @surf R) i : length (row_v g i) = s_sv g.
Proof. unfold row_v. rewrite map_length, seq_length. reflexivity. Qed.

(* the setter of the kept direction *)
Lemma keep_setkv q V nv : dir_keep_hyps q V nv ->
  set_kv Rops q V nv = Ok (map (fun x => (x - knR V 0) / (knR V (q + nv) - knR V 0)) V) /\ V <> [].
Proof.
  intros (Hs & HL & Hr).
  assert (Hne : V <> []) by (intro E; rewrite E in HL; discriminate).
  split; [|exact Hne].
  rewrite (set_kv_sorted q V nv HL Hs). rewrite (normalize_nonempty V Hne).
  rewrite (last_nth V _ Hne), HL. replace (S (q + nv) - 1)%nat with (q + nv)%nat by lia.
  rewrite (nth_indep V (nth 0 V 0) 0) by lia. reflexivity.
Qed.

(* ---------------------------------------------------------------- surface points, inner sums *)
Lemma surf_pt_swap (g : @surf R) c x y :
  surf_pt g c x y = sumf (fun j => N (Ufun (s_Uv g)) (s_pv g) j y *
                      sumf (fun i => N (Ufun (s_Uu g)) (s_pu g) i x * coord c (s_P g) (j + s_sv g * i)) (s_su g)) (s_sv g).
Proof.
  unfold surf_pt.
  rewrite (sumf_ext _ (fun i => sumf (fun j => N (Ufun (s_Uv g)) (s_pv g) j y *
             (N (Ufun (s_Uu g)) (s_pu g) i x * coord c (s_P g) (j + s_sv g * i))) (s_sv g))).
  2:{ intros i _. rewrite <- sumf_scal. apply sumf_ext. intros j _. ring. }
  rewrite sumf_swap. apply sumf_ext. intros j _. rewrite sumf_scal. reflexivity.
Qed.

Lemma curve_pt_col (g : @surf R) c x j : (j < s_sv g)%nat ->
  curve_pt (s_pu g) (s_Uu g) (col_u g j) c x =
  sumf (fun i => N (Ufun (s_Uu g)) (s_pu g) i x * coord c (s_P g) (j + s_sv g * i)) (s_su g).
Proof.
  intros Hj. unfold curve_pt. rewrite col_len. apply sumf_ext. intros i Hi. f_equal.
  unfold coord, col_u, getp at 1. rewrite nth_map_seq by exact Hi. reflexivity.
Qed.

Lemma curve_pt_row (g : @surf R) c y i : (i < s_su g)%nat ->
  curve_pt (s_pv g) (s_Uv g) (row_v g i) c y =
  sumf (fun j => N (Ufun (s_Uv g)) (s_pv g) j y * coord c (s_P g) (j + s_sv g * i)) (s_sv g).
Proof.
  intros Hi. unfold curve_pt. rewrite row_len. apply sumf_ext. intros j Hj. f_equal.
  unfold coord, row_v, getp at 1. rewrite nth_map_seq by exact Hj. reflexivity.
Qed.

(* ================================================================ split in the u direction *)
Section SplitU.
Variables (tol : R) (g : @surf R) (t : R) (dim : nat).
Notation pu := (s_pu g). Notation pv := (s_pv g). Notation Uu := (s_Uu g). Notation Uv := (s_Uv g).
Notation su := (s_su g). Notation sv := (s_sv g).
Hypothesis Hu : dir_split_hyps tol pu Uu su t.
Hypothesis Hv : dir_keep_hyps pv Uv sv.
Hypothesis Hdim : forall i, (i < sv * su)%nat -> length (getp (s_P g) i) = dim.

Let k := find_span_linear Rops pu Uu su t.
Let s := find_multiplicity Rops tol t Uu.
Let r := (pu - s)%nat.
Let U' := knot_insertion_kv Uu t k r.
Let m := (k - s)%nat.
Let Pn := if Nat.eqb r 0 then s_P g else surf_net_u Rops g t r s k.
Let tg := mkS pu pv U' Uv (su + r) sv Pn.

Lemma su_k : (pu <= k < su)%nat /\ (s <= pu)%nat.
Proof.
  destruct Hu as (H1 & H2 & H3 & H4 & H5 & H6). split; [|exact H6].
  apply (sc_k tol pu Uu su t); assumption.
Qed.

Lemma su_tg : insert_knot_surf Rops tol false g [Some t; None] [Z.of_nat r; 0%Z] = (tg, false).
Proof.
  destruct su_k as [Hk Hs].
  unfold insert_knot_surf. cbn [andb]. unfold parat, numat. cbn [nth]. rewrite Nat2Z.id.
  unfold dir_prep at 1. unfold tg, Pn, U'. destruct (Nat.eqb_spec r 0) as [E|E].
  - rewrite E. cbn [dir_prep]. rewrite kv_zero. rewrite Nat.add_0_r. f_equal. apply surf_eta.
  - cbn [andb]. fold s k. cbn [s_pv s_Uv s_sv dir_prep]. reflexivity.
Qed.

Lemma su_dimcol j : (j < sv)%nat -> forall i, (i < su)%nat -> length (getp (col_u g j) i) = dim.
Proof. intros Hj i Hi. unfold col_u, getp at 1. rewrite nth_map_seq by exact Hi. apply Hdim. nia. Qed.

(* the refined net, column by column, is the refined column *)
Lemma su_col i j : (i < su + r)%nat -> (j < sv)%nat ->
  getp Pn (j + sv * i) = getp (knot_insertion Rops pu Uu (col_u g j) t r s k) i.
Proof.
  intros Hi Hj. destruct su_k as [Hk Hs]. unfold Pn. destruct (Nat.eqb_spec r 0) as [E|E].
  - rewrite E in *. rewrite ki_zero by (rewrite ?col_len; lia).
    unfold col_u, getp at 2. rewrite nth_map_seq by lia. reflexivity.
  - apply (surf_net_u_col Rops g t r s k i j); try lia; unfold r; lia.
Qed.

Let rowf (u_ : nat) : list (list R) := map (fun v_ => getp Pn (v_ + sv * u_)%nat) (seq 0 sv).
Let Pc1 := concat (map rowf (seq 0 (m + 1))).
Let Pc2 := concat (map (fun i => rowf (m + i)) (seq 0 (su + r - m))).
Let Kv := map (fun x => (x - knR Uv 0) / (knR Uv (pv + sv) - knR Uv 0)) Uv.
Let g1 := mkS pu pv (skv_left tol pu Uu su t) Kv (m + 1) sv Pc1.
Let g2 := mkS pu pv (skv_right tol pu Uu su t) Kv (su + r - m) sv Pc2.

Lemma su_rowf_len i : length (rowf i) = sv.
Proof. unfold rowf. rewrite map_length, seq_length. reflexivity. Qed.

Lemma su_net2d : net2d tg = map rowf (seq 0 (su + r)).
Proof. reflexivity. Qed.

Lemma su_span' : find_span_linear Rops pu U' (su + r) t = (k + r)%nat.
Proof. destruct Hu as (H1 & H2 & H3 & H4 & H5 & H6). exact (sc_span' tol pu Uu su t H1 H2 H3 H4 H6). Qed.
Lemma su_setkv1 : set_kv Rops pu (firstn (S (k + r)) U' ++ [t]) (m + 1) = Ok (skv_left tol pu Uu su t).
Proof. destruct Hu as (H1 & H2 & H3 & H4 & H5 & H6). exact (sc_setkv1 tol pu Uu su t H1 H2 H3 H4 H6). Qed.
Lemma su_setkv2 : set_kv Rops pu (repeat t (S pu) ++ skipn (S (k + r)) U') (su + r - m) = Ok (skv_right tol pu Uu su t).
Proof. destruct Hu as (H1 & H2 & H3 & H4 & H5 & H6). exact (sc_setkv2 tol pu Uu su t H1 H2 H3 H4 H6). Qed.

(* [G] the split is not rejected and returns g1, g2 *)
Theorem split_surface_u_result : split_surface_u Rops tol g t = Ok (g1, g2).
Proof.
  destruct su_k as [Hk Hs]. destruct Hu as (H1 & H2 & H3 & H4 & H5 & H6).
  destruct (keep_setkv pv Uv sv Hv) as [HKv _].
  unfold split_surface_u.
  rewrite (sc_not_end tol pu Uu su t H2 H3 H4 H6). cbv zeta. unfold split_ks. fold k. fold s. fold r.
  rewrite su_tg. cbn [fst]. rewrite su_net2d. unfold tg. cbn [s_Uu s_su s_pv s_Uv].
  unfold split_knots. cbn [fst snd]. rewrite su_span'.
  replace (k - pu + 1 + r)%nat with (m + 1)%nat by (unfold m, r; lia).
  replace (m + 1 - 1)%nat with m by lia.
  assert (E1 : firstn (m + 1) (map rowf (seq 0 (su + r))) = map rowf (seq 0 (m + 1))).
  { rewrite firstn_map. f_equal. replace (su + r)%nat with (m + 1 + (su + r - (m + 1)))%nat by (unfold m; lia).
    apply firstn_seq_add. }
  assert (E2 : skipn m (map rowf (seq 0 (su + r))) = map (fun i => rowf (m + i)) (seq 0 (su + r - m))).
  { rewrite skipn_map. replace (su + r)%nat with (m + (su + r - m))%nat at 1 by (unfold m; lia).
    rewrite skipn_seq_add. cbn [Nat.add]. apply map_seq_shift. }
  rewrite E1, E2.
  rewrite (mk_surf_ok pu pv (map rowf (seq 0 (m + 1))) _ Uv (m + 1) sv (skv_left tol pu Uu su t) Kv).
  - cbn [res_bind].
    rewrite (mk_surf_ok pu pv (map (fun i => rowf (m + i)) (seq 0 (su + r - m))) _ Uv (su + r - m) sv (skv_right tol pu Uu su t) Kv).
    + reflexivity.
    + rewrite map_length, seq_length. reflexivity.
    + replace (su + r - m)%nat with (S (su + r - m - 1)) by (unfold m; lia). cbn [seq map nth]. apply su_rowf_len.
    + exact su_setkv2.
    + exact HKv.
  - rewrite map_length, seq_length. reflexivity.
  - replace (m + 1)%nat with (S m) by lia. cbn [seq map nth]. apply su_rowf_len.
  - exact su_setkv1.
  - exact HKv.
Qed.

(* points of the two nets *)
Lemma su_Pc1 i j : (i < m + 1)%nat -> (j < sv)%nat -> getp Pc1 (j + sv * i) = getp Pn (j + sv * i).
Proof.
  intros Hi Hj. unfold Pc1, getp at 1. rewrite (nth_concat_rows rowf sv [] (m + 1) i j); auto.
  - unfold rowf. rewrite nth_map_seq by exact Hj. reflexivity.
  - intros. apply su_rowf_len.
Qed.

Lemma su_Pc2 i j : (i < su + r - m)%nat -> (j < sv)%nat -> getp Pc2 (j + sv * i) = getp Pn (j + sv * (m + i)).
Proof.
  intros Hi Hj. unfold Pc2, getp at 1. rewrite (nth_concat_rows (fun i => rowf (m + i)) sv [] (su + r - m) i j); auto.
  - unfold rowf. rewrite nth_map_seq by exact Hj. reflexivity.
  - intros. apply su_rowf_len.
Qed.

Lemma su_Kv_N j y : N (Ufun Kv) pv j ((y - knR Uv 0) / (knR Uv (pv + sv) - knR Uv 0)) = N (Ufun Uv) pv j y.
Proof.
  destruct (keep_setkv pv Uv sv Hv) as [_ Hne]. destruct Hv as (_ & _ & Hr).
  unfold Kv. apply N_normalized; assumption.
Qed.

(* [G] the left piece: for x < t and every y *)
Theorem split_surface_u_left c x y : (c < dim)%nat -> x < t ->
  surf_pt g1 c ((x - knR Uu 0) / (t - knR Uu 0)) ((y - knR Uv 0) / (knR Uv (pv + sv) - knR Uv 0)) = surf_pt g c x y.
Proof.
  intros Hc Hx. destruct su_k as [Hk Hs]. destruct Hu as (H1 & H2 & H3 & H4 & H5 & H6).
  rewrite !surf_pt_swap. unfold g1 at 1 2 3 4 5 6 7. cbn [s_pu s_pv s_Uu s_Uv s_su s_sv s_P].
  apply sumf_ext. intros j Hj. rewrite su_Kv_N. f_equal.
  rewrite <- (curve_pt_col g c x j Hj).
  rewrite <- (sc_left tol pu Uu su t H1 H2 H3 H4 H5 H6 (col_u g j) (col_len g j) dim (su_dimcol j Hj) c x Hc Hx).
  unfold curve_pt. rewrite firstn_length. fold k s r m.
  assert (HL : length (knot_insertion Rops pu Uu (col_u g j) t r s k) = (su + r)%nat).
  { destruct (knot_insertion_frame Rops pu Uu (col_u g j) t r s k) as [HL _]; rewrite ?col_len; try (unfold r; lia).
    rewrite HL, col_len. reflexivity. }
  rewrite HL. replace (Nat.min (m + 1) (su + r)) with (m + 1)%nat by (unfold m; lia).
  apply sumf_ext. intros i Hi. f_equal.
  unfold coord. rewrite su_Pc1 by lia. rewrite su_col by (unfold m in *; lia).
  unfold getp at 2. rewrite nth_firstn_lt by lia. reflexivity.
Qed.

(* [G] the right piece: for x >= t and every y *)
Theorem split_surface_u_right c x y : (c < dim)%nat -> t <= x ->
  surf_pt g2 c ((x - t) / (knR Uu (su + pu) - t)) ((y - knR Uv 0) / (knR Uv (pv + sv) - knR Uv 0)) = surf_pt g c x y.
Proof.
  intros Hc Hx. destruct su_k as [Hk Hs]. destruct Hu as (H1 & H2 & H3 & H4 & H5 & H6).
  rewrite !surf_pt_swap. unfold g2 at 1 2 3 4 5 6 7. cbn [s_pu s_pv s_Uu s_Uv s_su s_sv s_P].
  apply sumf_ext. intros j Hj. rewrite su_Kv_N. f_equal.
  rewrite <- (curve_pt_col g c x j Hj).
  rewrite <- (sc_right tol pu Uu su t H1 H2 H3 H4 H5 H6 (col_u g j) (col_len g j) dim (su_dimcol j Hj) c x Hc Hx).
  unfold curve_pt. rewrite skipn_length. fold k s r m.
  assert (HL : length (knot_insertion Rops pu Uu (col_u g j) t r s k) = (su + r)%nat).
  { destruct (knot_insertion_frame Rops pu Uu (col_u g j) t r s k) as [HL _]; rewrite ?col_len; try (unfold r; lia).
    rewrite HL, col_len. reflexivity. }
  rewrite HL. apply sumf_ext. intros i Hi. f_equal.
  unfold coord. rewrite su_Pc2 by lia. rewrite su_col by (unfold m in *; lia).
  unfold getp at 2. rewrite nth_skipn_add. reflexivity.
Qed.
End SplitU.

(* ================================================================ split in the v direction *)
Section SplitV.
Variables (tol : R) (g : @surf R) (t : R) (dim : nat).
Notation pu := (s_pu g). Notation pv := (s_pv g). Notation Uu := (s_Uu g). Notation Uv := (s_Uv g).
Notation su := (s_su g). Notation sv := (s_sv g).
Hypothesis Hvs : dir_split_hyps tol pv Uv sv t.
Hypothesis Hus : dir_keep_hyps pu Uu su.
Hypothesis Hsu : (0 < su)%nat.
Hypothesis Hdim : forall i, (i < sv * su)%nat -> length (getp (s_P g) i) = dim.

Let k := find_span_linear Rops pv Uv sv t.
Let s := find_multiplicity Rops tol t Uv.
Let r := (pv - s)%nat.
Let U' := knot_insertion_kv Uv t k r.
Let m := (k - s)%nat.
Let Pn := if Nat.eqb r 0 then s_P g else surf_net_v Rops g t r s k.
Let tg := mkS pu pv Uu U' su (sv + r) Pn.

Lemma sv_k : (pv <= k < sv)%nat /\ (s <= pv)%nat.
Proof.
  destruct Hvs as (H1 & H2 & H3 & H4 & H5 & H6). split; [|exact H6].
  apply (sc_k tol pv Uv sv t); assumption.
Qed.

Lemma sv_tg : insert_knot_surf Rops tol false g [None; Some t] [0%Z; Z.of_nat r] = (tg, false).
Proof.
  destruct sv_k as [Hk Hs].
  unfold insert_knot_surf. cbn [andb]. unfold parat, numat. cbn [nth]. rewrite Nat2Z.id.
  cbn [dir_prep]. unfold dir_prep. unfold tg, Pn, U'. destruct (Nat.eqb_spec r 0) as [E|E].
  - rewrite E. rewrite kv_zero. rewrite Nat.add_0_r. f_equal. apply surf_eta.
  - cbn [andb]. fold s k. reflexivity.
Qed.

Lemma sv_dimrow i : (i < su)%nat -> forall j, (j < sv)%nat -> length (getp (row_v g i) j) = dim.
Proof. intros Hi j Hj. unfold row_v, getp at 1. rewrite nth_map_seq by exact Hj. apply Hdim. nia. Qed.

(* the refined net, row by row, is the refined row *)
Lemma sv_row i j : (i < su)%nat -> (j < sv + r)%nat ->
  getp Pn (j + (sv + r) * i) = getp (knot_insertion Rops pv Uv (row_v g i) t r s k) j.
Proof.
  intros Hi Hj. destruct sv_k as [Hk Hs]. unfold Pn. destruct (Nat.eqb_spec r 0) as [E|E].
  - rewrite E in *. rewrite ki_zero by (rewrite ?row_len; lia). rewrite Nat.add_0_r.
    unfold row_v, getp at 2. rewrite nth_map_seq by lia. reflexivity.
  - apply (surf_net_v_row Rops g t r s k i j); try lia; unfold r; lia.
Qed.

Let rowf (u_ : nat) : list (list R) := map (fun v_ => getp Pn (v_ + (sv + r) * u_)%nat) (seq 0 (sv + r)).
Let rowf1 (u_ : nat) : list (list R) := map (fun v_ => getp Pn (v_ + (sv + r) * u_)%nat) (seq 0 (m + 1)).
Let rowf2 (u_ : nat) : list (list R) := map (fun j => getp Pn (m + j + (sv + r) * u_)%nat) (seq 0 (sv + r - m)).
Let Pc1 := concat (map rowf1 (seq 0 su)).
Let Pc2 := concat (map rowf2 (seq 0 su)).
Let Ku := map (fun x => (x - knR Uu 0) / (knR Uu (pu + su) - knR Uu 0)) Uu.
Let g1 := mkS pu pv Ku (skv_left tol pv Uv sv t) su (m + 1) Pc1.
Let g2 := mkS pu pv Ku (skv_right tol pv Uv sv t) su (sv + r - m) Pc2.

Lemma sv_net2d : net2d tg = map rowf (seq 0 su).
Proof. reflexivity. Qed.

Lemma sv_rows1 : map (firstn (m + 1)) (map rowf (seq 0 su)) = map rowf1 (seq 0 su).
Proof.
  destruct sv_k as [Hk Hs]. rewrite map_map. apply map_ext. intros u_. unfold rowf, rowf1.
  rewrite firstn_map. f_equal. apply firstn_seq_le. unfold m. lia.
Qed.

Lemma sv_rows2 : map (skipn m) (map rowf (seq 0 su)) = map rowf2 (seq 0 su).
Proof.
  destruct sv_k as [Hk Hs]. rewrite map_map. apply map_ext. intros u_. unfold rowf, rowf2.
  rewrite skipn_map. rewrite skipn_seq_le by (unfold m; lia). cbn [Nat.add]. rewrite map_seq_shift. reflexivity.
Qed.

Lemma sv_span' : find_span_linear Rops pv U' (sv + r) t = (k + r)%nat.
Proof. destruct Hvs as (H1 & H2 & H3 & H4 & H5 & H6). exact (sc_span' tol pv Uv sv t H1 H2 H3 H4 H6). Qed.
Lemma sv_setkv1 : set_kv Rops pv (firstn (S (k + r)) U' ++ [t]) (m + 1) = Ok (skv_left tol pv Uv sv t).
Proof. destruct Hvs as (H1 & H2 & H3 & H4 & H5 & H6). exact (sc_setkv1 tol pv Uv sv t H1 H2 H3 H4 H6). Qed.
Lemma sv_setkv2 : set_kv Rops pv (repeat t (S pv) ++ skipn (S (k + r)) U') (sv + r - m) = Ok (skv_right tol pv Uv sv t).
Proof. destruct Hvs as (H1 & H2 & H3 & H4 & H5 & H6). exact (sc_setkv2 tol pv Uv sv t H1 H2 H3 H4 H6). Qed.

(* [G] the split is not rejected and returns g1, g2 *)
Theorem split_surface_v_result : split_surface_v Rops tol g t = Ok (g1, g2).
Proof.
  destruct sv_k as [Hk Hs]. destruct Hvs as (H1 & H2 & H3 & H4 & H5 & H6).
  destruct (keep_setkv pu Uu su Hus) as [HKu _].
  unfold split_surface_v.
  rewrite (sc_not_end tol pv Uv sv t H2 H3 H4 H6). cbv zeta. unfold split_ks. fold k. fold s. fold r.
  rewrite sv_tg. cbn [fst]. rewrite sv_net2d. unfold tg. cbn [s_Uu s_sv s_pu s_Uv].
  unfold split_knots. cbn [fst snd]. rewrite sv_span'.
  replace (k - pv + 1 + r)%nat with (m + 1)%nat by (unfold m, r; lia).
  replace (m + 1 - 1)%nat with m by lia.
  rewrite sv_rows1, sv_rows2.
  assert (Hsu' : su = S (su - 1)) by lia.
  rewrite (mk_surf_ok pu pv (map rowf1 (seq 0 su)) Uu _ su (m + 1) Ku (skv_left tol pv Uv sv t)).
  - cbn [res_bind].
    rewrite (mk_surf_ok pu pv (map rowf2 (seq 0 su)) Uu _ su (sv + r - m) Ku (skv_right tol pv Uv sv t)).
    + reflexivity.
    + rewrite map_length, seq_length. reflexivity.
    + rewrite Hsu'. cbn [seq map nth]. unfold rowf2. rewrite map_length, seq_length. reflexivity.
    + exact HKu.
    + exact sv_setkv2.
  - rewrite map_length, seq_length. reflexivity.
  - rewrite Hsu'. cbn [seq map nth]. unfold rowf1. rewrite map_length, seq_length. reflexivity.
  - exact HKu.
  - exact sv_setkv1.
Qed.

Lemma sv_Pc1 i j : (i < su)%nat -> (j < m + 1)%nat -> getp Pc1 (j + (m + 1) * i) = getp Pn (j + (sv + r) * i).
Proof.
  intros Hi Hj. unfold Pc1, getp at 1. rewrite (nth_concat_rows rowf1 (m + 1) [] su i j); auto.
  - unfold rowf1. rewrite nth_map_seq by exact Hj. reflexivity.
  - intros. unfold rowf1. rewrite map_length, seq_length. reflexivity.
Qed.

Lemma sv_Pc2 i j : (i < su)%nat -> (j < sv + r - m)%nat -> getp Pc2 (j + (sv + r - m) * i) = getp Pn (m + j + (sv + r) * i).
Proof.
  intros Hi Hj. unfold Pc2, getp at 1. rewrite (nth_concat_rows rowf2 (sv + r - m) [] su i j); auto.
  - unfold rowf2. rewrite nth_map_seq by exact Hj. reflexivity.
  - intros. unfold rowf2. rewrite map_length, seq_length. reflexivity.
Qed.

Lemma sv_Ku_N i x : N (Ufun Ku) pu i ((x - knR Uu 0) / (knR Uu (pu + su) - knR Uu 0)) = N (Ufun Uu) pu i x.
Proof.
  destruct (keep_setkv pu Uu su Hus) as [_ Hne]. destruct Hus as (_ & _ & Hr).
  unfold Ku. apply N_normalized; assumption.
Qed.

(* [G] the left piece: for y < t and every x *)
Theorem split_surface_v_left c x y : (c < dim)%nat -> y < t ->
  surf_pt g1 c ((x - knR Uu 0) / (knR Uu (pu + su) - knR Uu 0)) ((y - knR Uv 0) / (t - knR Uv 0)) = surf_pt g c x y.
Proof.
  intros Hc Hy. destruct sv_k as [Hk Hs]. destruct Hvs as (H1 & H2 & H3 & H4 & H5 & H6).
  unfold surf_pt. unfold g1 at 1 2 3 4 5 6 7. cbn [s_pu s_pv s_Uu s_Uv s_su s_sv s_P].
  apply sumf_ext. intros i Hi. rewrite sv_Ku_N. f_equal.
  rewrite <- (curve_pt_row g c y i Hi).
  rewrite <- (sc_left tol pv Uv sv t H1 H2 H3 H4 H5 H6 (row_v g i) (row_len g i) dim (sv_dimrow i Hi) c y Hc Hy).
  unfold curve_pt. rewrite firstn_length. fold k s r m.
  assert (HL : length (knot_insertion Rops pv Uv (row_v g i) t r s k) = (sv + r)%nat).
  { destruct (knot_insertion_frame Rops pv Uv (row_v g i) t r s k) as [HL _]; rewrite ?row_len; try (unfold r; lia).
    rewrite HL, row_len. reflexivity. }
  rewrite HL. replace (Nat.min (m + 1) (sv + r)) with (m + 1)%nat by (unfold m; lia).
  apply sumf_ext. intros j Hj. f_equal.
  unfold coord. rewrite sv_Pc1 by lia. rewrite sv_row by (unfold m in *; lia).
  unfold getp at 2. rewrite nth_firstn_lt by lia. reflexivity.
Qed.

(* [G] the right piece: for y >= t and every x *)
Theorem split_surface_v_right c x y : (c < dim)%nat -> t <= y ->
  surf_pt g2 c ((x - knR Uu 0) / (knR Uu (pu + su) - knR Uu 0)) ((y - t) / (knR Uv (sv + pv) - t)) = surf_pt g c x y.
Proof.
  intros Hc Hy. destruct sv_k as [Hk Hs]. destruct Hvs as (H1 & H2 & H3 & H4 & H5 & H6).
  unfold surf_pt. unfold g2 at 1 2 3 4 5 6 7. cbn [s_pu s_pv s_Uu s_Uv s_su s_sv s_P].
  apply sumf_ext. intros i Hi. rewrite sv_Ku_N. f_equal.
  rewrite <- (curve_pt_row g c y i Hi).
  rewrite <- (sc_right tol pv Uv sv t H1 H2 H3 H4 H5 H6 (row_v g i) (row_len g i) dim (sv_dimrow i Hi) c y Hc Hy).
  unfold curve_pt. rewrite skipn_length. fold k s r m.
  assert (HL : length (knot_insertion Rops pv Uv (row_v g i) t r s k) = (sv + r)%nat).
  { destruct (knot_insertion_frame Rops pv Uv (row_v g i) t r s k) as [HL _]; rewrite ?row_len; try (unfold r; lia).
    rewrite HL, row_len. reflexivity. }
  rewrite HL. apply sumf_ext. intros j Hj. f_equal.
  unfold coord. rewrite sv_Pc2 by lia. rewrite sv_row by (unfold m in *; lia).
  unfold getp at 2. rewrite nth_skipn_add. reflexivity.
Qed.
End SplitV.

(* ================================================================ the statements, closed *)
(* [G] split_surface_u: not rejected; degrees kept; sizes in u = those of the curve split, size in v unchanged;
   both pieces coincide with the original under the affine maps of the normalised knot vectors *)
Theorem split_surface_u_coincide (tol : R) (g : @surf R) (t : R) (dim : nat) :
  dir_split_hyps tol (s_pu g) (s_Uu g) (s_su g) t -> dir_keep_hyps (s_pv g) (s_Uv g) (s_sv g) ->
  (forall i, (i < s_sv g * s_su g)%nat -> length (getp (s_P g) i) = dim) ->
  exists g1 g2, split_surface_u Rops tol g t = Ok (g1, g2) /\
    (s_pu g1 = s_pu g /\ s_pv g1 = s_pv g /\ s_pu g2 = s_pu g /\ s_pv g2 = s_pv g /\
     s_su g1 = ssize_left tol (s_pu g) (s_Uu g) (s_su g) t /\ s_su g2 = ssize_right tol (s_pu g) (s_Uu g) (s_su g) t /\
     s_sv g1 = s_sv g /\ s_sv g2 = s_sv g) /\
    (forall c x y, (c < dim)%nat -> x < t ->
       surf_pt g1 c ((x - knR (s_Uu g) 0) / (t - knR (s_Uu g) 0))
                    ((y - knR (s_Uv g) 0) / (knR (s_Uv g) (s_pv g + s_sv g) - knR (s_Uv g) 0)) = surf_pt g c x y) /\
    (forall c x y, (c < dim)%nat -> t <= x ->
       surf_pt g2 c ((x - t) / (knR (s_Uu g) (s_su g + s_pu g) - t))
                    ((y - knR (s_Uv g) 0) / (knR (s_Uv g) (s_pv g + s_sv g) - knR (s_Uv g) 0)) = surf_pt g c x y).
Proof.
  intros Hu Hv Hdim. eexists. eexists. split; [apply split_surface_u_result; assumption|].
  split; [repeat split|]. split.
  - intros c x y Hc Hx. apply (split_surface_u_left tol g t dim); assumption.
  - intros c x y Hc Hx. apply (split_surface_u_right tol g t dim); assumption.
Qed.
Print Assumptions split_surface_u_coincide.

Theorem split_surface_v_coincide (tol : R) (g : @surf R) (t : R) (dim : nat) :
  dir_split_hyps tol (s_pv g) (s_Uv g) (s_sv g) t -> dir_keep_hyps (s_pu g) (s_Uu g) (s_su g) -> (0 < s_su g)%nat ->
  (forall i, (i < s_sv g * s_su g)%nat -> length (getp (s_P g) i) = dim) ->
  exists g1 g2, split_surface_v Rops tol g t = Ok (g1, g2) /\
    (s_pu g1 = s_pu g /\ s_pv g1 = s_pv g /\ s_pu g2 = s_pu g /\ s_pv g2 = s_pv g /\
     s_sv g1 = ssize_left tol (s_pv g) (s_Uv g) (s_sv g) t /\ s_sv g2 = ssize_right tol (s_pv g) (s_Uv g) (s_sv g) t /\
     s_su g1 = s_su g /\ s_su g2 = s_su g) /\
    (forall c x y, (c < dim)%nat -> y < t ->
       surf_pt g1 c ((x - knR (s_Uu g) 0) / (knR (s_Uu g) (s_pu g + s_su g) - knR (s_Uu g) 0))
                    ((y - knR (s_Uv g) 0) / (t - knR (s_Uv g) 0)) = surf_pt g c x y) /\
    (forall c x y, (c < dim)%nat -> t <= y ->
       surf_pt g2 c ((x - knR (s_Uu g) 0) / (knR (s_Uu g) (s_pu g + s_su g) - knR (s_Uu g) 0))
                    ((y - t) / (knR (s_Uv g) (s_sv g + s_pv g) - t)) = surf_pt g c x y).
Proof.
  intros Hv Hu Hsu Hdim. eexists. eexists. split; [apply split_surface_v_result; assumption|].
  split; [repeat split|]. split.
  - intros c x y Hc Hy. apply (split_surface_v_left tol g t dim); assumption.
  - intros c x y Hc Hy. apply (split_surface_v_right tol g t dim); assumption.
Qed.
Print Assumptions split_surface_v_coincide.
