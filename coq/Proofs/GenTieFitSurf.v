(* Ties: generated fitting.compute_params_surface and the numerical part of fitting.interpolate_surface (Gen/FittingB.v, centripetal = False)
   = Model/Fit.v (compute_params_surface, interpolate_surface).  Compositions of compute_params_curve_tie, compute_knot_vector_tie,
   build_coeff_matrix_tie and lu_solve_tie over the rows and columns of the data; under sum_laws K. *)
From Coq Require Import List ZArith Arith Bool Lia QArith.
From NV Require Import Scalar.Ops Model.Common Model.Basis Model.LinAlg Model.Fit
  Gen.Prelude Gen.PreludeExt Gen.PreludeExt2 Gen.LinalgInternal Gen.Linalg Gen.Helpers Gen.Fitting Gen.FittingB
  Proofs.GenTieLib Proofs.GenTieLib2 Proofs.GenTieSums Proofs.GenTieLUSolve Proofs.GenTieFit Proofs.GenTieEvalLib Proofs.GenTieFitB.
Import ListNotations.
Local Open Scope nat_scope.

(* ---- res_all ---- *)
Lemma res_all_Forall2 {A B} (g : A -> res B) (l : list A) : forall rs,
  res_all (map g l) = Ok rs -> Forall2 (fun x r => g x = Ok r) l rs.
Proof.
  induction l as [|a l IH]; intros rs H; simpl in H.
  - injection H as <-. constructor.
  - destruct (g a) as [r| |] eqn:E; simpl in H; try discriminate.
    destruct (res_all (map g l)) as [rs'| |]; simpl in H; try discriminate.
    injection H as <-. constructor; auto.
Qed.

Lemma Forall2_nth {A B} (R : A -> B -> Prop) l rs d d' : Forall2 R l rs -> forall i, i < length l -> R (nth i l d) (nth i rs d').
Proof. induction 1; intros [|i] Hi; simpl in *; try lia; auto. apply IHForall2. lia. Qed.

Lemma Forall2_len {A B} (R : A -> B -> Prop) l rs : Forall2 R l rs -> length rs = length l.
Proof. induction 1; simpl; auto. Qed.

(* `acc += g(x)` loops where g may fail: the first failure is the outcome *)
Lemma gfor_concat_res {A B} (rej crash : gerr) (g : A -> res (list B)) (l : list A) (f : A -> list B -> gres (list B)) :
  (forall x acc, In x l -> f x acc = match g x with Ok r => GOk (acc ++ r) | Rejected => GErr rej | Crash => GErr crash end) ->
  forall acc, gfor l f acc =
    match res_all (map g l) with Ok rs => GOk (acc ++ concat rs) | Rejected => GErr rej | Crash => GErr crash end.
Proof.
  induction l as [|a l IH]; intros H acc; simpl.
  - now rewrite app_nil_r.
  - rewrite H by (simpl; auto). destruct (g a) as [r| |]; simpl; auto.
    rewrite IH by (intros; apply H; simpl; auto).
    destruct (res_all (map g l)) as [rs| |]; simpl; auto. now rewrite app_assoc.
Qed.

(* a list of rows of the same length c read as a flat list *)
Lemma nth_concat_uniform {A} (c : nat) (d : A) : forall (rows : list (list A)),
  (forall r, In r rows -> length r = c) ->
  forall v u, u < c -> v < length rows -> nth (u + c * v) (concat rows) d = nth u (nth v rows []) d.
Proof.
  induction rows as [|r rows IH]; intros Hc v u Hu Hv; simpl in Hv; [lia|].
  assert (Lr : length r = c) by (apply Hc; simpl; auto).
  destruct v as [|v]; simpl.
  - rewrite Nat.mul_0_r, Nat.add_0_r. apply app_nth1. lia.
  - rewrite app_nth2 by nia. rewrite Lr. replace (u + c * S v - c) with (u + c * v) by nia.
    apply IH; auto; try lia. intros r' Hr'. apply Hc. simpl; auto.
Qed.

Lemma concat_length_uniform {A} (c : nat) : forall (rows : list (list A)),
  (forall r, In r rows -> length r = c) -> length (concat rows) = c * length rows.
Proof.
  induction rows as [|r rows IH]; intros Hc; simpl; [lia|].
  rewrite app_length, IH by (intros; apply Hc; simpl; auto). rewrite (Hc r) by (simpl; auto). nia.
Qed.

(* [tbl[f(j)] for j in range(m)] *)
Lemma gmapM_fetch {A} (tbl : list A) (d : A) (idx : Z -> Z) (ix : nat -> nat) (m : nat) :
  (forall j, j < m -> idx (Z.of_nat j) = Z.of_nat (ix j) /\ ix j < length tbl) ->
  gmapM (fun j => do x <- znth tbl (idx j) ;; GOk x) (zrange 0 (Z.of_nat m) 1) = GOk (map (fun j => nth (ix j) tbl d) (seq 0 m)).
Proof.
  intros H. rewrite zrange_0_nat.
  rewrite (gmapM_ok _ (fun z => nth (ix (Z.to_nat z)) tbl d)).
  - rewrite map_map. f_equal. apply map_ext. intros j. now rewrite Nat2Z.id.
  - intros z Hz. apply in_map_iff in Hz. destruct Hz as (j & <- & Hj). apply in_seq in Hj.
    destruct (H j) as [E Hl]; [lia|]. rewrite E, Nat2Z.id. rewrite (znth_nat tbl (ix j) d) by auto. reflexivity.
Qed.

Section TieSums.
Context {T : Type} (K : ops T) (LW : sum_laws K).
Notation "0" := (o0 K).

(* the data rows along u (one per v) and along v (one per u); the points are stored v fastest *)
Definition rowU (pts : list (list T)) (su sv v : nat) : list (list T) := map (fun u => nth (v + sv * u) pts []) (seq 0 su).
Definition rowV (pts : list (list T)) (sv u : nat) : list (list T) := map (fun v => nth (v + sv * u) pts []) (seq 0 sv).
(* the chord lengths the model takes as inputs *)
Definition cdsU (dm : list T -> list T -> T) pts su sv : list (list T) := map (fun v => chords_of dm (rowU pts su sv v)) (seq 0 sv).
Definition cdsV (dm : list T -> list T -> T) pts su sv : list (list T) := map (fun u => chords_of dm (rowV pts sv u)) (seq 0 su).

(* one direction of compute_params_surface: the parameters of m data rows of c >= 1 points each, concatenated *)
Lemma params_pass (dist : list T -> list T -> gres T) (dm : list T -> list T -> T) (rows : nat -> list (list T)) (m : nat)
    (f : Z -> list T -> gres (list T)) :
  (forall a b, dist a b = GOk (dm a b)) ->
  (forall i acc, i < m -> rows i <> [] /\
     f (Z.of_nat i) acc = do r <- Fitting.compute_params_curve__centripetal_false K (rows i) dist ;; GOk (acc ++ r)) ->
  gfor (zrange 0 (Z.of_nat m) 1) f [] =
  match res_all (map (fun i => Fit.compute_params_curve K (chords_of dm (rows i))) (seq 0 m)) with
  | Ok rs => GOk (concat rs) | Rejected => GErr ValueError | Crash => GErr ZeroDivisionError end.
Proof.
  intros Hdist Hf. rewrite zrange_0_nat, (gfor_map Z.of_nat).
  rewrite (gfor_concat_res ValueError ZeroDivisionError (fun i => Fit.compute_params_curve K (chords_of dm (rows i)))).
  - reflexivity.
  - intros i acc Hi. apply in_seq in Hi. destruct (Hf i acc ltac:(lia)) as [Hne ->].
    rewrite (compute_params_curve_tie K LW (rows i) dist dm Hdist Hne). fold (chords_of dm (rows i)).
    destruct (Fit.compute_params_curve K _); reflexivity.
Qed.

(* the averaging loop:  out[a] = sum([temp[a + A * b] for b in range(B)]) / B  for a in range(A), temp = the concatenation of B lists of A values *)
Lemma avg_pass (ps : list (list T)) (A B : nat) :
  length ps = B -> (forall p, In p ps -> length p = A) ->
  gfor (zrange 0 (Z.of_nat A) 1) (fun a out =>
    do knots <- gmapM (fun b => do x <- znth (concat ps) (a + (Z.of_nat A * b))%Z ;; GOk x) (zrange 0 (Z.of_nat B) 1) ;;
    do out <- zset out a (odiv K (gsum K knots) (ofZ K (Z.of_nat B))) ;;
    GOk out) (map (fun _ => 0) (zrange 0 (Z.of_nat A) 1))
  = GOk (avg_params K A ps).
Proof.
  intros LB Hlen. rewrite map_const_zrange, Nat2Z.id, zrange_0_nat, (gfor_map Z.of_nat).
  rewrite (gfor_fill 0 _ (fun a => odiv K (sumT K (map (fun p => nth a p 0) ps)) (ofnat K (length ps))) (repeat 0 A) A).
  - rewrite skipn_all2 by (rewrite repeat_length; lia). now rewrite app_nil_r.
  - rewrite repeat_length. lia.
  - intros a M' Ha LM' _. rewrite repeat_length in LM'.
    rewrite (gmapM_fetch (concat ps) 0 (fun b => (Z.of_nat a + Z.of_nat A * b)%Z) (fun b => a + A * b) B).
    2:{ intros b Hb. split; [lia|]. rewrite (concat_length_uniform A) by auto. nia. }
    cbn [gbind]. rewrite zset_nat by lia. cbn [gbind]. f_equal. f_equal.
    rewrite (gsum_sumT K LW), ofZ_of_nat, LB. f_equal. f_equal.
    rewrite <- (map_nth_seq (fun p => nth a p 0) ps []). rewrite LB.
    apply map_ext_in. intros b Hb. apply in_seq in Hb. apply (nth_concat_uniform A 0 ps Hlen); lia.
Qed.

Lemma cpc_all_lengths (cds : list (list T)) (c : nat) (ps : list (list T)) :
  (forall x, In x cds -> S (length x) = c) -> res_all (map (Fit.compute_params_curve K) cds) = Ok ps ->
  length ps = length cds /\ forall p, In p ps -> length p = c.
Proof.
  intros Hc H. pose proof (res_all_Forall2 _ _ _ H) as F. split; [exact (Forall2_len _ _ _ F)|].
  intros p Hp. destruct (In_nth _ _ [] Hp) as (i & Hi & <-).
  rewrite (Forall2_len _ _ _ F) in Hi.
  pose proof (Forall2_nth _ _ _ [] [] F i Hi) as E. cbv beta in E. rewrite (cpc_length K _ _ E). apply Hc. now apply nth_In.
Qed.

Lemma chords_of_length (dm : list T -> list T -> T) (pts : list (list T)) : length (chords_of dm pts) = length pts - 1.
Proof. unfold chords_of. now rewrite map_length, seq_length. Qed.

(* wf: at least one point in each direction, size_u * size_v <= len(points).  ZeroDivisionError (a row or a column whose chords sum
   to 0) <-> Crash *)
Theorem compute_params_surface_tie (pts : list (list T)) (su sv : nat) (dist : list T -> list T -> gres T) (dm : list T -> list T -> T) :
  (forall a b, dist a b = GOk (dm a b)) -> 1 <= su -> 1 <= sv -> su * sv <= length pts ->
  FittingB.compute_params_surface__centripetal_false K pts (Z.of_nat su) (Z.of_nat sv) dist =
  res_to_gres (fun x => x) ValueError ZeroDivisionError (Fit.compute_params_surface K su sv (cdsU dm pts su sv) (cdsV dm pts su sv)).
Proof.
  intros Hdist Hsu Hsv Hlen. unfold FittingB.compute_params_surface__centripetal_false, Fit.compute_params_surface.
  (* the rows along u *)
  match goal with |- context [gfor (zrange 0 (Z.of_nat sv) 1) ?ff []] =>
    rewrite (params_pass dist dm (rowU pts su sv) sv ff Hdist) end.
  2:{ intros v acc Hv. split.
      - unfold rowU. intros E. apply (f_equal (@length _)) in E. rewrite map_length, seq_length in E. simpl in E. lia.
      - rewrite (gmapM_fetch pts [] (fun u => (Z.of_nat v + Z.of_nat sv * u)%Z) (fun u => v + sv * u) su) by (intros u Hu; split; [lia|nia]).
        reflexivity. }
  unfold cdsU. rewrite map_map.
  destruct (res_all (map (fun v => Fit.compute_params_curve K (chords_of dm (rowU pts su sv v))) (seq 0 sv))) as [pu| |] eqn:Epu;
    cbn [gbind res_bind res_to_gres]; try reflexivity.
  assert (Hpu : length pu = sv /\ forall p, In p pu -> length p = su).
  { rewrite <- (map_map (fun v => chords_of dm (rowU pts su sv v)) (Fit.compute_params_curve K)) in Epu.
    assert (Hc : forall x, In x (map (fun v => chords_of dm (rowU pts su sv v)) (seq 0 sv)) -> S (length x) = su).
    { intros x Hx. apply in_map_iff in Hx. destruct Hx as (v & <- & _). rewrite chords_of_length. unfold rowU.
      rewrite map_length, seq_length. lia. }
    destruct (cpc_all_lengths _ su _ Hc Epu) as [L1 L2].
    rewrite map_length, seq_length in L1. auto. }
  destruct Hpu as [Lpu Hpu]. rewrite (avg_pass pu su sv Lpu Hpu). cbn [gbind].
  (* the columns along v *)
  match goal with |- context [gfor (zrange 0 (Z.of_nat su) 1) ?ff []] =>
    rewrite (params_pass dist dm (rowV pts sv) su ff Hdist) end.
  2:{ intros u acc Hu. split.
      - unfold rowV. intros E. apply (f_equal (@length _)) in E. rewrite map_length, seq_length in E. simpl in E. lia.
      - rewrite (gmapM_fetch pts [] (fun v => (v + Z.of_nat sv * Z.of_nat u)%Z) (fun v => v + sv * u) sv) by (intros v Hv; split; [lia|nia]).
        reflexivity. }
  unfold cdsV. rewrite map_map.
  destruct (res_all (map (fun u => Fit.compute_params_curve K (chords_of dm (rowV pts sv u))) (seq 0 su))) as [pv| |] eqn:Epv;
    cbn [gbind res_bind res_to_gres]; try reflexivity.
  assert (Hpv : length pv = su /\ forall p, In p pv -> length p = sv).
  { rewrite <- (map_map (fun u => chords_of dm (rowV pts sv u)) (Fit.compute_params_curve K)) in Epv.
    assert (Hc : forall x, In x (map (fun u => chords_of dm (rowV pts sv u)) (seq 0 su)) -> S (length x) = sv).
    { intros x Hx. apply in_map_iff in Hx. destruct Hx as (u & <- & _). rewrite chords_of_length. unfold rowV.
      rewrite map_length, seq_length. lia. }
    destruct (cpc_all_lengths _ sv _ Hc Epv) as [L1 L2].
    rewrite map_length, seq_length in L1. auto. }
  destruct Hpv as [Lpv Hpv]. rewrite (avg_pass pv sv su Lpv Hpv). reflexivity.
Qed.

(* ---- interpolate_surface ---- *)
Lemma res_all_length {A} (l : list (res A)) rs : res_all l = Ok rs -> length rs = length l.
Proof.
  revert rs; induction l as [|r l IH]; intros rs H; simpl in H.
  - now injection H as <-.
  - destruct r as [a| |]; simpl in H; try discriminate. destruct (res_all l) as [rs'| |]; simpl in H; try discriminate.
    injection H as <-. simpl. f_equal. now apply IH.
Qed.

(* the shape of a solution: as many rows as b, each as long as the first row of b *)
Lemma lu_solve_shape (A b x : list (list T)) :
  LinAlg.lu_solve K A b = Ok x -> length x = length b /\ forall r, In r x -> length r = length (hd [] b).
Proof.
  unfold LinAlg.lu_solve. destruct b as [|b0 br]; [discriminate|]. cbv beta iota. generalize (b0 :: br). clear b0 br. intros b.
  destruct (LinAlg.lu_decomposition K A) as [[L U]| |]; cbn [res_bind]; try discriminate.
  unfold solve_columns. destruct (forallb _ b); [|discriminate]. cbn [fst snd].
  destruct (res_all _) as [cols| |] eqn:Ec; cbn [res_map]; try discriminate.
  intros H. injection H as <-. apply res_all_length in Ec. rewrite map_length, seq_length in Ec.
  split; [now rewrite map_length, seq_length|].
  intros r Hr. apply in_map_iff in Hr. destruct Hr as (j & <- & _). now rewrite map_length.
Qed.

(* one pass of A9.4: m curve interpolations with the SAME collocation matrix, the control points concatenated.
   rows i: the i-th data row, n points of d coordinates. *)
Lemma interp_pass (p n d : nat) (kv uk : list T) (rows : nat -> list (list T)) (m : nat) (f : Z -> list (list T) -> gres (list (list T))) :
  p < n -> n <= length uk -> n + p <= length kv ->
  (forall L U, LinAlg.lu_decomposition K (Fit.build_coeff_matrix K p kv uk n) = Ok (L, U) ->
     forall i, i < n -> i < length (nth i L []) /\ oeqb K (get2 K L i i) 0 = false
                       /\ n <= length (nth i U []) /\ oeqb K (get2 K U i i) 0 = false) ->
  (forall i acc, i < m -> length (rows i) = n /\ (forall r, In r (rows i) -> length r = d) /\
     f (Z.of_nat i) acc = do A <- FittingB._build_coeff_matrix K (Z.of_nat p) kv uk (rows i) ;;
                          do x <- Linalg.lu_solve K A (rows i) ;; GOk (acc ++ x)) ->
  exists xs, res_all (map (fun i => interp_1d K p kv uk (rows i)) (seq 0 m)) = Ok xs /\
    gfor (zrange 0 (Z.of_nat m) 1) f [] = GOk (concat xs) /\ length xs = m /\
    forall x, In x xs -> length x = n /\ forall r, In r x -> length r = d.
Proof.
  intros Hp Huk Hkv Hsolv Hf.
  assert (Hone : forall i, i < m -> exists x, interp_1d K p kv uk (rows i) = Ok x /\
            (forall acc, f (Z.of_nat i) acc = GOk (acc ++ x)) /\ length x = n /\ forall r, In r x -> length r = d).
  { intros i Hi. destruct (Hf i [] Hi) as (Ln & Hd & _).
    assert (Hne : rows i <> []) by (intros E; rewrite E in Ln; simpl in Ln; lia).
    assert (HA : FittingB._build_coeff_matrix K (Z.of_nat p) kv uk (rows i) = GOk (Fit.build_coeff_matrix K p kv uk n)).
    { rewrite <- Ln. apply build_coeff_matrix_tie; lia. }
    set (A := Fit.build_coeff_matrix K p kv uk n) in *.
    assert (Hs : is_square A = true) by (apply bcm_square; exact Hp).
    assert (HLU : LinAlg.lu_decomposition K A = Ok (fst (LinAlg.doolittle K A), snd (LinAlg.doolittle K A))).
    { unfold LinAlg.lu_decomposition. rewrite Hs. now rewrite <- surjective_pairing. }
    assert (Hrows : forall r, In r (rows i) -> length (hd [] (rows i)) <= length r).
    { intros r Hr. rewrite (Hd r Hr). rewrite (Hd (hd [] (rows i))); [lia|]. destruct (rows i); [congruence|simpl; auto]. }
    destruct (lu_solve_tie K LW A (rows i) _ _ Hne Hrows HLU) as (Etie & x & Ex).
    { rewrite Ln. apply (Hsolv _ _ HLU). }
    exists x. unfold interp_1d. rewrite Ln. fold A. split; [exact Ex|].
    destruct (lu_solve_shape _ _ _ Ex) as [S1 S2]. split; [|split; [lia|]].
    - intros acc. destruct (Hf i acc Hi) as (_ & _ & ->). rewrite HA. cbn [gbind]. rewrite Etie, Ex. reflexivity.
    - intros r Hr. rewrite (S2 r Hr). apply Hd. destruct (rows i); [congruence|simpl; auto]. }
  clear Hf.
  (* collect the solutions *)
  assert (Hall : exists xs, Forall2 (fun i x => interp_1d K p kv uk (rows i) = Ok x /\ (forall acc, f (Z.of_nat i) acc = GOk (acc ++ x))
                                        /\ length x = n /\ forall r, In r x -> length r = d) (seq 0 m) xs).
  { assert (G : forall l, (forall i, In i l -> i < m) -> exists xs, Forall2 (fun i x => interp_1d K p kv uk (rows i) = Ok x
               /\ (forall acc, f (Z.of_nat i) acc = GOk (acc ++ x)) /\ length x = n /\ forall r, In r x -> length r = d) l xs).
    { induction l as [|i l IH]; intros Hl; [exists []; constructor|].
      destruct (Hone i) as (x & Hx); [apply Hl; simpl; auto|].
      destruct IH as (xs & Hxs); [intros; apply Hl; simpl; auto|]. exists (x :: xs). constructor; auto. }
    apply G. intros i Hi. apply in_seq in Hi. lia. }
  destruct Hall as (xs & Hxs). exists xs.
  assert (E1 : res_all (map (fun i => interp_1d K p kv uk (rows i)) (seq 0 m)) = Ok xs).
  { clear - Hxs. induction Hxs as [|i x l xs (E & _) _ IH]; simpl; auto. rewrite E. cbn [res_bind]. rewrite IH. reflexivity. }
  split; [exact E1|]. split; [|split].
  - rewrite zrange_0_nat, (gfor_map Z.of_nat).
    assert (G : forall l xs acc, Forall2 (fun i x => interp_1d K p kv uk (rows i) = Ok x /\ (forall acc, f (Z.of_nat i) acc = GOk (acc ++ x))
                 /\ length x = n /\ forall r, In r x -> length r = d) l xs ->
               gfor l (fun x => f (Z.of_nat x)) acc = GOk (acc ++ concat xs)).
    { clear. induction l as [|i l IH]; intros xs acc H; inversion H; subst; simpl.
      - now rewrite app_nil_r.
      - destruct H2 as (_ & -> & _). cbn [gbind]. rewrite (IH _ _ H4). now rewrite app_assoc. }
    exact (G _ _ [] Hxs).
  - rewrite (Forall2_len _ _ _ Hxs). now rewrite seq_length.
  - intros x Hx. destruct (In_nth _ _ [] Hx) as (j & Hj & <-). rewrite (Forall2_len _ _ _ Hxs) in Hj.
    destruct (Forall2_nth _ _ _ 0%nat [] Hxs j Hj) as (_ & _ & H1 & H2). auto.
Qed.

(* The numerical part of interpolate_surface (centripetal = False).  dist = linalg.point_distance is uninterpreted (any total function).
   wf: degree < size in both directions, size_u * size_v <= len(points), the points read have d coordinates;
   solvability (as for lu_solve): the LU factors of the two collocation matrices have no zero on their diagonals.
   ZeroDivisionError of compute_params_curve (a row / column whose chords sum to 0) <-> Crash. *)
Theorem interpolate_surface_tie (pts : list (list T)) (su sv pu pv d : nat) (dist : list T -> list T -> gres T) (dm : list T -> list T -> T) :
  (forall a b, dist a b = GOk (dm a b)) -> pu < su -> pv < sv -> su * sv <= length pts ->
  (forall i, i < su * sv -> length (nth i pts []) = d) ->
  (forall uk vl, Fit.compute_params_surface K su sv (cdsU dm pts su sv) (cdsV dm pts su sv) = Ok (uk, vl) ->
     (forall L U, LinAlg.lu_decomposition K (Fit.build_coeff_matrix K pu (Fit.compute_knot_vector K pu su uk) uk su) = Ok (L, U) ->
        forall i, i < su -> i < length (nth i L []) /\ oeqb K (get2 K L i i) 0 = false
                           /\ su <= length (nth i U []) /\ oeqb K (get2 K U i i) 0 = false) /\
     (forall L U, LinAlg.lu_decomposition K (Fit.build_coeff_matrix K pv (Fit.compute_knot_vector K pv sv vl) vl sv) = Ok (L, U) ->
        forall i, i < sv -> i < length (nth i L []) /\ oeqb K (get2 K L i i) 0 = false
                           /\ sv <= length (nth i U []) /\ oeqb K (get2 K U i i) 0 = false)) ->
  FittingB.interpolate_surface__centripetal_false K pts (Z.of_nat su) (Z.of_nat sv) (Z.of_nat pu) (Z.of_nat pv) dist =
  res_to_gres (fun r => mk_surfdata (Z.of_nat pu) (Z.of_nat pv) (Z.of_nat su) (Z.of_nat sv) (fst (fst r)) (snd (fst r)) (snd r))
    ValueError ZeroDivisionError (Fit.interpolate_surface K pts su sv pu pv (cdsU dm pts su sv) (cdsV dm pts su sv)).
Proof.
  intros Hdist Hpu Hpv Hlen Hdim Hsolv.
  unfold FittingB.interpolate_surface__centripetal_false, Fit.interpolate_surface.
  rewrite (compute_params_surface_tie pts su sv dist dm Hdist) by lia.
  destruct (Fit.compute_params_surface K su sv _ _) as [[uk vl]| |] eqn:Eps; cbn [res_to_gres gbind res_bind]; try reflexivity.
  destruct (Hsolv uk vl eq_refl) as [HsolvU HsolvV]. clear Hsolv.
  (* lengths of the parameter lists *)
  assert (Luv : length uk = su /\ length vl = sv).
  { unfold Fit.compute_params_surface in Eps.
    destruct (res_all (map _ (cdsU dm pts su sv))) as [a| |]; cbn [res_bind] in Eps; try discriminate.
    destruct (res_all (map _ (cdsV dm pts su sv))) as [b| |]; cbn [res_bind] in Eps; try discriminate.
    injection Eps as <- <-. unfold avg_params. now rewrite !map_length, !seq_length. }
  destruct Luv as [Luk Lvl]. cbn [fst snd].
  rewrite (compute_knot_vector_tie K LW pu su uk) by lia. cbn [gbind].
  rewrite (compute_knot_vector_tie K LW pv sv vl) by lia. cbn [gbind].
  set (kvu := Fit.compute_knot_vector K pu su uk) in *. set (kvv := Fit.compute_knot_vector K pv sv vl) in *.
  unfold interp_surface_core.
  (* first pass: the data rows along u *)
  match goal with |- context [gfor (zrange 0 (Z.of_nat sv) 1) ?ff []] =>
    destruct (interp_pass pu su d kvu uk (rowU pts su sv) sv ff) as (Rs & ERs & EgR & LRs & HRs) end; try lia.
  { unfold kvu. rewrite ckv_length; lia. }
  { exact HsolvU. }
  { intros v acc Hv. split; [unfold rowU; now rewrite map_length, seq_length|]. split.
    - intros r Hr. unfold rowU in Hr. apply in_map_iff in Hr. destruct Hr as (u & <- & Hu). apply in_seq in Hu. apply Hdim. nia.
    - rewrite (gmapM_fetch pts [] (fun u => (Z.of_nat v + Z.of_nat sv * u)%Z) (fun u => v + sv * u) su) by (intros u Hu; split; [lia|nia]).
      reflexivity. }
  fold (rowU pts su sv). unfold rowU in ERs. unfold rowU. rewrite ERs. cbn [res_bind]. fold (rowU pts su sv) in *.
  rewrite EgR. cbn [gbind].
  (* second pass: the columns of the intermediate net *)
  assert (HRlen : forall x, In x Rs -> length x = su) by (intros x Hx; apply (HRs x Hx)).
  set (R := concat Rs) in *.
  assert (LR : length R = su * sv) by (unfold R; rewrite (concat_length_uniform su) by auto; lia).
  assert (HRd : forall i, i < su * sv -> length (nth i R []) = d).
  { intros i Hi. assert (Hin : In (nth i R []) R) by (apply nth_In; lia).
    unfold R in Hin. apply in_concat in Hin. destruct Hin as (x & Hx & Hr). exact (proj2 (HRs x Hx) _ Hr). }
  match goal with |- context [gfor (zrange 0 (Z.of_nat su) 1) ?ff []] =>
    destruct (interp_pass pv sv d kvv vl (fun u => map (fun v => nth (u + su * v) R []) (seq 0 sv)) su ff) as (Cs & ECs & EgC & _ & _) end; try lia.
  { unfold kvv. rewrite ckv_length; lia. }
  { exact HsolvV. }
  { intros u acc Hu. split; [now rewrite map_length, seq_length|]. split.
    - intros r Hr. apply in_map_iff in Hr. destruct Hr as (v & <- & Hv). apply in_seq in Hv. apply HRd. nia.
    - rewrite (gmapM_fetch R [] (fun v => (Z.of_nat u + Z.of_nat su * v)%Z) (fun v => u + su * v) sv) by (intros v Hv; split; [lia|nia]).
      reflexivity. }
  rewrite ECs. cbn [res_bind res_map res_to_gres fst snd]. rewrite EgC. reflexivity.
Qed.
End TieSums.

Require Import Reals Qabs.
Definition compute_params_surface_tie_R := @compute_params_surface_tie _ Rops Rops_sum_laws.
Definition compute_params_surface_tie_Q := @compute_params_surface_tie _ Qops Qops_sum_laws.
Definition interpolate_surface_tie_R := @interpolate_surface_tie _ Rops Rops_sum_laws.
Definition interpolate_surface_tie_Q := @interpolate_surface_tie _ Qops Qops_sum_laws.

(* ---- examples: a 3 x 3 grid of data points (v fastest), degrees (2, 1), dm = |dx| + |dy|; the values geomdl returns when
   linalg.point_distance is replaced by that function ---- *)
Local Open Scope Q_scope.
Definition exDm1 (a b : list Q) : Q := Qabs (nth 0 a 0 - nth 0 b 0) + Qabs (nth 1 a 0 - nth 1 b 0).
Definition exGrid : list (list Q) := [[0; 0; 0]; [0; 1; 1]; [0; 3; 0]; [1; 0; 2]; [1; 1; 1]; [1; 3; 3]; [3; 0; 0]; [3; 1; 2]; [3; 3; 1]].
Example compute_params_surface_ex :
  FittingB.compute_params_surface__centripetal_false Qops exGrid 3 3 (fun a b => GOk (exDm1 a b)) = GOk ([0; 1 # 3; 1], [0; 1 # 3; 1])
  /\ Fit.compute_params_surface Qops 3 3 (cdsU exDm1 exGrid 3 3) (cdsV exDm1 exGrid 3 3) = Ok ([0; 1 # 3; 1], [0; 1 # 3; 1]).
Proof. split; vm_compute; reflexivity. Qed.
Example interpolate_surface_ex :
  FittingB.interpolate_surface__centripetal_false Qops exGrid 3 3 2 1 (fun a b => GOk (exDm1 a b)) =
    GOk (mk_surfdata 2 1 3 3
           [[0; 0; 0]; [0; 1; 1]; [0; 3; 0]; [3 # 2; 0; 9 # 2]; [3 # 2; 1; 3 # 4]; [3 # 2; 3; 13 # 2]; [3; 0; 0]; [3; 1; 2]; [3; 3; 1]]
           [0; 0; 0; 1; 1; 1] [0; 0; 1 # 3; 1; 1])
  /\ Fit.interpolate_surface Qops exGrid 3 3 2 1 (cdsU exDm1 exGrid 3 3) (cdsV exDm1 exGrid 3 3) =
    Ok ([[0; 0; 0]; [0; 1; 1]; [0; 3; 0]; [3 # 2; 0; 9 # 2]; [3 # 2; 1; 3 # 4]; [3 # 2; 3; 13 # 2]; [3; 0; 0]; [3; 1; 2]; [3; 3; 1]],
        [0; 0; 0; 1; 1; 1], [0; 0; 1 # 3; 1; 1]).
Proof. split; vm_compute; reflexivity. Qed.
