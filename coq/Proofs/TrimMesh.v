(* C15, trimmed tessellation at the level of the WHOLE mesh: Model/Tess.v make_trim_mesh = _tessellate.make_triangle_mesh
   with tessellate_func = surface_trim_tessellate (generic cell loop Model/TessCore.v mesh_loop, then fix_numbering).
   Part A  (any callback)   the loop is the concatenation of its per-cell calls (mesh_trace / chain);
   Part B  (any scalar)     one call of surface_trim_tessellate: store growth, ids of the created vertices;
   Part C  (any scalar)     loop invariants, fix_numbering, the anatomy of the result (trim_mesh_anatomy), structure
                            theorems (references in range, ids = positions 0..V-1, no unused vertex), decomposition,
                            order of the returned vertices (grid vertices row-major first, then created ones);
   Part D  (reals)          every kept triangle lies in the (tolerance-enlarged) cell that produced it and its centre is an
                            untrimmed point of that cell; an untouched cell contributes nothing or exactly its two plain
                            triangles on its four grid vertices;
   Part E                   triangle ids are NOT consecutive in general (witness), they are when every call keeps a prefix;
                            examples.
   New file; nothing existing is modified. *)
From Coq Require Import List Arith Bool Lia Reals Lra ZArith Sorted.
From NV Require Import Scalar.Ops Model.Common Model.Geom2D Model.Tess Proofs.Geom2DR Proofs.TessR Proofs.TrimR
  Proofs.WindingRect Proofs.TrimCells.
Import ListNotations.
Local Open Scope nat_scope.

(* ================================================================== list helpers *)
Lemma nth_upd_cases {A} (x d : A) : forall l i p,
  nth p (upd l i x) d = nth p l d \/ (p = i /\ nth p (upd l i x) d = x).
Proof.
  induction l as [|y l IH]; intros [|i] [|p]; simpl; auto.
  destruct (IH i p) as [H|[H1 H2]]; [left; exact H|right; split; [f_equal; exact H1|exact H2]].
Qed.

Lemma index_of_In x : forall l, In x l -> exists n, index_of x l = Some n /\ n < length l /\ nth n l 0 = x.
Proof.
  induction l as [|y l IH]; intros H; [destruct H|]. simpl.
  destruct (Nat.eqb x y) eqn:E.
  - apply Nat.eqb_eq in E. subst. exists 0. repeat split. lia.
  - apply Nat.eqb_neq in E. destruct H as [H|H]; [congruence|].
    destruct (IH H) as [n [E1 [E2 E3]]]. rewrite E1. exists (S n). repeat split; [lia|exact E3].
Qed.
Lemma index_of_nth : forall l, NoDup l -> forall n, n < length l -> index_of (nth n l 0) l = Some n.
Proof.
  induction l as [|y l IH]; intros Hnd n Hn; [simpl in Hn; lia|].
  inversion Hnd as [|? ? Hy Hnd']; subst. destruct n as [|n]; simpl.
  - rewrite Nat.eqb_refl. reflexivity.
  - simpl in Hn. destruct (Nat.eqb (nth n l 0) y) eqn:E.
    + apply Nat.eqb_eq in E. exfalso. apply Hy. rewrite <- E. apply nth_In. lia.
    + rewrite IH by (auto; lia). reflexivity.
Qed.

(* ------------------------------------------------------------------ fix_numbering, for any id attribute *)
Section Fix.
Variables (vid_of : nat -> nat) (ids : list nat).
Definition fix_step (acc : list nat * list nat) (o : nat) : list nat * list nat :=
  let d := vid_of o in
  if andb (memb d ids) (negb (memb d (snd acc))) then (o :: fst acc, d :: snd acc) else acc.
Definition fixP (done : list nat) (acc : list nat * list nat) : Prop :=
  snd acc = map vid_of (fst acc) /\ NoDup (snd acc) /\
  (forall o, In o (fst acc) -> In o done /\ In (vid_of o) ids) /\
  (forall o, In o done -> In (vid_of o) ids -> In (vid_of o) (snd acc)).
Lemma fix_fold_inv : forall l done acc, fixP done acc -> fixP (done ++ l) (fold_left fix_step l acc).
Proof.
  induction l as [|o l IH]; intros done acc H; [rewrite app_nil_r; exact H|].
  cbn [fold_left]. replace (done ++ o :: l) with ((done ++ [o]) ++ l) by (rewrite <- app_assoc; reflexivity).
  apply IH. destruct acc as [fin seen]. destruct H as [H1 [H2 [H3 H4]]]. cbn [fst snd] in *.
  unfold fix_step. cbn [fst snd].
  destruct (memb (vid_of o) ids) eqn:E1; destruct (memb (vid_of o) seen) eqn:E2; cbn [andb negb fst snd];
    unfold fixP; cbn [fst snd].
  - apply memb_true in E2. split; [exact H1|]. split; [exact H2|]. split.
    + intros x Hx. destruct (H3 x Hx). split; [apply in_or_app; left|]; assumption.
    + intros x Hx Hi. apply in_app_or in Hx. destruct Hx as [Hx|[<-|[]]]; [apply H4; assumption|exact E2].
  - apply memb_true in E1. apply memb_false in E2. split; [cbn; f_equal; exact H1|]. split; [constructor; assumption|]. split.
    + intros x [<-|Hx]; [split; [apply in_or_app; right; left; reflexivity|exact E1]|].
      destruct (H3 x Hx). split; [apply in_or_app; left|]; assumption.
    + intros x Hx Hi. apply in_app_or in Hx. destruct Hx as [Hx|[<-|[]]]; [right; apply H4; assumption|left; reflexivity].
  - apply memb_false in E1. split; [exact H1|]. split; [exact H2|]. split.
    + intros x Hx. destruct (H3 x Hx). split; [apply in_or_app; left|]; assumption.
    + intros x Hx Hi. apply in_app_or in Hx. destruct Hx as [Hx|[<-|[]]]; [apply H4; assumption|contradiction].
  - apply memb_false in E1. split; [exact H1|]. split; [exact H2|]. split.
    + intros x Hx. destruct (H3 x Hx). split; [apply in_or_app; left|]; assumption.
    + intros x Hx Hi. apply in_app_or in Hx. destruct Hx as [Hx|[<-|[]]]; [apply H4; assumption|contradiction].
Qed.
End Fix.

(* [G] what fix_numbering returns: objects of the vertex list whose id occurs in a triangle, one object per id *)
Lemma fix_numbering_spec vid_of vl tris :
  let ids := flat_map (fun t => map vid_of (tri_ids t)) tris in
  let final := fix_numbering vid_of vl tris in
  NoDup (map vid_of final) /\
  (forall o, In o final -> In o vl /\ In (vid_of o) ids) /\
  (forall o, In o vl -> In (vid_of o) ids -> exists o', In o' final /\ vid_of o' = vid_of o).
Proof.
  cbv zeta. unfold fix_numbering.
  set (ids := flat_map (fun t => map vid_of (tri_ids t)) tris).
  change (fold_left _ vl ([], [])) with (fold_left (fix_step vid_of ids) vl ([], [])).
  assert (H0 : fixP vid_of ids [] ([], [])).
  { unfold fixP. cbn. repeat split; try constructor; intros; contradiction. }
  pose proof (fix_fold_inv vid_of ids vl [] ([], []) H0) as H. cbn [app] in H.
  destruct (fold_left (fix_step vid_of ids) vl ([], [])) as [fin seen]. destruct H as [H1 [H2 [H3 H4]]]. cbn [fst snd] in *.
  split; [rewrite map_rev, <- H1; apply NoDup_rev; exact H2|]. split.
  - intros o Ho. apply in_rev in Ho. apply H3. exact Ho.
  - intros o Ho Hi. specialize (H4 o Ho Hi). rewrite H1 in H4. apply in_map_iff in H4. destruct H4 as [o' [E Hin]].
    exists o'. split; [apply in_rev in Hin; exact Hin|exact E].
Qed.

(* ================================================================== Part A: the generic cell loop, call by call *)
Section Trace.
Context {St : Type} (tsl : St -> list nat -> nat -> nat -> St * list nat * list (nat * tri)).

(* one call of the tessellation callback: the cell, the store it sees, the vertex / triangle numbering start values *)
Definition call : Type := ((nat * nat) * St * nat * nat)%type.
Definition call_cell (c : call) : nat * nat := fst (fst (fst c)).
Definition call_store (c : call) : St := snd (fst (fst c)).
Definition call_vi (c : call) : nat := snd (fst c).
Definition call_ti (c : call) : nat := snd c.
Definition call_res (b : nat) (c : call) : St * list nat * list (nat * tri) :=
  tsl (call_store c) (cell_corners b (fst (call_cell c)) (snd (call_cell c))) (call_vi c) (call_ti c).
Definition call_out_store (b : nat) (c : call) : St := fst (fst (call_res b c)).
Definition call_vs (b : nat) (c : call) : list nat := snd (fst (call_res b c)).
Definition call_ts (b : nat) (c : call) : list (nat * tri) := snd (call_res b c).

(* the calls the loop makes, in the loop's order *)
Fixpoint mesh_trace (b : nat) (cs : list (nat * nat)) (st : @mesh_state St) : list call :=
  match cs with
  | [] => []
  | cl :: r => (cl, fst (fst (fst (fst st))), snd (fst st), snd st) :: mesh_trace b r (mesh_step tsl b st cl)
  end.

(* a run: every call starts from the store and the counters the previous call left *)
Inductive chain (b : nat) : St -> nat -> nat -> list call -> St -> Prop :=
| chain_nil s vi ti : chain b s vi ti [] s
| chain_cons cl s vi ti tr s' :
    chain b (call_out_store b (cl, s, vi, ti)) (vi + length (call_vs b (cl, s, vi, ti)))
          (ti + length (call_ts b (cl, s, vi, ti))) tr s' ->
    chain b s vi ti ((cl, s, vi, ti) :: tr) s'.

Lemma mesh_step_call b s vl ts vi ti cl :
  mesh_step tsl b (s, vl, ts, vi, ti) cl =
  (call_out_store b (cl, s, vi, ti), vl ++ call_vs b (cl, s, vi, ti), ts ++ call_ts b (cl, s, vi, ti),
   vi + length (call_vs b (cl, s, vi, ti)), ti + length (call_ts b (cl, s, vi, ti))).
Proof.
  unfold mesh_step, call_out_store, call_vs, call_ts, call_res, call_store, call_cell, call_vi, call_ti. cbn [fst snd].
  destruct (tsl s (cell_corners b (fst cl) (snd cl)) vi ti) as [[s' vlst] tlst]. reflexivity.
Qed.

(* [G] the loop = concatenation of its calls: vertex list, triangle list and both counters *)
Theorem mesh_fold_trace b : forall cs s vl ts vi ti,
  let tr := mesh_trace b cs (s, vl, ts, vi, ti) in
  exists s', chain b s vi ti tr s' /\ map call_cell tr = cs /\
    fold_left (mesh_step tsl b) cs (s, vl, ts, vi, ti) =
    (s', vl ++ flat_map (call_vs b) tr, ts ++ flat_map (call_ts b) tr,
     vi + length (flat_map (call_vs b) tr), ti + length (flat_map (call_ts b) tr)).
Proof.
  induction cs as [|cl cs IH]; intros s vl ts vi ti; cbv zeta.
  - exists s. cbn. rewrite !app_nil_r, !Nat.add_0_r. repeat split. constructor.
  - cbn [mesh_trace fold_left fst snd]. rewrite mesh_step_call.
    destruct (IH (call_out_store b (cl, s, vi, ti)) (vl ++ call_vs b (cl, s, vi, ti)) (ts ++ call_ts b (cl, s, vi, ti))
                 (vi + length (call_vs b (cl, s, vi, ti))) (ti + length (call_ts b (cl, s, vi, ti)))) as [s' [Hc [Hm He]]].
    cbv zeta in *. exists s'. split; [constructor; exact Hc|]. split; [cbn [map]; f_equal; exact Hm|].
    rewrite He. cbn [flat_map]. rewrite !app_length, <- !app_assoc, !Nat.add_assoc. reflexivity.
Qed.

Lemma chain_app b : forall tr1 s vi ti tr2 s', chain b s vi ti (tr1 ++ tr2) s' ->
  exists sm, chain b s vi ti tr1 sm /\
    chain b sm (vi + length (flat_map (call_vs b) tr1)) (ti + length (flat_map (call_ts b) tr1)) tr2 s'.
Proof.
  induction tr1 as [|c tr1 IH]; intros s vi ti tr2 s' H.
  - exists s. split; [constructor|]. cbn. rewrite !Nat.add_0_r. exact H.
  - cbn [app] in H. inversion H as [|cl s0 vi0 ti0 tr0 s0' Hc]; subst.
    destruct (IH _ _ _ _ _ Hc) as [sm [H1 H2]]. exists sm. split; [constructor; exact H1|].
    cbn [flat_map]. rewrite !app_length, !Nat.add_assoc. exact H2.
Qed.
Lemma chain_head b c tr s vi ti s' : chain b s vi ti (c :: tr) s' ->
  call_store c = s /\ call_vi c = vi /\ call_ti c = ti.
Proof. intros H. inversion H; subst. repeat split. Qed.

(* where the n-th call starts: the triangle counter is the number of triangles emitted so far *)
Lemma chain_nth b tr1 c tr2 s vi ti s' : chain b s vi ti (tr1 ++ c :: tr2) s' ->
  call_vi c = vi + length (flat_map (call_vs b) tr1) /\ call_ti c = ti + length (flat_map (call_ts b) tr1).
Proof. intros H. apply chain_app in H. destruct H as [sm [_ H]]. apply chain_head in H. tauto. Qed.

(* [G] triangle ids are consecutive when every call numbers its own output consecutively from its start value *)
Lemma chain_ids b s vi ti tr s' : chain b s vi ti tr s' ->
  Forall (fun c => map fst (call_ts b c) = seq (call_ti c) (length (call_ts b c))) tr ->
  map fst (flat_map (call_ts b) tr) = seq ti (length (flat_map (call_ts b) tr)).
Proof.
  induction 1 as [|cl s vi ti tr s' Hc IH]; intros HF; [reflexivity|].
  inversion HF as [|? ? H1 H2]; subst. cbn [flat_map]. rewrite map_app, app_length, seq_app, IH by exact H2.
  f_equal. exact H1.
Qed.
End Trace.

(* ================================================================== Part B: one call of surface_trim_tessellate *)
Section TrimG.
Context {T : Type} (K : ops T).
Variables (rtol tol tols : T) (trims : list (@trimc T)).
Notation tsl := (surface_trim_tessellate K rtol tol tols trims).
Notation store := (list (@vobj T)).

(* what can happen to a vertex object during the loop: it is re-classified, nothing else *)
Inductive evolves : @vobj T -> @vobj T -> Prop :=
| ev_refl o : evolves o o
| ev_step o o' idx : evolves o o' -> evolves o (classify_vertex K tols trims idx o').
Lemma evolves_trans o1 o2 o3 : evolves o1 o2 -> evolves o2 o3 -> evolves o1 o3.
Proof. intros H1 H2. induction H2; [exact H1|]. constructor. apply IHevolves. exact H1. Qed.
Lemma evolves_attrs o o' : evolves o o' -> vid o' = vid o /\ vu o' = vu o /\ vv o' = vv o /\ vdata o' = vdata o.
Proof.
  induction 1 as [|o o' idx H IH]; [auto|].
  destruct (classify_spec K tols trims idx o') as [_ [E1 [E2 [E3 E4]]]].
  destruct IH as [I1 [I2 [I3 I4]]]. rewrite E1, E2, E3, E4. auto.
Qed.

(* the flags of an object: the classification automaton run some number of times at corner test points of its position *)
Definition ctest (idx : nat) (u v : T) : @trimc T -> bool :=
  corner_test K tols idx (mkV 0 None u v false false false).
Lemma corner_test_ctest idx o : corner_test K tols idx o = ctest idx (vu o) (vv o).
Proof. reflexivity. Qed.
Inductive fhist (u v : T) : bool * bool * bool -> Prop :=
| fh0 : fhist u v (false, false, false)
| fhS f idx : fhist u v f -> fhist u v (flag_update f trims (ctest idx u v)).
Lemma evolves_fhist o o' : evolves o o' -> fhist (vu o) (vv o) (vflags o) -> fhist (vu o) (vv o) (vflags o').
Proof.
  induction 1 as [|o o' idx H IH]; intros H0; [exact H0|].
  destruct (classify_spec K tols trims idx o') as [E _]. rewrite E, corner_test_ctest.
  destruct (evolves_attrs _ _ H) as [_ [-> [-> _]]]. constructor. apply IH. exact H0.
Qed.

Definition store_le (s s' : store) : Prop :=
  length s <= length s' /\ forall o, o < length s -> evolves (vget K s o) (vget K s' o).
Lemma store_le_refl s : store_le s s.
Proof. split; [lia|]. intros. constructor. Qed.
Lemma store_le_trans s1 s2 s3 : store_le s1 s2 -> store_le s2 s3 -> store_le s1 s3.
Proof.
  intros [L1 H1] [L2 H2]. split; [lia|]. intros o Ho. eapply evolves_trans; [apply H1; exact Ho|apply H2; lia].
Qed.

(* corner classification: same length, every object evolves *)
Lemma cls_steps_evolve : forall (l : list (nat * nat)) (s : store),
  let s1 := fold_left (fun st p => upd st (snd p) (classify_vertex K tols trims (fst p) (vget K st (snd p)))) l s in
  length s1 = length s /\ forall o, evolves (vget K s o) (vget K s1 o).
Proof.
  induction l as [|p l IH]; intros s; cbv zeta; [split; [reflexivity|intros; constructor]|].
  cbn [fold_left]. destruct (IH (upd s (snd p) (classify_vertex K tols trims (fst p) (vget K s (snd p))))) as [L H].
  cbv zeta in *. split; [rewrite L; apply upd_length|].
  intros o. eapply evolves_trans; [|apply H]. unfold vget at 2.
  destruct (nth_upd_cases (classify_vertex K tols trims (fst p) (vget K s (snd p))) (vdummy K) s (snd p) o) as [E|[E1 E2]].
  - rewrite E. constructor.
  - rewrite E2. subst o. constructor. constructor.
Qed.
Lemma cls_fold_evolve corners (s : store) :
  length (cls_fold K tols trims corners s) = length s /\
  forall o, evolves (vget K s o) (vget K (cls_fold K tols trims corners s) o).
Proof. apply cls_steps_evolve. Qed.

(* [G] one call: the store grows by the created vertices, whose ids are vidx, vidx+1, ...; they are fewer than the
   returned vertex list is long; the returned vertices are corners or created vertices; the triangles use returned
   vertices only and passed the centre test *)
Theorem trim_call_spec (s : store) c1 c2 c3 c4 vidx tidx s2 tvs keep :
  tsl s [c1; c2; c3; c4] vidx tidx = (s2, tvs, keep) ->
  let s1 := cls_fold K tols trims [c1; c2; c3; c4] s in
  exists ext, s2 = s1 ++ ext /\ length ext <= length tvs /\ map vid ext = seq vidx (length ext) /\
    Forall (fun o => vdata o = None) ext /\
    Forall (fun o => In o [c1; c2; c3; c4] \/ length s1 <= o < length s2) tvs /\
    (forall i x y z, In (i, (x, y, z)) keep -> In x tvs /\ In y tvs /\ In z tvs) /\
    (forall t, In t keep -> tri_kept K trims s2 t = true).
Proof.
  cbv zeta. unfold surface_trim_tessellate. fold (cls_fold K tols trims [c1; c2; c3; c4] s).
  set (s1 := cls_fold K tols trims [c1; c2; c3; c4] s) in *. clearbody s1.
  destruct (forallb vinside (map (vget K s1) [c1; c2; c3; c4])).
  { intros E. injection E as <- <- <-. exists []. rewrite app_nil_r. cbn.
    repeat split; try constructor; intros; contradiction. }
  cbn [app hd tl combine map fst snd].
  set (isects := cell_intersections K rtol tol _ trims). clearbody isects.
  match goal with |- context [fold_left ?f (seq 0 4) ?i] => set (F := f) end.
  set (okst := fun (st : store) o => In o [c1; c2; c3; c4] \/ length s1 <= o < length st).
  set (Inv := fun acc : store * list nat * nat =>
     exists ext, fst (fst acc) = s1 ++ ext /\ length ext = snd acc /\ snd acc <= length (snd (fst acc)) /\
       map vid ext = seq vidx (snd acc) /\ Forall (fun o => vdata o = None) ext /\
       Forall (okst (fst (fst acc))) (snd (fst acc))).
  assert (HF : forall acc idx, idx < 4 -> Inv acc -> Inv (F acc idx)).
  { intros [[st tv] nvi] idx Hidx [ext [Hext [Hlen [Hle [Hid [Hda Htv]]]]]]. cbn [fst snd] in *. subst F. cbv beta iota zeta.
    set (a := nth idx [c1; c2; c3; c4; c1] 0).
    assert (Ha : In a [c1; c2; c3; c4]).
    { subst a. destruct idx as [|[|[|[|?]]]]; cbn; auto; lia. }
    destruct (vinside (vget K st a) && vinside (vget K st (nth (S idx) [c1; c2; c3; c4; c1] 0))).
    { exists ext. cbn [fst snd]. auto 10. }
    set (tv1 := if vinside (vget K st a) then tv else tv ++ [a]).
    assert (Htv1 : Forall (okst st) tv1 /\ length tv <= length tv1).
    { subst tv1. destruct (vinside (vget K st a)); [split; [exact Htv|lia]|]. split; [|rewrite app_length; cbn; lia].
      apply Forall_app. split; [exact Htv|]. constructor; [left; exact Ha|constructor]. }
    destruct Htv1 as [Htv1 Hl1].
    destruct (xorb _ _ && has_isect idx isects).
    - match goal with |- Inv (st ++ [?nv], _, _) => exists (ext ++ [nv]) end. cbn [fst snd].
      split; [rewrite Hext, <- app_assoc; reflexivity|]. split; [rewrite app_length; cbn; lia|].
      split; [rewrite app_length; cbn; lia|]. split; [rewrite map_app, seq_S, Hid; reflexivity|].
      split; [apply Forall_app; split; [exact Hda|constructor; [reflexivity|constructor]]|].
      apply Forall_app. split.
      + eapply Forall_impl; [|exact Htv1]. intros o [Ho|Ho]; [left; exact Ho|right; rewrite app_length; cbn; lia].
      + constructor; [|constructor]. right. rewrite app_length, Hext, app_length. cbn. lia.
    - exists ext. cbn [fst snd]. split; [exact Hext|]. split; [exact Hlen|]. split; [lia|]. auto. }
  assert (Hfold : forall l acc, (forall i, In i l -> i < 4) -> Inv acc -> Inv (fold_left F l acc)).
  { induction l as [|i l IH]; intros acc Hl Ha; [exact Ha|]. cbn [fold_left]. apply IH.
    - intros j Hj. apply Hl. right. exact Hj.
    - apply HF; [apply Hl; left; reflexivity|exact Ha]. }
  assert (Hfin : Inv (fold_left F (seq 0 4) (s1, [], 0))).
  { apply Hfold; [intros i Hi; apply in_seq in Hi; lia|]. exists []. cbn. rewrite app_nil_r. repeat split; constructor. }
  clearbody F. destruct (fold_left F (seq 0 4) (s1, [], 0)) as [[s2' tvs'] n'].
  destruct Hfin as [ext [Hext [Hlen [Hle [Hid [Hda Htv]]]]]]. cbn [fst snd] in *.
  intros E. injection E as <- <- <-. exists ext. subst n'.
  split; [exact Hext|]. split; [exact Hle|]. split; [exact Hid|]. split; [exact Hda|]. split; [exact Htv|]. split.
  - intros i x y z Hin. apply filter_In in Hin. destruct Hin as [Hin _].
    apply number_from_in, polygon_triangulate_in in Hin. exact Hin.
  - intros t Hin. apply filter_In in Hin. apply Hin.
Qed.
End TrimG.

(* ================================================================== Part C: the loop of make_trim_mesh *)
Lemma map_seq_nth {A} (f : A -> nat) (l : list A) start d k :
  map f l = seq start (length l) -> k < length l -> f (nth k l d) = start + k.
Proof. intros H Hk. rewrite <- (map_nth f), H. apply seq_nth. exact Hk. Qed.

Section LoopG.
Context {T : Type} (K : ops T).
Variables (rtol tol tols : T) (trims : list (@trimc T)).
Notation tsl := (surface_trim_tessellate K rtol tol tols trims).
Notation store := (list (@vobj T)).
Notation evolves := (evolves K tols trims).
Notation store_le := (store_le K tols trims).

(* store invariant: the n0 grid objects keep id = position; the created objects have increasing ids in n0 .. vi-1 and no
   point attached *)
Definition SInv (n0 : nat) (s : store) (vi : nat) : Prop :=
  n0 <= length s /\ n0 <= vi /\ (forall o, o < n0 -> vid (vget K s o) = o) /\
  (forall o, n0 <= o < length s -> n0 <= vid (vget K s o) < vi) /\
  (forall o o', n0 <= o -> o < o' -> o' < length s -> vid (vget K s o) < vid (vget K s o')) /\
  (forall o, n0 <= o < length s -> vdata (vget K s o) = None).

Lemma SInv_inj n0 s vi : SInv n0 s vi -> forall o o', o < length s -> o' < length s ->
  vid (vget K s o) = vid (vget K s o') -> o = o'.
Proof.
  intros [H1 [H2 [H3 [H4 [H5 _]]]]] o o' Ho Ho' E.
  destruct (lt_dec o n0) as [A|A]; destruct (lt_dec o' n0) as [B|B].
  - rewrite (H3 o A), (H3 o' B) in E. exact E.
  - rewrite (H3 o A) in E. pose proof (H4 o' ltac:(lia)). lia.
  - rewrite (H3 o' B) in E. pose proof (H4 o ltac:(lia)). lia.
  - destruct (lt_eq_lt_dec o o') as [[C|C]|C]; [|exact C|].
    + pose proof (H5 o o' ltac:(lia) C Ho'). lia.
    + pose proof (H5 o' o ltac:(lia) C Ho). lia.
Qed.

Lemma trim_call_SInv n0 (s : store) vi ti c1 c2 c3 c4 s2 tvs keep :
  SInv n0 s vi -> c1 < n0 -> c2 < n0 -> c3 < n0 -> c4 < n0 ->
  tsl s [c1; c2; c3; c4] vi ti = (s2, tvs, keep) ->
  SInv n0 s2 (vi + length tvs) /\ store_le s s2 /\ Forall (fun o => o < length s2) tvs /\
  (forall i x y z, In (i, (x, y, z)) keep -> In x tvs /\ In y tvs /\ In z tvs).
Proof.
  intros [H1 [H2 [H3 [H4 [H5 H6]]]]] L1 L2 L3 L4 E.
  destruct (trim_call_spec K rtol tol tols trims s c1 c2 c3 c4 vi ti s2 tvs keep E) as [ext [Es [Hle [Hid [Hda [Htv [Hk _]]]]]]].
  destruct (cls_fold_evolve K tols trims [c1; c2; c3; c4] s) as [Ls1 Hev].
  set (s1 := cls_fold K tols trims [c1; c2; c3; c4] s) in *.
  assert (Ls2 : length s2 = length s + length ext) by (rewrite Es, app_length, Ls1; reflexivity).
  assert (A : forall o, o < length s -> vget K s2 o = vget K s1 o).
  { intros o Ho. unfold vget. rewrite Es. apply app_nth1. lia. }
  assert (B : forall o, length s <= o < length s2 -> vget K s2 o = nth (o - length s) ext (vdummy K)).
  { intros o Ho. unfold vget. rewrite Es, app_nth2 by lia. rewrite Ls1. reflexivity. }
  assert (Bid : forall o, length s <= o < length s2 -> vid (vget K s2 o) = vi + (o - length s)).
  { intros o Ho. rewrite (B o Ho). apply map_seq_nth; [exact Hid|lia]. }
  assert (Aat : forall o, o < length s -> vid (vget K s2 o) = vid (vget K s o) /\ vdata (vget K s2 o) = vdata (vget K s o)).
  { intros o Ho. rewrite (A o Ho). destruct (evolves_attrs K tols trims _ _ (Hev o)) as [Q1 [_ [_ Q4]]]. auto. }
  split; [|split; [|split]].
  - unfold SInv. split; [lia|]. split; [lia|]. split; [|split; [|split]].
    + intros o Ho. destruct (Aat o ltac:(lia)) as [-> _]. apply H3. exact Ho.
    + intros o Ho. destruct (lt_dec o (length s)) as [C|C].
      * destruct (Aat o C) as [-> _]. pose proof (H4 o ltac:(lia)). lia.
      * rewrite (Bid o ltac:(lia)). lia.
    + intros o o' Ho Hoo Ho'. destruct (lt_dec o' (length s)) as [C|C].
      * destruct (Aat o ltac:(lia)) as [-> _]. destruct (Aat o' C) as [-> _]. apply H5; lia.
      * rewrite (Bid o' ltac:(lia)). destruct (lt_dec o (length s)) as [D|D].
        -- destruct (Aat o D) as [-> _]. pose proof (H4 o ltac:(lia)). lia.
        -- rewrite (Bid o ltac:(lia)). lia.
    + intros o Ho. destruct (lt_dec o (length s)) as [C|C].
      * destruct (Aat o C) as [_ ->]. apply H6. lia.
      * rewrite (B o ltac:(lia)). rewrite Forall_forall in Hda. apply Hda. apply nth_In. lia.
  - split; [lia|]. intros o Ho. rewrite (A o Ho). apply Hev.
  - eapply Forall_impl; [|exact Htv]. intros o [Ho|Ho]; [|lia].
    assert (o < n0) by (destruct Ho as [<-|[<-|[<-|[<-|[]]]]]; assumption). lia.
  - exact Hk.
Qed.

Definition cell_in (a b : nat) (cl : nat * nat) : Prop := fst cl < a - 1 /\ snd cl < b - 1.

(* facts about one call of the run, relative to the initial store si and the final store sf *)
Definition call_ok (a b : nat) (si sf : store) (c : @call store) : Prop :=
  cell_in a b (call_cell c) /\ SInv (a * b) (call_store c) (call_vi c) /\
  store_le si (call_store c) /\ store_le (call_store c) (call_out_store tsl b c) /\ store_le (call_out_store tsl b c) sf /\
  Forall (fun o => o < length (call_out_store tsl b c)) (call_vs tsl b c) /\
  (forall i x y z, In (i, (x, y, z)) (call_ts tsl b c) -> In x (call_vs tsl b c) /\ In y (call_vs tsl b c) /\ In z (call_vs tsl b c)).

Lemma chain_SInv a b si : forall s vi ti tr s', chain tsl b s vi ti tr s' ->
  SInv (a * b) s vi -> store_le si s -> Forall (fun c => cell_in a b (call_cell c)) tr ->
  SInv (a * b) s' (vi + length (flat_map (call_vs tsl b) tr)) /\ store_le s s' /\ Forall (call_ok a b si s') tr.
Proof.
  induction 1 as [s vi ti|cl s vi ti tr s' Hc IH]; intros HI Hsi HF.
  - cbn. rewrite Nat.add_0_r. split; [exact HI|]. split; [apply store_le_refl|constructor].
  - inversion HF as [|? ? Hcl HF']; subst. cbn [call_cell fst snd] in Hcl.
    destruct cl as [i j]. destruct Hcl as [Hi Hj]. cbn [fst snd] in Hi, Hj.
    set (c := ((i, j), s, vi, ti)) in *.
    destruct (call_res tsl b c) as [[s2 tvs] keep] eqn:E.
    assert (E2 : call_out_store tsl b c = s2) by (unfold call_out_store; rewrite E; reflexivity).
    assert (E3 : call_vs tsl b c = tvs) by (unfold call_vs; rewrite E; reflexivity).
    assert (E4 : call_ts tsl b c = keep) by (unfold call_ts; rewrite E; reflexivity).
    unfold call_res, c, call_store, call_cell, call_vi, call_ti in E. cbn [fst snd] in E.
    destruct (cell_corners_distinct a b i j ltac:(lia) Hi Hj) as [Ecc [_ [Q1 [Q2 [Q3 Q4]]]]]. rewrite Ecc in E.
    destruct (trim_call_SInv (a * b) s vi ti _ _ _ _ s2 tvs keep HI Q1 Q2 Q3 Q4 E) as [HI2 [Hle2 [Htv Hk]]].
    rewrite E2, E3 in IH. destruct (IH HI2 (store_le_trans K tols trims _ _ _ Hsi Hle2) HF') as [HI' [Hle' HF'']].
    cbn [flat_map]. rewrite app_length, Nat.add_assoc, E3.
    split; [exact HI'|]. split; [eapply store_le_trans; eassumption|].
    constructor; [|exact HF''].
    unfold call_ok. rewrite E2, E3, E4. cbn [call_cell call_store call_vi c fst snd].
    split; [split; assumption|]. auto 10.
Qed.

(* ------------------------------------------------------------------ the result of make_trim_mesh *)
Definition trim_s0 (su sv k a b : nat) : store :=
  map (fun g => let uv := vertex_uv K su sv k (Nat.div g b, Nat.modulo g b) in
                mkV g (Some (grid_point_index sv k b g)) (fst uv) (snd uv) false false false) (seq 0 (Nat.mul a b)).
(* the calls of surface_trim_tessellate, in the order of the loop *)
Definition trim_trace (su sv k : nat) : list (@call store) :=
  let a := varr_size su k in let b := varr_size sv k in
  mesh_trace tsl b (cells a b) (trim_s0 su sv k a b, seq 0 (a * b), [], a * b, 0).
(* the triangles before the renumbering of fix_numbering: per-cell outputs, concatenated in the order of the loop *)
Definition trim_raw_tris (su sv k : nat) : list (nat * tri) :=
  flat_map (call_ts tsl (varr_size sv k)) (trim_trace su sv k).
Definition trim_renum (vid_of : nat -> nat) (final : list nat) (t : nat * tri) : nat * tri :=
  let '(i, (x, y, z)) := t in (i, (new_id vid_of final x, new_id vid_of final y, new_id vid_of final z)).
Definition vertex_of (s : store) (o : nat) : option nat * (T * T) :=
  (vdata (vget K s o), (vu (vget K s o), vv (vget K s o))).
(* the store the loop ends with, the objects selected by fix_numbering (in their new numbering order), and the new
   number (= position in the returned vertex list) of an object *)
Definition trim_store (su sv k : nat) : store :=
  let a := varr_size su k in let b := varr_size sv k in
  fst (fst (fst (fst (mesh_loop tsl a b (trim_s0 su sv k a b))))).
Definition trim_final (su sv k : nat) : list nat :=
  let a := varr_size su k in let b := varr_size sv k in
  let r := mesh_loop tsl a b (trim_s0 su sv k a b) in
  fix_numbering (fun o => vid (vget K (fst (fst (fst (fst r)))) o)) (snd (fst (fst (fst r)))) (map snd (snd (fst (fst r)))).
Definition trim_num (su sv k : nat) (o : nat) : nat :=
  new_id (fun o => vid (vget K (trim_store su sv k) o)) (trim_final su sv k) o.

Lemma trim_s0_length su sv k a b : length (trim_s0 su sv k a b) = a * b.
Proof. unfold trim_s0. rewrite map_length, seq_length. reflexivity. Qed.
Lemma trim_s0_nth su sv k a b g : g < a * b ->
  vget K (trim_s0 su sv k a b) g =
  mkV g (Some (grid_point_index sv k b g)) (fst (vertex_uv K su sv k (g / b, g mod b))) (snd (vertex_uv K su sv k (g / b, g mod b)))
      false false false.
Proof.
  intros Hg. unfold vget, trim_s0.
  set (f := fun g : nat => mkV g (Some (grid_point_index sv k b g)) _ _ false false false).
  rewrite (nth_indep _ (vdummy K) (f 0)) by (rewrite map_length, seq_length; exact Hg).
  rewrite map_nth, seq_nth by exact Hg. reflexivity.
Qed.
Lemma trim_s0_SInv su sv k a b : SInv (a * b) (trim_s0 su sv k a b) (a * b).
Proof.
  unfold SInv. rewrite trim_s0_length. split; [lia|]. split; [lia|]. split; [|repeat split; intros; lia].
  intros o Ho. rewrite trim_s0_nth by exact Ho. reflexivity.
Qed.

Lemma cells_in a b : Forall (cell_in a b) (cells a b).
Proof. apply Forall_forall. intros [i j] H. apply in_cells in H. exact H. Qed.

(* [G] anatomy of the result: the calls form a run from the initial store; the returned vertices are the images of the
   objects `final` selected by fix_numbering from the loop's vertex list; the returned triangles are the per-cell outputs in
   loop order with vertex objects replaced by their positions in `final`; `final` is duplicate free and consists exactly
   of the objects that occur in a triangle *)
Theorem trim_mesh_anatomy npts su sv k vs ts' :
  make_trim_mesh K rtol tol tols trims npts su sv k = Ok (vs, ts') ->
  let a := varr_size su k in let b := varr_size sv k in
  let s0 := trim_s0 su sv k a b in let tr := trim_trace su sv k in let tris := trim_raw_tris su sv k in
  k <> 0 /\ 2 <= su /\ 2 <= sv /\
  exists (s : store) (final : list nat),
    let vid_of := fun o => vid (vget K s o) in
    s = trim_store su sv k /\ final = trim_final su sv k /\
    chain tsl b s0 (a * b) 0 tr s /\ map call_cell tr = cells a b /\
    final = fix_numbering vid_of (seq 0 (a * b) ++ flat_map (call_vs tsl b) tr) (map snd tris) /\
    vs = map (vertex_of s) final /\ ts' = map (trim_renum vid_of final) tris /\
    NoDup final /\
    (forall o, In o final <-> exists t, In t tris /\ In o (tri_ids (snd t))) /\
    (forall o, In o final -> o < length s) /\
    SInv (a * b) s (a * b + length (flat_map (call_vs tsl b) tr)) /\ store_le s0 s /\
    Forall (call_ok a b s0 s) tr.
Proof.
  unfold make_trim_mesh.
  destruct (Nat.eqb k 0) eqn:Ek; [discriminate|]. destruct (Nat.leb su 1) eqn:Eu; [discriminate|].
  destruct (Nat.leb sv 1) eqn:Ev; [discriminate|]. cbn [orb]. cbv zeta.
  apply Nat.eqb_neq in Ek. apply Nat.leb_gt in Eu. apply Nat.leb_gt in Ev.
  set (a := varr_size su k). set (b := varr_size sv k).
  destruct (negb _); [discriminate|].
  fold (trim_s0 su sv k a b). set (s0 := trim_s0 su sv k a b).
  unfold mesh_loop.
  destruct (mesh_fold_trace tsl b (cells a b) s0 (seq 0 (a * b)) [] (a * b) 0) as [s [Hc [Hm He]]]. cbv zeta in He.
  fold (trim_trace su sv k) in Hc, Hm, He. unfold trim_raw_tris. fold b. set (tr := trim_trace su sv k) in *.
  assert (Est : s = trim_store su sv k).
  { unfold trim_store, mesh_loop. cbv zeta. fold a. fold b. fold s0. rewrite He. reflexivity. }
  assert (Efi : fix_numbering (fun o => vid (vget K s o)) (seq 0 (a * b) ++ flat_map (call_vs tsl b) tr)
                  (map snd (flat_map (call_ts tsl b) tr)) = trim_final su sv k).
  { unfold trim_final, mesh_loop. cbv zeta. fold a. fold b. fold s0. rewrite He. reflexivity. }
  rewrite He. cbn [app]. intros E. injection E as Evs Ets.
  split; [exact Ek|]. split; [lia|]. split; [lia|].
  set (vid_of := fun o => vid (vget K s o)) in *.
  set (vl := seq 0 (a * b) ++ flat_map (call_vs tsl b) tr) in *.
  set (tris := flat_map (call_ts tsl b) tr) in *.
  set (final := fix_numbering vid_of vl (map snd tris)) in *.
  assert (HF : Forall (fun c => cell_in a b (call_cell c)) tr).
  { apply Forall_forall. intros c Hin. pose proof (cells_in a b) as HC. rewrite Forall_forall in HC. apply HC.
    rewrite <- Hm. apply in_map. exact Hin. }
  destruct (chain_SInv a b s0 s0 (a * b) 0 tr s Hc (trim_s0_SInv su sv k a b) (store_le_refl K tols trims s0) HF)
    as [HI [Hle Hok]].
  (* every object of the vertex list and of a triangle is an object of the final store *)
  assert (Hvl : forall o, In o vl -> o < length s).
  { intros o Ho. unfold vl in Ho. apply in_app_or in Ho. destruct Ho as [Ho|Ho].
    - apply in_seq in Ho. destruct HI as [HI _]. lia.
    - apply in_flat_map in Ho. destruct Ho as [c [Hc1 Hc2]]. rewrite Forall_forall in Hok.
      destruct (Hok c Hc1) as [_ [_ [_ [_ [[Hl _] [Hv _]]]]]]. rewrite Forall_forall in Hv. specialize (Hv o Hc2). lia. }
  assert (Htri : forall t o, In t tris -> In o (tri_ids (snd t)) -> In o vl).
  { intros [i [[x y] z]] o Ht Ho. unfold tris in Ht. apply in_flat_map in Ht. destruct Ht as [c [Hc1 Hc2]].
    rewrite Forall_forall in Hok. destruct (Hok c Hc1) as [_ [_ [_ [_ [_ [_ Hk]]]]]].
    destruct (Hk i x y z Hc2) as [Hx [Hy Hz]].
    assert (In o (call_vs tsl b c)) by (cbn in Ho; destruct Ho as [<-|[<-|[<-|[]]]]; assumption).
    unfold vl. apply in_or_app. right. apply in_flat_map. exists c. split; assumption. }
  destruct (fix_numbering_spec vid_of vl (map snd tris)) as [Hnd [Hsub Hsup]]. fold final in Hnd, Hsub, Hsup.
  assert (Hids : forall d, In d (flat_map (fun t => map vid_of (tri_ids t)) (map snd tris)) <->
                           exists t o, In t tris /\ In o (tri_ids (snd t)) /\ d = vid_of o).
  { intros d. rewrite in_flat_map. split.
    - intros [t [Ht Hd]]. apply in_map_iff in Ht. destruct Ht as [t0 [<- Ht0]]. apply in_map_iff in Hd.
      destruct Hd as [o [<- Ho]]. exists t0, o. auto.
    - intros [t [o [Ht [Ho ->]]]]. exists (snd t). split; [apply in_map; exact Ht|apply in_map; exact Ho]. }
  exists s, final. cbv zeta.
  split; [exact Est|]. split; [exact Efi|].
  split; [exact Hc|]. split; [exact Hm|]. split; [reflexivity|]. split; [symmetry; exact Evs|]. split; [symmetry; exact Ets|].
  split; [eapply NoDup_map_inv; exact Hnd|]. split; [|split; [|split; [|split]]].
  - intros o. split.
    + intros Ho. destruct (Hsub o Ho) as [Hv Hi]. apply Hids in Hi. destruct Hi as [t [o' [Ht [Ho' E]]]].
      exists t. split; [exact Ht|].
      assert (o = o'); [|subst; exact Ho'].
      apply (SInv_inj _ _ _ HI); [apply Hvl; exact Hv|apply Hvl; eapply Htri; eassumption|exact E].
    + intros [t [Ht Ho]]. destruct (Hsup o (Htri t o Ht Ho)) as [o' [Ho' E]].
      { apply Hids. exists t, o. auto. }
      assert (o' = o); [|subst; exact Ho'].
      apply (SInv_inj _ _ _ HI); [apply Hvl; apply Hsub; exact Ho'|apply Hvl; eapply Htri; eassumption|exact E].
  - intros o Ho. apply Hvl. apply Hsub. exact Ho.
  - exact HI.
  - exact Hle.
  - exact Hok.
Qed.
End LoopG.

(* ------------------------------------------------------------------ structure and decomposition of the result *)
Lemma final_index vid_of final x : In x final ->
  new_id vid_of final x < length final /\ nth (new_id vid_of final x) final 0 = x.
Proof. intros H. unfold new_id. destruct (index_of_In x final H) as [n [-> [H1 H2]]]. auto. Qed.
Lemma final_nth vid_of final n : NoDup final -> n < length final -> new_id vid_of final (nth n final 0) = n.
Proof. intros Hnd Hn. unfold new_id. rewrite index_of_nth by assumption. reflexivity. Qed.
Lemma nth_map_0 {A} (f : nat -> A) l n d : n < length l -> nth n (map f l) d = f (nth n l 0).
Proof. intros H. rewrite (nth_indep _ d (f 0)) by (rewrite map_length; exact H). apply map_nth. Qed.
Lemma trim_renum_fst vid_of final t : fst (trim_renum vid_of final t) = fst t.
Proof. destruct t as [i [[x y] z]]. reflexivity. Qed.

Section StructG.
Context {T : Type} (K : ops T).
Variables (rtol tol tols : T) (trims : list (@trimc T)).
Notation tsl := (surface_trim_tessellate K rtol tol tols trims).
Notation store := (list (@vobj T)).
Notation trace := (trim_trace K rtol tol tols trims).
Notation raw_tris := (trim_raw_tris K rtol tol tols trims).

(* the environment of every call of the loop: its cell is a cell of the vertex array, the grid objects are in its store
   with their initial id, point index and parametric position, and flags that come from corner classifications only *)
Definition grid_object_ok (su sv k : nat) (s : store) (g : nat) : Prop :=
  let b := varr_size sv k in
  g < length s /\ vid (vget K s g) = g /\ vdata (vget K s g) = Some (grid_point_index sv k b g) /\
  (vu (vget K s g), vv (vget K s g)) = vertex_uv K su sv k (g / b, g mod b) /\
  fhist K tols trims (vu (vget K s g)) (vv (vget K s g)) (vflags (vget K s g)).
Lemma grid_object_evolves su sv k s g :
  let a := varr_size su k in let b := varr_size sv k in
  g < a * b -> store_le K tols trims (trim_s0 K su sv k a b) s -> grid_object_ok su sv k s g.
Proof.
  cbv zeta. intros Hg [Hl Hev]. rewrite trim_s0_length in Hl, Hev. specialize (Hev g Hg).
  pose proof (evolves_fhist K tols trims _ _ Hev) as Hf.
  destruct (evolves_attrs K tols trims _ _ Hev) as [E1 [E2 [E3 E4]]].
  rewrite trim_s0_nth in E1, E2, E3, E4, Hf by exact Hg. cbn [vid vu vv vdata vflags vinside vtrim vnotrim] in *.
  unfold grid_object_ok. cbv zeta. rewrite E1, E2, E3, E4.
  split; [lia|]. split; [reflexivity|]. split; [reflexivity|]. split; [symmetry; apply surjective_pairing|].
  apply Hf. constructor.
Qed.

(* [G] part 1, structure: the returned triangles reference only returned vertices; a returned vertex's id is its
   position (fix_numbering renumbers 0..V-1 in list order), so ids are consecutive; every returned vertex is used by a
   returned triangle (the model, like the code, drops unused vertices); a vertex either is a grid vertex, with its point
   index and its grid parameters, or has no point attached (created on a cell edge); the triangle ids are those of the
   per-cell outputs *)
Theorem trim_mesh_structure npts su sv k vs ts :
  make_trim_mesh K rtol tol tols trims npts su sv k = Ok (vs, ts) ->
  let a := varr_size su k in let b := varr_size sv k in
  Forall (fun t => tri_lt (length vs) (snd t)) ts /\
  (forall n, n < length vs -> exists t, In t ts /\ In n (tri_ids (snd t))) /\
  (forall n d, n < length vs ->
     (exists g, g < a * b /\ nth n vs d = (Some (grid_point_index sv k b g), vertex_uv K su sv k (g / b, g mod b))) \/
     fst (nth n vs d) = None) /\
  map fst ts = map fst (raw_tris su sv k) /\ length ts = length (raw_tris su sv k).
Proof.
  intros H. cbv zeta. destruct (trim_mesh_anatomy K rtol tol tols trims npts su sv k vs ts H)
    as [Hk [Hu [Hv [s [final [Est [Efi [Hc [Hm [Ef [Evs [Ets [Hnd [Hused [Hlt [HI [Hle Hok]]]]]]]]]]]]]]]]]. cbv zeta in *.
  set (a := varr_size su k) in *. set (b := varr_size sv k) in *.
  set (vid_of := fun o => vid (vget K s o)) in *.
  assert (Lvs : length vs = length final) by (rewrite Evs; apply map_length).
  split; [|split; [|split; [|split]]].
  - rewrite Ets. apply Forall_forall. intros t' Ht'. apply in_map_iff in Ht'. destruct Ht' as [[i [[x y] z]] [<- Ht]].
    cbn [trim_renum snd tri_lt]. rewrite Lvs.
    repeat split; apply final_index; apply Hused; exists (i, (x, y, z)); (split; [exact Ht|cbn; auto]).
  - intros n Hn. rewrite Lvs in Hn.
    destruct (proj1 (Hused (nth n final 0)) (nth_In _ _ Hn)) as [[i [[x y] z]] [Ht Ho]].
    exists (trim_renum vid_of final (i, (x, y, z))). split; [rewrite Ets; apply in_map; exact Ht|].
    cbn [trim_renum snd tri_ids] in *.
    destruct Ho as [E|[E|[E|[]]]]; rewrite E, final_nth by assumption; cbn; auto.
  - intros n d Hn. rewrite Lvs in Hn. rewrite Evs, nth_map_0 by exact Hn.
    set (o := nth n final 0). assert (Ho : o < length s) by (apply Hlt; apply nth_In; exact Hn).
    destruct (lt_dec o (a * b)) as [C|C].
    + left. exists o. split; [exact C|].
      destruct (grid_object_evolves su sv k s o C Hle) as [_ [_ [E3 [E4 _]]]]. unfold vertex_of. fold b in E3, E4.
      rewrite E3, E4. reflexivity.
    + right. destruct HI as [_ [_ [_ [_ [_ H6]]]]]. unfold vertex_of. cbn [fst]. apply H6. lia.
  - rewrite Ets, map_map. apply map_ext. intros t. apply trim_renum_fst.
  - rewrite Ets. apply map_length.
Qed.

(* [G] part 2, decomposition: the returned triangle list is, cell by cell in the order of the loop, the concatenation of
   the outputs of the calls of surface_trim_tessellate (trim_trace), up to the renumbering of the vertex references:
   membership in both directions; the renumbering keeps the triangle id, is injective on vertex objects, and the returned
   vertex has the parametric position the vertex object had in the store that the call returned (so the per-cell
   theorems of Proofs/TrimCells.v apply to every triangle of the result); the calls see the grid objects with their
   initial attributes (grid_object_ok) *)
Theorem trim_mesh_decomposition npts su sv k vs ts :
  make_trim_mesh K rtol tol tols trims npts su sv k = Ok (vs, ts) ->
  let a := varr_size su k in let b := varr_size sv k in
  let num := trim_num K rtol tol tols trims su sv k in
    let ren := fun t : nat * tri => let '(i, (x, y, z)) := t in (i, (num x, num y, num z)) in
    ts = flat_map (fun c => map ren (call_ts tsl b c)) (trace su sv k) /\
    map call_cell (trace su sv k) = cells a b /\
    (forall t', In t' ts <-> exists c t, In c (trace su sv k) /\ In t (call_ts tsl b c) /\ t' = ren t) /\
    (forall c, In c (trace su sv k) ->
       cell_in a b (call_cell c) /\
       (forall g, g < a * b -> grid_object_ok su sv k (call_store c) g) /\
       forall i x y z, In (i, (x, y, z)) (call_ts tsl b c) ->
         let ok := fun o => o < length (call_out_store tsl b c) /\ num o < length vs /\
                            forall d, snd (nth (num o) vs d) =
                                      (vu (vget K (call_out_store tsl b c) o), vv (vget K (call_out_store tsl b c) o)) in
         ok x /\ ok y /\ ok z) /\
    (forall c c' t t' o o', In c (trace su sv k) -> In c' (trace su sv k) -> In t (call_ts tsl b c) ->
       In t' (call_ts tsl b c') -> In o (tri_ids (snd t)) -> In o' (tri_ids (snd t')) -> num o = num o' -> o = o').
Proof.
  intros H. cbv zeta. destruct (trim_mesh_anatomy K rtol tol tols trims npts su sv k vs ts H)
    as [Hk [Hu [Hv [s [final [Est [Efi [Hc [Hm [Ef [Evs [Ets [Hnd [Hused [Hlt [HI [Hle Hok]]]]]]]]]]]]]]]]]. cbv zeta in *.
  set (a := varr_size su k) in *. set (b := varr_size sv k) in *.
  set (vid_of := fun o => vid (vget K s o)) in *.
  assert (Lvs : length vs = length final) by (rewrite Evs; apply map_length).
  assert (Enum : trim_num K rtol tol tols trims su sv k = new_id vid_of final).
  { unfold trim_num. rewrite <- Est, <- Efi. reflexivity. }
  rewrite Enum.
  change (fun t : nat * tri => let '(i, (x, y, z)) := t in (i, (new_id vid_of final x, new_id vid_of final y, new_id vid_of final z)))
    with (trim_renum vid_of final).
  assert (Ets' : ts = flat_map (fun c => map (trim_renum vid_of final) (call_ts tsl b c)) (trace su sv k)).
  { rewrite Ets. unfold trim_raw_tris. fold b. generalize (trace su sv k). intros l.
    induction l as [|c l IH]; [reflexivity|]. cbn [flat_map]. rewrite map_app, IH. reflexivity. }
  assert (Hin : forall c t o, In c (trace su sv k) -> In t (call_ts tsl b c) -> In o (tri_ids (snd t)) -> In o final).
  { intros c t o Hc1 Ht Ho. apply Hused. exists t. split; [|exact Ho]. unfold trim_raw_tris. fold b.
    apply in_flat_map. exists c. auto. }
  split; [exact Ets'|]. split; [exact Hm|]. split; [|split].
  - intros t'. rewrite Ets', in_flat_map. split.
    + intros [c [Hc1 Ht]]. apply in_map_iff in Ht. destruct Ht as [t [E Ht]]. exists c, t. auto.
    + intros [c [t [Hc1 [Ht ->]]]]. exists c. split; [exact Hc1|exact (in_map (trim_renum vid_of final) _ _ Ht)].
  - intros c Hc1. rewrite Forall_forall in Hok.
    destruct (Hok c Hc1) as [Hcell [_ [Hs0 [_ [Hout [Hvs Hk3]]]]]].
    split; [exact Hcell|]. split; [intros g Hg; apply grid_object_evolves; assumption|].
    intros i x y z Ht. cbv zeta.
    assert (Hone : forall o, In o (call_vs tsl b c) -> In o final ->
              o < length (call_out_store tsl b c) /\ new_id vid_of final o < length vs /\
              forall d, snd (nth (new_id vid_of final o) vs d) =
                        (vu (vget K (call_out_store tsl b c) o), vv (vget K (call_out_store tsl b c) o))).
    { intros o Ho Hf. rewrite Forall_forall in Hvs. pose proof (Hvs o Ho) as Hl.
      destruct (final_index vid_of final o Hf) as [F1 F2]. split; [exact Hl|]. split; [lia|].
      intros d. rewrite Evs, nth_map_0 by exact F1. rewrite F2. unfold vertex_of. cbn [snd].
      destruct Hout as [_ Hev]. destruct (evolves_attrs K tols trims _ _ (Hev o Hl)) as [_ [-> [-> _]]]. reflexivity. }
    destruct (Hk3 i x y z Ht) as [Hx [Hy Hz]].
    split; [|split]; apply Hone; try assumption; apply (Hin c (i, (x, y, z))); cbn; auto.
  - intros c c' t t' o o' Hc1 Hc2 Ht Ht' Ho Ho' E.
    destruct (final_index vid_of final o (Hin c t o Hc1 Ht Ho)) as [_ F].
    destruct (final_index vid_of final o' (Hin c' t' o' Hc2 Ht' Ho')) as [_ F'].
    rewrite <- F, <- F', E. reflexivity.
Qed.

(* [G] part 1, numbering: the returned vertex list is the image of the duplicate-free object list trim_final (the objects
   fix_numbering selects), the object at position n has new id n (ids = positions: consecutive 0..V-1), and the selected
   objects are exactly those that occur in a triangle of some cell *)
Theorem trim_mesh_vertex_ids npts su sv k vs ts :
  make_trim_mesh K rtol tol tols trims npts su sv k = Ok (vs, ts) ->
  let final := trim_final K rtol tol tols trims su sv k in
  vs = map (vertex_of K (trim_store K rtol tol tols trims su sv k)) final /\ NoDup final /\
  (forall n, n < length vs -> trim_num K rtol tol tols trims su sv k (nth n final 0) = n) /\
  (forall o, In o final <-> exists t, In t (raw_tris su sv k) /\ In o (tri_ids (snd t))).
Proof.
  intros H. cbv zeta. destruct (trim_mesh_anatomy K rtol tol tols trims npts su sv k vs ts H)
    as [Hk [Hu [Hv [s [final [Est [Efi [Hc [Hm [Ef [Evs [Ets [Hnd [Hused [Hlt [HI [Hle Hok]]]]]]]]]]]]]]]]]. cbv zeta in *.
  rewrite <- Est, <- Efi. split; [exact Evs|]. split; [exact Hnd|]. split; [|exact Hused].
  intros n Hn. unfold trim_num. rewrite <- Est, <- Efi. apply final_nth; [exact Hnd|]. rewrite Evs, map_length in Hn. exact Hn.
Qed.

(* every cell of the vertex array has its call in the loop *)
Lemma trim_trace_cell npts su sv k vs ts i j :
  make_trim_mesh K rtol tol tols trims npts su sv k = Ok (vs, ts) ->
  i < varr_size su k - 1 -> j < varr_size sv k - 1 ->
  exists tr1 c tr2, trace su sv k = tr1 ++ c :: tr2 /\ call_cell c = (i, j).
Proof.
  intros H Hi Hj. destruct (trim_mesh_anatomy K rtol tol tols trims npts su sv k vs ts H)
    as [_ [_ [_ [s [final [_ [_ [_ [Hm _]]]]]]]]]. cbv zeta in Hm.
  assert (Hin : In (i, j) (map call_cell (trace su sv k))) by (rewrite Hm; apply in_cells; auto).
  apply in_map_iff in Hin. destruct Hin as [c [Ec Hc]]. destruct (in_split _ _ Hc) as [tr1 [tr2 E]].
  exists tr1, c, tr2. auto.
Qed.

(* the n-th call starts numbering its triangles at the number of triangles emitted before it *)
Lemma trim_trace_ti npts su sv k vs ts tr1 c tr2 :
  make_trim_mesh K rtol tol tols trims npts su sv k = Ok (vs, ts) ->
  trace su sv k = tr1 ++ c :: tr2 ->
  call_ti c = length (flat_map (call_ts tsl (varr_size sv k)) tr1).
Proof.
  intros H E. destruct (trim_mesh_anatomy K rtol tol tols trims npts su sv k vs ts H)
    as [_ [_ [_ [s [final [_ [_ [Hc _]]]]]]]]. cbv zeta in Hc. rewrite E in Hc.
  apply chain_nth in Hc. destruct Hc as [_ ->]. reflexivity.
Qed.

(* [G] triangle ids: consecutive 0..F-1 whenever every call returns consecutively numbered triangles (it keeps a prefix
   of its candidate list); see trim_mesh_tri_ids_refuted below for the general case *)
Theorem trim_mesh_tri_ids npts su sv k vs ts :
  make_trim_mesh K rtol tol tols trims npts su sv k = Ok (vs, ts) ->
  Forall (fun c => map fst (call_ts tsl (varr_size sv k) c) = seq (call_ti c) (length (call_ts tsl (varr_size sv k) c)))
         (trace su sv k) ->
  map fst ts = seq 0 (length ts).
Proof.
  intros H HF. destruct (trim_mesh_structure npts su sv k vs ts H) as [_ [_ [_ [E1 E2]]]].
  destruct (trim_mesh_anatomy K rtol tol tols trims npts su sv k vs ts H) as [_ [_ [_ [s [final [_ [_ [Hc _]]]]]]]].
  cbv zeta in Hc. rewrite E1, E2. unfold trim_raw_tris. apply (chain_ids _ _ _ _ _ _ _ Hc HF).
Qed.
End StructG.

(* ------------------------------------------------------------------ order of the returned vertices *)
(* running through a vertex list with the bound m = number of objects seen so far: every entry is an object seen before
   (< m) or the next new object (= m); the result is the bound at the end *)
Fixpoint fo_end (m : nat) (l : list nat) : option nat :=
  match l with
  | [] => Some m
  | o :: r => if Nat.ltb o m then fo_end m r else if Nat.eqb o m then fo_end (S m) r else None
  end.
Lemma fo_end_app l1 : forall m l2,
  fo_end m (l1 ++ l2) = match fo_end m l1 with Some m' => fo_end m' l2 | None => None end.
Proof.
  induction l1 as [|o l1 IH]; intros m l2; [reflexivity|]. cbn [app fo_end].
  destruct (Nat.ltb o m); [apply IH|]. destruct (Nat.eqb o m); [apply IH|reflexivity].
Qed.
Lemma fo_end_le l : forall m m', fo_end m l = Some m' -> m <= m'.
Proof.
  induction l as [|o l IH]; intros m m' H; cbn [fo_end] in H; [injection H; lia|].
  destruct (Nat.ltb o m); [apply IH; exact H|]. destruct (Nat.eqb o m); [apply IH in H; lia|discriminate].
Qed.
Lemma fo_end_seq n : forall m, fo_end m (seq m n) = Some (m + n).
Proof.
  induction n as [|n IH]; intros m; cbn [seq fo_end]; [f_equal; lia|].
  rewrite Nat.ltb_irrefl, Nat.eqb_refl, IH. f_equal; lia.
Qed.

Lemma sorted_snoc l a : StronglySorted lt l -> Forall (fun x => x < a) l -> StronglySorted lt (l ++ [a]).
Proof.
  induction 1 as [|x l Hs IH Hx]; intros HF; cbn [app]; [constructor; constructor|]. inversion HF; subst.
  constructor; [apply IH; assumption|]. apply Forall_app. split; [exact Hx|constructor; [assumption|constructor]].
Qed.
Lemma sorted_rev l : StronglySorted (fun x y => y < x) l -> StronglySorted lt (rev l).
Proof.
  induction 1 as [|x l Hs IH Hx]; cbn [rev]; [constructor|]. apply sorted_snoc; [exact IH|].
  apply Forall_forall. intros y Hy. apply in_rev in Hy. rewrite Forall_forall in Hx. apply Hx. exact Hy.
Qed.
Lemma sorted_nth : forall l, StronglySorted lt l -> forall i j, i < j -> j < length l -> nth i l 0 < nth j l 0.
Proof.
  induction 1 as [|x l Hs IH Hx]; intros i j Hij Hj; [cbn in Hj; lia|].
  destruct j as [|j]; [lia|]. cbn [length] in Hj. destruct i as [|i]; cbn [nth].
  - rewrite Forall_forall in Hx. apply Hx. apply nth_In. lia.
  - apply IH; lia.
Qed.

Lemma fix_fold_sorted vid_of ids : forall l done acc m m',
  (forall x, In x done <-> x < m) -> fo_end m l = Some m' -> fixP vid_of ids done acc ->
  StronglySorted (fun x y => y < x) (fst acc) ->
  StronglySorted (fun x y => y < x) (fst (fold_left (fix_step vid_of ids) l acc)).
Proof.
  induction l as [|o l IH]; intros done acc m m' Hd He HP Hs; [exact Hs|].
  cbn [fold_left]. cbn [fo_end] in He.
  assert (HP' : fixP vid_of ids (done ++ [o]) (fix_step vid_of ids acc o)).
  { exact (fix_fold_inv vid_of ids [o] done acc HP). }
  destruct (Nat.ltb o m) eqn:E1.
  - apply Nat.ltb_lt in E1. apply (IH (done ++ [o]) _ m m'); try assumption.
    + intros x. rewrite in_app_iff. cbn. split.
      * intros [H|[<-|[]]]; [apply Hd; exact H|exact E1].
      * intros H. left. apply Hd. exact H.
    + destruct acc as [fin seen]. destruct HP as [H1 [H2 [H3 H4]]]. cbn [fst snd] in *.
      unfold fix_step. cbn [fst snd]. destruct (memb (vid_of o) ids) eqn:Em; cbn [andb]; [|exact Hs].
      apply memb_true in Em. assert (Hin : In (vid_of o) seen) by (apply H4; [apply Hd; exact E1|exact Em]).
      apply memb_true in Hin. rewrite Hin. exact Hs.
  - destruct (Nat.eqb o m) eqn:E2; [|discriminate]. apply Nat.eqb_eq in E2. subst o.
    apply (IH (done ++ [m]) _ (S m) m'); try assumption.
    + intros x. rewrite in_app_iff. cbn. split.
      * intros [H|[<-|[]]]; [apply Hd in H; lia|lia].
      * intros H. destruct (Nat.eq_dec x m) as [->|N]; [right; left; reflexivity|left; apply Hd; lia].
    + destruct acc as [fin seen]. destruct HP as [H1 [H2 [H3 H4]]]. cbn [fst snd] in *.
      unfold fix_step. cbn [fst snd]. destruct (andb _ _); [|exact Hs]. cbn [fst]. constructor; [exact Hs|].
      apply Forall_forall. intros y Hy. apply H3 in Hy. destruct Hy as [Hy _]. apply Hd. exact Hy.
Qed.
(* [G] if the vertex list introduces the objects 0, 1, 2, ... in this order, fix_numbering returns them in increasing order *)
Lemma fix_numbering_sorted vid_of vl tris m :
  fo_end 0 vl = Some m -> StronglySorted lt (fix_numbering vid_of vl tris).
Proof.
  intros H. unfold fix_numbering. set (ids := flat_map (fun t => map vid_of (tri_ids t)) tris).
  change (fold_left _ vl ([], [])) with (fold_left (fix_step vid_of ids) vl ([], [])).
  apply sorted_rev. apply (fix_fold_sorted vid_of ids vl [] ([], []) 0 m).
  - intros x. cbn. split; [intros []|lia].
  - exact H.
  - unfold fixP. cbn. repeat split; try constructor; intros; contradiction.
  - constructor.
Qed.

Section OrderG.
Context {T : Type} (K : ops T).
Variables (rtol tol tols : T) (trims : list (@trimc T)).
Notation tsl := (surface_trim_tessellate K rtol tol tols trims).
Notation store := (list (@vobj T)).

(* the vertex list of a call mentions corners (old objects) and every created object, in creation order *)
Lemma trim_call_order (s : store) c1 c2 c3 c4 vidx tidx s2 tvs keep :
  c1 < length s -> c2 < length s -> c3 < length s -> c4 < length s ->
  tsl s [c1; c2; c3; c4] vidx tidx = (s2, tvs, keep) -> fo_end (length s) tvs = Some (length s2).
Proof.
  intros L1 L2 L3 L4. destruct (cls_fold_evolve K tols trims [c1; c2; c3; c4] s) as [Ls1 _].
  rewrite <- Ls1 in *. unfold surface_trim_tessellate. fold (cls_fold K tols trims [c1; c2; c3; c4] s).
  set (s1 := cls_fold K tols trims [c1; c2; c3; c4] s) in *. clearbody s1.
  destruct (forallb vinside (map (vget K s1) [c1; c2; c3; c4])).
  { intros E. injection E as <- <- <-. reflexivity. }
  cbn [app hd tl combine map fst snd].
  set (isects := cell_intersections K rtol tol _ trims). clearbody isects.
  match goal with |- context [fold_left ?f (seq 0 4) ?i] => set (F := f) end.
  set (Inv := fun acc : store * list nat * nat => fo_end (length s1) (snd (fst acc)) = Some (length (fst (fst acc)))).
  assert (HF : forall acc idx, idx < 4 -> Inv acc -> Inv (F acc idx)).
  { intros [[st tv] nvi] idx Hidx H. unfold Inv in *. cbn [fst snd] in *. subst F. cbv beta iota zeta.
    set (a := nth idx [c1; c2; c3; c4; c1] 0).
    assert (Ha : a < length s1) by (subst a; destruct idx as [|[|[|[|?]]]]; cbn; lia).
    pose proof (fo_end_le _ _ _ H) as Hle.
    destruct (vinside (vget K st a) && vinside (vget K st (nth (S idx) [c1; c2; c3; c4; c1] 0))); [exact H|].
    set (tv1 := if vinside (vget K st a) then tv else tv ++ [a]).
    assert (H1 : fo_end (length s1) tv1 = Some (length st)).
    { subst tv1. destruct (vinside (vget K st a)); [exact H|]. rewrite fo_end_app, H. cbn [fo_end].
      assert (E : Nat.ltb a (length st) = true) by (apply Nat.ltb_lt; lia). rewrite E. reflexivity. }
    destruct (xorb _ _ && has_isect idx isects); cbn [fst snd]; [|exact H1].
    rewrite fo_end_app, H1. cbn [fo_end]. rewrite Nat.ltb_irrefl, Nat.eqb_refl, app_length. cbn. f_equal. lia. }
  assert (Hfold : forall l acc, (forall i, In i l -> i < 4) -> Inv acc -> Inv (fold_left F l acc)).
  { induction l as [|i l IH]; intros acc Hl Ha; [exact Ha|]. cbn [fold_left]. apply IH.
    - intros j Hj. apply Hl. right. exact Hj.
    - apply HF; [apply Hl; left; reflexivity|exact Ha]. }
  assert (Hfin : Inv (fold_left F (seq 0 4) (s1, [], 0))).
  { apply Hfold; [intros i Hi; apply in_seq in Hi; lia|]. reflexivity. }
  clearbody F. destruct (fold_left F (seq 0 4) (s1, [], 0)) as [[s2' tvs'] n']. unfold Inv in Hfin. cbn [fst snd] in Hfin.
  intros E. injection E as <- <- <-. exact Hfin.
Qed.

Lemma chain_order a b : forall s vi ti tr s', chain tsl b s vi ti tr s' ->
  a * b <= length s -> Forall (fun c => cell_in a b (call_cell c)) tr ->
  fo_end (length s) (flat_map (call_vs tsl b) tr) = Some (length s').
Proof.
  induction 1 as [s vi ti|cl s vi ti tr s' Hc IH]; intros Hl HF; [reflexivity|].
  inversion HF as [|? ? Hcl HF']; subst. cbn [call_cell fst snd] in Hcl.
  destruct cl as [i j]. destruct Hcl as [Hi Hj]. cbn [fst snd] in Hi, Hj.
  set (c := ((i, j), s, vi, ti)) in *.
  destruct (call_res tsl b c) as [[s2 tvs] keep] eqn:E.
  assert (E2 : call_out_store tsl b c = s2) by (unfold call_out_store; rewrite E; reflexivity).
  assert (E3 : call_vs tsl b c = tvs) by (unfold call_vs; rewrite E; reflexivity).
  unfold call_res, c, call_store, call_cell, call_vi, call_ti in E. cbn [fst snd] in E.
  destruct (cell_corners_distinct a b i j ltac:(lia) Hi Hj) as [Ecc [_ [Q1 [Q2 [Q3 Q4]]]]]. rewrite Ecc in E.
  assert (Ho : fo_end (length s) tvs = Some (length s2)) by (eapply trim_call_order; [| | | |exact E]; lia).
  pose proof (fo_end_le _ _ _ Ho) as Hle.
  cbn [flat_map]. rewrite fo_end_app, E3, Ho. rewrite E2 in IH. apply IH; [lia|exact HF'].
Qed.

(* [G] the returned vertices are in increasing object order: the used grid vertices first, in row-major order of the vertex
   array (object g = j + i * b), then the used created vertices in the order of their creation *)
Theorem trim_mesh_vertex_order npts su sv k vs ts :
  make_trim_mesh K rtol tol tols trims npts su sv k = Ok (vs, ts) ->
  let final := trim_final K rtol tol tols trims su sv k in
  StronglySorted lt final /\ forall n1 n2, n1 < n2 -> n2 < length vs -> nth n1 final 0 < nth n2 final 0.
Proof.
  intros H. cbv zeta. destruct (trim_mesh_anatomy K rtol tol tols trims npts su sv k vs ts H)
    as [Hk [Hu [Hv [s [final [Est [Efi [Hc [Hm [Ef [Evs [Ets [Hnd [Hused [Hlt [HI [Hle Hok]]]]]]]]]]]]]]]]]. cbv zeta in *.
  rewrite <- Efi.
  assert (Hs : StronglySorted lt final).
  { rewrite Ef. apply (fix_numbering_sorted _ _ _ (length s)).
    rewrite fo_end_app, (fo_end_seq _ 0). cbn [Nat.add].
    pose proof (chain_order (varr_size su k) (varr_size sv k) _ _ _ _ _ Hc) as Ho. rewrite trim_s0_length in Ho.
    apply Ho; [lia|]. apply Forall_forall. intros c Hin.
    pose proof (cells_in (varr_size su k) (varr_size sv k)) as HC. rewrite Forall_forall in HC. apply HC.
    rewrite <- Hm. apply in_map. exact Hin. }
  split; [exact Hs|]. intros n1 n2 H12 H2. apply sorted_nth; [exact Hs|exact H12|]. rewrite Evs, map_length in H2. exact H2.
Qed.
End OrderG.

(* ================================================================== Part D: real coordinates, "within one cell" for the mesh *)
Local Open Scope R_scope.

(* parametric position of grid line n: the accumulated `u += u_jump` *)
Definition gu (size k n : nat) : R := uv_acc Rops (uv_jump Rops size k) n.
Lemma gu_step size k n : (2 <= size)%nat -> k <> 0%nat -> gu size k n < gu size k (n + 1).
Proof.
  intros Hs Hk. unfold gu. rewrite !uv_acc_R, plus_INR. unfold uv_jump. rsimp. rewrite !tess_ofnat_INR.
  assert (0 < INR (size - 1)) by (apply lt_0_INR; lia). assert (0 < INR k) by (apply lt_0_INR; lia).
  assert (0 < 1 / INR (size - 1) * INR k).
  { apply Rmult_lt_0_compat; [|assumption]. apply Rdiv_lt_0_compat; lra. }
  cbn [INR]. lra.
Qed.

(* the cell enlarged by the intersection tolerance of the code (TrimCells.near_cell, for a position) *)
Definition near_rect (tol u0 u1 v0 v1 : R) (p : R * R) : Prop :=
  u0 - (tol * (u1 - u0) + tol) <= fst p <= u1 + (tol * (u1 - u0) + tol) /\
  v0 - (tol * (v1 - v0) + tol) <= snd p <= v1 + (tol * (v1 - v0) + tol).

Lemma corner_divmod b i j : (j < b)%nat -> ((j + i * b) / b = i /\ (j + i * b) mod b = j)%nat.
Proof.
  intros H. rewrite Nat.div_add, Nat.mod_add by lia. rewrite Nat.div_small, Nat.mod_small by lia. auto.
Qed.

Lemma tri_kept_centre trims (s : list (@vobj R)) i x y z :
  tri_kept Rops trims s (i, (x, y, z)) =
  negb (pt_trimmed trims ((vu (vget Rops s x) + vu (vget Rops s y) + vu (vget Rops s z)) / 3)
                         ((vv (vget Rops s x) + vv (vget Rops s y) + vv (vget Rops s z)) / 3)).
Proof.
  unfold tri_kept, pt_trimmed, pt_flags. cbv zeta. rsimp. rewrite ofnat3.
  replace (0 + vu (vget Rops s x) + vu (vget Rops s y) + vu (vget Rops s z))
    with (vu (vget Rops s x) + vu (vget Rops s y) + vu (vget Rops s z)) by lra.
  replace (0 + vv (vget Rops s x) + vv (vget Rops s y) + vv (vget Rops s z))
    with (vv (vget Rops s x) + vv (vget Rops s y) + vv (vget Rops s z)) by lra.
  fold fff. destruct (flag_update fff trims _) as [[a b] c]. reflexivity.
Qed.

(* flags that come from corner classifications only, at a corner of an untouched cell: fresh, or the cell's decision *)
Lemma fhist_untouched tols trims u0 u1 v0 v1 u v f :
  0 <= tols -> trims_closed trims -> trims_miss_rect trims (u0 - tols) (u1 + tols) (v0 - tols) (v1 + tols) ->
  u0 <= u <= u1 -> v0 <= v <= v1 -> u0 <= u1 -> v0 <= v1 ->
  fhist Rops tols trims u v f -> f = fff \/ f = pt_flags trims u0 v0.
Proof.
  intros Ht Hc Hm Hu Hv Hu01 Hv01. induction 1 as [|f idx H IH]; [left; reflexivity|]. right.
  rewrite (flag_update_ext (ctest Rops tols idx u v) (fun trim => wn_poly Rops [u0; v0] (tpts trim))).
  - destruct IH as [->| ->]; [reflexivity|]. unfold pt_flags. apply flag_update_idem.
  - unfold ctest.
    apply (corner_test_R trims (u0 - tols) (u1 + tols) (v0 - tols) (v1 + tols)); try assumption; cbn [vu vv]; lra.
Qed.

Section MeshR.
Variables (rtol tol tols : R) (trims : list (@trimc R)).
Notation tsl := (surface_trim_tessellate Rops rtol tol tols trims).
Notation trace := (trim_trace Rops rtol tol tols trims).

(* the environment of a call, in the form the per-cell theorems of Proofs/TrimCells.v need *)
Lemma trim_call_cell_R su sv k (s : list (@vobj R)) i j :
  let a := varr_size su k in let b := varr_size sv k in
  (2 <= su)%nat -> (2 <= sv)%nat -> k <> 0%nat -> cell_in a b (i, j) ->
  (forall g, (g < a * b)%nat -> grid_object_ok Rops tols trims su sv k s g) ->
  let u0 := gu su k i in let u1 := gu su k (i + 1) in let v0 := gu sv k j in let v1 := gu sv k (j + 1) in
  let c1 := (j + i * b)%nat in let c2 := (j + (i + 1) * b)%nat in
  let c3 := (j + 1 + (i + 1) * b)%nat in let c4 := (j + 1 + i * b)%nat in
  u0 < u1 /\ v0 < v1 /\
  (c1 < length s /\ c2 < length s /\ c3 < length s /\ c4 < length s)%nat /\
  (vuv (vget Rops s c1) = [u0; v0] /\ vuv (vget Rops s c2) = [u1; v0] /\
   vuv (vget Rops s c3) = [u1; v1] /\ vuv (vget Rops s c4) = [u0; v1]) /\
  (fhist Rops tols trims u0 v0 (vflags (vget Rops s c1)) /\ fhist Rops tols trims u1 v0 (vflags (vget Rops s c2)) /\
   fhist Rops tols trims u1 v1 (vflags (vget Rops s c3)) /\ fhist Rops tols trims u0 v1 (vflags (vget Rops s c4))) /\
  (vdata (vget Rops s c1) = Some (grid_point_index sv k b c1) /\ vdata (vget Rops s c2) = Some (grid_point_index sv k b c2) /\
   vdata (vget Rops s c3) = Some (grid_point_index sv k b c3) /\ vdata (vget Rops s c4) = Some (grid_point_index sv k b c4)).
Proof.
  cbv zeta. intros Hsu Hsv Hk [Hi Hj] Hg. cbn [fst snd] in Hi, Hj.
  set (a := varr_size su k) in *. set (b := varr_size sv k) in *.
  destruct (cell_corners_distinct a b i j ltac:(lia) Hi Hj) as [_ [_ [Q1 [Q2 [Q3 Q4]]]]].
  assert (Hone : forall i' j', (j' < b)%nat -> (j' + i' * b < a * b)%nat ->
            (j' + i' * b < length s)%nat /\ vuv (vget Rops s (j' + i' * b)) = [gu su k i'; gu sv k j'] /\
            fhist Rops tols trims (gu su k i') (gu sv k j') (vflags (vget Rops s (j' + i' * b))) /\
            vdata (vget Rops s (j' + i' * b)) = Some (grid_point_index sv k b (j' + i' * b))).
  { intros i' j' Hj' Hlt. destruct (Hg _ Hlt) as [G1 [_ [G3 [G4 G5]]]]. fold b in G3, G4.
    destruct (corner_divmod b i' j' Hj') as [D1 D2]. rewrite D1, D2 in G4. unfold vertex_uv in G4. cbn [fst snd] in G4.
    injection G4 as G4u G4v. fold (gu su k i') in G4u. fold (gu sv k j') in G4v. rewrite G4u, G4v in G5.
    unfold vuv. rewrite G4u, G4v. auto. }
  destruct (Hone i j ltac:(lia) Q1) as [A1 [A2 [A3 A4]]].
  destruct (Hone (i + 1)%nat j ltac:(lia) Q2) as [B1 [B2 [B3 B4]]].
  destruct (Hone (i + 1)%nat (j + 1)%nat ltac:(lia) Q3) as [C1 [C2 [C3 C4]]].
  destruct (Hone i (j + 1)%nat ltac:(lia) Q4) as [D1 [D2 [D3 D4]]].
  split; [apply gu_step; assumption|]. split; [apply gu_step; assumption|]. auto 20.
Qed.

(* [G] part 3a: ANY trims.  Every returned triangle comes from one cell (i, j) of the vertex array; its three vertices lie
   in that cell enlarged by the code's tolerance (tol * side for the accepted intersection parameters + tol for the snap
   to 0 / 1); its centre of mass is a point that the exact decision pt_trimmed does not trim.  Hence every point of a kept
   triangle is within one (enlarged) cell of a point of the exact untrimmed region: trim_mesh_triangle_points. *)
Theorem trim_mesh_triangles_local npts su sv k vs ts :
  0 <= tol -> make_trim_mesh Rops rtol tol tols trims npts su sv k = Ok (vs, ts) ->
  let a := varr_size su k in let b := varr_size sv k in
  forall id x y z, In (id, (x, y, z)) ts ->
  exists i j, (i < a - 1)%nat /\ (j < b - 1)%nat /\
    let u0 := gu su k i in let u1 := gu su k (i + 1) in let v0 := gu sv k j in let v1 := gu sv k (j + 1) in
    u0 < u1 /\ v0 < v1 /\ (x < length vs /\ y < length vs /\ z < length vs)%nat /\
    forall d, let P := fun n => snd (nth n vs d) in
      near_rect tol u0 u1 v0 v1 (P x) /\ near_rect tol u0 u1 v0 v1 (P y) /\ near_rect tol u0 u1 v0 v1 (P z) /\
      pt_trimmed trims ((fst (P x) + fst (P y) + fst (P z)) / 3) ((snd (P x) + snd (P y) + snd (P z)) / 3) = false.
Proof.
  intros Htol H. cbv zeta. intros id x y z Hin.
  destruct (trim_mesh_anatomy Rops rtol tol tols trims npts su sv k vs ts H) as [Hk [Hsu [Hsv _]]].
  destruct (trim_mesh_decomposition Rops rtol tol tols trims npts su sv k vs ts H) as [Ets [Hm [Hmem [Hcall _]]]].
  cbv zeta in *. set (a := varr_size su k) in *. set (b := varr_size sv k) in *.
  set (num := trim_num Rops rtol tol tols trims su sv k) in *.
  apply Hmem in Hin. destruct Hin as [c [[i0 [[x0 y0] z0]] [Hc [Ht E]]]]. injection E as -> -> -> ->.
  destruct (Hcall c Hc) as [Hcell [Hgrid Hv]]. specialize (Hv i0 x0 y0 z0 Ht). cbv zeta in Hv.
  destruct Hv as [[X1 [X2 X3]] [[Y1 [Y2 Y3]] [Z1 [Z2 Z3]]]].
  destruct c as [[[[i j] s] vi] ti]. cbn [call_cell call_store fst snd] in *.
  destruct (trim_call_cell_R su sv k s i j Hsu Hsv Hk Hcell Hgrid) as [Hu [Hv [[L1 [L2 [L3 L4]]] [[P1 [P2 [P3 P4]]] _]]]].
  fold a b in Hu, Hv, L1, L2, L3, L4, P1, P2, P3, P4.
  exists i, j. destruct Hcell as [Hi Hj]. cbn [fst snd] in Hi, Hj. split; [exact Hi|]. split; [exact Hj|]. cbv zeta.
  split; [exact Hu|]. split; [exact Hv|]. split; [auto|].
  set (cc := ((i, j), s, vi, ti)) in *.
  destruct (call_res tsl b cc) as [[s2 tvs] keep] eqn:Er.
  assert (E2 : call_out_store tsl b cc = s2) by (unfold call_out_store; rewrite Er; reflexivity).
  assert (E4 : call_ts tsl b cc = keep) by (unfold call_ts; rewrite Er; reflexivity).
  rewrite E2 in *. rewrite E4 in Ht.
  unfold call_res, cc, call_store, call_cell, call_vi, call_ti in Er. cbn [fst snd cell_corners] in Er.
  destruct (trim_cell_triangles_in_cell rtol tol tols trims s _ _ _ _ vi ti _ _ _ _ Hu Hv L1 L2 L3 L4 P1 P2 P3 P4
              s2 tvs keep Htol Er i0 x0 y0 z0 Ht) as [_ [_ [_ [N1 [N2 N3]]]]].
  destruct (trim_call_spec Rops rtol tol tols trims s _ _ _ _ vi ti s2 tvs keep Er) as [_ [_ [_ [_ [_ [_ [_ Hkept]]]]]]].
  specialize (Hkept _ Ht). rewrite tri_kept_centre in Hkept. apply negb_true_iff in Hkept.
  intros d. cbv zeta. rewrite (X3 d), (Y3 d), (Z3 d). cbn [fst snd]. unfold near_rect. cbn [fst snd].
  unfold near_cell in N1, N2, N3. auto.
Qed.

(* every point of a returned triangle (convex combination of its vertices) lies in the enlarged cell as well *)
Lemma near_rect_convex tol' u0 u1 v0 v1 p q r al be ga :
  near_rect tol' u0 u1 v0 v1 p -> near_rect tol' u0 u1 v0 v1 q -> near_rect tol' u0 u1 v0 v1 r ->
  0 <= al -> 0 <= be -> 0 <= ga -> al + be + ga = 1 ->
  near_rect tol' u0 u1 v0 v1 (al * fst p + be * fst q + ga * fst r, al * snd p + be * snd q + ga * snd r).
Proof.
  unfold near_rect. cbn [fst snd]. intros [[P1 P2] [P3 P4]] [[Q1 Q2] [Q3 Q4]] [[R1 R2] [R3 R4]] Ha Hb Hg E.
  set (lo := u0 - (tol' * (u1 - u0) + tol')) in *. set (hi := u1 + (tol' * (u1 - u0) + tol')) in *.
  set (lo' := v0 - (tol' * (v1 - v0) + tol')) in *. set (hi' := v1 + (tol' * (v1 - v0) + tol')) in *.
  clearbody lo hi lo' hi'.
  assert (G : forall l h a b c, l <= a <= h -> l <= b <= h -> l <= c <= h -> l <= al * a + be * b + ga * c <= h).
  { intros l h a b c [A1 A2] [B1 B2] [C1 C2].
    pose proof (Rmult_le_compat_l al _ _ Ha A1). pose proof (Rmult_le_compat_l al _ _ Ha A2).
    pose proof (Rmult_le_compat_l be _ _ Hb B1). pose proof (Rmult_le_compat_l be _ _ Hb B2).
    pose proof (Rmult_le_compat_l ga _ _ Hg C1). pose proof (Rmult_le_compat_l ga _ _ Hg C2).
    replace l with ((al + be + ga) * l) by (rewrite E; ring). replace h with ((al + be + ga) * h) by (rewrite E; ring).
    lra. }
  split; apply G; split; assumption.
Qed.

(* [G] part 3a, metric form: every point of every kept triangle is within one cell size (1 + 2 tol) * side + 2 tol, in u
   and in v, of a point (the triangle's centre) that is not trimmed by the exact decision *)
Theorem trim_mesh_triangle_points npts su sv k vs ts :
  0 <= tol -> make_trim_mesh Rops rtol tol tols trims npts su sv k = Ok (vs, ts) ->
  let a := varr_size su k in let b := varr_size sv k in
  forall id x y z d, In (id, (x, y, z)) ts ->
  let P := fun n => snd (nth n vs d) in
  exists i j cu cv, (i < a - 1)%nat /\ (j < b - 1)%nat /\ pt_trimmed trims cu cv = false /\
    forall al be ga, 0 <= al -> 0 <= be -> 0 <= ga -> al + be + ga = 1 ->
      let pu := al * fst (P x) + be * fst (P y) + ga * fst (P z) in
      let pv := al * snd (P x) + be * snd (P y) + ga * snd (P z) in
      Rabs (pu - cu) <= (1 + 2 * tol) * (gu su k (i + 1) - gu su k i) + 2 * tol /\
      Rabs (pv - cv) <= (1 + 2 * tol) * (gu sv k (j + 1) - gu sv k j) + 2 * tol.
Proof.
  intros Htol H. cbv zeta. intros id x y z d Hin.
  destruct (trim_mesh_triangles_local npts su sv k vs ts Htol H id x y z Hin) as [i [j [Hi [Hj Hrest]]]].
  cbv zeta in Hrest. destruct Hrest as [Hu [Hv [_ Hd]]]. destruct (Hd d) as [Nx [Ny [Nz Hc]]].
  set (P := fun n => snd (nth n vs d)) in *.
  exists i, j, ((fst (P x) + fst (P y) + fst (P z)) / 3), ((snd (P x) + snd (P y) + snd (P z)) / 3).
  split; [exact Hi|]. split; [exact Hj|]. split; [exact Hc|].
  intros al be ga Ha Hb Hg E.
  pose proof (near_rect_convex _ _ _ _ _ _ _ _ al be ga Nx Ny Nz Ha Hb Hg E) as Np.
  pose proof (near_rect_convex _ _ _ _ _ _ _ _ (1 / 3) (1 / 3) (1 / 3) Nx Ny Nz ltac:(lra) ltac:(lra) ltac:(lra) ltac:(lra)) as Nc.
  unfold near_rect in Np, Nc. cbn [fst snd] in Np, Nc. destruct Np as [[A1 A2] [A3 A4]]. destruct Nc as [[B1 B2] [B3 B4]].
  subst P. cbv beta. split; apply Rabs_le; lra.
Qed.

(* [G] part 3b: closed trims, 0 <= tols.  A cell whose tols-neighbourhood no trim segment meets is decided exactly and as a
   whole: the decision pt_trimmed is the same at all its points, its call returns nothing if that decision is `trimmed` and
   exactly the two plain triangles (c1,c2,c3), (c1,c3,c4) otherwise, numbered ti, ti+1 with ti = number of triangles
   emitted by the cells before it; in the result these two triangles sit between the contributions of the cells before
   and after it, and their vertices are the four grid vertices of the cell (point index, exact grid parameters) *)
Theorem trim_mesh_untouched_cell npts su sv k vs ts :
  0 <= tols -> trims_closed trims -> make_trim_mesh Rops rtol tol tols trims npts su sv k = Ok (vs, ts) ->
  let a := varr_size su k in let b := varr_size sv k in
  forall tr1 c tr2, trace su sv k = tr1 ++ c :: tr2 ->
  let i := fst (call_cell c) in let j := snd (call_cell c) in
  let u0 := gu su k i in let u1 := gu su k (i + 1) in let v0 := gu sv k j in let v1 := gu sv k (j + 1) in
  trims_miss_rect trims (u0 - tols) (u1 + tols) (v0 - tols) (v1 + tols) ->
  let c1 := (j + i * b)%nat in let c2 := (j + (i + 1) * b)%nat in
  let c3 := (j + 1 + (i + 1) * b)%nat in let c4 := (j + 1 + i * b)%nat in
  let ti := call_ti c in
  let num := trim_num Rops rtol tol tols trims su sv k in
  let ren := fun t : nat * tri => let '(n, (x, y, z)) := t in (n, (num x, num y, num z)) in
  (i < a - 1)%nat /\ (j < b - 1)%nat /\ u0 < u1 /\ v0 < v1 /\
  (forall x y, u0 - tols <= x <= u1 + tols -> v0 - tols <= y <= v1 + tols -> pt_trimmed trims x y = pt_trimmed trims u0 v0) /\
  ti = length (flat_map (call_ts tsl b) tr1) /\
  call_ts tsl b c = (if pt_trimmed trims u0 v0 then [] else [(ti, (c1, c2, c3)); (S ti, (c1, c3, c4))]) /\
  ts = flat_map (fun c => map ren (call_ts tsl b c)) tr1 ++
       (if pt_trimmed trims u0 v0 then [] else [(ti, (num c1, num c2, num c3)); (S ti, (num c1, num c3, num c4))]) ++
       flat_map (fun c => map ren (call_ts tsl b c)) tr2 /\
  (pt_trimmed trims u0 v0 = false -> forall d,
     nth (num c1) vs d = (Some (grid_point_index sv k b c1), (u0, v0)) /\
     nth (num c2) vs d = (Some (grid_point_index sv k b c2), (u1, v0)) /\
     nth (num c3) vs d = (Some (grid_point_index sv k b c3), (u1, v1)) /\
     nth (num c4) vs d = (Some (grid_point_index sv k b c4), (u0, v1)) /\
     (num c1 < length vs /\ num c2 < length vs /\ num c3 < length vs /\ num c4 < length vs)%nat).
Proof.
  intros Htols Hclosed H. cbv zeta. intros tr1 c tr2 Etr Hmiss.
  destruct (trim_mesh_anatomy Rops rtol tol tols trims npts su sv k vs ts H)
    as [Hk [Hsu [Hsv [s [final [Est [Efi [Hc [Hm [Ef [Evs [Ets [Hnd [Hused [Hlt [HI [Hle Hok]]]]]]]]]]]]]]]]].
  destruct (trim_mesh_decomposition Rops rtol tol tols trims npts su sv k vs ts H) as [Ets' [_ [_ [Hcall _]]]].
  cbv zeta in *. set (a := varr_size su k) in *. set (b := varr_size sv k) in *.
  set (num := trim_num Rops rtol tol tols trims su sv k) in *.
  assert (Hcin : In c (trace su sv k)) by (rewrite Etr; apply in_or_app; right; left; reflexivity).
  destruct (Hcall c Hcin) as [Hcell [Hgrid Hv]].
  pose proof (trim_trace_ti Rops rtol tol tols trims npts su sv k vs ts tr1 c tr2 H Etr) as Eti. fold b in Eti.
  destruct c as [[[[i j] sc] vi] ti]. cbn [call_cell call_store call_ti fst snd] in *.
  destruct (trim_call_cell_R su sv k sc i j Hsu Hsv Hk Hcell Hgrid)
    as [Hu [Hv' [[L1 [L2 [L3 L4]]] [[P1 [P2 [P3 P4]]] [[F1 [F2 [F3 F4]]] [D1 [D2 [D3 D4]]]]]]]].
  fold a b in Hu, Hv', L1, L2, L3, L4, P1, P2, P3, P4, F1, F2, F3, F4, D1, D2, D3, D4.
  set (u0 := gu su k i) in *. set (u1 := gu su k (i + 1)) in *. set (v0 := gu sv k j) in *. set (v1 := gu sv k (j + 1)) in *.
  set (c1 := (j + i * b)%nat) in *. set (c2 := (j + (i + 1) * b)%nat) in *.
  set (c3 := (j + 1 + (i + 1) * b)%nat) in *. set (c4 := (j + 1 + i * b)%nat) in *.
  assert (Hfl : Forall (fun c => vflags (vget Rops sc c) = fff \/ vflags (vget Rops sc c) = pt_flags trims u0 v0) [c1; c2; c3; c4]).
  { constructor; [|constructor; [|constructor; [|constructor; [|constructor]]]];
      [apply (fhist_untouched tols trims u0 u1 v0 v1 u0 v0)|apply (fhist_untouched tols trims u0 u1 v0 v1 u1 v0)|
       apply (fhist_untouched tols trims u0 u1 v0 v1 u1 v1)|apply (fhist_untouched tols trims u0 u1 v0 v1 u0 v1)];
      try assumption; lra. }
  destruct (trim_cell_untouched_exact rtol tol tols trims sc c1 c2 c3 c4 vi ti u0 u1 v0 v1 Hu Hv' L1 L2 L3 L4 P1 P2 P3 P4
              Htols Hclosed Hmiss Hfl) as [Hconst Hres].
  set (cc := ((i, j), sc, vi, ti)) in *.
  assert (Ects : call_ts tsl b cc = if pt_trimmed trims u0 v0 then [] else [(ti, (c1, c2, c3)); (S ti, (c1, c3, c4))]).
  { unfold call_ts, call_res, cc, call_store, call_cell, call_vi, call_ti. cbn [fst snd cell_corners].
    change (cell_corners b i j) with [c1; c2; c3; c4]. rewrite Hres. destruct (pt_trimmed trims u0 v0); reflexivity. }
  destruct Hcell as [Hi Hj]. cbn [fst snd] in Hi, Hj.
  split; [exact Hi|]. split; [exact Hj|]. split; [exact Hu|]. split; [exact Hv'|]. split; [exact Hconst|].
  split; [exact Eti|]. split; [exact Ects|]. split.
  - rewrite Ets', Etr, flat_map_app. cbn [flat_map]. rewrite Ects. destruct (pt_trimmed trims u0 v0); reflexivity.
  - intros Hnt d. rewrite Hnt in Ects.
    assert (T1 : In (ti, (c1, c2, c3)) (call_ts tsl b cc)) by (rewrite Ects; left; reflexivity).
    assert (T2 : In (ti + 1, (c1, c3, c4))%nat (call_ts tsl b cc)) by (rewrite Ects; right; left; f_equal; lia).
    destruct (Hv _ _ _ _ T1) as [[X1 [X2 X3]] [[Y1 [Y2 Y3]] [Z1 [Z2 Z3]]]].
    destruct (Hv _ _ _ _ T2) as [_ [_ [W1 [W2 W3]]]].
    (* position and data of a renumbered corner: through the final store *)
    assert (Hone : forall o uo vo po, (o < length sc)%nat -> (num o < length vs)%nat ->
              vuv (vget Rops sc o) = [uo; vo] -> vdata (vget Rops sc o) = Some po ->
              (forall d, snd (nth (num o) vs d) = (vu (vget Rops (call_out_store tsl b cc) o), vv (vget Rops (call_out_store tsl b cc) o))) ->
              In o final -> nth (num o) vs d = (Some po, (uo, vo))).
    { intros o uo vo po Lo Ln Puv Pd Hs Hf.
      assert (Enum : num o = new_id (fun o => vid (vget Rops s o)) final o).
      { unfold num, trim_num. rewrite <- Est, <- Efi. reflexivity. }
      destruct (final_index (fun o => vid (vget Rops s o)) final o Hf) as [G1 G2].
      rewrite Enum, Evs, nth_map_0 by exact G1. rewrite G2. unfold vertex_of.
      rewrite Forall_forall in Hok. destruct (Hok cc Hcin) as [_ [_ [_ [[Hl1 He1] [[Hl2 He2] _]]]]].
      cbn [call_store cc fst snd] in Hl1, He1.
      assert (Hev : evolves Rops tols trims (vget Rops sc o) (vget Rops s o)).
      { eapply evolves_trans; [apply He1; exact Lo|apply He2; lia]. }
      destruct (evolves_attrs Rops tols trims _ _ Hev) as [_ [Q2 [Q3 Q4]]].
      unfold vuv in Puv. injection Puv as Pu Pv. rewrite Q2, Q3, Q4, Pu, Pv, Pd. reflexivity. }
    assert (Hfin : forall o, In o [c1; c2; c3; c4] -> In o final).
    { intros o Ho. apply Hused. unfold trim_raw_tris. fold b.
      destruct Ho as [<-|[<-|[<-|[<-|[]]]]].
      - exists (ti, (c1, c2, c3)). split; [apply in_flat_map; exists cc; auto|cbn; auto].
      - exists (ti, (c1, c2, c3)). split; [apply in_flat_map; exists cc; auto|cbn; auto].
      - exists (ti, (c1, c2, c3)). split; [apply in_flat_map; exists cc; auto|cbn; auto].
      - exists ((ti + 1)%nat, (c1, c3, c4)). split; [apply in_flat_map; exists cc; auto|cbn; auto]. }
    split; [apply Hone; try assumption; apply Hfin; cbn; auto|].
    split; [apply Hone; try assumption; apply Hfin; cbn; auto|].
    split; [apply Hone; try assumption; apply Hfin; cbn; auto|].
    split; [apply Hone; try assumption; apply Hfin; cbn; auto|]. auto.
Qed.
End MeshR.

(* ================================================================== Part E: triangle ids; examples *)
(* [G] all cells untouched => consecutive triangle ids *)
Theorem trim_mesh_tri_ids_untouched rtol tol tols trims npts su sv k vs ts :
  0 <= tols -> trims_closed trims -> make_trim_mesh Rops rtol tol tols trims npts su sv k = Ok (vs, ts) ->
  (forall c, In c (trim_trace Rops rtol tol tols trims su sv k) ->
     let i := fst (call_cell c) in let j := snd (call_cell c) in
     trims_miss_rect trims (gu su k i - tols) (gu su k (i + 1) + tols) (gu sv k j - tols) (gu sv k (j + 1) + tols)) ->
  map fst ts = seq 0 (length ts).
Proof.
  intros Ht Hc H Hall. apply (trim_mesh_tri_ids Rops rtol tol tols trims npts su sv k vs ts H).
  apply Forall_forall. intros c Hin. destruct (in_split _ _ Hin) as [tr1 [tr2 E]].
  pose proof (trim_mesh_untouched_cell rtol tol tols trims npts su sv k vs ts Ht Hc H tr1 c tr2 E (Hall c Hin)) as X.
  cbv zeta in X. destruct X as [_ [_ [_ [_ [_ [_ [-> _]]]]]]].
  destruct (pt_trimmed trims _ _); reflexivity.
Qed.

Lemma make_trim_mesh_ok {T} (K : ops T) rtol tol tols trims npts su sv k :
  k <> 0%nat -> (2 <= su)%nat -> (2 <= sv)%nat ->
  (grid_point_index sv k (varr_size sv k) (varr_size su k * varr_size sv k - 1) < npts)%nat ->
  exists vs ts, make_trim_mesh K rtol tol tols trims npts su sv k = Ok (vs, ts).
Proof.
  intros Hk Hu Hv Hn. unfold make_trim_mesh.
  apply Nat.eqb_neq in Hk. rewrite Hk. assert (E1 : Nat.leb su 1 = false) by (apply Nat.leb_gt; lia).
  assert (E2 : Nat.leb sv 1 = false) by (apply Nat.leb_gt; lia). rewrite E1, E2. cbn [orb]. cbv zeta.
  apply Nat.ltb_lt in Hn. rewrite Hn. cbn [negb].
  destruct (mesh_loop _ _ _ _) as [[[[s vl] ts] vi] ti]. eexists. eexists. reflexivity.
Qed.

Lemma pt_trimmed_ordinary trim x y : treversed trim = false -> pt_trimmed [trim] x y = wn_poly Rops [x; y] (tpts trim).
Proof.
  intros Hr. unfold pt_trimmed, pt_flags. rewrite flag_update_fold. cbn [fold_left]. unfold flag_step, fff. rewrite Hr.
  destruct (wn_poly Rops [x; y] (tpts trim)); reflexivity.
Qed.

(* witness: one cell (2 x 2 samples), an ordinary trim around the centre (2/3, 1/3) of the first fan triangle only *)
Definition ctr_trim : @trimc R := mkTrim false [[3 / 5; 1 / 5]; [4 / 5; 1 / 5]; [4 / 5; 2 / 5]; [3 / 5; 2 / 5]; [3 / 5; 1 / 5]].
Lemma ctr_wn x y : wn_poly Rops [x; y] (tpts ctr_trim) = true <-> (3 / 5 <= x < 4 / 5 /\ 1 / 5 <= y < 2 / 5).
Proof. unfold ctr_trim. cbn [tpts]. apply wn_rectangle; lra. Qed.
Lemma ctr_wn_false x y : ~ (3 / 5 <= x < 4 / 5 /\ 1 / 5 <= y < 2 / 5) -> wn_poly Rops [x; y] (tpts ctr_trim) = false.
Proof. intros H. destruct (wn_poly Rops [x; y] (tpts ctr_trim)) eqn:E; [|reflexivity]. apply ctr_wn in E. contradiction. Qed.
Lemma gu_2_1 : gu 2 1 0 = 0 /\ gu 2 1 1 = 1.
Proof. unfold gu. rewrite !vertex_u_is_grid_parameter by lia. split; simpl; lra. Qed.

Lemma witness_call :
  snd (surface_trim_tessellate Rops 1000 0 0 [ctr_trim] (trim_s0 Rops 2 2 1 2 2) [0; 2; 3; 1]%nat 4%nat 0%nat) =
  [(1%nat, (0, 3, 1)%nat)].
Proof.
  set (s0 := trim_s0 Rops 2 2 1 2 2). destruct gu_2_1 as [G0 G1].
  assert (Hs0 : forall g, (g < 4)%nat -> vget Rops s0 g =
            mkV g (Some (grid_point_index 2 1 2 g)) (gu 2 1 (g / 2)) (gu 2 1 (g mod 2)) false false false).
  { intros g Hg. unfold s0. rewrite trim_s0_nth by (simpl; lia). reflexivity. }
  assert (S_0 : vget Rops s0 0 = mkV 0 (Some (grid_point_index 2 1 2 0)) 0 0 false false false).
  { rewrite (Hs0 0%nat) by lia. change (0 / 2)%nat with 0%nat. change (0 mod 2)%nat with 0%nat. rewrite G0. reflexivity. }
  assert (S_1 : vget Rops s0 1 = mkV 1 (Some (grid_point_index 2 1 2 1)) 0 1 false false false).
  { rewrite (Hs0 1%nat) by lia. change (1 / 2)%nat with 0%nat. change (1 mod 2)%nat with 1%nat. rewrite G0, G1. reflexivity. }
  assert (S_2 : vget Rops s0 2 = mkV 2 (Some (grid_point_index 2 1 2 2)) 1 0 false false false).
  { rewrite (Hs0 2%nat) by lia. change (2 / 2)%nat with 1%nat. change (2 mod 2)%nat with 0%nat. rewrite G0, G1. reflexivity. }
  assert (S_3 : vget Rops s0 3 = mkV 3 (Some (grid_point_index 2 1 2 3)) 1 1 false false false).
  { rewrite (Hs0 3%nat) by lia. change (3 / 2)%nat with 1%nat. change (3 mod 2)%nat with 1%nat. rewrite G1. reflexivity. }
  assert (D : distinct4 0 2 3 1) by (unfold distinct4; repeat split; discriminate).
  assert (L : length s0 = 4%nat) by (unfold s0; rewrite trim_s0_length; reflexivity).
  destruct (cls_fold4 Rops 0 [ctr_trim] s0 0 2 3 1 D) as [HL [E1 [E2 [E3 [E4 _]]]]]; try (rewrite L; lia).
  set (s1 := cls_fold Rops 0 [ctr_trim] [0; 2; 3; 1]%nat s0) in *.
  assert (Hcls : forall idx o, vflags o = fff -> corner_test Rops 0 idx o ctr_trim = false ->
            vinside (classify_vertex Rops 0 [ctr_trim] idx o) = false).
  { intros idx o Ho Ht. destruct (classify_spec Rops 0 [ctr_trim] idx o) as [Hf _].
    rewrite Ho, flag_update_fold in Hf. cbn [fold_left] in Hf. unfold flag_step, fff in Hf. rewrite Ht in Hf.
    cbn [treversed ctr_trim] in Hf. unfold vflags in Hf. injection Hf as -> _ _. reflexivity. }
  assert (I1 : vinside (vget Rops s1 0) = false).
  { rewrite E1. apply Hcls; rewrite S_0; [reflexivity|]. unfold corner_test.
    cbn [treversed ctr_trim vu vv vtol fst snd]. unfold oneg. rsimp. apply ctr_wn_false. lra. }
  assert (I2 : vinside (vget Rops s1 2) = false).
  { rewrite E2. apply Hcls; rewrite S_2; [reflexivity|]. unfold corner_test.
    cbn [treversed ctr_trim vu vv vtol fst snd]. unfold oneg. rsimp. apply ctr_wn_false. lra. }
  assert (I3 : vinside (vget Rops s1 3) = false).
  { rewrite E3. apply Hcls; rewrite S_3; [reflexivity|]. unfold corner_test.
    cbn [treversed ctr_trim vu vv vtol fst snd]. unfold oneg. rsimp. apply ctr_wn_false. lra. }
  assert (I4 : vinside (vget Rops s1 1) = false).
  { rewrite E4. apply Hcls; rewrite S_1; [reflexivity|]. unfold corner_test.
    cbn [treversed ctr_trim vu vv vtol fst snd]. unfold oneg. rsimp. apply ctr_wn_false. lra. }
  assert (UV : forall idx o, vu (classify_vertex Rops 0 [ctr_trim] idx o) = vu o /\ vv (classify_vertex Rops 0 [ctr_trim] idx o) = vv o).
  { intros idx o. destruct (classify_spec Rops 0 [ctr_trim] idx o) as [_ [-> [-> _]]]. auto. }
  assert (P0 : vu (vget Rops s1 0) = 0 /\ vv (vget Rops s1 0) = 0).
  { rewrite E1. destruct (UV 0%nat (vget Rops s0 0)) as [-> ->]. rewrite S_0. auto. }
  assert (P2 : vu (vget Rops s1 2) = 1 /\ vv (vget Rops s1 2) = 0).
  { rewrite E2. destruct (UV 1%nat (vget Rops s0 2)) as [-> ->]. rewrite S_2. auto. }
  assert (P3 : vu (vget Rops s1 3) = 1 /\ vv (vget Rops s1 3) = 1).
  { rewrite E3. destruct (UV 2%nat (vget Rops s0 3)) as [-> ->]. rewrite S_3. auto. }
  assert (P1 : vu (vget Rops s1 1) = 0 /\ vv (vget Rops s1 1) = 1).
  { rewrite E4. destruct (UV 3%nat (vget Rops s0 1)) as [-> ->]. rewrite S_1. auto. }
  destruct P0 as [P0u P0v]. destruct P1 as [P1u P1v]. destruct P2 as [P2u P2v]. destruct P3 as [P3u P3v].
  rewrite (trim_cell_all_outside Rops 1000 0 0 [ctr_trim] s0 0 2 3 1 4 0 I1 I2 I3 I4). fold s1. cbn [snd filter].
  rewrite !tri_kept_centre. rewrite P0u, P0v, P1u, P1v, P2u, P2v, P3u, P3v.
  rewrite !pt_trimmed_ordinary by reflexivity.
  rewrite (proj2 (ctr_wn _ _)) by lra. rewrite ctr_wn_false by lra. reflexivity.
Qed.

(* the claim "triangle ids are consecutive" is FALSE for the trimmed tessellation: a cell whose first candidate triangle is
   dropped by the centre test returns the second one with its candidate id, and the counter advances by the number of
   returned triangles only (so ids can also repeat in the next cell).  The code behaves the same (tri.id = tidx + position
   in the candidate list; tri_idx += len(tlst)); fix_numbering renumbers vertices only. *)
Theorem trim_mesh_tri_ids_refuted :
  exists rtol tol tols trims npts su sv k vs ts,
    make_trim_mesh Rops rtol tol tols trims npts su sv k = Ok (vs, ts) /\ map fst ts <> seq 0 (length ts).
Proof.
  destruct (make_trim_mesh_ok Rops 1000 0 0 [ctr_trim] 4 2 2 1) as [vs [ts H]]; try lia; [vm_compute; lia|].
  exists 1000, 0, 0, [ctr_trim], 4%nat, 2%nat, 2%nat, 1%nat, vs, ts. split; [exact H|].
  destruct (trim_mesh_structure Rops 1000 0 0 [ctr_trim] 4 2 2 1 vs ts H) as [_ [_ [_ [E1 E2]]]].
  assert (Eraw : trim_raw_tris Rops 1000 0 0 [ctr_trim] 2 2 1 = [(1, (0, 3, 1))]%nat).
  { unfold trim_raw_tris, trim_trace. cbv zeta. change (varr_size 2 1) with 2%nat. change (cells 2 2) with [(0, 0)]%nat.
    cbn [mesh_trace flat_map fst snd]. rewrite app_nil_r.
    unfold call_ts, call_res, call_store, call_cell, call_vi, call_ti. cbn [fst snd].
    change (cell_corners 2 0 0) with [0; 2; 3; 1]%nat. exact witness_call. }
  rewrite E1, E2, Eraw. cbn. discriminate.
Qed.

(* ------------------------------------------------------------------ the hypotheses are satisfiable *)
Lemma gu_3_1 : gu 3 1 0 = 0 /\ gu 3 1 1 = 1 / 2.
Proof. unfold gu. rewrite !vertex_u_is_grid_parameter by lia. split; simpl; lra. Qed.

(* 3 x 3 samples, spacing 1, one closed ordinary trim far away from the parameter square: the result exists, and its first
   two triangles are the plain triangles of cell (0,0) on the grid vertices with parameters (0,0), (1/2,0), (1/2,1/2), (0,1/2)
   and point indices 0, 3, 4, 1 (all hypotheses of trim_mesh_untouched_cell / _triangles_local hold) *)
Example trim_mesh_example :
  exists vs ts rest n1 n2 n3 n4,
    make_trim_mesh Rops 1000 0 (1 / 2) [far_trim] 9 3 3 1 = Ok (vs, ts) /\ 0 <= 1 / 2 /\ trims_closed [far_trim] /\
    ts = (0%nat, (n1, n2, n3)) :: (1%nat, (n1, n3, n4)) :: rest /\
    forall d, nth n1 vs d = (Some 0%nat, (0, 0)) /\ nth n2 vs d = (Some 3%nat, (1 / 2, 0)) /\
              nth n3 vs d = (Some 4%nat, (1 / 2, 1 / 2)) /\ nth n4 vs d = (Some 1%nat, (0, 1 / 2)).
Proof.
  destruct (make_trim_mesh_ok Rops 1000 0 (1 / 2) [far_trim] 9 3 3 1) as [vs [ts H]]; try lia; [vm_compute; lia|].
  destruct gu_3_1 as [G0 G1].
  set (tsl := surface_trim_tessellate Rops 1000 0 (1 / 2) [far_trim]).
  set (st0 := (trim_s0 Rops 3 3 1 3 3, seq 0 9, @nil (nat * tri), 9%nat, 0%nat)).
  pose proof (trim_mesh_untouched_cell 1000 0 (1 / 2) [far_trim] 9 3 3 1 vs ts ltac:(lra) far_trim_closed H []
                ((0, 0)%nat, trim_s0 Rops 3 3 1 3 3, 9%nat, 0%nat)
                (mesh_trace tsl 3 [(0, 1); (1, 0); (1, 1)]%nat (mesh_step tsl 3 st0 (0, 0)%nat)) eq_refl) as X.
  cbv zeta in X. cbn [call_cell call_ti fst snd] in X. change (0 + 1)%nat with 1%nat in X. rewrite G0, G1 in X.
  specialize (X ltac:(apply far_trim_misses; lra)).
  assert (Hp : pt_trimmed [far_trim] 0 0 = false).
  { rewrite pt_trimmed_ordinary by reflexivity. apply far_trim_wn_false. lra. }
  destruct X as [_ [_ [_ [_ [_ [_ [_ [Ets Hv]]]]]]]]. rewrite Hp in Ets. cbn [flat_map app] in Ets.
  eexists vs, ts, _, _, _, _, _. split; [exact H|]. split; [lra|]. split; [exact far_trim_closed|].
  split; [exact Ets|]. intros d. destruct (Hv Hp d) as [V1 [V2 [V3 [V4 _]]]].
  change (varr_size 3 1) with 3%nat in V1, V2, V3, V4. auto.
Qed.

Print Assumptions trim_mesh_anatomy.
Print Assumptions trim_mesh_structure.
Print Assumptions trim_mesh_decomposition.
Print Assumptions trim_mesh_vertex_ids.
Print Assumptions trim_mesh_vertex_order.
Print Assumptions trim_mesh_tri_ids.
Print Assumptions trim_mesh_triangles_local.
Print Assumptions trim_mesh_triangle_points.
Print Assumptions trim_mesh_untouched_cell.
Print Assumptions trim_mesh_tri_ids_untouched.
Print Assumptions trim_mesh_tri_ids_refuted.
Print Assumptions trim_mesh_example.
