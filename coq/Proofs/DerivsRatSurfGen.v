(* C02 [G]: A4.4 (SurfaceEvaluatorRational.derivatives, Model.Derivs.rat_surface_derivs) satisfies the two-variable
   Leibniz identity of  A = w * S
       sum_{i<=k} sum_{j<=l} C(k,i) C(l,j) w^(i,j) S^(k-i,l-j) = A^(k,l)
   for EVERY requested order and every entry (k,l) of the computed square, every coordinate, on every input array SKLw whose
   entries have the right length and whose weight w^(0,0) is not zero.
   (Proofs/DerivsRatSurf.v has the same for orders 2 and 3 on a symbolic array.) *)
From Coq Require Import List Reals Lra Lia Arith Bool.
From NV Require Import Scalar.Ops Model.Common Model.Eval Model.Degree Model.Derivs Proofs.DerivsR Proofs.DerivsRatSurf.
Import ListNotations.
Open Scope R_scope.

(* ---- functional arrays ---- *)
Lemma u3_length {A} (l : list A) : forall i x, length (upd l i x) = length l.
Proof. induction l as [|a l IH]; intros [|i] x; cbn [upd length]; auto. Qed.
Lemma u3_nth_same {A} (l : list A) : forall i x d, (i < length l)%nat -> nth i (upd l i x) d = x.
Proof. induction l as [|a l IH]; intros [|i] x d H; cbn [upd length nth] in *; try lia; auto. apply IH. lia. Qed.
Lemma u3_nth_other {A} (l : list A) : forall i j x d, i <> j -> nth j (upd l i x) d = nth j l d.
Proof. induction l as [|a l IH]; intros [|i] [|j] x d H; cbn [upd nth]; try lia; auto. Qed.

Lemma get3_set3_same (m : list (list (list R))) k l x :
  (k < length m)%nat -> (l < length (nth k m []))%nat -> get3 (set3 m k l x) k l = x.
Proof. intros Hk Hl. unfold get3, set3. rewrite u3_nth_same by exact Hk. apply u3_nth_same. exact Hl. Qed.
Lemma get3_set3_other (m : list (list (list R))) k l x k' l' :
  (k' <> k \/ l' <> l) -> get3 (set3 m k l x) k' l' = get3 m k' l'.
Proof.
  intros H. unfold get3, set3. destruct (Nat.eq_dec k' k) as [->|Hne].
  - destruct (lt_dec k (length m)) as [Hk|Hk].
    + rewrite u3_nth_same by exact Hk. apply u3_nth_other. lia.
    + rewrite (nth_overflow (upd m k _)) by (rewrite u3_length; lia). rewrite (nth_overflow m) by lia. reflexivity.
  - rewrite u3_nth_other by lia. reflexivity.
Qed.

(* ---- the accumulation loops on one coordinate ---- *)
Lemma lsum_scale l a f : lsum l (fun i => a * f i) = a * lsum l f.
Proof. induction l as [|x l IH]; cbn [lsum]; [ring|]. rewrite IH. ring. Qed.
Lemma lsum_add l f g : lsum l (fun i => f i + g i) = lsum l f + lsum l g.
Proof. induction l as [|x l IH]; cbn [lsum]; [ring|]. rewrite IH. ring. Qed.

Lemma fold2_spec d c (s1 s2 : nat -> R) (D1 D2 : nat -> list R) : (c < d)%nat -> forall l v,
  length v = d -> (forall i, In i l -> length (D1 i) = d /\ length (D2 i) = d) ->
  let r := fold_left (fun v i => vsub_scaled Rops (s2 i) (vsub_scaled Rops (s1 i) v (D1 i)) (D2 i)) l v in
  length r = d /\ nth c r 0 = nth c v 0 - lsum l (fun i => s1 i * nth c (D1 i) 0 + s2 i * nth c (D2 i) 0).
Proof.
  intros Hc. induction l as [|a l IH]; intros v Hv HD; cbn [fold_left lsum].
  - split; [exact Hv|lra].
  - destruct (HD a ltac:(left; reflexivity)) as [Ha1 Ha2].
    destruct (IH (vsub_scaled Rops (s2 a) (vsub_scaled Rops (s1 a) v (D1 a)) (D2 a))) as [L E].
    + rewrite !vsub_scaled_length. lia.
    + intros i Hi. apply HD. right. exact Hi.
    + split; [exact L|]. rewrite E. rewrite !vsub_scaled_nth by (rewrite ?vsub_scaled_length; lia). lra.
Qed.

Lemma axpy_len (a : R) pt acc : length (axpy Rops a pt acc) = Nat.min (length acc) (length pt).
Proof. unfold axpy. rewrite map_length, combine_length. reflexivity. Qed.
Lemma axpy_nth_c (a : R) pt acc c : (c < length acc)%nat -> (c < length pt)%nat ->
  nth c (axpy Rops a pt acc) 0 = nth c acc 0 + a * nth c pt 0.
Proof.
  intros H1 H2. unfold axpy. rewrite (nth_map_in _ _ _ _ (0, 0)) by (rewrite combine_length; lia).
  rewrite combine_nth_lt by assumption. reflexivity.
Qed.

Lemma fold_axpy_spec d c (s : nat -> R) (D : nat -> list R) : (c < d)%nat -> forall l z,
  length z = d -> (forall j, In j l -> length (D j) = d) ->
  let r := fold_left (fun a j => axpy Rops (s j) (D j) a) l z in
  length r = d /\ nth c r 0 = nth c z 0 + lsum l (fun j => s j * nth c (D j) 0).
Proof.
  intros Hc. induction l as [|a l IH]; intros z Hz HD; cbn [fold_left lsum].
  - split; [exact Hz|lra].
  - assert (Ha : length (D a) = d) by (apply HD; left; reflexivity).
    destruct (IH (axpy Rops (s a) (D a) z)) as [L E].
    + rewrite axpy_len. lia.
    + intros j Hj. apply HD. right. exact Hj.
    + split; [exact L|]. rewrite E. rewrite axpy_nth_c by lia. lra.
Qed.

Lemma binom_k0 k : binom k 0 = 1%nat.
Proof. destruct k; reflexivity. Qed.

(* the (0,0) term and the first row / column split off *)
Lemma leibniz2_split (w s : nat -> nat -> R) k l :
  leibniz2 w s k l
  = w 0%nat 0%nat * s k l
    + lsum (seq 1 l) (fun j => INR (binom l j) * w 0%nat j * s k (l - j)%nat)
    + lsum (seq 1 k) (fun i => INR (binom k i) * w i 0%nat * s (k - i)%nat l
                               + INR (binom k i) * lsum (seq 1 l) (fun j => INR (binom l j) * w i j * s (k - i)%nat (l - j)%nat)).
Proof.
  unfold leibniz2. change (seq 0 (S k)) with (0%nat :: seq 1 k). cbn [lsum]. f_equal.
  - change (seq 0 (S l)) with (0%nat :: seq 1 l). cbn [lsum]. rewrite !binom_k0, !Nat.sub_0_r. f_equal.
    + cbn [INR]. ring.
    + apply lsum_ext. intros j _. cbn [INR]. ring.
  - apply lsum_ext. intros i _. change (seq 0 (S l)) with (0%nat :: seq 1 l). cbn [lsum].
    rewrite binom_k0, Nat.sub_0_r. rewrite <- lsum_scale. f_equal.
    + cbn [INR]. ring.
    + apply lsum_ext. intros j _. ring.
Qed.

(* ------------------------------------------------------------------------------------------------ *)
Section RatSurfLeibniz.
Variables (SKLw : list (list (list R))) (d order c : nat).
Hypothesis Hc : (c < d)%nat.
Hypothesis HLw : forall k l, (k <= order)%nat -> (l <= order)%nat -> length (get3 SKLw k l) = S d.

Definition W2 (i j : nat) : R := vlast Rops (get3 SKLw i j).
Definition A2 (k l : nat) : R := nth c (removelast (get3 SKLw k l)) 0.
Hypothesis Hw00 : W2 0 0 <> 0.
Notation bc k i := (binomial_coefficient Rops k i).

(* the value A4.4 writes into SKL[k][l], given the current array *)
Definition cell (SKL : list (list (list R))) (k l : nat) : list R :=
  let v0 := removelast (get3 SKLw k l) in
  let v1 := fold_left (fun v j => vsub_scaled Rops (bc l j * W2 0 j) v (get3 SKL k (l - j))) (seq 1 l) v0 in
  let v2 := fold_left (fun v i =>
               let va := vsub_scaled Rops (bc k i * W2 i 0) v (get3 SKL (k - i) l) in
               let w2 := fold_left (fun a j => axpy Rops (bc l j * W2 i j) (get3 SKL (k - i) (l - j)) a)
                                   (seq 1 l) (vzero Rops (Nat.pred (S d))) in
               vsub_scaled Rops (bc k i) va w2) (seq 1 k) v1 in
  map (fun t => t / W2 0 0) v2.

Lemma rat_surface_derivs_fold :
  rat_surface_derivs Rops (S d) SKLw order
  = fold_left (fun SKL k => fold_left (fun SKL l => set3 SKL k l (cell SKL k l)) (seq 0 (S order)) SKL)
      (seq 0 (S order)) (repeat (repeat (vzero Rops (S d)) (S order)) (S order)).
Proof. reflexivity. Qed.

(* the recursion: what an entry is in terms of the entries to its left / above *)
Definition rhs (s : nat -> nat -> R) (k l : nat) : R :=
  (A2 k l - lsum (seq 1 l) (fun j => bc l j * W2 0 j * s k (l - j)%nat)
          - lsum (seq 1 k) (fun i => bc k i * W2 i 0 * s (k - i)%nat l
                                     + bc k i * lsum (seq 1 l) (fun j => bc l j * W2 i j * s (k - i)%nat (l - j)%nat))) / W2 0 0.

Lemma rhs_ext s s' k l : (forall a b, (a <= k)%nat -> (b <= l)%nat -> (a <> k \/ b <> l) -> s a b = s' a b) -> rhs s k l = rhs s' k l.
Proof.
  intros H. unfold rhs. f_equal. f_equal; [f_equal|]; apply lsum_ext; intros i Hi; apply in_seq in Hi.
  - rewrite H by lia. reflexivity.
  - rewrite (H (k - i)%nat l) by lia. f_equal. f_equal. apply lsum_ext. intros j Hj. apply in_seq in Hj.
    rewrite (H (k - i)%nat (l - j)%nat) by lia. reflexivity.
Qed.

Definition sfun (SKL : list (list (list R))) (a b : nat) : R := nth c (get3 SKL a b) 0.

Lemma cell_spec SKL k l : (k <= order)%nat -> (l <= order)%nat ->
  (forall a b, (a <= k)%nat -> (b <= l)%nat -> (a <> k \/ b <> l) -> length (get3 SKL a b) = d) ->
  length (cell SKL k l) = d /\ nth c (cell SKL k l) 0 = rhs (sfun SKL) k l.
Proof.
  intros Hk Hl HLen. unfold cell. cbn zeta.
  assert (H0 : length (removelast (get3 SKLw k l)) = d) by (rewrite removelast_length, HLw by assumption; lia).
  destruct (inner_fold_spec d c (fun j => bc l j * W2 0 j) (fun j => get3 SKL k (l - j)) Hc (seq 1 l) _ H0) as [L1 E1].
  { intros j Hj. apply in_seq in Hj. apply HLen; lia. }
  cbn zeta in L1, E1.
  set (v1 := fold_left (fun v j => vsub_scaled Rops (bc l j * W2 0 j) v (get3 SKL k (l - j))) (seq 1 l) (removelast (get3 SKLw k l))) in *.
  set (w2 := fun i => fold_left (fun a j => axpy Rops (bc l j * W2 i j) (get3 SKL (k - i) (l - j)) a) (seq 1 l) (vzero Rops (Nat.pred (S d)))).
  assert (Hw2 : forall i, In i (seq 1 k) -> length (w2 i) = d /\
                  nth c (w2 i) 0 = lsum (seq 1 l) (fun j => bc l j * W2 i j * nth c (get3 SKL (k - i) (l - j)) 0)).
  { intros i Hi. apply in_seq in Hi.
    destruct (fold_axpy_spec d c (fun j => bc l j * W2 i j) (fun j => get3 SKL (k - i) (l - j)) Hc (seq 1 l) (vzero Rops (Nat.pred (S d)))) as [L E].
    - cbn [Nat.pred]. apply repeat_length.
    - intros j Hj. apply in_seq in Hj. apply HLen; lia.
    - cbn zeta in L, E. split; [exact L|]. unfold w2. rewrite E.
      replace (nth c (vzero Rops (Nat.pred (S d))) 0) with 0; [ring|].
      cbn [Nat.pred]. unfold vzero. change (o0 Rops) with 0. symmetry. apply nth_repeat_in. exact Hc. }
  destruct (fold2_spec d c (fun i => bc k i * W2 i 0) (fun i => bc k i) (fun i => get3 SKL (k - i) l) w2 Hc (seq 1 k) v1 L1) as [L2 E2].
  { intros i Hi. split; [apply in_seq in Hi; apply HLen; lia|apply Hw2, Hi]. }
  cbn zeta in L2, E2.
  set (V2 := fold_left _ (seq 1 k) v1) in L2, E2.
  change (length (map (fun t => t / W2 0 0) V2) = d /\ nth c (map (fun t => t / W2 0 0) V2) 0 = rhs (sfun SKL) k l).
  split.
  - rewrite map_length. exact L2.
  - rewrite (nth_map_in _ _ _ _ 0) by lia.
    rewrite E2, E1. unfold rhs, A2, sfun. f_equal. f_equal.
    apply lsum_ext. intros i Hi. rewrite (proj2 (Hw2 i Hi)). reflexivity.
Qed.

(* ---- the double loop ---- *)
Definition grid (SKL : list (list (list R))) : Prop :=
  length SKL = S order /\ forall k, (k <= order)%nat -> length (nth k SKL []) = S order.
Definition before (k l k' l' : nat) : Prop := (k' < k \/ (k' = k /\ l' < l))%nat.
Definition Inv2 (k l : nat) (SKL : list (list (list R))) : Prop :=
  grid SKL /\ forall k' l', (k' <= order)%nat -> (l' <= order)%nat -> before k l k' l' ->
    length (get3 SKL k' l') = d /\ sfun SKL k' l' = rhs (sfun SKL) k' l'.

Lemma grid_set3 SKL k l x : grid SKL -> grid (set3 SKL k l x).
Proof.
  intros [G1 G2]. unfold set3. split; [rewrite u3_length; exact G1|].
  intros k' Hk'. destruct (Nat.eq_dec k' k) as [->|Hne].
  - rewrite u3_nth_same by lia. rewrite u3_length. apply G2, Hk'.
  - rewrite u3_nth_other by lia. apply G2, Hk'.
Qed.

Lemma Inv2_step k l SKL : (k <= order)%nat -> (l <= order)%nat ->
  Inv2 k l SKL -> Inv2 k (S l) (set3 SKL k l (cell SKL k l)).
Proof.
  intros Hk Hl [G HI]. split; [apply grid_set3, G|].
  assert (Hcell : length (cell SKL k l) = d /\ nth c (cell SKL k l) 0 = rhs (sfun SKL) k l).
  { apply cell_spec; try assumption. intros a b Ha Hb Hne. apply HI; try lia. unfold before. lia. }
  assert (Hs : forall a b, (a <> k \/ b <> l) -> sfun (set3 SKL k l (cell SKL k l)) a b = sfun SKL a b).
  { intros a b H. unfold sfun. rewrite get3_set3_other by exact H. reflexivity. }
  intros k' l' Hk' Hl' Hb.
  destruct (Nat.eq_dec k' k) as [Ek|Ek]; [destruct (Nat.eq_dec l' l) as [El|El]|].
  - subst k' l'. unfold sfun at 1. destruct G as [G1 G2].
    rewrite get3_set3_same by (rewrite ?G2 by lia; lia).
    split; [apply Hcell|]. rewrite (proj2 Hcell). apply rhs_ext. intros a b Ha Hb' Hne. symmetry. apply Hs, Hne.
  - assert (Hbb : before k l k' l') by (unfold before in *; lia).
    rewrite get3_set3_other by lia. rewrite Hs by lia.
    destruct (HI k' l' Hk' Hl' Hbb) as [L E]. split; [exact L|]. rewrite E.
    apply rhs_ext. intros a b Ha Hb' Hne. symmetry. apply Hs. unfold before in Hbb. lia.
  - assert (Hbb : before k l k' l') by (unfold before in *; lia).
    rewrite get3_set3_other by lia. rewrite Hs by lia.
    destruct (HI k' l' Hk' Hl' Hbb) as [L E]. split; [exact L|]. rewrite E.
    apply rhs_ext. intros a b Ha Hb' Hne. symmetry. apply Hs. unfold before in Hbb. lia.
Qed.

Lemma Inv2_inner k : (k <= order)%nat -> forall m l SKL, (l + m <= S order)%nat -> Inv2 k l SKL ->
  Inv2 k (l + m) (fold_left (fun SKL l => set3 SKL k l (cell SKL k l)) (seq l m) SKL).
Proof.
  intros Hk. induction m as [|m IH]; intros l SKL Hlm HI; cbn [seq fold_left].
  - replace (l + 0)%nat with l by lia. exact HI.
  - replace (l + S m)%nat with (S l + m)%nat by lia. apply IH; [lia|]. apply Inv2_step; [exact Hk|lia|exact HI].
Qed.

Lemma Inv2_next_row k SKL : Inv2 k (S order) SKL -> Inv2 (S k) 0 SKL.
Proof.
  intros [G HI]. split; [exact G|]. intros k' l' Hk' Hl' Hb. apply HI; try assumption. unfold before in *. lia.
Qed.

Lemma Inv2_outer : forall m k SKL, (k + m <= S order)%nat -> Inv2 k 0 SKL ->
  Inv2 (k + m) 0 (fold_left (fun SKL k => fold_left (fun SKL l => set3 SKL k l (cell SKL k l)) (seq 0 (S order)) SKL) (seq k m) SKL).
Proof.
  induction m as [|m IH]; intros k SKL Hkm HI; cbn [seq fold_left].
  - replace (k + 0)%nat with k by lia. exact HI.
  - replace (k + S m)%nat with (S k + m)%nat by lia. apply IH; [lia|]. apply Inv2_next_row.
    apply (Inv2_inner k ltac:(lia) (S order) 0 SKL ltac:(lia) HI).
Qed.

Lemma lsum_seq_S f a n : lsum (seq a (S n)) f = f a + lsum (seq (S a) n) f.
Proof. reflexivity. Qed.

(* [G] A4.4: every order, every entry of the square, coordinate c *)
Theorem rat_surface_derivs_leibniz_gen :
  let SK := rat_surface_derivs Rops (S d) SKLw order in
  forall k l, (k <= order)%nat -> (l <= order)%nat ->
    length (get3 SK k l) = d /\
    leibniz2 W2 (fun k l => nth c (get3 SK k l) 0) k l = A2 k l.
Proof.
  intros SK k l Hk Hl.
  assert (HI : Inv2 (0 + S order) 0 SK).
  { unfold SK. rewrite rat_surface_derivs_fold. apply Inv2_outer; [lia|].
    split.
    - split; [apply repeat_length|]. intros k' Hk'. rewrite nth_repeat_in by lia. apply repeat_length.
    - intros k' l' _ _ Hb. unfold before in Hb. lia. }
  destruct HI as [_ HI]. destruct (HI k l Hk Hl ltac:(unfold before; lia)) as [L E].
  split; [exact L|]. fold (sfun SK) in *.
  change (fun k0 l0 => nth c (get3 SK k0 l0) 0) with (sfun SK).
  rewrite leibniz2_split. unfold rhs in E.
  rewrite (lsum_ext (seq 1 l) (fun j => bc l j * W2 0 j * sfun SK k (l - j)%nat)
                               (fun j => INR (binom l j) * W2 0 j * sfun SK k (l - j)%nat)) in E
    by (intros j _; rewrite binomial_coefficient_INR; reflexivity).
  rewrite (lsum_ext (seq 1 k) (fun i => bc k i * W2 i 0 * sfun SK (k - i)%nat l
                                         + bc k i * lsum (seq 1 l) (fun j => bc l j * W2 i j * sfun SK (k - i)%nat (l - j)%nat))
                               (fun i => INR (binom k i) * W2 i 0 * sfun SK (k - i)%nat l
                                         + INR (binom k i) * lsum (seq 1 l) (fun j => INR (binom l j) * W2 i j * sfun SK (k - i)%nat (l - j)%nat))) in E.
  2:{ intros i _. rewrite !binomial_coefficient_INR. f_equal. f_equal. apply lsum_ext. intros j _.
      rewrite binomial_coefficient_INR. reflexivity. }
  set (S1 := lsum (seq 1 l) _) in *. set (S2 := lsum (seq 1 k) _) in *.
  rewrite E. field. exact Hw00.
Qed.
End RatSurfLeibniz.

Check rat_surface_derivs_leibniz_gen.
Print Assumptions rat_surface_derivs_leibniz_gen.
