(* C20, convex hull: every input point lies in the closed convex polygon spanned by the output of
   linalg.convex_hull (Model.Geom2D.convex_hull), over exact real arithmetic, for every list of 2-D points:
   every input point is on or to the left of every directed edge of the returned (counter-clockwise, cyclically closed)
   polygon.

   The code is Andrew's monotone chain written as two reduce(keep_left, ...) scans over the lexicographically sorted
   points (lower hull) and over the reversed list (upper hull); keep_left pops while the turn is not strictly left
   and appends the new point unless it equals the top of the stack.
   Invariant of one scan over a sorted list (proved once, for an abstract total order `le` satisfying four
   orientation lemmas, and instantiated with the lexicographic order and its reverse):
     - the stack turns strictly left and is ordered,
     - every processed point q lies between the bottom and the top of the stack in the order and is on or left of
       every edge of the stack.
   During the pops of one keep_left(stack, r) the second part is weakened to: q <= top, or q is on or left of the
   virtual edge top -> r. *)
From Coq Require Import List Arith Bool Lia Reals Lra Psatz.
From NV Require Import Scalar.Ops Model.Common Model.Geom2D Proofs.Geom2DR.
Import ListNotations.
Open Scope R_scope.

(* ================= 1. orientation lemmas in coordinates ================= *)
Definition cr (a1 a2 b1 b2 c1 c2 : R) : R := (b1 - a1) * (c2 - a2) - (c1 - a1) * (b2 - a2).
Definition lx (a1 a2 b1 b2 : R) : Prop := a1 < b1 \/ (a1 = b1 /\ a2 <= b2).

(* a <= q <= b <= r, q on/above a->b, r on/below a->b  ==>  q on/above a->r *)
Lemma O1r a1 a2 b1 b2 q1 q2 r1 r2 : lx a1 a2 q1 q2 -> lx q1 q2 b1 b2 -> lx b1 b2 r1 r2 ->
  0 <= cr a1 a2 b1 b2 q1 q2 -> cr a1 a2 b1 b2 r1 r2 <= 0 -> 0 <= cr a1 a2 r1 r2 q1 q2.
Proof.
  unfold cr, lx. intros H1 H2 H3 H4 H5.
  assert (Pl : ((r1 - a1) * (q2 - a2) - (q1 - a1) * (r2 - a2)) * (b1 - a1) =
               - ((b1 - a1) * (r2 - a2) - (r1 - a1) * (b2 - a2)) * (q1 - a1) + ((b1 - a1) * (q2 - a2) - (q1 - a1) * (b2 - a2)) * (r1 - a1)) by ring.
  destruct (Rlt_le_dec a1 b1) as [Hb|Hb].
  - assert (0 <= q1 - a1) by lra. assert (0 <= r1 - a1) by lra. nra.
  - assert (q1 = a1) by lra. assert (b1 = a1) by lra. subst q1 b1.
    assert (0 <= q2 - a2) by lra. assert (0 <= r1 - a1) by lra. nra.
Qed.

(* a <= b <= q <= r, r on/below a->b, q on/above b->r  ==>  q on/above a->r *)
Lemma O2r a1 a2 b1 b2 q1 q2 r1 r2 : lx a1 a2 b1 b2 -> lx b1 b2 q1 q2 -> lx q1 q2 r1 r2 ->
  cr a1 a2 b1 b2 r1 r2 <= 0 -> 0 <= cr b1 b2 r1 r2 q1 q2 -> 0 <= cr a1 a2 r1 r2 q1 q2.
Proof.
  unfold cr, lx. intros H1 H2 H3 H4 H5.
  assert (Pl : ((r1 - a1) * (q2 - a2) - (q1 - a1) * (r2 - a2)) * (b1 - r1) =
               ((r1 - b1) * (q2 - b2) - (q1 - b1) * (r2 - b2)) * (a1 - r1) + (- ((b1 - a1) * (r2 - a2) - (r1 - a1) * (b2 - a2))) * (q1 - r1)) by ring.
  destruct (Rlt_le_dec b1 r1) as [Hb|Hb].
  - assert (a1 - r1 <= 0) by lra. assert (q1 - r1 <= 0) by lra. nra.
  - assert (q1 = r1) by lra. assert (b1 = r1) by lra. subst q1 b1.
    assert (b2 <= q2) by lra. assert (q2 <= r2) by lra. assert (a1 <= r1) by lra.
    nra.
Qed.

(* a <= b <= c <= r, strict left turns (a,b,c) and (b,c,r)  ==>  strict left turn (a,b,r) *)
Lemma O3r a1 a2 b1 b2 c1 c2 r1 r2 : lx a1 a2 b1 b2 -> lx b1 b2 c1 c2 -> lx c1 c2 r1 r2 ->
  0 < cr a1 a2 b1 b2 c1 c2 -> 0 < cr b1 b2 c1 c2 r1 r2 -> 0 < cr a1 a2 b1 b2 r1 r2.
Proof.
  unfold cr, lx. intros H1 H2 H3 H4 H5.
  assert (Pl : ((b1 - a1) * (r2 - c2) - (r1 - c1) * (b2 - a2)) * (c1 - b1) =
               ((b1 - a1) * (c2 - a2) - (c1 - a1) * (b2 - a2)) * (r1 - c1) + ((c1 - b1) * (r2 - b2) - (r1 - b1) * (c2 - b2)) * (b1 - a1)) by ring.
  assert (E : (b1 - a1) * (r2 - a2) - (r1 - a1) * (b2 - a2) =
              ((b1 - a1) * (c2 - a2) - (c1 - a1) * (b2 - a2)) + ((b1 - a1) * (r2 - c2) - (r1 - c1) * (b2 - a2))) by ring.
  destruct (Rlt_le_dec b1 c1) as [Hb|Hb].
  - assert (0 <= r1 - c1) by lra. assert (0 <= b1 - a1) by lra. nra.
  - assert (c1 = b1) by lra. subst c1. assert (0 <= r1 - b1) by lra. assert (0 <= c2 - b2) by lra. nra.
Qed.

(* a <= c, q <= c <= r, q on/above a->c, strict left turn (a,c,r)  ==>  q on/above c->r *)
Lemma O4r a1 a2 c1 c2 q1 q2 r1 r2 : lx a1 a2 c1 c2 -> lx q1 q2 c1 c2 -> lx c1 c2 r1 r2 ->
  0 <= cr a1 a2 c1 c2 q1 q2 -> 0 < cr a1 a2 c1 c2 r1 r2 -> 0 <= cr c1 c2 r1 r2 q1 q2.
Proof.
  unfold cr, lx. intros H1 H2 H3 H4 H5.
  assert (Pl : ((r1 - c1) * (q2 - c2) - (q1 - c1) * (r2 - c2)) * (a1 - c1) =
               ((c1 - a1) * (r2 - a2) - (r1 - a1) * (c2 - a2)) * (q1 - c1) + (- ((c1 - a1) * (q2 - a2) - (q1 - a1) * (c2 - a2))) * (r1 - c1)) by ring.
  destruct (Rlt_le_dec a1 c1) as [Hb|Hb].
  - assert (q1 - c1 <= 0) by lra. assert (0 <= r1 - c1) by lra. nra.
  - assert (a1 = c1) by lra. subst a1. assert (0 <= r1 - c1) by lra. assert (a2 <= c2) by lra. nra.
Qed.

(* point reflection keeps orientations and reverses the order *)
Lemma lx_neg a1 a2 b1 b2 : lx b1 b2 a1 a2 -> lx (- a1) (- a2) (- b1) (- b2).
Proof. unfold lx. lra. Qed.
Lemma cr_neg a1 a2 b1 b2 c1 c2 : cr (- a1) (- a2) (- b1) (- b2) (- c1) (- c2) = cr a1 a2 b1 b2 c1 c2.
Proof. unfold cr. ring. Qed.

(* ================= 2. points ================= *)
Local Notation pt := (list R) (only parsing).
Local Notation il := (is_left Rops) (only parsing).
Local Notation px := (cx Rops) (only parsing).
Local Notation py := (cy Rops) (only parsing).

Lemma il_cr a b c : il a b c = cr (px a) (py a) (px b) (py b) (px c) (py c).
Proof. reflexivity. Qed.
Lemma il_same_l a q : il a a q = 0.
Proof. rewrite il_cr. unfold cr. ring. Qed.
Lemma il_same_r a b : il a b b = 0.
Proof. rewrite il_cr. unfold cr. ring. Qed.

(* lexicographic order on the first two coordinates *)
Definition lexle (a b : pt) : Prop := lx (px a) (py a) (px b) (py b).
Definition lexge (a b : pt) : Prop := lexle b a.

Lemma lexle_total a b : lexle a b \/ lexle b a.
Proof. unfold lexle, lx. destruct (Rlt_le_dec (px a) (px b)); [lra|]. destruct (Rlt_le_dec (px b) (px a)); [lra|]. destruct (Rle_lt_dec (py a) (py b)); lra. Qed.
Lemma lexle_trans a b c : lexle a b -> lexle b c -> lexle a c.
Proof. unfold lexle, lx. lra. Qed.
Lemma lexle_antisym_il a b r : lexle a b -> lexle b a -> il a r b = 0.
Proof.
  unfold lexle, lx. intros H1 H2. assert (E1 : px b = px a) by lra. assert (E2 : py b = py a) by lra.
  rewrite il_cr. unfold cr. rewrite E1, E2. ring.
Qed.

(* ================= 3. stacks ================= *)
Definition top (s : list pt) : pt := hd [] s.
Definition bot (s : list pt) : pt := last s [].

(* q is on or left of every edge of the stack (head = most recent vertex) *)
Fixpoint above (q : pt) (stk : list pt) : Prop :=
  match stk with
  | h1 :: tl => match tl with h2 :: _ => 0 <= il h2 h1 q /\ above q tl | [] => True end
  | [] => True
  end.
Lemma above_tl q h stk : above q (h :: stk) -> above q stk.
Proof. destruct stk as [|h2 t]; cbn [above]; tauto. Qed.
Lemma above_split q : forall s1 s2 a b, above q (s1 ++ b :: a :: s2) -> 0 <= il a b q.
Proof.
  induction s1 as [|x s1 IH]; intros s2 a b H.
  - cbn [app above] in H. tauto.
  - apply (IH s2). cbn [app] in H. apply above_tl in H. exact H.
Qed.

Definition turn_ok (s : list pt) (r : pt) : Prop := match s with h1 :: h2 :: _ => 0 < il h2 h1 r | _ => True end.

Lemma pt_eqb_eq : forall a b : pt, pt_eqb Rops a b = true -> a = b.
Proof.
  induction a as [|x a IH]; intros [|y b] H; cbn [pt_eqb] in H; try discriminate; [reflexivity|].
  apply andb_true_iff in H. destruct H as [H1 H2]. unfold oeqb in H1. cbn [oleb Rops] in H1.
  apply andb_true_iff in H1. destruct H1 as [H1 H3]. apply Rleb_true in H1. apply Rleb_true in H3.
  f_equal; [lra|apply IH; exact H2].
Qed.

Lemma last_In {A} (d : A) : forall l, l <> [] -> In (last l d) l.
Proof.
  induction l as [|a l IH]; intros H; [congruence|]. destruct l as [|b l']; [left; reflexivity|].
  right. apply IH. discriminate.
Qed.

Section Scan.
Variable le : pt -> pt -> Prop.
Hypothesis le_total : forall a b, le a b \/ le b a.
Hypothesis le_trans : forall a b c, le a b -> le b c -> le a c.
Hypothesis le_antisym_il : forall a b r, le a b -> le b a -> il a r b = 0.
Hypothesis HO1 : forall a b q r, le a q -> le q b -> le b r -> 0 <= il a b q -> il a b r <= 0 -> 0 <= il a r q.
Hypothesis HO2 : forall a b q r, le a b -> le b q -> le q r -> il a b r <= 0 -> 0 <= il b r q -> 0 <= il a r q.
Hypothesis HO3 : forall a b c r, le a b -> le b c -> le c r -> 0 < il a b c -> 0 < il b c r -> 0 < il a b r.
Hypothesis HO4 : forall a c q r, le a c -> le q c -> le c r -> 0 <= il a c q -> 0 < il a c r -> 0 <= il c r q.

Lemma le_refl a : le a a.
Proof. destruct (le_total a a); assumption. Qed.

Fixpoint desc (stk : list pt) : Prop :=
  match stk with
  | h1 :: tl => match tl with h2 :: _ => le h2 h1 /\ desc tl | [] => True end
  | [] => True
  end.
Fixpoint srt (l : list pt) : Prop :=
  match l with [] => True | a :: r => (forall b, In b r -> le a b) /\ srt r end.

(* a new point beyond the top that turns strictly left at the top is strictly left of every edge *)
Lemma chain_above r : forall stk, left_chain stk -> desc stk -> stk <> [] -> le (top stk) r -> turn_ok stk r -> above r stk.
Proof.
  induction stk as [|h1 tl IH]; intros Hc Hd Hne Ht Hturn; [exact I|].
  destruct tl as [|h2 tl']; [exact I|].
  cbn [above]. cbn [turn_ok] in Hturn. cbn [top hd] in Ht. cbn [desc] in Hd. destruct Hd as [Hd1 Hd2].
  split; [lra|]. apply IH.
  - eapply left_chain_tl. exact Hc.
  - exact Hd2.
  - discriminate.
  - cbn [top hd]. apply (le_trans h2 h1 r); assumption.
  - destruct tl' as [|h3 t]; [exact I|]. cbn [turn_ok].
    cbn [desc] in Hd2. destruct Hd2 as [Hd3 _]. cbn [left_chain] in Hc. destruct Hc as [Hc1 _].
    apply (HO3 h3 h2 h1 r); assumption.
Qed.

(* invariant while popping for the new point r *)
Definition Kq (stk : list pt) (r q : pt) : Prop :=
  above q stk /\ le (bot stk) q /\ le q r /\ (le q (top stk) \/ 0 <= il (top stk) r q).
Definition Pinv (Sd : list pt) (r : pt) (stk : list pt) : Prop :=
  left_chain stk /\ desc stk /\ stk <> [] /\ le (top stk) r /\ forall q, In q Sd -> Kq stk r q.

Lemma pop_inv Sd r : forall stk, Pinv Sd r stk ->
  Pinv Sd r (pop_nonleft Rops stk r) /\ turn_ok (pop_nonleft Rops stk r) r.
Proof.
  induction stk as [|h1 tl IH]; intros HP.
  - destruct HP as (_ & _ & Hne & _). congruence.
  - cbn [pop_nonleft]. destruct tl as [|h2 tl'].
    + split; [exact HP|exact I].
    + cbn [oltb Rops o0]. destruct (Rltb 0 (il h2 h1 r)) eqn:E.
      * apply Rltb_true in E. split; [exact HP|exact E].
      * apply Rltb_false in E. apply IH. destruct HP as (Hc & Hd & _ & Ht & HK).
        cbn [desc] in Hd. destruct Hd as [Hd1 Hd2]. cbn [top hd] in Ht.
        split; [eapply left_chain_tl; exact Hc|]. split; [exact Hd2|]. split; [discriminate|].
        split; [cbn [top hd]; apply (le_trans h2 h1 r); assumption|].
        intros q Hq. destruct (HK q Hq) as (Ha & Hb & Hr & Hdisj). cbn [above] in Ha. destruct Ha as [Ha1 Ha2].
        change (bot (h1 :: h2 :: tl')) with (bot (h2 :: tl')) in Hb. cbn [top hd] in Hdisj.
        split; [exact Ha2|]. split; [exact Hb|]. split; [exact Hr|]. cbn [top hd].
        destruct (le_total q h2) as [L|L]; [left; exact L|right].
        destruct (le_total q h1) as [L1|L1].
        -- apply (HO1 h2 h1 q r); assumption.
        -- destruct Hdisj as [L2|G]; [apply (HO1 h2 h1 q r); assumption|]. apply (HO2 h2 h1 q r); assumption.
Qed.

(* invariant between two keep_left calls; Sd = the points processed so far *)
Definition Inv (stk Sd : list pt) : Prop :=
  left_chain stk /\ desc stk /\ incl stk Sd /\
  forall q, In q Sd -> stk <> [] /\ above q stk /\ le (bot stk) q /\ le q (top stk).

Lemma keep_left_inv stk Sd r : Inv stk Sd -> (forall q, In q Sd -> le q r) -> Inv (keep_left Rops stk r) (Sd ++ [r]).
Proof.
  intros (Hc & Hd & Hincl & HQ) Hle. destruct stk as [|h0 t0].
  - (* empty stack: nothing processed yet *)
    unfold keep_left. cbn [pop_nonleft]. split; [exact I|]. split; [exact I|].
    split; [intros x [<-|[]]; apply in_or_app; right; left; reflexivity|].
    intros q Hq. apply in_app_or in Hq. destruct Hq as [Hq|[<-|[]]].
    + destruct (HQ q Hq) as [Hne _]. congruence.
    + split; [discriminate|]. split; [exact I|]. split; apply le_refl.
  - assert (HP : Pinv Sd r (h0 :: t0)).
    { split; [exact Hc|]. split; [exact Hd|]. split; [discriminate|].
      split; [apply Hle; apply Hincl; left; reflexivity|].
      intros q Hq. destruct (HQ q Hq) as (_ & Ha & Hb & Ht). split; [exact Ha|]. split; [exact Hb|]. split; [apply Hle; exact Hq|left; exact Ht]. }
    destruct (pop_inv Sd r _ HP) as [HP' Hturn].
    assert (Hsub : forall x, In x (pop_nonleft Rops (h0 :: t0) r) -> In x Sd).
    { intros x Hx. apply Hincl. apply (in_pop_nonleft x r). exact Hx. }
    unfold keep_left. cbv zeta. destruct (pop_nonleft Rops (h0 :: t0) r) as [|h s'] eqn:Es.
    { destruct HP' as (_ & _ & Hne & _). congruence. }
    destruct HP' as (Hc' & Hd' & _ & Ht' & HK). cbn [top hd] in Ht'.
    assert (Hbot : le (bot (h :: s')) r).
    { apply Hle. apply Hsub. apply last_In. discriminate. }
    destruct (pt_eqb Rops h r) eqn:Eq.
    + (* the new point equals the top: stack unchanged *)
      apply pt_eqb_eq in Eq. subst r.
      split; [exact Hc'|]. split; [exact Hd'|].
      split; [intros x Hx; apply in_or_app; left; apply Hsub; exact Hx|].
      intros q Hq. apply in_app_or in Hq. destruct Hq as [Hq|[<-|[]]].
      * destruct (HK q Hq) as (Ha & Hb & Hr & _). split; [discriminate|]. split; [exact Ha|]. split; [exact Hb|exact Hr].
      * split; [discriminate|]. split; [|split; [exact Hbot|apply le_refl]].
        destruct s' as [|h2 s'']; [exact I|]. cbn [turn_ok] in Hturn. rewrite il_same_r in Hturn. lra.
    + (* push *)
      split. { destruct s' as [|h2 s'']; [exact I|]. cbn [left_chain]. split; [exact Hturn|exact Hc']. }
      split. { cbn [desc]. split; [exact Ht'|exact Hd']. }
      split. { intros x [<-|Hx]; apply in_or_app; [right; left; reflexivity|left; apply Hsub; exact Hx]. }
      intros q Hq. split; [discriminate|]. change (bot (r :: h :: s')) with (bot (h :: s')). cbn [top hd].
      change (above q (r :: h :: s')) with (0 <= il h r q /\ above q (h :: s')).
      apply in_app_or in Hq. destruct Hq as [Hq|[<-|[]]].
      * destruct (HK q Hq) as (Ha & Hb & Hr & Hdisj). cbn [top hd] in Hdisj.
        split; [|split; [exact Hb|exact Hr]]. split; [|exact Ha].
        destruct Hdisj as [L|G]; [|exact G].
        destruct s' as [|h2 s''].
        -- change (bot [h]) with h in Hb. rewrite (le_antisym_il h q r Hb L). lra.
        -- cbn [above] in Ha. destruct Ha as [Ha1 _]. cbn [desc] in Hd'. destruct Hd' as [Hd1 _]. cbn [turn_ok] in Hturn.
           apply (HO4 h2 h q r); assumption.
      * split; [|split; [exact Hbot|apply le_refl]]. split; [rewrite il_same_r; lra|].
        apply chain_above; try assumption. discriminate.
Qed.

Lemma scan_inv : forall pts stk Sd, srt pts -> (forall q r, In q Sd -> In r pts -> le q r) -> Inv stk Sd ->
  Inv (fold_left (keep_left Rops) pts stk) (Sd ++ pts).
Proof.
  induction pts as [|r rest IH]; intros stk Sd Hs Hle HI; cbn [fold_left].
  - rewrite app_nil_r. exact HI.
  - replace (Sd ++ r :: rest) with ((Sd ++ [r]) ++ rest) by (rewrite <- app_assoc; reflexivity).
    destruct Hs as [Hs1 Hs2]. apply IH; [exact Hs2| |].
    + intros q r' Hq Hr'. apply in_app_or in Hq. destruct Hq as [Hq|[<-|[]]].
      * apply Hle; [exact Hq|right; exact Hr'].
      * apply Hs1. exact Hr'.
    + apply keep_left_inv; [exact HI|]. intros q Hq. apply Hle; [exact Hq|left; reflexivity].
Qed.

(* one scan over a sorted list: every point of the list is on or left of every edge of the resulting chain *)
Theorem scan_above pts : srt pts -> forall q, In q pts -> above q (fold_left (keep_left Rops) pts []).
Proof.
  intros Hs q Hq.
  destruct (scan_inv pts [] [] Hs) as (_ & _ & _ & H).
  - intros ? ? [].
  - split; [exact I|]. split; [exact I|]. split; [intros ? []|intros ? []].
  - cbn [app] in H. apply H in Hq. tauto.
Qed.

Lemma srt_app : forall l1 l2, srt l1 -> srt l2 -> (forall a b, In a l1 -> In b l2 -> le a b) -> srt (l1 ++ l2).
Proof.
  induction l1 as [|a l1 IH]; intros l2 H1 H2 H12; [exact H2|]. cbn [app srt]. destruct H1 as [H1a H1b]. split.
  - intros b Hb. apply in_app_or in Hb. destruct Hb; [apply H1a; assumption|apply H12; [left; reflexivity|assumption]].
  - apply IH; auto. intros x y Hx Hy. apply H12; [right; exact Hx|exact Hy].
Qed.
End Scan.

(* ================= 4. the two instances: lexicographic order (lower hull) and its reverse (upper hull) ================= *)
Lemma lex_O1 a b q r : lexle a q -> lexle q b -> lexle b r -> 0 <= il a b q -> il a b r <= 0 -> 0 <= il a r q.
Proof. unfold lexle. rewrite !il_cr. apply O1r. Qed.
Lemma lex_O2 a b q r : lexle a b -> lexle b q -> lexle q r -> il a b r <= 0 -> 0 <= il b r q -> 0 <= il a r q.
Proof. unfold lexle. rewrite !il_cr. apply O2r. Qed.
Lemma lex_O3 a b c r : lexle a b -> lexle b c -> lexle c r -> 0 < il a b c -> 0 < il b c r -> 0 < il a b r.
Proof. unfold lexle. rewrite !il_cr. apply O3r. Qed.
Lemma lex_O4 a c q r : lexle a c -> lexle q c -> lexle c r -> 0 <= il a c q -> 0 < il a c r -> 0 <= il c r q.
Proof. unfold lexle. rewrite !il_cr. apply O4r. Qed.

Lemma lexge_total a b : lexge a b \/ lexge b a.
Proof. unfold lexge. destruct (lexle_total a b); tauto. Qed.
Lemma lexge_trans a b c : lexge a b -> lexge b c -> lexge a c.
Proof. unfold lexge. intros H1 H2. exact (lexle_trans c b a H2 H1). Qed.
Lemma lexge_antisym_il a b r : lexge a b -> lexge b a -> il a r b = 0.
Proof. unfold lexge. intros H1 H2. apply lexle_antisym_il; assumption. Qed.
Lemma gex_O1 a b q r : lexge a q -> lexge q b -> lexge b r -> 0 <= il a b q -> il a b r <= 0 -> 0 <= il a r q.
Proof.
  unfold lexge, lexle. rewrite !il_cr. intros H1 H2 H3 H4 H5.
  rewrite <- cr_neg. rewrite <- cr_neg in H4, H5.
  apply (O1r _ _ (- px b) (- py b)); auto using lx_neg.
Qed.
Lemma gex_O2 a b q r : lexge a b -> lexge b q -> lexge q r -> il a b r <= 0 -> 0 <= il b r q -> 0 <= il a r q.
Proof.
  unfold lexge, lexle. rewrite !il_cr. intros H1 H2 H3 H4 H5.
  rewrite <- cr_neg. rewrite <- cr_neg in H4, H5.
  apply (O2r _ _ (- px b) (- py b)); auto using lx_neg.
Qed.
Lemma gex_O3 a b c r : lexge a b -> lexge b c -> lexge c r -> 0 < il a b c -> 0 < il b c r -> 0 < il a b r.
Proof.
  unfold lexge, lexle. rewrite !il_cr. intros H1 H2 H3 H4 H5.
  rewrite <- cr_neg. rewrite <- cr_neg in H4, H5.
  apply (O3r _ _ _ _ (- px c) (- py c)); auto using lx_neg.
Qed.
Lemma gex_O4 a c q r : lexge a c -> lexge q c -> lexge c r -> 0 <= il a c q -> 0 < il a c r -> 0 <= il c r q.
Proof.
  unfold lexge, lexle. rewrite !il_cr. intros H1 H2 H3 H4 H5.
  rewrite <- cr_neg. rewrite <- cr_neg in H4, H5.
  apply (O4r (- px a) (- py a)); auto using lx_neg.
Qed.

Definition lower_scan_above := scan_above lexle lexle_total lexle_trans lexle_antisym_il lex_O1 lex_O2 lex_O3 lex_O4.
Definition upper_scan_above := scan_above lexge lexge_total lexge_trans lexge_antisym_il gex_O1 gex_O2 gex_O3 gex_O4.

(* ================= 5. sorted(): the insertion sort orders 2-D points lexicographically ================= *)
(* at least the two coordinates the code indexes ([0] and [1]); Python's list order compares them first *)
Definition is2d (q : pt) : Prop := (2 <= length q)%nat.

Lemma pt_ltb_2d a b : is2d a -> is2d b ->
  (pt_ltb Rops a b = true -> lexle a b) /\ (pt_ltb Rops a b = false -> lexle b a).
Proof.
  unfold is2d. intros Ha Hb.
  destruct a as [|a1 [|a2 a']]; cbn [length] in Ha; try lia. destruct b as [|b1 [|b2 b']]; cbn [length] in Hb; try lia.
  cbn [pt_ltb oltb Rops]. unfold lexle, lx, cx, cy. cbn [nth]. unfold Rltb.
  destruct (Rlt_dec a1 b1); [split; [lra|discriminate]|].
  destruct (Rlt_dec b1 a1); [split; [discriminate|lra]|].
  destruct (Rlt_dec a2 b2); [split; [lra|discriminate]|].
  destruct (Rlt_dec b2 a2); [split; [discriminate|lra]|]. split; intros _; lra.
Qed.

Lemma insert_srt p : is2d p -> forall l, Forall is2d l -> srt lexle l -> srt lexle (insert_pt Rops p l).
Proof.
  intros Hp. induction l as [|q l IH]; intros Hl Hs.
  - cbn. split; [intros ? []|exact I].
  - apply Forall_cons_iff in Hl. destruct Hl as [Hq Hl]. destruct Hs as [Hs1 Hs2]. cbn [insert_pt].
    destruct (pt_ltb_2d p q Hp Hq) as [T F]. destruct (pt_ltb Rops p q).
    + specialize (T eq_refl). split; [|split; assumption].
      intros b [<-|Hb]; [exact T|]. apply (lexle_trans p q b); [exact T|apply Hs1; exact Hb].
    + specialize (F eq_refl). split; [|apply IH; assumption].
      intros b Hb. apply in_insert_pt in Hb. destruct Hb as [->|Hb]; [exact F|apply Hs1; exact Hb].
Qed.
Lemma insert_2d p l : is2d p -> Forall is2d l -> Forall is2d (insert_pt Rops p l).
Proof.
  intros Hp Hl. apply Forall_forall. intros x Hx. apply in_insert_pt in Hx. destruct Hx as [->|Hx]; [exact Hp|].
  rewrite Forall_forall in Hl. apply Hl. exact Hx.
Qed.
Lemma sort_srt l : Forall is2d l -> srt lexle (sort_pts Rops l) /\ Forall is2d (sort_pts Rops l).
Proof.
  unfold sort_pts. induction l as [|p l IH]; intros Hl; cbn [fold_right].
  - split; [exact I|constructor].
  - apply Forall_cons_iff in Hl. destruct Hl as [Hp Hl]. destruct (IH Hl) as [I1 I2].
    split; [apply insert_srt; assumption|apply insert_2d; assumption].
Qed.
Lemma srt_rev : forall l, srt lexle l -> srt lexge (rev l).
Proof.
  induction l as [|a l IH]; intros Hs; [exact I|]. destruct Hs as [H1 H2]. cbn [rev].
  apply srt_app; [apply IH; exact H2|split; [intros ? []|exact I]|].
  intros x y Hx [<-|[]]. apply in_rev in Hx. unfold lexge. apply H1. exact Hx.
Qed.

(* ================= 6. top and bottom of the scanned stack ================= *)
Lemma pop_nonleft_bot r : forall stk, stk <> [] -> pop_nonleft Rops stk r <> [] /\ bot (pop_nonleft Rops stk r) = bot stk.
Proof.
  induction stk as [|h1 tl IH]; intros Hne; [congruence|]. cbn [pop_nonleft]. destruct tl as [|h2 tl'].
  - split; [discriminate|reflexivity].
  - destruct (oltb Rops (o0 Rops) (il h2 h1 r)); [split; [discriminate|reflexivity]|].
    destruct (IH ltac:(discriminate)) as [I1 I2]. split; [exact I1|]. rewrite I2. reflexivity.
Qed.
Lemma keep_left_top stk r : top (keep_left Rops stk r) = r.
Proof.
  unfold keep_left. cbv zeta. destruct (pop_nonleft Rops stk r) as [|h s]; [reflexivity|].
  destruct (pt_eqb Rops h r) eqn:E; [|reflexivity]. apply pt_eqb_eq in E. exact E.
Qed.
Lemma keep_left_nonempty stk r : keep_left Rops stk r <> [].
Proof.
  unfold keep_left. cbv zeta. destruct (pop_nonleft Rops stk r) as [|h s]; [discriminate|].
  destruct (pt_eqb Rops h r); discriminate.
Qed.
Lemma keep_left_bot stk r : stk <> [] -> bot (keep_left Rops stk r) = bot stk.
Proof.
  intros Hne. destruct (pop_nonleft_bot r stk Hne) as [H1 H2]. unfold keep_left. cbv zeta.
  destruct (pop_nonleft Rops stk r) as [|h s]; [congruence|].
  destruct (pt_eqb Rops h r); [exact H2|]. rewrite <- H2. reflexivity.
Qed.
Lemma fold_nonempty : forall pts stk, stk <> [] -> fold_left (keep_left Rops) pts stk <> [].
Proof. induction pts as [|r rest IH]; intros stk H; cbn [fold_left]; [exact H|]. apply IH. apply keep_left_nonempty. Qed.
Lemma fold_bot : forall pts stk, stk <> [] -> bot (fold_left (keep_left Rops) pts stk) = bot stk.
Proof.
  induction pts as [|r rest IH]; intros stk H; cbn [fold_left]; [reflexivity|].
  rewrite IH by apply keep_left_nonempty. apply keep_left_bot. exact H.
Qed.
Lemma fold_top : forall pts stk, pts <> [] -> top (fold_left (keep_left Rops) pts stk) = last pts [].
Proof.
  induction pts as [|r rest IH]; intros stk H; [congruence|]. cbn [fold_left]. destruct rest as [|r2 rest'].
  - cbn [fold_left last]. apply keep_left_top.
  - rewrite IH by discriminate. reflexivity.
Qed.
Lemma scan_bot r rest : bot (fold_left (keep_left Rops) (r :: rest) []) = r.
Proof. cbn [fold_left]. rewrite fold_bot by apply keep_left_nonempty. reflexivity. Qed.

Lemma hd_rev_last {A} (d : A) : forall l, hd d (rev l) = last l d.
Proof.
  induction l as [|a l IH]; [reflexivity|]. cbn [rev]. destruct l as [|b l'].
  - reflexivity.
  - change (last (a :: b :: l') d) with (last (b :: l') d). rewrite <- IH.
    cbn [rev]. destruct (rev l' ++ [b]) eqn:E; [destruct (rev l'); discriminate|reflexivity].
Qed.
Lemma last_rev_hd {A} (d : A) l : last (rev l) d = hd d l.
Proof. rewrite <- (rev_involutive l) at 2. rewrite hd_rev_last. reflexivity. Qed.

(* ================= 7. edges of lists ================= *)
Definition adj (l : list pt) (a b : pt) : Prop := exists l1 l2, l = l1 ++ a :: b :: l2.

Lemma adj_cons x l a b : adj l a b -> adj (x :: l) a b.
Proof. intros (l1 & l2 & E). exists (x :: l1), l2. rewrite E. reflexivity. Qed.
Lemma adj_app_split : forall l1 x l2 a b, adj (l1 ++ x :: l2) a b -> adj (l1 ++ [x]) a b \/ adj (x :: l2) a b.
Proof.
  induction l1 as [|y l1 IH]; intros x l2 a b H; [right; exact H|].
  destruct H as (m1 & m2 & E). destruct m1 as [|y' m1].
  - cbn [app] in E. injection E as E1 E2. subst y. left. destruct l1 as [|z l1'].
    + cbn [app] in E2. injection E2 as E2 _. subst x. exists [], []. reflexivity.
    + cbn [app] in E2. injection E2 as E2 _. subst z. exists [], (l1' ++ [x]). reflexivity.
  - cbn [app] in E. injection E as _ E. destruct (IH x l2 a b) as [H|H]; [exists m1, m2; exact E| |].
    + left. apply (adj_cons y) in H. exact H.
    + right. exact H.
Qed.
Lemma adj_nth (d : pt) : forall L i, (S i < length L)%nat -> adj L (nth i L d) (nth (S i) L d).
Proof.
  induction L as [|x L IH]; intros i Hi; [cbn in Hi; lia|]. destruct i as [|i].
  - destruct L as [|y L']; [cbn in Hi; lia|]. exists [], L'. reflexivity.
  - apply adj_cons. apply IH. cbn [length] in Hi. lia.
Qed.
Lemma above_adj q stk : above q stk -> forall a b, adj (rev stk) a b -> 0 <= il a b q.
Proof.
  intros Ha a b (l1 & l2 & E). apply (above_split q (rev l2) (rev l1) a b).
  replace (rev l2 ++ b :: a :: rev l1) with stk; [exact Ha|].
  rewrite <- (rev_involutive stk), E, rev_app_distr. cbn [rev]. rewrite <- !app_assoc. reflexivity.
Qed.

(* ================= 8. the hull contains every input point ================= *)
(* [G] every input point is on or left of every edge of the closed polygon  h_0, ..., h_{k-1}, h_0 *)
Theorem hull_contains_all_points (points : list pt) (p : pt) :
  Forall is2d points -> In p points ->
  let h := convex_hull Rops points in
  forall a b, adj (h ++ [hd [] h]) a b -> 0 <= il a b p.
Proof.
  intros H2d Hp. cbv zeta. unfold convex_hull. cbv zeta. unfold half_hull.
  destruct (sort_srt points H2d) as [Hsrt _].
  assert (Hin : In p (sort_pts Rops points)) by (apply in_sort_pts; exact Hp).
  set (pts := sort_pts Rops points) in *.
  pose proof (lower_scan_above pts Hsrt p Hin) as HL.
  pose proof (upper_scan_above (rev pts) (srt_rev pts Hsrt) p (proj1 (in_rev pts p) Hin)) as HU.
  destruct pts as [|p0 rest] eqn:Epts; [destruct Hin|].
  assert (Hne : p0 :: rest <> []) by discriminate. rewrite <- Epts in *. clear Epts.
  set (sL := fold_left (keep_left Rops) pts []) in *. set (sU := fold_left (keep_left Rops) (rev pts) []) in *.
  assert (HsL : sL <> []).
  { subst sL. destruct pts as [|x r]; [congruence|]. cbn [fold_left]. apply fold_nonempty, keep_left_nonempty. }
  assert (Hrne : rev pts <> []).
  { intro E. apply (f_equal (@rev pt)) in E. rewrite rev_involutive in E. cbn in E. congruence. }
  assert (HsU : sU <> []).
  { subst sU. destruct (rev pts) as [|x r]; [congruence|]. cbn [fold_left]. apply fold_nonempty, keep_left_nonempty. }
  (* first and last vertices of the two chains *)
  assert (BL : bot sL = hd [] pts).
  { subst sL. destruct pts as [|x r]; [congruence|]. apply scan_bot. }
  assert (TL : top sL = last pts []) by (subst sL; apply fold_top; exact Hne).
  assert (BU : bot sU = last pts []).
  { subst sU. rewrite <- (hd_rev_last [] pts). destruct (rev pts) as [|x r]; [congruence|]. apply scan_bot. }
  assert (TU : top sU = hd [] pts).
  { subst sU. rewrite fold_top by exact Hrne. apply last_rev_hd. }
  set (pmin := hd [] pts) in *. set (pmax := last pts []) in *.
  (* l = l' ++ [pmax], starts with pmin; u = pmax :: u', ends with pmin *)
  assert (EL : rev sL = removelast (rev sL) ++ [pmax]).
  { assert (E0 : pmax = last (rev sL) []) by (rewrite last_rev_hd; symmetry; exact TL). rewrite E0.
    apply app_removelast_last. intro E. apply HsL. apply (f_equal (@rev pt)) in E. rewrite rev_involutive in E. exact E. }
  assert (HL0 : hd [] (rev sL) = pmin) by (rewrite hd_rev_last; exact BL).
  assert (EU : exists u', rev sU = pmax :: u').
  { destruct (rev sU) as [|x u'] eqn:E.
    - exfalso. apply HsU. apply (f_equal (@rev pt)) in E. rewrite rev_involutive in E. exact E.
    - exists u'. f_equal. rewrite <- BU. unfold bot. rewrite <- (hd_rev_last [] sU), E. reflexivity. }
  destruct EU as [u' EU].
  assert (LU : last (rev sU) [] = pmin) by (rewrite last_rev_hd; exact TU).
  intros a b Hadj.
  assert (Hhd : hd [] (rev sL ++ removelast (tl (rev sU))) = pmin).
  { destruct (rev sL) as [|x l']; [destruct (removelast []); discriminate|exact HL0]. }
  rewrite Hhd in Hadj. rewrite EU in Hadj. cbn [tl] in Hadj.
  destruct u' as [|y u''].
  - (* the upper chain is a single point: pmax = pmin *)
    rewrite EU in LU. cbn [last] in LU. cbn [removelast] in Hadj. rewrite app_nil_r in Hadj.
    rewrite EL in Hadj. rewrite <- app_assoc in Hadj. cbn [app] in Hadj.
    apply adj_app_split in Hadj. destruct Hadj as [Hadj|Hadj].
    + rewrite <- EL in Hadj. apply (above_adj p sL HL). exact Hadj.
    + destruct Hadj as (m1 & m2 & E). destruct m1 as [|c1 [|c2 m1']]; cbn [app] in E.
      * injection E as E1 E2 _. subst a b. rewrite LU. rewrite il_same_l. lra.
      * injection E as _ E. discriminate.
      * injection E as _ _ E. destruct m1'; discriminate.
  - (* l ++ removelast u' ++ [pmin] = l' ++ u *)
    assert (Eu' : y :: u'' = removelast (y :: u'') ++ [pmin]).
    { rewrite <- LU, EU. change (last (pmax :: y :: u'') []) with (last (y :: u'') []). apply app_removelast_last. discriminate. }
    rewrite <- app_assoc in Hadj. rewrite <- Eu' in Hadj. rewrite EL in Hadj. rewrite <- app_assoc in Hadj. cbn [app] in Hadj.
    apply adj_app_split in Hadj. destruct Hadj as [Hadj|Hadj].
    + rewrite <- EL in Hadj. apply (above_adj p sL HL). exact Hadj.
    + rewrite <- EU in Hadj. apply (above_adj p sU HU). exact Hadj.
Qed.
Print Assumptions hull_contains_all_points.

(* the same with indices: edge i runs from h_i to h_{(i+1) mod k} *)
Theorem hull_contains_all_points_nth (points : list pt) (p : pt) :
  Forall is2d points -> In p points ->
  let h := convex_hull Rops points in
  forall i, (i < length h)%nat -> 0 <= il (nth i h []) (nth ((i + 1) mod length h) h []) p.
Proof.
  intros H2d Hp h i Hi. apply (hull_contains_all_points points p H2d Hp). fold h.
  set (L := h ++ [hd [] h]).
  assert (HL : length L = S (length h)) by (unfold L; rewrite app_length; cbn [length]; lia).
  pose proof (adj_nth [] L i ltac:(lia)) as H.
  assert (E1 : nth i L [] = nth i h []) by (unfold L; apply app_nth1; exact Hi).
  assert (E2 : nth (S i) L [] = nth ((i + 1) mod length h) h []).
  { destruct (Nat.eq_dec (S i) (length h)) as [E|E].
    - unfold L. rewrite app_nth2 by lia. rewrite E, Nat.sub_diag. cbn [nth].
      replace (i + 1)%nat with (length h) by lia. rewrite Nat.mod_same by lia. destruct h; reflexivity.
    - unfold L. rewrite app_nth1 by lia. rewrite Nat.mod_small by lia. f_equal. lia. }
  rewrite E1, E2 in H. exact H.
Qed.
Print Assumptions hull_contains_all_points_nth.

(* ================= 9. the dimension hypothesis is needed =================
   Definition C20_hull_contains_all_points_full (Props/C20.v) quantifies over ALL lists of real lists.  For "points"
   with fewer than two coordinates the model reads the missing coordinate as 0 while Python's list order puts the
   shorter list first, so the scan is not over a lexicographically sorted sequence and the statement fails
   (the real code raises IndexError on such input, so this is outside the modelled behaviour of geomdl): *)
Ltac decide_cmp :=
  repeat match goal with
  | |- context [Rltb ?a ?b] =>
      first [ replace (Rltb a b) with true by (symmetry; apply Rltb_true; lra)
            | replace (Rltb a b) with false by (symmetry; apply Rltb_false; lra) ]
  | |- context [Rleb ?a ?b] =>
      first [ replace (Rleb a b) with true by (symmetry; apply Rleb_true; lra)
            | replace (Rleb a b) with false by (symmetry; apply Rleb_false; lra) ]
  end.
Ltac crunch := repeat (progress (try unfold oeqb;
  cbn [keep_left pop_nonleft oltb oleb oadd osub omul Rops o0 pt_eqb pt_ltb insert_pt andb is_left cx cy nth]; decide_cmp)).
Ltac scan_step := match goal with |- context [fold_left ?f (?a :: ?l) ?s] =>
  let t := eval unfold keep_left in (f s a) in
  change (fold_left f (a :: l) s) with (fold_left f l t); crunch end.
Ltac scan_end := match goal with |- context [fold_left ?f [] ?s] => change (fold_left f [] s) with s end.

Lemma hull_witness : convex_hull Rops [[]; [-1]; [1]; [1; -1]] = [[]; [1; -1]; [1]].
Proof.
  unfold convex_hull, sort_pts. cbn [fold_right]. crunch.
  unfold half_hull. cbn [rev app]. do 4 scan_step. scan_end. do 4 scan_step. scan_end. reflexivity.
Qed.

Theorem hull_contains_without_dimension_refuted :
  ~ (forall (points : list pt) (p : pt), In p points ->
       let h := convex_hull Rops points in
       (3 <= length h)%nat ->
       forall i, (i < length h)%nat -> 0 <= il (nth i h []) (nth ((i + 1) mod length h) h []) p).
Proof.
  intro H. specialize (H ([[]; [-1]; [1]; [1; -1]] : list pt) ([-1] : pt) ltac:(right; left; reflexivity)). cbv zeta in H.
  rewrite hull_witness in H. specialize (H ltac:(cbn [length]; lia) 0%nat ltac:(cbn [length]; lia)).
  match type of H with context [Nat.modulo ?a ?b] => change (Nat.modulo a b) with 1%nat in H end.
  unfold is_left, cx, cy in H. cbn [nth] in H. rsimp. lra.
Qed.
Print Assumptions hull_contains_without_dimension_refuted.

(* [G] the statement of C20_hull_contains_all_points_full with the dimension hypothesis added *)
Theorem hull_contains_all_points_full_2d :
  forall (points : list (list R)) (p : list R), Forall (fun q => (2 <= length q)%nat) points -> In p points ->
    let h := convex_hull Rops points in
    (3 <= length h)%nat ->
    forall i, (i < length h)%nat -> 0 <= is_left Rops (List.nth i h []) (List.nth ((i + 1) mod length h) h []) p.
Proof. intros points p H2 Hp h _ i Hi. exact (hull_contains_all_points_nth points p H2 Hp i Hi). Qed.
Print Assumptions hull_contains_all_points_full_2d.
