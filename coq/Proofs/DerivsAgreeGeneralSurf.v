(* C02 / C17 [G]: the two shipped surface derivative evaluators agree on the triangle k + l <= order that A3.8 fills, for
   ALL bi-degrees:

     surface_derivs2_eq_surface_derivs :
       (k + l <= order) -> get3 (surface_derivs2 Rops dim pu pv Uu Uv su sv P u v order) k l
                         = get3 (surface_derivs  Rops dim pu pv Uu Uv su sv P u v order) k l

   for every sorted pair of knot vectors, every well-formed net, EVERY real parameter pair (u, v), every order (also above
   the degrees: zero vectors).  surface_derivs = A3.6 (SurfaceEvaluator.derivatives), surface_derivs2 = A3.8
   (SurfaceEvaluator2.derivatives) with A3.7 (helpers.surface_deriv_cpts) as repaired by
   /verif/fixes/C02-surface-deriv-cpts-loop.diff.  Outside the triangle (k + l > order) A3.8 leaves the zero vector
   (surface_derivs2_zero_outside_triangle) while A3.6 fills the whole square.

   Factorisation: A3.7 applies the curve algorithm A3.3 to the columns (u direction) and then to the resulting rows
   (v direction, on the trimmed knot list), so  PKL[k][l][i][j] = PK^v_l ( c |-> PK^u_k (P[c + sv *]) (r1+i) ) (s1+j)
   (pkl_entry); PK is linear in the control points (PK_linear), hence the u-sum of A3.8 moves inside PK^v, becomes the
   "temp" vector of A3.6 by the curve identity deriv_cpts_window in u, and the v-sum is the curve identity in v. *)
From Coq Require Import List Reals Lra Lia Arith Bool.
From NV Require Import Scalar.Ops Model.Common Model.Basis Model.Knots Model.Eval Model.Degree Model.Derivs
  Proofs.Boehm Proofs.BfN Proofs.BasisR Proofs.DerivAnalytic Proofs.EvalR Proofs.DerivLinkCurve Proofs.DersNdu
  Proofs.DersGeneral Proofs.DerivSurface Proofs.DerivGeneralInst Proofs.DerivCptsSpec Proofs.DerivsAgreeGeneral.
Import ListNotations.
Open Scope R_scope.

Lemma kn_skipn (U : list R) a m : knR (skipn a U) m = knR U (a + m).
Proof.
  unfold kn. revert U. induction a as [|a IH]; intros U; [reflexivity|].
  destruct U as [|x U]; cbn [skipn Nat.add nth].
  - destruct m; reflexivity.
  - apply IH.
Qed.

(* the control points of column c of the net (v index c), as A3.7 builds them *)
Definition colpts (P : list (list R)) (su sv c : nat) : list (list R) :=
  map (fun i => pt_at P (Nat.add c (Nat.mul sv i))) (seq 0 su).

Lemma colpts_nth P su sv c i : (i < su)%nat -> nth i (colpts P su sv c) [] = nth (c + sv * i) P [].
Proof. intros Hi. unfold colpts. rewrite nth_map_seq_gen by exact Hi. reflexivity. Qed.

Section Surf.
Variables (Uu Uv : list R) (P : list (list R)) (pu pv su sv dim : nat).
Hypothesis Husorted : sortedR Uu.
Hypothesis Hvsorted : sortedR Uv.
Hypothesis Hwf : wf_net P dim.
Hypothesis HLP : length P = (su * sv)%nat.
Hypothesis Hpu : (pu < su)%nat.
Hypothesis Hpv : (pv < sv)%nat.
Hypothesis HLu : length Uu = (su + pu + 1)%nat.
Hypothesis HLv : length Uv = (sv + pv + 1)%nat.
Variables (u v : R).

Notation spu := (find_span_linear Rops pu Uu su u).
Notation spv := (find_span_linear Rops pv Uv sv v).
Notation Vu := (Ufun Uu).
Notation Vv := (Ufun Uv).

Let Hsu : (pu <= spu < su)%nat. Proof. apply find_span_range; lia. Qed.
Let Hsv : (pv <= spv < sv)%nat. Proof. apply find_span_range; lia. Qed.

(* u direction: derivative control points of column c *)
Lemma col_entry c order' k i : (c < sv)%nat -> (k <= order')%nat -> (i + k <= pu)%nat ->
  let e := nth i (nth k (curve_deriv_cpts Rops pu Uu (colpts P su sv c) (spu - pu) spu order') []) [] in
  length e = dim /\
  forall d, (d < dim)%nat -> nth d e 0 = PK Vu pu (fun m => coord P (c + sv * m) d) k (spu - pu + i).
Proof.
  intros Hc Hk Hi. cbv zeta. rewrite cdc_nth by exact Hk. replace (spu - (spu - pu))%nat with pu by lia.
  destruct (cdc_row_spec pu Uu (colpts P su sv c) (spu - pu) pu dim Vu) with (k := k) (i := i) as [L N].
  - intros m Hm. symmetry. apply Ufun_in. lia.
  - intros i' Hi'. rewrite colpts_nth by lia. apply Hwf. rewrite HLP. nia.
  - exact Hi.
  - split; [exact L|]. intros d Hd. rewrite N by exact Hd. apply PK_ext.
    intros m Hm. unfold coord. rewrite colpts_nth by lia. reflexivity.
Qed.

(* A3.7: PKL[k][l][i][j] *)
Lemma pkl_entry order k l i j :
  (k <= Nat.min pu order)%nat -> (l <= Nat.min (order - k) (Nat.min pv order))%nat -> (i + k <= pu)%nat -> (j + l <= pv)%nat ->
  let e := pkl_get (surface_deriv_cpts Rops pu pv Uu Uv P su sv (spu - pu) spu (spv - pv) spv order) k l i j in
  length e = dim /\
  forall d, (d < dim)%nat ->
    nth d e 0 = PK Vv pv (fun c => PK Vu pu (fun m => coord P (c + sv * m) d) k (spu - pu + i)) l (spv - pv + j).
Proof.
  intros Hk Hl Hi Hj. cbv zeta. unfold pkl_get, surface_deriv_cpts. cbv zeta.
  fold (colpts P su sv).
  rewrite nth_map_seq_gen by lia. cbn [Nat.add].
  rewrite nth_map_seq_gen by lia. cbn [Nat.add].
  rewrite nth_map_seq_gen by lia. cbn [Nat.add].
  rewrite map_map. rewrite nth_map_seq_gen by lia. cbn [Nat.add].
  rewrite cdc_nth by lia.
  replace (spv - (spv - pv) - 0)%nat with pv by lia. replace (spv - (spv - pv))%nat with pv by lia.
  set (cols := map (fun j0 => curve_deriv_cpts Rops pu Uu (colpts P su sv j0) (spu - pu) spu (Nat.min pu order))
                   (seq (spv - pv) (S pv))).
  set (rowi := map (fun jj => pt_at (nth k (nth jj cols []) []) i) (seq 0 (S pv))).
  assert (Hrow : forall m, (m <= pv)%nat ->
            length (nth m rowi []) = dim /\
            forall d, (d < dim)%nat ->
              nth d (nth m rowi []) 0 = PK Vu pu (fun m' => coord P (spv - pv + m + sv * m') d) k (spu - pu + i)).
  { intros m Hm. unfold rowi. rewrite nth_map_seq_gen by lia. cbn [Nat.add]. unfold cols.
    rewrite nth_map_seq_gen by lia. unfold pt_at.
    apply (col_entry (spv - pv + m) (Nat.min pu order) k i); lia. }
  destruct (cdc_row_spec pv (skipn (spv - pv) Uv) rowi 0 pv dim (shiftV (spv - pv) Vv)) with (k := l) (i := j) as [L N].
  - intros m Hm. rewrite kn_skipn. unfold shiftV. symmetry. apply Ufun_in. lia.
  - intros m Hm. apply (Hrow m). exact Hm.
  - exact Hj.
  - split; [exact L|]. intros d Hd. rewrite N by exact Hd. cbn [Nat.add].
    rewrite <- (PK_shift (spv - pv) Vv pv
                  (fun c => PK Vu pu (fun m => coord P (c + sv * m) d) k (spu - pu + i)) l j).
    apply PK_ext. intros m Hm. unfold coord at 1. apply (Hrow m); [lia|exact Hd].
Qed.

(* A3.8, an entry inside the triangle and below the degrees *)
Lemma surface_derivs2_entry order k l :
  (k <= Nat.min pu order)%nat -> (l <= Nat.min (order - k) (Nat.min pv order))%nat ->
  let e := get3 (surface_derivs2 Rops dim pu pv Uu Uv su sv P u v order) k l in
  length e = dim /\
  forall d, (d < dim)%nat ->
    nth d e 0 = sumf (fun i => Nk Vv spv (pv - l) (spv - pv + l + i) v
                  * sumf (fun j => Nk Vu spu (pu - k) (spu - pu + k + j) u
                      * PK Vv pv (fun c => PK Vu pu (fun m => coord P (c + sv * m) d) k (spu - pu + j)) l (spv - pv + i))
                         (S (pu - k))) (S (pv - l)).
Proof.
  intros Hk Hl. cbv zeta. unfold get3, surface_derivs2. cbv zeta.
  rewrite nth_map_seq_gen by lia. cbn [Nat.add]. rewrite nth_map_seq_gen by lia. cbn [Nat.add].
  destruct (Nat.leb_spec k (Nat.min pu order)) as [_|Hc]; [|lia].
  destruct (Nat.leb_spec l (Nat.min (order - k) (Nat.min pv order))) as [_|Hc]; [|lia]. cbn [andb].
  set (PKL := surface_deriv_cpts Rops pu pv Uu Uv P su sv (spu - pu) spu (spv - pv) spv order).
  set (allu := basis_function_all Rops pu Uu spu u). set (allv := basis_function_all Rops pv Uv spv v).
  set (tempf := fun i => fold_left (fun t j => axpy Rops (bfall_get Rops allu j (pu - k)) (pkl_get PKL k l j i) t)
                                   (seq 0 (S (pu - k))) (vzero Rops dim)).
  assert (Htemp : forall i, (i < S (pv - l))%nat -> length (tempf i) = dim /\
            forall d, (d < dim)%nat ->
              nth d (tempf i) 0 = sumf (fun j => bfall_get Rops allu j (pu - k) * nth d (pkl_get PKL k l j i) 0) (S (pu - k))).
  { intros i Hi. unfold tempf.
    apply (fold_axpy_lt (fun j => bfall_get Rops allu j (pu - k)) (fun j => pkl_get PKL k l j i) dim (S (pu - k))).
    intros j Hj. apply (pkl_entry order k l j i); lia. }
  destruct (fold_axpy_lt (fun i => bfall_get Rops allv i (pv - l)) tempf dim (S (pv - l))
              (fun i Hi => proj1 (Htemp i Hi))) as [L N]. cbv beta zeta in L, N.
  split; [exact L|]. intros d Hd. rewrite N by exact Hd. apply sumf_ext. intros i Hi.
  unfold allv. rewrite bfall_get_piece by lia. replace (spv - (pv - l) + i)%nat with (spv - pv + l + i)%nat by lia. f_equal.
  rewrite (proj2 (Htemp i Hi)) by exact Hd. apply sumf_ext. intros j Hj.
  unfold allu. rewrite bfall_get_piece by lia. replace (spu - (pu - k) + j)%nat with (spu - pu + k + j)%nat by lia. f_equal.
  apply (pkl_entry order k l j i); try lia.
Qed.

(* A3.6, an entry below the degrees *)
Lemma surface_derivs_entry order k l :
  (k <= Nat.min pu order)%nat -> (l <= Nat.min pv order)%nat ->
  let e := get3 (surface_derivs Rops dim pu pv Uu Uv su sv P u v order) k l in
  length e = dim /\
  forall d, (d < dim)%nat ->
    nth d e 0 = sumf (fun s => dNk Vv spv l pv (spv - pv + s) v
                  * sumf (fun r => dNk Vu spu k pu (spu - pu + r) u * coord P (spv - pv + s + sv * (spu - pu + r)) d) (S pu))
                     (S pv).
Proof.
  intros Hk Hl. cbv zeta. unfold get3, surface_derivs. cbv zeta.
  rewrite nth_map_seq_gen by lia. cbn [Nat.add].
  destruct (Nat.leb_spec k (Nat.min pu order)) as [_|Hc]; [|lia].
  rewrite nth_map_seq_gen by lia. cbn [Nat.add].
  destruct (Nat.leb_spec l (Nat.min order (Nat.min pv order))) as [_|Hc]; [|lia].
  set (dersu := basis_function_ders Rops pu Uu spu u (Nat.min pu order)).
  set (dersv := basis_function_ders Rops pv Uv spv v (Nat.min pv order)).
  destruct (surface_tensor_fold dim pu pv su sv P (spu - pu) (spv - pv)
              (fun r => get2 Rops dersu k r) (fun s => get2 Rops dersv l s) Hwf HLP ltac:(lia) ltac:(lia)) as [L N].
  cbv zeta in L, N. split; [exact L|]. intros d Hd. rewrite (N d Hd).
  apply sumf_ext. intros s Hs. f_equal.
  - unfold get2, dersv. apply (ders_general_pieces Uv spv pv Hvsorted); lia.
  - apply sumf_ext. intros r Hr. f_equal. unfold get2, dersu. apply (ders_general_pieces Uu spu pu Husorted); lia.
Qed.

(* [G] THE THEOREM *)
Theorem surface_derivs2_eq_surface_derivs order k l : (k + l <= order)%nat ->
  get3 (surface_derivs2 Rops dim pu pv Uu Uv su sv P u v order) k l
  = get3 (surface_derivs Rops dim pu pv Uu Uv su sv P u v order) k l.
Proof.
  intros Hkl.
  destruct (le_lt_dec k (Nat.min pu order)) as [Hk|Hk]; [destruct (le_lt_dec l (Nat.min pv order)) as [Hl|Hl]|].
  - destruct (surface_derivs2_entry order k l Hk ltac:(lia)) as [L2 N2].
    destruct (surface_derivs_entry order k l Hk Hl) as [L1 N1]. cbv zeta in *.
    apply (nth_ext _ _ 0 0); [congruence|]. intros d Hd. rewrite L2 in Hd. rewrite N2, N1 by exact Hd.
    (* move the u-sum inside PK^v, use the curve identity in u, then in v *)
    set (T := fun c => sumf (fun r => dNk Vu spu k pu (spu - pu + r) u * coord P (c + sv * (spu - pu + r)) d) (S pu)).
    rewrite (sumf_ext _ (fun i => Nk Vv spv (pv - l) (spv - pv + l + i) v * PK Vv pv T l (spv - pv + i))).
    2:{ intros i _. f_equal.
        rewrite <- (PK_linear Vv pv (fun j => Nk Vu spu (pu - k) (spu - pu + k + j) u)
                      (fun j c => PK Vu pu (fun m => coord P (c + sv * m) d) k (spu - pu + j)) (S (pu - k)) l).
        apply PK_ext. intros c _. unfold T. symmetry.
        apply (deriv_cpts_window k Vu pu spu (fun m => coord P (c + sv * m) d) u); lia. }
    rewrite <- (deriv_cpts_window l Vv pv spv T v) by lia. reflexivity.
  - (* l above min(pv, order): both zero *)
    unfold get3, surface_derivs2, surface_derivs. cbv zeta.
    rewrite !nth_map_seq_gen by lia. cbn [Nat.add].
    destruct (Nat.leb_spec k (Nat.min pu order)) as [_|Hc]; [|lia].
    rewrite nth_map_seq_gen by lia. cbn [Nat.add].
    destruct (Nat.leb_spec l (Nat.min (order - k) (Nat.min pv order))) as [Hc|_]; [lia|].
    destruct (Nat.leb_spec l (Nat.min order (Nat.min pv order))) as [Hc|_]; [lia|]. reflexivity.
  - (* k above min(pu, order): both zero *)
    unfold get3, surface_derivs2, surface_derivs. cbv zeta.
    rewrite !nth_map_seq_gen by lia. cbn [Nat.add].
    destruct (Nat.leb_spec k (Nat.min pu order)) as [Hc|_]; [lia|]. cbn [andb].
    rewrite (nth_indep _ [] (vzero Rops dim)) by (rewrite repeat_length; lia). rewrite nth_repeat_in by lia. reflexivity.
Qed.

(* [G] with DerivGeneralInst.v: inside the half-open domain the alternative evaluator returns, on its triangle, the tensor
   product of the Eq. 2.9 derivatives = the mixed partial derivatives of the surface *)
Corollary surface_derivs2_is_dN_tensor_general order k l :
  knR Uu pu <= u < knR Uu su -> knR Uv pv <= v < knR Uv sv -> (k + l <= order)%nat ->
  length (get3 (surface_derivs2 Rops dim pu pv Uu Uv su sv P u v order) k l) = dim /\
  forall d, (d < dim)%nat ->
    nth d (get3 (surface_derivs2 Rops dim pu pv Uu Uv su sv P u v order) k l) 0 = surface_dkl Uu Uv pu pv su sv P k l d u v.
Proof.
  intros Hu Hv Hkl. rewrite surface_derivs2_eq_surface_derivs by exact Hkl.
  apply (surface_derivs_is_dN_tensor_general Uu Uv P pu pv su sv dim); try assumption; lia.
Qed.

(* object level: Surface.derivatives with evaluator = SurfaceEvaluator2 vs the default evaluator (non-rational) *)
Corollary Surface_derivatives_alg2_eq normalize order D2 D1 k l :
  Surface_derivatives Rops normalize false true dim pu pv Uu Uv su sv P u v order = Ok D2 ->
  Surface_derivatives Rops normalize false false dim pu pv Uu Uv su sv P u v order = Ok D1 ->
  (k + l <= order)%nat -> get3 D2 k l = get3 D1 k l.
Proof.
  unfold Surface_derivatives. destruct (andb normalize _); [discriminate|].
  intros E2 E1 Hkl. injection E2 as <-. injection E1 as <-. apply surface_derivs2_eq_surface_derivs. exact Hkl.
Qed.

(* operations.tangent / operations.normal on a non-rational surface: same answer with either evaluator *)
Corollary tangent_surface_alg2_eq normalize :
  tangent_surface Rops normalize false true dim pu pv Uu Uv su sv P u v
  = tangent_surface Rops normalize false false dim pu pv Uu Uv su sv P u v.
Proof.
  unfold tangent_surface, Surface_derivatives. destruct (andb normalize _); [reflexivity|]. cbn [res_map].
  rewrite !surface_derivs2_eq_surface_derivs by lia. reflexivity.
Qed.

Corollary normal_surface_alg2_eq normalize :
  normal_surface Rops normalize false true dim pu pv Uu Uv su sv P u v
  = normal_surface Rops normalize false false dim pu pv Uu Uv su sv P u v.
Proof.
  unfold normal_surface, Surface_derivatives. destruct (andb normalize _); [reflexivity|]. cbn [res_map].
  rewrite !surface_derivs2_eq_surface_derivs by lia. reflexivity.
Qed.
End Surf.

(* outside the triangle A3.8 leaves the initial zero vector *)
Lemma surface_derivs2_zero_outside_triangle dim pu pv (Uu Uv : list R) su sv (P : list (list R)) u v order k l : (k <= order)%nat -> (l <= order)%nat -> (order < k + l)%nat ->
  get3 (surface_derivs2 Rops dim pu pv Uu Uv su sv P u v order) k l = vzero Rops dim.
Proof.
  intros Hk Hl Hkl. unfold get3, surface_derivs2. cbv zeta.
  rewrite !nth_map_seq_gen by lia. cbn [Nat.add].
  destruct (Nat.leb_spec l (Nat.min (order - k) (Nat.min pv order))) as [Hc|_]; [lia|].
  rewrite Bool.andb_false_r. reflexivity.
Qed.

(* complete description of the list A3.8 returns: the triangle of A3.6, zero vectors elsewhere *)
Theorem surface_derivs2_is_triangle_of_surface_derivs (Uu Uv : list R) (P : list (list R)) (pu pv su sv dim : nat) :
  sortedR Uu -> sortedR Uv -> wf_net P dim -> length P = (su * sv)%nat -> (pu < su)%nat -> (pv < sv)%nat ->
  length Uu = (su + pu + 1)%nat -> length Uv = (sv + pv + 1)%nat ->
  forall u v order,
  surface_derivs2 Rops dim pu pv Uu Uv su sv P u v order
  = map (fun k => map (fun l => if Nat.leb (k + l) order
                                then get3 (surface_derivs Rops dim pu pv Uu Uv su sv P u v order) k l
                                else vzero Rops dim) (seq 0 (S order))) (seq 0 (S order)).
Proof.
  intros Hsu Hsv Hwf HLP Hpu Hpv HLu HLv u v order.
  assert (L1 : length (surface_derivs2 Rops dim pu pv Uu Uv su sv P u v order) = S order).
  { unfold surface_derivs2. rewrite map_length, seq_length. reflexivity. }
  apply (nth_ext _ _ [] []); [rewrite L1, map_length, seq_length; reflexivity|].
  intros k Hk. rewrite L1 in Hk.
  assert (L2 : length (nth k (surface_derivs2 Rops dim pu pv Uu Uv su sv P u v order) []) = S order).
  { unfold surface_derivs2. rewrite nth_map_seq_gen by lia. rewrite map_length, seq_length. reflexivity. }
  rewrite (nth_map_seq_gen _ 0 (S order) k) by lia. cbn [Nat.add].
  apply (nth_ext _ _ [] []); [rewrite L2, map_length, seq_length; reflexivity|].
  intros l Hl. rewrite L2 in Hl. rewrite (nth_map_seq_gen _ 0 (S order) l) by lia. cbn [Nat.add].
  change (nth l (nth k (surface_derivs2 Rops dim pu pv Uu Uv su sv P u v order) []) [])
    with (get3 (surface_derivs2 Rops dim pu pv Uu Uv su sv P u v order) k l).
  destruct (Nat.leb_spec (k + l) order) as [Hkl|Hkl].
  - apply surface_derivs2_eq_surface_derivs; assumption.
  - apply surface_derivs2_zero_outside_triangle; lia.
Qed.

Check surface_derivs2_eq_surface_derivs.
Check surface_derivs2_zero_outside_triangle.
Print Assumptions surface_derivs2_eq_surface_derivs.
Check surface_derivs2_is_triangle_of_surface_derivs.
Check surface_derivs2_is_dN_tensor_general.
Check Surface_derivatives_alg2_eq.
Check tangent_surface_alg2_eq.
Check normal_surface_alg2_eq.
Print Assumptions surface_derivs2_is_triangle_of_surface_derivs.
Print Assumptions surface_derivs2_is_dN_tensor_general.
Print Assumptions normal_surface_alg2_eq.
