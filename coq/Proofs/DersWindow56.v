(* C02 [B]: continuation of Proofs/DersWindow.v (separate file so that it compiles in parallel):
   A2.3 = Eq. 2.9 recursion (dbasis) for degree 5, derivative rows sum to zero for degree 6, on the symbolic knot window. *)
From Coq Require Import List Reals Lra Lia Arith Bool.
From NV Require Import Scalar.Ops Model.Common Model.Basis Proofs.BasisR Proofs.DersWindow.
Import ListNotations.
Open Scope R_scope.

Lemma ders_is_dbasis_5 : forall k0 k1 k2 k3 k4 k5 k6 k7 k8 k9 k10 k11 u, k0 <= k1 -> k1 <= k2 -> k2 <= k3 -> k3 <= k4 -> k4 <= k5 -> k5 <= u -> u < k6 -> k6 <= k7 -> k7 <= k8 -> k8 <= k9 -> k9 <= k10 -> k10 <= k11 ->
  let W := [k0;k1;k2;k3;k4;k5;k6;k7;k8;k9;k10;k11] in
  forall k, (k <= 5)%nat -> nth k (basis_function_ders Rops 5 W 5 u 5) [] = dbasis W 5 u k 5.
Proof.
  intros. assert (k = 0 \/ k = 1 \/ k = 2 \/ k = 3 \/ k = 4 \/ k = 5)%nat as Hc by lia.
  destruct Hc as [-> | [-> | [-> | [-> | [-> | ->]]]]]; unfold W; rcbv; lfld.
Qed.

Lemma ders_sum_zero_6 : forall k0 k1 k2 k3 k4 k5 k6 k7 k8 k9 k10 k11 k12 k13 u, k0 <= k1 -> k1 <= k2 -> k2 <= k3 -> k3 <= k4 -> k4 <= k5 -> k5 <= k6 -> k6 <= u -> u < k7 -> k7 <= k8 -> k8 <= k9 -> k9 <= k10 -> k10 <= k11 -> k11 <= k12 -> k12 <= k13 ->
  let W := [k0;k1;k2;k3;k4;k5;k6;k7;k8;k9;k10;k11;k12;k13] in
  forall k, (1 <= k <= 6)%nat -> sumT Rops (nth k (basis_function_ders Rops 6 W 6 u 6) []) = 0.
Proof.
  intros. assert (k = 1 \/ k = 2 \/ k = 3 \/ k = 4 \/ k = 5 \/ k = 6)%nat as Hc by lia.
  destruct Hc as [-> | [-> | [-> | [-> | [-> | ->]]]]]; unfold W; rcbv; field; repeat split; lra.
Qed.
