(* Ties: generated linalg.vector_multiply / vector_sum / vector_dot / vector_cross / matrix_transpose / matrix_multiply
   = Model/LinAlg.v.  vector_dot and matrix_multiply add from the left in Python and from the right in the model: they
   are stated under sum_laws K (Proofs/GenTieSums.v), which holds at Rops and Qops; the others for every scalar instance. *)
From Coq Require Import List ZArith Arith Bool Lia QArith.
From NV Require Import Scalar.Ops Model.Common Model.LinAlg Gen.Prelude Gen.LinalgInternal Gen.Linalg
  Proofs.GenTieLib Proofs.GenTieBasisOne Proofs.GenTieDersLib Proofs.GenTieSums.
Import ListNotations.
Local Open Scope nat_scope.

Ltac sc := first [assumption | apply wfm_set2; assumption | lia].

Lemma zlen_isnil {A} (l : list A) : (zlen l =? 0)%Z = isnil l.
Proof. destruct l; reflexivity. Qed.

Lemma gfor_append' {A B} (l : list A) (f : A -> list B -> gres (list B)) (gm : A -> B) (acc : list B) :
  (forall x acc, In x l -> f x acc = GOk (acc ++ [gm x])) -> gfor l f acc = GOk (acc ++ map gm l).
Proof.
  revert acc; induction l; simpl; intros acc H.
  - now rewrite app_nil_r.
  - rewrite H by auto. simpl. rewrite IHl by auto. now rewrite <- app_assoc.
Qed.

Lemma map_seq_nth {A B} (f : A -> B) (l : list A) d : map (fun j => f (nth j l d)) (seq 0 (length l)) = map f l.
Proof.
  induction l; simpl; auto. f_equal. rewrite <- seq_shift, map_map. exact IHl.
Qed.

Section Tie.
Context {T : Type} (K : ops T).
Notation "0" := (o0 K).
Notation g2 := (get2 K).

(* ---- vector_multiply, vector_sum: no condition ---- *)
Theorem vector_multiply_tie (v : list T) (s : T) : Linalg.vector_multiply K v s = GOk (LinAlg.vector_multiply K v s).
Proof. reflexivity. Qed.

Theorem vector_sum_tie (a b : list T) (c : T) : Linalg.vector_sum K a b c = GOk (LinAlg.vector_sum K a b c).
Proof.
  unfold Linalg.vector_sum, LinAlg.vector_sum. f_equal. apply map_ext. intros [x y]. reflexivity.
Qed.

(* ---- vector_cross: ValueError exactly when the model rejects ---- *)
Lemma len_guard (l : list T) :
  andb (1 <? zlen l)%Z (zlen l <=? 3)%Z = match l with [_; _] | [_; _; _] => true | _ => false end.
Proof.
  destruct l as [|x0 [|x1 [|x2 [|x3 r]]]]; try reflexivity.
  unfold zlen. simpl length.
  destruct (Z.leb_spec (Z.of_nat (S (S (S (S (length r)))))) 3); [lia|]. now rewrite andb_false_r.
Qed.

Theorem vector_cross_tie (a b : list T) :
  Linalg.vector_cross K a b = res_to_gres (fun x => x) ValueError IndexError (LinAlg.vector_cross K a b).
Proof.
  unfold Linalg.vector_cross, LinAlg.vector_cross.
  rewrite !len_guard, !zlen_isnil.
  destruct a as [|a0 [|a1 [|a2 [|a3 ra]]]]; destruct b as [|b0 [|b1 [|b2 [|b3 rb]]]]; reflexivity.
Qed.

(* ---- matrix_transpose ---- *)
(* wf: no row is shorter than the first one (the model's own condition); an empty matrix raises IndexError *)
Theorem matrix_transpose_tie (m : list (list T)) :
  (forall r, In r m -> length (hd [] m) <= length r) ->
  Linalg.matrix_transpose K m = res_to_gres (fun x => x) ValueError IndexError (LinAlg.matrix_transpose K m).
Proof.
  intros Hrows. unfold Linalg.matrix_transpose, LinAlg.matrix_transpose.
  destruct m as [|r0 mr]; [reflexivity|].
  rewrite znth_0. cbn [gbind].
  assert (Hf : forallb (fun r => Nat.leb (length r0) (length r)) (r0 :: mr) = true).
  { apply forallb_forall. intros r Hr. apply Nat.leb_le. apply (Hrows r Hr). }
  assert (Hrows' : forall j, j < length (r0 :: mr) -> length r0 <= length (nth j (r0 :: mr) [])).
  { intros j Hj. apply (Hrows (nth j (r0 :: mr) [])). now apply nth_In. }
  rewrite Hf. cbn [res_to_gres]. unfold zlen. rewrite !zrange_0_nat. set (m := r0 :: mr) in *.
  rewrite (gfor_map Z.of_nat).
  rewrite (gfor_append' (seq 0 (length r0)) _ (fun i => map (fun row => nth i row 0) m)).
  - reflexivity.
  - intros i acc Hi. apply in_seq in Hi. cbn [gbind].
    rewrite (gfor_map Z.of_nat).
    rewrite (gfor_append' (seq 0 (length m)) _ (fun j => nth i (nth j m []) 0)).
    + cbn [gbind app]. rewrite (map_seq_nth (fun row => nth i row 0) m []). reflexivity.
    + intros j acc' Hj. apply in_seq in Hj. cbn [gbind].
      rewrite (znth_nat m j []) by lia. cbn [gbind].
      rewrite (znth_nat (nth j m []) i 0). reflexivity.
      specialize (Hrows' j). lia.
Qed.
End Tie.

(* ---- the functions that add up ---- *)
Section TieSums.
Context {T : Type} (K : ops T) (LW : sum_laws K).
Notation "0" := (o0 K).
Notation g2 := (get2 K).

Lemma vdot_loop : forall (l : list (T * T)) acc,
  gfor l (fun '(v1, v2) prod => GOk (oadd K prod (omul K v1 v2))) acc =
  GOk (fold_left (fun acc p => oadd K acc (omul K (fst p) (snd p))) l acc).
Proof. induction l as [|[x y] r IH]; intros acc; simpl; auto. Qed.

(* vector_dot: ValueError exactly when the model rejects *)
Theorem vector_dot_tie (a b : list T) :
  Linalg.vector_dot K a b = res_to_gres (fun x => x) ValueError IndexError (LinAlg.vector_dot K a b).
Proof.
  unfold Linalg.vector_dot, LinAlg.vector_dot. rewrite !zlen_isnil. cbn [orb]. rewrite orb_false_r.
  destruct (orb (isnil a) (isnil b)); [reflexivity|]. cbn [gtry gbind res_to_gres].
  rewrite vdot_loop. cbn [gbind]. rewrite (fold_acc_sumT K LW). reflexivity.
Qed.

(* matrix_multiply.  GeomdlException <-> Rejected, IndexError <-> Crash.
   wf: every row of mat1 has at least len(mat2) entries and every row of mat2 at least len(mat2[0]) (Python only compares
   len(mat1[0]) with len(mat2); shorter rows raise IndexError, the model reads them as 0) *)
Theorem matrix_multiply_tie (a b : list (list T)) :
  (forall ra, In ra a -> length b <= length ra) -> (forall rb, In rb b -> length (hd [] b) <= length rb) ->
  Linalg.matrix_multiply K a b = res_to_gres (fun x => x) GeomdlError IndexError (LinAlg.matrix_multiply K a b).
Proof.
  intros Ha Hb. unfold Linalg.matrix_multiply, LinAlg.matrix_multiply.
  destruct a as [|r0 ar]; [reflexivity|]. rewrite znth_0. cbn [gbind]. unfold zlen.
  destruct (Z.eqb_spec (Z.of_nat (length r0)) (Z.of_nat (length b))); destruct (Nat.eqb_spec (length r0) (length b)); try lia;
    cbn [negb]; [|reflexivity].
  destruct b as [|b0 br]; [reflexivity|]. rewrite znth_0. cbn [gbind res_to_gres].
  set (a := r0 :: ar) in *. set (b := b0 :: br) in *. set (n := length a). set (m := length b0). set (q := length b).
  rewrite !map_const_zrange, !Nat2Z.id, !zrange_0_nat. fold (mk2 n m 0).
  assert (Hb' : forall k, k < q -> m <= length (nth k b [])).
  { intros k Hk. apply (Hb (nth k b [])). apply nth_In. exact Hk. }
  assert (Ha' : forall i, i < n -> q <= length (nth i a [])).
  { intros i Hi. apply (Ha (nth i a [])). apply nth_In. exact Hi. }
  set (S := fun i j => sumr K O q (fun k => omul K (nth k (nth i a []) 0) (g2 b k j))).
  match goal with |- context [gfor (map Z.of_nat (seq O n)) ?ff (mk2 n m 0)] =>
    destruct (gfor_seq_inv (fun ip (M : list (list T)) => wfm n m M
                  /\ (forall i j, i < ip -> j < m -> g2 M i j = S i j)
                  /\ (forall i j, ip <= i -> g2 M i j = 0)) ff n O) with (s := mk2 n m 0) as (MF & EF & WF & HF & _)
  end.
  { intros i M Hi (WM & Hdone & Hzero). cbn [gbind].
    match goal with |- context [gfor (map Z.of_nat (seq O m)) ?ff M] =>
      destruct (gfor_seq_inv (fun jp (M' : list (list T)) => wfm n m M'
                    /\ (forall i' j, i' <> i -> g2 M' i' j = g2 M i' j)
                    /\ (forall j, j < jp -> g2 M' i j = S i j)
                    /\ (forall j, jp <= j -> g2 M' i j = 0)) ff m O) with (s := M) as (M2 & E2 & W2 & H2a & H2b & _)
    end.
    { intros j M' Hj (WM' & Hoth & Hdn & Hz). cbn [gbind].
      match goal with |- context [gfor (map Z.of_nat (seq O q)) ?ff M'] =>
        destruct (gfor_seq_inv (fun kp (M'' : list (list T)) => wfm n m M''
                      /\ (forall i' j', (i' <> i \/ j' <> j) -> g2 M'' i' j' = g2 M' i' j')
                      /\ g2 M'' i j = fold_left (fun acc k => oadd K acc (omul K (nth k (nth i a []) 0) (g2 b k j))) (seq O kp) 0)
                    ff q O) with (s := M') as (M3 & E3 & W3 & H3a & H3b)
      end.
      { intros k M'' Hk (WM'' & Hoth'' & Hacc). cbn [gbind].
        rewrite (zget2k K n m M'') by sc.
        rewrite (znth_Z a _ []) by (fold n; lia). cbn [gbind].
        rewrite (znth_Z (nth (Z.to_nat (Z.of_nat i)) a []) _ 0) by (rewrite Nat2Z.id; specialize (Ha' i); lia). cbn [gbind].
        rewrite (znth_Z b _ []) by (fold q; lia). cbn [gbind].
        rewrite (znth_Z (nth (Z.to_nat (Z.of_nat k)) b []) _ 0) by (rewrite Nat2Z.id; specialize (Hb' k); lia). cbn [gbind].
        rewrite (zset2k n m M'') by sc. rewrite !Nat2Z.id.
        eexists. split; [reflexivity|]. split; [now apply wfm_set2|]. split.
        - intros i' j' Hij. rewrite (get_set2_other K n m) by (auto; lia). auto.
        - rewrite (get_set2_same K n m) by sc. rewrite seq_S, fold_left_app. cbn [fold_left]. rewrite Hacc. reflexivity. }
      { split; [assumption|]. split; [auto|]. cbn [seq fold_left]. apply Hz. lia. }
      rewrite E3. cbn [gbind]. eexists. split; [reflexivity|]. split; auto. split.
      - intros i' j' Hi'. rewrite H3a by auto. auto.
      - split.
        + intros j' Hj'. destruct (Nat.eq_dec j' j) as [->|Hne].
          * rewrite H3b. rewrite (fold_acc_sumT K LW). reflexivity.
          * rewrite H3a by auto. apply Hdn. lia.
        + intros j' Hj'. rewrite H3a by lia. apply Hz. lia. }
    { split; auto. split; auto. split; [intros j Hj; lia|]. intros j _. apply Hzero. lia. }
    rewrite E2. cbn [gbind]. eexists. split; [reflexivity|]. split; auto. split.
    - intros i' j Hi' Hj. destruct (Nat.eq_dec i' i) as [->|Hne].
      + apply H2b. lia.
      + rewrite H2a by auto. apply Hdone; lia.
    - intros i' j Hi'. rewrite H2a by lia. apply Hzero. lia. }
  { split; [apply mk2_wfm|]. split; [intros i j Hi; lia|].
    intros i j _. destruct (Nat.lt_ge_cases i n); destruct (Nat.lt_ge_cases j m).
    - now apply mk2_get.
    - unfold get2, mk2. rewrite nth_repeat_lt by lia. apply nth_overflow. rewrite repeat_length. lia.
    - unfold get2, mk2. rewrite (nth_overflow (repeat _ _)) by (rewrite repeat_length; lia). now destruct j.
    - unfold get2, mk2. rewrite (nth_overflow (repeat _ _)) by (rewrite repeat_length; lia). now destruct j. }
  rewrite EF. cbn [gbind]. f_equal. destruct WF as [WF1 WF2].
  unfold mmul. apply nth_ext with (d := []) (d' := []).
  - rewrite map_length. exact WF1.
  - intros i Hi. rewrite WF1 in Hi.
    rewrite (nth_indep (map _ a) [] ((fun ra => map (fun j => sumr K O (length b) (fun k => omul K (nth k ra 0) (g2 b k j))) (seq O (length (hd [] b)))) [])) by (rewrite map_length; exact Hi).
    rewrite (map_nth (fun ra => map (fun j => sumr K O (length b) (fun k => omul K (nth k ra 0) (g2 b k j))) (seq O (length (hd [] b)))) a [] i).
    apply nth_ext with (d := 0) (d' := 0).
    + rewrite WF2 by lia. now rewrite map_length, seq_length.
    + intros j Hj. rewrite WF2 in Hj by lia. fold (g2 MF i j). rewrite HF by lia.
      rewrite nth_map_seq by exact Hj. reflexivity.
Qed.
End TieSums.

Definition vector_multiply_tie_R := @vector_multiply_tie _ Rops.
Definition vector_multiply_tie_Q := @vector_multiply_tie _ Qops.
Definition vector_sum_tie_R := @vector_sum_tie _ Rops.
Definition vector_sum_tie_Q := @vector_sum_tie _ Qops.
Definition vector_cross_tie_R := @vector_cross_tie _ Rops.
Definition vector_cross_tie_Q := @vector_cross_tie _ Qops.
Definition matrix_transpose_tie_R := @matrix_transpose_tie _ Rops.
Definition matrix_transpose_tie_Q := @matrix_transpose_tie _ Qops.
Definition vector_dot_tie_R := @vector_dot_tie _ Rops Rops_sum_laws.
Definition vector_dot_tie_Q := @vector_dot_tie _ Qops Qops_sum_laws.
Definition matrix_multiply_tie_R := @matrix_multiply_tie _ Rops Rops_sum_laws.
Definition matrix_multiply_tie_Q := @matrix_multiply_tie _ Qops Qops_sum_laws.

(* ---- non-vacuity ---- *)
Local Open Scope Q_scope.
Example linalg_vector_ex :
  Linalg.vector_dot Qops [1; 2; 3] [3; 4; 5] = GOk 26 /\ LinAlg.vector_dot Qops [1; 2; 3] [3; 4; 5] = Ok 26
  /\ Linalg.vector_dot Qops [] [3] = GErr ValueError
  /\ Linalg.vector_cross Qops [1; 2] [3; 4; 5] = GOk [10; -5; -2] /\ LinAlg.vector_cross Qops [1; 2] [3; 4; 5] = Ok [10; -5; -2]
  /\ Linalg.vector_cross Qops [1] [3; 4; 5] = GErr ValueError
  /\ Linalg.vector_sum Qops [1; 2] [3; 4] (1#2) = GOk [5#2; 4] /\ Linalg.vector_multiply Qops [1; 2] (1#2) = GOk [1#2; 1].
Proof. repeat split; vm_compute; reflexivity. Qed.
Example linalg_matrix_ex :
  Linalg.matrix_multiply Qops [[4; 3; 2]; [2; 1; 3]; [3; 4; 1]] [[1; 2]; [3; 4]; [5; 6]] = GOk [[23; 32]; [20; 26]; [20; 28]]
  /\ LinAlg.matrix_multiply Qops [[4; 3; 2]; [2; 1; 3]; [3; 4; 1]] [[1; 2]; [3; 4]; [5; 6]] = Ok [[23; 32]; [20; 26]; [20; 28]]
  /\ Linalg.matrix_multiply Qops [[4; 3]; [2; 1]] [[1; 2]; [3; 4]; [5; 6]] = GErr GeomdlError
  /\ Linalg.matrix_transpose Qops [[1; 2]; [3; 4]; [5; 6]] = GOk [[1; 3; 5]; [2; 4; 6]]
  /\ LinAlg.matrix_transpose Qops [[1; 2]; [3; 4]; [5; 6]] = Ok [[1; 3; 5]; [2; 4; 6]]
  /\ Linalg.matrix_transpose Qops [] = GErr IndexError.
Proof. repeat split; vm_compute; reflexivity. Qed.
