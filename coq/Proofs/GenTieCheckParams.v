(* Tie: generated utilities.check_params (Gen/UtilitiesB.v) = InsertKnot.params_in_unit (the model of the [0, 1] test of the
   object wrappers: insert_knot, remove_knot, evaluate_single, derivatives ...).  A parameter is None (a direction that is not
   given) or a float: list (option T).  ALL inputs; no law of the scalar operations is used. *)
From Coq Require Import List ZArith Arith Bool Lia QArith.
From NV Require Import Scalar.Ops Model.Common Model.InsertKnot Gen.Prelude Gen.PreludeExt Gen.UtilitiesB Proofs.GenTieLib.
Import ListNotations.

Section Tie.
Context {T : Type} (K : ops T).

Theorem check_params_tie (params : list (option T)) :
  UtilitiesB.check_params K params = GOk (InsertKnot.params_in_unit K params).
Proof.
  unfold UtilitiesB.check_params, InsertKnot.params_in_unit.
  induction params as [|[x|] r IH]; cbn [gfor_ret gbind forallb]; [reflexivity| |exact IH].
  destruct (andb (oleb K (o0 K) x) (oleb K x (o1 K))); cbn [negb gbind andb]; [exact IH|reflexivity].
Qed.
End Tie.

Require Import Reals.
Definition check_params_tie_R := @check_params_tie R Rops.
Definition check_params_tie_Q := @check_params_tie Q Qops.

Local Open Scope Q_scope.
Example check_params_ex :
  UtilitiesB.check_params Qops [Some (3 # 10); None; Some 1] = GOk true
  /\ UtilitiesB.check_params Qops [Some (3 # 10); Some (3 # 2)] = GOk false
  /\ UtilitiesB.check_params Qops [None; Some (-1 # 10); Some 7] = GOk false
  /\ InsertKnot.params_in_unit Qops [None; Some (-1 # 10); Some 7] = false
  /\ UtilitiesB.check_params Qops [] = GOk true.
Proof. split; [|split; [|split; [|split]]]; vm_compute; reflexivity. Qed.
