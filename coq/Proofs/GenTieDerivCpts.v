(* Tie: generated helpers.curve_deriv_cpts (Gen/HelpersB.v) = Model/Derivs.v curve_deriv_cpts, for every scalar instance
   (no law is used).  The source allocates (deriv_order+1) x (r+1) x dim None placeholders and overwrites the defined points;
   row k keeps min(k, r+1) placeholder points.  The generated code types the slots as option T; the model returns the defined
   points only (row k has r-k+1 of them): the tie injects the model's rows with Some and pads them with the placeholders. *)
From Coq Require Import List ZArith Arith Bool Lia QArith.
From NV Require Import Scalar.Ops Model.Common Model.Eval Model.Derivs Gen.Prelude Gen.PreludeExt Gen.HelpersB
  Proofs.GenTieLib Proofs.GenTieLib2 Proofs.GenTieBasisOne Proofs.GenTieSubst.
Import ListNotations.
Local Open Scope nat_scope.

Lemma combine_map2 {A B C D} (f : A -> C) (g : B -> D) (a : list A) (b : list B) :
  combine (map f a) (map g b) = map (fun p => (f (fst p), g (snd p))) (combine a b).
Proof. revert b; induction a as [|x a IH]; intros [|y b]; simpl; auto. now rewrite IH. Qed.

Section Tie.
Context {T : Type} (K : ops T).

Definition blankpt (dim : nat) : list (option T) := repeat None dim.
(* a row of n slots whose first points are defined *)
Definition injrow (dim n : nat) (pts : list (list T)) : list (list (option T)) :=
  map (map Some) pts ++ repeat (blankpt dim) (n - length pts).
(* the result of the source for the rows M of the model *)
Definition injPK (dim r : nat) (M : list (list (list T))) : list (list (list (option T))) := map (injrow dim (S r)) M.

Lemma injrow_length dim n pts : length pts <= n -> length (injrow dim n pts) = n.
Proof. intros H. unfold injrow. rewrite app_length, map_length, repeat_length. lia. Qed.

Lemma injrow_step dim n pts x : length pts < n -> upd (injrow dim n pts) (length pts) (map Some x) = injrow dim n (pts ++ [x]).
Proof.
  intros H. unfold injrow. replace (n - length pts) with (S (n - length (pts ++ [x]))) by (rewrite app_length; simpl; lia).
  cbn [repeat]. rewrite upd_mid' by (now rewrite map_length). rewrite map_app, <- app_assoc. reflexivity.
Qed.

Lemma injrow_step' dim n pts i x : length pts = i -> i < n -> upd (injrow dim n pts) i (map Some x) = injrow dim n (pts ++ [x]).
Proof. intros <- H. now apply injrow_step. Qed.

Lemma nth_injrow dim n pts j d : j < length pts -> nth j (injrow dim n pts) d = map Some (nth j pts []).
Proof.
  intros H. unfold injrow. rewrite app_nth1 by (now rewrite map_length).
  rewrite (nth_indep _ d (map Some [])) by (now rewrite map_length). apply (map_nth (map Some)).
Qed.

Lemma firstn_S_nth {A} (l : list A) i d : i < length l -> firstn (S i) l = firstn i l ++ [nth i l d].
Proof.
  revert i; induction l as [|a l IH]; intros [|i] H; simpl in *; try lia; [reflexivity|]. f_equal. apply IH. lia.
Qed.

(* filling one row of the table, slot by slot *)
Lemma fill_row dim n (pre post : list (list (list (option T)))) (target : list (list T))
      (body : Z -> list (list (list (option T))) -> gres (list (list (list (option T))))) :
  length target <= n ->
  (forall i, i < length target ->
     body (Z.of_nat i) (pre ++ injrow dim n (firstn i target) :: post) = GOk (pre ++ injrow dim n (firstn (S i) target) :: post)) ->
  gfor (map Z.of_nat (seq O (length target))) body (pre ++ injrow dim n [] :: post) = GOk (pre ++ injrow dim n target :: post).
Proof.
  intros Hlen Hbody.
  destruct (gfor_seq_inv (fun i X => X = pre ++ injrow dim n (firstn i target) :: post) body (length target) O)
    with (s := pre ++ injrow dim n [] :: post) as (X & E & HX).
  - intros i X Hi ->. eexists. split; [apply Hbody; lia|reflexivity].
  - reflexivity.
  - rewrite E, HX. cbn [Nat.add]. now rewrite firstn_all.
Qed.

(* the rows of the model *)
Definition PK0 (cpts : list (list T)) (r1 r : nat) : list (list T) := map (fun i => pt_at cpts (r1 + i)) (seq O (S r)).
Fixpoint rowm (p : nat) (kv : list T) (cpts : list (list T)) (r1 r k : nat) : list (list T) :=
  match k with
  | O => PK0 cpts r1 r
  | S k' => deriv_row K p kv r1 r k (rowm p kv cpts r1 r k')
  end.
Lemma rowm_length p kv cpts r1 r k : length (rowm p kv cpts r1 r k) = S r - k.
Proof. destruct k; cbn [rowm]; [unfold PK0|unfold deriv_row]; now rewrite map_length, seq_length. Qed.

Lemma model_rows p kv cpts r1 r2 order :
  Derivs.curve_deriv_cpts K p kv cpts r1 r2 order = map (rowm p kv cpts r1 (r2 - r1)) (seq O (S order)).
Proof.
  unfold Derivs.curve_deriv_cpts. cbv zeta. set (r := r2 - r1). fold (PK0 cpts r1 r).
  enough (H : fold_left (fun (st : list (list (list T)) * list (list T)) k =>
                 (fst st ++ [deriv_row K p kv r1 r k (snd st)], deriv_row K p kv r1 r k (snd st))) (seq 1 order) ([PK0 cpts r1 r], PK0 cpts r1 r)
              = (map (rowm p kv cpts r1 r) (seq O (S order)), rowm p kv cpts r1 r order)) by now rewrite H.
  induction order as [|o IH]; [reflexivity|].
  rewrite seq_S, fold_left_app, IH. cbn [fold_left fst snd Nat.add]. rewrite (seq_S (S o) O), map_app. reflexivity.
Qed.

(* wf: rs = (r1, r2) with r1 <= r2 < len(cpts); the knots read exist (r2 + degree < len(kv)); deriv_order <= degree + 1
   (beyond that the source multiplies by a negative degree - k + 1, the model by 0) *)
Theorem curve_deriv_cpts_tie (dim p : nat) (kv : list T) (cpts : list (list T)) (r1 r2 order : nat) :
  r1 <= r2 -> r2 < length cpts -> r2 + p < length kv -> order <= S p ->
  HelpersB.curve_deriv_cpts K (Z.of_nat dim) (Z.of_nat p) kv cpts [Z.of_nat r1; Z.of_nat r2] (Z.of_nat order) =
  GOk (injPK dim (r2 - r1) (Derivs.curve_deriv_cpts K p kv cpts r1 r2 order)).
Proof.
  intros H12 Hr2 Hkv Hord. unfold HelpersB.curve_deriv_cpts.
  change (znth [Z.of_nat r1; Z.of_nat r2] 1%Z) with (GOk (Z.of_nat r2)).
  change (znth [Z.of_nat r1; Z.of_nat r2] 0%Z) with (GOk (Z.of_nat r1)). cbn [gbind].
  set (r := r2 - r1). replace (Z.of_nat r2 - Z.of_nat r1)%Z with (Z.of_nat r) by (unfold r; lia).
  replace (Z.of_nat r + 1)%Z with (Z.of_nat (S r)) by lia.
  replace (Z.of_nat order + 1)%Z with (Z.of_nat (S order)) by lia.
  rewrite !map_const_zrange, !Nat2Z.id. fold (blankpt dim).
  rewrite model_rows. fold r. set (rm := rowm p kv cpts r1 r).
  change (repeat (blankpt dim) (S r)) with (repeat (blankpt dim) (S r - length (@nil (list T)))).
  change (repeat (blankpt dim) (S r - length (@nil (list T)))) with (injrow dim (S r) []).
  cbn [repeat]. rewrite zrange_0_nat.
  (* row 0 *)
  assert (L0 : length (rm O) = S r) by (unfold rm; rewrite rowm_length; lia).
  replace (seq O (S r)) with (seq O (length (rm O))) by now rewrite L0.
  rewrite (fill_row dim (S r) [] (repeat (injrow dim (S r) []) order) (rm O)).
  2:{ lia. }
  2:{ intros i Hi. cbn [app gbind]. rewrite L0 in Hi.
      replace (Z.of_nat r1 + Z.of_nat i)%Z with (Z.of_nat (r1 + i)) by lia.
      rewrite (znth_nat cpts (r1 + i) []) by (unfold r in Hi; lia). cbn [gbind]. rewrite znth_0. cbn [gbind].
      assert (Lf : length (firstn i (rm O)) = i) by (rewrite firstn_length; lia).
      rewrite zset_nat by (rewrite injrow_length; rewrite ?Lf; lia). cbn [gbind].
      change (zset (?a :: ?b) 0%Z ?v) with (GOk (v :: b)). cbn [gbind]. f_equal. f_equal.
      rewrite map_id. rewrite (injrow_step' dim (S r) _ i) by (auto; lia). f_equal.
      rewrite (firstn_S_nth _ i []) by lia. f_equal. f_equal.
      unfold rm. cbn [rowm]. unfold PK0. rewrite nth_map_seq by lia. reflexivity. }
  cbn [gbind app].
  (* rows 1 .. order *)
  rewrite zrange_1_of_nat. replace (S order - 1) with order by lia.
  match goal with |- context [gfor (map Z.of_nat (seq 1 order)) ?ff ?s0] =>
    destruct (gfor_seq_inv (fun k X => X = map (fun k' => injrow dim (S r) (rm k')) (seq O k) ++ repeat (injrow dim (S r) []) (S order - k))
                ff order 1) with (s := s0) as (XF & EF & HF)
  end.
  - intros k X Hk ->. cbn [gbind].
    replace (Z.of_nat r - Z.of_nat k + 1)%Z with (Z.of_nat (S r) - Z.of_nat k)%Z by lia.
    rewrite zrange_0. replace (Z.to_nat (Z.of_nat (S r) - Z.of_nat k)) with (S r - k) by lia.
    set (pre := map (fun k' => injrow dim (S r) (rm k')) (seq O k)).
    assert (Lpre : length pre = k) by (unfold pre; now rewrite map_length, seq_length).
    replace (S order - k) with (S (order - k)) by lia. cbn [repeat].
    assert (Lk : length (rm k) = S r - k) by (unfold rm; apply rowm_length).
    replace (seq O (S r - k)) with (seq O (length (rm k))) by now rewrite Lk.
    rewrite (fill_row dim (S r) pre (repeat (injrow dim (S r) []) (order - k)) (rm k)).
    2:{ lia. }
    2:{ intros i Hi. rewrite Lk in Hi. cbn [gbind].
        replace (Z.of_nat k - 1)%Z with (Z.of_nat (k - 1)) by lia.
        assert (Epre : forall rest, nth (k - 1) (pre ++ rest) [] = injrow dim (S r) (rm (k - 1))).
        { intros rest. rewrite app_nth1 by lia. unfold pre. rewrite nth_map_seq by lia. reflexivity. }
        assert (Lk1 : length (rm (k - 1)) = S r - (k - 1)) by (unfold rm; apply rowm_length).
        rewrite !(znth_nat _ (k - 1) []) by (rewrite app_length; cbn [length]; lia). cbn [gbind]. rewrite !Epre.
        replace (Z.of_nat i + 1)%Z with (Z.of_nat (S i)) by lia.
        rewrite (znth_nat _ (S i) []) by (rewrite injrow_length; lia). cbn [gbind].
        rewrite (znth_nat _ i []) by (rewrite injrow_length; lia). cbn [gbind].
        rewrite !nth_injrow by lia.
        set (a := nth (S i) (rm (k - 1)) []). set (b := nth i (rm (k - 1)) []).
        set (den := osub K (kn K kv (r1 + i + p + 1)) (kn K kv (r1 + i + k))).
        rewrite (gmapM_ok _ (fun ab : option T * option T =>
                   match ab with (Some e1, Some e2) => odiv K (omul K (ofnat K (p + 1 - k)) (osub K e1 e2)) den | _ => o0 K end)).
        2:{ intros [o1 o2] Hin. rewrite combine_map2 in Hin. apply in_map_iff in Hin. destruct Hin as ([e1 e2] & Ee & _).
            injection Ee as <- <-. cbn [py_unopt gbind].
            replace (Z.of_nat r1 + Z.of_nat i + Z.of_nat p + 1)%Z with (Z.of_nat (r1 + i + p + 1)) by lia.
            replace (Z.of_nat r1 + Z.of_nat i + Z.of_nat k)%Z with (Z.of_nat (r1 + i + k)) by lia.
            rewrite (znth_nat kv (r1 + i + p + 1) (o0 K)) by (unfold r in Hi; lia). cbn [gbind].
            rewrite (znth_nat kv (r1 + i + k) (o0 K)) by (unfold r in Hi; lia). cbn [gbind].
            replace (Z.of_nat p - Z.of_nat k + 1)%Z with (Z.of_nat (p + 1 - k)) by lia. rewrite ofZ_of_nat. reflexivity. }
        cbn [gbind].
        rewrite (znth_nat _ k []) by (rewrite app_length; cbn [length]; lia). cbn [gbind].
        rewrite <- Lpre at 1. rewrite nth_middle.
        assert (Lf : length (firstn i (rm k)) = i) by (rewrite firstn_length; lia).
        rewrite zset_nat by (rewrite injrow_length; rewrite ?Lf; lia). cbn [gbind].
        rewrite zset_nat by (rewrite app_length; cbn [length]; lia). cbn [gbind].
        rewrite upd_mid' by exact Lpre. f_equal. f_equal. f_equal.
        rewrite (injrow_step' dim (S r) _ i) by (auto; lia). f_equal.
        rewrite (firstn_S_nth _ i []) by lia. f_equal. f_equal.
        (* the new point is entry i of the model's row k *)
        subst a b den. destruct k as [|k']; [lia|]. replace (S k' - 1) with k' by lia.
        change (rm (S k')) with (deriv_row K p kv r1 r (S k') (rm k')). unfold deriv_row.
        rewrite nth_map_seq by lia. unfold pt_at. rewrite combine_map2, map_map. apply map_ext. intros [e1 e2]. reflexivity. }
    cbn [gbind]. eexists. split; [reflexivity|].
    rewrite seq_S, map_app. cbn [map Nat.add]. rewrite <- app_assoc. cbn [app].
    replace (S order - S k) with (order - k) by lia. reflexivity.
  - cbn [seq map app]. replace (S order - 1) with order by lia. reflexivity.
  - rewrite EF. cbn [gbind]. rewrite HF. replace (S order - (1 + order)) with O by lia. cbn [repeat]. rewrite app_nil_r.
    unfold injPK. rewrite map_map. reflexivity.
Qed.
End Tie.

Definition curve_deriv_cpts_tie_R := @curve_deriv_cpts_tie _ Rops.
Definition curve_deriv_cpts_tie_Q := @curve_deriv_cpts_tie _ Qops.

(* ---- non-vacuity: degree 3, a repeated interior knot, the window rs = (2, 5), two derivatives ---- *)
Local Open Scope Q_scope.
Example curve_deriv_cpts_ex :
  let U := [0; 0; 0; 0; 1#4; 1#2; 1#2; 3#4; 1; 1; 1; 1] in
  let P := [[0; 0]; [1; 2]; [2; 3]; [4; 3]; [5; 1]; [6; 0]; [7; 2]; [9; 3]] in
  HelpersB.curve_deriv_cpts Qops 2 3 U P [2%Z; 5%Z] 2 =
    GOk [[[Some 2; Some 3]; [Some 4; Some 3]; [Some 5; Some 1]; [Some 6; Some 0]];
         [[Some 12; Some 0]; [Some 6; Some (-12)]; [Some 6; Some (-6)]; [None; None]];
         [[Some (-48); Some (-96)]; [Some 0; Some 48]; [None; None]; [None; None]]]
  /\ Derivs.curve_deriv_cpts Qops 3 U P 2 5 2 =
     [[[2; 3]; [4; 3]; [5; 1]; [6; 0]]; [[12; 0]; [6; -12]; [6; -6]]; [[-48; -96]; [0; 48]]]
  /\ HelpersB.curve_deriv_cpts Qops 2 3 U P [2%Z; 8%Z] 1 = GErr IndexError.
Proof. repeat split; vm_compute; reflexivity. Qed.
