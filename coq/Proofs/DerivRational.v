(* C02, rational curves: the derivative vectors computed by A4.2 (CurveEvaluatorRational.derivatives,
   Model.Derivs.rat_curve_derivs applied to the A3.2 output on the homogeneous net Pw) are the true, limit-based
   derivatives of the rational curve  x |-> A(x) / w(x),  A = curve_def of the weighted coordinates, w = curve_def of
   the weights  (EvalR.rational_curve_point_is_quotient: this quotient IS the evaluated point of the NURBS curve).

   [B: degrees 1..5]  every sorted knot vector (any multiplicities), every span of the domain, every requested order
   (also above the degree), positive weights.

   Ingredients: Proofs/LeibnizRule.v (the Leibniz recursion determines the derivatives of a quotient),
   Proofs/DerivsR.v (A4.2's output satisfies the recursion), Proofs/DerivLinkCurve.v (the homogeneous rows of A3.2 are
   the analytic derivatives of the homogeneous coordinates), EvalR.rational_weight_function_positive. *)
From Coq Require Import List Reals Lra Lia Arith Bool.
From NV Require Import Scalar.Ops Model.Common Model.Basis Model.Knots Model.Eval Model.Degree Model.Derivs
  Proofs.Boehm Proofs.BasisR Proofs.DerivAnalytic Proofs.EvalR Proofs.DerivLink Proofs.DerivLinkCurve Proofs.DerivsR
  Proofs.LeibnizRule Proofs.DerivLinkAbs.
Import ListNotations.
Open Scope R_scope.

Lemma lsum_seq_sumf f : forall n a, lsum (seq a n) f = sumf (fun i => f (a + i)%nat) n.
Proof.
  induction n as [|n IH]; intros a; [reflexivity|].
  cbn [seq lsum]. rewrite IH, sumf_S0, Nat.add_0_r.
  f_equal. apply sumf_ext. intros i _. f_equal. lia.
Qed.

Lemma vlast_nth (v : list R) n : length v = S n -> vlast Rops v = nth n v 0.
Proof.
  intros H. unfold vlast. change (o0 Rops) with 0. rewrite (BasisR.last_nth v 0) by (destruct v; [discriminate|congruence]).
  rewrite H. f_equal. lia.
Qed.

Section RatCurve.
Variables (U : list R) (Pw : list (list R)) (p dim : nat).
Hypothesis Usorted : sortedR U.
Hypothesis Hwf : wf_net Pw (S dim).                  (* homogeneous control points (x*w, y*w, .., w) *)
Hypothesis Hlk : ders_link p.                        (* rows of A2.3 = Eq. 2.9 (degrees 1..5: DerivLinkAbs.ders_link_deg_le_5) *)
Hypothesis Hp : (p < length Pw)%nat.
Hypothesis HL : length U = (length Pw + p + 1)%nat.
Hypothesis Hpos : forall i, (i < length Pw)%nat -> 0 < coord Pw i dim.   (* positive weights *)
Variable order : nat.

(* coordinate d of the k-th vector returned by A4.2 at parameter x *)
Notation rat_ck d k x := (nth d (nth k (rat_curve_derivs Rops (curve_derivs Rops (S dim) p U Pw x order) order) []) 0).

Let Vs := Ufun_sorted U Usorted.

(* the homogeneous rows are derivative families (all orders; zero above the degree) *)
Lemma curve_dk_deriv s k d x : Ufun U s < x < Ufun U (S s) ->
  derivable_pt_lim (fun y => curve_dk U p Pw k d y) x (curve_dk U p Pw (S k) d x).
Proof. intros Hx. unfold curve_dk. apply (curve_dN_is_kth_derivative (Ufun U) Vs s). exact Hx. Qed.

Lemma curve_dk_right_deriv s k d x : Ufun U s <= x < Ufun U (S s) ->
  right_derivable_pt_lim (fun y => curve_dk U p Pw k d y) x (curve_dk U p Pw (S k) d x).
Proof. intros Hx. unfold curve_dk. apply (curve_dN_right_derivative (Ufun U) Vs s). exact Hx. Qed.

(* A4.2's output satisfies the Leibniz recursion against the Eq. 2.9 rows of the homogeneous coordinates *)
Lemma rat_curve_derivs_recursion_of_link x k d :
  knR U p <= x < knR U (length Pw) -> (k <= order)%nat -> (d < dim)%nat ->
  sumf (fun i => INR (binom k i) * curve_dk U p Pw i dim x * rat_ck d (k - i) x) (S k) = curve_dk U p Pw k d x.
Proof.
  intros Hx Hk Hd.
  set (CKw := curve_derivs Rops (S dim) p U Pw x order).
  assert (HLen : forall j, (j <= order)%nat -> length (nth j CKw []) = S dim).
  { intros j Hj. apply (curve_derivs_is_dN_sum_of_link U Pw p (S dim) Usorted Hwf Hlk Hp HL x order j Hx Hj). }
  assert (Hval : forall j c, (j <= order)%nat -> (c < S dim)%nat -> nth c (nth j CKw []) 0 = curve_dk U p Pw j c x).
  { intros j c Hj Hc. apply (curve_derivs_is_dN_sum_of_link U Pw p (S dim) Usorted Hwf Hlk Hp HL x order j Hx Hj). exact Hc. }
  assert (Hwd : forall j, (j <= order)%nat -> wd CKw j = curve_dk U p Pw j dim x).
  { intros j Hj. unfold wd. rewrite (vlast_nth _ dim) by (apply HLen; exact Hj). apply Hval; [exact Hj|lia]. }
  assert (Hw0 : wd CKw 0 <> 0).
  { rewrite Hwd by lia. rewrite curve_dk_0.
    pose proof (rational_weight_function_positive U Pw p dim x Usorted Hp HL Hx Hpos). lra. }
  destruct (rat_curve_derivs_leibniz CKw dim order HLen Hw0) as [_ HLeib]. cbn zeta in HLeib.
  specialize (HLeib k d Hk Hd). rewrite lsum_seq_sumf in HLeib.
  unfold Ad in HLeib. rewrite removelast_nth in HLeib by (rewrite HLen by exact Hk; lia).
  rewrite Hval in HLeib by (try lia; exact Hk). rewrite <- HLeib.
  apply sumf_ext. intros i Hi. cbn [Nat.add]. rewrite Hwd by lia. reflexivity.
Qed.

Section Span.
Variable s : nat.                       (* a knot span of the domain *)
Hypothesis Hs : (p <= s < length Pw)%nat.

Let Es : Ufun U s = knR U s. Proof. apply Ufun_in. lia. Qed.
Let Es1 : Ufun U (S s) = knR U (s + 1). Proof. rewrite Ufun_in by lia. f_equal. lia. Qed.
Let dom x : knR U s <= x < knR U (s + 1) -> knR U p <= x < knR U (length Pw).
Proof.
  intros Hx. assert (knR U p <= knR U s) by (apply Usorted; lia).
  assert (knR U (s + 1) <= knR U (length Pw)) by (apply Usorted; lia). lra.
Qed.

Let w0_nonzero x : knR U s <= x < knR U (s + 1) -> curve_dk U p Pw 0 dim x <> 0.
Proof.
  intros Hx. rewrite curve_dk_0.
  pose proof (rational_weight_function_positive U Pw p dim x Usorted Hp HL (dom x Hx) Hpos). lra.
Qed.

(* one step, two-sided, strictly inside the span: CK[k+1](u) is the derivative at u of x |-> CK[k](x) *)
Theorem rat_curve_derivs_consecutive_of_link k d u : (S k <= order)%nat -> (d < dim)%nat ->
  knR U s < u < knR U (s + 1) ->
  derivable_pt_lim (fun x => rat_ck d k x) u (rat_ck d (S k) u).
Proof.
  intros Hk Hd Hu.
  apply (quotient_derivatives_unique (knR U s) (knR U (s + 1)) order
           (fun j x => curve_dk U p Pw j d x) (fun j x => curve_dk U p Pw j dim x) (fun j x => rat_ck d j x)).
  - intros j x _ Hx. apply (curve_dk_deriv s). rewrite Es, Es1. exact Hx.
  - intros j x _ Hx. apply (curve_dk_deriv s). rewrite Es, Es1. exact Hx.
  - intros x Hx. apply w0_nonzero. lra.
  - intros j x Hj Hx. apply rat_curve_derivs_recursion_of_link; [apply dom; lra|exact Hj|exact Hd].
  - lia.
  - exact Hu.
Qed.

(* one step, right derivative on the half-open span, in particular at the knot U_s (the convention of the property) *)
Theorem rat_curve_derivs_right_derivative_of_link k d u : (S k <= order)%nat -> (d < dim)%nat ->
  knR U s <= u < knR U (s + 1) ->
  right_derivable_pt_lim (fun x => rat_ck d k x) u (rat_ck d (S k) u).
Proof.
  intros Hk Hd Hu.
  apply (quotient_right_derivatives_unique (knR U s) (knR U (s + 1)) order
           (fun j x => curve_dk U p Pw j d x) (fun j x => curve_dk U p Pw j dim x) (fun j x => rat_ck d j x)).
  - intros j x _ Hx. apply (curve_dk_right_deriv s). rewrite Es, Es1. exact Hx.
  - intros j x _ Hx. apply (curve_dk_right_deriv s). rewrite Es, Es1. exact Hx.
  - intros x Hx. apply w0_nonzero. exact Hx.
  - intros j x Hj Hx. apply rat_curve_derivs_recursion_of_link; [apply dom; exact Hx|exact Hj|exact Hd].
  - lia.
  - exact Hu.
Qed.

(* MAIN: coordinate d of CK[k], as a function of the parameter, is a k-th iterated analytic derivative of the rational
   curve coordinate  A_d / w  on the open span (U_s, U_{s+1}) *)
Theorem rat_curve_derivs_are_true_derivatives_of_link k d : (k <= order)%nat -> (d < dim)%nat ->
  kth_deriv_on (knR U s) (knR U (s + 1)) k
    (fun x => curve_def U p Pw d x / curve_def U p Pw dim x)
    (fun x => rat_ck d k x).
Proof.
  intros Hk Hd.
  apply (quotient_kth_deriv_on (knR U s) (knR U (s + 1)) order
           (fun j x => curve_dk U p Pw j d x) (fun j x => curve_dk U p Pw j dim x) (fun j x => rat_ck d j x)).
  - intros j x _ Hx. apply (curve_dk_deriv s). rewrite Es, Es1. exact Hx.
  - intros j x _ Hx. apply (curve_dk_deriv s). rewrite Es, Es1. exact Hx.
  - intros x Hx. apply w0_nonzero. lra.
  - intros j x Hj Hx. apply rat_curve_derivs_recursion_of_link; [apply dom; lra|exact Hj|exact Hd].
  - exact Hk.
Qed.

(* order 0 is the evaluated point of the NURBS curve, on the whole half-open span *)
Theorem rat_curve_derivs_order0_is_point_of_link d x : (d < dim)%nat -> knR U s <= x < knR U (s + 1) ->
  rat_ck d 0 x = nth d (obj_curve_point Rops true dim p U Pw x) 0.
Proof.
  intros Hd Hx.
  rewrite (rational_curve_point_is_quotient U Pw p dim x Usorted Hwf Hp HL (dom x Hx) d Hd).
  pose proof (rat_curve_derivs_recursion_of_link x 0 d (dom x Hx) ltac:(lia) Hd) as E.
  cbn [sumf binom INR Nat.sub] in E. rewrite !curve_dk_0 in E.
  pose proof (w0_nonzero x Hx) as Hw. rewrite curve_dk_0 in Hw.
  rewrite <- E. field. exact Hw.
Qed.

(* the tangent vector of the NURBS curve object is the derivative of its evaluated point *)
Corollary rat_curve_tangent_is_derivative_of_point_of_link d u : (1 <= order)%nat -> (d < dim)%nat ->
  knR U s < u < knR U (s + 1) ->
  derivable_pt_lim (fun x => nth d (obj_curve_point Rops true dim p U Pw x) 0) u (rat_ck d 1 u).
Proof.
  intros Ho Hd Hu.
  apply (dl_local (fun x => rat_ck d 0 x) _ (knR U s) (knR U (s + 1))); [exact Hu| |].
  - intros y Hy. apply rat_curve_derivs_order0_is_point_of_link; [exact Hd|lra].
  - apply rat_curve_derivs_consecutive_of_link; [lia|exact Hd|exact Hu].
Qed.
End Span.

(* object level: NURBS.Curve.derivatives with the default evaluator (rational = true) returns exactly these vectors *)
Lemma Curve_derivatives_rational_unfold normalize u CK :
  Curve_derivatives Rops normalize true false (S dim) p U Pw u order = Ok CK ->
  CK = rat_curve_derivs Rops (curve_derivs Rops (S dim) p U Pw u order) order.
Proof.
  unfold Curve_derivatives. destruct (andb normalize _); [discriminate|]. intros E. injection E as <-. reflexivity.
Qed.
End RatCurve.

(* ------------------------------------------------------------------------------------------------ *)
(* [B: degrees 1..5] the instances with the bounded link of Proofs/DerivLink.v                        *)
Section Deg5.
Variables (U : list R) (Pw : list (list R)) (p dim : nat).
Hypothesis Usorted : sortedR U.
Hypothesis Hwf : wf_net Pw (S dim).
Hypothesis Hp5 : (1 <= p <= 5)%nat.
Hypothesis Hp : (p < length Pw)%nat.
Hypothesis HL : length U = (length Pw + p + 1)%nat.
Hypothesis Hpos : forall i, (i < length Pw)%nat -> 0 < coord Pw i dim.
Variables (order s : nat).
Hypothesis Hs : (p <= s < length Pw)%nat.
Notation rat_ck d k x := (nth d (nth k (rat_curve_derivs Rops (curve_derivs Rops (S dim) p U Pw x order) order) []) 0).
Let Hlk := ders_link_deg_le_5 p Hp5.

Theorem rat_curve_derivs_are_true_derivatives_deg_le_5 k d : (k <= order)%nat -> (d < dim)%nat ->
  kth_deriv_on (knR U s) (knR U (s + 1)) k
    (fun x => curve_def U p Pw d x / curve_def U p Pw dim x) (fun x => rat_ck d k x).
Proof. exact (rat_curve_derivs_are_true_derivatives_of_link U Pw p dim Usorted Hwf Hlk Hp HL Hpos order s Hs k d). Qed.

Theorem rat_curve_derivs_consecutive_deg_le_5 k d u : (S k <= order)%nat -> (d < dim)%nat ->
  knR U s < u < knR U (s + 1) -> derivable_pt_lim (fun x => rat_ck d k x) u (rat_ck d (S k) u).
Proof. exact (rat_curve_derivs_consecutive_of_link U Pw p dim Usorted Hwf Hlk Hp HL Hpos order s Hs k d u). Qed.

Theorem rat_curve_derivs_right_derivative_deg_le_5 k d u : (S k <= order)%nat -> (d < dim)%nat ->
  knR U s <= u < knR U (s + 1) -> right_derivable_pt_lim (fun x => rat_ck d k x) u (rat_ck d (S k) u).
Proof. exact (rat_curve_derivs_right_derivative_of_link U Pw p dim Usorted Hwf Hlk Hp HL Hpos order s Hs k d u). Qed.

Theorem rat_curve_derivs_order0_is_point_deg_le_5 d x : (d < dim)%nat -> knR U s <= x < knR U (s + 1) ->
  rat_ck d 0 x = nth d (obj_curve_point Rops true dim p U Pw x) 0.
Proof. exact (rat_curve_derivs_order0_is_point_of_link U Pw p dim Usorted Hwf Hlk Hp HL Hpos order s Hs d x). Qed.

Theorem rat_curve_tangent_is_derivative_of_point_deg_le_5 d u : (1 <= order)%nat -> (d < dim)%nat ->
  knR U s < u < knR U (s + 1) ->
  derivable_pt_lim (fun x => nth d (obj_curve_point Rops true dim p U Pw x) 0) u (rat_ck d 1 u).
Proof. exact (rat_curve_tangent_is_derivative_of_point_of_link U Pw p dim Usorted Hwf Hlk Hp HL Hpos order s Hs d u). Qed.

(* object level: the vectors returned by NURBS.Curve.derivatives (default evaluator), as functions of the parameter *)
Theorem Curve_derivatives_rational_consecutive_deg_le_5 k d u D : (S k <= order)%nat -> (d < dim)%nat ->
  knR U s < u < knR U (s + 1) ->
  Curve_derivatives Rops false true false (S dim) p U Pw u order = Ok D ->
  derivable_pt_lim (fun x => match Curve_derivatives Rops false true false (S dim) p U Pw x order with
                             | Ok Dx => nth d (nth k Dx []) 0 | _ => 0 end) u (nth d (nth (S k) D []) 0).
Proof.
  intros Hk Hd Hu E. rewrite (Curve_derivatives_rational_unfold U Pw p dim order false u D E).
  apply rat_curve_derivs_consecutive_deg_le_5; assumption.
Qed.
End Deg5.

Check rat_curve_derivs_recursion_of_link.
Check rat_curve_derivs_are_true_derivatives_of_link.
Check rat_curve_derivs_are_true_derivatives_deg_le_5.
Check rat_curve_derivs_consecutive_deg_le_5.
Check rat_curve_derivs_right_derivative_deg_le_5.
Check rat_curve_derivs_order0_is_point_deg_le_5.
Check rat_curve_tangent_is_derivative_of_point_deg_le_5.
Check Curve_derivatives_rational_consecutive_deg_le_5.

Print Assumptions rat_curve_derivs_are_true_derivatives_deg_le_5.
Print Assumptions rat_curve_derivs_consecutive_deg_le_5.
Print Assumptions rat_curve_derivs_right_derivative_deg_le_5.
Print Assumptions rat_curve_derivs_order0_is_point_deg_le_5.
Print Assumptions rat_curve_tangent_is_derivative_of_point_deg_le_5.
Print Assumptions Curve_derivatives_rational_consecutive_deg_le_5.

(* sanity (non-vacuity): a rational quadratic with an interior knot and unequal positive weights; first span *)
Example rat_curve_tangent_sanity :
  let U := [0; 0; 0; 1; 2; 2; 2] in let Pw := [[0; 0; 1]; [2; 4; 2]; [3; 2; 1]; [2; 0; 1/2]] in
  forall u, 0 < u < 1 ->
  derivable_pt_lim (fun x => nth 0 (obj_curve_point Rops true 2 2 U Pw x) 0) u
                   (nth 0 (nth 1 (rat_curve_derivs Rops (curve_derivs Rops 3 2 U Pw u 1) 1) []) 0).
Proof.
  intros U Pw u Hu. subst U Pw.
  apply (rat_curve_tangent_is_derivative_of_point_deg_le_5 _ _ 2 2) with (s := 2%nat); try (cbn [length]; lia).
  - intros i j H. cbn [length] in H.
    do 7 (destruct i as [|i]; [do 7 (destruct j as [|j]; [first [exfalso; lia | cbn [kn nth]; rsimp; lra]|]); exfalso; lia|]). exfalso; lia.
  - intros i H. cbn [length] in H. do 4 (destruct i as [|i]; [reflexivity|]). lia.
  - intros i H. cbn [length] in H. unfold coord. do 4 (destruct i as [|i]; [cbn [nth]; lra|]). lia.
  - cbn [kn nth Nat.add]. exact Hu.
Qed.
