(* Tie: generated helpers.degree_elevation (Gen/HelpersB.v) = Model/Degree.v degree_elevation_pts (points = lists of
   coordinates), for ALL inputs with the keyword check_num = True (GeomdlException <-> Rejected), under bin_laws K
   (Proofs/GenTieBinom.v: the binomial coefficients of the source are quotients of factorials, those of the model the
   injected Pascal numbers). *)
From Coq Require Import List ZArith Arith Bool Lia QArith.
From NV Require Import Scalar.Ops Model.Common Model.Degree Gen.Prelude Gen.PreludeExt Gen.LinalgMat Gen.HelpersB
  Proofs.GenTieLib Proofs.GenTieLib2 Proofs.GenTieSums Proofs.GenTieSubst Proofs.GenTieDegree Proofs.GenTieBinom.
Import ListNotations.
Local Open Scope nat_scope.

Section Tie.
Context {T : Type} (K : ops T) (BL : bin_laws K).
Notation "0" := (o0 K).

Lemma zmax_nat (a : nat) (b : Z) : zmax 0%Z (Z.of_nat a - b) = Z.of_nat (a - Z.to_nat b) \/ (b < 0)%Z.
Proof. unfold zmax. destruct (Z.ltb_spec 0 (Z.of_nat a - b)); destruct (Z.lt_ge_cases b 0); auto; left; lia. Qed.

Theorem degree_elevation_tie (p : nat) (P : list (list T)) (num : Z) :
  HelpersB.degree_elevation K (Z.of_nat p) P true num =
  res_to_gres (fun x => x) GeomdlError IndexError (Degree.degree_elevation_pts K p P num).
Proof.
  unfold HelpersB.degree_elevation, degree_elevation_pts, Degree.degree_elevation.
  destruct P as [|P0 Pr] eqn:EP.
  { unfold zlen. simpl length. destruct (Z.eqb_spec (Z.of_nat p + 1) (Z.of_nat O)) as [e|e]; [exfalso; clear -e; lia|reflexivity]. }
  rewrite <- EP in *. unfold zlen.
  destruct (Z.eqb_spec (Z.of_nat p + 1) (Z.of_nat (length P))); destruct (Nat.eqb_spec (p + 1) (length P)); try lia;
    cbn [negb]; [|reflexivity].
  destruct (Z.leb_spec num 0); [reflexivity|]. cbn [gbind res_to_gres].
  set (t := Z.to_nat num). assert (Et : num = Z.of_nat t) by lia. assert (Ht : 1 <= t) by lia. rewrite Et. clear Et. clearbody t.
  assert (HP0 : nth O P P0 = P0) by (rewrite EP; reflexivity).
  assert (Ez : znth P 0%Z = GOk P0) by (rewrite EP; apply znth_0).
  set (N := p + 1 + t).
  replace (Z.of_nat p + 1 + Z.of_nat t)%Z with (Z.of_nat N) by lia.
  rewrite zrange_0_nat.
  set (zero := lzlike K P0).
  rewrite (gmapM_ok _ (fun _ => zero)).
  2:{ intros x _. rewrite Ez. cbn [gbind]. f_equal. unfold zero, lzlike. unfold zlen. rewrite map_const_zrange, Nat2Z.id.
      symmetry. apply map_const_repeat. }
  cbn [gbind]. rewrite map_map, (map_const_seq zero (fun x => x)), seq_length.
  unfold degree_elevation_core. fold N.
  match goal with |- context [gfor (map Z.of_nat (seq O N)) ?ff ?s0] =>
    destruct (gfor_seq_inv (fun i (X : list (list T)) =>
                X = map (elev_point K lzipw (lzlike K) P0 p t P) (seq O i) ++ repeat zero (N - i)) ff N O)
      with (s := s0) as (XF & EF & HF)
  end.
  - intros i X Hi ->. cbn [gbind].
    set (done := map (elev_point K lzipw (lzlike K) P0 p t P) (seq O i)).
    assert (Ld : length done = i) by (unfold done; now rewrite map_length, seq_length).
    replace (N - i) with (S (N - S i)) by lia. cbn [repeat].
    set (rest := repeat zero (N - S i)).
    set (start := i - t). set (stop := Nat.min p i).
    replace (zmax 0%Z (Z.of_nat i - Z.of_nat t)) with (Z.of_nat start)
      by (unfold zmax, start; destruct (Z.ltb_spec 0 (Z.of_nat i - Z.of_nat t)); lia).
    replace (zmin (Z.of_nat p) (Z.of_nat i)) with (Z.of_nat stop)
      by (unfold zmin, stop; destruct (Z.ltb_spec (Z.of_nat i) (Z.of_nat p)); lia).
    replace (Z.of_nat stop + 1)%Z with (Z.of_nat (S stop)) by lia. rewrite zrange_nat.
    match goal with |- context [gfor (map Z.of_nat (seq start ?len)) ?ff ?s0] =>
      destruct (gfor_seq_fold (fun (_ : nat) (X : list (list T)) (acc : list T) => X = done ++ acc :: rest) ff
                  (fun acc j => lzipw (fun p1 p2 => oadd K p1 (omul K (elev_coeff K p t i j) p2)) acc (nth j P P0)) len start)
        with (s := s0) (s' := zero) as (X2 & E2 & H2)
    end.
    + intros j X acc Hj ->. cbn [gbind].
      assert (Hjs : j <= stop) by lia. assert (Hji : j <= i) by (unfold stop in Hjs; lia). assert (Hjp : j <= p) by (unfold stop in Hjs; lia).
      replace (Z.of_nat i - Z.of_nat j)%Z with (Z.of_nat (i - j)) by lia.
      replace (Z.of_nat p + Z.of_nat t)%Z with (Z.of_nat (p + t)) by lia.
      rewrite !(binomial_coefficient_tie K BL). cbn [gbind].
      rewrite (znth_nat _ i []) by (rewrite app_length; cbn [length]; lia). cbn [gbind].
      rewrite (znth_nat P j P0) by lia. cbn [gbind].
      rewrite zset_nat by (rewrite app_length; cbn [length]; lia). cbn [gbind].
      replace (nth i (done ++ acc :: rest) []) with acc by (rewrite <- Ld; symmetry; apply nth_middle).
      rewrite (upd_mid' done) by exact Ld.
      eexists. split; [reflexivity|]. f_equal. f_equal. unfold lzipw. apply map_ext. intros [x y]. reflexivity.
    + reflexivity.
    + rewrite E2. cbn [gbind]. eexists. split; [reflexivity|]. rewrite H2.
      rewrite seq_S, map_app. cbn [map]. rewrite <- app_assoc. cbn [app]. fold done. cbn [Nat.add].
      unfold elev_point. rewrite HP0. reflexivity.
  - cbn [seq map app]. now rewrite Nat.sub_0_r.
  - rewrite EF. cbn [gbind]. rewrite HF. cbn [Nat.add]. rewrite Nat.sub_diag. cbn [repeat]. now rewrite app_nil_r.
Qed.
End Tie.

Definition degree_elevation_tie_R := @degree_elevation_tie _ Rops Rops_bin_laws.
Definition degree_elevation_tie_Q := @degree_elevation_tie _ Qops Qops_bin_laws.

(* ---- non-vacuity: a cubic elevated once and twice, rejected inputs ---- *)
Local Open Scope Q_scope.
Example degree_elevation_ex :
  HelpersB.degree_elevation Qops 3 [[0; 0]; [1; 2]; [3; 2]; [4; 0]] true 1 = GOk [[0; 0]; [3#4; 3#2]; [2; 2]; [13#4; 3#2]; [4; 0]]
  /\ degree_elevation_pts Qops 3 [[0; 0]; [1; 2]; [3; 2]; [4; 0]] 1 = Ok [[0; 0]; [3#4; 3#2]; [2; 2]; [13#4; 3#2]; [4; 0]]
  /\ HelpersB.degree_elevation Qops 3 [[0; 0]; [1; 2]; [3; 2]; [4; 0]] true 2 =
     GOk (match degree_elevation_pts Qops 3 [[0; 0]; [1; 2]; [3; 2]; [4; 0]] 2 with Ok x => x | _ => [] end)
  /\ HelpersB.degree_elevation Qops 3 [[0; 0]; [1; 2]; [3; 2]] true 1 = GErr GeomdlError
  /\ HelpersB.degree_elevation Qops 3 [[0; 0]; [1; 2]; [3; 2]; [4; 0]] true 0 = GErr GeomdlError
  /\ degree_elevation_pts Qops 3 [[0; 0]; [1; 2]; [3; 2]; [4; 0]] 0 = Rejected.
Proof. repeat split; vm_compute; reflexivity. Qed.
