(* C15, trimmed tessellation: "the omitted region matches the trimmed region to within one sampling cell", at the level of
   one call of _tessellate.surface_trim_tessellate (Model/Tess.v), i.e. one sampling cell:
   (a) trim_cell_corners_trimmed_omitted   four corners trimmed (winding test, ordinary trim) => nothing is emitted;
   (b) trim_cell_all_outside / trim_cell_untouched_exact   no corner trimmed => the two fan triangles (each kept unless its
       centre is trimmed); if the trim boundary does not touch the tols-neighbourhood of the cell the decision is uniform
       on the cell (Proofs/WindingRect.v) and the cell is omitted completely or is exactly its two plain triangles;
   (c) trim_cell_vertices_local / trim_cell_triangles_in_cell   every emitted triangle has its vertices among the four
       corners and new vertices on the four cell edges: it lies in the cell (up to the intersection tolerance);
   trim_within_one_cell = (b) + (c);  trim_within_one_cell_v2 = the statement of Props/C15.v with its missing hypotheses;
   trim_within_one_cell_full_refuted = the statement of Props/C15.v as written is false (witness: tols = 10).
   Also: the flag automaton of the trim classification is idempotent (flag_update_idem), so corners already classified by
   neighbouring cells behave like fresh ones.  New file; nothing existing is modified. *)
From Coq Require Import List Arith Bool Lia Reals Lra ZArith.
From NV Require Import Scalar.Ops Model.Common Model.Geom2D Model.Tess Proofs.Geom2DR Proofs.TrimR Proofs.WindingRect.
Import ListNotations.
Local Open Scope nat_scope.

(* ------------------------------------------------------------------ functional arrays *)
Lemma upd_length {A} (x : A) : forall l i, length (upd l i x) = length l.
Proof. induction l as [|y l IH]; intros [|i]; simpl; auto. Qed.
Lemma nth_upd_eq {A} (x d : A) : forall l i, i < length l -> nth i (upd l i x) d = x.
Proof. induction l as [|y l IH]; intros [|i] H; simpl in *; try lia; auto. apply IH. lia. Qed.
Lemma nth_upd_neq {A} (x d : A) : forall l i j, i <> j -> nth j (upd l i x) d = nth j l d.
Proof. induction l as [|y l IH]; intros [|i] [|j] H; simpl; auto; try lia. Qed.

Section G.
Context {T : Type} (K : ops T).
Implicit Types (test testa testb : @trimc T -> bool) (trims : list (@trimc T)) (trim : @trimc T).

(* ------------------------------------------------------------------ the flag automaton of flag_update *)
Definition flag_step (test : @trimc T -> bool) (f : bool * bool * bool) (trim : @trimc T) : bool * bool * bool :=
  let '(ins, ftrim, fno) := f in
  if test trim then
    (if treversed trim then (if negb ftrim then (false, ftrim, true) else f) else (true, true, fno))
  else
    (if treversed trim then (if negb fno then (true, ftrim, fno) else f) else f).
Lemma flag_update_fold flags (trims : list (@trimc T)) test : flag_update flags trims test = fold_left (flag_step test) trims flags.
Proof. reflexivity. Qed.

(* once a non-reversed ("trim away") curve has hit, the object stays inside, whatever follows *)
Lemma flag_step_pin test fno trim : exists fno', flag_step test (true, true, fno) trim = (true, true, fno').
Proof. unfold flag_step. destruct (test trim), (treversed trim), fno; cbn; eauto. Qed.
Lemma flag_update_pin test : forall trims fno, exists fno', flag_update (true, true, fno) trims test = (true, true, fno').
Proof.
  induction trims as [|x l IH]; intros fno; [exists fno; reflexivity|].
  rewrite flag_update_fold. cbn [fold_left]. destruct (flag_step_pin test fno x) as [f' ->]. apply IH.
Qed.
Lemma flag_update_hit test : forall trims f trim, In trim trims -> treversed trim = false -> test trim = true ->
  exists fno', flag_update f trims test = (true, true, fno').
Proof.
  induction trims as [|x l IH]; intros f trim Hin Hr Ht; [destruct Hin|].
  rewrite flag_update_fold. cbn [fold_left]. destruct Hin as [->|Hin].
  - destruct f as [[i t] n]. unfold flag_step at 2. rewrite Ht, Hr. apply flag_update_pin.
  - apply (IH _ trim Hin Hr Ht).
Qed.
Lemma flag_update_ext testa testb : forall trims f, (forall trim, In trim trims -> testa trim = testb trim) ->
  flag_update f trims testa = flag_update f trims testb.
Proof.
  induction trims as [|x l IH]; intros f H; [reflexivity|].
  rewrite !flag_update_fold. cbn [fold_left].
  replace (flag_step testb f x) with (flag_step testa f x).
  - apply IH. intros trim Hin. apply H. right. exact Hin.
  - destruct f as [[i t] n]. unfold flag_step. rewrite (H x (or_introl eq_refl)). reflexivity.
Qed.
(* the result of a pass is a fixed point of every single step of that pass, hence of the whole pass (idempotence):
   re-classifying an object against the same tests does not change its flags *)
Lemma flag_step_stable test F (x : @trimc T) trim : flag_step test F trim = F ->
  flag_step test (flag_step test F x) trim = flag_step test F x.
Proof.
  destruct F as [[i t] n]. unfold flag_step.
  destruct (test trim), (treversed trim), (test x), (treversed x), i, t, n; cbn; intros H; congruence.
Qed.
Lemma flag_step_idem test F (x : @trimc T) : flag_step test (flag_step test F x) x = flag_step test F x.
Proof. destruct F as [[i t] n]. unfold flag_step. destruct (test x) eqn:E1, (treversed x) eqn:E2, i, t, n; cbn; rewrite ?E1, ?E2; reflexivity. Qed.
Lemma flag_update_fix test : forall trims f trim, In trim trims ->
  flag_step test (flag_update f trims test) trim = flag_update f trims test.
Proof.
  induction trims as [|x l IH] using rev_ind; intros f trim Hin; [destruct Hin|].
  rewrite flag_update_fold, fold_left_app. cbn [fold_left]. rewrite <- flag_update_fold.
  apply in_app_or in Hin. destruct Hin as [Hin|[->|[]]].
  - apply flag_step_stable. apply IH. exact Hin.
  - apply flag_step_idem.
Qed.
Lemma fold_noop {A B} (f : A -> B -> A) a : forall l, (forall b, In b l -> f a b = a) -> fold_left f l a = a.
Proof. induction l as [|b0 l IH]; intros H; [reflexivity|]. cbn [fold_left]. rewrite (H b0 (or_introl eq_refl)). apply IH. intros y Hy. apply H. right. exact Hy. Qed.
Theorem flag_update_idem test trims f :
  flag_update (flag_update f trims test) trims test = flag_update f trims test.
Proof. rewrite (flag_update_fold (flag_update f trims test)). apply fold_noop. intros b Hb. apply flag_update_fix. exact Hb. Qed.

(* ------------------------------------------------------------------ corner classification *)
Definition vflags (o : @vobj T) : bool * bool * bool := (vinside o, vtrim o, vnotrim o).
(* the winding test classify_vertex performs for corner number idx against one trim: the corner is moved by
   (+-tols, +-tols) (outwards for ordinary trims, inwards for reversed ones) *)
Definition corner_test (tols : T) (idx : nat) (o : @vobj T) (trim : @trimc T) : bool :=
  let cf := if treversed trim then o1 K else oneg K (o1 K) in
  wn_poly K [oadd K (vu o) (omul K cf (fst (vtol K tols idx))); oadd K (vv o) (omul K cf (snd (vtol K tols idx)))] (tpts trim).
Lemma classify_spec tols trims idx o :
  let o' := classify_vertex K tols trims idx o in
  vflags o' = flag_update (vflags o) trims (corner_test tols idx o) /\
  vu o' = vu o /\ vv o' = vv o /\ vid o' = vid o /\ vdata o' = vdata o.
Proof.
  cbv zeta. unfold classify_vertex, vflags.
  change (fun trim : trimc => wn_poly K _ (tpts trim)) with (corner_test tols idx o).
  destruct (flag_update (vinside o, vtrim o, vnotrim o) trims (corner_test tols idx o)) as [[a b] c].
  cbn. auto.
Qed.

Definition cls_fold (tols : T) (trims : list trimc) (corners : list nat) (s : list vobj) : list vobj :=
  fold_left (fun st p => upd st (snd p) (classify_vertex K tols trims (fst p) (vget K st (snd p))))
            (combine (seq 0 4) corners) s.

Definition distinct4 (c1 c2 c3 c4 : nat) : Prop := c1 <> c2 /\ c1 <> c3 /\ c1 <> c4 /\ c2 <> c3 /\ c2 <> c4 /\ c3 <> c4.

Lemma cls_fold4 tols trims s c1 c2 c3 c4 : distinct4 c1 c2 c3 c4 ->
  c1 < length s -> c2 < length s -> c3 < length s -> c4 < length s ->
  let s1 := cls_fold tols trims [c1; c2; c3; c4] s in
  length s1 = length s /\
  vget K s1 c1 = classify_vertex K tols trims 0 (vget K s c1) /\
  vget K s1 c2 = classify_vertex K tols trims 1 (vget K s c2) /\
  vget K s1 c3 = classify_vertex K tols trims 2 (vget K s c3) /\
  vget K s1 c4 = classify_vertex K tols trims 3 (vget K s c4) /\
  (forall c, c <> c1 -> c <> c2 -> c <> c3 -> c <> c4 -> vget K s1 c = vget K s c).
Proof.
  intros [D12 [D13 [D14 [D23 [D24 D34]]]]] L1 L2 L3 L4. cbv zeta. unfold cls_fold. cbn [seq combine fold_left fst snd].
  unfold vget. split; [rewrite !upd_length; reflexivity|].
  repeat split.
  - rewrite !(nth_upd_neq _ _ _ _ c1) by auto. rewrite nth_upd_eq by assumption. reflexivity.
  - rewrite !(nth_upd_neq _ _ _ _ c2) by auto. rewrite nth_upd_eq by (rewrite !upd_length; assumption).
    rewrite nth_upd_neq by auto. reflexivity.
  - rewrite !(nth_upd_neq _ _ _ _ c3) by auto. rewrite nth_upd_eq by (rewrite !upd_length; assumption).
    rewrite !(nth_upd_neq _ _ _ _ c3) by auto. reflexivity.
  - rewrite nth_upd_eq by (rewrite !upd_length; assumption).
    rewrite !(nth_upd_neq _ _ _ _ c4) by auto. reflexivity.
  - intros c N1 N2 N3 N4. rewrite !(nth_upd_neq _ _ _ _ c) by auto. reflexivity.
Qed.

(* ------------------------------------------------------------------ rule (b): all four corners outside *)
(* whatever the trim/edge intersections are: if no corner is classified inside, the cell keeps its four corners, creates no
   vertex and yields the two fan triangles, each kept unless its own centre of mass is trimmed *)
Theorem trim_cell_all_outside rtol tol tols trims s c1 c2 c3 c4 vidx tidx :
  let s1 := cls_fold tols trims [c1; c2; c3; c4] s in
  vinside (vget K s1 c1) = false -> vinside (vget K s1 c2) = false ->
  vinside (vget K s1 c3) = false -> vinside (vget K s1 c4) = false ->
  surface_trim_tessellate K rtol tol tols trims s [c1; c2; c3; c4] vidx tidx =
  (s1, [c1; c2; c3; c4], filter (tri_kept K trims s1) [(tidx, (c1, c2, c3)); (S tidx, (c1, c3, c4))]).
Proof.
  cbv zeta. intros H1 H2 H3 H4. unfold surface_trim_tessellate. fold (cls_fold tols trims [c1; c2; c3; c4] s).
  set (s1 := cls_fold tols trims [c1; c2; c3; c4] s) in *.
  cbn [map forallb]. rewrite H1. cbn [andb].
  cbn [app hd tl combine map fst snd].
  match goal with |- context [fold_left ?f (seq 0 4) ?i] => set (F := f) end.
  assert (HF : forall tv nvi idx a b,
            nth idx [c1; c2; c3; c4; c1] 0 = a -> nth (S idx) [c1; c2; c3; c4; c1] 0 = b ->
            vinside (vget K s1 a) = false -> vinside (vget K s1 b) = false ->
            F (s1, tv, nvi) idx = (s1, tv ++ [a], nvi)).
  { intros tv nvi idx a b Ea Eb Ha Hb. subst F. cbv beta iota zeta.
    rewrite Ea, Eb, Ha, Hb. reflexivity. }
  clearbody F. cbn [seq fold_left].
  rewrite (HF [] 0 0 c1 c2 eq_refl eq_refl H1 H2).
  rewrite (HF _ 0 1 c2 c3 eq_refl eq_refl H2 H3).
  rewrite (HF _ 0 2 c3 c4 eq_refl eq_refl H3 H4).
  rewrite (HF _ 0 3 c4 c1 eq_refl eq_refl H4 H1).
  cbn [app polygon_triangulate tl combine map fst snd number_from length seq].
  reflexivity.
Qed.

(* ------------------------------------------------------------------ rule (c): where the emitted vertices come from *)
Lemma polygon_triangulate_in {A} (vs : list A) x y z : In (x, y, z) (polygon_triangulate vs) -> In x vs /\ In y vs /\ In z vs.
Proof.
  destruct vs as [|v0 rest]; [intros []|]. unfold polygon_triangulate. rewrite in_map_iff. intros [[a b] [E Hin]].
  cbn [fst snd] in E. injection E as <- <- <-.
  split; [left; reflexivity|]. split; right.
  - eapply in_combine_l. exact Hin.
  - apply in_combine_r in Hin. destruct rest; [destruct Hin|right; exact Hin].
Qed.
Lemma number_from_in {A} start (l : list A) i t : In (i, t) (number_from start l) -> In t l.
Proof. unfold number_from. apply in_combine_r. Qed.

(* every recorded intersection lies on the cell edge it is recorded for, at a parameter in (-tol, 1+tol) *)
Lemma cell_intersections_in rtol tol edges trims i t p :
  In (i, t, p) (cell_intersections K rtol tol edges trims) ->
  i < 4 /\ in_open K tol t = true /\ p = ray_eval K (nth i edges ([], [])) t.
Proof.
  unfold cell_intersections. rewrite in_flat_map. intros [trim [_ H]].
  rewrite in_flat_map in H. destruct H as [seg [_ H]].
  rewrite in_flat_map in H. destruct H as [idx2 [Hi H]]. apply in_seq in Hi.
  destruct (intersect K rtol (nth idx2 edges ([], [])) seg) as [[[t1 t2] st]| |]; try destruct H.
  destruct st; try destruct H.
  destruct (in_open K tol t1) eqn:E1; [|destruct H]. destruct (in_open K tol t2); [|destruct H].
  cbn [andb] in H. destruct H as [H|[]]. injection H as <- <- <-. split; [lia|]. split; [exact E1|reflexivity].
Qed.

Definition min_step (tol : T) (idx : nat) (acc : T * option (list T)) (is : nat * T * list T) : T * option (list T) :=
  let '(i, t, p) := is in if andb (Nat.eqb i idx) (oltb K t (fst acc)) then (t, Some p) else acc.
Lemma min_isect_fold tol idx isects :
  min_isect K tol idx isects = snd (fold_left (min_step tol idx) isects (oadd K (o1 K) tol, None)).
Proof. reflexivity. Qed.
Lemma min_fold_some (Q : list T -> Prop) tol idx : forall l acc,
  (forall p, snd acc = Some p -> Q p) -> (forall t p, In (idx, t, p) l -> Q p) ->
  forall p, snd (fold_left (min_step tol idx) l acc) = Some p -> Q p.
Proof.
  induction l as [|[[i t] q] l IH]; intros acc Ha Hl p; cbn [fold_left]; [apply Ha|].
  apply IH.
  - unfold min_step. destruct (Nat.eqb i idx) eqn:Ei; cbn [andb]; [|exact Ha].
    destruct (oltb K t (fst acc)); [|exact Ha]. cbn [snd]. intros p0 E. injection E as <-.
    apply Nat.eqb_eq in Ei. subst i. apply (Hl t q). left. reflexivity.
  - intros t0 p0 H. apply (Hl t0 p0). right. exact H.
Qed.
Lemma min_fold_keeps tol idx : forall l acc, snd acc <> None -> snd (fold_left (min_step tol idx) l acc) <> None.
Proof.
  induction l as [|[[i t] q] l IH]; intros acc Ha; cbn [fold_left]; [exact Ha|]. apply IH.
  unfold min_step. destruct (andb _ _); [cbn; discriminate|exact Ha].
Qed.
Lemma min_fold_found tol idx : forall l acc, fst acc = oadd K (o1 K) tol -> snd acc = None ->
  (forall i t p, In (i, t, p) l -> in_open K tol t = true) ->
  has_isect idx l = true -> snd (fold_left (min_step tol idx) l acc) <> None.
Proof.
  induction l as [|[[i t] q] l IH]; intros acc Hf Hs Hl Hh; [discriminate Hh|].
  cbn [fold_left]. unfold has_isect in Hh. cbn [existsb fst] in Hh.
  destruct (Nat.eqb i idx) eqn:Ei.
  - apply min_fold_keeps. unfold min_step. rewrite Ei, Hf. cbn [andb].
    pose proof (Hl i t q (or_introl eq_refl)) as Ho. unfold in_open in Ho. apply andb_true_iff in Ho. destruct Ho as [_ Ho].
    rewrite Ho. cbn. discriminate.
  - cbn [orb] in Hh. unfold min_step at 2. rewrite Ei. cbn [andb]. apply IH; auto.
    intros i0 t0 p0 H. apply (Hl i0 t0 p0). right. exact H.
Qed.

(* a vertex created on cell edge number idx: the (snapped) point of that edge at a parameter in (-tol, 1+tol) *)
Definition on_cell_edge (tol : T) (edges : list (list T * list T)) (nv : @vobj T) : Prop :=
  exists idx t, idx < 4 /\ in_open K tol t = true /\
    vu nv = snap K tol (cx K (ray_eval K (nth idx edges ([], [])) t)) /\
    vv nv = snap K tol (cy K (ray_eval K (nth idx edges ([], [])) t)) /\
    vflags nv = (false, false, false).

Definition cell_edges (s1 : list (@vobj T)) (c1 c2 c3 c4 : nat) : list (list T * list T) :=
  [(vuv (vget K s1 c1), vuv (vget K s1 c2)); (vuv (vget K s1 c2), vuv (vget K s1 c3));
   (vuv (vget K s1 c3), vuv (vget K s1 c4)); (vuv (vget K s1 c4), vuv (vget K s1 c1))].

(* [G] rule (c), structural form: the store only grows; every vertex handed to the triangulation, hence every vertex of
   every emitted triangle, is one of the four corners or a vertex created by this call on one of the four cell edges *)
Theorem trim_cell_vertices_local rtol tol tols trims s c1 c2 c3 c4 vidx tidx s2 tvs keep :
  surface_trim_tessellate K rtol tol tols trims s [c1; c2; c3; c4] vidx tidx = (s2, tvs, keep) ->
  let s1 := cls_fold tols trims [c1; c2; c3; c4] s in
  let ok := fun o => In o [c1; c2; c3; c4] \/
                     (length s1 <= o < length s2 /\ on_cell_edge tol (cell_edges s1 c1 c2 c3 c4) (vget K s2 o)) in
  (exists ext, s2 = s1 ++ ext) /\
  Forall ok tvs /\
  (forall i x y z, In (i, (x, y, z)) keep -> ok x /\ ok y /\ ok z) /\
  (forall i t, In (i, t) keep -> In (i, t) (number_from tidx (polygon_triangulate tvs)) /\ tri_kept K trims s2 (i, t) = true).
Proof.
  cbv zeta. unfold surface_trim_tessellate. fold (cls_fold tols trims [c1; c2; c3; c4] s).
  set (s1 := cls_fold tols trims [c1; c2; c3; c4] s) in *. clearbody s1.
  destruct (forallb vinside (map (vget K s1) [c1; c2; c3; c4])).
  { intros E. injection E as <- <- <-. split; [exists []; rewrite app_nil_r; reflexivity|].
    split; [constructor|]. split; intros; contradiction. }
  cbn [app hd tl combine map fst snd]. fold (cell_edges s1 c1 c2 c3 c4).
  set (edges := cell_edges s1 c1 c2 c3 c4).
  set (isects := cell_intersections K rtol tol edges trims).
  match goal with |- context [fold_left ?f (seq 0 4) ?i] => set (F := f) end.
  set (okst := fun (st : list (@vobj T)) o => In o [c1; c2; c3; c4] \/ (length s1 <= o < length st /\ on_cell_edge tol edges (vget K st o))).
  set (Inv := fun acc : list (@vobj T) * list nat * nat =>
                (exists ext, fst (fst acc) = s1 ++ ext) /\ Forall (okst (fst (fst acc))) (snd (fst acc))).
  assert (Hmono : forall st nv o, okst st o -> (exists ext, st = s1 ++ ext) -> okst (st ++ [nv]) o).
  { intros st nv o [Hc|[Hr Hq]] _; [left; exact Hc|]. right. split; [rewrite app_length; cbn; lia|].
    unfold vget in *. rewrite app_nth1 by lia. exact Hq. }
  assert (HF : forall acc idx, idx < 4 -> Inv acc -> Inv (F acc idx)).
  { intros [[st tv] nvi] idx Hidx [[ext Hext] Htv]. cbn [fst snd] in *. subst F. cbv beta iota zeta.
    set (a := nth idx [c1; c2; c3; c4; c1] 0).
    assert (Ha : In a [c1; c2; c3; c4]).
    { subst a. destruct idx as [|[|[|[|?]]]]; cbn; auto; lia. }
    destruct (vinside (vget K st a) && vinside (vget K st (nth (S idx) [c1; c2; c3; c4; c1] 0))).
    { unfold Inv. cbn [fst snd]. split; [exists ext; exact Hext|exact Htv]. }
    set (tv1 := if vinside (vget K st a) then tv else tv ++ [a]).
    assert (Htv1 : Forall (okst st) tv1).
    { subst tv1. destruct (vinside (vget K st a)); [exact Htv|]. apply Forall_app. split; [exact Htv|].
      constructor; [left; exact Ha|constructor]. }
    destruct (xorb _ _ && has_isect idx isects) eqn:Ex.
    - unfold Inv. cbn [fst snd]. split; [rewrite Hext, <- app_assoc; eexists; reflexivity|].
      apply Forall_app. split.
      + eapply Forall_impl; [|exact Htv1]. intros o Ho. apply Hmono; [exact Ho|exists ext; exact Hext].
      + constructor; [|constructor]. right. split; [rewrite app_length, Hext, app_length; cbn; lia|].
        unfold vget. rewrite nth_middle.
        apply andb_true_iff in Ex. destruct Ex as [_ Eh].
        assert (Hall : forall i t p, In (i, t, p) isects -> in_open K tol t = true).
        { intros i t p H. apply cell_intersections_in in H. tauto. }
        pose proof (min_fold_found tol idx isects (oadd K (o1 K) tol, None) eq_refl eq_refl Hall Eh) as Hne.
        rewrite <- min_isect_fold in Hne.
        destruct (min_isect K tol idx isects) as [p|] eqn:Em; [|congruence].
        assert (Hq : exists t, in_open K tol t = true /\ p = ray_eval K (nth idx edges ([], [])) t).
        { rewrite min_isect_fold in Em.
          apply (min_fold_some (fun p => exists t, in_open K tol t = true /\ p = ray_eval K (nth idx edges ([], [])) t)
                               tol idx isects (oadd K (o1 K) tol, None)); [discriminate| |exact Em].
          intros t p0 H. apply cell_intersections_in in H. exists t. tauto. }
        destruct Hq as [t [Ht ->]]. exists idx, t. cbn [vu vv vflags vinside vtrim vnotrim]. auto.
    - unfold Inv. cbn [fst snd]. split; [exists ext; exact Hext|exact Htv1]. }
  assert (Hfold : forall l acc, (forall i, In i l -> i < 4) -> Inv acc -> Inv (fold_left F l acc)).
  { induction l as [|i l IH]; intros acc Hl Ha; [exact Ha|]. cbn [fold_left]. apply IH.
    - intros j Hj. apply Hl. right. exact Hj.
    - apply HF; [apply Hl; left; reflexivity|exact Ha]. }
  assert (Hfin : Inv (fold_left F (seq 0 4) (s1, [], 0))).
  { apply Hfold; [intros i Hi; apply in_seq in Hi; lia|]. split; [exists []; cbn; rewrite app_nil_r; reflexivity|constructor]. }
  clearbody F. destruct (fold_left F (seq 0 4) (s1, [], 0)) as [[s2' tvs'] n'].
  destruct Hfin as [Hext Htv]. cbn [fst snd] in *.
  intros E. injection E as <- <- <-. split; [exact Hext|]. split; [exact Htv|].
  split.
  - intros i x y z Hin. apply filter_In in Hin. destruct Hin as [Hin _].
    apply number_from_in, polygon_triangulate_in in Hin. rewrite Forall_forall in Htv.
    destruct Hin as [Hx [Hy Hz]]. split; [|split]; apply Htv; assumption.
  - intros i t Hin. apply filter_In in Hin. exact Hin.
Qed.
End G.

(* ------------------------------------------------------------------ rule (a): four trimmed corners *)
Section A.
Context {T : Type} (K : ops T).
(* [G] rule (a): if every corner's winding test (at its shifted test point) succeeds for some ordinary (non-reversed) trim,
   the cell contributes no vertex and no triangle *)
Theorem trim_cell_corners_trimmed_omitted rtol tol tols trims s c1 c2 c3 c4 vidx tidx :
  distinct4 c1 c2 c3 c4 -> c1 < length s -> c2 < length s -> c3 < length s -> c4 < length s ->
  (exists trim, In trim trims /\ treversed trim = false /\ corner_test K tols 0 (vget K s c1) trim = true) ->
  (exists trim, In trim trims /\ treversed trim = false /\ corner_test K tols 1 (vget K s c2) trim = true) ->
  (exists trim, In trim trims /\ treversed trim = false /\ corner_test K tols 2 (vget K s c3) trim = true) ->
  (exists trim, In trim trims /\ treversed trim = false /\ corner_test K tols 3 (vget K s c4) trim = true) ->
  surface_trim_tessellate K rtol tol tols trims s [c1; c2; c3; c4] vidx tidx =
  (cls_fold K tols trims [c1; c2; c3; c4] s, [], []).
Proof.
  intros D L1 L2 L3 L4 [t1 [I1 [R1 W1]]] [t2 [I2 [R2 W2]]] [t3 [I3 [R3 W3]]] [t4 [I4 [R4 W4]]].
  destruct (cls_fold4 K tols trims s c1 c2 c3 c4 D L1 L2 L3 L4) as [_ [E1 [E2 [E3 [E4 _]]]]].
  apply (trim_cell_all_inside K). fold (cls_fold K tols trims [c1; c2; c3; c4] s).
  assert (Hin : forall idx o trim, In trim trims -> treversed trim = false -> corner_test K tols idx o trim = true ->
                  vinside (classify_vertex K tols trims idx o) = true).
  { intros idx o trim Hi Hr Hw. destruct (classify_spec K tols trims idx o) as [Hf _].
    destruct (flag_update_hit (corner_test K tols idx o) trims (vflags o) trim Hi Hr Hw) as [fno Hu].
    rewrite Hu in Hf. unfold vflags in Hf. injection Hf as -> _ _. reflexivity. }
  cbn [map forallb]. rewrite E1, E2, E3, E4.
  rewrite (Hin 0 _ t1 I1 R1 W1), (Hin 1 _ t2 I2 R2 W2), (Hin 2 _ t3 I3 R3 W3), (Hin 3 _ t4 I4 R4 W4). reflexivity.
Qed.
End A.

(* the corners of a cell of the vertex array (Model/TessCore.v cell_corners) are distinct and in range *)
Lemma cell_corners_distinct a b i j : 2 <= b -> i < a - 1 -> j < b - 1 ->
  let c1 := j + i * b in let c2 := j + (i + 1) * b in let c3 := j + 1 + (i + 1) * b in let c4 := j + 1 + i * b in
  cell_corners b i j = [c1; c2; c3; c4] /\ distinct4 c1 c2 c3 c4 /\
  c1 < a * b /\ c2 < a * b /\ c3 < a * b /\ c4 < a * b.
Proof.
  intros Hb Hi Hj. cbv zeta. split; [reflexivity|]. unfold distinct4.
  assert (E : (i + 2) * b <= a * b) by (apply Nat.mul_le_mono_r; lia).
  repeat split; lia.
Qed.

(* ------------------------------------------------------------------ real cells *)
Local Open Scope R_scope.
Definition fff : bool * bool * bool := (false, false, false).
(* the model's own trimmed-or-not decision for a parametric point (the one surface_trim_tessellate applies to triangle
   centres): run the flag automaton on the winding tests of the point *)
Definition pt_flags (trims : list (@trimc R)) (x y : R) : bool * bool * bool :=
  flag_update fff trims (fun trim => wn_poly Rops [x; y] (tpts trim)).
Definition pt_trimmed (trims : list (@trimc R)) (x y : R) : bool := fst (fst (pt_flags trims x y)).

Definition trims_closed (trims : list (@trimc R)) : Prop := forall trim, In trim trims -> closed_poly (tpts trim).
(* no segment of any trim polyline has a point in the closed rectangle *)
Definition trims_miss_rect (trims : list (@trimc R)) (U0 U1 V0 V1 : R) : Prop :=
  forall trim p q, In trim trims -> In (p, q) (combine (tpts trim) (tl (tpts trim))) -> ~ seg_meets_rect p q U0 U1 V0 V1.

Lemma wn_const trims U0 U1 V0 V1 : trims_closed trims -> trims_miss_rect trims U0 U1 V0 V1 ->
  forall trim x y x' y', In trim trims -> U0 <= x <= U1 -> V0 <= y <= V1 -> U0 <= x' <= U1 -> V0 <= y' <= V1 ->
  wn_poly Rops [x; y] (tpts trim) = wn_poly Rops [x'; y'] (tpts trim).
Proof.
  intros Hc Hm trim x y x' y' Hin. apply wn_poly_const_on_rect; [apply Hc; exact Hin|].
  intros p q Hpq. apply (Hm trim p q Hin Hpq).
Qed.
(* [G] the trimmed-or-not decision is the same for all points of a rectangle that the trim boundary does not touch *)
Theorem pt_flags_const trims U0 U1 V0 V1 x y x' y' : trims_closed trims -> trims_miss_rect trims U0 U1 V0 V1 ->
  U0 <= x <= U1 -> V0 <= y <= V1 -> U0 <= x' <= U1 -> V0 <= y' <= V1 ->
  pt_flags trims x y = pt_flags trims x' y'.
Proof.
  intros Hc Hm A B A' B'. unfold pt_flags. apply flag_update_ext. intros trim Hin.
  apply (wn_const trims U0 U1 V0 V1 Hc Hm trim); assumption.
Qed.

Lemma corner_test_R trims U0 U1 V0 V1 tols idx o x y : trims_closed trims -> trims_miss_rect trims U0 U1 V0 V1 ->
  0 <= tols -> U0 <= vu o - tols -> vu o + tols <= U1 -> V0 <= vv o - tols -> vv o + tols <= V1 ->
  U0 <= x <= U1 -> V0 <= y <= V1 ->
  forall trim, In trim trims -> corner_test Rops tols idx o trim = wn_poly Rops [x; y] (tpts trim).
Proof.
  intros Hc Hm Ht A1 A2 B1 B2 Hx Hy trim Hin. unfold corner_test.
  apply (wn_const trims U0 U1 V0 V1 Hc Hm trim); try assumption;
    destruct (treversed trim); destruct idx as [|[|[|idx]]]; unfold vtol, oneg; cbn [fst snd]; rsimp; lra.
Qed.

Lemma ofnat3 : ofnat Rops 3 = 3.
Proof. cbn [ofnat]. rsimp. lra. Qed.
Lemma centroid_bounds lo hi a b c : lo <= a <= hi -> lo <= b <= hi -> lo <= c <= hi ->
  lo <= (0 + a + b + c) / ofnat Rops 3 <= hi.
Proof. intros. rewrite ofnat3. lra. Qed.

Lemma tri_kept_R trims U0 U1 V0 V1 s1 i x y z x0 y0 : trims_closed trims -> trims_miss_rect trims U0 U1 V0 V1 ->
  U0 <= x0 <= U1 -> V0 <= y0 <= V1 ->
  U0 <= vu (vget Rops s1 x) <= U1 -> V0 <= vv (vget Rops s1 x) <= V1 ->
  U0 <= vu (vget Rops s1 y) <= U1 -> V0 <= vv (vget Rops s1 y) <= V1 ->
  U0 <= vu (vget Rops s1 z) <= U1 -> V0 <= vv (vget Rops s1 z) <= V1 ->
  tri_kept Rops trims s1 (i, (x, y, z)) = negb (pt_trimmed trims x0 y0).
Proof.
  intros Hc Hm A0 B0 Ax Bx Ay By Az Bz. unfold tri_kept, pt_trimmed, pt_flags. cbv zeta. rsimp.
  match goal with |- context [flag_update _ trims ?f] =>
    rewrite (flag_update_ext f (fun trim => wn_poly Rops [x0; y0] (tpts trim)) trims) end.
  - fold fff. destruct (flag_update fff trims _) as [[a b] c]. reflexivity.
  - intros trim Hin. apply (wn_const trims U0 U1 V0 V1 Hc Hm trim _ _ _ _ Hin); try assumption; apply centroid_bounds; assumption.
Qed.

Section Cell.
Variables (rtol tol tols : R) (trims : list (@trimc R)) (s : list (@vobj R)) (c1 c2 c3 c4 vidx tidx : nat) (u0 u1 v0 v1 : R).
Hypothesis (Hu : u0 < u1) (Hv : v0 < v1).
Hypothesis (L1 : (c1 < length s)%nat) (L2 : (c2 < length s)%nat) (L3 : (c3 < length s)%nat) (L4 : (c4 < length s)%nat).
Hypothesis (P1 : vuv (vget Rops s c1) = [u0; v0]) (P2 : vuv (vget Rops s c2) = [u1; v0])
           (P3 : vuv (vget Rops s c3) = [u1; v1]) (P4 : vuv (vget Rops s c4) = [u0; v1]).
Let s1 := cls_fold Rops tols trims [c1; c2; c3; c4] s.

Lemma uv_neq (c c' : nat) a b a' b' : vuv (vget Rops s c) = [a; b] -> vuv (vget Rops s c') = [a'; b'] ->
  (a <> a' \/ b <> b') -> c <> c'.
Proof. intros H1 H2 Hd E. subst c'. rewrite H1 in H2. injection H2 as E1 E2. destruct Hd; congruence. Qed.
Lemma rect_distinct : distinct4 c1 c2 c3 c4.
Proof.
  unfold distinct4. repeat split.
  - apply (uv_neq _ _ _ _ _ _ P1 P2). left; lra.
  - apply (uv_neq _ _ _ _ _ _ P1 P3). left; lra.
  - apply (uv_neq _ _ _ _ _ _ P1 P4). right; lra.
  - apply (uv_neq _ _ _ _ _ _ P2 P3). right; lra.
  - apply (uv_neq _ _ _ _ _ _ P2 P4). left; lra.
  - apply (uv_neq _ _ _ _ _ _ P3 P4). left; lra.
Qed.
Lemma uv_of (o : @vobj R) a b : vuv o = [a; b] -> vu o = a /\ vv o = b.
Proof. unfold vuv. intros E. injection E as -> ->. auto. Qed.

Lemma s1_spec :
  length s1 = length s /\
  (vu (vget Rops s1 c1) = u0 /\ vv (vget Rops s1 c1) = v0) /\ (vu (vget Rops s1 c2) = u1 /\ vv (vget Rops s1 c2) = v0) /\
  (vu (vget Rops s1 c3) = u1 /\ vv (vget Rops s1 c3) = v1) /\ (vu (vget Rops s1 c4) = u0 /\ vv (vget Rops s1 c4) = v1) /\
  vflags (vget Rops s1 c1) = flag_update (vflags (vget Rops s c1)) trims (corner_test Rops tols 0 (vget Rops s c1)) /\
  vflags (vget Rops s1 c2) = flag_update (vflags (vget Rops s c2)) trims (corner_test Rops tols 1 (vget Rops s c2)) /\
  vflags (vget Rops s1 c3) = flag_update (vflags (vget Rops s c3)) trims (corner_test Rops tols 2 (vget Rops s c3)) /\
  vflags (vget Rops s1 c4) = flag_update (vflags (vget Rops s c4)) trims (corner_test Rops tols 3 (vget Rops s c4)).
Proof.
  destruct (cls_fold4 Rops tols trims s c1 c2 c3 c4 rect_distinct L1 L2 L3 L4) as [HL [E1 [E2 [E3 [E4 _]]]]].
  fold s1 in HL, E1, E2, E3, E4. rewrite E1, E2, E3, E4.
  destruct (classify_spec Rops tols trims 0 (vget Rops s c1)) as [F1 [U1 [V1 _]]].
  destruct (classify_spec Rops tols trims 1 (vget Rops s c2)) as [F2 [U2 [V2 _]]].
  destruct (classify_spec Rops tols trims 2 (vget Rops s c3)) as [F3 [U3 [V3 _]]].
  destruct (classify_spec Rops tols trims 3 (vget Rops s c4)) as [F4 [U4 [V4 _]]].
  destruct (uv_of _ _ _ P1) as [A1 B1]. destruct (uv_of _ _ _ P2) as [A2 B2].
  destruct (uv_of _ _ _ P3) as [A3 B3]. destruct (uv_of _ _ _ P4) as [A4 B4].
  rewrite U1, V1, U2, V2, U3, V3, U4, V4. repeat split; assumption.
Qed.

(* [G] the corrected "within one cell" statement (v2 of C15_trim_within_one_cell_full), exact part: a cell whose
   tols-neighbourhood is not touched by any (closed) trim polyline, and whose corners are fresh or were classified by
   neighbouring cells before, is either omitted completely or tessellated by exactly its two fan triangles, according to
   the trimmed-or-not decision, which is the same for every point of the cell *)
Theorem trim_cell_untouched_exact :
  0 <= tols -> trims_closed trims ->
  trims_miss_rect trims (u0 - tols) (u1 + tols) (v0 - tols) (v1 + tols) ->
  Forall (fun c => vflags (vget Rops s c) = fff \/ vflags (vget Rops s c) = pt_flags trims u0 v0) [c1; c2; c3; c4] ->
  (forall x y, u0 - tols <= x <= u1 + tols -> v0 - tols <= y <= v1 + tols -> pt_trimmed trims x y = pt_trimmed trims u0 v0) /\
  surface_trim_tessellate Rops rtol tol tols trims s [c1; c2; c3; c4] vidx tidx =
    if pt_trimmed trims u0 v0 then (s1, [], [])
    else (s1, [c1; c2; c3; c4], [(tidx, (c1, c2, c3)); (S tidx, (c1, c3, c4))]).
Proof.
  intros Ht Hc Hm Hfl.
  split.
  { intros x y Hx Hy. unfold pt_trimmed.
    rewrite (pt_flags_const trims _ _ _ _ x y u0 v0 Hc Hm); try reflexivity; lra. }
  destruct s1_spec as [HL [[A1 B1] [[A2 B2] [[A3 B3] [[A4 B4] [F1 [F2 [F3 F4]]]]]]]].
  destruct (uv_of _ _ _ P1) as [a1 b1]. destruct (uv_of _ _ _ P2) as [a2 b2].
  destruct (uv_of _ _ _ P3) as [a3 b3]. destruct (uv_of _ _ _ P4) as [a4 b4].
  assert (Hcl : forall idx c, In c [c1; c2; c3; c4] -> u0 <= vu (vget Rops s c) <= u1 -> v0 <= vv (vget Rops s c) <= v1 ->
            flag_update (vflags (vget Rops s c)) trims (corner_test Rops tols idx (vget Rops s c)) = pt_flags trims u0 v0).
  { intros idx c Hin Hx Hy.
    rewrite (flag_update_ext (corner_test Rops tols idx (vget Rops s c)) (fun trim => wn_poly Rops [u0; v0] (tpts trim))).
    - rewrite Forall_forall in Hfl. destruct (Hfl c Hin) as [E|E]; rewrite E; [reflexivity|].
      unfold pt_flags. apply flag_update_idem.
    - apply (corner_test_R trims (u0 - tols) (u1 + tols) (v0 - tols) (v1 + tols)); try assumption; lra. }
  rewrite (Hcl 0%nat c1) in F1 by (cbn; auto; lra).
  rewrite (Hcl 1%nat c2) in F2 by (cbn; auto; lra).
  rewrite (Hcl 2%nat c3) in F3 by (cbn; auto; lra).
  rewrite (Hcl 3%nat c4) in F4 by (cbn; auto; lra).
  assert (I1 : vinside (vget Rops s1 c1) = pt_trimmed trims u0 v0) by (unfold pt_trimmed; rewrite <- F1; reflexivity).
  assert (I2 : vinside (vget Rops s1 c2) = pt_trimmed trims u0 v0) by (unfold pt_trimmed; rewrite <- F2; reflexivity).
  assert (I3 : vinside (vget Rops s1 c3) = pt_trimmed trims u0 v0) by (unfold pt_trimmed; rewrite <- F3; reflexivity).
  assert (I4 : vinside (vget Rops s1 c4) = pt_trimmed trims u0 v0) by (unfold pt_trimmed; rewrite <- F4; reflexivity).
  destruct (pt_trimmed trims u0 v0) eqn:Etr.
  - apply (trim_cell_all_inside Rops). fold (cls_fold Rops tols trims [c1; c2; c3; c4] s). fold s1.
    cbn [map forallb]. rewrite I1, I2, I3, I4. reflexivity.
  - rewrite (trim_cell_all_outside Rops rtol tol tols trims s c1 c2 c3 c4 vidx tidx I1 I2 I3 I4). fold s1.
    cbn [filter].
    rewrite (tri_kept_R trims (u0 - tols) (u1 + tols) (v0 - tols) (v1 + tols) s1 tidx c1 c2 c3 u0 v0 Hc Hm)
      by (rewrite ?A1, ?B1, ?A2, ?B2, ?A3, ?B3; lra).
    rewrite (tri_kept_R trims (u0 - tols) (u1 + tols) (v0 - tols) (v1 + tols) s1 (S tidx) c1 c3 c4 u0 v0 Hc Hm)
      by (rewrite ?A1, ?B1, ?A3, ?B3, ?A4, ?B4; lra).
    rewrite Etr. reflexivity.
Qed.

(* ---------------------------------------------------------------- rule (c), geometric form *)
Lemma snap_bound x : 0 <= tol -> x - tol <= snap Rops tol x <= x + tol.
Proof.
  intros Ht. unfold snap. rsimp. unfold Rleb.
  destruct (Rle_dec (x - tol) 0); destruct (Rle_dec 0 (x + tol)); cbn [andb]; try lra;
    destruct (Rle_dec (x - tol) 1); destruct (Rle_dec 1 (x + tol)); cbn [andb]; lra.
Qed.
Lemma in_open_R t : in_open Rops tol t = true -> - tol < t < 1 + tol.
Proof.
  unfold in_open. rsimp. rewrite andb_true_iff, !Rltb_true. lra.
Qed.
Lemma edge_pt a b c d t :
  cx Rops (ray_eval Rops ([a; b], [c; d]) t) = a + (c - a) * t /\ cy Rops (ray_eval Rops ([a; b], [c; d]) t) = b + (d - b) * t.
Proof. unfold ray_eval, ray_p, ray_d, vadd, vsub, cx, cy. cbn [fst snd combine map List.nth]. rsimp. auto. Qed.

(* the cell, enlarged by the intersection tolerance: tol * side (parameter slack of the accepted intersections) + tol (snap) *)
Definition near_cell (o : @vobj R) : Prop :=
  u0 - (tol * (u1 - u0) + tol) <= vu o <= u1 + (tol * (u1 - u0) + tol) /\
  v0 - (tol * (v1 - v0) + tol) <= vv o <= v1 + (tol * (v1 - v0) + tol).

(* [G] rule (c): whatever the trims are, every vertex of every triangle emitted for the cell is one of its four corners or
   a new vertex lying on one of its four edges (up to the intersection tolerance): the triangles stay inside the cell *)
Theorem trim_cell_triangles_in_cell s2 tvs keep : 0 <= tol ->
  surface_trim_tessellate Rops rtol tol tols trims s [c1; c2; c3; c4] vidx tidx = (s2, tvs, keep) ->
  forall i x y z, In (i, (x, y, z)) keep ->
    (In x [c1; c2; c3; c4] \/ (length s <= x)%nat) /\ (In y [c1; c2; c3; c4] \/ (length s <= y)%nat) /\
    (In z [c1; c2; c3; c4] \/ (length s <= z)%nat) /\
    near_cell (vget Rops s2 x) /\ near_cell (vget Rops s2 y) /\ near_cell (vget Rops s2 z).
Proof.
  intros Ht E i x y z Hin.
  destruct (trim_cell_vertices_local Rops rtol tol tols trims s c1 c2 c3 c4 vidx tidx s2 tvs keep E) as [[ext Hext] [_ [Hk _]]].
  fold s1 in Hext, Hk.
  destruct s1_spec as [HL [[A1 B1] [[A2 B2] [[A3 B3] [[A4 B4] _]]]]].
  assert (Hdu : 0 <= tol * (u1 - u0)) by (apply Rmult_le_pos; lra).
  assert (Hdv : 0 <= tol * (v1 - v0)) by (apply Rmult_le_pos; lra).
  assert (Hok : forall o, In o [c1; c2; c3; c4] \/
                  ((length s1 <= o < length s2)%nat /\ on_cell_edge Rops tol (cell_edges Rops s1 c1 c2 c3 c4) (vget Rops s2 o)) ->
                  (In o [c1; c2; c3; c4] \/ (length s <= o)%nat) /\ near_cell (vget Rops s2 o)).
  { intros o [Hc|[Hr Hq]].
    - split; [left; exact Hc|].
      assert (Eo : vget Rops s2 o = vget Rops s1 o).
      { unfold vget. rewrite Hext. apply app_nth1. rewrite HL. destruct Hc as [<-|[<-|[<-|[<-|[]]]]]; assumption. }
      rewrite Eo. unfold near_cell.
      destruct Hc as [<-|[<-|[<-|[<-|[]]]]]; rewrite ?A1, ?B1, ?A2, ?B2, ?A3, ?B3, ?A4, ?B4; lra.
    - split; [right; rewrite <- HL; lia|].
      destruct Hq as [idx [t [Hidx [Ho [Eu [Ev _]]]]]]. apply in_open_R in Ho.
      unfold near_cell. rewrite Eu, Ev. unfold cell_edges, vuv. rewrite A1, B1, A2, B2, A3, B3, A4, B4.
      assert (Ha : 0 <= (u1 - u0) * (t + tol)) by (apply Rmult_le_pos; lra).
      assert (Hb : 0 <= (u1 - u0) * (1 + tol - t)) by (apply Rmult_le_pos; lra).
      assert (Hc' : 0 <= (v1 - v0) * (t + tol)) by (apply Rmult_le_pos; lra).
      assert (Hd : 0 <= (v1 - v0) * (1 + tol - t)) by (apply Rmult_le_pos; lra).
      destruct idx as [|[|[|[|?]]]]; [| | | |lia]; cbn [List.nth];
        match goal with |- context [ray_eval Rops ([?a; ?b], [?c; ?d]) t] => destruct (edge_pt a b c d t) as [-> ->] end;
        match goal with |- _ <= snap Rops tol ?p <= _ /\ _ <= snap Rops tol ?q <= _ =>
          pose proof (snap_bound p Ht); pose proof (snap_bound q Ht) end; lra. }
  destruct (Hk i x y z Hin) as [Hx [Hy Hz]].
  destruct (Hok x Hx) as [X1 X2]. destruct (Hok y Hy) as [Y1 Y2]. destruct (Hok z Hz) as [Z1 Z2]. tauto.
Qed.
End Cell.


(* ------------------------------------------------------------------ the corrected statement in the shape of Props/C15.v *)
(* C15_trim_within_one_cell_full with the three missing hypotheses: the corners are objects of the store, the trims are
   closed polylines, and it is the tols-neighbourhood of the cell (where the corner test points live) that no trim
   segment meets; tols >= 0.  Same conclusion. *)
Definition trim_within_one_cell_v2_stmt : Prop :=
  forall (rtol tol tols : R) (trims : list (@trimc R)) (s : list (@vobj R)) (c1 c2 c3 c4 vidx tidx : nat) (u0 u1 v0 v1 : R),
    (u0 < u1)%R -> (v0 < v1)%R ->
    (c1 < length s)%nat -> (c2 < length s)%nat -> (c3 < length s)%nat -> (c4 < length s)%nat ->
    vuv (vget Rops s c1) = [u0; v0] -> vuv (vget Rops s c2) = [u1; v0] ->
    vuv (vget Rops s c3) = [u1; v1] -> vuv (vget Rops s c4) = [u0; v1] ->
    Forall (fun c => vinside (vget Rops s c) = false /\ vtrim (vget Rops s c) = false /\ vnotrim (vget Rops s c) = false) [c1; c2; c3; c4] ->
    (0 <= tols)%R ->
    (forall trim, In trim trims -> closed_poly (tpts trim)) ->
    (forall trim p q, In trim trims -> In (p, q) (combine (tpts trim) (tl (tpts trim))) ->
       ~ seg_meets_rect p q (u0 - tols) (u1 + tols) (v0 - tols) (v1 + tols)) ->
    let ts := snd (surface_trim_tessellate Rops rtol tol tols trims s [c1; c2; c3; c4] vidx tidx) in
    ts = [] \/ ts = [(tidx, (c1, c2, c3)); (S tidx, (c1, c3, c4))].
Theorem trim_within_one_cell_v2 : trim_within_one_cell_v2_stmt.
Proof.
  intros rtol tol tols trims s c1 c2 c3 c4 vidx tidx u0 u1 v0 v1 Hu Hv L1 L2 L3 L4 P1 P2 P3 P4 Hfl Ht Hc Hm. cbv zeta.
  assert (Hfl' : Forall (fun c => vflags (vget Rops s c) = fff \/ vflags (vget Rops s c) = pt_flags trims u0 v0) [c1; c2; c3; c4]).
  { eapply Forall_impl; [|exact Hfl]. intros c [E1 [E2 E3]]. left. unfold vflags, fff. rewrite E1, E2, E3. reflexivity. }
  destruct (trim_cell_untouched_exact rtol tol tols trims s c1 c2 c3 c4 vidx tidx u0 u1 v0 v1
              Hu Hv L1 L2 L3 L4 P1 P2 P3 P4 Ht Hc Hm Hfl') as [_ E].
  rewrite E. destruct (pt_trimmed trims u0 v0); [left|right]; reflexivity.
Qed.

(* [G] "within one sampling cell", assembled from (a)-(c): for every cell of the sampling grid (rectangle corners,
   objects of the store)
   (1) untouched cells are exact: if no segment of the closed trims meets the tols-neighbourhood of the cell, the
       trimmed-or-not decision is the same at every point of the cell and the cell is omitted completely when it is
       `trimmed`, and tessellated by exactly its two plain triangles when it is not;
   (2) all cells are local: whatever the trims do, every triangle emitted for the cell has its three vertices among the
       four corners and new vertices on the four cell edges (up to the intersection tolerance), i.e. lies in the cell.
   Hence the kept region and the omitted region can differ from the exact trimmed region only inside cells whose
   tols-neighbourhood the trim boundary touches. *)
Theorem trim_within_one_cell :
  forall (rtol tol tols : R) (trims : list (@trimc R)) (s : list (@vobj R)) (c1 c2 c3 c4 vidx tidx : nat) (u0 u1 v0 v1 : R),
    u0 < u1 -> v0 < v1 ->
    (c1 < length s)%nat -> (c2 < length s)%nat -> (c3 < length s)%nat -> (c4 < length s)%nat ->
    vuv (vget Rops s c1) = [u0; v0] -> vuv (vget Rops s c2) = [u1; v0] ->
    vuv (vget Rops s c3) = [u1; v1] -> vuv (vget Rops s c4) = [u0; v1] ->
    (0 <= tols -> trims_closed trims ->
     trims_miss_rect trims (u0 - tols) (u1 + tols) (v0 - tols) (v1 + tols) ->
     Forall (fun c => vflags (vget Rops s c) = fff \/ vflags (vget Rops s c) = pt_flags trims u0 v0) [c1; c2; c3; c4] ->
     (forall x y, u0 - tols <= x <= u1 + tols -> v0 - tols <= y <= v1 + tols -> pt_trimmed trims x y = pt_trimmed trims u0 v0) /\
     surface_trim_tessellate Rops rtol tol tols trims s [c1; c2; c3; c4] vidx tidx =
       if pt_trimmed trims u0 v0 then (cls_fold Rops tols trims [c1; c2; c3; c4] s, [], [])
       else (cls_fold Rops tols trims [c1; c2; c3; c4] s, [c1; c2; c3; c4], [(tidx, (c1, c2, c3)); (S tidx, (c1, c3, c4))])) /\
    (0 <= tol -> forall s2 tvs keep,
     surface_trim_tessellate Rops rtol tol tols trims s [c1; c2; c3; c4] vidx tidx = (s2, tvs, keep) ->
     forall i x y z, In (i, (x, y, z)) keep ->
       (In x [c1; c2; c3; c4] \/ (length s <= x)%nat) /\ (In y [c1; c2; c3; c4] \/ (length s <= y)%nat) /\
       (In z [c1; c2; c3; c4] \/ (length s <= z)%nat) /\
       near_cell tol u0 u1 v0 v1 (vget Rops s2 x) /\ near_cell tol u0 u1 v0 v1 (vget Rops s2 y) /\
       near_cell tol u0 u1 v0 v1 (vget Rops s2 z)).
Proof.
  intros rtol tol tols trims s c1 c2 c3 c4 vidx tidx u0 u1 v0 v1 Hu Hv L1 L2 L3 L4 P1 P2 P3 P4. split.
  - apply trim_cell_untouched_exact; assumption.
  - intros Ht s2 tvs keep. apply trim_cell_triangles_in_cell; assumption.
Qed.
Print Assumptions trim_within_one_cell_v2.
Print Assumptions trim_within_one_cell.

(* ------------------------------------------------------------------ C15_trim_within_one_cell_full as written is false *)
(* why: (1) the corner tests are made at the corners moved by (+-tols, +-tols), and tols is an unconstrained real in the
   statement; a trim far away from the cell can contain one moved corner only, and then a single triangle comes out;
   (2) the statement does not ask the trims to be closed polylines (for an open polyline the winding count is not constant
   off the polyline); (3) it does not ask the corners to be objects of the store.  (1) is used for the witness. *)
Local Open Scope nat_scope.
Section One.
Context {T : Type} (K : ops T).
(* a cell rule of its own: first corner trimmed, the other three not, no recorded intersection: the triangle of the three
   remaining corners (kept unless its centre is trimmed) *)
Lemma trim_cell_first_corner_inside rtol tol tols trims s c1 c2 c3 c4 vidx tidx :
  let s1 := cls_fold K tols trims [c1; c2; c3; c4] s in
  vinside (vget K s1 c1) = true -> vinside (vget K s1 c2) = false ->
  vinside (vget K s1 c3) = false -> vinside (vget K s1 c4) = false ->
  cell_intersections K rtol tol (cell_edges K s1 c1 c2 c3 c4) trims = [] ->
  surface_trim_tessellate K rtol tol tols trims s [c1; c2; c3; c4] vidx tidx =
  (s1, [c2; c3; c4], filter (tri_kept K trims s1) [(tidx, (c2, c3, c4))]).
Proof.
  cbv zeta. intros H1 H2 H3 H4 Hx. unfold surface_trim_tessellate. fold (cls_fold K tols trims [c1; c2; c3; c4] s).
  set (s1 := cls_fold K tols trims [c1; c2; c3; c4] s) in *. clearbody s1.
  cbn [map forallb]. rewrite H1, H2. cbn [andb].
  cbn [app hd tl combine map fst snd]. fold (cell_edges K s1 c1 c2 c3 c4). rewrite Hx.
  match goal with |- context [fold_left ?f (seq 0 4) ?i] => set (F := f) end.
  assert (HF : forall tv nvi idx a b ia ib,
            nth idx [c1; c2; c3; c4; c1] 0 = a -> nth (S idx) [c1; c2; c3; c4; c1] 0 = b ->
            vinside (vget K s1 a) = ia -> vinside (vget K s1 b) = ib ->
            F (s1, tv, nvi) idx = (s1, (if andb ia ib then tv else if ia then tv else tv ++ [a]), nvi)).
  { intros tv nvi idx a b ia ib Ea Eb Ha Hb. subst F. cbv beta iota zeta.
    rewrite Ea, Eb, Ha, Hb. destruct ia, ib; reflexivity. }
  clearbody F. cbn [seq fold_left].
  rewrite (HF [] 0 0 c1 c2 true false eq_refl eq_refl H1 H2). cbn [andb].
  rewrite (HF _ 0 1 c2 c3 false false eq_refl eq_refl H2 H3). cbn [andb].
  rewrite (HF _ 0 2 c3 c4 false false eq_refl eq_refl H3 H4). cbn [andb].
  rewrite (HF _ 0 3 c4 c1 false true eq_refl eq_refl H4 H1). cbn [andb].
  cbn [app polygon_triangulate tl combine map fst snd number_from length seq]. reflexivity.
Qed.
End One.

Local Open Scope R_scope.
Lemma intersect_2d_colinear rtol a b c d e f g h : 0 < rtol ->
  Rabs ((c - a) * (h - f) - (d - b) * (g - e)) < rtol ->
  exists t1 t2, intersect Rops rtol ([a; b], [c; d]) ([e; f], [g; h]) = Ok (t1, t2, COLINEAR).
Proof.
  intros Hr HD. unfold intersect, ray_dim, hom. cbn [fst snd length Nat.eqb negb app]. rsimp.
  unfold intersect3d.
  assert (E : vector_is_zero Rops rtol (cross3 Rops (ray_d Rops ([a; b; 1], [c; d; 1])) (ray_d Rops ([e; f; 1], [g; h; 1]))) = true).
  { unfold ray_d, cross3, vsub, cx, cy, cz. cbn [fst snd combine map List.nth]. rsimp. apply vector_is_zero3.
    replace ((d - b) * (1 - 1) - (1 - 1) * (h - f)) with 0 by ring.
    replace ((1 - 1) * (g - e) - (c - a) * (1 - 1)) with 0 by ring. rewrite Rabs_R0. auto. }
  rewrite E. eauto.
Qed.
Lemma flat_map_nil {A B} (f : A -> list B) l : (forall x, In x l -> f x = []) -> flat_map f l = [].
Proof. induction l as [|a l IH]; intros H; [reflexivity|]. cbn [flat_map]. rewrite (H a (or_introl eq_refl)), IH; auto. intros x Hx. apply H. right. exact Hx. Qed.

Definition far_trim : @trimc R := mkTrim false [[-11; -11]; [-9; -11]; [-9; -9]; [-11; -9]; [-11; -11]].
Definition unit_store : list (@vobj R) :=
  [mkV 0 None 0 0 false false false; mkV 1 None 1 0 false false false; mkV 2 None 1 1 false false false; mkV 3 None 0 1 false false false].

Lemma far_trim_wn x y : wn_poly Rops [x; y] (tpts far_trim) = true <-> (-11 <= x < -9 /\ -11 <= y < -9).
Proof. unfold far_trim. cbn [tpts]. apply wn_rectangle; lra. Qed.
Lemma far_trim_wn_false x y : ~ (-11 <= x < -9 /\ -11 <= y < -9) -> wn_poly Rops [x; y] (tpts far_trim) = false.
Proof. intros H. destruct (wn_poly Rops [x; y] (tpts far_trim)) eqn:E; [|reflexivity]. apply far_trim_wn in E. contradiction. Qed.

(* the statement of Props/C15.v, C15_trim_within_one_cell_full (seg_meets_rect is its seg_meets_cell) *)
Definition trim_within_one_cell_full_stmt : Prop :=
  forall (rtol tol tols : R) (trims : list (@trimc R)) (s : list (@vobj R)) (c1 c2 c3 c4 vidx tidx : nat) (u0 u1 v0 v1 : R),
    (u0 < u1)%R -> (v0 < v1)%R ->
    vuv (vget Rops s c1) = [u0; v0] -> vuv (vget Rops s c2) = [u1; v0] ->
    vuv (vget Rops s c3) = [u1; v1] -> vuv (vget Rops s c4) = [u0; v1] ->
    Forall (fun c => vinside (vget Rops s c) = false /\ vtrim (vget Rops s c) = false /\ vnotrim (vget Rops s c) = false) [c1; c2; c3; c4] ->
    (forall trim p q, In trim trims -> In (p, q) (combine (tpts trim) (tl (tpts trim))) -> ~ seg_meets_rect p q u0 u1 v0 v1) ->
    let ts := snd (surface_trim_tessellate Rops rtol tol tols trims s [c1; c2; c3; c4] vidx tidx) in
    ts = [] \/ ts = [(tidx, (c1, c2, c3)); (S tidx, (c1, c3, c4))].

(* the unit cell, tols = 10, one ordinary trim around (-10, -10): only the first corner's test point (-10, -10) is inside it *)
Lemma witness_result :
  snd (surface_trim_tessellate Rops 1000 0 10 [far_trim] unit_store [0; 1; 2; 3]%nat 4%nat 0%nat) = [(0%nat, (1, 2, 3)%nat)].
Proof.
  assert (D : distinct4 0 1 2 3) by (unfold distinct4; repeat split; discriminate).
  destruct (cls_fold4 Rops 10 [far_trim] unit_store 0 1 2 3 D) as [HL [E1 [E2 [E3 [E4 _]]]]]; try (cbn; lia).
  set (s1 := cls_fold Rops 10 [far_trim] [0; 1; 2; 3]%nat unit_store) in *.
  assert (Hcls : forall idx o, vflags o = fff ->
            vflags (classify_vertex Rops 10 [far_trim] idx o) = (if corner_test Rops 10 idx o far_trim then (true, true, false) else fff)).
  { intros idx o Ho. destruct (classify_spec Rops 10 [far_trim] idx o) as [-> _]. rewrite Ho.
    rewrite flag_update_fold. cbn [fold_left]. unfold flag_step, fff. cbn [treversed far_trim].
    destruct (corner_test Rops 10 idx o far_trim); reflexivity. }
  assert (T1 : corner_test Rops 10 0 (vget Rops unit_store 0) far_trim = true).
  { unfold corner_test. cbn [treversed far_trim vget unit_store List.nth vu vv vtol fst snd]. unfold oneg. rsimp.
    apply far_trim_wn. lra. }
  assert (T2 : corner_test Rops 10 1 (vget Rops unit_store 1) far_trim = false).
  { unfold corner_test. cbn [treversed far_trim vget unit_store List.nth vu vv vtol fst snd]. unfold oneg. rsimp.
    apply far_trim_wn_false. lra. }
  assert (T3 : corner_test Rops 10 2 (vget Rops unit_store 2) far_trim = false).
  { unfold corner_test. cbn [treversed far_trim vget unit_store List.nth vu vv vtol fst snd]. unfold oneg. rsimp.
    apply far_trim_wn_false. lra. }
  assert (T4 : corner_test Rops 10 3 (vget Rops unit_store 3) far_trim = false).
  { unfold corner_test. cbn [treversed far_trim vget unit_store List.nth vu vv vtol fst snd]. unfold oneg. rsimp.
    apply far_trim_wn_false. lra. }
  assert (F1 : vflags (vget Rops s1 0) = (true, true, false)) by (rewrite E1, Hcls, T1; reflexivity).
  assert (F2 : vflags (vget Rops s1 1) = fff) by (rewrite E2, Hcls, T2; reflexivity).
  assert (F3 : vflags (vget Rops s1 2) = fff) by (rewrite E3, Hcls, T3; reflexivity).
  assert (F4 : vflags (vget Rops s1 3) = fff) by (rewrite E4, Hcls, T4; reflexivity).
  assert (I1 : vinside (vget Rops s1 0) = true) by (change (fst (fst (vflags (vget Rops s1 0))) = true); rewrite F1; reflexivity).
  assert (I2 : vinside (vget Rops s1 1) = false) by (change (fst (fst (vflags (vget Rops s1 1))) = false); rewrite F2; reflexivity).
  assert (I3 : vinside (vget Rops s1 2) = false) by (change (fst (fst (vflags (vget Rops s1 2))) = false); rewrite F3; reflexivity).
  assert (I4 : vinside (vget Rops s1 3) = false) by (change (fst (fst (vflags (vget Rops s1 3))) = false); rewrite F4; reflexivity).
  assert (UV : vuv (vget Rops s1 0) = [0; 0] /\ vuv (vget Rops s1 1) = [1; 0] /\ vuv (vget Rops s1 2) = [1; 1] /\ vuv (vget Rops s1 3) = [0; 1]).
  { rewrite E1, E2, E3, E4. unfold vuv.
    destruct (classify_spec Rops 10 [far_trim] 0 (vget Rops unit_store 0)) as [_ [-> [-> _]]].
    destruct (classify_spec Rops 10 [far_trim] 1 (vget Rops unit_store 1)) as [_ [-> [-> _]]].
    destruct (classify_spec Rops 10 [far_trim] 2 (vget Rops unit_store 2)) as [_ [-> [-> _]]].
    destruct (classify_spec Rops 10 [far_trim] 3 (vget Rops unit_store 3)) as [_ [-> [-> _]]].
    cbn. auto. }
  destruct UV as [U1 [U2 [U3 U4]]].
  assert (Hx : cell_intersections Rops 1000 0 (cell_edges Rops s1 0 1 2 3) [far_trim] = []).
  { unfold cell_intersections, cell_edges. rewrite U1, U2, U3, U4.
    apply flat_map_nil. intros trim [<-|[]]. apply flat_map_nil. intros seg Hs. apply flat_map_nil. intros idx2 Hi.
    assert (Hc : exists t1 t2, intersect Rops 1000 (List.nth idx2 [([0; 0], [1; 0]); ([1; 0], [1; 1]); ([1; 1], [0; 1]); ([0; 1], [0; 0])] ([], [])) seg
                               = Ok (t1, t2, COLINEAR)).
    { cbn [far_trim tpts tl combine] in Hs. apply in_seq in Hi.
      destruct Hs as [<-|[<-|[<-|[<-|[]]]]]; destruct idx2 as [|[|[|[|?]]]]; try lia; cbn [List.nth];
        apply intersect_2d_colinear; try lra; apply Rabs_def1; lra. }
    destruct Hc as [t1 [t2 ->]]. reflexivity. }
  rewrite (trim_cell_first_corner_inside Rops 1000 0 10 [far_trim] unit_store 0 1 2 3 4 0 I1 I2 I3 I4 Hx).
  fold s1. cbn [snd filter].
  assert (Kp : tri_kept Rops [far_trim] s1 (0%nat, (1, 2, 3)%nat) = true).
  { unfold tri_kept. cbv zeta. unfold vuv in U2, U3, U4. injection U2 as -> ->. injection U3 as -> ->. injection U4 as -> ->.
    rewrite ofnat3. rewrite flag_update_fold. cbn [fold_left]. unfold flag_step. cbn [treversed far_trim]. rsimp.
    rewrite far_trim_wn_false; [reflexivity|]. lra. }
  rewrite Kp. reflexivity.
Qed.

Theorem trim_within_one_cell_full_refuted : ~ trim_within_one_cell_full_stmt.
Proof.
  intros H.
  specialize (H 1000 0 10 [far_trim] unit_store 0%nat 1%nat 2%nat 3%nat 4%nat 0%nat 0 1 0 1).
  cbv zeta in H. rewrite witness_result in H.
  destruct H as [H|H]; try discriminate H; try lra; try reflexivity.
  - repeat constructor.
  - intros trim p q [<-|[]] Hs [l [Hl [Hx Hy]]].
    cbn [far_trim tpts tl combine] in Hs.
    destruct Hs as [E|[E|[E|[E|[]]]]]; injection E as <- <-; unfold cx, cy in Hx, Hy; cbn [List.nth] in Hx, Hy; rsimp; lra.
Qed.
Print Assumptions trim_within_one_cell_full_refuted.

(* ------------------------------------------------------------------ the hypotheses are satisfiable *)
Lemma far_trim_closed : trims_closed [far_trim].
Proof. intros trim [<-|[]]. unfold closed_poly, far_trim. cbn. repeat split; try discriminate; reflexivity. Qed.
Lemma far_trim_misses U0 U1 V0 V1 : -9 < U0 -> -9 < V0 -> trims_miss_rect [far_trim] U0 U1 V0 V1.
Proof.
  intros HU HV trim p q [<-|[]] Hs [l [Hl [Hx Hy]]]. cbn [far_trim tpts tl combine] in Hs.
  destruct Hs as [E|[E|[E|[E|[]]]]]; injection E as <- <-; unfold cx, cy in Hx, Hy; cbn [List.nth] in Hx, Hy; rsimp; lra.
Qed.
(* an untouched, untrimmed cell: exactly the two plain triangles *)
Example untouched_cell_example :
  surface_trim_tessellate Rops 1000 0 (1 / 2) [far_trim] unit_store [0; 1; 2; 3]%nat 4%nat 0%nat =
  (cls_fold Rops (1 / 2) [far_trim] [0; 1; 2; 3]%nat unit_store, [0; 1; 2; 3]%nat,
   [(0%nat, (0, 1, 2)%nat); (1%nat, (0, 2, 3)%nat)]).
Proof.
  destruct (trim_cell_untouched_exact 1000 0 (1 / 2) [far_trim] unit_store 0 1 2 3 4 0 0 1 0 1) as [_ E];
    try lra; try (cbn; lia); try reflexivity.
  - exact far_trim_closed.
  - apply far_trim_misses; lra.
  - repeat constructor.
  - rewrite E.
    assert (Hp : pt_trimmed [far_trim] 0 0 = false).
    { unfold pt_trimmed, pt_flags. rewrite flag_update_fold. cbn [fold_left]. unfold flag_step, fff. cbn [treversed far_trim].
      rewrite far_trim_wn_false; [reflexivity|lra]. }
    rewrite Hp. reflexivity.
Qed.
(* a cell inside an ordinary trim: omitted *)
Definition big_trim : @trimc R := mkTrim false [[-5; -5]; [5; -5]; [5; 5]; [-5; 5]; [-5; -5]].
Example trimmed_cell_example :
  surface_trim_tessellate Rops 1000 0 (1 / 2) [big_trim] unit_store [0; 1; 2; 3]%nat 4%nat 0%nat =
  (cls_fold Rops (1 / 2) [big_trim] [0; 1; 2; 3]%nat unit_store, [], []).
Proof.
  assert (W : forall x y, -5 <= x < 5 /\ -5 <= y < 5 -> wn_poly Rops [x; y] (tpts big_trim) = true).
  { intros x y H. unfold big_trim. cbn [tpts]. apply wn_rectangle; lra. }
  apply trim_cell_corners_trimmed_omitted; try (cbn; lia).
  - unfold distinct4. repeat split; discriminate.
  - exists big_trim. split; [left; reflexivity|]. split; [reflexivity|]. unfold corner_test.
    cbn [treversed big_trim vget unit_store List.nth vu vv vtol fst snd]. unfold oneg. rsimp. apply W. lra.
  - exists big_trim. split; [left; reflexivity|]. split; [reflexivity|]. unfold corner_test.
    cbn [treversed big_trim vget unit_store List.nth vu vv vtol fst snd]. unfold oneg. rsimp. apply W. lra.
  - exists big_trim. split; [left; reflexivity|]. split; [reflexivity|]. unfold corner_test.
    cbn [treversed big_trim vget unit_store List.nth vu vv vtol fst snd]. unfold oneg. rsimp. apply W. lra.
  - exists big_trim. split; [left; reflexivity|]. split; [reflexivity|]. unfold corner_test.
    cbn [treversed big_trim vget unit_store List.nth vu vv vtol fst snd]. unfold oneg. rsimp. apply W. lra.
Qed.

Print Assumptions trim_cell_corners_trimmed_omitted.
Print Assumptions trim_cell_all_outside.
Print Assumptions trim_cell_vertices_local.
Print Assumptions flag_update_idem.
