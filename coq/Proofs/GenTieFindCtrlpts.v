(* Ties: generated _operations.find_ctrlpts_curve / find_ctrlpts_surface (Gen/OperationsInternal.v) = Model/Voxel.v
   (and, by conversion, Model/Hull.v: the active control point windows of C18).  The curve / surface OBJECT of the source is the
   record curveobj / surfobj of the attributes the function reads; the theorems are about any record whose fields are the model's
   arguments (ctrlpts2d = the [u][v] view of the flat control point list).  No law of the scalar operations is used. *)
From Coq Require Import List ZArith Arith Bool Lia QArith.
From NV Require Import Scalar.Ops Model.Common Model.Basis Model.Eval Model.Layout Model.Voxel Model.Hull
  Gen.Prelude Gen.PreludeExt Gen.Linalg Gen.Helpers Gen.OperationsInternal
  Proofs.GenTieLib Proofs.GenTieLib2 Proofs.GenTieSpan Proofs.GenTieEvalLib.
Import ListNotations.
Local Open Scope nat_scope.

(* for i in range(n): out[i] = g(i), out a fresh list of n slots *)
Lemma gfor_fill_all {B} (d : B) (f : Z -> list B -> gres (list B)) (g : nat -> B) (n : nat) (z : B) :
  (forall i M', i < n -> length M' = n -> f (Z.of_nat i) M' = GOk (upd M' i (g i))) ->
  gfor (zrange 0 (Z.of_nat n) 1) f (map (fun _ => z) (zrange 0 (Z.of_nat n) 1)) = GOk (map g (seq 0 n)).
Proof.
  intros H. rewrite map_const_zrange, Nat2Z.id, zrange_0_nat, (gfor_map Z.of_nat).
  rewrite (gfor_fill d _ g (repeat z n) n).
  - rewrite skipn_all2 by (rewrite repeat_length; lia). now rewrite app_nil_r.
  - rewrite repeat_length. lia.
  - intros i M' Hi HM' _. apply H; auto. now rewrite HM', repeat_length.
Qed.

Section Tie.
Context {T : Type} (K : ops T).

(* ---- curve ---- *)
Theorem find_ctrlpts_curve_tie_gen (func : Z -> list T -> Z -> T -> gres Z) (p : nat) (U : list T) (P : list (list T)) (t : T) :
  p < length P ->
  func (Z.of_nat p) U (Z.of_nat (length P)) t = GOk (Z.of_nat (Basis.find_span_linear K p U (length P) t)) ->
  OperationsInternal.find_ctrlpts_curve K t (mk_curveobj (Z.of_nat p) U P) func = GOk (Voxel.find_ctrlpts_curve K p U P t).
Proof.
  intros Hp Hf. unfold OperationsInternal.find_ctrlpts_curve, Voxel.find_ctrlpts_curve.
  cbn [curveobj_degree curveobj_knotvector curveobj_ctrlpts]. unfold zlen. rewrite Hf. cbn [gbind].
  pose proof (find_span_linear_bounds K p U (length P) t Hp) as Hb.
  set (span := Basis.find_span_linear K p U (length P) t) in *.
  replace (Z.of_nat p + 1)%Z with (Z.of_nat (S p)) by lia.
  rewrite (gfor_fill_all [] _ (fun i => nth (span - p + i) P [])).
  - reflexivity.
  - intros i M' Hi HM'.
    replace (Z.of_nat span - Z.of_nat p + Z.of_nat i)%Z with (Z.of_nat (span - p + i)) by lia.
    rewrite (znth_nat P (span - p + i) []) by lia. cbn [gbind].
    rewrite zset_nat by lia. reflexivity.
Qed.

(* the default span function; wf in addition: len(ctrlpts) <= len(knotvector) (find_span_linear reads knotvector[span]) *)
Theorem find_ctrlpts_curve_tie (p : nat) (U : list T) (P : list (list T)) (t : T) :
  p < length P -> length P <= length U ->
  OperationsInternal.find_ctrlpts_curve K t (mk_curveobj (Z.of_nat p) U P) (OperationsInternal.find_ctrlpts_curve__default_find_span_func K)
  = GOk (Voxel.find_ctrlpts_curve K p U P t).
Proof.
  intros Hp HU. apply find_ctrlpts_curve_tie_gen; auto.
  unfold find_ctrlpts_curve__default_find_span_func. now apply find_span_linear_tie.
Qed.

(* the same function of Model/Hull.v (C18): the two models are convertible *)
Theorem find_ctrlpts_curve_tie_hull (p : nat) (U : list T) (P : list (list T)) (t : T) :
  p < length P -> length P <= length U ->
  OperationsInternal.find_ctrlpts_curve K t (mk_curveobj (Z.of_nat p) U P) (OperationsInternal.find_ctrlpts_curve__default_find_span_func K)
  = GOk (Hull.find_ctrlpts_curve K p U P t).
Proof. exact (find_ctrlpts_curve_tie p U P t). Qed.

(* ---- surface ---- *)
(* V is the [u][v] view of the flat list P (v fastest): su rows of sv points, V[a][b] = P[b + sv * a] *)
Definition is_view2d (V : list (list (list T))) (su sv : nat) (P : list (list T)) : Prop :=
  length V = su /\ (forall a, a < su -> length (nth a V []) = sv) /\
  (forall a b, a < su -> b < sv -> nth b (nth a V []) [] = nth (b + sv * a) P []).

Lemma view2d_is_view2d (su sv : nat) (P : list (list T)) : is_view2d (Layout.view2d [] su sv P) su sv P.
Proof.
  unfold is_view2d, view2d. split; [now rewrite map_length, seq_length|]. split.
  - intros a Ha. rewrite (nth_map_lt _ _ a 0) by (rewrite seq_length; lia). now rewrite map_length, seq_length.
  - intros a b Ha Hb. rewrite (nth_map_lt _ _ a 0) by (rewrite seq_length; lia).
    rewrite (nth_map_lt _ _ b 0) by (rewrite seq_length; lia). rewrite !seq_nth by lia. unfold at_. f_equal. lia.
Qed.

Theorem find_ctrlpts_surface_tie_gen (func : Z -> list T -> Z -> T -> gres Z) (pu pv : nat) (Uu Uv : list T) (su sv : nat)
    (V : list (list (list T))) (P : list (list T)) (tu tv : T) :
  is_view2d V su sv P -> pu < su -> pv < sv ->
  func (Z.of_nat pu) Uu (Z.of_nat su) tu = GOk (Z.of_nat (Basis.find_span_linear K pu Uu su tu)) ->
  func (Z.of_nat pv) Uv (Z.of_nat sv) tv = GOk (Z.of_nat (Basis.find_span_linear K pv Uv sv tv)) ->
  OperationsInternal.find_ctrlpts_surface K tu tv (mk_surfobj (Z.of_nat pu) (Z.of_nat pv) Uu Uv (Z.of_nat su) (Z.of_nat sv) V) func
  = GOk (Voxel.find_ctrlpts_surface K pu pv Uu Uv su sv P tu tv).
Proof.
  intros (HV & Hrows & Hent) Hpu Hpv Hfu Hfv. unfold OperationsInternal.find_ctrlpts_surface, Voxel.find_ctrlpts_surface.
  cbn [surfobj_degree_u surfobj_degree_v surfobj_knotvector_u surfobj_knotvector_v surfobj_ctrlpts_size_u surfobj_ctrlpts_size_v
       surfobj_ctrlpts2d].
  rewrite Hfu. cbn [gbind]. rewrite Hfv. cbn [gbind].
  pose proof (find_span_linear_bounds K pu Uu su tu Hpu) as Hbu.
  pose proof (find_span_linear_bounds K pv Uv sv tv Hpv) as Hbv.
  set (spu := Basis.find_span_linear K pu Uu su tu) in *. set (spv := Basis.find_span_linear K pv Uv sv tv) in *.
  replace (Z.of_nat pu + 1)%Z with (Z.of_nat (S pu)) by lia. replace (Z.of_nat pv + 1)%Z with (Z.of_nat (S pv)) by lia.
  rewrite (gfor_fill_all [] _ (fun k => map (fun l => nth (spv - pv + l + sv * (spu - pu + k)) P []) (seq 0 (S pv)))).
  - reflexivity.
  - intros k M' Hk HM'.
    rewrite (gfor_fill_all [] _ (fun l => nth (spv - pv + l + sv * (spu - pu + k)) P [])).
    + cbn [gbind]. rewrite zset_nat by lia. reflexivity.
    + intros l R' Hl HR'.
      replace (Z.of_nat spu - Z.of_nat pu + Z.of_nat k)%Z with (Z.of_nat (spu - pu + k)) by lia.
      replace (Z.of_nat spv - Z.of_nat pv + Z.of_nat l)%Z with (Z.of_nat (spv - pv + l)) by lia.
      rewrite (znth_nat V (spu - pu + k) []) by lia. cbn [gbind].
      rewrite (znth_nat (nth (spu - pu + k) V []) (spv - pv + l) []) by (rewrite Hrows; lia). cbn [gbind].
      rewrite zset_nat by lia. rewrite Hent by lia. reflexivity.
Qed.

Theorem find_ctrlpts_surface_tie (pu pv : nat) (Uu Uv : list T) (su sv : nat) (V : list (list (list T))) (P : list (list T)) (tu tv : T) :
  is_view2d V su sv P -> pu < su -> pv < sv -> su <= length Uu -> sv <= length Uv ->
  OperationsInternal.find_ctrlpts_surface K tu tv (mk_surfobj (Z.of_nat pu) (Z.of_nat pv) Uu Uv (Z.of_nat su) (Z.of_nat sv) V)
    (OperationsInternal.find_ctrlpts_surface__default_find_span_func K)
  = GOk (Voxel.find_ctrlpts_surface K pu pv Uu Uv su sv P tu tv).
Proof.
  intros HV Hpu Hpv HUu HUv. apply find_ctrlpts_surface_tie_gen; auto;
    unfold find_ctrlpts_surface__default_find_span_func; now apply find_span_linear_tie.
Qed.

Theorem find_ctrlpts_surface_tie_hull (pu pv : nat) (Uu Uv : list T) (su sv : nat) (V : list (list (list T))) (P : list (list T)) (tu tv : T) :
  is_view2d V su sv P -> pu < su -> pv < sv -> su <= length Uu -> sv <= length Uv ->
  OperationsInternal.find_ctrlpts_surface K tu tv (mk_surfobj (Z.of_nat pu) (Z.of_nat pv) Uu Uv (Z.of_nat su) (Z.of_nat sv) V)
    (OperationsInternal.find_ctrlpts_surface__default_find_span_func K)
  = GOk (Hull.find_ctrlpts_surface K pu pv Uu Uv su sv P tu tv).
Proof. exact (find_ctrlpts_surface_tie pu pv Uu Uv su sv V P tu tv). Qed.
End Tie.

Require Import Reals.
Definition find_ctrlpts_curve_tie_R := @find_ctrlpts_curve_tie R Rops.
Definition find_ctrlpts_curve_tie_Q := @find_ctrlpts_curve_tie Q Qops.
Definition find_ctrlpts_curve_tie_hull_R := @find_ctrlpts_curve_tie_hull R Rops.
Definition find_ctrlpts_curve_tie_hull_Q := @find_ctrlpts_curve_tie_hull Q Qops.
Definition find_ctrlpts_surface_tie_R := @find_ctrlpts_surface_tie R Rops.
Definition find_ctrlpts_surface_tie_Q := @find_ctrlpts_surface_tie Q Qops.
Definition find_ctrlpts_surface_tie_hull_R := @find_ctrlpts_surface_tie_hull R Rops.
Definition find_ctrlpts_surface_tie_hull_Q := @find_ctrlpts_surface_tie_hull Q Qops.

(* ---- examples (the values operations.find_ctrlpts returns) ---- *)
Local Open Scope Q_scope.
Definition exU : list Q := [0; 0; 0; 0; 1 # 4; 1 # 2; 1 # 2; 3 # 4; 1; 1; 1; 1].
Definition exCP : list (list Q) := [[0; 0]; [1; 2]; [2; 3]; [3; 3]; [4; 2]; [5; 0]; [6; 1]; [7; 4]].
Example find_ctrlpts_curve_ex :
  OperationsInternal.find_ctrlpts_curve Qops (3 # 10) (mk_curveobj 3 exU exCP) (OperationsInternal.find_ctrlpts_curve__default_find_span_func Qops)
    = GOk [[1; 2]; [2; 3]; [3; 3]; [4; 2]]
  /\ Voxel.find_ctrlpts_curve Qops 3 exU exCP (3 # 10) = [[1; 2]; [2; 3]; [3; 3]; [4; 2]].
Proof. split; vm_compute; reflexivity. Qed.
(* degrees (2, 1), a 4 x 3 net *)
Definition exUu : list Q := [0; 0; 0; 1 # 2; 1; 1; 1].
Definition exUv : list Q := [0; 0; 1 # 2; 1; 1].
Definition exSP : list (list Q) := map (fun i => [inject_Z (Z.of_nat i)]) (seq 0 12).
Example find_ctrlpts_surface_ex :
  OperationsInternal.find_ctrlpts_surface Qops (3 # 4) (1 # 4) (mk_surfobj 2 1 exUu exUv 4 3 (Layout.view2d [] 4 3 exSP))
    (OperationsInternal.find_ctrlpts_surface__default_find_span_func Qops)
    = GOk [[[3]; [4]]; [[6]; [7]]; [[9]; [10]]]
  /\ Voxel.find_ctrlpts_surface Qops 2 1 exUu exUv 4 3 exSP (3 # 4) (1 # 4) = [[[3]; [4]]; [[6]; [7]]; [[9]; [10]]].
Proof. split; vm_compute; reflexivity. Qed.
