(* Strictly (row) diagonally dominant matrices: every Doolittle pivot is non-zero, for every size, hence
   lu_solve returns a result X with A X = B.  Also: a strictly diagonally dominant matrix has a trivial
   kernel, and the solution returned by lu_solve is the only one.

   Proof: Doolittle's partial sums are the Schur complements of Gaussian elimination,
      schur m r c = a_rc - sum_{j<m} l_rj u_jc,   u_mc = schur m m c,
      schur (m+1) r c = schur m r c - schur m r m / schur m m m * schur m m c          (r, c > m),
   one elimination step keeps the trailing block strictly diagonally dominant, and the (m,m) entry of a
   strictly diagonally dominant block is non-zero.  The Schur-complement recurrences are stated separately
   (Section Schur, [G]) so that other invariants (e.g. total positivity of collocation matrices) can reuse them. *)
From Coq Require Import List Reals Lra Lia Arith Bool.
From NV Require Import Scalar.Ops Model.Common Model.LinAlg Proofs.LinAlgSums Proofs.LinAlgR Proofs.LinAlgSolve.
Import ListNotations.
Open Scope R_scope.

(* ------------------------------------------------------------------ sums *)
Lemma sumr_le a n f g : (forall i, (a <= i < a + n)%nat -> f i <= g i) -> sumR a n f <= sumR a n g.
Proof.
  revert a. induction n as [|n IH]; intros a H; [rewrite !sumr_0; lra|].
  rewrite !sumr_cons. assert (f a <= g a) by (apply H; lia).
  assert (sumR (S a) n f <= sumR (S a) n g) by (apply IH; intros; apply H; lia). lra.
Qed.
(* take the term of index r out of a sum *)
Lemma sumr_pick a n r f : (a <= r < a + n)%nat ->
  sumR a n f = f r + sumR a n (fun c => if Nat.eqb c r then 0 else f c).
Proof.
  intros Hr. assert (E : sumR a n (fun c => f c - (if Nat.eqb c r then 0 else f c)) = f r).
  { rewrite (sumr_single a n r); [rewrite Nat.eqb_refl; lra|exact Hr|].
    intros i _ Hne. destruct (Nat.eqb_spec i r); [contradiction|lra]. }
  rewrite sumr_minus in E. lra.
Qed.
Lemma Rabs_sub_mul a t b : Rabs (a - t * b) <= Rabs a + Rabs t * Rabs b.
Proof.
  replace (a - t * b) with (a + - (t * b)) by ring.
  eapply Rle_trans; [apply Rabs_triang|]. rewrite Rabs_Ropp, Rabs_mult. lra.
Qed.
Lemma Rabs_sub_mul_inv a t b : Rabs a - Rabs t * Rabs b <= Rabs (a - t * b).
Proof. rewrite <- Rabs_mult. apply Rabs_triang_inv. Qed.

(* ------------------------------------------------------------------ strict diagonal dominance of a trailing block *)
(* rows and columns m .. n-1 of M : the off-diagonal absolute row sums are below the diagonal entry *)
Definition sdd_from (n m : nat) (M : nat -> nat -> R) : Prop :=
  forall r, (m <= r < n)%nat ->
    sumR m (n - m) (fun c => if Nat.eqb c r then 0 else Rabs (M r c)) < Rabs (M r r).

Lemma sdd_from_ext n m M M' : (forall r c, (m <= r < n)%nat -> (m <= c < n)%nat -> M r c = M' r c) ->
  sdd_from n m M -> sdd_from n m M'.
Proof.
  intros E H r Hr. rewrite <- (E r r) by lia.
  rewrite (sumr_ext m (n - m) _ (fun c => if Nat.eqb c r then 0 else Rabs (M r c))); [apply H, Hr|].
  intros c Hc. rewrite (E r c) by lia. reflexivity.
Qed.
Lemma sdd_from_diag n m M : sdd_from n m M -> forall r, (m <= r < n)%nat -> M r r <> 0.
Proof.
  intros H r Hr E. specialize (H r Hr). rewrite E, Rabs_R0 in H.
  assert (0 <= sumR m (n - m) (fun c => if Nat.eqb c r then 0 else Rabs (M r c))).
  { apply sumr_nonneg. intros c _. destruct (Nat.eqb c r); [lra|apply Rabs_pos]. }
  lra.
Qed.

(* [G] one step of Gaussian elimination keeps the trailing block strictly diagonally dominant *)
Theorem sdd_elimination_step n m M : (m < n)%nat -> sdd_from n m M ->
  M m m <> 0 /\ sdd_from n (S m) (fun r c => M r c - M r m / M m m * M m c).
Proof.
  intros Hm H. assert (Hd : M m m <> 0) by (apply (sdd_from_diag n m M H); lia).
  split; [exact Hd|]. intros r Hr.
  set (t := M r m / M m m).
  (* row r of the block *)
  pose proof (H r ltac:(lia)) as Rr. replace (n - m)%nat with (S (n - S m)) in Rr by lia.
  rewrite sumr_cons in Rr. destruct (Nat.eqb_spec m r) as [E|_]; [lia|].
  set (X := sumR (S m) (n - S m) (fun c => if Nat.eqb c r then 0 else Rabs (M r c))) in *.
  (* row m of the block *)
  pose proof (H m ltac:(lia)) as Rm. replace (n - m)%nat with (S (n - S m)) in Rm by lia.
  rewrite sumr_cons, Nat.eqb_refl in Rm.
  rewrite (sumr_ext (S m) (n - S m) _ (fun c => Rabs (M m c))) in Rm.
  2:{ intros c Hc. destruct (Nat.eqb_spec c m); [lia|reflexivity]. }
  rewrite (sumr_pick (S m) (n - S m) r) in Rm by lia.
  set (Y := sumR (S m) (n - S m) (fun c => if Nat.eqb c r then 0 else Rabs (M m c))) in *.
  (* the new row *)
  assert (B : sumR (S m) (n - S m) (fun c => if Nat.eqb c r then 0 else Rabs (M r c - t * M m c)) <= X + Rabs t * Y).
  { unfold X, Y. rewrite <- sumr_scale, <- sumr_plus. apply sumr_le. intros c _.
    destruct (Nat.eqb c r); [lra|apply Rabs_sub_mul]. }
  assert (D := Rabs_sub_mul_inv (M r r) t (M m r)).
  assert (T : Rabs t * Rabs (M m m) = Rabs (M r m)).
  { rewrite <- Rabs_mult. f_equal. unfold t. field. exact Hd. }
  assert (Y0 : Rabs t * Y <= Rabs t * (Rabs (M m m) - Rabs (M m r))).
  { apply Rmult_le_compat_l; [apply Rabs_pos|lra]. }
  rewrite Rmult_minus_distr_l, T in Y0.
  eapply Rle_lt_trans; [exact B|]. eapply Rlt_le_trans; [|exact D]. lra.
Qed.

(* ------------------------------------------------------------------ Doolittle's equations: Schur complements *)
Section Schur.
Variables (Lf Uf Af : nat -> nat -> R) (n : nat).
Hypothesis HU : forall i k, (i < n)%nat -> (k < n)%nat -> (i <= k)%nat ->
  Uf i k = Af i k - sumR 0 i (fun j => Lf i j * Uf j k).
Hypothesis HL : forall i k, (i < n)%nat -> (k < n)%nat -> (i < k)%nat -> Uf i i <> 0 ->
  Lf k i = (Af k i - sumR 0 i (fun j => Lf k j * Uf j i)) / Uf i i.

Definition schur (m r c : nat) : R := Af r c - sumR 0 m (fun j => Lf r j * Uf j c).

Lemma schur_0 r c : schur 0 r c = Af r c.
Proof. unfold schur. rewrite sumr_0. lra. Qed.
(* row m of U is row m of the m-th Schur complement; in particular the pivot is its (m,m) entry *)
Lemma U_is_schur m c : (m < n)%nat -> (c < n)%nat -> (m <= c)%nat -> Uf m c = schur m m c.
Proof. intros. unfold schur. apply HU; assumption. Qed.
Lemma L_is_schur m r : (m < n)%nat -> (r < n)%nat -> (m < r)%nat -> Uf m m <> 0 -> Lf r m = schur m r m / schur m m m.
Proof. intros Hm Hr Hmr Hp. unfold schur at 2. rewrite <- (HU m m) by lia. unfold schur. apply HL; assumption. Qed.
(* [G] the Gaussian-elimination recurrence *)
Lemma schur_step m r c : (m < n)%nat -> (r < n)%nat -> (c < n)%nat -> (m < r)%nat -> (m <= c)%nat -> Uf m m <> 0 ->
  schur (S m) r c = schur m r c - schur m r m / schur m m m * schur m m c.
Proof.
  intros Hm Hr Hc Hmr Hmc Hp. rewrite <- L_is_schur, <- U_is_schur by assumption.
  unfold schur. rewrite sumr_S. cbn [Nat.add]. lra.
Qed.

(* [G] generic principle: an invariant of the trailing blocks that forces a non-zero corner entry and survives one
   elimination step gives non-zero pivots *)
Theorem pivots_nonzero_by_invariant (P : nat -> (nat -> nat -> R) -> Prop) :
  (forall m M M', (forall r c, (m <= r < n)%nat -> (m <= c < n)%nat -> M r c = M' r c) -> P m M -> P m M') ->
  (forall m M, (m < n)%nat -> P m M -> M m m <> 0 /\ P (S m) (fun r c => M r c - M r m / M m m * M m c)) ->
  P 0%nat Af -> forall i, (i < n)%nat -> Uf i i <> 0.
Proof.
  intros Pext Pstep P0.
  assert (Inv : forall m, (m <= n)%nat -> P m (schur m)).
  { induction m as [|m IH]; intros Hm.
    - apply (Pext 0%nat Af); [|exact P0]. intros r c _ _. symmetry. apply schur_0.
    - destruct (Pstep m (schur m) ltac:(lia) (IH ltac:(lia))) as [Hd Hs].
      apply (Pext (S m) _ _ ) with (2 := Hs). intros r c Hr Hc. symmetry. apply schur_step; try lia.
      rewrite U_is_schur by lia. exact Hd. }
  intros i Hi. rewrite U_is_schur by lia. apply (Pstep i (schur i) Hi). apply Inv. lia.
Qed.

Theorem sdd_pivots_abstract : sdd_from n 0 Af -> forall i, (i < n)%nat -> Uf i i <> 0.
Proof.
  apply (pivots_nonzero_by_invariant (sdd_from n)).
  - intros m M M'. apply sdd_from_ext.
  - intros m M. apply sdd_elimination_step.
Qed.
End Schur.

(* ------------------------------------------------------------------ the model's doolittle *)
(* the property's notion: |a_ii| > sum_{j <> i} |a_ij| for every row *)
Definition sdd (A : list (list R)) : Prop := forall i, (i < length A)%nat ->
  sumR 0 (length A) (fun j => if Nat.eqb j i then 0 else Rabs (g2 A i j)) < Rabs (g2 A i i).

Lemma sdd_sdd_from A : sdd A -> sdd_from (length A) 0 (g2 A).
Proof. intros H r Hr. rewrite Nat.sub_0_r. apply H. lia. Qed.

(* the model's L (stored by columns) and U satisfy Doolittle's equations, whatever the pivots are *)
Lemma doolittle_U_eq A i k : (i < length A)%nat -> (k < length A)%nat -> (i <= k)%nat ->
  g2 (snd (doolittle_cols Rops A)) i k =
  g2 A i k - sumR 0 i (fun j => g2 (fst (doolittle_cols Rops A)) j i * g2 (snd (doolittle_cols Rops A)) j k).
Proof. intros Hi Hk Hik. rewrite U_entry by assumption. destruct (Nat.ltb_spec k i); [lia|reflexivity]. Qed.
Lemma doolittle_L_eq A i k : (i < length A)%nat -> (k < length A)%nat -> (i < k)%nat ->
  g2 (snd (doolittle_cols Rops A)) i i <> 0 ->
  g2 (fst (doolittle_cols Rops A)) i k =
  (g2 A k i - sumR 0 i (fun j => g2 (fst (doolittle_cols Rops A)) j k * g2 (snd (doolittle_cols Rops A)) j i))
  / g2 (snd (doolittle_cols Rops A)) i i.
Proof.
  intros Hi Hk Hik Hp. rewrite L_entry by assumption. destruct (Nat.ltb_spec k i); [lia|].
  destruct (Nat.eqb_spec k i); [lia|]. rewrite (isz_false _ Hp). reflexivity.
Qed.

(* [G] every size, every strictly diagonally dominant matrix: no Doolittle pivot vanishes
   (the rows need not even have length n: entries outside a row read as 0, as in the model's get2) *)
Theorem sdd_pivots_nonzero A : sdd A -> forall i, (i < length A)%nat -> g2 (snd (doolittle Rops A)) i i <> 0.
Proof.
  intros H. change (snd (doolittle Rops A)) with (snd (doolittle_cols Rops A)).
  apply (sdd_pivots_abstract (fun r j => g2 (fst (doolittle_cols Rops A)) j r) (g2 (snd (doolittle_cols Rops A))) (g2 A) (length A)).
  - intros i k. apply doolittle_U_eq.
  - intros i k. apply doolittle_L_eq.
  - apply sdd_sdd_from, H.
Qed.
Print Assumptions sdd_pivots_nonzero.

(* [G] more generally: pivot m of the model is the corner of the m-th Schur complement, and the Schur complements
   obey the elimination recurrence as long as the earlier pivots are non-zero *)
Definition schurA (A : list (list R)) : nat -> nat -> nat -> R :=
  schur (fun r j => g2 (fst (doolittle_cols Rops A)) j r) (g2 (snd (doolittle_cols Rops A))) (g2 A).
Theorem doolittle_pivot_is_schur A m c : (m < length A)%nat -> (c < length A)%nat -> (m <= c)%nat ->
  g2 (snd (doolittle Rops A)) m c = schurA A m m c.
Proof.
  intros Hm Hc Hmc. change (snd (doolittle Rops A)) with (snd (doolittle_cols Rops A)).
  apply (U_is_schur _ _ _ (length A)); try assumption. intros i k. apply doolittle_U_eq.
Qed.
Theorem doolittle_schur_recurrence A : (forall r c, schurA A 0 r c = g2 A r c) /\
  forall m r c, (m < r < length A)%nat -> (m <= c < length A)%nat -> g2 (snd (doolittle Rops A)) m m <> 0 ->
    schurA A (S m) r c = schurA A m r c - schurA A m r m / schurA A m m m * schurA A m m c.
Proof.
  split; [intros r c; apply schur_0|].
  intros m r c Hr Hc Hp. apply (schur_step _ _ _ (length A)); try lia; try exact Hp.
  - intros i k. apply doolittle_U_eq.
  - intros i k. apply doolittle_L_eq.
Qed.

(* [G] the invariant principle on the model: any family P m of properties of the trailing block (rows/columns m..n-1) that
   holds for A, forces a non-zero corner and survives one elimination step gives non-zero Doolittle pivots
   (strict diagonal dominance is one instance; total positivity of collocation matrices would be another) *)
Theorem doolittle_pivots_by_invariant A (P : nat -> (nat -> nat -> R) -> Prop) :
  (forall m M M', (forall r c, (m <= r < length A)%nat -> (m <= c < length A)%nat -> M r c = M' r c) -> P m M -> P m M') ->
  (forall m M, (m < length A)%nat -> P m M -> M m m <> 0 /\ P (S m) (fun r c => M r c - M r m / M m m * M m c)) ->
  P 0%nat (g2 A) -> forall i, (i < length A)%nat -> g2 (snd (doolittle Rops A)) i i <> 0.
Proof.
  change (snd (doolittle Rops A)) with (snd (doolittle_cols Rops A)).
  apply (pivots_nonzero_by_invariant (fun r j => g2 (fst (doolittle_cols Rops A)) j r) (g2 (snd (doolittle_cols Rops A))) (g2 A) (length A)).
  - intros i k. apply doolittle_U_eq.
  - intros i k. apply doolittle_L_eq.
Qed.

(* ------------------------------------------------------------------ lu_solve on strictly diagonally dominant matrices *)
(* [G] for every size n >= 1, every strictly diagonally dominant square A and every right-hand side b with n rows of
   equal length dim, lu_solve returns Ok X, X is n x dim, and A X = b entry by entry *)
Theorem lu_solve_sdd_correct A b dim : let n := length A in (0 < n)%nat -> is_square A = true -> sdd A -> rect n dim b ->
  exists X, lu_solve Rops A b = Ok X /\ rect n dim X /\
    forall i c, (i < n)%nat -> (c < dim)%nat -> sumR 0 n (fun k => g2 A i k * g2 X k c) = g2 b i c.
Proof.
  intros n Hn Hsq Hs Hb. apply lu_solve_correct; try assumption. apply sdd_pivots_nonzero, Hs.
Qed.
Print Assumptions lu_solve_sdd_correct.

(* the same with the product written with the model's mmul *)
Corollary lu_solve_sdd_mmul A b dim : (0 < length A)%nat -> (0 < dim)%nat -> is_square A = true -> sdd A ->
  rect (length A) dim b -> exists X, lu_solve Rops A b = Ok X /\ mmul Rops A X = b.
Proof.
  intros Hn Hdim Hsq Hs Hb. destruct (lu_solve_sdd_correct A b dim Hn Hsq Hs Hb) as (X & E & RX & HX).
  exists X. split; [exact E|].
  assert (Hhd : length (hd [] X) = dim) by (apply (rect_hd (length A) dim); assumption).
  apply (mat_ext (length A) dim).
  - pose proof (mmul_rect A X) as Hr. rewrite Hhd in Hr. exact Hr.
  - exact Hb.
  - intros i c Hi Hc. rewrite mmul_entry by (rewrite ?Hhd; assumption).
    destruct RX as [RX1 _]. rewrite RX1. apply HX; assumption.
Qed.
Print Assumptions lu_solve_sdd_mmul.

(* ------------------------------------------------------------------ trivial kernel, uniqueness *)
(* the largest |x_i| *)
Lemma max_abs_index (x : nat -> R) n : (0 < n)%nat -> exists i, (i < n)%nat /\ forall j, (j < n)%nat -> Rabs (x j) <= Rabs (x i).
Proof.
  induction n as [|n IH]; intros Hn; [lia|]. destruct n as [|n].
  - exists 0%nat. split; [lia|]. intros j Hj. replace j with 0%nat by lia. lra.
  - destruct (IH ltac:(lia)) as (i & Hi & Hmax).
    destruct (Rle_dec (Rabs (x (S n))) (Rabs (x i))) as [Hle|Hgt].
    + exists i. split; [lia|]. intros j Hj. destruct (Nat.eq_dec j (S n)) as [->|]; [exact Hle|apply Hmax; lia].
    + exists (S n). split; [lia|]. intros j Hj. destruct (Nat.eq_dec j (S n)) as [->|]; [lra|].
      specialize (Hmax j ltac:(lia)). lra.
Qed.
Lemma Rabs_sumr_le a n f : Rabs (sumR a n f) <= sumR a n (fun i => Rabs (f i)).
Proof.
  revert a. induction n as [|n IH]; intros a; [rewrite !sumr_0, Rabs_R0; lra|].
  rewrite !sumr_cons. eapply Rle_trans; [apply Rabs_triang|]. specialize (IH (S a)). lra.
Qed.
(* [G] a strictly diagonally dominant matrix has a trivial kernel (over index functions) *)
Theorem sdd_trivial_kernel n (M : nat -> nat -> R) (x : nat -> R) : sdd_from n 0 M ->
  (forall i, (i < n)%nat -> sumR 0 n (fun j => M i j * x j) = 0) -> forall i, (i < n)%nat -> x i = 0.
Proof.
  intros Hs Hk i0 Hi0.
  destruct (max_abs_index x n ltac:(lia)) as (i & Hi & Hmax).
  assert (Z : Rabs (x i) = 0).
  { destruct (Req_dec (Rabs (x i)) 0) as [E|Hne]; [exact E|exfalso].
    assert (Hpos : 0 < Rabs (x i)) by (pose proof (Rabs_pos (x i)); lra).
    pose proof (Hs i ltac:(lia)) as Hrow. rewrite Nat.sub_0_r in Hrow.
    pose proof (Hk i Hi) as E. rewrite (sumr_pick 0 n i) in E by lia.
    set (rest := sumR 0 n (fun c => if Nat.eqb c i then 0 else M i c * x c)) in *.
    assert (B : Rabs rest <= sumR 0 n (fun c => if Nat.eqb c i then 0 else Rabs (M i c)) * Rabs (x i)).
    { unfold rest. eapply Rle_trans; [apply Rabs_sumr_le|]. rewrite <- sumr_scale_r. apply sumr_le. intros c Hc.
      destruct (Nat.eqb c i); [rewrite Rabs_R0; lra|]. rewrite Rabs_mult.
      apply Rmult_le_compat_l; [apply Rabs_pos|apply Hmax; lia]. }
    assert (E2 : Rabs (M i i) * Rabs (x i) = Rabs rest).
    { rewrite <- Rabs_mult. replace (M i i * x i) with (- rest) by lra. apply Rabs_Ropp. }
    assert (Rabs (M i i) * Rabs (x i) > sumR 0 n (fun c => if Nat.eqb c i then 0 else Rabs (M i c)) * Rabs (x i)).
    { apply Rmult_gt_compat_r; lra. }
    lra. }
  specialize (Hmax i0 Hi0). rewrite Z in Hmax. pose proof (Rabs_pos (x i0)).
  destruct (Req_dec (x i0) 0) as [E|Hne]; [exact E|]. apply Rabs_pos_lt in Hne. lra.
Qed.
Print Assumptions sdd_trivial_kernel.

(* [G] on the model's representation: A x = 0 only for x = 0, hence the X returned by lu_solve is the only solution *)
Theorem sdd_kernel_trivial_list A (x : list R) : sdd A -> length x = length A ->
  (forall i, (i < length A)%nat -> nth i (mvmul Rops A x) 0 = 0) -> forall i, nth i x 0 = 0.
Proof.
  intros Hs Lx Hk i. destruct (le_lt_dec (length A) i) as [Hge|Hlt]; [apply nth_overflow; lia|].
  apply (sdd_trivial_kernel (length A) (g2 A) (fun j => nth j x 0) (sdd_sdd_from A Hs)); [|exact Hlt].
  intros r Hr. transitivity (nth r (mvmul Rops A x) 0); [|apply Hk, Hr].
  rewrite mvmul_entry by exact Hr. rewrite Lx. reflexivity.
Qed.
Theorem lu_solve_sdd_unique A b dim X Y : sdd A -> rect (length A) dim X -> rect (length A) dim Y ->
  (forall i c, (i < length A)%nat -> (c < dim)%nat -> sumR 0 (length A) (fun k => g2 A i k * g2 X k c) = g2 b i c) ->
  (forall i c, (i < length A)%nat -> (c < dim)%nat -> sumR 0 (length A) (fun k => g2 A i k * g2 Y k c) = g2 b i c) ->
  X = Y.
Proof.
  intros Hs RX RY HX HY. apply (mat_ext (length A) dim); try assumption. intros i c Hi Hc.
  assert (Z : g2 X i c - g2 Y i c = 0); [|lra].
  apply (sdd_trivial_kernel (length A) (g2 A) (fun k => g2 X k c - g2 Y k c) (sdd_sdd_from A Hs)); [|exact Hi].
  intros r Hr.
  rewrite (sumr_ext 0 (length A) _ (fun j => g2 A r j * g2 X j c - g2 A r j * g2 Y j c)) by (intros; ring).
  rewrite sumr_minus, HX, HY by assumption. lra.
Qed.
Print Assumptions lu_solve_sdd_unique.
