(* C02 / C17 [G], specification level: the derivative control points of Algorithm A3.3 (helpers.curve_deriv_cpts),
     PK 0 i = P_i,    PK (k+1) i = (p - k) (PK k (i+1) - PK k i) / (U_{i+p+1} - U_{i+k+1}),
   represent the k-th derivative of the curve over the basis functions of degree p - k:

     sum_i N^{(k)}_{i,p}(u) P_i  =  sum_i N_{i+k,p-k}(u) PK k i          (The NURBS Book Eq. 3.8)

   for ALL degrees p, ALL k <= p, all knot sequences (x/0 = 0 as in Coq's reals; no hypothesis is needed because the
   zero denominators of PK are exactly those of Eq. 2.9, and the identity is formal).

     deriv_cpts_window      the identity on the p+1 active functions of a span s, for the polynomial pieces dNk / Nk of the
                            span (DerivAnalytic.v) - every real x, every knot sequence; this is the form the evaluators use
     deriv_cpts_full_range  the identity over the full index range 0..n-1 for the algebraic derivatives dN (Eq. 2.9) of the
                            Cox-de Boor functions, sorted knots, u in the half-open span [U_s, U_{s+1}), p <= s < n

   Proof: induction on k; Eq. 2.9 one level down, Abel summation (the two boundary terms vanish because the degree p-1
   functions with index s-p and s+1 vanish on span s), then the induction hypothesis for degree p-1 on the knot sequence
   shifted by one with the control points Q_i = p (P_{i+1} - P_i) / (U_{i+p+1} - U_{i+1}) (the hodograph of Hodograph.v). *)
From Coq Require Import Reals Lra Lia Arith Bool.
From NV Require Import Proofs.Boehm Proofs.DerivAnalytic Proofs.DersEq210.
Open Scope R_scope.

(* ---- the derivative control points (A3.3), scalar valued, indexed from the start of the control polygon ---- *)
Fixpoint PK (V : nat -> R) (p : nat) (P : nat -> R) (k i : nat) : R :=
  match k with
  | O => P i
  | S k' => INR (p - k') * (PK V p P k' (S i) - PK V p P k' i) / (V (i + p + 1)%nat - V (i + k' + 1)%nat)
  end.

Lemma PK_0 V p P i : PK V p P 0 i = P i.
Proof. reflexivity. Qed.
Lemma PK_S V p P k i :
  PK V p P (S k) i = INR (p - k) * (PK V p P k (S i) - PK V p P k i) / (V (i + p + 1)%nat - V (i + k + 1)%nat).
Proof. reflexivity. Qed.

(* PK only looks at the control points i .. i+k *)
Lemma PK_ext V p (P P' : nat -> R) k : forall i,
  (forall m, (i <= m <= i + k)%nat -> P m = P' m) -> PK V p P k i = PK V p P' k i.
Proof.
  induction k as [|k IH]; intros i H.
  - cbn [PK]. apply H. lia.
  - rewrite !PK_S. rewrite (IH i), (IH (S i)); [reflexivity| |]; intros m Hm; apply H; lia.
Qed.

(* and only at the knots i+1 .. i+p+k *)
Lemma PK_ext_knots (V V' : nat -> R) p P k : forall i,
  (forall m, (i + 1 <= m <= i + p + k)%nat -> V m = V' m) -> (k <= p)%nat -> PK V p P k i = PK V' p P k i.
Proof.
  induction k as [|k IH]; intros i H Hk.
  - reflexivity.
  - rewrite !PK_S. rewrite (IH i), (IH (S i)); try lia.
    + rewrite (H (i + p + 1)%nat), (H (i + k + 1)%nat) by lia. reflexivity.
    + intros m Hm. apply H. lia.
    + intros m Hm. apply H. lia.
Qed.

(* ---- shifting the knot sequence ---- *)
Definition shiftV (a : nat) (V : nat -> R) : nat -> R := fun m => V (a + m)%nat.

Lemma Nk_shift a V s x : (a <= s)%nat -> forall q i, Nk (shiftV a V) (s - a) q i x = Nk V s q (a + i) x.
Proof.
  intros Ha. induction q as [|q IH]; intros i.
  - cbn [Nk]. destruct (Nat.eqb_spec i (s - a)); destruct (Nat.eqb_spec (a + i) s); try reflexivity; lia.
  - cbn [Nk]. rewrite !IH. unfold shiftV.
    replace (a + (i + S q))%nat with (a + i + S q)%nat by lia.
    replace (a + (i + S q + 1))%nat with (a + i + S q + 1)%nat by lia.
    replace (a + S i)%nat with (S (a + i)) by lia. reflexivity.
Qed.

Lemma dNk_shift a V s x : (a <= s)%nat -> forall j q i, dNk (shiftV a V) (s - a) j q i x = dNk V s j q (a + i) x.
Proof.
  intros Ha. induction j as [|j IH]; intros q i.
  - cbn [dNk]. apply Nk_shift. exact Ha.
  - destruct q as [|q]; [reflexivity|]. rewrite !dNk_SS, !IH. unfold shiftV.
    replace (a + (i + S q))%nat with (a + i + S q)%nat by lia.
    replace (a + (i + S q + 1))%nat with (a + i + S q + 1)%nat by lia.
    replace (a + S i)%nat with (S (a + i)) by lia. reflexivity.
Qed.

Lemma PK_shift a V p P k : forall i, PK (shiftV a V) p (fun m => P (a + m)%nat) k i = PK V p P k (a + i).
Proof.
  induction k as [|k IH]; intros i.
  - reflexivity.
  - rewrite !PK_S, !IH. unfold shiftV.
    replace (a + S i)%nat with (S (a + i)) by lia.
    replace (a + (i + p + 1))%nat with (a + i + p + 1)%nat by lia.
    replace (a + (i + k + 1))%nat with (a + i + k + 1)%nat by lia. reflexivity.
Qed.

(* ---- one derivative: the hodograph control points Q, and PK (k+1) of degree p = PK k of degree p-1 on Q ---- *)
Definition Qd (V : nat -> R) (q : nat) (P : nat -> R) (i : nat) : R :=
  INR (S q) * (P (S i) - P i) / (V (i + S q + 1)%nat - V (i + 1)%nat).

Lemma PK_step V q P k : forall i, PK V (S q) P (S k) i = PK (shiftV 1 V) q (Qd V q P) k i.
Proof.
  induction k as [|k IH]; intros i.
  - rewrite PK_S. cbn [PK]. unfold Qd. replace (S q - 0)%nat with (S q) by lia.
    replace (i + 0 + 1)%nat with (i + 1)%nat by lia. reflexivity.
  - rewrite (PK_S V (S q) P (S k) i), !IH, (PK_S (shiftV 1 V) q). unfold shiftV.
    replace (S q - S k)%nat with (q - k)%nat by lia.
    replace (1 + (i + q + 1))%nat with (i + S q + 1)%nat by lia.
    replace (1 + (i + k + 1))%nat with (i + S k + 1)%nat by lia. reflexivity.
Qed.

(* ---- Abel summation ---- *)
Lemma abel_sum (g P : nat -> R) n :
  sumf (fun j => (g j - g (S j)) * P j) (S n)
  = g 0%nat * P 0%nat - g (S n) * P n + sumf (fun j => g (S j) * (P (S j) - P j)) n.
Proof.
  induction n as [|n IH].
  - cbn [sumf]. ring.
  - change (sumf (fun j => (g j - g (S j)) * P j) (S (S n)))
      with (sumf (fun j => (g j - g (S j)) * P j) (S n) + (g (S n) - g (S (S n))) * P (S n)).
    rewrite IH. cbn [sumf]. ring.
Qed.

(* ---- the main identity on the active window of span s, polynomial pieces, every x ---- *)
Theorem deriv_cpts_window k : forall (V : nat -> R) (p s : nat) (P : nat -> R) (x : R),
  (k <= p)%nat -> (p <= s)%nat ->
  sumf (fun j => dNk V s k p (s - p + j) x * P (s - p + j)%nat) (S p)
  = sumf (fun j => Nk V s (p - k) (s - p + k + j) x * PK V p P k (s - p + j)) (S (p - k)).
Proof.
  induction k as [|k IH]; intros V p s P x Hk Hp.
  - replace (p - 0)%nat with p by lia. apply sumf_ext. intros j _. cbn [dNk PK].
    replace (s - p + 0 + j)%nat with (s - p + j)%nat by lia. reflexivity.
  - destruct p as [|q]; [lia|]. set (i0 := (s - S q)%nat).
    set (g := fun j => dNk V s k q (i0 + j) x / (V (i0 + j + S q)%nat - V (i0 + j)%nat)).
    (* Eq. 2.9 one level down and Abel summation *)
    assert (E1 : sumf (fun j => dNk V s (S k) (S q) (i0 + j) x * P (i0 + j)%nat) (S (S q))
                 = sumf (fun j => dNk V s k q (S (i0 + j)) x * Qd V q P (i0 + j)) (S q)).
    { rewrite (sumf_ext _ (fun j => INR (S q) * ((g j - g (S j)) * P (i0 + j)%nat))).
      2:{ intros j _. rewrite dNk_SS. unfold g.
          replace (i0 + S j)%nat with (S (i0 + j)) by lia.
          replace (S (i0 + j) + S q)%nat with (i0 + j + S q + 1)%nat by lia. ring. }
      rewrite sumf_scal. rewrite (abel_sum g (fun j => P (i0 + j)%nat) (S q)).
      assert (G0 : g 0%nat = 0).
      { unfold g. rewrite (dNk_support V s k q (i0 + 0) x) by (unfold i0; lia). unfold Rdiv. ring. }
      assert (G1 : g (S (S q)) = 0).
      { unfold g. rewrite (dNk_support V s k q (i0 + S (S q)) x) by (unfold i0; lia). unfold Rdiv. ring. }
      rewrite G0, G1.
      replace (INR (S q) * (0 * P (i0 + 0)%nat - 0 * P (i0 + S q)%nat
                 + sumf (fun j => g (S j) * (P (i0 + S j)%nat - P (i0 + j)%nat)) (S q)))
        with (INR (S q) * sumf (fun j => g (S j) * (P (i0 + S j)%nat - P (i0 + j)%nat)) (S q)) by ring.
      rewrite <- sumf_scal. apply sumf_ext. intros j _. unfold g, Qd.
      replace (i0 + S j)%nat with (S (i0 + j)) by lia.
      replace (S (i0 + j) + S q)%nat with (i0 + j + S q + 1)%nat by lia.
      replace (S (i0 + j)) with (i0 + j + 1)%nat at 2 by lia.
      unfold Rdiv. ring. }
    fold i0. rewrite E1.
    (* degree q on the shifted knots *)
    rewrite (sumf_ext _ (fun j => dNk (shiftV 1 V) (s - 1) k q (s - 1 - q + j) x * Qd V q P (s - 1 - q + j))).
    2:{ intros j _. rewrite dNk_shift by lia. replace (s - 1 - q)%nat with i0 by (unfold i0; lia).
        reflexivity. }
    rewrite (IH (shiftV 1 V) q (s - 1)%nat (Qd V q P) x) by lia.
    replace (S q - S k)%nat with (q - k)%nat by lia.
    apply sumf_ext. intros j _. rewrite Nk_shift by lia. rewrite <- PK_step.
    replace (1 + (s - 1 - q + k + j))%nat with (s - S q + S k + j)%nat by lia.
    replace (s - 1 - q + j)%nat with (i0 + j)%nat by (unfold i0; lia). reflexivity.
Qed.

(* ---- the identity over the full index range, for the algebraic derivatives of the Cox-de Boor functions ---- *)
Lemma sumf_split_at (f : nat -> R) a n : sumf f (a + n) = sumf f a + sumf (fun j => f (a + j)%nat) n.
Proof.
  induction n as [|n IH]; cbn [sumf].
  - rewrite Nat.add_0_r. ring.
  - replace (a + S n)%nat with (S (a + n)) by lia. cbn [sumf]. rewrite IH. ring.
Qed.

Lemma sumf_win (f : nat -> R) a len n : (a + len <= n)%nat ->
  (forall i, (i < a)%nat -> f i = 0) -> (forall i, (a + len <= i < n)%nat -> f i = 0) ->
  sumf f n = sumf (fun j => f (a + j)%nat) len.
Proof.
  intros Hn Hlo Hhi.
  replace n with (a + len + (n - a - len))%nat by lia.
  rewrite sumf_split_at, sumf_split_at.
  rewrite (sumf_zero f a) by exact Hlo.
  rewrite (sumf_zero (fun j => f (a + len + j)%nat)) by (intros; apply Hhi; lia).
  ring.
Qed.

Section FullRange.
Variable U : nat -> R.
Hypothesis Usorted : forall i, U i <= U (S i).

(* [G] all degrees p, all orders k <= p, all sorted knot sequences (any multiplicities), any number n of control points,
   u in a half-open span [U_s, U_{s+1}) of the domain (p <= s < n): *)
Theorem deriv_cpts_full_range (p k s n : nat) (P : nat -> R) (u : R) :
  (k <= p)%nat -> (p <= s < n)%nat -> U s <= u < U (S s) ->
  sumf (fun i => dN U k p i u * P i) n = sumf (fun i => N U (p - k) (i + k) u * PK U p P k i) (n - k).
Proof.
  intros Hk Hs Hu.
  rewrite (sumf_win (fun i => dN U k p i u * P i) (s - p) (S p) n); try lia.
  2:{ intros i Hi. rewrite (dN_off_span U Usorted s k p i u Hu) by lia. ring. }
  2:{ intros i Hi. rewrite (dN_off_span U Usorted s k p i u Hu) by lia. ring. }
  rewrite (sumf_win (fun i => N U (p - k) (i + k) u * PK U p P k i) (s - p) (S (p - k)) (n - k)); try lia.
  2:{ intros i Hi. rewrite (N_off_span U Usorted s (p - k) (i + k) u Hu) by lia. ring. }
  2:{ intros i Hi. rewrite (N_off_span U Usorted s (p - k) (i + k) u Hu) by lia. ring. }
  rewrite (sumf_ext _ (fun j => dNk U s k p (s - p + j) u * P (s - p + j)%nat)).
  2:{ intros j _. rewrite (dN_eq_dNk U Usorted s) by exact Hu. reflexivity. }
  rewrite deriv_cpts_window by lia. apply sumf_ext. intros j _.
  rewrite (Nk_eq_N U Usorted s) by exact Hu. replace (s - p + j + k)%nat with (s - p + k + j)%nat by lia. reflexivity.
Qed.

(* k = 1 is the hodograph identity of Hodograph.v *)
Corollary deriv_cpts_full_range_1 (q s n : nat) (P : nat -> R) (u : R) :
  (S q <= s < n)%nat -> U s <= u < U (S s) ->
  sumf (fun i => dN U 1 (S q) i u * P i) n
  = sumf (fun i => N U q (i + 1) u * (INR (S q) * (P (S i) - P i) / (U (i + S q + 1)%nat - U (i + 1)%nat))) (n - 1).
Proof.
  intros Hs Hu. rewrite (deriv_cpts_full_range (S q) 1 s n P u) by (try assumption; lia).
  replace (S q - 1)%nat with q by lia. apply sumf_ext. intros i _. rewrite PK_S. cbn [PK].
  replace (S q - 0)%nat with (S q) by lia. replace (i + 0 + 1)%nat with (i + 1)%nat by lia. reflexivity.
Qed.
End FullRange.

(* ---- PK is linear in the control points (used for the tensor-product factorisation of A3.7 / A3.8) ---- *)
Lemma sumf_lin3 (a X Y : nat -> R) c dn n :
  sumf (fun j => a j * (c * (X j - Y j) / dn)) n
  = c * (sumf (fun j => a j * X j) n - sumf (fun j => a j * Y j) n) / dn.
Proof. induction n as [|n IH]; cbn [sumf]; [unfold Rdiv; ring|]. rewrite IH. unfold Rdiv. ring. Qed.

Lemma PK_linear V p (a : nat -> R) (F : nat -> nat -> R) n k : forall i,
  PK V p (fun c => sumf (fun j => a j * F j c) n) k i = sumf (fun j => a j * PK V p (F j) k i) n.
Proof.
  induction k as [|k IH]; intros i; [reflexivity|].
  rewrite PK_S, !IH. symmetry.
  rewrite (sumf_ext _ (fun j => a j * (INR (p - k) * (PK V p (F j) k (S i) - PK V p (F j) k i)
                                        / (V (i + p + 1)%nat - V (i + k + 1)%nat)))).
  2:{ intros j _. rewrite PK_S. reflexivity. }
  apply sumf_lin3.
Qed.

Check deriv_cpts_window.
Check deriv_cpts_full_range.
Print Assumptions deriv_cpts_window.
Print Assumptions deriv_cpts_full_range.
