(* C06, general counts, surfaces: operations.remove_knot in the v (u) direction applies helpers.knot_removal to every
   row (column) of the net; operations.insert_knot applied helpers.knot_insertion to every row (column).  By
   Proofs/KnotRemGeneral.v, j removals after r insertions therefore give, row by row (column by column), exactly the
   net that operations.insert_knot builds for the count r - j; for j = r the original net. *)
From Coq Require Import List Reals Lra Lia Arith Bool.
From NV Require Import Scalar.Ops Model.Common Model.Basis Model.KnotIns Model.InsertKnot Model.KnotRem
  Proofs.BasisR Proofs.KnotInsR Proofs.KnotInsN Proofs.InsertKnotR Proofs.InsertNR Proofs.InsertDirR
  Proofs.KnotRemR Proofs.KnotRemGeneral.
Import ListNotations.
Local Open Scope nat_scope.

Lemma flat_map_seq_ext {B} (f h : nat -> list B) n :
  (forall i, i < n -> f i = h i) -> flat_map f (seq 0 n) = flat_map h (seq 0 n).
Proof.
  intros H. rewrite !flat_map_concat_map. f_equal. apply map_ext_in. intros i Hi. apply in_seq in Hi. apply H. lia.
Qed.

Lemma map_seq_ext {B} (f h : nat -> B) a n :
  (forall i, a <= i < a + n -> f i = h i) -> map f (seq a n) = map h (seq a n).
Proof. intros H. apply map_ext_in. intros i Hi. apply in_seq in Hi. apply H. lia. Qed.

(* ------------------------------------------------------------------ v direction *)
Section SurfV.
Variables (tol2 : R) (g : @surf R) (t : R) (s k d r : nat).
Hypothesis Hsr : s + r <= s_pv g.
Hypothesis Hpk : s_pv g <= k.
Hypothesis Hk : k < s_sv g.
Hypothesis HkU : k + s_pv g < length (s_Uv g).
Hypothesis Hsize : length (s_P g) = s_sv g * s_su g.
Hypothesis Hdim : Forall (fun pt => length pt = d) (s_P g).
Hypothesis Htol : (0 <= tol2)%R.
Hypothesis HsepL : forall i, k - s_pv g < i <= k - s -> (knR (s_Uv g) i < t)%R.
Hypothesis HsepR : forall i, k < i <= k + s_pv g -> (t < knR (s_Uv g) i)%R.

(* the surface after operations.insert_knot(surf, [None, t], [0, r]) *)
Definition surf_ins_v : @surf R :=
  mkS (s_pu g) (s_pv g) (s_Uu g) (knot_insertion_kv (s_Uv g) t k r) (s_su g) (s_sv g + r) (surf_net_v Rops g t r s k).

Lemma rowg_dim i : i < s_su g -> Forall (fun pt => length pt = d) (row_v g i).
Proof.
  intros Hi. unfold row_v. rewrite Forall_forall. intros x Hx. apply in_map_iff in Hx.
  destruct Hx as (v_ & <- & Hv). apply in_seq in Hv. rewrite Forall_forall in Hdim. apply Hdim. unfold getp.
  apply nth_In. rewrite Hsize. nia.
Qed.

Lemma rowg_length i : length (row_v g i) = s_sv g.
Proof. unfold row_v. rewrite map_length, seq_length. reflexivity. Qed.

Lemma row_of_ins_v i : i < s_su g ->
  map (fun v_ => getp (s_P surf_ins_v) (v_ + s_sv surf_ins_v * i)) (seq 0 (s_sv surf_ins_v)) =
  knot_insertion Rops (s_pv g) (s_Uv g) (row_v g i) t r s k.
Proof.
  intros Hi. cbn [surf_ins_v s_P s_sv].
  apply nth_ext with (d := []) (d' := []).
  - rewrite map_length, seq_length.
    destruct (knot_insertion_frame Rops (s_pv g) (s_Uv g) (row_v g i) t r s k) as [HL _]; try lia.
    + rewrite rowg_length. exact Hk.
    + rewrite HL, rowg_length. reflexivity.
  - intros n Hn. rewrite map_length, seq_length in Hn. rewrite InsertDirR.nth_map_seq by exact Hn.
    rewrite (surf_net_v_row Rops g t r s k i n); try lia. reflexivity.
Qed.

(* [G] j removals in v after r insertions in v: the net operations.insert_knot builds for the count r - j *)
Theorem surf_remove_j_insert_r_v j : 1 <= j <= r ->
  surf_rem_v Rops tol2 surf_ins_v t j (s + r) (k + r) = surf_net_v Rops g t (r - j) s k.
Proof.
  intros Hj. unfold surf_rem_v, surf_net_v.
  replace (s_su surf_ins_v) with (s_su g) by reflexivity.
  apply flat_map_seq_ext. intros i Hi.
  rewrite row_of_ins_v by exact Hi. cbn [surf_ins_v s_pv s_Uv].
  apply (remove_j_insert_r_seps (pdim (s_P surf_ins_v)) tol2 (s_pv g) (s_Uv g) (row_v g i) t s k d r j); try assumption.
  - rewrite rowg_length. exact Hk.
  - apply rowg_dim. exact Hi.
Qed.

Lemma surf_net_v_zero : surf_net_v Rops g t 0 s k = s_P g.
Proof.
  unfold surf_net_v.
  assert (E : forall i, i < s_su g ->
    knot_insertion Rops (s_pv g) (s_Uv g) (map (fun v_ => getp (s_P g) (v_ + s_sv g * i)) (seq 0 (s_sv g))) t 0 s k = row_v g i).
  { intros i Hi. apply ki_zero; try lia. rewrite rowg_length. exact Hk. }
  apply nth_ext with (d := []) (d' := []).
  - rewrite (flat_map_length_const _ (s_sv g)); [rewrite Hsize; reflexivity|].
    intros i Hi. rewrite E by exact Hi. apply rowg_length.
  - intros n Hn.
    rewrite (flat_map_length_const _ (s_sv g)) in Hn by (intros i Hi; rewrite E by exact Hi; apply rowg_length).
    assert (Hsv : 0 < s_sv g) by lia.
    pose proof (Nat.div_mod n (s_sv g) ltac:(lia)) as Hdm.
    pose proof (Nat.mod_upper_bound n (s_sv g) ltac:(lia)) as Hmod.
    assert (Hq : n / s_sv g < s_su g) by (apply Nat.div_lt_upper_bound; lia).
    rewrite Hdm at 1. rewrite (Nat.add_comm (s_sv g * (n / s_sv g))).
    rewrite (nth_flat_map_const _ (s_sv g)); try assumption.
    2:{ intros i Hi. rewrite E by exact Hi. apply rowg_length. }
    rewrite E by exact Hq. unfold row_v. rewrite InsertDirR.nth_map_seq by exact Hmod.
    unfold getp. f_equal. lia.
Qed.

(* [G] r removals in v after r insertions in v restore the control net *)
Theorem surf_remove_r_insert_r_v : 1 <= r ->
  surf_rem_v Rops tol2 surf_ins_v t r (s + r) (k + r) = s_P g.
Proof. intros Hr. rewrite surf_remove_j_insert_r_v by lia. rewrite Nat.sub_diag. apply surf_net_v_zero. Qed.
End SurfV.

(* ------------------------------------------------------------------ u direction *)
Section SurfU.
Variables (tol2 : R) (g : @surf R) (t : R) (s k d r : nat).
Hypothesis Hsr : s + r <= s_pu g.
Hypothesis Hpk : s_pu g <= k.
Hypothesis Hk : k < s_su g.
Hypothesis HkU : k + s_pu g < length (s_Uu g).
Hypothesis Hsize : length (s_P g) = s_sv g * s_su g.
Hypothesis Hdim : Forall (fun pt => length pt = d) (s_P g).
Hypothesis Htol : (0 <= tol2)%R.
Hypothesis HsepL : forall i, k - s_pu g < i <= k - s -> (knR (s_Uu g) i < t)%R.
Hypothesis HsepR : forall i, k < i <= k + s_pu g -> (t < knR (s_Uu g) i)%R.

(* the surface after operations.insert_knot(surf, [t, None], [r, 0]) *)
Definition surf_ins_u : @surf R :=
  mkS (s_pu g) (s_pv g) (knot_insertion_kv (s_Uu g) t k r) (s_Uv g) (s_su g + r) (s_sv g) (surf_net_u Rops g t r s k).

Lemma colg_dim j : j < s_sv g -> Forall (fun pt => length pt = d) (col_u g j).
Proof.
  intros Hj. unfold col_u. rewrite Forall_forall. intros x Hx. apply in_map_iff in Hx.
  destruct Hx as (u_ & <- & Hu). apply in_seq in Hu. rewrite Forall_forall in Hdim. apply Hdim. unfold getp.
  apply nth_In. rewrite Hsize. nia.
Qed.

Lemma colg_length j : length (col_u g j) = s_su g.
Proof. unfold col_u. rewrite map_length, seq_length. reflexivity. Qed.

Lemma col_of_ins_u j : j < s_sv g ->
  map (fun u_ => getp (s_P surf_ins_u) (j + s_sv surf_ins_u * u_)) (seq 0 (s_su surf_ins_u)) =
  knot_insertion Rops (s_pu g) (s_Uu g) (col_u g j) t r s k.
Proof.
  intros Hj. cbn [surf_ins_u s_P s_sv s_su].
  apply nth_ext with (d := []) (d' := []).
  - rewrite map_length, seq_length.
    destruct (knot_insertion_frame Rops (s_pu g) (s_Uu g) (col_u g j) t r s k) as [HL _]; try lia.
    + rewrite colg_length. exact Hk.
    + rewrite HL, colg_length. reflexivity.
  - intros n Hn. rewrite map_length, seq_length in Hn. rewrite InsertDirR.nth_map_seq by exact Hn.
    rewrite (surf_net_u_col Rops g t r s k n j); try lia. reflexivity.
Qed.

(* [G] j removals in u after r insertions in u: the net operations.insert_knot builds for the count r - j *)
Theorem surf_remove_j_insert_r_u j : 1 <= j <= r ->
  surf_rem_u Rops tol2 surf_ins_u t j (s + r) (k + r) = surf_net_u Rops g t (r - j) s k.
Proof.
  intros Hj. unfold surf_rem_u, surf_net_u.
  replace (s_su surf_ins_u - j) with (s_su g + (r - j)) by (cbn [surf_ins_u s_su]; lia).
  replace (s_sv surf_ins_u) with (s_sv g) by reflexivity.
  f_equal.
  apply flat_map_seq_ext. intros i Hi.
  pose proof (col_of_ins_u i Hi) as E. cbn [surf_ins_u s_sv] in E. rewrite E. cbn [surf_ins_u s_pu s_Uu].
  apply (remove_j_insert_r_seps (pdim (s_P surf_ins_u)) tol2 (s_pu g) (s_Uu g) (col_u g i) t s k d r j); try assumption.
  - rewrite colg_length. exact Hk.
  - apply colg_dim. exact Hi.
Qed.

Lemma surf_net_u_zero : surf_net_u Rops g t 0 s k = s_P g.
Proof.
  unfold surf_net_u. rewrite Nat.add_0_r.
  assert (E : forall j, j < s_sv g ->
    knot_insertion Rops (s_pu g) (s_Uu g) (map (fun u_ => getp (s_P g) (j + s_sv g * u_)) (seq 0 (s_su g))) t 0 s k = col_u g j).
  { intros j Hj. apply ki_zero; try lia. rewrite colg_length. exact Hk. }
  set (tmp := flat_map _ (seq 0 (s_sv g))).
  assert (Htmp : forall i j, i < s_su g -> j < s_sv g -> getp tmp (i + s_su g * j) = getp (s_P g) (j + s_sv g * i)).
  { intros i j Hi Hj. unfold tmp. unfold getp at 1.
    rewrite (nth_flat_map_const _ (s_su g)); try assumption.
    2:{ intros j' Hj'. rewrite E by exact Hj'. apply colg_length. }
    rewrite E by exact Hj. unfold col_u. rewrite InsertDirR.nth_map_seq by exact Hi. reflexivity. }
  unfold flip_ctrlpts_u.
  apply nth_ext with (d := []) (d' := []).
  - rewrite (flat_map_length_const _ (s_sv g)); [rewrite Hsize; reflexivity|].
    intros i Hi. rewrite map_length, seq_length. reflexivity.
  - intros n Hn.
    rewrite (flat_map_length_const _ (s_sv g)) in Hn by (intros i Hi; rewrite map_length, seq_length; reflexivity).
    assert (Hsv : 0 < s_sv g) by lia.
    pose proof (Nat.div_mod n (s_sv g) ltac:(lia)) as Hdm.
    pose proof (Nat.mod_upper_bound n (s_sv g) ltac:(lia)) as Hmod.
    assert (Hq : n / s_sv g < s_su g) by (apply Nat.div_lt_upper_bound; lia).
    rewrite Hdm at 1. rewrite (Nat.add_comm (s_sv g * (n / s_sv g))).
    rewrite (nth_flat_map_const _ (s_sv g)); try assumption.
    2:{ intros i Hi. rewrite map_length, seq_length. reflexivity. }
    rewrite InsertDirR.nth_map_seq by exact Hmod.
    replace (n / s_sv g + n mod s_sv g * s_su g) with (n / s_sv g + s_su g * (n mod s_sv g)) by lia.
    rewrite Htmp by assumption. unfold getp. f_equal. lia.
Qed.

(* [G] r removals in u after r insertions in u restore the control net *)
Theorem surf_remove_r_insert_r_u : 1 <= r ->
  surf_rem_u Rops tol2 surf_ins_u t r (s + r) (k + r) = s_P g.
Proof. intros Hr. rewrite surf_remove_j_insert_r_u by lia. rewrite Nat.sub_diag. apply surf_net_u_zero. Qed.
End SurfU.

(* ------------------------------------------------------------------ the surface is unchanged *)
(* [G] the surface object operations.remove_knot builds (v direction, count j) from the surface operations.insert_knot
   built (count r >= j) has the same points as the original surface: its record is literally the insertion result for
   the count r - j, which preserves every surface point (C04). *)
Theorem surf_remove_preserves_surface_v tol2 (g : @surf R) (t : R) s k dim r j :
  sortedR (s_Uv g) -> length (s_Uv g) = s_sv g + s_pv g + 1 -> 1 <= j <= r -> s + r <= s_pv g -> s_pv g <= k -> k < s_sv g ->
  (knR (s_Uv g) k <= t < knR (s_Uv g) (k + 1))%R -> (knR (s_Uv g) (k - s) < t)%R ->
  (forall i, k - s < i <= k -> knR (s_Uv g) i = t) ->
  length (s_P g) = s_sv g * s_su g -> Forall (fun pt => length pt = dim) (s_P g) -> (0 <= tol2)%R ->
  let g' := surf_ins_v g t s k r in
  let g'' := mkS (s_pu g') (s_pv g') (s_Uu g') (knot_removal_kv (s_Uv g') (k + r) j) (s_su g') (s_sv g' - j)
                 (surf_rem_v Rops tol2 g' t j (s + r) (k + r)) in
  forall c tu tv, c < dim -> surf_pt g'' c tu tv = surf_pt g c tu tv.
Proof.
  intros HS HL Hj H1 H2 H3 Hu Hlt Hm Hsize Hd Ht g' g'' c tu tv Hc.
  destruct (sep_of_sorted (s_Uv g) t (s_pv g) s k HS ltac:(lia) Hlt ltac:(lra)) as [SL SR].
  assert (E : g'' = surf_after_v g t (r - j) s k).
  { unfold g'', g', surf_after_v. cbn [surf_ins_v s_pu s_pv s_Uu s_Uv s_su s_sv].
    rewrite (surf_remove_j_insert_r_v tol2 g t s k dim r) by (auto; lia).
    rewrite rem_kv_ins_kv_partial by lia.
    replace (s_sv g + r - j) with (s_sv g + (r - j)) by lia. reflexivity. }
  rewrite E. apply (surf_insert_v_preserves g t (r - j) s k dim); auto; try lia.
  intros i Hi. rewrite Forall_forall in Hd. apply Hd. apply nth_In. lia.
Qed.

Theorem surf_remove_preserves_surface_u tol2 (g : @surf R) (t : R) s k dim r j :
  sortedR (s_Uu g) -> length (s_Uu g) = s_su g + s_pu g + 1 -> 1 <= j <= r -> s + r <= s_pu g -> s_pu g <= k -> k < s_su g ->
  (knR (s_Uu g) k <= t < knR (s_Uu g) (k + 1))%R -> (knR (s_Uu g) (k - s) < t)%R ->
  (forall i, k - s < i <= k -> knR (s_Uu g) i = t) ->
  length (s_P g) = s_sv g * s_su g -> Forall (fun pt => length pt = dim) (s_P g) -> (0 <= tol2)%R ->
  let g' := surf_ins_u g t s k r in
  let g'' := mkS (s_pu g') (s_pv g') (knot_removal_kv (s_Uu g') (k + r) j) (s_Uv g') (s_su g' - j) (s_sv g')
                 (surf_rem_u Rops tol2 g' t j (s + r) (k + r)) in
  forall c tu tv, c < dim -> surf_pt g'' c tu tv = surf_pt g c tu tv.
Proof.
  intros HS HL Hj H1 H2 H3 Hu Hlt Hm Hsize Hd Ht g' g'' c tu tv Hc.
  destruct (sep_of_sorted (s_Uu g) t (s_pu g) s k HS ltac:(lia) Hlt ltac:(lra)) as [SL SR].
  assert (E : g'' = surf_after_u g t (r - j) s k).
  { unfold g'', g', surf_after_u. cbn [surf_ins_u s_pu s_pv s_Uu s_Uv s_su s_sv].
    rewrite (surf_remove_j_insert_r_u tol2 g t s k dim r) by (auto; lia).
    rewrite rem_kv_ins_kv_partial by lia.
    replace (s_su g + r - j) with (s_su g + (r - j)) by lia. reflexivity. }
  rewrite E. apply (surf_insert_u_preserves g t (r - j) s k dim); auto; try lia.
  intros i Hi. rewrite Forall_forall in Hd. apply Hd. apply nth_In. lia.
Qed.

Print Assumptions surf_remove_j_insert_r_v.
Print Assumptions surf_remove_j_insert_r_u.
Print Assumptions surf_remove_preserves_surface_v.
Print Assumptions surf_remove_preserves_surface_u.
