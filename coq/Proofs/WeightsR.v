(* C09: weights, weighted and unweighted control points.  Part 1 is generic in the scalar type (cache
   discipline of the view machines, no field laws needed); part 2 is over the reals (inverse laws, weight
   scaling invariance, unit weights). *)
From Coq Require Import List Arith Bool Reals Lra Lia.
From NV Require Import Scalar.Ops Model.Common Model.Basis Model.Knots Model.Eval Model.Weights Proofs.BasisR.
Import ListNotations.

(* ------------------------------------------------------------------ generic: view machine invariant *)
Local Open Scope nat_scope.
Section Gen.
Context {T : Type} (K : ops T).
Variables (ml md : nat).

Definition vinv (s : @nview T) : Prop :=
  (vw_cpts s = [] \/ vw_cpts s = fst (separate_cw K (vw_cpw s))) /\
  (vw_cwts s = [] \/ vw_cwts s = snd (separate_cw K (vw_cpw s))).

Lemma vinv_init cpw : vinv (mkNview cpw [] []).
Proof. split; left; reflexivity. Qed.

Lemma is_nil_true {A} (l : list A) : is_nil l = true -> l = [].
Proof. destruct l; simpl; congruence. Qed.

Lemma v_fill_spec s s' : v_fill K s = Ok s' ->
  vw_cpw s' = vw_cpw s /\ vw_cpts s' = fst (separate_cw K (vw_cpw s)) /\ vw_cwts s' = snd (separate_cw K (vw_cpw s)).
Proof.
  unfold v_fill, separate_res. destruct (forallb _ _); simpl; [|discriminate].
  intro H; inversion H; subst; simpl. auto.
Qed.

Lemma v_get_pts_spec s s' l : vinv s -> v_get_pts K s = Ok (s', l) ->
  vinv s' /\ vw_cpw s' = vw_cpw s /\ l = fst (separate_cw K (vw_cpw s)).
Proof.
  intros [Hp Hw]. unfold v_get_pts. destruct (is_nil (vw_cpts s)) eqn:E.
  - destruct (v_fill K s) as [s1| |] eqn:F; simpl; try discriminate.
    intro H; inversion H; subst. destruct (v_fill_spec _ _ F) as (a & b & c).
    repeat split; try (right; rewrite a; assumption); auto.
  - intro H; inversion H; subst. destruct Hp as [Hp|Hp]; [rewrite Hp in E; discriminate|].
    repeat split; auto.
Qed.

Lemma v_get_wts_spec s s' l : vinv s -> v_get_wts K s = Ok (s', l) ->
  vinv s' /\ vw_cpw s' = vw_cpw s /\ l = snd (separate_cw K (vw_cpw s)).
Proof.
  intros [Hp Hw]. unfold v_get_wts. destruct (is_nil (vw_cwts s)) eqn:E.
  - destruct (v_fill K s) as [s1| |] eqn:F; simpl; try discriminate.
    intro H; inversion H; subst. destruct (v_fill_spec _ _ F) as (a & b & c).
    repeat split; try (right; rewrite a; assumption); auto.
  - intro H; inversion H; subst. destruct Hw as [Hw|Hw]; [rewrite Hw in E; discriminate|].
    repeat split; auto.
Qed.

Lemma v_set_raw_inv s v : vinv s -> vinv (fst (v_set_raw ml md s v)).
Proof.
  intro H. unfold v_set_raw. destruct v as [|p0 v']; [destruct (Nat.ltb 0 ml); exact H|].
  destruct (Nat.ltb _ ml); [exact H|]. destruct (Nat.ltb _ md); [exact H|].
  destruct (forallb _ _); simpl; apply vinv_init.
Qed.

Theorem vinv_step s o : vinv s -> vinv (fst (vstep K ml md s o)).
Proof.
  intro H. destruct o; simpl.
  - apply v_set_raw_inv; exact H.
  - destruct (v_get_wts K s) as [[s' w]| |] eqn:E; simpl; auto.
    apply v_set_raw_inv. exact (proj1 (v_get_wts_spec _ _ _ H E)).
  - destruct (v_get_pts K s) as [[s' p]| |] eqn:E; simpl; auto.
    pose proof (proj1 (v_get_pts_spec _ _ _ H E)) as H'.
    destruct (is_nil p); simpl; auto. apply v_set_raw_inv; exact H'.
  - exact H.
  - destruct (v_get_pts K s) as [[s' p]| |] eqn:E; simpl; auto.
    exact (proj1 (v_get_pts_spec _ _ _ H E)).
  - destruct (v_get_wts K s) as [[s' p]| |] eqn:E; simpl; auto.
    exact (proj1 (v_get_wts_spec _ _ _ H E)).
Qed.

Theorem vinv_run ops : forall s, vinv s -> vinv (fst (vrun K ml md s ops)).
Proof.
  induction ops as [|o r IH]; intros s H; simpl; auto.
  pose proof (vinv_step s o H) as H1. destruct (vstep K ml md s o) as [s1 x]; simpl in H1.
  specialize (IH s1 H1). destruct (vrun K ml md s1 r) as [s2 xs]; simpl in *. exact IH.
Qed.

(* what the three getters return in a state satisfying the invariant, and that they do not touch the definition *)
Theorem vread_spec s : vinv s ->
  (forall s' x, vstep K ml md s VGetPts = (s', Ok x) -> x = VoPts (map (unw K) (vw_cpw s)) /\ vw_cpw s' = vw_cpw s) /\
  (forall s' x, vstep K ml md s VGetWts = (s', Ok x) -> x = VoWts (map (lastw K) (vw_cpw s)) /\ vw_cpw s' = vw_cpw s) /\
  (forall s' x, vstep K ml md s VGetCpw = (s', Ok x) -> x = VoPts (vw_cpw s) /\ s' = s).
Proof.
  intro H. repeat split.
  - simpl in H0. destruct (v_get_pts K s) as [[s1 l]| |] eqn:E; inversion H0; subst.
    destruct (v_get_pts_spec _ _ _ H E) as (_ & _ & ->). reflexivity.
  - simpl in H0. destruct (v_get_pts K s) as [[s1 l]| |] eqn:E; inversion H0; subst.
    exact (proj1 (proj2 (v_get_pts_spec _ _ _ H E))).
  - simpl in H0. destruct (v_get_wts K s) as [[s1 l]| |] eqn:E; inversion H0; subst.
    destruct (v_get_wts_spec _ _ _ H E) as (_ & _ & ->). reflexivity.
  - simpl in H0. destruct (v_get_wts K s) as [[s1 l]| |] eqn:E; inversion H0; subst.
    exact (proj1 (proj2 (v_get_wts_spec _ _ _ H E))).
  - simpl in H0. inversion H0; reflexivity.
  - simpl in H0. inversion H0; reflexivity.
Qed.

Theorem views_consistent_after_any_history cpw0 ops :
  let s := fst (vrun K ml md (mkNview cpw0 [] []) ops) in
  (forall s' x, vstep K ml md s VGetPts = (s', Ok x) -> x = VoPts (map (unw K) (vw_cpw s)) /\ vw_cpw s' = vw_cpw s) /\
  (forall s' x, vstep K ml md s VGetWts = (s', Ok x) -> x = VoWts (map (lastw K) (vw_cpw s)) /\ vw_cpw s' = vw_cpw s) /\
  (forall s' x, vstep K ml md s VGetCpw = (s', Ok x) -> x = VoPts (vw_cpw s) /\ s' = s).
Proof. intro s. apply vread_spec. apply vinv_run. apply vinv_init. Qed.

(* which definition a successful setter installs (whichever view is written, the homogeneous points are
   the combination of the written view with the other view as currently derived from the definition) *)
Theorem vset_spec s : vinv s ->
  (forall v s', vstep K ml md s (VSetCpw v) = (s', Ok VoNone) -> vw_cpw s' = v) /\
  (forall v s', vstep K ml md s (VSetPts v) = (s', Ok VoNone) ->
     vw_cpw s' = combine_cw K v (if is_nil (vw_cpw s) then ones K (length v) else map (lastw K) (vw_cpw s))) /\
  (forall w s', vstep K ml md s (VSetWts w) = (s', Ok VoNone) -> vw_cpw s' = combine_cw K (map (unw K) (vw_cpw s)) w).
Proof.
  intro H.
  assert (R: forall (s0 : @nview T) v s', v_set_raw ml md s0 v = (s', Ok VoNone) -> vw_cpw s' = v).
  { intros s0 v s'. unfold v_set_raw. destruct v as [|p0 v']; [destruct (Nat.ltb 0 ml); intro X; inversion X|].
    destruct (Nat.ltb _ ml); [intro X; inversion X|]. destruct (Nat.ltb _ md); [intro X; inversion X|].
    destruct (forallb _ _); intro X; inversion X; reflexivity. }
  repeat split.
  - intros v s'. simpl. apply R.
  - intros v s'. simpl. destruct (v_get_wts K s) as [[s1 w]| |] eqn:E; try (intro X; inversion X; fail).
    destruct (v_get_wts_spec _ _ _ H E) as (_ & _ & ->). intro X. apply R in X. rewrite X. simpl.
    destruct (vw_cpw s); reflexivity.
  - intros w s'. simpl. destruct (v_get_pts K s) as [[s1 p]| |] eqn:E; try (intro X; inversion X; fail).
    destruct (v_get_pts_spec _ _ _ H E) as (_ & _ & ->). destruct (is_nil _); [intro X; inversion X|].
    intro X. apply R in X. exact X.
Qed.

(* ---- GridWeighted machine: the cache is empty or the weighted grid of the current points and weights ---- *)
Variables (sx sy z : T).
Definition gwf (s : @gstate T) : Prop := g_pts s = [] \/ glen (g_pts s) <> 0.
Definition ginv (s : @gstate T) : Prop :=
  gwf s /\ (g_cache s = [] \/ (g_cache s = gridw K (g_pts s) (g_w s) /\ g_w s <> [])).

Lemma ginv_init : ginv (mkG [] [] []).
Proof. split; left; reflexivity. Qed.

Lemma g_reset_inv s : ginv s -> ginv (g_reset s).
Proof.
  intros [W H]. unfold g_reset. destruct (is_nil (g_w s)) eqn:E; simpl; (split; [left; reflexivity|]); [|left; reflexivity].
  destruct H as [H|[_ H]]; [left; exact H|]. apply is_nil_true in E. contradiction.
Qed.

Lemma ones_nil n : ones K n = [] -> n = 0.
Proof. unfold ones; destruct n; simpl; intro; [reflexivity|discriminate]. Qed.
Lemma accum_length a st n : length (accum K a st n) = n.
Proof. revert a; induction n; simpl; intros; auto. Qed.
Lemma grid_points_glen nu nv : glen (grid_points K sx sy z nu nv) <> 0.
Proof.
  unfold grid_points. simpl. rewrite map_length, map_length, !accum_length. simpl. lia.
Qed.

Theorem ginv_step s o : ginv s -> ginv (fst (gstep K sx sy z s o)).
Proof.
  intro H. destruct o; simpl.
  - destruct (orb _ _); simpl; [exact H|].
    pose proof (g_reset_inv s H) as [_ H1]. split; [right; apply grid_points_glen|]. simpl.
    destruct H1 as [H1|[H1 H2]]; [left; exact H1|].
    unfold g_reset in *. destruct (is_nil (g_w s)) eqn:E; simpl in *; [|left; reflexivity].
    apply is_nil_true in E. destruct H as [_ [H|[_ H]]]; [left; exact H|contradiction].
  - destruct (is_nil (g_pts s)); simpl; [exact H|]. destruct (oleb K w (o0 K)); simpl; [exact H|].
    split; [exact (proj1 H)|left; reflexivity].
  - destruct (is_nil (g_pts s)); simpl; [exact H|]. destruct (negb _); simpl; [exact H|].
    destruct (forallb _ _); simpl; [exact H|]. split; [exact (proj1 H)|left; reflexivity].
  - destruct H as [W H]. split; [exact W|]. simpl. destruct (is_nil (g_w s)) eqn:E.
    + apply is_nil_true in E. destruct H as [H|[_ H]]; [|contradiction]. rewrite H; simpl.
      destruct W as [W|W]; [rewrite W; left; reflexivity|].
      right. split; [reflexivity|]. intro X. apply ones_nil in X. contradiction.
    + destruct H as [H|[H H2]].
      * rewrite H; simpl. right; split; [reflexivity|]. intro X; rewrite X in E; discriminate.
      * destruct (is_nil (g_cache s)) eqn:EC; [apply is_nil_true in EC; rewrite EC in H|]; right; split; auto.
  - exact H.
  - apply g_reset_inv; exact H.
Qed.

Theorem ginv_run ops : forall s, ginv s -> ginv (fst (grun K sx sy z s ops)).
Proof.
  induction ops as [|o r IH]; intros s H; simpl; auto.
  pose proof (ginv_step s o H) as H1. destruct (gstep K sx sy z s o) as [s1 x]; simpl in H1.
  specialize (IH s1 H1). destruct (grun K sx sy z s1 r) as [s2 xs]; simpl in *. exact IH.
Qed.

(* reading the grid after any history returns the weighted grid of the current points and current weights
   (unit weights if none were set) *)
Theorem gread_after_any_history ops :
  let s := fst (grun K sx sy z (mkG [] [] []) ops) in
  exists s', gstep K sx sy z s GRead =
    (s', Ok (GoGrid (gridw K (g_pts s) (if is_nil (g_w s) then ones K (glen (g_pts s)) else g_w s)))).
Proof.
  intro s. pose proof (ginv_run ops _ ginv_init) as [W H]. fold s in W, H. simpl.
  eexists. f_equal. f_equal. f_equal.
  destruct H as [H|[H H2]].
  - rewrite H. reflexivity.
  - destruct (g_w s) eqn:E; [contradiction|]. simpl.
    destruct (is_nil (g_cache s)) eqn:EC; [reflexivity|exact H].
Qed.

(* the repaired weighted grid gives point (i, j) its own weight: number j + i * (row length) of the flat list *)
Lemma mapi_from_nth {A B} (f : nat -> A -> B) (l : list A) : forall k i d d', i < length l ->
  nth i (mapi_from f k l) d' = f (k + i) (nth i l d).
Proof.
  induction l as [|x r IH]; intros k i d d' Hi; simpl in *; [lia|].
  destruct i; [rewrite Nat.add_0_r; reflexivity|]. rewrite (IH (S k) i d d') by lia. f_equal; lia.
Qed.
Theorem gridw_own_weight G W i j : i < length G -> j < length (nth i G []) ->
  nth j (nth i (gridw K G W) []) [] = wpt K (nth j (nth i G []) []) (nth (j + i * length (nth i G [])) W (o0 K)).
Proof.
  intros Hi Hj. unfold gridw, mapi. rewrite (mapi_from_nth _ G 0 i [] []) by exact Hi. simpl.
  rewrite (mapi_from_nth _ (nth i G []) 0 j [] []) by exact Hj. reflexivity.
Qed.
End Gen.

(* ------------------------------------------------------------------ reals: inverse laws *)
Local Open Scope R_scope.
Section Real.

Lemma lastw_wpt pt w : lastw Rops (wpt Rops pt w) = w.
Proof. unfold lastw, wpt. apply last_last. Qed.
Lemma removelast_wpt pt w : removelast (wpt Rops pt w) = map (fun c => c * w) pt.
Proof. unfold wpt. rewrite removelast_last. reflexivity. Qed.
Lemma unw_wpt pt w : w <> 0 -> unw Rops (wpt Rops pt w) = pt.
Proof.
  intro Hw. unfold unw. rewrite lastw_wpt, removelast_wpt, map_map. rsimp.
  rewrite <- (map_id pt) at 2. apply map_ext. intro a. field. exact Hw.
Qed.
Lemma wpt_unw ptw : ptw <> [] -> lastw Rops ptw <> 0 -> wpt Rops (unw Rops ptw) (lastw Rops ptw) = ptw.
Proof.
  intros Hn Hw. unfold wpt, unw. rewrite map_map. rsimp.
  transitivity (removelast ptw ++ [last ptw 0]); [|symmetry; apply app_removelast_last; exact Hn]. f_equal.
  rewrite <- (map_id (removelast ptw)) at 2. apply map_ext. intro a. unfold lastw in *. rsimp. field. exact Hw.
Qed.

Theorem separate_combine_id : forall (P : list (list R)) (W : list R), length P = length W -> Forall (fun w => w <> 0) W ->
  separate_cw Rops (combine_cw Rops P W) = (P, W).
Proof.
  unfold separate_cw, combine_cw. induction P as [|pt P IH]; intros [|w W] HL HF; simpl in *; try discriminate; auto.
  inversion HF; subst. injection HL as HL. specialize (IH W HL H2). injection IH as I1 I2.
  rewrite I1, I2, unw_wpt, lastw_wpt by assumption. reflexivity.
Qed.

Theorem combine_separate_id : forall (Pw : list (list R)), Forall (fun ptw => ptw <> [] /\ lastw Rops ptw <> 0) Pw ->
  combine_cw Rops (fst (separate_cw Rops Pw)) (snd (separate_cw Rops Pw)) = Pw.
Proof.
  unfold separate_cw, combine_cw. simpl. induction Pw as [|ptw Pw IH]; intro HF; simpl; auto.
  inversion HF; subst. destruct H1 as [Hn Hw]. rewrite IH by assumption. rewrite wpt_unw by assumption. reflexivity.
Qed.

Lemma lastw_gen_w pt : lastw Rops (gen_w_pt Rops pt) = lastw Rops pt.
Proof. unfold gen_w_pt, lastw at 1. apply last_last. Qed.
Lemma lastw_gen_u pt : lastw Rops (gen_u_pt Rops pt) = lastw Rops pt.
Proof. unfold gen_u_pt, lastw at 1. apply last_last. Qed.
Lemma gen_u_gen_w pt : pt <> [] -> lastw Rops pt <> 0 -> gen_u_pt Rops (gen_w_pt Rops pt) = pt.
Proof.
  intros Hn Hw. unfold gen_u_pt. rewrite lastw_gen_w. unfold gen_w_pt at 1. rewrite removelast_last, map_map. rsimp.
  transitivity (removelast pt ++ [last pt 0]); [|symmetry; apply app_removelast_last; exact Hn]. f_equal.
  rewrite <- (map_id (removelast pt)) at 2. apply map_ext. intro a. unfold lastw in *. rsimp. field. exact Hw.
Qed.
Lemma gen_w_gen_u pt : pt <> [] -> lastw Rops pt <> 0 -> gen_w_pt Rops (gen_u_pt Rops pt) = pt.
Proof.
  intros Hn Hw. unfold gen_w_pt. rewrite lastw_gen_u. unfold gen_u_pt at 1. rewrite removelast_last, map_map. rsimp.
  transitivity (removelast pt ++ [last pt 0]); [|symmetry; apply app_removelast_last; exact Hn]. f_equal.
  rewrite <- (map_id (removelast pt)) at 2. apply map_ext. intro a. unfold lastw in *. rsimp. field. exact Hw.
Qed.

Definition okpt (pt : list R) : Prop := pt <> [] /\ lastw Rops pt <> 0.
Theorem ctrlptsw_weights_inverse (P : list (list R)) : Forall okpt P ->
  map (gen_u_pt Rops) (map (gen_w_pt Rops) P) = P /\ map (gen_w_pt Rops) (map (gen_u_pt Rops) P) = P.
Proof.
  intro H. rewrite !map_map. split; rewrite <- (map_id P) at 2; apply map_ext_in; intros pt Hin;
    rewrite Forall_forall in H; destruct (H pt Hin); [apply gen_u_gen_w|apply gen_w_gen_u]; assumption.
Qed.
Theorem ctrlptsw_weights_inverse2d (G : list (list (list R))) : Forall (Forall okpt) G ->
  map (map (gen_u_pt Rops)) (map (map (gen_w_pt Rops)) G) = G /\ map (map (gen_w_pt Rops)) (map (map (gen_u_pt Rops)) G) = G.
Proof.
  intro H. rewrite !map_map. split; rewrite <- (map_id G) at 2; apply map_ext_in; intros row Hin;
    rewrite Forall_forall in H; apply ctrlptsw_weights_inverse; auto.
Qed.
(* the res-level functions succeed exactly on such inputs *)
Lemma isz0_false w : w <> 0 -> isz0 Rops w = false.
Proof.
  intro H. unfold isz0, oeqb. rsimp. unfold Rleb. destruct (Rle_dec w 0), (Rle_dec 0 w); simpl; auto. exfalso; lra.
Qed.
Lemma generate_roundtrip_res (P : list (list R)) : Forall okpt P ->
  res_bind (generate_ctrlptsw Rops P) (generate_ctrlpts_weights Rops) = Ok P.
Proof.
  intro H. unfold generate_ctrlptsw, generate_ctrlpts_weights.
  assert (A: forallb (fun pt : list R => negb (Nat.eqb (length pt) 0)) P = true).
  { apply forallb_forall. intros pt Hin. rewrite Forall_forall in H. destruct (H pt Hin) as [Hn _]. destruct pt; [contradiction|reflexivity]. }
  rewrite A. simpl.
  assert (B: forallb (fun pt : list R => andb (negb (Nat.eqb (length pt) 0)) (negb (isz0 Rops (lastw Rops pt)))) (map (gen_w_pt Rops) P) = true).
  { apply forallb_forall. intros pt Hin. apply in_map_iff in Hin. destruct Hin as (q & <- & Hq).
    rewrite Forall_forall in H. destruct (H q Hq) as [Hn Hw]. rewrite lastw_gen_w, (isz0_false _ Hw).
    unfold gen_w_pt. rewrite app_length. simpl. rewrite Nat.add_1_r. reflexivity. }
  rewrite B. f_equal. apply ctrlptsw_weights_inverse. exact H.
Qed.

(* setting one view and reading the others round-trips (whichever setter is used) *)
Lemma sep_ok_combine (P : list (list R)) (W : list R) : Forall (fun w => w <> 0) W ->
  forallb (sep_pt_ok Rops) (combine_cw Rops P W) = true.
Proof.
  intro HF. apply forallb_forall. intros ptw Hin. unfold combine_cw in Hin. apply in_map_iff in Hin.
  destruct Hin as ([pt w] & <- & Hin). simpl. apply in_combine_r in Hin. rewrite Forall_forall in HF.
  pose proof (isz0_false _ (HF w Hin)) as Z. unfold sep_pt_ok. rewrite lastw_wpt, Z.
  unfold wpt. destruct (map _ pt) as [|a [|b r]]; reflexivity.
Qed.

Lemma v_fill_combine (P : list (list R)) (W : list R) : length P = length W -> Forall (fun w => w <> 0) W ->
  v_fill Rops (mkNview (combine_cw Rops P W) [] []) = Ok (mkNview (combine_cw Rops P W) P W).
Proof.
  intros HL HF. unfold v_fill, separate_res. cbn [vw_cpw].
  rewrite (sep_ok_combine P W HF), (separate_combine_id P W HL HF). reflexivity.
Qed.

Theorem set_view_roundtrip ml md (s s1 : @nview R) :
  vinv Rops s ->
  (forall v, vstep Rops ml md s (VSetPts v) = (s1, Ok VoNone) ->
     let W := if is_nil (vw_cpw s) then ones Rops (length v) else map (lastw Rops) (vw_cpw s) in
     length v = length W -> Forall (fun w => w <> 0) W ->
     (exists s2, vstep Rops ml md s1 VGetPts = (s2, Ok (VoPts v))) /\ (exists s2, vstep Rops ml md s1 VGetWts = (s2, Ok (VoWts W)))) /\
  (forall w, vstep Rops ml md s (VSetWts w) = (s1, Ok VoNone) ->
     let P := map (unw Rops) (vw_cpw s) in
     length P = length w -> Forall (fun x => x <> 0) w ->
     (exists s2, vstep Rops ml md s1 VGetPts = (s2, Ok (VoPts P))) /\ (exists s2, vstep Rops ml md s1 VGetWts = (s2, Ok (VoWts w)))).
Proof.
  intro Hinv.
  assert (RAW: forall (s0 : @nview R) v s', v_set_raw ml md s0 v = (s', Ok VoNone) -> s' = mkNview v [] []).
  { intros s0 v s'. unfold v_set_raw. destruct v as [|p0 v']; [destruct (Nat.ltb 0 ml); intro X; inversion X|].
    destruct (Nat.ltb _ ml); [intro X; inversion X|]. destruct (Nat.ltb _ md); [intro X; inversion X|].
    destruct (forallb _ _); intro X; inversion X; reflexivity. }
  assert (READ: forall P W, length P = length W -> Forall (fun w => w <> 0) W ->
     let s1 := mkNview (combine_cw Rops P W) [] [] in
     (exists s2, vstep Rops ml md s1 VGetPts = (s2, Ok (VoPts P))) /\ (exists s2, vstep Rops ml md s1 VGetWts = (s2, Ok (VoWts W)))).
  { intros P W HL HF. cbn [vstep]. unfold v_get_pts, v_get_wts. cbn [vw_cpts vw_cwts is_nil].
    rewrite (v_fill_combine P W HL HF). simpl. split; eexists; reflexivity. }
  split.
  - intros v Hs W HL HF. destruct (vset_spec Rops ml md s Hinv) as (_ & S2 & _).
    simpl in Hs. destruct (v_get_wts Rops s) as [[s' w]| |] eqn:E; try (inversion Hs; fail).
    destruct (v_get_wts_spec Rops _ _ _ Hinv E) as (_ & _ & Hw). apply RAW in Hs. subst s1.
    assert (EW: (if is_nil w then ones Rops (length v) else w) = W).
    { subst w W. simpl. destruct (vw_cpw s); reflexivity. }
    rewrite EW. apply READ; assumption.
  - intros w Hs P HL HF.
    simpl in Hs. destruct (v_get_pts Rops s) as [[s' p]| |] eqn:E; try (inversion Hs; fail).
    destruct (v_get_pts_spec Rops _ _ _ Hinv E) as (_ & _ & Hp). destruct (is_nil p); [inversion Hs|].
    apply RAW in Hs. subst s1. subst p. simpl. apply READ; assumption.
Qed.
End Real.

(* ------------------------------------------------------------------ reals: scaling all weights, unit weights *)
Section Eval.
Lemma combine_map2 {A B} (f : A -> B) : forall (a b : list A), combine (map f a) (map f b) = map (fun p => (f (fst p), f (snd p))) (combine a b).
Proof. induction a as [|x a IH]; intros [|y b]; simpl; auto. f_equal; apply IH. Qed.

Lemma axpy_scale c k (pt acc : list R) :
  axpy Rops k (vscale Rops c pt) (vscale Rops c acc) = vscale Rops c (axpy Rops k pt acc).
Proof.
  unfold axpy, vscale. rewrite combine_map2, !map_map. apply map_ext. intros [a b]. cbn [fst snd]. rsimp. ring.
Qed.

Lemma fold_axpy_scale {A} c (cf : A -> R) (pf pf' : A -> list R) (l : list A) :
  (forall i, pf' i = vscale Rops c (pf i)) -> forall acc,
  fold_left (fun a i => axpy Rops (cf i) (pf' i) a) l (vscale Rops c acc) =
  vscale Rops c (fold_left (fun a i => axpy Rops (cf i) (pf i) a) l acc).
Proof. intro H. induction l as [|x l IH]; intro acc; simpl; auto. rewrite H, axpy_scale. apply IH. Qed.

Lemma vscale_vzero c dim : vscale Rops c (vzero Rops dim) = vzero Rops dim.
Proof. unfold vscale, vzero. induction dim; simpl; auto. f_equal; auto. rsimp. ring. Qed.

Lemma pt_at_scale c (P : list (list R)) i : pt_at (map (vscale Rops c) P) i = vscale Rops c (pt_at P i).
Proof. unfold pt_at. change (@nil R) with (vscale Rops c []) at 1. apply map_nth. Qed.

Lemma curve_point_at_scale c dim p P span Ns :
  curve_point_at Rops dim p (map (vscale Rops c) P) span Ns = vscale Rops c (curve_point_at Rops dim p P span Ns).
Proof.
  unfold curve_point_at. rewrite <- (vscale_vzero c dim) at 1.
  apply (fold_axpy_scale c (fun i => nth i Ns (o0 Rops)) (fun i => pt_at P (span - p + i)%nat)). intro i. apply pt_at_scale.
Qed.

Lemma surface_point_at_scale c dim pu pv sv P ku kv Nu Nv :
  surface_point_at Rops dim pu pv sv (map (vscale Rops c) P) ku kv Nu Nv = vscale Rops c (surface_point_at Rops dim pu pv sv P ku kv Nu Nv).
Proof.
  unfold surface_point_at. cbv zeta. rewrite <- (vscale_vzero c dim) at 1.
  apply (fold_axpy_scale c (fun k => nth k Nu (o0 Rops))
    (fun k => fold_left (fun tmp l => axpy Rops (nth l Nv (o0 Rops)) (pt_at P (kv - pv + l + sv * (ku - pu + k))%nat) tmp) (seq 0 (S pv)) (vzero Rops dim))).
  intro k. rewrite <- (vscale_vzero c dim) at 1.
  apply (fold_axpy_scale c (fun l => nth l Nv (o0 Rops)) (fun l => pt_at P (kv - pv + l + sv * (ku - pu + k))%nat)). intro l. apply pt_at_scale.
Qed.

Lemma last_scale c (l : list R) : last (map (Rmult c) l) 0 = c * last l 0.
Proof. induction l as [|x [|y r] IH]; simpl in *; [ring|reflexivity|exact IH]. Qed.
Lemma removelast_map {A B} (f : A -> B) (l : list A) : removelast (map f l) = map f (removelast l).
Proof. induction l as [|x [|y r] IH]; simpl in *; auto. f_equal. exact IH. Qed.

Lemma project_scale c (x : list R) : c <> 0 -> project Rops (vscale Rops c x) = project Rops x.
Proof.
  intro Hc. unfold project, vscale. cbv zeta. rsimp. rewrite last_scale, removelast_map, map_map.
  apply map_ext. intro a. destruct (Req_dec (last x 0) 0) as [E|E].
  - rewrite E. unfold Rdiv. rewrite Rmult_0_r, Rinv_0. ring.
  - field. split; assumption.
Qed.

Lemma wpt_scale c pt w : wpt Rops pt (c * w) = vscale Rops c (wpt Rops pt w).
Proof.
  unfold wpt, vscale. rewrite map_app, map_map. simpl. f_equal. apply map_ext. intro a. rsimp. ring.
Qed.
Lemma combine_cw_scale c : forall (P : list (list R)) (W : list R),
  combine_cw Rops P (map (Rmult c) W) = map (vscale Rops c) (combine_cw Rops P W).
Proof.
  unfold combine_cw. induction P as [|pt P IH]; intros [|w W]; simpl; auto. rewrite IH. f_equal. apply wpt_scale.
Qed.

(* multiplying all weights by one non-zero constant moves no point of the curve / surface *)
Theorem curve_weight_scaling dim p U (P : list (list R)) (W : list R) c u : c <> 0 ->
  project Rops (curve_point Rops dim p U (combine_cw Rops P (map (Rmult c) W)) u) =
  project Rops (curve_point Rops dim p U (combine_cw Rops P W) u).
Proof.
  intro Hc. rewrite combine_cw_scale. unfold curve_point. cbv zeta. rewrite map_length.
  rewrite curve_point_at_scale. apply project_scale. exact Hc.
Qed.
Theorem surface_weight_scaling dim pu pv Uu Uv su sv (P : list (list R)) (W : list R) c u v : c <> 0 ->
  project Rops (surface_point Rops dim pu pv Uu Uv su sv (combine_cw Rops P (map (Rmult c) W)) u v) =
  project Rops (surface_point Rops dim pu pv Uu Uv su sv (combine_cw Rops P W) u v).
Proof.
  intro Hc. rewrite combine_cw_scale. unfold surface_point. cbv zeta.
  rewrite surface_point_at_scale. apply project_scale. exact Hc.
Qed.
Theorem volume_weight_scaling dim pu pv pw Uu Uv Uw su sv sw (P : list (list R)) (W : list R) c u v w : c <> 0 ->
  project Rops (volume_point Rops dim pu pv pw Uu Uv Uw su sv sw (combine_cw Rops P (map (Rmult c) W)) u v w) =
  project Rops (volume_point Rops dim pu pv pw Uu Uv Uw su sv sw (combine_cw Rops P W) u v w).
Proof.
  intro Hc. rewrite combine_cw_scale. unfold volume_point. cbv zeta.
  symmetry. rewrite <- (project_scale c _ Hc). symmetry. f_equal.
  rewrite <- (vscale_vzero c dim) at 1.
  match goal with |- fold_left _ ?l _ = vscale _ _ (fold_left (fun spt du => axpy _ (@?cf du) (@?pf du) spt) _ _) =>
    apply (fold_axpy_scale c cf pf) end.
  intro du. rewrite <- (vscale_vzero c dim) at 1.
  match goal with |- fold_left _ ?l _ = vscale _ _ (fold_left (fun t2 dv => axpy _ (@?cf dv) (@?pf dv) t2) _ _) =>
    apply (fold_axpy_scale c cf pf) end.
  intro dv. rewrite <- (vscale_vzero c dim) at 1.
  match goal with |- fold_left _ ?l _ = vscale _ _ (fold_left (fun t dw => axpy _ (@?cf dw) (@?pf dw) t) _ _) =>
    apply (fold_axpy_scale c cf pf) end.
  intro dw. apply pt_at_scale.
Qed.
End Eval.

(* ------------------------------------------------------------------ unit weights: B-spline -> NURBS evaluates identically *)
Section Unit.
Lemma to_rational_map (P : list (list R)) : to_rational Rops P = map (fun pt => pt ++ [1]) P.
Proof.
  unfold to_rational, combine_cw, ones. induction P as [|pt P IH]; [reflexivity|].
  cbn [map combine repeat length fst snd]. rewrite IH. f_equal.
  unfold wpt. rsimp. f_equal. rewrite <- (map_id pt) at 2. apply map_ext. intro a. ring.
Qed.

Lemma fold_left_ext_in' {A B} (g f : A -> B -> A) (l : list B) :
  (forall a x, In x l -> f a x = g a x) -> forall a, fold_left f l a = fold_left g l a.
Proof.
  induction l as [|x l IH]; intros H a; simpl; auto. rewrite H by (left; reflexivity).
  apply IH. intros a' y Hy. apply H. right; exact Hy.
Qed.

Lemma combine_app_eq {A B} : forall (a : list A) (b : list B) x y, length a = length b ->
  combine (a ++ [x]) (b ++ [y]) = combine a b ++ [(x, y)].
Proof. induction a as [|a0 a IH]; intros [|b0 b] x y H; simpl in *; try discriminate; auto. f_equal. apply IH. lia. Qed.

Lemma axpy_app k (pt acc : list R) a : length pt = length acc ->
  axpy Rops k (pt ++ [1]) (acc ++ [a]) = axpy Rops k pt acc ++ [a + k].
Proof.
  intro H. unfold axpy. rewrite combine_app_eq by (symmetry; exact H). rewrite map_app. simpl. rsimp. f_equal. f_equal. ring.
Qed.
Lemma axpy_len k (pt acc : list R) : length pt = length acc -> length (axpy Rops k pt acc) = length acc.
Proof. intro H. unfold axpy. rewrite map_length, combine_length. lia. Qed.

Lemma fold_axpy_app (cf : nat -> R) (pf : nat -> list R) dim (l : list nat) :
  (forall i, In i l -> length (pf i) = dim) -> forall acc a, length acc = dim ->
  fold_left (fun ac i => axpy Rops (cf i) (pf i ++ [1]) ac) l (acc ++ [a]) =
  fold_left (fun ac i => axpy Rops (cf i) (pf i) ac) l acc ++ [fold_left (fun s i => s + cf i) l a].
Proof.
  induction l as [|x l IH]; intros H acc a Ha; simpl; auto.
  rewrite axpy_app by (rewrite H; [lia|left; reflexivity]).
  apply IH; [intros i Hi; apply H; right; exact Hi|]. rewrite axpy_len; rewrite ?H; auto; left; reflexivity.
Qed.

Lemma fold_sum_nth (l : list R) : forall pre a,
  fold_left (fun s i => s + nth i (pre ++ l) 0) (seq (length pre) (length l)) a = a + sumT Rops l.
Proof.
  induction l as [|x l IH]; intros pre a; simpl; [rsimp; ring|].
  rewrite nth_middle. replace (pre ++ x :: l) with ((pre ++ [x]) ++ l) by (rewrite <- app_assoc; reflexivity).
  replace (S (length pre)) with (length (pre ++ [x])) by (rewrite app_length; simpl; lia).
  rewrite IH. rsimp. ring.
Qed.

Lemma vzero_S dim : vzero Rops (S dim) = vzero Rops dim ++ [0].
Proof. unfold vzero. induction dim; simpl; auto. f_equal. exact IHdim. Qed.

Lemma project_app1 (x : list R) : project Rops (x ++ [1]) = x.
Proof.
  unfold project. cbv zeta. rewrite last_last, removelast_last. rewrite <- (map_id x) at 2. apply map_ext. intro a. rsimp. field.
Qed.

(* homogeneous evaluation of the unit-weight net = (non-rational point, sum of the basis functions) *)
Lemma curve_point_at_unit dim p (P : list (list R)) span Ns :
  (forall i, (i < length P)%nat -> length (nth i P []) = dim) -> (p <= span)%nat -> (span < length P)%nat -> length Ns = S p ->
  curve_point_at Rops (S dim) p (to_rational Rops P) span Ns = curve_point_at Rops dim p P span Ns ++ [sumT Rops Ns].
Proof.
  intros Hwf Hp Hs HN. unfold curve_point_at. rewrite vzero_S, to_rational_map.
  rewrite (fold_left_ext_in' (fun acc i => axpy Rops (nth i Ns (o0 Rops)) (pt_at P (span - p + i)%nat ++ [1]) acc)).
  - rewrite (fold_axpy_app (fun i => nth i Ns (o0 Rops)) (fun i => pt_at P (span - p + i)%nat) dim).
    + f_equal. f_equal. pose proof (fold_sum_nth Ns [] 0) as F. simpl in F. rewrite HN in F. rsimp. rewrite F. ring.
    + intros i Hi. apply in_seq in Hi. unfold pt_at. apply Hwf. lia.
    + unfold vzero. apply repeat_length.
  - intros acc i Hi. apply in_seq in Hi. f_equal. unfold pt_at.
    change (@nil R) with (@nil R) at 1. rewrite (nth_indep _ [] ([] ++ [1])) by (rewrite map_length; lia).
    rewrite (map_nth (fun pt => pt ++ [1]) P [] (span - p + i)). reflexivity.
Qed.

(* converting a non-rational curve to a rational one (unit weights) evaluates identically on the half-open domain;
   the denominator is 1 by the partition of unity *)
Theorem unit_weights_curve (U : list R) (P : list (list R)) (p dim : nat) (u : R) :
  sortedR U -> (p < length P)%nat -> (length P + p < length U)%nat ->
  (forall i, (i < length P)%nat -> length (nth i P []) = dim) ->
  knR U p <= u < knR U (length P) ->
  project Rops (curve_point Rops (S dim) p U (to_rational Rops P) u) = curve_point Rops dim p U P u.
Proof.
  intros Hs Hp HL Hwf [Hu1 Hu2]. unfold curve_point. cbv zeta.
  assert (EL: length (to_rational Rops P) = length P) by (rewrite to_rational_map; apply map_length). rewrite EL.
  pose proof (find_span_linear_spec U u p (length P) Hp ltac:(lia) Hu1) as F. cbv zeta in F.
  set (k := find_span_linear Rops p U (length P) u) in *. destruct F as (Hk & Hk1 & Hk2).
  assert (Hk3: u < knR U (S k)) by (destruct Hk2 as [Hk2|[_ Hk2]]; [exact Hk2|lra]).
  rewrite curve_point_at_unit; try lia; [|exact Hwf|apply bf_length].
  rewrite bf_partition_unity; try lia; [apply project_app1|exact Hs|]. rewrite Nat.add_1_r. split; assumption.
Qed.
End Unit.
