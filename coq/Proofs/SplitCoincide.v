(* C07: the two pieces returned by operations.split_curve (Model/Split.v) coincide with the original curve.
   For a curve with a sorted knot vector of the right length and a parameter t strictly inside the domain (inside a span
   or on a knot of any multiplicity s <= p, found with a tolerance that does not confuse t with a different knot):
     - split_curve is NOT rejected and returns the explicit pieces (split_curve_result);
     - the left piece at (x - U_0)/(t - U_0) equals the original at x for every x < t,
       the right piece at (x - t)/(U_last - t) equals the original at x for every x >= t  (split_pieces_coincide),
       every coordinate (weighted coordinates and the weight of rational curves included).
   Curve points are the Cox-de Boor sums curve_pt of Proofs/InsertKnotR.v (what the evaluators compute by C01).
   Ingredients: C04 (insertion preserves the curve), locality at a knot of full multiplicity (Proofs/SplitLocal.v),
   invariance of the basis functions under the normalisation of the knot vector. *)
From Coq Require Import List Reals Lra Lia Arith Bool ZArith.
From NV Require Import Scalar.Ops Model.Common Model.Basis Model.Knots Model.KnotIns Model.InsertKnot Model.Split
  Proofs.Boehm Proofs.BasisR Proofs.KnotsR Proofs.KnotInsR Proofs.InsertKnotR Proofs.KnotInsN Proofs.InsertNR Proofs.InsertOpR
  Proofs.SplitR Proofs.SplitBezier Proofs.SplitLocal.
Import ListNotations.
Open Scope R_scope.

(* ---------------------------------------------------------------- knot lists as total functions *)
Lemma Ufun_map (f : R -> R) (l : list R) i : l <> [] -> Ufun (map f l) i = f (Ufun l i).
Proof.
  intros H. unfold Ufun.
  assert (Hm : map f l <> []) by (destruct l; [congruence|discriminate]).
  rewrite (last_nth (map f l) 0 Hm), (last_nth l 0 H), map_length.
  assert (HL : (length l - 1 < length l)%nat) by (destruct l; [congruence|cbn; lia]).
  rewrite (nth_indep (map f l) 0 (f 0)) by (rewrite map_length; exact HL).
  rewrite map_nth. apply map_nth.
Qed.

Lemma Ufun_kv (U : list R) t k r i : (S k < length U)%nat ->
  Ufun (knot_insertion_kv U t k r) i = if Nat.leb i k then Ufun U i else if Nat.leb i (k + r) then t else Ufun U (i - r).
Proof. intros Hk. unfold Ufun. rewrite last_kv by exact Hk. rewrite kv_nth by lia. reflexivity. Qed.

Lemma Ufun_mono (U : list R) : sortedR U -> forall i j, (i <= j)%nat -> Ufun U i <= Ufun U j.
Proof. intros Hs i j H. apply (U_mono (Ufun U) (Ufun_sorted U Hs)). exact H. Qed.

Lemma sortedR_of_nth (l : list R) : (forall i j, (i <= j < length l)%nat -> nth i l 0 <= nth j l 0) -> sortedR l.
Proof. intros H i j Hij. apply H. exact Hij. Qed.

Lemma normalize_nonempty (kv : list R) : kv <> [] ->
  normalize Rops kv = Ok (map (fun x => (x - nth 0 kv 0) / (last kv (nth 0 kv 0) - nth 0 kv 0)) kv).
Proof. destruct kv as [|f l]; [congruence|]. intros _. reflexivity. Qed.

(* the basis functions of a normalised knot list at the normalised parameter *)
Lemma N_normalized (kv : list R) (f l : R) p i x : kv <> [] -> f < l ->
  N (Ufun (map (fun y => (y - f) / (l - f)) kv)) p i ((x - f) / (l - f)) = N (Ufun kv) p i x.
Proof.
  intros Hne Hfl.
  rewrite (N_ext_fun _ (fun j => / (l - f) * Ufun kv j + - f / (l - f))).
  2:{ intros j. rewrite Ufun_map by exact Hne. unfold Rdiv. ring. }
  replace ((x - f) / (l - f)) with (/ (l - f) * x + - f / (l - f)) by (unfold Rdiv; ring).
  apply N_affine. apply Rinv_0_lt_compat. lra.
Qed.

(* ---------------------------------------------------------------- the split at an interior parameter *)
Section SplitAt.
Variables (tol : R) (p : nat) (U : list R) (n : nat) (t : R).
Hypothesis Usorted : sortedR U.
Hypothesis HpP : (p < n)%nat.
Hypothesis HlenU : length U = (n + p + 1)%nat.
(* t strictly inside the domain [U_p, U_n] *)
Hypothesis Ht : knR U p < t < knR U n.
(* the multiplicity tolerance does not confuse t with a different knot; the multiplicity found is at most p *)
Hypothesis Hsep : forall i, (i < length U)%nat -> Rabs (t - knR U i) <= tol -> knR U i = t.
Hypothesis Hs : (find_multiplicity Rops tol t U <= p)%nat.

Let k := find_span_linear Rops p U n t.
Let s := find_multiplicity Rops tol t U.
Let r := (p - s)%nat.
Let U' := knot_insertion_kv U t k r.
Let M := (k + r)%nat.
Let m := (k - s)%nat.
Let a0 := knR U 0.
Let b0 := knR U (n + p).

Lemma sc_k : (p <= k < n)%nat /\ knR U k <= t < knR U (k + 1).
Proof.
  pose proof (find_span_linear_spec U t p n HpP ltac:(lia) ltac:(lra)) as H. cbv zeta in H. fold k in H.
  destruct H as [H1 [H2 [H3|[H3 H4]]]].
  - replace (k + 1)%nat with (S k) by lia. split; [exact H1|split; assumption].
  - lra.
Qed.

Lemma sc_s : forall i, (k - s < i <= k)%nat -> knR U i = t.
Proof.
  pose proof (s_spec tol (mkC p U (repeat (@nil R) n)) t) as H. cbn [c_p c_U c_P] in H. rewrite repeat_length in H.
  apply H; try assumption. lra.
Qed.

Lemma sc_Mm : M = (m + p)%nat.
Proof. destruct sc_k as [Hk _]. unfold M, m, r. fold s in Hs. lia. Qed.

Lemma sc_lenU' : length U' = (n + p + 1 + r)%nat.
Proof. unfold U'. rewrite kv_length, HlenU. reflexivity. Qed.

Lemma sc_U'nth i : knR U' i = if Nat.leb i k then knR U i else if Nat.leb i (k + r) then t else knR U (i - r).
Proof. destruct sc_k as [Hk _]. unfold U'. apply knot_insertion_kv_nth. lia. Qed.

Lemma sc_U'sorted : sortedR U'.
Proof.
  destruct sc_k as [Hk [Hk1 Hk2]]. unfold U'. apply kv_sorted; auto; try lia.
  intros _. replace (S k) with (k + 1)%nat by lia. lra.
Qed.

Lemma sc_fU' i : Ufun U' i = if Nat.leb i k then Ufun U i else if Nat.leb i (k + r) then t else Ufun U (i - r).
Proof. destruct sc_k as [Hk _]. unfold U'. apply Ufun_kv. lia. Qed.

Lemma sc_run j : (m < j <= M)%nat -> knR U' j = t.
Proof.
  intros Hj. rewrite sc_U'nth. unfold M, m in Hj.
  destruct (Nat.leb_spec j k); [apply sc_s; lia|]. destruct (Nat.leb_spec j (k + r)); [reflexivity|lia].
Qed.

Lemma sc_atM : knR U' M <= t.
Proof.
  destruct sc_k as [Hk [Hk1 Hk2]]. rewrite sc_U'nth. unfold M.
  destruct (Nat.leb_spec (k + r) k); [replace (k + r)%nat with k by lia; exact Hk1|].
  destruct (Nat.leb_spec (k + r) (k + r)); [lra|lia].
Qed.

Lemma sc_afterM : t < knR U' (S M).
Proof.
  destruct sc_k as [Hk [Hk1 Hk2]]. rewrite sc_U'nth. unfold M.
  destruct (Nat.leb_spec (S (k + r)) k); [lia|]. destruct (Nat.leb_spec (S (k + r)) (k + r)); [lia|].
  replace (S (k + r) - r)%nat with (k + 1)%nat by lia. exact Hk2.
Qed.

Lemma sc_le_t j : (j <= M)%nat -> knR U' j <= t.
Proof.
  intros Hj. assert (knR U' j <= knR U' M).
  { apply sc_U'sorted. rewrite sc_lenU'. destruct sc_k as [Hk _]. unfold M in *. lia. }
  pose proof sc_atM. lra.
Qed.

Lemma sc_gt_t j : (M < j)%nat -> (j < length U')%nat -> t < knR U' j.
Proof.
  intros Hj HL. assert (knR U' (S M) <= knR U' j) by (apply sc_U'sorted; lia).
  pose proof sc_afterM. lra.
Qed.

(* the span of t in the refined knot vector *)
Lemma sc_span' : find_span_linear Rops p U' (n + r) t = M.
Proof.
  destruct sc_k as [Hk [Hk1 Hk2]].
  assert (Hp0 : knR U' p <= t).
  { rewrite sc_U'nth. destruct (Nat.leb_spec p k); [|lia]. lra. }
  pose proof (find_span_linear_spec U' t p (n + r) ltac:(lia) ltac:(rewrite sc_lenU'; lia) Hp0) as H.
  cbv zeta in H. set (k' := find_span_linear Rops p U' (n + r) t) in *.
  destruct H as (H1 & H2 & H3).
  assert (Hlt : t < knR U' (S k')).
  { destruct H3 as [H3|[_ H3]]; [exact H3|]. exfalso.
    assert (t < knR U' (n + r)) by (apply sc_gt_t; [unfold M; lia|rewrite sc_lenU'; lia]). lra. }
  destruct (Nat.lt_trichotomy k' M) as [Hc|[Hc|Hc]]; [|exact Hc|].
  - exfalso. assert (knR U' (S k') <= t) by (apply sc_le_t; lia). lra.
  - exfalso. assert (t < knR U' k') by (apply sc_gt_t; [lia|rewrite sc_lenU'; lia]). lra.
Qed.

(* ---- the two knot lists before normalisation ---- *)
Let kv1 := firstn (S M) U' ++ [t].
Let kv2 := repeat t (S p) ++ skipn (S M) U'.

Lemma sc_Mlt : (S M < length U')%nat.
Proof. destruct sc_k as [Hk _]. rewrite sc_lenU'. unfold M. lia. Qed.

Lemma sc_fn_len : length (firstn (S M) U') = S M.
Proof. rewrite firstn_length. pose proof sc_Mlt. lia. Qed.

Lemma sc_kv1_len : length kv1 = S (S M).
Proof. unfold kv1. rewrite app_length, sc_fn_len. cbn [length]. lia. Qed.

Lemma sc_kv1_lo i : (i <= M)%nat -> nth i kv1 0 = knR U' i.
Proof. intros Hi. unfold kv1. rewrite app_nth1 by (rewrite sc_fn_len; lia). apply nth_firstn_lt. lia. Qed.

Lemma sc_kv1_hi : nth (S M) kv1 0 = t.
Proof. unfold kv1. rewrite app_nth2 by (rewrite sc_fn_len; lia). rewrite sc_fn_len, Nat.sub_diag. reflexivity. Qed.

Lemma sc_kv1_sorted : forall i j, (i <= j < length kv1)%nat -> nth i kv1 0 <= nth j kv1 0.
Proof.
  intros i j Hij. rewrite sc_kv1_len in Hij.
  destruct (Nat.le_gt_cases j M) as [Hj|Hj].
  - rewrite !sc_kv1_lo by lia. apply sc_U'sorted. pose proof sc_Mlt. lia.
  - assert (j = S M) by lia. subst j. rewrite sc_kv1_hi.
    destruct (Nat.le_gt_cases i M) as [Hi|Hi].
    + rewrite sc_kv1_lo by lia. apply sc_le_t. exact Hi.
    + assert (i = S M) by lia. subst i. rewrite sc_kv1_hi. lra.
Qed.

Lemma sc_kv2_len : length kv2 = S (p + (n + r - m)).
Proof.
  destruct sc_k as [Hk _]. fold s in Hs.
  unfold kv2. rewrite app_length, repeat_length, skipn_length, sc_lenU'. unfold M, m, r. lia.
Qed.

Lemma sc_kv2_nth i : nth i kv2 0 = if Nat.leb i p then t else knR U' (i + m).
Proof.
  unfold kv2. destruct (Nat.leb_spec i p).
  - rewrite app_nth1 by (rewrite repeat_length; lia). apply nth_repeat_lt. lia.
  - rewrite app_nth2 by (rewrite repeat_length; lia). rewrite repeat_length, nth_skipn_add. unfold kn. f_equal.
    rewrite sc_Mm. lia.
Qed.

Lemma sc_kv2_sorted : forall i j, (i <= j < length kv2)%nat -> nth i kv2 0 <= nth j kv2 0.
Proof.
  destruct sc_k as [Hk _]. fold s in Hs.
  intros i j Hij. rewrite sc_kv2_len in Hij. rewrite !sc_kv2_nth.
  assert (HLj : (j + m < length U')%nat) by (rewrite sc_lenU'; unfold m, r in *; lia).
  destruct (Nat.leb_spec i p) as [Hi|Hi]; destruct (Nat.leb_spec j p) as [Hj|Hj]; try lra; try lia.
  - assert (t < knR U' (j + m)) by (apply sc_gt_t; [rewrite sc_Mm; lia|exact HLj]). lra.
  - apply sc_U'sorted. lia.
Qed.

Lemma sc_not_end : at_domain_end Rops p U t = false.
Proof.
  destruct (at_domain_end Rops p U t) eqn:E; [|reflexivity]. exfalso.
  apply at_domain_end_spec in E. destruct E as [E|E]; [lra|].
  rewrite HlenU in E. replace (n + p + 1 - S p)%nat with n in E by lia. lra.
Qed.

Lemma sc_kv1_first : nth 0 kv1 0 = a0.
Proof.
  rewrite sc_kv1_lo by lia. rewrite sc_U'nth. destruct (Nat.leb_spec 0 k); [reflexivity|lia].
Qed.

Lemma sc_kv1_last d : last kv1 d = t.
Proof. unfold kv1. apply last_last. Qed.

Lemma sc_kv2_first : nth 0 kv2 0 = t.
Proof. rewrite sc_kv2_nth. reflexivity. Qed.

Lemma sc_kv2_last d : last kv2 d = b0.
Proof.
  destruct sc_k as [Hk _]. fold s in Hs.
  rewrite last_nth_gen. rewrite (nth_indep kv2 d 0) by (rewrite sc_kv2_len; lia).
  rewrite sc_kv2_nth, sc_kv2_len.
  destruct (Nat.leb_spec (S (p + (n + r - m)) - 1) p) as [H|H]; [unfold m, r in H; lia|].
  rewrite sc_U'nth.
  destruct (Nat.leb_spec (S (p + (n + r - m)) - 1 + m) k) as [H1|H1]; [unfold m, r in *; lia|].
  destruct (Nat.leb_spec (S (p + (n + r - m)) - 1 + m) (k + r)) as [H2|H2]; [unfold m, r in *; lia|].
  unfold b0. f_equal. unfold m, r in *. lia.
Qed.

Lemma sc_a0_lt : a0 < t.
Proof. assert (a0 <= knR U p) by (apply Usorted; lia). lra. Qed.

Lemma sc_b0_gt : t < b0.
Proof. assert (knR U n <= b0) by (apply Usorted; lia). lra. Qed.

Let K1 := map (fun x => (x - a0) / (t - a0)) kv1.
Let K2 := map (fun x => (x - t) / (b0 - t)) kv2.

Lemma sc_kv1_ne : kv1 <> [].
Proof. intro E. apply (f_equal (@length R)) in E. rewrite sc_kv1_len in E. discriminate. Qed.
Lemma sc_kv2_ne : kv2 <> [].
Proof. intro E. apply (f_equal (@length R)) in E. rewrite sc_kv2_len in E. discriminate. Qed.

Lemma sc_setkv1 : set_kv Rops p kv1 (m + 1) = Ok K1.
Proof.
  rewrite (set_kv_sorted p kv1 (m + 1) ltac:(rewrite sc_kv1_len, sc_Mm; lia) sc_kv1_sorted).
  rewrite (normalize_nonempty kv1 sc_kv1_ne), sc_kv1_first, sc_kv1_last. reflexivity.
Qed.

Lemma sc_setkv2 : set_kv Rops p kv2 (n + r - m) = Ok K2.
Proof.
  rewrite (set_kv_sorted p kv2 (n + r - m) ltac:(rewrite sc_kv2_len; lia) sc_kv2_sorted).
  rewrite (normalize_nonempty kv2 sc_kv2_ne), sc_kv2_first, sc_kv2_last. reflexivity.
Qed.

(* ---- the knot lists as total functions ---- *)
Lemma sc_U_ne : U <> [].
Proof. intro E. rewrite E in HlenU. cbn in HlenU. lia. Qed.

Lemma sc_lastU' : last U' 0 = b0.
Proof.
  destruct sc_k as [Hk _]. unfold U'. rewrite last_kv by lia. rewrite (last_nth U 0 sc_U_ne), HlenU.
  unfold b0, kn. f_equal. lia.
Qed.

Lemma sc_fU'_le j : (j <= M)%nat -> Ufun U' j <= t.
Proof. intros Hj. rewrite Ufun_in by (pose proof sc_Mlt; lia). apply sc_le_t. exact Hj. Qed.

Lemma sc_fU'_run j : (m < j <= M)%nat -> Ufun U' j = t.
Proof. intros Hj. rewrite Ufun_in by (pose proof sc_Mlt; lia). apply sc_run. exact Hj. Qed.

Lemma sc_fU'_ge j : (m < j)%nat -> t <= Ufun U' j.
Proof.
  intros Hj. destruct (le_lt_dec j M) as [H|H]; [rewrite sc_fU'_run by lia; lra|].
  assert (H1 : Ufun U' (S M) <= Ufun U' j) by (apply Ufun_mono; [exact sc_U'sorted|lia]).
  rewrite (Ufun_in U' (S M)) in H1 by exact sc_Mlt. pose proof sc_afterM. lra.
Qed.

Lemma sc_fkv1 j : Ufun kv1 j = if Nat.leb j M then Ufun U' j else t.
Proof.
  pose proof sc_Mlt as HM. unfold Ufun at 1. rewrite sc_kv1_last. destruct (Nat.leb_spec j M) as [H|H].
  - unfold kv1. rewrite app_nth1 by (rewrite sc_fn_len; lia). rewrite nth_firstn_lt by lia.
    unfold Ufun. apply nth_indep. lia.
  - destruct (Nat.eq_dec j (S M)) as [E|E].
    + subst j. unfold kv1. rewrite app_nth2 by (rewrite sc_fn_len; lia). rewrite sc_fn_len, Nat.sub_diag. reflexivity.
    + apply nth_overflow. rewrite sc_kv1_len. lia.
Qed.

Lemma sc_fkv2 j : Ufun kv2 j = if Nat.leb j p then t else Ufun U' (j + m).
Proof.
  unfold Ufun at 1. rewrite sc_kv2_last. destruct (Nat.leb_spec j p) as [H|H].
  - unfold kv2. rewrite app_nth1 by (rewrite repeat_length; lia). apply nth_repeat_lt. lia.
  - unfold kv2. rewrite app_nth2 by (rewrite repeat_length; lia). rewrite repeat_length, nth_skipn_add.
    unfold Ufun. rewrite sc_lastU'. f_equal. rewrite sc_Mm. lia.
Qed.

Lemma sc_fU'_sorted : forall i, Ufun U' i <= Ufun U' (S i).
Proof. apply Ufun_sorted. exact sc_U'sorted. Qed.
Lemma sc_fkv1_sorted : forall i, Ufun kv1 i <= Ufun kv1 (S i).
Proof. apply Ufun_sorted. apply sortedR_of_nth. exact sc_kv1_sorted. Qed.
Lemma sc_fkv2_sorted : forall i, Ufun kv2 i <= Ufun kv2 (S i).
Proof. apply Ufun_sorted. apply sortedR_of_nth. exact sc_kv2_sorted. Qed.

(* ---- entries of the normalised knot vectors in terms of the original knots ---- *)
Lemma sc_K1_len : length K1 = S (S M).
Proof. unfold K1. rewrite map_length. exact sc_kv1_len. Qed.

Lemma sc_K2_len : length K2 = S (p + (n + r - m)).
Proof. unfold K2. rewrite map_length. exact sc_kv2_len. Qed.

Lemma sc_K1_nth i : (i <= S M)%nat -> knR K1 i = ((if Nat.leb i k then knR U i else t) - a0) / (t - a0).
Proof.
  intros Hi. unfold kn, K1. set (f := fun x : R => (x - a0) / (t - a0)).
  rewrite (nth_indep (map f kv1) (o0 Rops) (f 0)) by (rewrite map_length, sc_kv1_len; lia).
  rewrite map_nth. unfold f. f_equal. f_equal.
  destruct (Nat.le_gt_cases i M) as [H|H].
  - rewrite sc_kv1_lo by exact H. rewrite sc_U'nth. destruct (Nat.leb_spec i k); [reflexivity|].
    destruct (Nat.leb_spec i (k + r)); [reflexivity|unfold M in H; lia].
  - assert (i = S M) by lia. subst i. rewrite sc_kv1_hi. destruct (Nat.leb_spec (S M) k); [unfold M in *; lia|reflexivity].
Qed.

Lemma sc_K2_nth i : (i < S (p + (n + r - m)))%nat ->
  knR K2 i = ((if Nat.leb i p then t else knR U (i + k - p)) - t) / (b0 - t).
Proof.
  intros Hi. destruct sc_k as [Hk _]. fold s in Hs. unfold kn, K2. set (f := fun x : R => (x - t) / (b0 - t)).
  rewrite (nth_indep (map f kv2) (o0 Rops) (f 0)) by (rewrite map_length, sc_kv2_len; lia).
  rewrite map_nth. unfold f. f_equal. f_equal. rewrite sc_kv2_nth.
  destruct (Nat.leb_spec i p); [reflexivity|]. rewrite sc_U'nth.
  destruct (Nat.leb_spec (i + m) k); [unfold m in *; lia|].
  destruct (Nat.leb_spec (i + m) (k + r)); [unfold m, r in *; lia|].
  unfold kn. f_equal. unfold m, r. lia.
Qed.

Section Net.
Variable P : list (list R).
Hypothesis HPn : length P = n.
Let P' := knot_insertion Rops p U P t r s k.
Let P1 := firstn (m + 1) P'.
Let P2 := skipn m P'.

Lemma sc_tc : insert_knot_curve Rops tol false (mkC p U P) [Some t] [Z.of_nat r] = (mkC p U' P', false).
Proof.
  destruct sc_k as [Hk _]. fold s in Hs.
  unfold insert_knot_curve. cbn [andb]. unfold parat, numat. cbn [nth]. rewrite Nat2Z.id.
  unfold dir_prep. cbn [c_p c_U c_P]. rewrite HPn. destruct (Nat.eqb_spec r 0) as [E|E].
  - unfold U', P'. rewrite E, kv_zero, ki_zero by lia. reflexivity.
  - cbn [andb]. reflexivity.
Qed.

Lemma sc_lenP' : length P' = (n + r)%nat.
Proof.
  destruct sc_k as [Hk _]. fold s in Hs.
  destruct (knot_insertion_frame Rops p U P t r s k) as [HL _]; try (rewrite ?HPn; unfold r; lia). unfold P'. rewrite HL, HPn. reflexivity.
Qed.

Lemma sc_P1_len : length P1 = (m + 1)%nat.
Proof. destruct sc_k as [Hk _]. unfold P1. rewrite firstn_length, sc_lenP'. unfold m. lia. Qed.

Lemma sc_P2_len : length P2 = (n + r - m)%nat.
Proof. unfold P2. rewrite skipn_length, sc_lenP'. reflexivity. Qed.

(* [G] the split is not rejected and returns these two pieces *)
Theorem split_curve_result : split_curve Rops tol (mkC p U P) t = Ok (mkC p K1 P1, mkC p K2 P2).
Proof.
  destruct sc_k as [Hk _]. fold s in Hs.
  unfold split_curve. cbn [c_p c_U c_P]. rewrite sc_not_end. cbv zeta. unfold split_ks. rewrite HPn. fold k. fold s. fold r.
  rewrite sc_tc. cbn [fst c_U c_P]. unfold split_knots. rewrite sc_lenP', sc_span'. cbn [fst snd].
  fold kv1 kv2.
  replace (k - p + 1 + r)%nat with (m + 1)%nat by (unfold m, r; lia).
  replace (m + 1 - 1)%nat with m by lia. fold P1 P2.
  rewrite sc_P1_len, sc_setkv1. cbn [res_bind]. rewrite sc_P2_len, sc_setkv2. cbn [res_bind].
  reflexivity.
Qed.

Section Dim.
Variable dim : nat.
Hypothesis Hdim : forall i, (i < n)%nat -> length (getp P i) = dim.

Lemma sc_pres cc x : (cc < dim)%nat -> curve_pt p U' P' cc x = curve_pt p U P cc x.
Proof.
  intros Hc. destruct sc_k as [Hk Hk1]. fold s in Hs.
  unfold U', P'. apply (insertN_model_preserves_curve p U P t s k dim); rewrite ?HPn; auto; try lia; try exact sc_s; try (unfold r; lia).
Qed.


(* ---- the left piece ---- *)
Lemma sc_left cc x : (cc < dim)%nat -> x < t ->
  curve_pt p K1 P1 cc ((x - a0) / (t - a0)) = curve_pt p U P cc x.
Proof.
  intros Hc Hx. destruct sc_k as [Hk _]. rewrite <- (sc_pres cc x Hc). unfold curve_pt. rewrite sc_P1_len, sc_lenP'.
  rewrite (curve_left_piece (Ufun U') (Ufun kv1) sc_fU'_sorted sc_fkv1_sorted m p (n + r) t (coord cc P') x).
  - apply sumf_ext. intros i Hi. unfold K1. rewrite (N_normalized kv1 a0 t) by (exact sc_kv1_ne || exact sc_a0_lt).
    f_equal. unfold coord, P1, getp. rewrite nth_firstn_lt by lia. reflexivity.
  - intros j Hj. rewrite sc_fkv1. destruct (Nat.leb_spec j M); [reflexivity|rewrite sc_Mm in *; lia].
  - exact sc_fU'_ge.
  - intros j Hj. rewrite sc_fkv1. destruct (Nat.leb_spec j M); [apply sc_fU'_ge; exact Hj|lra].
  - unfold m. lia.
  - exact Hx.
Qed.

(* ---- the right piece: its knots, re-indexed from m, continued to the left by the refined knots ---- *)
Let W (i : nat) : R := if Nat.ltb i m then Ufun U' i else Ufun kv2 (i - m).

Lemma sc_W_sorted : forall i, W i <= W (S i).
Proof.
  intros i. unfold W. destruct (Nat.ltb_spec i m); destruct (Nat.ltb_spec (S i) m); try lia.
  - apply sc_fU'_sorted.
  - replace (S i - m)%nat with 0%nat by lia. rewrite sc_fkv2. cbn [Nat.leb]. apply sc_fU'_le. rewrite sc_Mm. lia.
  - replace (S i - m)%nat with (S (i - m)) by lia. apply sc_fkv2_sorted.
Qed.

Lemma sc_right cc x : (cc < dim)%nat -> t <= x ->
  curve_pt p K2 P2 cc ((x - t) / (b0 - t)) = curve_pt p U P cc x.
Proof.
  intros Hc Hx. destruct sc_k as [Hk _]. rewrite <- (sc_pres cc x Hc). unfold curve_pt. rewrite sc_P2_len, sc_lenP'.
  rewrite (curve_right_piece (Ufun U') W sc_fU'_sorted sc_W_sorted m p (n + r) t (coord cc P') x).
  - apply sumf_ext. intros j Hj. unfold K2. rewrite (N_normalized kv2 t b0) by (exact sc_kv2_ne || exact sc_b0_gt).
    rewrite (N_ext_fun (Ufun kv2) (fun i => W (i + m)%nat)).
    2:{ intros i. unfold W. destruct (Nat.ltb_spec (i + m) m); [lia|]. f_equal. lia. }
    rewrite N_shift_idx. replace (j + m)%nat with (m + j)%nat by lia. f_equal.
    unfold coord, P2, getp. rewrite nth_skipn_add. reflexivity.
  - intros j Hj. unfold W. destruct (Nat.ltb_spec j m); [lia|]. rewrite sc_fkv2.
    destruct (Nat.leb_spec (j - m) p); [apply sc_fU'_run; rewrite sc_Mm; lia|f_equal; lia].
  - intros j Hj. apply sc_fU'_le. rewrite sc_Mm. exact Hj.
  - intros j Hj. unfold W. destruct (Nat.ltb_spec j m); [apply sc_fU'_le; rewrite sc_Mm; lia|].
    rewrite sc_fkv2. destruct (Nat.leb_spec (j - m) p); [lra|lia].
  - unfold m. lia.
  - exact Hx.
Qed.
End Dim.
End Net.
End SplitAt.

(* ---------------------------------------------------------------- the pieces, named *)
Definition split_left (tol : R) (c : @curve R) (t : R) : @curve R :=
  let p := c_p c in let U := c_U c in let P := c_P c in
  let k := find_span_linear Rops p U (length P) t in
  let s := find_multiplicity Rops tol t U in
  let r := (p - s)%nat in
  mkC p (map (fun x => (x - knR U 0) / (t - knR U 0)) (firstn (S (k + r)) (knot_insertion_kv U t k r) ++ [t]))
        (firstn (k - s + 1) (knot_insertion Rops p U P t r s k)).

Definition split_right (tol : R) (c : @curve R) (t : R) : @curve R :=
  let p := c_p c in let U := c_U c in let P := c_P c in
  let k := find_span_linear Rops p U (length P) t in
  let s := find_multiplicity Rops tol t U in
  let r := (p - s)%nat in
  mkC p (map (fun x => (x - t) / (knR U (length P + p) - t)) (repeat t (S p) ++ skipn (S (k + r)) (knot_insertion_kv U t k r)))
        (skipn (k - s) (knot_insertion Rops p U P t r s k)).

(* the hypotheses under which a split is analysed: sorted knot vector of the right length, t strictly inside the domain,
   a tolerance that does not confuse t with another knot, multiplicity of t at most the degree, points of one dimension *)
Definition split_geom_hyps (tol : R) (c : @curve R) (t : R) : Prop :=
  sortedR (c_U c) /\ (c_p c < length (c_P c))%nat /\ length (c_U c) = (length (c_P c) + c_p c + 1)%nat /\
  knR (c_U c) (c_p c) < t < knR (c_U c) (length (c_P c)) /\
  (forall i, (i < length (c_U c))%nat -> Rabs (t - knR (c_U c) i) <= tol -> knR (c_U c) i = t) /\
  (find_multiplicity Rops tol t (c_U c) <= c_p c)%nat.
Definition split_ok_hyps (tol : R) (c : @curve R) (t : R) (dim : nat) : Prop :=
  split_geom_hyps tol c t /\ (forall i, (i < length (c_P c))%nat -> length (getp (c_P c) i) = dim).

(* [G] an interior split is never rejected *)
Theorem split_curve_succeeds tol c t : split_geom_hyps tol c t ->
  split_curve Rops tol c t = Ok (split_left tol c t, split_right tol c t).
Proof.
  destruct c as [p U P]. intros (H1 & H2 & H3 & H4 & H5 & H6). cbn [c_p c_U c_P] in *.
  unfold split_left, split_right. cbn [c_p c_U c_P].
  apply (split_curve_result tol p U (length P) t); try assumption. reflexivity.
Qed.

(* shape of the two pieces in terms of the original knots: k = span of t, s = its multiplicity *)
Theorem split_left_shape tol c t : split_geom_hyps tol c t ->
  let p := c_p c in let U := c_U c in
  let k := find_span_linear Rops p U (length (c_P c)) t in
  let s := find_multiplicity Rops tol t U in
  c_p (split_left tol c t) = p /\ length (c_P (split_left tol c t)) = (k - s + 1)%nat /\
  length (c_U (split_left tol c t)) = S (S (k + (p - s))) /\
  forall i, (i <= S (k + (p - s)))%nat ->
    knR (c_U (split_left tol c t)) i = ((if Nat.leb i k then knR U i else t) - knR U 0) / (t - knR U 0).
Proof.
  destruct c as [p U P]. intros (H1 & H2 & H3 & H4 & H5 & H6). cbn [c_p c_U c_P] in *. cbv zeta.
  split; [reflexivity|]. split; [|split].
  - apply (sc_P1_len tol p U (length P) t); try assumption. reflexivity.
  - apply (sc_K1_len tol p U (length P) t); assumption.
  - apply (sc_K1_nth tol p U (length P) t); assumption.
Qed.

Theorem split_right_shape tol c t : split_geom_hyps tol c t ->
  let p := c_p c in let U := c_U c in let n := length (c_P c) in
  let k := find_span_linear Rops p U n t in
  c_p (split_right tol c t) = p /\ length (c_P (split_right tol c t)) = (n + p - k)%nat /\
  length (c_U (split_right tol c t)) = S (p + (n + p - k)) /\
  forall i, (i < S (p + (n + p - k)))%nat ->
    knR (c_U (split_right tol c t)) i = ((if Nat.leb i p then t else knR U (i + k - p)) - t) / (knR U (n + p) - t).
Proof.
  destruct c as [p U P]. intros (H1 & H2 & H3 & H4 & H5 & H6). cbn [c_p c_U c_P] in *. cbv zeta.
  assert (Hk : (p <= find_span_linear Rops p U (length P) t < length P)%nat) by (apply (sc_k tol p U (length P) t); assumption).
  assert (E : (length P + (p - find_multiplicity Rops tol t U) -
               (find_span_linear Rops p U (length P) t - find_multiplicity Rops tol t U))%nat
              = (length P + p - find_span_linear Rops p U (length P) t)%nat) by lia.
  split; [reflexivity|]. split; [|split].
  - rewrite <- E. apply (sc_P2_len tol p U (length P) t); try assumption. reflexivity.
  - rewrite <- E. apply (sc_K2_len tol p U (length P) t); assumption.
  - rewrite <- E. apply (sc_K2_nth tol p U (length P) t); assumption.
Qed.

(* [G] split_pieces_coincide: both pieces reproduce the original under the affine maps of their normalised knot vectors:
   left piece: parameter (x - U_0)/(t - U_0) for every x < t; right piece: (x - t)/(U_last - t) for every x >= t *)
Theorem split_pieces_coincide tol c t dim : split_ok_hyps tol c t dim ->
  exists c1 c2, split_curve Rops tol c t = Ok (c1, c2) /\ c_p c1 = c_p c /\ c_p c2 = c_p c /\
    (forall cc x, (cc < dim)%nat -> x < t ->
       curve_pt (c_p c1) (c_U c1) (c_P c1) cc ((x - knR (c_U c) 0) / (t - knR (c_U c) 0)) = curve_pt (c_p c) (c_U c) (c_P c) cc x) /\
    (forall cc x, (cc < dim)%nat -> t <= x ->
       curve_pt (c_p c2) (c_U c2) (c_P c2) cc ((x - t) / (knR (c_U c) (length (c_U c) - 1) - t)) = curve_pt (c_p c) (c_U c) (c_P c) cc x).
Proof.
  intros H. pose proof H as ((H1 & H2 & H3 & H4 & H5 & H6) & H7).
  exists (split_left tol c t), (split_right tol c t).
  split; [apply (split_curve_succeeds tol c t (proj1 H))|]. split; [reflexivity|]. split; [reflexivity|].
  destruct c as [p U P]. cbn [c_p c_U c_P] in *. split.
  - intros cc x Hc Hx. unfold split_left. cbn [c_p c_U c_P].
    apply (sc_left tol p U (length P) t) with (dim := dim); try assumption. reflexivity.
  - intros cc x Hc Hx. replace (length U - 1)%nat with (length P + p)%nat by lia.
    unfold split_right. cbn [c_p c_U c_P].
    apply (sc_right tol p U (length P) t) with (dim := dim); try assumption. reflexivity.
Qed.

(* the same for whatever split_curve returned *)
Corollary split_pieces_coincide_of_ok tol c t dim c1 c2 : split_ok_hyps tol c t dim ->
  split_curve Rops tol c t = Ok (c1, c2) ->
  (forall cc x, (cc < dim)%nat -> x < t ->
     curve_pt (c_p c1) (c_U c1) (c_P c1) cc ((x - knR (c_U c) 0) / (t - knR (c_U c) 0)) = curve_pt (c_p c) (c_U c) (c_P c) cc x) /\
  (forall cc x, (cc < dim)%nat -> t <= x ->
     curve_pt (c_p c2) (c_U c2) (c_P c2) cc ((x - t) / (knR (c_U c) (length (c_U c) - 1) - t)) = curve_pt (c_p c) (c_U c) (c_P c) cc x).
Proof.
  intros H E. destruct (split_pieces_coincide tol c t dim H) as (d1 & d2 & E' & _ & _ & HL & HR).
  rewrite E in E'. inversion E'. subst d1 d2. split; assumption.
Qed.

(* clamped curves, in the pieces' own parameters: the left piece at sigma in [0,1) is the original at
   U_p + sigma (t - U_p), the right piece at sigma in [0,1] is the original at t + sigma (U_n - t) *)
Corollary split_pieces_coincide_clamped tol c t dim : split_ok_hyps tol c t dim ->
  knR (c_U c) 0 = knR (c_U c) (c_p c) -> knR (c_U c) (length (c_U c) - 1) = knR (c_U c) (length (c_P c)) ->
  exists c1 c2, split_curve Rops tol c t = Ok (c1, c2) /\
    (forall cc sigma, (cc < dim)%nat -> sigma < 1 ->
       curve_pt (c_p c1) (c_U c1) (c_P c1) cc sigma =
       curve_pt (c_p c) (c_U c) (c_P c) cc (knR (c_U c) (c_p c) + sigma * (t - knR (c_U c) (c_p c)))) /\
    (forall cc sigma, (cc < dim)%nat -> 0 <= sigma ->
       curve_pt (c_p c2) (c_U c2) (c_P c2) cc sigma =
       curve_pt (c_p c) (c_U c) (c_P c) cc (t + sigma * (knR (c_U c) (length (c_P c)) - t))).
Proof.
  intros H Ea Eb. pose proof H as ((_ & _ & _ & H4 & _) & _).
  destruct (split_pieces_coincide tol c t dim H) as (c1 & c2 & E & _ & _ & HL & HR).
  exists c1, c2. split; [exact E|]. rewrite Ea in HL. rewrite Eb in HR.
  set (a := knR (c_U c) (c_p c)) in *. set (b := knR (c_U c) (length (c_P c))) in *. split.
  - intros cc sigma Hc Hs. rewrite <- (HL cc (a + sigma * (t - a)) Hc).
    + f_equal. field. lra.
    + assert (0 < (1 - sigma) * (t - a)) by (apply Rmult_lt_0_compat; lra). lra.
  - intros cc sigma Hc Hs. rewrite <- (HR cc (t + sigma * (b - t)) Hc).
    + f_equal. field. lra.
    + assert (0 <= sigma * (b - t)) by (apply Rmult_le_pos; lra). lra.
Qed.

Print Assumptions split_curve_succeeds.
Print Assumptions split_pieces_coincide.
Print Assumptions split_pieces_coincide_clamped.
