(* Lemmas about Model.KnotRefine: density bisection, closed form of A5.4 for one inserted knot,
   untouched directions of operations.refine_knotvector. *)
From Coq Require Import List Arith Bool Lia.
From NV Require Import Scalar.Ops Model.Common Model.Basis Model.KnotIns Model.InsertKnot Model.KnotRefine
  Proofs.KnotInsR.
Import ListNotations.

Lemma fold_left_ext_in {A B} (f g : A -> B -> A) : forall l a,
  (forall a b, In b l -> f a b = g a b) -> fold_left f l a = fold_left g l a.
Proof.
  induction l as [|b l IH]; intros a H; cbn; auto.
  rewrite H by (left; reflexivity). apply IH. intros; apply H; right; assumption.
Qed.

(* in-place scan with an index offset: position i + c is replaced using positions i + c and i + c + 1 *)
Definition scan_step_off {A} (dA : A) (c : nat) (h : nat -> A -> A -> A) (tp : list A) (i : nat) : list A :=
  upd tp (i + c) (h i (nth (i + c) tp dA) (nth (S (i + c)) tp dA)).

Lemma scan_off_length {A} (dA : A) c h : forall is_ tp, length (fold_left (scan_step_off dA c h) is_ tp) = length tp.
Proof. induction is_ as [|i is_ IH]; intros tp; cbn; auto. rewrite IH. apply upd_length. Qed.

Lemma scan_off_nth {A} (dA : A) c h : forall n a tp0 m, a + n + c <= length tp0 ->
  nth m (fold_left (scan_step_off dA c h) (seq a n) tp0) dA =
  if andb (Nat.leb (a + c) m) (Nat.ltb m (a + n + c)) then h (m - c) (nth m tp0 dA) (nth (S m) tp0 dA) else nth m tp0 dA.
Proof.
  induction n as [|n IH]; intros a tp0 m Hn.
  - cbn [seq fold_left]. destruct (Nat.leb_spec (a + c) m); destruct (Nat.ltb_spec m (a + 0 + c)); cbn [andb]; auto; lia.
  - rewrite seq_S_end, fold_left_app. cbn [fold_left]. unfold scan_step_off at 1.
    rewrite nth_upd, scan_off_length. rewrite !IH by lia.
    destruct (Nat.leb_spec (a + c) (a + n + c)); try lia.
    destruct (Nat.ltb_spec (a + n + c) (a + n + c)); try lia.
    destruct (Nat.leb_spec (a + c) (S (a + n + c))); try lia.
    destruct (Nat.ltb_spec (S (a + n + c)) (a + n + c)); try lia. cbn [andb].
    destruct (Nat.eqb_spec m (a + n + c)) as [->|Hne]; cbn [andb].
    + destruct (Nat.ltb_spec (a + n + c) (length tp0)); try lia.
      destruct (Nat.ltb_spec (a + n + c) (a + S n + c)); try lia. cbn [andb].
      replace (a + n + c - c) with (a + n) by lia.
      destruct (Nat.leb_spec (a + c) (a + n + c)); try lia. reflexivity.
    + destruct (Nat.leb_spec (a + c) m); destruct (Nat.ltb_spec m (a + n + c)); destruct (Nat.ltb_spec m (a + S n + c));
      cbn [andb]; auto; lia.
Qed.

(* ---------- A5.4 with a single knot to insert (X = [x]) ---------- *)
Section One.
Context {T : Type} (K : ops T) {A : Type} (lerpA : T -> A -> A -> A) (dA : A).
Variables (tol : T) (p : nat) (U : list T) (P : list A) (x : T).
Notation getA := (getA dA).
Notation kn := (kn K).
Let n := length P - 1.
Let a := find_span_linear K p U (S n) x.
Hypothesis Hp : 1 <= p.
Hypothesis Hpa : p <= a.
Hypothesis HaP : a < length P.
Hypothesis HlenU : length U = length P + p + 1.
(* the decisions of the loops: every knot right of the span is >= x (shift), and none of them is within tol (lerp) *)
Hypothesis Hshift : forall i, a < i <= a + p -> oleb K x (kn U i) = true.
Hypothesis Htol : forall l, 1 <= l <= p -> oltb K (oabs K (osub K (kn U (a + l)) x)) tol = false.

(* the shift loop, c steps *)
Fixpoint nwf (c : nat) (nw : list A) : list A :=
  match c with O => nw | S c' => nwf c' (upd nw (a + 1 + S c' - p - 1) (getA P (a + S c' - p - 1))) end.
Fixpoint kvf (c : nat) (kv : list T) : list T :=
  match c with O => kv | S c' => kvf c' (upd kv (a + 1 + S c') (kn U (a + S c'))) end.

Lemma refine_shift_run : forall c fuel nw kv, c <= fuel -> c <= p ->
  refine_shift K dA fuel p U P x a (nw, kv, a + c, a + 1 + c) = (nwf c nw, kvf c kv, a, a + 1).
Proof.
  induction c as [|c IH]; intros fuel nw kv Hf Hc.
  - rewrite !Nat.add_0_r. destruct fuel; cbn [refine_shift nwf kvf]; auto.
    destruct (Nat.ltb_spec a a); try lia. rewrite Bool.andb_false_r. reflexivity.
  - destruct fuel as [|fuel]; [lia|]. cbn [refine_shift nwf kvf].
    rewrite Hshift by lia. destruct (Nat.ltb_spec a (a + S c)); try lia. cbn [andb].
    replace (Nat.pred (a + S c)) with (a + c) by lia. replace (Nat.pred (a + 1 + S c)) with (a + 1 + c) by lia.
    rewrite IH by lia. reflexivity.
Qed.

Lemma nwf_length : forall c nw, length (nwf c nw) = length nw.
Proof. induction c; intros; cbn; auto. rewrite IHc, upd_length. reflexivity. Qed.
Lemma kvf_length : forall c kv, length (kvf c kv) = length kv.
Proof. induction c; intros; cbn; auto. rewrite IHc, upd_length. reflexivity. Qed.

Lemma nwf_nth : forall c nw idx, c <= p -> a + 1 <= length nw ->
  nth idx (nwf c nw) dA = if andb (Nat.leb (a + 1 - p) idx) (Nat.leb idx (a - p + c)) then (if Nat.eqb c 0 then nth idx nw dA else getA P (idx - 1)) else nth idx nw dA.
Proof.
  induction c as [|c IH]; intros nw idx Hc HL.
  - cbn [nwf Nat.eqb]. destruct (andb _ _); reflexivity.
  - cbn [nwf Nat.eqb]. rewrite IH by (rewrite ?upd_length; lia).
    rewrite nth_upd.
    destruct (Nat.leb_spec (a + 1 - p) idx); destruct (Nat.leb_spec idx (a - p + c)); destruct (Nat.leb_spec idx (a - p + S c));
    cbn [andb]; try lia.
    + destruct (Nat.eqb_spec c 0) as [E|Hc0]; [lia|]. reflexivity.
    + destruct (Nat.eqb_spec idx (a + 1 + S c - p - 1)); try lia.
      destruct (Nat.ltb_spec (a + 1 + S c - p - 1) (length nw)); try lia. cbn [andb]. f_equal. lia.
    + destruct (Nat.eqb_spec idx (a + 1 + S c - p - 1)); try lia. reflexivity.
    + destruct (Nat.eqb_spec idx (a + 1 + S c - p - 1)); try lia. reflexivity.
Qed.

Lemma kvf_nth : forall c kv idx d, a + 1 + c < length kv ->
  nth idx (kvf c kv) d = if andb (Nat.leb (a + 2) idx) (Nat.leb idx (a + 1 + c)) then nth (idx - 1) U (o0 K) else nth idx kv d.
Proof.
  induction c as [|c IH]; intros kv idx d HL.
  - cbn [kvf]. destruct (Nat.leb_spec (a + 2) idx); destruct (Nat.leb_spec idx (a + 1 + 0)); cbn [andb]; auto; lia.
  - cbn [kvf]. rewrite IH by (rewrite upd_length; lia). rewrite nth_upd.
    destruct (Nat.leb_spec (a + 2) idx); destruct (Nat.leb_spec idx (a + 1 + c)); destruct (Nat.leb_spec idx (a + 1 + S c));
    cbn [andb]; try lia; auto.
    + destruct (Nat.eqb_spec idx (a + 1 + S c)); try lia.
      destruct (Nat.ltb_spec (a + 1 + S c) (length kv)); try lia. cbn [andb]. unfold Common.kn. f_equal. lia.
    + destruct (Nat.eqb_spec idx (a + 1 + S c)); try lia. reflexivity.
    + destruct (Nat.eqb_spec idx (a + 1 + S c)); try lia. reflexivity.
Qed.

(* Boehm-type coefficient of A5.4 for the new point m (window a-p < m <= a) *)
Definition ref_alpha (m : nat) : T := odiv K (osub K (kn U (m + p)) x) (osub K (kn U (m + p)) (kn U m)).

Theorem refine_one_closed :
  let '(Q, V) := refine_g K lerpA dA tol p U P [x] in
  V = knot_insertion_kv U x a 1 /\ length Q = S (length P) /\
  forall m, getA Q m = if Nat.leb m (a - p) then getA P m
                       else if Nat.leb m a then lerpA (ref_alpha m) (getA P m) (getA P (m - 1))
                       else getA P (m - 1).
Proof.
  unfold refine_g. cbn [length rev app fold_left]. change (1 - 1) with 0. cbn [nth].
  fold n. fold a.
  replace (S a - 1) with a by lia.
  set (m_ := n + p + 1).
  set (new0 := repeat dA (n + 0 + 2)).
  set (new1 := fold_left (fun nw j => upd nw j (getA P j)) (seq 0 (S (a - p))) new0).
  rewrite (fold_left_ext (fun nw j => upd nw (j + 0 + 1) (getA P j)) (fun nw j => upd nw (j + 1) (getA P j)))
    by (intros; rewrite Nat.add_0_r; reflexivity).
  set (new2 := fold_left (fun nw j => upd nw (j + 1) (getA P j)) (seq a (S n - a)) new1).
  set (kv0 := repeat (o0 K) (m_ + 0 + 2)).
  set (kv1 := fold_left (fun kv j => upd kv j (kn U j)) (seq 0 (S a)) kv0).
  rewrite (fold_left_ext (fun kv j => upd kv (j + 0 + 1) (kn U j)) (fun kv j => upd kv (j + 1) (kn U j)))
    by (intros; rewrite Nat.add_0_r; reflexivity).
  set (kv2 := fold_left (fun kv j => upd kv (j + 1) (kn U j)) (seq (S a + p) (S m_ - (S a + p))) kv1).
  replace (S a + p - 1) with (a + p) by lia. replace (S a + p + 0) with (a + 1 + p) by lia.
  assert (HnP : S n = length P) by (unfold n; lia).
  rewrite (refine_shift_run p (S (length U)) new2 kv2) by lia.
  assert (Hl2 : length new2 = S (length P)).
  { unfold new2, new1, new0. rewrite !fold_upd_length, repeat_length. lia. }
  assert (Hk2 : length kv2 = S (length U)).
  { unfold kv2, kv1, kv0. rewrite !fold_upd_length, repeat_length. unfold m_. lia. }
  (* contents after the initial copies *)
  assert (Hn2 : forall idx, nth idx new2 dA = if Nat.leb idx (a - p) then getA P idx else if Nat.leb (a + 1) idx then getA P (idx - 1) else dA).
  { intros idx. unfold new2. rewrite nth_fold_upd_shift. unfold new1. rewrite fold_upd_length, nth_fold_upd_copy.
    unfold new0. rewrite repeat_length.
    destruct (Nat.leb_spec (a + 1) idx); destruct (Nat.leb_spec idx (a - p)); try lia; cbn [andb].
    - destruct (Nat.ltb_spec idx (a + (S n - a) + 1)); destruct (Nat.ltb_spec idx (n + 0 + 2)); cbn [andb]; try lia.
      + reflexivity.
      + unfold InsertKnot.getA. rewrite (@nth_overflow _ P (idx - 1)) by lia.
        destruct (Nat.leb_spec 0 idx); destruct (Nat.ltb_spec idx (0 + S (a - p))); cbn [andb]; try lia.
        rewrite nth_repeat. reflexivity.
    - destruct (Nat.leb_spec 0 idx); destruct (Nat.ltb_spec idx (0 + S (a - p))); destruct (Nat.ltb_spec idx (n + 0 + 2)); cbn [andb]; try lia.
      reflexivity.
    - destruct (Nat.leb_spec 0 idx); destruct (Nat.ltb_spec idx (0 + S (a - p))); cbn [andb]; try lia.
      rewrite nth_repeat. reflexivity. }
  set (nwS := nwf p new2). set (kvS := kvf p kv2).
  assert (HnS : forall idx, nth idx nwS dA = if Nat.leb idx (a - p) then getA P idx else getA P (idx - 1)).
  { intros idx. unfold nwS. rewrite nwf_nth by lia. rewrite Hn2.
    destruct (Nat.eqb_spec p 0); try lia.
    destruct (Nat.leb_spec (a + 1 - p) idx); destruct (Nat.leb_spec idx (a - p + p)); destruct (Nat.leb_spec idx (a - p));
    destruct (Nat.leb_spec (a + 1) idx); cbn [andb]; try lia; auto. }
  assert (HkS : forall idx, nth idx kvS (o0 K) = if Nat.leb idx a then kn U idx else if Nat.leb (a + 2) idx then kn U (idx - 1) else o0 K).
  { intros idx. unfold kvS. rewrite kvf_nth by lia.
    destruct (Nat.leb_spec (a + 2) idx); destruct (Nat.leb_spec idx (a + 1 + p)); destruct (Nat.leb_spec idx a); cbn [andb]; try lia; auto.
    - unfold kv2. rewrite nth_fold_upd_shift. unfold kv1. rewrite fold_upd_length. unfold kv0. rewrite repeat_length.
      destruct (Nat.leb_spec (S a + p + 1) idx); try lia.
      destruct (Nat.ltb_spec idx (S a + p + (S m_ - (S a + p)) + 1)); destruct (Nat.ltb_spec idx (m_ + 0 + 2)); cbn [andb]; try lia.
      + reflexivity.
      + unfold Common.kn. rewrite (nth_overflow U) by (unfold m_ in *; lia).
        rewrite nth_fold_upd_copy. rewrite repeat_length.
        destruct (Nat.ltb_spec idx (m_ + 0 + 2)); try lia. rewrite Bool.andb_false_r. apply nth_repeat.
    - unfold kv2. rewrite nth_fold_upd_shift. unfold kv1. rewrite fold_upd_length, nth_fold_upd_copy. unfold kv0. rewrite repeat_length.
      destruct (Nat.leb_spec (S a + p + 1) idx); try lia. cbn [andb].
      destruct (Nat.leb_spec 0 idx); destruct (Nat.ltb_spec idx (0 + S a)); destruct (Nat.ltb_spec idx (m_ + 0 + 2)); cbn [andb]; try lia; auto.
    - unfold kv2. rewrite nth_fold_upd_shift. unfold kv1. rewrite fold_upd_length, nth_fold_upd_copy. unfold kv0. rewrite repeat_length.
      destruct (Nat.leb_spec (S a + p + 1) idx); try lia. cbn [andb].
      destruct (Nat.leb_spec 0 idx); destruct (Nat.ltb_spec idx (0 + S a)); cbn [andb]; try lia.
      apply nth_repeat. }
  replace (a + 1 - p - 1) with (a - p) by lia.
  set (nw1 := upd nwS (a - p) (getA nwS (a + 1 - p))).
  (* the lerp loop: always the division branch, an in-place scan with offset a - p *)
  assert (Htol_kv : forall l, 1 <= l <= p -> oltb K (oabs K (osub K (kn kvS (a + 1 + l)) x)) tol = false).
  { intros l Hl. unfold Common.kn at 1. rewrite HkS.
    destruct (Nat.leb_spec (a + 1 + l) a); try lia. destruct (Nat.leb_spec (a + 2) (a + 1 + l)); try lia.
    replace (a + 1 + l - 1) with (a + l) by lia. apply Htol. exact Hl. }
  rewrite (fold_left_ext_in _ (scan_step_off dA (a - p) (fun l y z => lerpA (odiv K (osub K (kn kvS (a + 1 + l)) x)
              (osub K (kn kvS (a + 1 + l)) (kn U (a - p + l)))) z y))).
  2:{ intros nw l Hl. apply in_seq in Hl. cbv zeta. rewrite Htol_kv by lia.
      unfold scan_step_off, InsertKnot.getA.
      replace (a + 1 - p + l - 1) with (l + (a - p)) by lia. replace (a + 1 - p + l) with (S (l + (a - p))) by lia.
      reflexivity. }
  split; [|split].
  - (* knot vector *)
    apply (nth_ext _ _ (o0 K) (o0 K)).
    + rewrite upd_length. unfold kvS. rewrite kvf_length, Hk2, kv_length. lia.
    + intros idx Hidx. rewrite upd_length in Hidx. unfold kvS in Hidx. rewrite kvf_length, Hk2 in Hidx.
      rewrite nth_upd. unfold kvS at 1. rewrite kvf_length, Hk2.
      rewrite kv_nth by lia.
      destruct (Nat.eqb_spec idx (a + 1)) as [->|Hne]; cbn [andb].
      * destruct (Nat.ltb_spec (a + 1) (S (length U))); try lia.
        destruct (Nat.leb_spec (a + 1) a); try lia. destruct (Nat.leb_spec (a + 1) (a + 1)); try lia. reflexivity.
      * rewrite HkS. destruct (Nat.leb_spec idx a); [reflexivity|].
        destruct (Nat.leb_spec idx (a + 1)); try lia. destruct (Nat.leb_spec (a + 2) idx); try lia. reflexivity.
  - rewrite scan_off_length. unfold nw1. rewrite upd_length. unfold nwS. rewrite nwf_length. exact Hl2.
  - intros m. unfold InsertKnot.getA at 1.
    rewrite scan_off_nth by (unfold nw1; rewrite upd_length; unfold nwS; rewrite nwf_length, Hl2; lia).
    assert (Hnw1 : forall idx, nth idx nw1 dA = nth idx nwS dA).
    { intros idx. unfold nw1. rewrite nth_upd. destruct (Nat.eqb_spec idx (a - p)) as [->|]; cbn [andb]; auto.
      destruct (Nat.ltb_spec (a - p) (length nwS)); auto.
      unfold InsertKnot.getA. rewrite !HnS. destruct (Nat.leb_spec (a - p) (a - p)); try lia.
      destruct (Nat.leb_spec (a + 1 - p) (a - p)); try lia. f_equal. lia. }
    rewrite !Hnw1, !HnS.
    destruct (Nat.leb_spec (1 + (a - p)) m); destruct (Nat.ltb_spec m (1 + p + (a - p))); cbn [andb].
    + destruct (Nat.leb_spec m (a - p)); try lia. destruct (Nat.leb_spec m a); try lia.
      destruct (Nat.leb_spec (S m) (a - p)); try lia.
      unfold ref_alpha. unfold Common.kn at 1 2. rewrite !HkS.
      destruct (Nat.leb_spec (a + 1 + (m - (a - p))) a); try lia.
      destruct (Nat.leb_spec (a + 2) (a + 1 + (m - (a - p)))); try lia.
      replace (a + 1 + (m - (a - p)) - 1) with (m + p) by lia.
      replace (a - p + (m - (a - p))) with m by lia. replace (S m - 1) with m by lia. reflexivity.
    + destruct (Nat.leb_spec m (a - p)); try lia. destruct (Nat.leb_spec m a); try lia. reflexivity.
    + destruct (Nat.leb_spec m (a - p)); try lia. reflexivity.
    + lia.
Qed.
End One.

(* ---------- density bisection: structure of one step (any scalar type) ---------- *)
Section Bisect.
Context {T : Type} (K : ops T).
Definition mid (x y : T) : T := oadd K x (odiv K (osub K y x) (o2 K)).

Lemma bisect_length (l : list T) : l <> [] -> length (bisect K l) = 2 * length l - 1.
Proof.
  induction l as [|x r IH]; intros H; [congruence|].
  destruct r as [|y r']; [reflexivity|].
  change (bisect K (x :: y :: r')) with (x :: mid x y :: bisect K (y :: r')).
  cbn [length]. rewrite IH by congruence. cbn [length]. lia.
Qed.

Lemma bisect_nth_even (l : list T) d : forall i, i < length l -> nth (2 * i) (bisect K l) d = nth i l d.
Proof.
  induction l as [|x r IH]; intros i Hi; [cbn in Hi; lia|].
  destruct r as [|y r'].
  - cbn in Hi. assert (i = 0) by lia. subst. reflexivity.
  - change (bisect K (x :: y :: r')) with (x :: mid x y :: bisect K (y :: r')).
    destruct i as [|i]; [reflexivity|].
    replace (2 * S i) with (S (S (2 * i))) by lia. cbn [nth]. apply IH. cbn [length] in *. lia.
Qed.

Lemma bisect_nth_odd (l : list T) d : forall i, S i < length l ->
  nth (2 * i + 1) (bisect K l) d = mid (nth i l d) (nth (S i) l d).
Proof.
  induction l as [|x r IH]; intros i Hi; [cbn in Hi; lia|].
  destruct r as [|y r']; [cbn in Hi; lia|].
  change (bisect K (x :: y :: r')) with (x :: mid x y :: bisect K (y :: r')).
  destruct i as [|i]; [reflexivity|].
  replace (2 * S i + 1) with (S (S (2 * i + 1))) by lia. cbn [nth]. apply IH. cbn [length] in *. lia.
Qed.
End Bisect.

(* ---------- operations.refine_knotvector: directions with density 0 are untouched, degrees never change ---------- *)
Section Untouched.
Context {T : Type} (K : ops T).

Lemma refine_surf_u_frame tol g d : let g' := fst (refine_surf_u K tol g d) in
  s_pu g' = s_pu g /\ s_pv g' = s_pv g /\ s_Uv g' = s_Uv g /\ s_sv g' = s_sv g.
Proof.
  unfold refine_surf_u. destruct (refine_plan K tol true (s_pu g) (s_Uu g) None [] d) as [X| |]; cbn; auto.
  destruct (refine_pts K tol (s_pu g) (s_Uu g) _ X) as [Q0 V]. cbn. auto.
Qed.
Lemma refine_surf_v_frame tol g d : let g' := fst (refine_surf_v K tol g d) in
  s_pu g' = s_pu g /\ s_pv g' = s_pv g /\ s_Uu g' = s_Uu g /\ s_su g' = s_su g.
Proof.
  unfold refine_surf_v. destruct (refine_plan K tol true (s_pv g) (s_Uv g) None [] d) as [X| |]; cbn; auto.
  destruct (refine_pts K tol (s_pv g) (s_Uv g) _ X) as [Q0 V]. cbn. auto.
Qed.

Theorem refine_surf_untouched tol check g params : let g' := fst (refine_surf K tol check g params) in
  s_pu g' = s_pu g /\ s_pv g' = s_pv g /\
  (dens params 0 = 0 -> s_Uu g' = s_Uu g /\ s_su g' = s_su g) /\
  (dens params 1 = 0 -> s_Uv g' = s_Uv g /\ s_sv g' = s_sv g) /\
  (dens params 0 = 0 -> dens params 1 = 0 -> g' = g).
Proof.
  unfold refine_surf. destruct (andb check _); [cbn; auto 10|].
  destruct (Nat.eqb_spec (dens params 0) 0) as [E0|E0].
  - cbn [fst snd]. destruct (Nat.eqb_spec (dens params 1) 0) as [E1|E1]; [cbn; auto 10|].
    pose proof (refine_surf_v_frame tol g (dens params 1)) as H. cbv zeta in H.
    destruct (refine_surf_v K tol g (dens params 1)) as [g2 r2]. cbn [fst] in *.
    destruct H as [H1 [H2 [H3 H4]]]. repeat split; auto; try lia; intros; lia.
  - pose proof (refine_surf_u_frame tol g (dens params 0)) as H. cbv zeta in H.
    destruct (refine_surf_u K tol g (dens params 0)) as [g1 r1]. cbn [fst] in *.
    destruct H as [H1 [H2 [H3 H4]]].
    destruct r1; [cbn; repeat split; auto; intros; lia|].
    destruct (Nat.eqb_spec (dens params 1) 0) as [E1|E1]; [cbn; repeat split; auto; intros; lia|].
    pose proof (refine_surf_v_frame tol g1 (dens params 1)) as H'. cbv zeta in H'.
    destruct (refine_surf_v K tol g1 (dens params 1)) as [g2 r2]. cbn [fst] in *.
    destruct H' as [H1' [H2' [H3' H4']]]. repeat split; try congruence; intros; lia.
Qed.

Theorem refine_curve_untouched tol check c params : let c' := fst (refine_curve K tol check c params) in
  c_p c' = c_p c /\ (dens params 0 = 0 -> c' = c).
Proof.
  unfold refine_curve. destruct (andb check _); [cbn; auto|].
  destruct (Nat.eqb_spec (dens params 0) 0) as [E0|E0]; [cbn; auto|].
  destruct (refine_plan K tol true (c_p c) (c_U c) None [] (dens params 0)) as [X| |]; cbn; try (split; [auto|intros; lia]).
  destruct (refine_pts K tol (c_p c) (c_U c) (c_P c) X) as [Q V]. cbn. reflexivity.
Qed.

Lemma refine_vol_u_frame tol g d : let g' := fst (refine_vol_u K tol g d) in
  v_pu g' = v_pu g /\ v_pv g' = v_pv g /\ v_pw g' = v_pw g /\ v_Uv g' = v_Uv g /\ v_sv g' = v_sv g /\ v_Uw g' = v_Uw g /\ v_sw g' = v_sw g.
Proof.
  unfold refine_vol_u. destruct (refine_plan K tol true (v_pu g) (v_Uu g) None [] d) as [X| |]; cbn; auto 10.
  destruct (refine_rows K tol (v_pu g) (v_Uu g) _ X) as [Q0 V]. cbn. auto 10.
Qed.
Lemma refine_vol_v_frame tol g d : let g' := fst (refine_vol_v K tol g d) in
  v_pu g' = v_pu g /\ v_pv g' = v_pv g /\ v_pw g' = v_pw g /\ v_Uu g' = v_Uu g /\ v_su g' = v_su g /\ v_Uw g' = v_Uw g /\ v_sw g' = v_sw g.
Proof.
  unfold refine_vol_v. destruct (refine_plan K tol true (v_pv g) (v_Uv g) None [] d) as [X| |]; cbn; auto 10.
  destruct (refine_rows K tol (v_pv g) (v_Uv g) _ X) as [Q0 V]. cbn. auto 10.
Qed.
Lemma refine_vol_w_frame tol g d : let g' := fst (refine_vol_w K tol g d) in
  v_pu g' = v_pu g /\ v_pv g' = v_pv g /\ v_pw g' = v_pw g /\ v_Uu g' = v_Uu g /\ v_su g' = v_su g /\ v_Uv g' = v_Uv g /\ v_sv g' = v_sv g.
Proof.
  unfold refine_vol_w. destruct (refine_plan K tol true (v_pw g) (v_Uw g) None [] d) as [X| |]; cbn; auto 10.
  destruct (refine_rows K tol (v_pw g) (v_Uw g) _ X) as [Q0 V]. cbn. auto 10.
Qed.

(* one optional direction step, as used by refine_vol *)
Definition opt_step (f : vol (T:=T) -> nat -> vol * bool) (g : vol) (d : nat) : vol * bool :=
  if Nat.eqb d 0 then (g, false) else f g d.

Theorem refine_vol_untouched tol check g params : let g' := fst (refine_vol K tol check g params) in
  v_pu g' = v_pu g /\ v_pv g' = v_pv g /\ v_pw g' = v_pw g /\
  (dens params 0 = 0 -> v_Uu g' = v_Uu g /\ v_su g' = v_su g) /\
  (dens params 1 = 0 -> v_Uv g' = v_Uv g /\ v_sv g' = v_sv g) /\
  (dens params 2 = 0 -> v_Uw g' = v_Uw g /\ v_sw g' = v_sw g).
Proof.
  unfold refine_vol. destruct (andb check _); [cbn; auto 10|].
  (* u *)
  assert (Hu : let g1 := fst (if Nat.eqb (dens params 0) 0 then (g, false) else refine_vol_u K tol g (dens params 0)) in
               v_pu g1 = v_pu g /\ v_pv g1 = v_pv g /\ v_pw g1 = v_pw g /\ v_Uv g1 = v_Uv g /\ v_sv g1 = v_sv g /\ v_Uw g1 = v_Uw g /\ v_sw g1 = v_sw g /\
               (dens params 0 = 0 -> v_Uu g1 = v_Uu g /\ v_su g1 = v_su g)).
  { destruct (Nat.eqb_spec (dens params 0) 0); [cbn; auto 12|].
    pose proof (refine_vol_u_frame tol g (dens params 0)) as H. cbv zeta in *. intuition; lia. }
  destruct (if Nat.eqb (dens params 0) 0 then (g, false) else refine_vol_u K tol g (dens params 0)) as [g1 r1].
  cbv zeta in Hu. cbn [fst] in Hu. destruct Hu as [A1 [A2 [A3 [A4 [A5 [A6 [A7 A8]]]]]]].
  destruct r1.
  { cbn [fst]. repeat split; try congruence;
    repeat match goal with Hd : dens params _ = 0 |- _ => try (pose proof (A8 Hd) as [? ?]); clear Hd end; congruence. }
  assert (Hv : let g2 := fst (if Nat.eqb (dens params 1) 0 then (g1, false) else refine_vol_v K tol g1 (dens params 1)) in
               v_pu g2 = v_pu g1 /\ v_pv g2 = v_pv g1 /\ v_pw g2 = v_pw g1 /\ v_Uu g2 = v_Uu g1 /\ v_su g2 = v_su g1 /\ v_Uw g2 = v_Uw g1 /\ v_sw g2 = v_sw g1 /\
               (dens params 1 = 0 -> v_Uv g2 = v_Uv g1 /\ v_sv g2 = v_sv g1)).
  { destruct (Nat.eqb_spec (dens params 1) 0); [cbn; auto 12|].
    pose proof (refine_vol_v_frame tol g1 (dens params 1)) as H. cbv zeta in *. intuition; lia. }
  destruct (if Nat.eqb (dens params 1) 0 then (g1, false) else refine_vol_v K tol g1 (dens params 1)) as [g2 r2].
  cbv zeta in Hv. cbn [fst] in Hv. destruct Hv as [B1 [B2 [B3 [B4 [B5 [B6 [B7 B8]]]]]]].
  destruct r2.
  { cbn [fst]. repeat split; try congruence;
    repeat match goal with Hd : dens params _ = 0 |- _ =>
      try (pose proof (A8 Hd) as [? ?]); try (pose proof (B8 Hd) as [? ?]); clear Hd end; congruence. }
  assert (Hw : let g3 := fst (if Nat.eqb (dens params 2) 0 then (g2, false) else refine_vol_w K tol g2 (dens params 2)) in
               v_pu g3 = v_pu g2 /\ v_pv g3 = v_pv g2 /\ v_pw g3 = v_pw g2 /\ v_Uu g3 = v_Uu g2 /\ v_su g3 = v_su g2 /\ v_Uv g3 = v_Uv g2 /\ v_sv g3 = v_sv g2 /\
               (dens params 2 = 0 -> v_Uw g3 = v_Uw g2 /\ v_sw g3 = v_sw g2)).
  { destruct (Nat.eqb_spec (dens params 2) 0); [cbn; auto 12|].
    pose proof (refine_vol_w_frame tol g2 (dens params 2)) as H. cbv zeta in *. intuition; lia. }
  destruct (if Nat.eqb (dens params 2) 0 then (g2, false) else refine_vol_w K tol g2 (dens params 2)) as [g3 r3].
  cbv zeta in Hw. cbn [fst] in Hw. destruct Hw as [C1 [C2 [C3 [C4 [C5 [C6 [C7 C8]]]]]]].
  cbn [fst]. repeat split; try congruence;
  repeat match goal with Hd : dens params _ = 0 |- _ =>
    try (pose proof (A8 Hd) as [? ?]); try (pose proof (B8 Hd) as [? ?]); try (pose proof (C8 Hd) as [? ?]); clear Hd end; congruence.
Qed.

(* density 0 is rejected by the helper (check_num), as is a refinement with nothing to insert *)
Lemma refine_plan_density0 tol p U kl add : refine_plan K tol true p U kl add 0 = Rejected.
Proof. reflexivity. Qed.
End Untouched.
