(* C11, surfaces: global surface interpolation (A9.4) from the chords, with NO hypothesis on spans or pivots.
   Combines Proofs/FitSurfMore.v (analysis of the averaged surface parameters) with Proofs/CollocationLU.v. *)
From Coq Require Import List Reals Lra Lia Arith Bool.
From NV Require Import Scalar.Ops Model.Common Model.Basis Model.Knots Model.Eval Model.LinAlg Model.Fit
  Proofs.LinAlgSums Proofs.LinAlgR Proofs.LinAlgSolve Proofs.FitR Proofs.FitSurfR Proofs.FitSurfMore
  Proofs.CollocationLU Proofs.CollocationLUMore Proofs.ApproxLU.
Import ListNotations.
Open Scope R_scope.

(* [G] THE C11 surface property: a su x sv grid of data points whose rows and columns have strictly positive chords
   (distinct consecutive points; chord-length or centripetal), degrees 1 <= pu < su, 1 <= pv < sv:
   interpolate_surface returns a surface and it passes through every data point at its parameter pair *)
Theorem interpolate_surface_interpolates_from_chords :
  forall (pts : list (list R)) (su sv pu pv dim : nat) (cdsU cdsV : list (list R)),
  (1 <= pu < su)%nat -> (1 <= pv < sv)%nat -> rect (su * sv) dim pts -> cdsU <> [] -> cdsV <> [] ->
  (forall cds, In cds cdsU -> length cds = (su - 1)%nat /\ forall x, In x cds -> 0 < x) ->
  (forall cds, In cds cdsV -> length cds = (sv - 1)%nat /\ forall x, In x cds -> 0 < x) ->
  exists uk vl P, compute_params_surface Rops su sv cdsU cdsV = Ok (uk, vl) /\
    let kvu := compute_knot_vector Rops pu su uk in let kvv := compute_knot_vector Rops pv sv vl in
    interpolate_surface Rops pts su sv pu pv cdsU cdsV = Ok (P, kvu, kvv) /\ length P = (su * sv)%nat /\
    increasing_params su uk /\ increasing_params sv vl /\
    forall u v d, (u < su)%nat -> (v < sv)%nat -> (d < dim)%nat ->
      nth d (surface_point Rops dim pu pv kvu kvv su sv P (nth u uk 0) (nth v vl 0)) 0 = g2 pts (v + sv * u) d.
Proof.
  intros pts su sv pu pv dim cdsU cdsV Hpu Hpv Hpts HneU HneV HU HV.
  assert (OkC : forall n cds, (2 <= n)%nat -> length cds = (n - 1)%nat -> (forall x, In x cds -> 0 < x) -> chords_ok n cds).
  { intros n cds Hn L P. split; [exact L|]. split; [intros x Hx; left; apply P, Hx|].
    apply sumT_pos; [|exact P]. intros E. rewrite E in L. cbn in L. lia. }
  destruct (params_surface_spec su sv cdsU cdsV ltac:(lia) ltac:(lia) HneU HneV) as (uk & vl & Epar & SU & SV & StU & StV).
  { intros cds Hc. destruct (HU cds Hc). apply OkC; [lia|assumption|assumption]. }
  { intros cds Hc. destruct (HV cds Hc). apply OkC; [lia|assumption|assumption]. }
  assert (Iu : increasing_params su uk).
  { destruct SU as (L & P0 & P1 & _). split; [exact L|]. split; [exact P0|]. split; [exact P1|].
    apply StU. intros cds Hc. apply (HU cds Hc). }
  assert (Iv : increasing_params sv vl).
  { destruct SV as (L & P0 & P1 & _). split; [exact L|]. split; [exact P0|]. split; [exact P1|].
    apply StV. intros cds Hc. apply (HV cds Hc). }
  destruct (interpolate_surface_interpolates pts su sv pu pv dim cdsU cdsV uk vl Hpu Hpv Hpts Epar Iu Iv) as (P & EP & LP & HP).
  exists uk, vl, P. split; [exact Epar|]. cbv zeta. split; [exact EP|]. split; [exact LP|]. split; [exact Iu|]. split; [exact Iv|exact HP].
Qed.
Print Assumptions interpolate_surface_interpolates_from_chords.

(* [G] C11, least-squares surfaces: positive chords, degrees >= 1, control point counts p + 2 <= c <= (data points) - 1 in both
   directions: approximate_surface returns, the four corner control points are the four corner data points and the surface
   passes through the corner data.  No hypothesis on the pivots of the normal equations. *)
Theorem approximate_surface_corners_unconditional :
  forall (pts : list (list R)) (su sv pu pv cu cv dim : nat) (cdsU cdsV : list (list R)),
  (1 <= pu)%nat -> (pu + 2 <= cu)%nat -> (cu < su)%nat -> (1 <= pv)%nat -> (pv + 2 <= cv)%nat -> (cv < sv)%nat ->
  rect (su * sv) dim pts -> cdsU <> [] -> cdsV <> [] ->
  (forall cds, In cds cdsU -> length cds = (su - 1)%nat /\ forall x, In x cds -> 0 < x) ->
  (forall cds, In cds cdsV -> length cds = (sv - 1)%nat /\ forall x, In x cds -> 0 < x) ->
  exists uk vl P, compute_params_surface Rops su sv cdsU cdsV = Ok (uk, vl) /\
    let kvu := compute_knot_vector2 Rops pu su cu uk in let kvv := compute_knot_vector2 Rops pv sv cv vl in
    approximate_surface Rops pts su sv pu pv cu cv cdsU cdsV = Ok (P, kvu, kvv) /\ length P = (cu * cv)%nat /\
    nth 0 P [] = nth 0 pts [] /\
    nth (cv - 1) P [] = nth (sv - 1) pts [] /\
    nth (cv * (cu - 1)) P [] = nth (sv * (su - 1)) pts [] /\
    nth (cv - 1 + cv * (cu - 1)) P [] = nth (sv - 1 + sv * (su - 1)) pts [] /\
    forall d, (d < dim)%nat ->
      nth d (surface_point Rops dim pu pv kvu kvv cu cv P 0 0) 0 = g2 pts 0 d /\
      nth d (surface_point Rops dim pu pv kvu kvv cu cv P 0 1) 0 = g2 pts (sv - 1) d /\
      nth d (surface_point Rops dim pu pv kvu kvv cu cv P 1 0) 0 = g2 pts (sv * (su - 1)) d /\
      nth d (surface_point Rops dim pu pv kvu kvv cu cv P 1 1) 0 = g2 pts (sv - 1 + sv * (su - 1)) d.
Proof.
  intros pts su sv pu pv cu cv dim cdsU cdsV Hpu Hcu Hsu Hpv Hcv Hsv Hpts HneU HneV HU HV.
  apply approximate_surface_from_chords; try assumption; try lia.
  intros uk vl Epar.
  destruct (params_surface_spec su sv cdsU cdsV ltac:(lia) ltac:(lia) HneU HneV) as (uk' & vl' & Epar' & SU & SV & StU & StV).
  { intros cds Hc. destruct (HU cds Hc). apply pos_chords_ok; [lia|assumption|assumption]. }
  { intros cds Hc. destruct (HV cds Hc). apply pos_chords_ok; [lia|assumption|assumption]. }
  rewrite Epar in Epar'. injection Epar' as <- <-.
  specialize (StU ltac:(intros cds Hc; apply (HU cds Hc))). specialize (StV ltac:(intros cds Hc; apply (HV cds Hc))).
  destruct SU as (LU & U0 & U1 & _). destruct SV as (LV & V0 & V1 & _).
  cbv zeta. split; intros i Hi; apply approx_normal_pivots_nonzero; assumption.
Qed.
Print Assumptions approximate_surface_corners_unconditional.
