(* Tie: generated helpers.basis_function_ders_one (A2.5) = Model/Basis.v basis_function_ders_one, every scalar instance.
   The Python code keeps the triangular table N[j][k] in one (p+1) x (p+1) matrix; the model keeps the list of its
   columns.  colOf N c reads column c of the matrix; the loops are in lock step under "cols = the finished columns". *)
From Coq Require Import List ZArith Arith Bool Lia QArith.
From NV Require Import Scalar.Ops Model.Common Model.Basis Gen.Prelude Gen.Helpers Proofs.GenTieLib Proofs.GenTieBasisOne.
Import ListNotations.
Local Open Scope nat_scope.

Section Tie.
Context {T : Type} (K : ops T).
Notation kn := (kn K).
Notation "0" := (o0 K).

Definition wfmat (p : nat) (N : list (list T)) : Prop := length N = S p /\ forall j, j <= p -> length (nth j N []) = S p.
Definition colOf (p : nat) (N : list (list T)) (c : nat) : list T := map (fun j => nth c (nth j N []) 0) (seq O (S p)).

Lemma colOf_nth p N c j : j <= p -> nth j (colOf p N c) 0 = nth c (nth j N []) 0.
Proof. intros H. unfold colOf. rewrite nth_map_seq by lia. reflexivity. Qed.

Lemma colOf_length p N c : length (colOf p N c) = S p.
Proof. unfold colOf. now rewrite map_length, seq_length. Qed.

Lemma wfmat_set2 p N j c v : wfmat p N -> wfmat p (upd N j (upd (nth j N []) c v)).
Proof.
  intros [H1 H2]. split; [now rewrite upd_length|].
  intros j' Hj'. rewrite nth_upd. destruct (Nat.eqb_spec j j') as [->|Hne]; auto.
  destruct (Nat.ltb_spec j' (length N)); [|lia]. rewrite upd_length. auto.
Qed.

Lemma colOf_set2_same p N j c v : wfmat p N -> j <= p -> c <= p ->
  colOf p (upd N j (upd (nth j N []) c v)) c = upd (colOf p N c) j v.
Proof.
  intros [H1 H2] Hj Hc. apply nth_ext with (d := 0) (d' := 0).
  - now rewrite upd_length, !colOf_length.
  - intros i Hi. rewrite colOf_length in Hi. rewrite colOf_nth by lia.
    rewrite nth_nth_upd2, nth_upd, colOf_length.
    destruct (Nat.eqb_spec j i) as [->|Hne]; cbn [andb].
    + rewrite Nat.eqb_refl. rewrite H2 by lia.
      destruct (Nat.ltb_spec i (length N)); [|lia]. destruct (Nat.ltb_spec c (S p)); [|lia].
      destruct (Nat.ltb_spec i (S p)); [|lia]. reflexivity.
    + rewrite colOf_nth by lia. reflexivity.
Qed.

Lemma colOf_set2_other p N j c c' v : c <> c' -> colOf p (upd N j (upd (nth j N []) c v)) c' = colOf p N c'.
Proof.
  intros Hne. unfold colOf. apply map_ext. intros i. rewrite nth_nth_upd2.
  destruct (Nat.eqb_spec c c'); [lia|]. now rewrite andb_false_r.
Qed.

Lemma upd_same {A} (l : list A) i d : upd l i (nth i l d) = l.
Proof.
  revert i; induction l; intros [|i]; simpl; auto. now rewrite IHl.
Qed.

Definition mk0 (p : nat) : list (list T) := repeat (repeat 0 (S p)) (S p).

Lemma mk0_nth p j c : nth c (nth j (mk0 p) []) 0 = 0.
Proof.
  unfold mk0. destruct (Nat.lt_ge_cases j (S p)).
  - rewrite nth_repeat_lt by lia. destruct (Nat.lt_ge_cases c (S p)).
    + now apply nth_repeat_lt.
    + apply nth_overflow. rewrite repeat_length. lia.
  - rewrite (nth_overflow (repeat (repeat 0 (S p)) (S p))) by (rewrite repeat_length; lia). now destruct c.
Qed.

Lemma mk0_wf p : wfmat p (mk0 p).
Proof.
  unfold mk0. split; [apply repeat_length|]. intros j Hj. rewrite nth_repeat_lt by lia. apply repeat_length.
Qed.

(* the relation between a table of the generated code and a (k+2)-entry buffer of the model: they agree on 0..k *)
Definition RelND (k : nat) (G M : list T) : Prop :=
  length G = S k /\ length M = S (S k) /\ forall i, i <= k -> nth i G 0 = nth i M 0.

Lemma RelND_upd k G M j x : RelND k G M -> j <= k -> RelND k (upd G j x) (upd M j x).
Proof.
  intros (H1 & H2 & H3) Hj. unfold RelND. rewrite !upd_length. repeat split; auto.
  intros i Hi. destruct (Nat.eq_dec j i) as [->|Hne].
  - rewrite !nth_upd_same by lia. reflexivity.
  - rewrite !nth_upd_other by auto. auto.
Qed.

(* wf: span + degree + 1 < len(knot_vector) and order <= degree (for order > degree the index degree - k is negative
   and wraps around) *)
Theorem basis_function_ders_one_tie (p : nat) (U : list T) (sp : nat) (u : T) (order : nat) :
  sp + p + 1 < length U -> order <= p ->
  Helpers.basis_function_ders_one K (Z.of_nat p) U (Z.of_nat sp) u (Z.of_nat order) =
  GOk (Basis.basis_function_ders_one K p U sp u order).
Proof.
  intros Hl Ho. unfold Helpers.basis_function_ders_one, Basis.basis_function_ders_one.
  replace (Z.of_nat order + 1)%Z with (Z.of_nat (S order)) by lia.
  replace (Z.of_nat p + 1)%Z with (Z.of_nat (S p)) by lia.
  rewrite !map_const_zrange, !Nat2Z.id, !zrange_0_nat, !zrange_1_nat.
  (* knot < knot_vector[span] or knot >= knot_vector[span + degree + 1] *)
  rewrite (znth_Z U _ 0) by lia. cbn [gbind]. rewrite Nat2Z.id. fold (kn U sp).
  match goal with |- gbind ?A _ = _ =>
    assert (EA : A = GOk (orb (oltb K u (kn U sp)) (oleb K (kn U (S (sp + p))) u))) end.
  { destruct (oltb K u (kn U sp)); auto.
    rewrite (znth_Z U _ 0) by lia. cbn [gbind orb].
    replace (Z.to_nat (Z.of_nat sp + Z.of_nat p + 1)) with (S (sp + p)) by lia. reflexivity. }
  rewrite (gbind_eq _ _ _ EA). clear EA.
  destruct (orb _ _).
  { (* outside: ders[k] = 0.0 for all k *)
    match goal with |- context [gfor (map Z.of_nat (seq O (S order))) ?ff ?s0] =>
      destruct (gfor_seq_inv (fun (_ : nat) (d : list T) => d = repeat 0 (S order)) ff (S order) O) with (s := s0) as (d & Ed & ->)
    end; auto.
    - intros k d Hk ->. cbn [gbind]. rewrite zset_Z by (rewrite repeat_length; lia). cbn [gbind]. rewrite Nat2Z.id.
      eexists. split; [reflexivity|].
      rewrite <- (nth_repeat_lt 0 0 (S order) k) at 2 by lia. apply upd_same.
    - rewrite Ed. reflexivity. }
  cbv zeta. fold (mk0 p).
  remember (ders_one_cols K p U sp u) as cols eqn:Ecols. unfold ders_one_cols in Ecols.
  (* the degree-0 column *)
  set (col0 := map (fun j => if in_half_open K (kn U (sp + j)) (kn U (S (sp + j))) u then o1 K else 0) (seq O (S p))).
  match goal with |- context [gfor (map Z.of_nat (seq O (S p))) ?ff (mk0 p)] =>
    destruct (gfor_seq_inv (fun j N => wfmat p N /\ (forall i, i < j -> nth O (nth i N []) 0 = ind K U sp u i)
                                       /\ (forall i c, (j <= i \/ 1 <= c) -> nth c (nth i N []) 0 = 0)) ff (S p) O)
      with (s := mk0 p) as (N1 & E1 & W1 & Hind & Hz)
  end.
  { intros j N Hj (HW & Hlo & Hhi). pose proof HW as [HW1 HW2]. cbn [gbind].
    rewrite (znth_Z U _ 0) by lia. cbn [gbind].
    replace (Z.to_nat (Z.of_nat sp + Z.of_nat j)) with (sp + j) by lia. fold (kn U (sp + j)).
    match goal with |- context [gbind ?A _] =>
      assert (EA : A = GOk (in_half_open K (kn U (sp + j)) (kn U (S (sp + j))) u)) end.
    { unfold in_half_open. destruct (oleb K (kn U (sp + j)) u); auto.
      rewrite (znth_Z U _ 0) by lia. cbn [gbind andb].
      replace (Z.to_nat (Z.of_nat sp + Z.of_nat j + 1)) with (S (sp + j)) by lia. reflexivity. }
    rewrite (gbind_eq _ _ _ EA). clear EA.
    pose proof (eq_refl (ind K U sp u j)) as Ei. unfold ind at 2 in Ei.
    destruct (in_half_open K (kn U (sp + j)) (kn U (S (sp + j))) u).
    - rewrite (znth_Z N _ []) by lia. cbn [gbind]. rewrite Nat2Z.id.
      rewrite zset_Z by (rewrite HW2; lia). cbn [gbind]. rewrite zset_Z by lia. cbn [gbind].
      rewrite Nat2Z.id. change (Z.to_nat 0) with O.
      eexists. split; [reflexivity|]. split; [now apply wfmat_set2|]. split.
      + intros i Hi. rewrite nth_nth_upd2. destruct (Nat.eqb_spec j i) as [->|Hne]; cbn [andb Nat.eqb].
        * rewrite HW2 by lia. destruct (Nat.ltb_spec i (length N)); [|lia].
          destruct (Nat.ltb_spec O (S p)); [|lia]. cbn [andb]. auto.
        * apply Hlo. lia.
      + intros i c Hic. rewrite nth_nth_upd2. destruct (Nat.eqb_spec j i) as [->|Hne]; cbn [andb].
        * destruct (Nat.eqb_spec O c) as [<-|Hc]; [lia|]. apply Hhi. lia.
        * apply Hhi. lia.
    - cbn [gbind]. eexists. split; [reflexivity|]. split; auto. split.
      + intros i Hi. destruct (Nat.eq_dec i j) as [->|Hne].
        * rewrite Hhi by lia. auto.
        * apply Hlo. lia.
      + intros i c Hic. apply Hhi. lia. }
  { split; [apply mk0_wf|]. split; [intros i Hi; lia|]. intros i c _. apply mk0_nth. }
  rewrite E1. cbn [gbind]. clear E1.
  assert (C0 : col0 = colOf p N1 O).
  { unfold col0, colOf. apply map_ext_in. intros j Hj. apply in_seq in Hj. rewrite Hind by lia. reflexivity. }
  (* the triangular table, column by column *)
  fold col0 in Ecols.
  match goal with |- context [gfor (map Z.of_nat (seq 1 p)) ?ff N1] =>
    match type of Ecols with context [fold_left ?gg (seq 1 p) ?s0'] =>
      destruct (gfor_seq_fold (fun k (N : list (list T)) (st : list (list T) * list T) =>
                    wfmat p N /\ fst st = map (colOf p N) (seq O k) /\ snd st = colOf p N (k - 1)
                    /\ (forall i c, k <= c -> nth c (nth i N []) 0 = 0)) ff gg p 1)
        with (s := N1) (s' := s0') as (N2 & E2 & W2 & Hc2 & _ & _)
    end
  end.
  { intros k N [cls prev] Hk (HW & Hcols & Hprev & Hzero). simpl in Hcols, Hprev. subst cls prev.
    pose proof HW as [HW1 HW2]. cbn [gbind].
    rewrite (znth_Z N 0%Z []) by lia. cbn [gbind]. change (Z.to_nat 0) with O.
    rewrite (znth_Z (nth O N []) _ 0) by (rewrite HW2; lia). cbn [gbind].
    replace (Z.to_nat (Z.of_nat k - 1)) with (k - 1) by lia.
    rewrite (colOf_nth p N (k - 1) O) by lia. unfold isz.
    match goal with |- context [gbind ?A _] =>
      assert (EA : A = GOk (if oeqb K (nth (k - 1) (nth O N []) 0) 0 then 0
                            else odiv K (omul K (osub K u (kn U sp)) (nth (k - 1) (nth O N []) 0)) (osub K (kn U (sp + k)) (kn U sp)))) end.
    { destruct (oeqb K (nth (k - 1) (nth O N []) 0) 0); cbn [negb]; auto.
      rewrite !(znth_Z U _ 0) by lia. cbn [gbind].
      rewrite ?Nat2Z.id. replace (Z.to_nat (Z.of_nat sp + Z.of_nat k)) with (sp + k) by lia. reflexivity. }
    rewrite (gbind_eq _ _ _ EA). clear EA.
    set (saved0 := if oeqb K (nth (k - 1) (nth O N []) 0) 0 then 0 else _).
    replace (Z.of_nat p - Z.of_nat k + 1)%Z with (Z.of_nat (S (p - k))) by lia.
    rewrite zrange_0_nat.
    match goal with |- context [gfor (map Z.of_nat (seq O (S (p - k)))) ?ff ?s0] =>
      match goal with |- context [fold_left ?gg (seq O (S (p - k))) ?s0'] =>
        destruct (gfor_seq_fold (fun (_ : nat) (a : list (list T) * T) (b : list T * T) =>
                      wfmat p (fst a) /\ snd a = snd b /\ fst b = colOf p (fst a) k
                      /\ (forall c, c <> k -> colOf p (fst a) c = colOf p N c)
                      /\ (forall i c, k < c -> nth c (nth i (fst a) []) 0 = 0)) ff gg (S (p - k)) O)
          with (s := s0) (s' := s0') as ([N3 sv3] & E3 & W3 & _ & Hcur & Hoth & Hz3)
      end
    end.
    { intros j [N' sG] [cur sM] Hj (HW' & Es & Hcur & Hoth & Hz'). simpl in HW', Es, Hcur, Hoth, Hz'. subst sM cur.
      pose proof HW' as [HW1' HW2']. cbn [gbind].
      rewrite !(znth_Z U _ 0) by lia. cbn [gbind].
      rewrite (znth_Z N' _ []) by lia. cbn [gbind].
      replace (Z.to_nat (Z.of_nat j + 1)) with (S j) by lia.
      rewrite (znth_Z (nth (S j) N' []) _ 0) by (rewrite HW2'; lia). cbn [gbind].
      replace (Z.to_nat (Z.of_nat k - 1)) with (k - 1) by lia.
      replace (Z.to_nat (Z.of_nat sp + Z.of_nat j + 1)) with (S (sp + j)) by lia.
      replace (Z.to_nat (Z.of_nat sp + Z.of_nat j + Z.of_nat k + 1)) with (S (sp + j + k)) by lia.
      fold (kn U (S (sp + j))) (kn U (S (sp + j + k))).
      rewrite (colOf_nth p N (k - 1) (S j)) by lia.
      assert (Epv : nth (k - 1) (nth (S j) N' []) 0 = nth (k - 1) (nth (S j) N []) 0).
      { rewrite <- !(colOf_nth p _ (k - 1) (S j)) by lia. rewrite Hoth by lia. reflexivity. }
      rewrite Epv.
      destruct (oeqb K (nth (k - 1) (nth (S j) N []) 0) 0).
      - rewrite (znth_Z N' _ []) by lia. cbn [gbind]. rewrite Nat2Z.id.
        rewrite zset_Z by (rewrite HW2'; lia). cbn [gbind]. rewrite zset_Z by lia. cbn [gbind]. rewrite !Nat2Z.id.
        eexists. split; [reflexivity|]. simpl. split; [now apply wfmat_set2|]. split; auto. split.
        + rewrite colOf_set2_same by (auto; lia). reflexivity.
        + split.
          * intros c Hc. rewrite colOf_set2_other by lia. auto.
          * intros i c Hc. rewrite nth_nth_upd2. destruct (Nat.eqb_spec k c); [lia|]. rewrite andb_false_r. auto.
      - cbn [gbind]. rewrite (znth_Z N' _ []) by lia. cbn [gbind]. rewrite Nat2Z.id.
        rewrite zset_Z by (rewrite HW2'; lia). cbn [gbind]. rewrite zset_Z by lia. cbn [gbind]. rewrite !Nat2Z.id.
        eexists. split; [reflexivity|]. simpl. split; [now apply wfmat_set2|]. split; auto. split.
        + rewrite colOf_set2_same by (auto; lia). reflexivity.
        + split.
          * intros c Hc. rewrite colOf_set2_other by lia. auto.
          * intros i c Hc. rewrite nth_nth_upd2. destruct (Nat.eqb_spec k c); [lia|]. rewrite andb_false_r. auto. }
    { cbn [fst snd]. split; auto. split; auto. split.
      - apply nth_ext with (d := 0) (d' := 0).
        + now rewrite repeat_length, colOf_length.
        + intros i Hi. rewrite repeat_length in Hi. rewrite nth_repeat_lt by lia. rewrite colOf_nth by lia.
          symmetry. apply Hzero. lia.
      - split; auto. intros i c Hc. apply Hzero. lia. }
    rewrite E3. cbn [gbind]. cbn [fst snd] in W3, Hcur, Hoth, Hz3.
    match goal with |- context [fold_left ?gg (seq O (S (p - k))) ?s0'] => destruct (fold_left gg (seq O (S (p - k))) s0') as [cur svM] end.
    cbn [fst] in Hcur. subst cur.
    eexists. split; [reflexivity|]. cbn [fst snd]. split; auto. split.
    - rewrite seq_S, map_app. simpl. f_equal.
      apply map_ext_in. intros c Hc. apply in_seq in Hc. symmetry. apply Hoth. lia.
    - split.
      + f_equal. lia.
      + intros i c Hc. apply Hz3. lia. }
  { simpl. split; auto. split; [now rewrite C0|]. split; [now rewrite C0|]. intros i c Hc. apply Hz. lia. }
  rewrite E2. cbn [gbind]. clear E2.
  rewrite <- Ecols in Hc2. clear Ecols.
  replace (1 + p) with (S p) in Hc2 by lia.
  pose proof W2 as [W21 W22].
  (* ders[0] = N[0][degree] *)
  rewrite (znth_Z N2 0%Z []) by lia. cbn [gbind]. change (Z.to_nat 0) with O.
  rewrite (znth_Z (nth O N2 []) _ 0) by (rewrite W22; lia). cbn [gbind]. rewrite Nat2Z.id.
  rewrite zset_Z by (rewrite repeat_length; lia). cbn [gbind]. change (Z.to_nat 0) with O.
  assert (Hcol : forall c, c <= p -> nth c cols [] = colOf p N2 c).
  { intros c Hc. rewrite Hc2. rewrite (nth_indep _ [] (colOf p N2 O)) by (rewrite map_length, seq_length; lia).
    rewrite (map_nth (colOf p N2) (seq O (S p)) O c). rewrite seq_nth by lia. reflexivity. }
  set (d0 := nth p (nth O N2 []) 0).
  assert (Ed0 : nth O (nth p cols []) 0 = d0).
  { rewrite Hcol by lia. rewrite colOf_nth by lia. reflexivity. }
  rewrite Ed0.
  (* the derivatives *)
  match goal with |- context [gfor (map Z.of_nat (seq 1 order)) ?ff ?s0] =>
    destruct (gfor_seq_inv (fun k (d : list T) => length d = S order /\ nth O d 0 = d0
                  /\ (forall i, 1 <= i < k -> nth i d 0 = ders_one_k K p U sp u cols i)
                  /\ (forall i, k <= i -> 1 <= i -> nth i d 0 = 0)) ff order 1) with (s := s0) as (dF & EF & LF & HF0 & HF & _)
  end.
  { intros k d Hk (Ld & Hd0 & Hd & Hdz). cbn [gbind].
    replace (Z.of_nat k + 1)%Z with (Z.of_nat (S k)) by lia.
    rewrite !map_const_zrange, !Nat2Z.id, zrange_0_nat, zrange_1_nat.
    (* ND[j] = N[j][degree - k] *)
    match goal with |- context [gfor (map Z.of_nat (seq O (S k))) ?ff ?s0] =>
      destruct (gfor_seq_inv (fun j (nd : list T) => length nd = S k
                    /\ (forall i, i < j -> nth i nd 0 = nth i (nth (p - k) cols []) 0)) ff (S k) O) with (s := s0) as (ND0 & EN & LN & HN)
    end.
    { intros j nd Hj (Lnd & Hnd). cbn [gbind].
      rewrite (znth_Z N2 _ []) by lia. cbn [gbind]. rewrite Nat2Z.id.
      rewrite (znth_Z (nth j N2 []) _ 0) by (rewrite W22; lia). cbn [gbind].
      replace (Z.to_nat (Z.of_nat p - Z.of_nat k)) with (p - k) by lia.
      rewrite zset_Z by lia. cbn [gbind]. rewrite Nat2Z.id.
      eexists. split; [reflexivity|]. rewrite upd_length. split; auto.
      intros i Hi. rewrite nth_upd. destruct (Nat.eqb_spec j i) as [->|Hne].
      - destruct (Nat.ltb_spec i (length nd)); [|lia]. rewrite Hcol by lia. rewrite colOf_nth by lia. reflexivity.
      - apply Hnd. lia. }
    { rewrite repeat_length. split; auto. intros i Hi. lia. }
    rewrite EN. cbn [gbind]. clear EN.
    assert (R0 : RelND k ND0 (firstn (S k) (nth (p - k) cols []) ++ [0])).
    { unfold RelND. rewrite app_length, firstn_length, Hcol, colOf_length by lia. cbn [length]. repeat split; auto; try lia.
      intros i Hi. rewrite app_nth1 by (rewrite firstn_length, colOf_length; lia).
      rewrite nth_firstn_lt by lia. rewrite HN by lia. rewrite Hcol by lia. reflexivity. }
    pose proof (eq_refl (ders_one_k K p U sp u cols k)) as EDK. unfold ders_one_k at 2 in EDK. cbv zeta in EDK.
    match goal with |- context [gfor (map Z.of_nat (seq 1 k)) ?ff ND0] =>
      match type of EDK with context [fold_left ?gg (seq 1 k) ?s0'] =>
        destruct (gfor_seq_fold (fun (_ : nat) (a b : list T) => RelND k a b) ff gg k 1) with (s := ND0) (s' := s0') as (ND1 & EN1 & R1)
      end
    end; auto.
    { intros jj G M Hjj HR. pose proof HR as (HG & HM & Hnth). cbv beta. cbn [gbind].
      rewrite (znth_Z G 0%Z 0) by lia. cbn [gbind]. change (Z.to_nat 0) with O. rewrite (Hnth O) by lia. unfold isz.
      match goal with |- context [gbind ?A _] =>
        assert (EA : A = GOk (if oeqb K (nth O M 0) 0 then 0
                              else odiv K (nth O M 0) (osub K (kn U (sp + (p - k) + jj)) (kn U sp)))) end.
      { destruct (oeqb K (nth O M 0) 0); auto.
        rewrite !(znth_Z U _ 0) by lia. cbn [gbind].
        rewrite ?Nat2Z.id. replace (Z.to_nat (Z.of_nat sp + Z.of_nat p - Z.of_nat k + Z.of_nat jj)) with (sp + (p - k) + jj) by lia.
        reflexivity. }
      rewrite (gbind_eq _ _ _ EA). clear EA.
      set (saved0 := if oeqb K (nth O M 0) 0 then 0 else _).
      replace (Z.of_nat k - Z.of_nat jj + 1)%Z with (Z.of_nat (S (k - jj))) by lia.
      rewrite zrange_0_nat.
      replace (Z.of_nat p - Z.of_nat k + Z.of_nat jj)%Z with (Z.of_nat (p - k + jj)) by lia.
      rewrite ofZ_of_nat.
      match goal with |- context [gfor (map Z.of_nat (seq O (S (k - jj)))) ?ff ?s0] =>
        match goal with |- context [fold_left ?gg (seq O (S (k - jj))) ?s0'] =>
          destruct (gfor_seq_fold (fun (_ : nat) (a b : list T * T) => RelND k (fst a) (fst b) /\ snd a = snd b)
                      ff gg (S (k - jj)) O) with (s := s0) (s' := s0') as ([G3 sv3] & E3 & R3 & _)
        end
      end.
      { intros j [G' sG] [M' sM] Hj [HR' Es]. simpl in HR', Es. subst sM.
        pose proof HR' as (HG' & HM' & Hnth'). cbn [gbind].
        rewrite !(znth_Z U _ 0) by lia. cbn [gbind].
        rewrite (znth_Z G' _ 0) by lia. cbn [gbind].
        replace (Z.to_nat (Z.of_nat j + 1)) with (S j) by lia.
        replace (Z.to_nat (Z.of_nat sp + Z.of_nat j + 1)) with (S (sp + j)) by lia.
        replace (Z.to_nat (Z.of_nat sp + Z.of_nat j + Z.of_nat p - Z.of_nat k + Z.of_nat jj + 1)) with (S (sp + j + (p - k) + jj)) by lia.
        rewrite (Hnth' (S j)) by lia. fold (kn U (S (sp + j))) (kn U (S (sp + j + (p - k) + jj))).
        destruct (oeqb K (nth (S j) M' 0) 0).
        - rewrite zset_Z by lia. cbn [gbind]. rewrite Nat2Z.id.
          eexists. split; [reflexivity|]. simpl. split; auto. apply RelND_upd; auto. lia.
        - cbn [gbind]. rewrite zset_Z by lia. cbn [gbind]. rewrite Nat2Z.id.
          eexists. split; [reflexivity|]. simpl. split; auto. apply RelND_upd; auto. lia. }
      { simpl. auto. }
      rewrite E3. cbn [gbind]. eexists. split; [reflexivity|]. exact R3. }
    rewrite EN1. cbn [gbind].
    destruct R1 as (HG1 & HM1 & Hn1).
    rewrite (znth_Z ND1 0%Z 0) by lia. cbn [gbind]. change (Z.to_nat 0) with O. rewrite (Hn1 O) by lia.
    rewrite zset_Z by lia. cbn [gbind]. rewrite Nat2Z.id.
    eexists. split; [reflexivity|]. rewrite upd_length. split; auto. split.
    - rewrite nth_upd_other by lia. auto.
    - split.
      + intros i Hi. rewrite nth_upd. destruct (Nat.eqb_spec k i) as [->|Hne].
        * destruct (Nat.ltb_spec i (length d)); [|lia]. rewrite EDK. reflexivity.
        * apply Hd. lia.
      + intros i Hi Hi1. rewrite nth_upd_other by lia. apply Hdz; lia. }
  { rewrite upd_length, repeat_length. split; auto. split.
    - apply nth_upd_same. rewrite repeat_length. lia.
    - split; [intros i Hi; lia|]. intros i Hi Hi1. rewrite nth_upd_other by lia.
      destruct (Nat.lt_ge_cases i (S order)); [now apply nth_repeat_lt|apply nth_overflow; rewrite repeat_length; lia]. }
  rewrite EF. cbn [gbind]. f_equal.
  apply nth_ext with (d := 0) (d' := 0).
  - cbn [length]. rewrite map_length, seq_length. auto.
  - intros i Hi. rewrite LF in Hi. destruct i as [|i]; [exact HF0|].
    cbn [nth]. rewrite (nth_indep (map (ders_one_k K p U sp u cols) (seq 1 order)) 0 (ders_one_k K p U sp u cols O)) by (rewrite map_length, seq_length; lia).
    rewrite (map_nth (ders_one_k K p U sp u cols) (seq 1 order) O i). rewrite seq_nth by lia.
    apply HF. lia.
Qed.
End Tie.

Definition basis_function_ders_one_tie_R := @basis_function_ders_one_tie _ Rops.
Definition basis_function_ders_one_tie_Q := @basis_function_ders_one_tie _ Qops.

(* ---- non-vacuity (degree 3, a repeated interior knot) ---- *)
Local Open Scope Q_scope.
Definition exU : list Q := [0; 0; 0; 0; 1#4; 1#2; 1#2; 3#4; 1; 1; 1; 1].
Example basis_function_ders_one_ex :
  Helpers.basis_function_ders_one Qops 3 exU 3 (3#10) 2 = GOk [21#50; 18#5; 0]
  /\ Basis.basis_function_ders_one Qops 3 exU 3 (3#10) 2 = [21#50; 18#5; 0]
  /\ Helpers.basis_function_ders_one Qops 3 exU 4 (3#5) 3 = GOk (Basis.basis_function_ders_one Qops 3 exU 4 (3#5) 3)
  /\ Helpers.basis_function_ders_one Qops 3 exU 1 (3#10) 3 = GOk (Basis.basis_function_ders_one Qops 3 exU 1 (3#10) 3)
  /\ (3 + 3 + 1 < length exU)%nat.
Proof. repeat split; try (vm_compute; reflexivity); unfold exU; simpl; lia. Qed.
