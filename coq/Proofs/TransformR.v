(* C10: evaluation commutes with affine maps of the control points (curves, surfaces, volumes; rational shapes
   through the unweighted view with unchanged weights). *)
From Coq Require Import List Reals Lra Lia Arith Bool.
From NV Require Import Scalar.Ops Model.Common Model.Basis Model.Knots Model.Eval Model.Homog Model.Hull Model.Transform
  Proofs.BasisR Proofs.LinComb Proofs.HomogR Proofs.HullR.
Import ListNotations.
Open Scope R_scope.

Lemma pt_at_map (f : list R -> list R) (P : list (list R)) i : (i < length P)%nat -> pt_at (map f P) i = f (pt_at P i).
Proof. intros Hi. unfold pt_at. rewrite (nth_indep _ [] (f [])) by (rewrite map_length; exact Hi). apply map_nth. Qed.

Definition dir_ok (p : nat) (U : list R) (n : nat) (u : R) : Prop :=
  sortedR U /\ (p < n)%nat /\ (n + p < length U)%nat /\ in_domain p U n u.

Lemma dir_coeffs p U n u : dir_ok p U n u ->
  let k := find_span_linear Rops p U n u in let Ns := basis_function Rops p U k u in
  (p <= k < n)%nat /\ Sg (fun i => nth i Ns 0) (seq 0 (S p)) = 1 /\ forall i, 0 <= nth i Ns 0.
Proof.
  intros [Hs [Hn [HL Hu]]] k Ns.
  destruct (span_closed U u p n Hs Hn ltac:(lia) Hu) as [Hk [Hc Hne]]. fold k in Hk, Hc, Hne.
  destruct (bf_coeffs U u k Hs Hc Hne p ltac:(lia) ltac:(lia)) as [H1 H2]. auto.
Qed.

(* ================= non-rational ================= *)
Section Affine.
Variables (dim dim' : nat) (f : list R -> list R).
Hypothesis Hf : affine_map dim dim' f.

Theorem curve_affine p U (P : list (list R)) u : dir_ok p U (length P) u -> Forall (fun q => length q = dim) P ->
  curve_point Rops dim' p U (map f P) u = f (curve_point Rops dim p U P u).
Proof.
  intros Hd HP. destruct (dir_coeffs p U (length P) u Hd) as [Hk [H1 _]]. cbv zeta in *.
  unfold curve_point. rewrite map_length. set (k := find_span_linear Rops p U (length P) u) in *.
  rewrite !curve_point_at_fold.
  rewrite (fold_axpy_ext _ (fun i => nth i (basis_function Rops p U k u) 0) _ (fun i => f (pt_at P (k - p + i)))); auto.
  - apply (lincomb_affine dim dim'); auto. intros i Hi. apply in_seq in Hi. rewrite Forall_forall in HP. apply HP, nth_In. lia.
  - intros i Hi. apply in_seq in Hi. apply pt_at_map. lia.
Qed.

Theorem surface_affine pu pv su sv Uu Uv (P : list (list R)) u v : dir_ok pu Uu su u -> dir_ok pv Uv sv v ->
  length P = (su * sv)%nat -> Forall (fun q => length q = dim) P ->
  surface_point Rops dim' pu pv Uu Uv su sv (map f P) u v = f (surface_point Rops dim pu pv Uu Uv su sv P u v).
Proof.
  intros Hdu Hdv HL HP. destruct (dir_coeffs pu Uu su u Hdu) as [Hku [Hu1 _]]. destruct (dir_coeffs pv Uv sv v Hdv) as [Hkv [Hv1 _]].
  cbv zeta in *. unfold surface_point.
  set (ku := find_span_linear Rops pu Uu su u) in *. set (kv := find_span_linear Rops pv Uv sv v) in *.
  rewrite !surface_point_at_fold.
  assert (Hidx : forall k l, In k (seq 0 (S pu)) -> In l (seq 0 (S pv)) -> (kv - pv + l + sv * (ku - pu + k) < length P)%nat).
  { intros k l Hk Hl. apply in_seq in Hk, Hl. rewrite HL. apply idx2_lt; lia. }
  assert (Hlen : forall k l, In k (seq 0 (S pu)) -> In l (seq 0 (S pv)) -> length (pt_at P (kv - pv + l + sv * (ku - pu + k))) = dim).
  { intros k l Hk Hl. rewrite Forall_forall in HP. apply HP, nth_In. apply Hidx; assumption. }
  rewrite (fold_axpy_ext _ (fun k => nth k (basis_function Rops pu Uu ku u) 0) _
     (fun k => f (fold_axpy (fun l => nth l (basis_function Rops pv Uv kv v) 0) (fun l => pt_at P (kv - pv + l + sv * (ku - pu + k))) (seq 0 (S pv)) (vzero Rops dim)))); auto.
  - apply (lincomb_affine dim dim'); auto; intros k Hk; apply lincomb_length; intros l Hl; apply Hlen; assumption.
  - intros k Hk.
    rewrite (fold_axpy_ext _ (fun l => nth l (basis_function Rops pv Uv kv v) 0) _ (fun l => f (pt_at P (kv - pv + l + sv * (ku - pu + k))))); auto.
    + apply (lincomb_affine dim dim'); auto; intros l Hl; apply Hlen; assumption.
    + intros l Hl. apply pt_at_map. apply Hidx; assumption.
Qed.

Theorem volume_affine pu pv pw su sv sw Uu Uv Uw (P : list (list R)) u v w :
  dir_ok pu Uu su u -> dir_ok pv Uv sv v -> dir_ok pw Uw sw w ->
  length P = (su * sv * sw)%nat -> Forall (fun q => length q = dim) P ->
  volume_point Rops dim' pu pv pw Uu Uv Uw su sv sw (map f P) u v w = f (volume_point Rops dim pu pv pw Uu Uv Uw su sv sw P u v w).
Proof.
  intros Hdu Hdv Hdw HL HP.
  destruct (dir_coeffs pu Uu su u Hdu) as [Hku [Hu1 _]]. destruct (dir_coeffs pv Uv sv v Hdv) as [Hkv [Hv1 _]].
  destruct (dir_coeffs pw Uw sw w Hdw) as [Hkw [Hw1 _]]. cbv zeta in *.
  rewrite !volume_point_fold. cbv zeta.
  set (ku := find_span_linear Rops pu Uu su u) in *. set (kv := find_span_linear Rops pv Uv sv v) in *.
  set (kw := find_span_linear Rops pw Uw sw w) in *.
  assert (Hidx : forall a b c, In a (seq 0 (S pu)) -> In b (seq 0 (S pv)) -> In c (seq 0 (S pw)) ->
            (kv - pv + b + sv * (ku - pu + a + su * (kw - pw + c)) < length P)%nat).
  { intros a b c Ha Hb Hc. apply in_seq in Ha, Hb, Hc. rewrite HL. apply idx3_lt; lia. }
  assert (Hlen : forall a b c, In a (seq 0 (S pu)) -> In b (seq 0 (S pv)) -> In c (seq 0 (S pw)) ->
            length (pt_at P (kv - pv + b + sv * (ku - pu + a + su * (kw - pw + c)))) = dim).
  { intros a b c Ha Hb Hc. rewrite Forall_forall in HP. apply HP, nth_In. apply Hidx; assumption. }
  set (in1 := fun a b => fold_axpy (fun c => nth c (basis_function Rops pw Uw kw w) 0)
          (fun c => pt_at P (kv - pv + b + sv * (ku - pu + a + su * (kw - pw + c)))) (seq 0 (S pw)) (vzero Rops dim)).
  set (in2 := fun a => fold_axpy (fun b => nth b (basis_function Rops pv Uv kv v) 0) (in1 a) (seq 0 (S pv)) (vzero Rops dim)).
  assert (L1 : forall a b, In a (seq 0 (S pu)) -> In b (seq 0 (S pv)) -> length (in1 a b) = dim).
  { intros a b Ha Hb. apply lincomb_length. intros c Hc. apply Hlen; assumption. }
  assert (L2 : forall a, In a (seq 0 (S pu)) -> length (in2 a) = dim).
  { intros a Ha. apply lincomb_length. intros b Hb. apply L1; assumption. }
  change (fold_axpy (fun a => nth a (basis_function Rops pu Uu ku u) 0)
    (fun a => fold_axpy (fun b => nth b (basis_function Rops pv Uv kv v) 0)
       (fun b => fold_axpy (fun c => nth c (basis_function Rops pw Uw kw w) 0)
          (fun c => pt_at (map f P) (kv - pv + b + sv * (ku - pu + a + su * (kw - pw + c)))) (seq 0 (S pw)) (vzero Rops dim'))
       (seq 0 (S pv)) (vzero Rops dim')) (seq 0 (S pu)) (vzero Rops dim')
    = f (fold_axpy (fun a => nth a (basis_function Rops pu Uu ku u) 0) in2 (seq 0 (S pu)) (vzero Rops dim))).
  rewrite (fold_axpy_ext _ (fun a => nth a (basis_function Rops pu Uu ku u) 0) _ (fun a => f (in2 a))); auto.
  - apply (lincomb_affine dim dim'); auto.
  - intros a Ha.
    rewrite (fold_axpy_ext _ (fun b => nth b (basis_function Rops pv Uv kv v) 0) _ (fun b => f (in1 a b))); auto.
    + apply (lincomb_affine dim dim'); auto.
    + intros b Hb.
      rewrite (fold_axpy_ext _ (fun c => nth c (basis_function Rops pw Uw kw w) 0) _
         (fun c => f (pt_at P (kv - pv + b + sv * (ku - pu + a + su * (kw - pw + c)))))); auto.
      * apply (lincomb_affine dim dim'); auto; intros c Hc; apply Hlen; assumption.
      * intros c Hc. apply pt_at_map. apply Hidx; assumption.
Qed.
End Affine.

(* ================= rational ================= *)
(* the final algebra, for two homogeneous vectors V (source) and V' (image) *)
Lemma project_affine_comp dim dim' f (V V' : list R) : affine_map dim dim' f ->
  length V = S dim -> length V' = S dim' -> last V 0 <> 0 -> last V' 0 = last V 0 ->
  (forall r phi b, (r < dim')%nat -> linfun dim phi -> (forall x, length x = dim -> nth r (f x) 0 = phi x + b) ->
      nth r (removelast V') 0 = phi (removelast V) + b * last V 0) ->
  project Rops V' = f (project Rops V).
Proof.
  intros [Hlen Hcomp] HV HV' Hw Hlast Hc.
  destruct (split_last V dim HV) as [_ LV]. destruct (split_last V' dim' HV') as [_ LV'].
  assert (LpV : length (project Rops V) = dim) by (unfold project; rewrite map_length; exact LV).
  apply nth_ext with (d := 0) (d' := 0).
  - unfold project at 1. rewrite map_length, LV'. symmetry. apply Hlen. exact LpV.
  - intros r Hr. unfold project at 1 in Hr. rewrite map_length, LV' in Hr.
    destruct (Hcomp r Hr) as [phi [b [Hphi Hfb]]].
    rewrite (linfun_project dim' (fun x => nth r x 0) V' (linfun_nth dim' r) HV').
    rewrite (Hc r phi b Hr Hphi Hfb), Hlast. rewrite Hfb by exact LpV.
    rewrite (linfun_project dim phi V Hphi HV). field. exact Hw.
Qed.

Section RAffine.
Variables (dim dim' : nat) (f : list R -> list R) (P : list (list R)) (W : list R).
Hypothesis Hf : affine_map dim dim' f.
Hypothesis HW : length W = length P.
Hypothesis Hdim : Forall (fun q => length q = dim) P.
Hypothesis Wpos : Forall (fun w => 0 < w) W.
Let Pw := hom_combine Rops P W.
Let Pw' := hom_combine Rops (map f P) W.

Lemma HW' : length W = length (map f P). Proof. rewrite map_length. exact HW. Qed.
Lemma Hdim' : Forall (fun q => length q = dim') (map f P).
Proof. apply Forall_forall. intros q Hq. apply in_map_iff in Hq. destruct Hq as [x [<- Hx]]. destruct Hf as [Hl _]. apply Hl. rewrite Forall_forall in Hdim. auto. Qed.
Lemma P_len i : (i < length P)%nat -> length (pt_at P i) = dim.
Proof. intros Hi. rewrite Forall_forall in Hdim. apply Hdim, nth_In, Hi. Qed.
Lemma Pw_at i : (i < length P)%nat -> pt_at Pw i = hom_point Rops (pt_at P i) (nth i W 0).
Proof. intros Hi. apply pt_at_hom; assumption. Qed.
Lemma Pw'_at i : (i < length P)%nat -> pt_at Pw' i = hom_point Rops (f (pt_at P i)) (nth i W 0).
Proof. intros Hi. unfold Pw'. rewrite pt_at_hom; rewrite ?map_length; auto. rewrite pt_at_map by exact Hi. reflexivity. Qed.
Lemma Pw_length i : (i < length P)%nat -> length (pt_at Pw i) = S dim.
Proof. intros Hi. rewrite Pw_at by exact Hi. rewrite hom_point_length, P_len; auto. Qed.
Lemma Pw'_length i : (i < length P)%nat -> length (pt_at Pw' i) = S dim'.
Proof. intros Hi. rewrite Pw'_at by exact Hi. rewrite hom_point_length. f_equal. destruct Hf as [Hl _]. apply Hl, P_len, Hi. Qed.
Lemma Wi_pos i : (i < length P)%nat -> 0 < nth i W 0.
Proof. intros Hi. rewrite Forall_forall in Wpos. apply Wpos, nth_In. lia. Qed.

(* the weight functional and the component functionals, point by point *)
Definition wfun (v : list R) : R := (fun _ : list R => 0) (removelast v) + 1 * last v 0.
Lemma wfun_lin d : linfun (S d) wfun. Proof. apply (linfun_lift d (fun _ => 0) 1). apply linfun_const0. Qed.
Lemma wfun_last v : wfun v = last v 0. Proof. unfold wfun. lra. Qed.
Lemma wfun_Pw i : (i < length P)%nat -> wfun (pt_at Pw i) = nth i W 0.
Proof. intros Hi. rewrite wfun_last, Pw_at, last_hom; auto. Qed.
Lemma wfun_Pw' i : (i < length P)%nat -> wfun (pt_at Pw' i) = nth i W 0.
Proof. intros Hi. rewrite wfun_last, Pw'_at, last_hom; auto. Qed.

Definition cfun' (r : nat) (v : list R) : R := (fun x => nth r x 0) (removelast v) + 0 * last v 0.
Definition cfun (phi : list R -> R) (b : R) (v : list R) : R := phi (removelast v) + b * last v 0.
Lemma cfun'_lin r : linfun (S dim') (cfun' r). Proof. apply (linfun_lift dim' (fun x => nth r x 0) 0). apply linfun_nth. Qed.
Lemma cfun_lin phi b : linfun dim phi -> linfun (S dim) (cfun phi b). Proof. intros. apply linfun_lift. assumption. Qed.
Lemma cfun_point r phi b i : linfun dim phi -> (forall x, length x = dim -> nth r (f x) 0 = phi x + b) -> (i < length P)%nat ->
  cfun' r (pt_at Pw' i) = cfun phi b (pt_at Pw i).
Proof.
  intros Hphi Hfb Hi. unfold cfun', cfun. rewrite Pw'_at, Pw_at by exact Hi.
  rewrite (lift_hom dim' (fun x => nth r x 0) 0) by (try apply linfun_nth; destruct Hf as [Hl _]; apply Hl, P_len, Hi).
  rewrite (lift_hom dim phi b) by (try assumption; apply P_len, Hi).
  rewrite Hfb by (apply P_len, Hi). lra.
Qed.

Theorem rational_curve_affine p U u : dir_ok p U (length P) u ->
  project Rops (curve_point Rops (S dim') p U Pw' u) = f (project Rops (curve_point Rops (S dim) p U Pw u)).
Proof.
  intros Hd. destruct (dir_coeffs p U (length P) u Hd) as [Hk [H1 Hpos]]. cbv zeta in *.
  assert (EL' : length Pw' = length P) by (unfold Pw'; rewrite hom_combine_length by apply HW'; apply map_length).
  assert (EL : length Pw = length P) by (unfold Pw; apply hom_combine_length; exact HW).
  unfold curve_point. rewrite EL', EL.
  set (k := find_span_linear Rops p U (length P) u) in *. rewrite !curve_point_at_fold.
  set (cf := fun i => nth i (basis_function Rops p U k u) 0).
  assert (I : forall i, In i (seq 0 (S p)) -> (k - p + i < length P)%nat) by (intros i Hi; apply in_seq in Hi; lia).
  apply (project_affine_comp dim dim'); auto.
  - apply lincomb_length. intros i Hi. apply Pw_length, I, Hi.
  - apply lincomb_length. intros i Hi. apply Pw'_length, I, Hi.
  - rewrite <- wfun_last. apply Rgt_not_eq. apply (lincomb_pos (S dim));
      [apply wfun_lin|intros i Hi; apply Pw_length, I, Hi|intros; apply Hpos|exact H1|].
    intros i Hi. cbv beta. rewrite wfun_Pw by (apply I, Hi). apply Wi_pos, I, Hi.
  - rewrite <- !wfun_last. apply (lincomb_transport (S dim') (S dim)); auto using wfun_lin.
    + intros i Hi. apply Pw'_length, I, Hi.
    + intros i Hi. apply Pw_length, I, Hi.
    + intros i Hi. cbv beta. rewrite wfun_Pw, wfun_Pw' by (apply I, Hi). reflexivity.
  - intros r phi b Hr Hphi Hfb.
    change (cfun' r (fold_axpy cf (fun i => pt_at Pw' (k - p + i)) (seq 0 (S p)) (vzero Rops (S dim'))) + 0 * 0 =
            cfun phi b (fold_axpy cf (fun i => pt_at Pw (k - p + i)) (seq 0 (S p)) (vzero Rops (S dim)))) || idtac.
    assert (E : cfun' r (fold_axpy cf (fun i => pt_at Pw' (k - p + i)) (seq 0 (S p)) (vzero Rops (S dim'))) =
                cfun phi b (fold_axpy cf (fun i => pt_at Pw (k - p + i)) (seq 0 (S p)) (vzero Rops (S dim)))).
    { apply (lincomb_transport (S dim') (S dim)); auto using cfun'_lin, cfun_lin.
      - intros i Hi. apply Pw'_length, I, Hi.
      - intros i Hi. apply Pw_length, I, Hi.
      - intros i Hi. cbv beta. apply cfun_point; auto. }
    unfold cfun', cfun in E. lra.
Qed.
Theorem rational_surface_affine pu pv su sv Uu Uv u v : dir_ok pu Uu su u -> dir_ok pv Uv sv v -> length P = (su * sv)%nat ->
  project Rops (surface_point Rops (S dim') pu pv Uu Uv su sv Pw' u v) = f (project Rops (surface_point Rops (S dim) pu pv Uu Uv su sv Pw u v)).
Proof.
  intros Hdu Hdv HL. destruct (dir_coeffs pu Uu su u Hdu) as [Hku [Hu1 Hposu]]. destruct (dir_coeffs pv Uv sv v Hdv) as [Hkv [Hv1 Hposv]].
  cbv zeta in *. unfold surface_point.
  set (ku := find_span_linear Rops pu Uu su u) in *. set (kv := find_span_linear Rops pv Uv sv v) in *.
  rewrite !surface_point_at_fold.
  set (cu := fun k => nth k (basis_function Rops pu Uu ku u) 0). set (cv := fun l => nth l (basis_function Rops pv Uv kv v) 0).
  assert (I : forall k l, In k (seq 0 (S pu)) -> In l (seq 0 (S pv)) -> (kv - pv + l + sv * (ku - pu + k) < length P)%nat).
  { intros k l Hk Hl. apply in_seq in Hk, Hl. rewrite HL. apply idx2_lt; lia. }
  set (in1 := fun k => fold_axpy cv (fun l => pt_at Pw (kv - pv + l + sv * (ku - pu + k))) (seq 0 (S pv)) (vzero Rops (S dim))).
  set (in1' := fun k => fold_axpy cv (fun l => pt_at Pw' (kv - pv + l + sv * (ku - pu + k))) (seq 0 (S pv)) (vzero Rops (S dim'))).
  assert (L1 : forall k, In k (seq 0 (S pu)) -> length (in1 k) = S dim).
  { intros k Hk. apply lincomb_length. intros l Hl. apply Pw_length, I; assumption. }
  assert (L1' : forall k, In k (seq 0 (S pu)) -> length (in1' k) = S dim').
  { intros k Hk. apply lincomb_length. intros l Hl. apply Pw'_length, I; assumption. }
  change (project Rops (fold_axpy cu in1' (seq 0 (S pu)) (vzero Rops (S dim'))) = f (project Rops (fold_axpy cu in1 (seq 0 (S pu)) (vzero Rops (S dim))))).
  apply (project_affine_comp dim dim'); auto.
  - apply lincomb_length. exact L1.
  - apply lincomb_length. exact L1'.
  - rewrite <- wfun_last. apply Rgt_not_eq. apply (lincomb_pos (S dim)); [apply wfun_lin|exact L1|intros; apply Hposu|exact Hu1|].
    intros k Hk. apply (lincomb_pos (S dim)); [apply wfun_lin|intros l Hl; apply Pw_length, I; assumption|intros; apply Hposv|exact Hv1|].
    intros l Hl. cbv beta. rewrite wfun_Pw by (apply I; assumption). apply Wi_pos, I; assumption.
  - rewrite <- !wfun_last. apply (lincomb_transport (S dim') (S dim)); [apply wfun_lin|apply wfun_lin|exact L1'|exact L1|].
    intros k Hk. apply (lincomb_transport (S dim') (S dim)); [apply wfun_lin|apply wfun_lin| | |].
    + intros l Hl. apply Pw'_length, I; assumption.
    + intros l Hl. apply Pw_length, I; assumption.
    + intros l Hl. cbv beta. rewrite wfun_Pw, wfun_Pw' by (apply I; assumption). reflexivity.
  - intros r phi b Hr Hphi Hfb.
    assert (E : cfun' r (fold_axpy cu in1' (seq 0 (S pu)) (vzero Rops (S dim'))) = cfun phi b (fold_axpy cu in1 (seq 0 (S pu)) (vzero Rops (S dim)))).
    { apply (lincomb_transport (S dim') (S dim)); [apply cfun'_lin|apply cfun_lin; exact Hphi|exact L1'|exact L1|].
      intros k Hk. apply (lincomb_transport (S dim') (S dim)); [apply cfun'_lin|apply cfun_lin; exact Hphi| | |].
      - intros l Hl. apply Pw'_length, I; assumption.
      - intros l Hl. apply Pw_length, I; assumption.
      - intros l Hl. cbv beta. apply cfun_point; auto. }
    unfold cfun', cfun in E. lra.
Qed.

Theorem rational_volume_affine pu pv pw su sv sw Uu Uv Uw u v w :
  dir_ok pu Uu su u -> dir_ok pv Uv sv v -> dir_ok pw Uw sw w -> length P = (su * sv * sw)%nat ->
  project Rops (volume_point Rops (S dim') pu pv pw Uu Uv Uw su sv sw Pw' u v w) =
  f (project Rops (volume_point Rops (S dim) pu pv pw Uu Uv Uw su sv sw Pw u v w)).
Proof.
  intros Hdu Hdv Hdw HL.
  destruct (dir_coeffs pu Uu su u Hdu) as [Hku [Hu1 Hposu]]. destruct (dir_coeffs pv Uv sv v Hdv) as [Hkv [Hv1 Hposv]].
  destruct (dir_coeffs pw Uw sw w Hdw) as [Hkw [Hw1 Hposw]]. cbv zeta in *.
  rewrite !volume_point_fold. cbv zeta.
  set (ku := find_span_linear Rops pu Uu su u) in *. set (kv := find_span_linear Rops pv Uv sv v) in *.
  set (kw := find_span_linear Rops pw Uw sw w) in *.
  set (cu := fun a => nth a (basis_function Rops pu Uu ku u) 0). set (cv := fun b => nth b (basis_function Rops pv Uv kv v) 0).
  set (cw := fun c => nth c (basis_function Rops pw Uw kw w) 0).
  assert (I : forall a b c, In a (seq 0 (S pu)) -> In b (seq 0 (S pv)) -> In c (seq 0 (S pw)) ->
            (kv - pv + b + sv * (ku - pu + a + su * (kw - pw + c)) < length P)%nat).
  { intros a b c Ha Hb Hc. apply in_seq in Ha, Hb, Hc. rewrite HL. apply idx3_lt; lia. }
  set (in1 := fun a b => fold_axpy cw (fun c => pt_at Pw (kv - pv + b + sv * (ku - pu + a + su * (kw - pw + c)))) (seq 0 (S pw)) (vzero Rops (S dim))).
  set (in1' := fun a b => fold_axpy cw (fun c => pt_at Pw' (kv - pv + b + sv * (ku - pu + a + su * (kw - pw + c)))) (seq 0 (S pw)) (vzero Rops (S dim'))).
  set (in2 := fun a => fold_axpy cv (in1 a) (seq 0 (S pv)) (vzero Rops (S dim))).
  set (in2' := fun a => fold_axpy cv (in1' a) (seq 0 (S pv)) (vzero Rops (S dim'))).
  assert (L1 : forall a b, In a (seq 0 (S pu)) -> In b (seq 0 (S pv)) -> length (in1 a b) = S dim).
  { intros a b Ha Hb. apply lincomb_length. intros c Hc. apply Pw_length, I; assumption. }
  assert (L1' : forall a b, In a (seq 0 (S pu)) -> In b (seq 0 (S pv)) -> length (in1' a b) = S dim').
  { intros a b Ha Hb. apply lincomb_length. intros c Hc. apply Pw'_length, I; assumption. }
  assert (L2 : forall a, In a (seq 0 (S pu)) -> length (in2 a) = S dim).
  { intros a Ha. apply lincomb_length. intros b Hb. apply L1; assumption. }
  assert (L2' : forall a, In a (seq 0 (S pu)) -> length (in2' a) = S dim').
  { intros a Ha. apply lincomb_length. intros b Hb. apply L1'; assumption. }
  change (project Rops (fold_axpy cu in2' (seq 0 (S pu)) (vzero Rops (S dim'))) = f (project Rops (fold_axpy cu in2 (seq 0 (S pu)) (vzero Rops (S dim))))).
  apply (project_affine_comp dim dim'); auto.
  - apply lincomb_length. exact L2.
  - apply lincomb_length. exact L2'.
  - rewrite <- wfun_last. apply Rgt_not_eq. apply (lincomb_pos (S dim)); [apply wfun_lin|exact L2|intros; apply Hposu|exact Hu1|].
    intros a Ha. apply (lincomb_pos (S dim)); [apply wfun_lin|intros b Hb; apply L1; assumption|intros; apply Hposv|exact Hv1|].
    intros b Hb. apply (lincomb_pos (S dim)); [apply wfun_lin|intros c Hc; apply Pw_length, I; assumption|intros; apply Hposw|exact Hw1|].
    intros c Hc. cbv beta. rewrite wfun_Pw by (apply I; assumption). apply Wi_pos, I; assumption.
  - rewrite <- !wfun_last. apply (lincomb_transport (S dim') (S dim)); [apply wfun_lin|apply wfun_lin|exact L2'|exact L2|].
    intros a Ha. apply (lincomb_transport (S dim') (S dim)); [apply wfun_lin|apply wfun_lin|intros b Hb; apply L1'; assumption|intros b Hb; apply L1; assumption|].
    intros b Hb. apply (lincomb_transport (S dim') (S dim)); [apply wfun_lin|apply wfun_lin| | |].
    + intros c Hc. apply Pw'_length, I; assumption.
    + intros c Hc. apply Pw_length, I; assumption.
    + intros c Hc. cbv beta. rewrite wfun_Pw, wfun_Pw' by (apply I; assumption). reflexivity.
  - intros r phi b0 Hr Hphi Hfb.
    assert (E : cfun' r (fold_axpy cu in2' (seq 0 (S pu)) (vzero Rops (S dim'))) = cfun phi b0 (fold_axpy cu in2 (seq 0 (S pu)) (vzero Rops (S dim)))).
    { apply (lincomb_transport (S dim') (S dim)); [apply cfun'_lin|apply cfun_lin; exact Hphi|exact L2'|exact L2|].
      intros a Ha. apply (lincomb_transport (S dim') (S dim)); [apply cfun'_lin|apply cfun_lin; exact Hphi|intros b Hb; apply L1'; assumption|intros b Hb; apply L1; assumption|].
      intros b Hb. apply (lincomb_transport (S dim') (S dim)); [apply cfun'_lin|apply cfun_lin; exact Hphi| | |].
      - intros c Hc. apply Pw'_length, I; assumption.
      - intros c Hc. apply Pw_length, I; assumption.
      - intros c Hc. cbv beta. apply cfun_point; auto. }
    unfold cfun', cfun in E. lra.
Qed.
End RAffine.

(* ================= the weighted / unweighted round trip of the NURBS ctrlpts property ================= *)
Lemma hom_weights_combine : forall (P : list (list R)) (W : list R), length W = length P -> hom_weights Rops (hom_combine Rops P W) = W.
Proof.
  unfold hom_weights, hom_combine. induction P as [|pt P IH]; intros [|w W] H; cbn [length] in H; try discriminate; [reflexivity|].
  cbn [combine map fst snd]. rewrite last_hom. f_equal. apply IH. lia.
Qed.
Lemma unweight_hom_point (pt : list R) w : w <> 0 -> hom_unweight_point Rops (hom_point Rops pt w) = pt.
Proof.
  intros Hw. unfold hom_unweight_point. cbn [o0 Rops]. rewrite removelast_hom, last_hom, map_map.
  rewrite <- (map_id pt) at 2. apply map_ext. intros c. rsimp. field. exact Hw.
Qed.
Lemma hom_unweight_combine : forall (P : list (list R)) (W : list R), length W = length P -> Forall (fun w => w <> 0) W ->
  hom_unweight Rops (hom_combine Rops P W) = P.
Proof.
  unfold hom_unweight, hom_combine. induction P as [|pt P IH]; intros [|w W] H HW; cbn [length] in H; try discriminate; [reflexivity|].
  apply Forall_cons_iff in HW. destruct HW as [Hw HW]. cbn [combine map fst snd]. rewrite unweight_hom_point by exact Hw. f_equal. apply IH; [lia|exact HW].
Qed.

(* ================= the three maps are affine ================= *)
Lemma nth_skipn_add {A} (d : A) : forall k (l : list A) r, nth r (skipn k l) d = nth (k + r) l d.
Proof. induction k; intros l r; [reflexivity|]. destruct l; [destruct r; reflexivity|]. cbn [skipn plus nth]. apply IHk. Qed.
Lemma sc_nth m : forall (pt : list R) r, nth r (sc_point Rops m pt) 0 = m * nth r pt 0.
Proof. unfold sc_point. induction pt as [|x pt IH]; intros [|r]; cbn [map nth]; rsimp; try lra. apply IH. Qed.
Lemma linfun_comb2 dim a i b j : linfun dim (fun x => a * nth i x 0 + b * nth j x 0).
Proof. apply linfun_plus; apply linfun_scale; apply linfun_nth. Qed.

Theorem tr_point_affine dim vec : length vec = dim -> affine_map dim dim (tr_point Rops vec).
Proof.
  intros Hv. split.
  - intros x Hx. unfold tr_point. rewrite vadd_length; lia.
  - intros r Hr. exists (fun x => nth r x 0), (nth r vec 0). split; [apply linfun_nth|].
    intros x Hx. unfold tr_point. apply vadd_nth. lia.
Qed.
Theorem sc_point_affine dim m : affine_map dim dim (sc_point Rops m).
Proof.
  split.
  - intros x Hx. unfold sc_point. rewrite map_length. exact Hx.
  - intros r Hr. exists (fun x => m * nth r x 0), 0. split; [apply linfun_scale, linfun_nth|].
    intros x Hx. rewrite sc_nth. lra.
Qed.
Theorem rot_z_affine dim c s : (2 <= dim)%nat -> affine_map dim dim (rot_z Rops c s).
Proof.
  intros Hd. split.
  - intros x Hx. unfold rot_z. cbn [length]. rewrite skipn_length. lia.
  - intros r Hr. destruct r as [|[|r]].
    + exists (fun x => c * nth 0 x 0 + (- s) * nth 1 x 0), 0. split; [apply linfun_comb2|]. intros x Hx. unfold rot_z, c0, c1. cbn [nth]. rsimp. lra.
    + exists (fun x => c * nth 1 x 0 + s * nth 0 x 0), 0. split; [apply linfun_comb2|]. intros x Hx. unfold rot_z, c0, c1. cbn [nth]. rsimp. lra.
    + exists (fun x => nth (S (S r)) x 0), 0. split; [apply linfun_nth|]. intros x Hx. unfold rot_z.
      change (nth (S (S r)) (_ :: _ :: skipn 2 x) 0) with (nth r (skipn 2 x) 0). rewrite nth_skipn_add. cbn [plus]. lra.
Qed.
Lemma nth_repeat0 n r : nth r (repeat 0 n) 0 = 0.
Proof. apply nth_repeat. Qed.
Theorem rot_x_affine dim c s : (3 <= dim)%nat -> affine_map dim dim (rot_x Rops c s).
Proof.
  intros Hd. split.
  - intros x Hx. unfold rot_x. rewrite app_length, repeat_length. cbn [length]. lia.
  - intros r Hr. destruct r as [|[|[|r]]].
    + exists (fun x => nth 0 x 0), 0. split; [apply linfun_nth|]. intros x Hx. unfold rot_x, c0. cbn [app nth]. rsimp. lra.
    + exists (fun x => c * nth 1 x 0 + (- s) * nth 2 x 0), 0. split; [apply linfun_comb2|]. intros x Hx. unfold rot_x, c1, c2. cbn [app nth]. rsimp. lra.
    + exists (fun x => c * nth 2 x 0 + s * nth 1 x 0), 0. split; [apply linfun_comb2|]. intros x Hx. unfold rot_x, c1, c2. cbn [app nth]. rsimp. lra.
    + exists (fun _ => 0), 0. split; [apply linfun_const0|]. intros x Hx. unfold rot_x. cbn [app nth o0 Rops]. rewrite nth_repeat0. lra.
Qed.
Theorem rot_y_affine dim c s : (3 <= dim)%nat -> affine_map dim dim (rot_y Rops c s).
Proof.
  intros Hd. split.
  - intros x Hx. unfold rot_y. rewrite app_length, repeat_length. cbn [length]. lia.
  - intros r Hr. destruct r as [|[|[|r]]].
    + exists (fun x => c * nth 0 x 0 + (- s) * nth 2 x 0), 0. split; [apply linfun_comb2|]. intros x Hx. unfold rot_y, c0, c2. cbn [app nth]. rsimp. lra.
    + exists (fun x => nth 1 x 0), 0. split; [apply linfun_nth|]. intros x Hx. unfold rot_y, c1. cbn [app nth]. rsimp. lra.
    + exists (fun x => c * nth 2 x 0 + s * nth 0 x 0), 0. split; [apply linfun_comb2|]. intros x Hx. unfold rot_y, c0, c2. cbn [app nth]. rsimp. lra.
    + exists (fun _ => 0), 0. split; [apply linfun_const0|]. intros x Hx. unfold rot_y. cbn [app nth o0 Rops]. rewrite nth_repeat0. lra.
Qed.
(* the axis actually used: 2 when the shape is 2-dimensional, else 0, 1 or 2 with at least 3 coordinates *)
Theorem rot_axis_affine dim axis c s : (axis <= 2)%nat -> ((axis = 2 /\ 2 <= dim) \/ 3 <= dim)%nat -> affine_map dim dim (rot_axis Rops axis c s).
Proof.
  intros Ha Hd. destruct axis as [|[|[|a]]]; cbn [rot_axis]; try lia.
  - apply rot_x_affine. lia.
  - apply rot_y_affine. lia.
  - apply rot_z_affine. lia.
Qed.
