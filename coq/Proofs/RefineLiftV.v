(* C05 for volumes: operations.refine_knotvector (models refine_vol_u, refine_vol_v, refine_vol_w, refine_vol) leaves
   every volume point unchanged.  A5.4 runs on rows of points (refine_rows); by parametricity (Proofs/RefineParam.v)
   that is fibre-wise A5.4 on points; gather / scatter are the index maps of knot insertion (Proofs/InsertVolR.v). *)
From Coq Require Import List Reals Lra Lia Arith Bool Permutation.
From NV Require Import Scalar.Ops Model.Common Model.Basis Model.KnotIns Model.InsertKnot Model.KnotRefine
  Proofs.Boehm Proofs.BasisR Proofs.KnotInsR Proofs.InsertKnotR Proofs.InsertDirR Proofs.InsertVolR Proofs.KnotRefineR
  Proofs.RefineGenS Proofs.RefineGenI Proofs.RefineGeneral Proofs.RefineDefault Proofs.RefineOp Proofs.RefineParam
  Proofs.RefineLiftG Proofs.RefineLift.
Import ListNotations.
Local Open Scope nat_scope.

Definition vol_dims (g : vol (T:=R)) (dim : nat) : Prop :=
  forall i, i < v_su g * v_sv g * v_sw g -> length (getp (v_P g) i) = dim.

Lemma fib_u_length (g : vol (T:=R)) j l : length (fib_u g j l) = v_su g.
Proof. unfold fib_u. rewrite map_length, seq_length. reflexivity. Qed.
Lemma fib_v_length (g : vol (T:=R)) i l : length (fib_v g i l) = v_sv g.
Proof. unfold fib_v. rewrite map_length, seq_length. reflexivity. Qed.
Lemma fib_w_length (g : vol (T:=R)) i j : length (fib_w g i j) = v_sw g.
Proof. unfold fib_w. rewrite map_length, seq_length. reflexivity. Qed.

Lemma fib_u_dims (g : vol (T:=R)) dim j l : vol_dims g dim -> j < v_sv g -> l < v_sw g ->
  forall i, i < length (fib_u g j l) -> length (getp (fib_u g j l) i) = dim.
Proof.
  intros Hd Hj Hl i Hi. rewrite fib_u_length in Hi. unfold fib_u, getp at 1. rewrite nth_map_seq by exact Hi.
  apply Hd. apply vidx_lt; assumption.
Qed.
Lemma fib_v_dims (g : vol (T:=R)) dim i l : vol_dims g dim -> i < v_su g -> l < v_sw g ->
  forall j, j < length (fib_v g i l) -> length (getp (fib_v g i l) j) = dim.
Proof.
  intros Hd Hi Hl j Hj. rewrite fib_v_length in Hj. unfold fib_v, getp at 1. rewrite nth_map_seq by exact Hj.
  apply Hd. apply vidx_lt; assumption.
Qed.
Lemma fib_w_dims (g : vol (T:=R)) dim i j : vol_dims g dim -> i < v_su g -> j < v_sv g ->
  forall l, l < length (fib_w g i j) -> length (getp (fib_w g i j) l) = dim.
Proof.
  intros Hd Hi Hj l Hl. rewrite fib_w_length in Hl. unfold fib_w, getp at 1. rewrite nth_map_seq by exact Hl.
  apply Hd. apply vidx_lt; assumption.
Qed.

(* number of rows returned by A5.4 on rows *)
Lemma refine_rows_length tol p U (C : list (list (list R))) X : refine_ok tol p U (length C) X ->
  length (fst (refine_rows Rops tol p U C X)) = length C + length X.
Proof.
  intros HX. unfold refine_rows.
  rewrite (refine_len_indep (lerp_row Rops) [] (lerp Rops) [] tol p U C (repeat [] (length C)) X) by (rewrite repeat_length; reflexivity).
  change (refine_g Rops (lerp Rops) [] tol p U (repeat [] (length C)) X) with (refine_pts Rops tol p U (repeat [] (length C)) X).
  rewrite refine_pts_length by (rewrite repeat_length; exact HX). rewrite repeat_length. reflexivity.
Qed.

(* what one fibre of the row result is *)
Lemma rows_fibre_spec tol p U (C : list (list (list R))) X m idx dim (fb : list (list R)) :
  refine_ok tol p U (length C) X ->
  (forall i, i < length C -> length (nth i C []) = m) -> idx < m -> fibre_of idx C = fb ->
  (forall i, i < length fb -> length (getp fb i) = dim) ->
  let tmp := fst (refine_rows Rops tol p U C X) in let V := snd (refine_rows Rops tol p U C X) in
  let Fb := fst (refine_pts Rops tol p U fb X) in
  length Fb = length C + length X /\
  (forall i, i < length C + length X -> nth idx (nth i tmp []) [] = getp Fb i /\ length (getp Fb i) = dim /\
                                        (nth i tmp [] = [] \/ length (nth i tmp []) = m)) /\
  (forall c t, c < dim -> curve_pt p V Fb c t = curve_pt p U fb c t).
Proof.
  intros HX Hrows Hidx Efb Hdim. cbv zeta.
  pose proof (refine_rows_fibre tol p U C X m idx Hrows Hidx) as H. rewrite Efb in H.
  pose proof (refine_rows_length tol p U C X HX) as HLt.
  assert (Hfl : length fb = length C) by (rewrite <- Efb; unfold fibre_of; apply map_length).
  assert (HXf : refine_ok tol p U (length fb) X) by (rewrite Hfl; exact HX).
  pose proof (refine_pts_ok tol p U fb X dim HXf Hdim) as Hp.
  destruct (refine_rows Rops tol p U C X) as [Qr Vr]. destruct (refine_pts Rops tol p U fb X) as [Qp Vp].
  cbn [fst snd] in *. destruct H as [EV [EL Hn]]. destruct Hp as [A1 [_ [_ [_ [A5 A6]]]]]. subst Vr.
  split; [lia|]. split; [|exact A6].
  intros i Hi. destruct (Hn i ltac:(lia)) as [B1 B2]. split; [exact B1|]. split; [apply A5; lia|exact B2].
Qed.

(* ---------- u ---------- *)
Section VU.
Variables (tol : R) (g : vol (T:=R)) (X : list R) (dim : nat).
Notation su := (v_su g). Notation sv := (v_sv g). Notation sw := (v_sw g). Notation P := (v_P g).
Hypothesis HX : refine_ok tol (v_pu g) (v_Uu g) su X.
Hypothesis Hdim : vol_dims g dim.

Let C := map (fun u_ => flat_map (fun w_ => map (fun v_ => getp P (vidx g u_ v_ w_)) (seq 0 sv)) (seq 0 sw)) (seq 0 su).
Let tmp := fst (refine_rows Rops tol (v_pu g) (v_Uu g) C X).
Let V := snd (refine_rows Rops tol (v_pu g) (v_Uu g) C X).
Let n' := su + length X.
Let Pn := flat_map (fun w_ => flat_map (fun u_ => map (fun v_ => getp (nth u_ tmp []) (v_ + w_ * sv)) (seq 0 sv)) (seq 0 n')) (seq 0 sw).
Let F (j l : nat) := fst (refine_pts Rops tol (v_pu g) (v_Uu g) (fib_u g j l) X).

Lemma CU_length : length C = su.
Proof. unfold C. rewrite map_length, seq_length. reflexivity. Qed.
Lemma CU_rows q : q < length C -> length (nth q C []) = sv * sw.
Proof.
  intros Hq. rewrite CU_length in Hq. unfold C. rewrite nth_map_seq by lia.
  apply flat_map_length_const. intros. rewrite map_length, seq_length. reflexivity.
Qed.
Lemma CU_fibre j l : j < sv -> l < sw -> fibre_of (j + sv * l) C = fib_u g j l.
Proof.
  intros Hj Hl. unfold fibre_of, C, fib_u. rewrite map_map. apply map_ext_seq. intros q Hq.
  rewrite (nth_flat_map_const (fun w_ => map (fun v_ => getp P (vidx g q v_ w_)) (seq 0 sv)) sv); auto.
  2:{ intros. rewrite map_length, seq_length. reflexivity. }
  rewrite nth_map_seq by exact Hj. reflexivity.
Qed.

Lemma VU_spec j l : j < sv -> l < sw ->
  length (F j l) = n' /\
  (forall i, i < n' -> nth (j + sv * l) (nth i tmp []) [] = getp (F j l) i /\ length (getp (F j l) i) = dim) /\
  (forall c t, c < dim -> curve_pt (v_pu g) V (F j l) c t = curve_pt (v_pu g) (v_Uu g) (fib_u g j l) c t).
Proof.
  intros Hj Hl.
  pose proof (rows_fibre_spec tol (v_pu g) (v_Uu g) C X (sv * sw) (j + sv * l) dim (fib_u g j l)
                ltac:(rewrite CU_length; exact HX) CU_rows ltac:(nia) (CU_fibre j l Hj Hl) (fib_u_dims g dim j l Hdim Hj Hl)) as H.
  cbv zeta in H. rewrite CU_length in H. fold tmp V (F j l) n' in H. destruct H as [A1 [A2 A3]].
  split; [exact A1|]. split; [|exact A3]. intros i Hi. destruct (A2 i Hi) as [B1 [B2 _]]. split; assumption.
Qed.

Lemma VU_net i j l : i < n' -> j < sv -> l < sw -> getp Pn (j + i * sv + l * n' * sv) = getp (F j l) i.
Proof.
  intros Hi Hj Hl. unfold Pn.
  replace (j + i * sv + l * n' * sv) with ((j + sv * i) + (sv * n') * l) by lia.
  unfold getp at 1.
  rewrite (nth_flat_map_const (fun w_ => flat_map (fun u_ => map (fun v_ => getp (nth u_ tmp []) (v_ + w_ * sv)) (seq 0 sv)) (seq 0 n')) (sv * n')); auto; try nia.
  2:{ intros q Hq. apply flat_map_length_const. intros. rewrite map_length, seq_length. reflexivity. }
  rewrite (nth_flat_map_const (fun u_ => map (fun v_ => getp (nth u_ tmp []) (v_ + l * sv)) (seq 0 sv)) sv); auto.
  2:{ intros. rewrite map_length, seq_length. reflexivity. }
  rewrite nth_map_seq by exact Hj. unfold getp at 1. replace (j + l * sv) with (j + sv * l) by lia.
  apply (VU_spec j l Hj Hl). exact Hi.
Qed.

Theorem refine_vol_u_X :
  let g' := mkV (v_pu g) (v_pv g) (v_pw g) V (v_Uv g) (v_Uw g) n' sv sw Pn in
  vol_dims g' dim /\ forall c tu tv tw, c < dim -> vol_pt g' c tu tv tw = vol_pt g c tu tv tw.
Proof.
  cbv zeta. split.
  - intros idx Hidx. cbn [v_su v_sv v_sw v_P] in *.
    assert (Hsv : 0 < sv) by (destruct sv; lia).
    assert (Hn : 0 < n') by (destruct n'; lia).
    set (j := idx mod sv). set (q := idx / sv). set (i := q mod n'). set (l := q / n').
    assert (E1 : idx = sv * q + j) by (apply Nat.div_mod; lia).
    assert (E2 : q = n' * l + i) by (apply Nat.div_mod; lia).
    assert (Hj : j < sv) by (apply Nat.mod_upper_bound; lia).
    assert (Hi : i < n') by (apply Nat.mod_upper_bound; lia).
    assert (Hq : q < n' * sw) by (apply Nat.div_lt_upper_bound; lia).
    assert (Hl : l < sw) by (apply Nat.div_lt_upper_bound; lia).
    replace idx with (j + i * sv + l * n' * sv) by nia.
    rewrite VU_net by assumption. apply (VU_spec j l Hj Hl). exact Hi.
  - intros c tu tv tw Hc. apply (vol_lift_u g V n' Pn F dim).
    + intros j l Hj Hl. apply (VU_spec j l Hj Hl).
    + intros j l Hj Hl. apply (VU_spec j l Hj Hl).
    + intros i j l Hi Hj Hl. apply VU_net; assumption.
    + exact Hc.
Qed.
End VU.

(* ---------- v ---------- *)
Section VV.
Variables (tol : R) (g : vol (T:=R)) (X : list R) (dim : nat).
Notation su := (v_su g). Notation sv := (v_sv g). Notation sw := (v_sw g). Notation P := (v_P g).
Hypothesis HX : refine_ok tol (v_pv g) (v_Uv g) sv X.
Hypothesis Hdim : vol_dims g dim.

Let C := map (fun v_ => flat_map (fun w_ => map (fun u_ => getp P (vidx g u_ v_ w_)) (seq 0 su)) (seq 0 sw)) (seq 0 sv).
Let tmp := fst (refine_rows Rops tol (v_pv g) (v_Uv g) C X).
Let V := snd (refine_rows Rops tol (v_pv g) (v_Uv g) C X).
Let n' := sv + length X.
Let Pn := flat_map (fun w_ => flat_map (fun u_ => map (fun v_ => getp (nth v_ tmp []) (u_ + w_ * su)) (seq 0 n')) (seq 0 su)) (seq 0 sw).
Let F (i l : nat) := fst (refine_pts Rops tol (v_pv g) (v_Uv g) (fib_v g i l) X).

Lemma CV_length : length C = sv.
Proof. unfold C. rewrite map_length, seq_length. reflexivity. Qed.
Lemma CV_rows q : q < length C -> length (nth q C []) = su * sw.
Proof.
  intros Hq. rewrite CV_length in Hq. unfold C. rewrite nth_map_seq by lia.
  apply flat_map_length_const. intros. rewrite map_length, seq_length. reflexivity.
Qed.
Lemma CV_fibre i l : i < su -> l < sw -> fibre_of (i + su * l) C = fib_v g i l.
Proof.
  intros Hi Hl. unfold fibre_of, C, fib_v. rewrite map_map. apply map_ext_seq. intros q Hq.
  rewrite (nth_flat_map_const (fun w_ => map (fun u_ => getp P (vidx g u_ q w_)) (seq 0 su)) su); auto.
  2:{ intros. rewrite map_length, seq_length. reflexivity. }
  rewrite nth_map_seq by exact Hi. reflexivity.
Qed.

Lemma VV_spec i l : i < su -> l < sw ->
  length (F i l) = n' /\
  (forall j, j < n' -> nth (i + su * l) (nth j tmp []) [] = getp (F i l) j /\ length (getp (F i l) j) = dim) /\
  (forall c t, c < dim -> curve_pt (v_pv g) V (F i l) c t = curve_pt (v_pv g) (v_Uv g) (fib_v g i l) c t).
Proof.
  intros Hi Hl.
  pose proof (rows_fibre_spec tol (v_pv g) (v_Uv g) C X (su * sw) (i + su * l) dim (fib_v g i l)
                ltac:(rewrite CV_length; exact HX) CV_rows ltac:(nia) (CV_fibre i l Hi Hl) (fib_v_dims g dim i l Hdim Hi Hl)) as H.
  cbv zeta in H. rewrite CV_length in H. fold tmp V (F i l) n' in H. destruct H as [A1 [A2 A3]].
  split; [exact A1|]. split; [|exact A3]. intros j Hj. destruct (A2 j Hj) as [B1 [B2 _]]. split; assumption.
Qed.

Lemma VV_net i j l : i < su -> j < n' -> l < sw -> getp Pn (j + i * n' + l * su * n') = getp (F i l) j.
Proof.
  intros Hi Hj Hl. unfold Pn.
  replace (j + i * n' + l * su * n') with ((j + n' * i) + (n' * su) * l) by lia.
  unfold getp at 1.
  rewrite (nth_flat_map_const (fun w_ => flat_map (fun u_ => map (fun v_ => getp (nth v_ tmp []) (u_ + w_ * su)) (seq 0 n')) (seq 0 su)) (n' * su)); auto; try nia.
  2:{ intros q Hq. apply flat_map_length_const. intros. rewrite map_length, seq_length. reflexivity. }
  rewrite (nth_flat_map_const (fun u_ => map (fun v_ => getp (nth v_ tmp []) (u_ + l * su)) (seq 0 n')) n'); auto.
  2:{ intros. rewrite map_length, seq_length. reflexivity. }
  rewrite nth_map_seq by exact Hj. unfold getp at 1. replace (i + l * su) with (i + su * l) by lia.
  apply (VV_spec i l Hi Hl). exact Hj.
Qed.

Theorem refine_vol_v_X :
  let g' := mkV (v_pu g) (v_pv g) (v_pw g) (v_Uu g) V (v_Uw g) su n' sw Pn in
  vol_dims g' dim /\ forall c tu tv tw, c < dim -> vol_pt g' c tu tv tw = vol_pt g c tu tv tw.
Proof.
  cbv zeta. split.
  - intros idx Hidx. cbn [v_su v_sv v_sw v_P] in *.
    assert (Hn : 0 < n') by (destruct n'; lia).
    assert (Hsu : 0 < su) by (destruct su; lia).
    set (j := idx mod n'). set (q := idx / n'). set (i := q mod su). set (l := q / su).
    assert (E1 : idx = n' * q + j) by (apply Nat.div_mod; lia).
    assert (E2 : q = su * l + i) by (apply Nat.div_mod; lia).
    assert (Hj : j < n') by (apply Nat.mod_upper_bound; lia).
    assert (Hi : i < su) by (apply Nat.mod_upper_bound; lia).
    assert (Hq : q < su * sw) by (apply Nat.div_lt_upper_bound; nia).
    assert (Hl : l < sw) by (apply Nat.div_lt_upper_bound; lia).
    replace idx with (j + i * n' + l * su * n') by nia.
    rewrite VV_net by assumption. apply (VV_spec i l Hi Hl). exact Hj.
  - intros c tu tv tw Hc. apply (vol_lift_v g V n' Pn F dim).
    + intros i l Hi Hl. apply (VV_spec i l Hi Hl).
    + intros i l Hi Hl. apply (VV_spec i l Hi Hl).
    + intros i j l Hi Hj Hl. apply VV_net; assumption.
    + exact Hc.
Qed.
End VV.

(* ---------- w ---------- *)
Section VW.
Variables (tol : R) (g : vol (T:=R)) (X : list R) (dim : nat).
Notation su := (v_su g). Notation sv := (v_sv g). Notation sw := (v_sw g). Notation P := (v_P g).
Hypothesis HX : refine_ok tol (v_pw g) (v_Uw g) sw X.
Hypothesis Hdim : vol_dims g dim.
Hypothesis Hdim1 : 1 <= dim.

Let uv := su * sv.
Let C := map (fun w_ => map (fun i => getp P (i + w_ * uv)) (seq 0 uv)) (seq 0 sw).
Let tmp := fst (refine_rows Rops tol (v_pw g) (v_Uw g) C X).
Let V := snd (refine_rows Rops tol (v_pw g) (v_Uw g) C X).
Let n' := sw + length X.
Let Pn := flat_map (fun w_ => nth w_ tmp []) (seq 0 n').
Let F (i j : nat) := fst (refine_pts Rops tol (v_pw g) (v_Uw g) (fib_w g i j) X).

Lemma CW_length : length C = sw.
Proof. unfold C. rewrite map_length, seq_length. reflexivity. Qed.
Lemma CW_rows q : q < length C -> length (nth q C []) = uv.
Proof. intros Hq. rewrite CW_length in Hq. unfold C. rewrite nth_map_seq by lia. rewrite map_length, seq_length. reflexivity. Qed.
Lemma CW_fibre i j : i < su -> j < sv -> fibre_of (j + i * sv) C = fib_w g i j.
Proof.
  intros Hi Hj. assert (Hidx : j + i * sv < uv) by (unfold uv; nia).
  unfold fibre_of, C, fib_w. rewrite map_map. apply map_ext_seq. intros q Hq.
  rewrite nth_map_seq by exact Hidx. f_equal. unfold vidx, uv. lia.
Qed.

Lemma VW_spec i j : i < su -> j < sv ->
  length (F i j) = n' /\
  (forall l, l < n' -> nth (j + i * sv) (nth l tmp []) [] = getp (F i j) l /\ length (getp (F i j) l) = dim /\
                       (nth l tmp [] = [] \/ length (nth l tmp []) = uv)) /\
  (forall c t, c < dim -> curve_pt (v_pw g) V (F i j) c t = curve_pt (v_pw g) (v_Uw g) (fib_w g i j) c t).
Proof.
  intros Hi Hj.
  pose proof (rows_fibre_spec tol (v_pw g) (v_Uw g) C X uv (j + i * sv) dim (fib_w g i j)
                ltac:(rewrite CW_length; exact HX) CW_rows ltac:(unfold uv; nia) (CW_fibre i j Hi Hj) (fib_w_dims g dim i j Hdim Hi Hj)) as H.
  cbv zeta in H. rewrite CW_length in H. fold tmp V (F i j) n' in H. exact H.
Qed.

Lemma tmp_rows l : 0 < uv -> l < n' -> length (nth l tmp []) = uv.
Proof.
  intros Hne Hl.
  assert (Hsu : 0 < su) by (unfold uv in Hne; destruct su; lia).
  assert (Hsv : 0 < sv) by (unfold uv in Hne; destruct sv; [nia|lia]).
  destruct (VW_spec 0 0 Hsu Hsv) as [_ [A2 _]]. destruct (A2 l Hl) as [B1 [B2 [B3|B3]]]; [|exact B3].
  exfalso. rewrite B3 in B1. cbn in B1. rewrite <- B1 in B2. cbn in B2. lia.
Qed.

Lemma VW_net i j l : i < su -> j < sv -> l < n' -> getp Pn (j + i * sv + l * su * sv) = getp (F i j) l.
Proof.
  intros Hi Hj Hl. unfold Pn.
  assert (Hidx : j + i * sv < uv) by (unfold uv; nia).
  replace (j + i * sv + l * su * sv) with ((j + i * sv) + uv * l) by (unfold uv; lia).
  unfold getp at 1.
  rewrite (nth_flat_map_const (fun w_ => nth w_ tmp []) uv); auto.
  2:{ intros q Hq. apply tmp_rows; [lia|exact Hq]. }
  apply (VW_spec i j Hi Hj). exact Hl.
Qed.

Theorem refine_vol_w_X :
  let g' := mkV (v_pu g) (v_pv g) (v_pw g) (v_Uu g) (v_Uv g) V su sv n' Pn in
  vol_dims g' dim /\ forall c tu tv tw, c < dim -> vol_pt g' c tu tv tw = vol_pt g c tu tv tw.
Proof.
  cbv zeta. split.
  - intros idx Hidx. cbn [v_su v_sv v_sw v_P] in *.
    assert (Hsv : 0 < sv) by (destruct sv; lia).
    assert (Hsu : 0 < su) by (destruct su; lia).
    set (j := idx mod sv). set (q := idx / sv). set (i := q mod su). set (l := q / su).
    assert (E1 : idx = sv * q + j) by (apply Nat.div_mod; lia).
    assert (E2 : q = su * l + i) by (apply Nat.div_mod; lia).
    assert (Hj : j < sv) by (apply Nat.mod_upper_bound; lia).
    assert (Hi : i < su) by (apply Nat.mod_upper_bound; lia).
    assert (Hq : q < su * n') by (apply Nat.div_lt_upper_bound; nia).
    assert (Hl : l < n') by (apply Nat.div_lt_upper_bound; lia).
    replace idx with (j + i * sv + l * su * sv) by nia.
    rewrite VW_net by assumption. apply (VW_spec i j Hi Hj). exact Hl.
  - intros c tu tv tw Hc. apply (vol_lift_w g V n' Pn F dim).
    + intros i j Hi Hj. apply (VW_spec i j Hi Hj).
    + intros i j Hi Hj. apply (VW_spec i j Hi Hj).
    + intros i j l Hi Hj Hl. apply VW_net; assumption.
    + exact Hc.
Qed.
End VW.

(* ---------- the operation, one direction ---------- *)
Theorem refine_vol_u_correct tol (g : vol (T:=R)) d dim :
  default_ok tol (v_pu g) (v_Uu g) (v_su g) d -> vol_dims g dim ->
  let '(g', raised) := refine_vol_u Rops tol g d in
  (raised = true -> g' = g) /\
  v_pu g' = v_pu g /\ v_pv g' = v_pv g /\ v_pw g' = v_pw g /\ v_Uv g' = v_Uv g /\ v_sv g' = v_sv g /\ v_Uw g' = v_Uw g /\ v_sw g' = v_sw g /\
  vol_dims g' dim /\ forall c tu tv tw, c < dim -> vol_pt g' c tu tv tw = vol_pt g c tu tv tw.
Proof.
  intros Hok Hdim. unfold refine_vol_u.
  destruct (refine_plan Rops tol true (v_pu g) (v_Uu g) None [] d) as [X| |] eqn:Hplan; try (repeat split; auto; fail).
  destruct (default_refine_ok tol _ _ _ _ X Hok Hplan) as [_ HX].
  pose proof (refine_vol_u_X tol g X dim HX Hdim) as H. cbv zeta in H.
  set (C := map (fun u_ => flat_map (fun w_ => map (fun v_ => getp (v_P g) (vidx g u_ v_ w_)) (seq 0 (v_sv g))) (seq 0 (v_sw g))) (seq 0 (v_su g))) in *.
  assert (HCl : length C = v_su g) by (unfold C; rewrite map_length, seq_length; reflexivity).
  pose proof (refine_rows_length tol (v_pu g) (v_Uu g) C X ltac:(rewrite HCl; exact HX)) as HL. rewrite HCl in HL.
  destruct (refine_rows Rops tol (v_pu g) (v_Uu g) C X) as [tmp V]. cbn [fst snd] in *. rewrite HL.
  destruct H as [A1 A2]. split; [discriminate|]. repeat (split; [reflexivity|]). split; assumption.
Qed.

Theorem refine_vol_v_correct tol (g : vol (T:=R)) d dim :
  default_ok tol (v_pv g) (v_Uv g) (v_sv g) d -> vol_dims g dim ->
  let '(g', raised) := refine_vol_v Rops tol g d in
  (raised = true -> g' = g) /\
  v_pu g' = v_pu g /\ v_pv g' = v_pv g /\ v_pw g' = v_pw g /\ v_Uu g' = v_Uu g /\ v_su g' = v_su g /\ v_Uw g' = v_Uw g /\ v_sw g' = v_sw g /\
  vol_dims g' dim /\ forall c tu tv tw, c < dim -> vol_pt g' c tu tv tw = vol_pt g c tu tv tw.
Proof.
  intros Hok Hdim. unfold refine_vol_v.
  destruct (refine_plan Rops tol true (v_pv g) (v_Uv g) None [] d) as [X| |] eqn:Hplan; try (repeat split; auto; fail).
  destruct (default_refine_ok tol _ _ _ _ X Hok Hplan) as [_ HX].
  pose proof (refine_vol_v_X tol g X dim HX Hdim) as H. cbv zeta in H.
  set (C := map (fun v_ => flat_map (fun w_ => map (fun u_ => getp (v_P g) (vidx g u_ v_ w_)) (seq 0 (v_su g))) (seq 0 (v_sw g))) (seq 0 (v_sv g))) in *.
  assert (HCl : length C = v_sv g) by (unfold C; rewrite map_length, seq_length; reflexivity).
  pose proof (refine_rows_length tol (v_pv g) (v_Uv g) C X ltac:(rewrite HCl; exact HX)) as HL. rewrite HCl in HL.
  destruct (refine_rows Rops tol (v_pv g) (v_Uv g) C X) as [tmp V]. cbn [fst snd] in *. rewrite HL.
  destruct H as [A1 A2]. split; [discriminate|]. repeat (split; [reflexivity|]). split; assumption.
Qed.

Theorem refine_vol_w_correct tol (g : vol (T:=R)) d dim :
  default_ok tol (v_pw g) (v_Uw g) (v_sw g) d -> vol_dims g dim -> 1 <= dim ->
  let '(g', raised) := refine_vol_w Rops tol g d in
  (raised = true -> g' = g) /\
  v_pu g' = v_pu g /\ v_pv g' = v_pv g /\ v_pw g' = v_pw g /\ v_Uu g' = v_Uu g /\ v_su g' = v_su g /\ v_Uv g' = v_Uv g /\ v_sv g' = v_sv g /\
  vol_dims g' dim /\ forall c tu tv tw, c < dim -> vol_pt g' c tu tv tw = vol_pt g c tu tv tw.
Proof.
  intros Hok Hdim Hd1. unfold refine_vol_w.
  destruct (refine_plan Rops tol true (v_pw g) (v_Uw g) None [] d) as [X| |] eqn:Hplan; try (repeat split; auto; fail).
  destruct (default_refine_ok tol _ _ _ _ X Hok Hplan) as [_ HX].
  pose proof (refine_vol_w_X tol g X dim HX Hdim Hd1) as H. cbv zeta in H.
  set (C := map (fun w_ => map (fun i => getp (v_P g) (i + w_ * (v_su g * v_sv g))) (seq 0 (v_su g * v_sv g))) (seq 0 (v_sw g))) in *.
  assert (HCl : length C = v_sw g) by (unfold C; rewrite map_length, seq_length; reflexivity).
  pose proof (refine_rows_length tol (v_pw g) (v_Uw g) C X ltac:(rewrite HCl; exact HX)) as HL. rewrite HCl in HL.
  destruct (refine_rows Rops tol (v_pw g) (v_Uw g) C X) as [tmp V]. cbn [fst snd] in *. rewrite HL.
  destruct H as [A1 A2]. split; [discriminate|]. repeat (split; [reflexivity|]). split; assumption.
Qed.

(* ---------- all three directions in sequence, any subset selected by the densities (0 = not selected) ---------- *)
Theorem refine_vol_correct tol check (g : vol (T:=R)) params dim : 1 <= dim ->
  (dens params 0 <> 0 -> default_ok tol (v_pu g) (v_Uu g) (v_su g) (dens params 0)) ->
  (dens params 1 <> 0 -> default_ok tol (v_pv g) (v_Uv g) (v_sv g) (dens params 1)) ->
  (dens params 2 <> 0 -> default_ok tol (v_pw g) (v_Uw g) (v_sw g) (dens params 2)) ->
  vol_dims g dim ->
  let g' := fst (refine_vol Rops tol check g params) in
  vol_dims g' dim /\ forall c tu tv tw, c < dim -> vol_pt g' c tu tv tw = vol_pt g c tu tv tw.
Proof.
  intros Hd1 Hu Hv Hw Hdim. cbv zeta. unfold refine_vol.
  destruct (andb check _); [cbn [fst]; split; auto|].
  assert (H1 : let '(g1, r1) := (if Nat.eqb (dens params 0) 0 then (g, false) else refine_vol_u Rops tol g (dens params 0)) in
               v_pv g1 = v_pv g /\ v_Uv g1 = v_Uv g /\ v_sv g1 = v_sv g /\ v_pw g1 = v_pw g /\ v_Uw g1 = v_Uw g /\ v_sw g1 = v_sw g /\
               vol_dims g1 dim /\ forall c tu tv tw, c < dim -> vol_pt g1 c tu tv tw = vol_pt g c tu tv tw).
  { destruct (Nat.eqb_spec (dens params 0) 0) as [E|E]; [repeat split; auto|].
    pose proof (refine_vol_u_correct tol g (dens params 0) dim (Hu E) Hdim) as H.
    destruct (refine_vol_u Rops tol g (dens params 0)) as [g1 r1]. tauto. }
  destruct (if Nat.eqb (dens params 0) 0 then (g, false) else refine_vol_u Rops tol g (dens params 0)) as [g1 r1].
  destruct H1 as [B1 [B2 [B3 [B4 [B5 [B6 [B7 B8]]]]]]].
  destruct r1; [cbn [fst]; split; assumption|].
  assert (H2 : let '(g2, r2) := (if Nat.eqb (dens params 1) 0 then (g1, false) else refine_vol_v Rops tol g1 (dens params 1)) in
               v_pw g2 = v_pw g /\ v_Uw g2 = v_Uw g /\ v_sw g2 = v_sw g /\
               vol_dims g2 dim /\ forall c tu tv tw, c < dim -> vol_pt g2 c tu tv tw = vol_pt g c tu tv tw).
  { destruct (Nat.eqb_spec (dens params 1) 0) as [E|E]; [repeat split; auto|].
    assert (Hv1 : default_ok tol (v_pv g1) (v_Uv g1) (v_sv g1) (dens params 1)) by (rewrite B1, B2, B3; exact (Hv E)).
    pose proof (refine_vol_v_correct tol g1 (dens params 1) dim Hv1 B7) as H.
    destruct (refine_vol_v Rops tol g1 (dens params 1)) as [g2 r2].
    destruct H as [_ [_ [_ [C3 [_ [_ [C6 [C7 [C8 C9]]]]]]]]].
    split; [congruence|]. split; [congruence|]. split; [congruence|]. split; [exact C8|].
    intros c tu tv tw Hc. rewrite C9 by exact Hc. apply B8. exact Hc. }
  destruct (if Nat.eqb (dens params 1) 0 then (g1, false) else refine_vol_v Rops tol g1 (dens params 1)) as [g2 r2].
  destruct H2 as [D1 [D2 [D3 [D4 D5]]]].
  destruct r2; [cbn [fst]; split; assumption|].
  destruct (Nat.eqb_spec (dens params 2) 0) as [E|E]; [cbn [fst]; split; assumption|].
  assert (Hw2 : default_ok tol (v_pw g2) (v_Uw g2) (v_sw g2) (dens params 2)) by (rewrite D1, D2, D3; exact (Hw E)).
  pose proof (refine_vol_w_correct tol g2 (dens params 2) dim Hw2 D4 Hd1) as H.
  destruct (refine_vol_w Rops tol g2 (dens params 2)) as [g3 r3]. cbn [fst].
  destruct H as [_ [_ [_ [_ [_ [_ [_ [_ [C8 C9]]]]]]]]]. split; [exact C8|].
  intros c tu tv tw Hc. rewrite C9 by exact Hc. apply D5. exact Hc.
Qed.

Print Assumptions refine_vol_correct.
