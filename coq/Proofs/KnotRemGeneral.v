(* C06, general counts: helpers.knot_removal (Algorithm A5.8, repaired) with num = j applied to the result of
   helpers.knot_insertion with num = r (j <= r) returns the control points of the (r - j)-fold insertion;
   for j = r the original control points.

   Route: pass t of the removal loop undoes the LAST remaining single insertion.
   - Section Step: one pass t on a working array W whose valid part (left of the sweep end i_e, right of j_e with
     index shift t) holds a net B that is a single insertion of a net A (Eq. 5.15 with coefficients al): the pass
     stores A left of its own i_e and, shifted by t + 1, right of its own j_e; the Eq. 5.30 distance is 0.
   - Section Inst: B = (r - t)-fold insertion, A = (r - t - 1)-fold insertion (ki_succ peels the last insertion),
     the coefficients of Eq. 5.29 over the r-fold knot vector are those of the single insertion over the
     (r - t - 1)-fold knot vector; invariant over the passes; the final tail shift. *)
From Coq Require Import List Reals Lra Lia Arith Bool.
From NV Require Import Scalar.Ops Model.Common Model.Basis Model.KnotIns Model.InsertKnot Model.KnotRem
  Proofs.BasisR Proofs.KnotInsR Proofs.KnotInsN Proofs.InsertKnotR Proofs.InsertNR Proofs.KnotRemR.
Import ListNotations.
Local Open Scope nat_scope.

Lemma last_map_rev {A} (f : nat -> A) (b c : nat) :
  last (map (fun m => f (b - 1 - m)) (seq 0 c)) (f b) = f (b - c).
Proof.
  destruct c as [|c'].
  - cbn. f_equal. lia.
  - rewrite seq_S_end, map_app. cbn [map]. rewrite last_last. f_equal. lia.
Qed.

(* ------------------------------------------------------------------ one pass of the removal loop *)
Section Step.
Variables (td : nat) (tol2 : R) (p : nat) (Ub : list R) (u : R) (sp ml t : nat)
          (W A : list (list R)) (d : nat) (al : nat -> R) (first lst cnt ie je : nat).
Hypothesis Efirst : first = sp - p - t.
Hypothesis Elst : lst = sp - ml + t.
Hypothesis Ecnt : cnt = sweep_count first lst t.
Hypothesis Eie : ie = first + cnt.
Hypothesis Eje : je = lst - cnt.
Hypothesis Htol : (0 <= tol2)%R.
Hypothesis Hf1 : 1 <= first.
Hypothesis Hfl : first + t <= lst.
Hypothesis HlW : S lst < length W.
Hypothesis HlA : lst - t < length A.
Hypothesis HdimA : forall y, y < length A -> length (getp A y) = d.
Hypothesis Hal_i : forall x, first <= x <= lst - t -> rem_alpha_i Rops Ub u p t x = al x.
Hypothesis Hal_j : forall x, first + t <= x <= lst -> rem_alpha_j Rops Ub u p t x = al (x - t).
Hypothesis Hne : forall y, first <= y <= lst - t -> al y <> 0%R /\ (1 - al y)%R <> 0%R.
Hypothesis HW_lo : forall x, x < first -> getp W x = getp A x.
Hypothesis HW_L : forall x, first <= x < ie -> getp W x = lerp Rops (al x) (getp A (x - 1)) (getp A x).
Hypothesis HW_mid : je = ie + t -> getp W ie = lerp Rops (al ie) (getp A (ie - 1)) (getp A ie).
Hypothesis HW_R : forall x, je < x <= lst -> getp W x = lerp Rops (al (x - t)) (getp A (x - t - 1)) (getp A (x - t)).
Hypothesis HW_hi : forall x, lst < x < length W -> getp W x = getp A (x - t - 1).

Lemma cnt_cases : ie = first + cnt /\ je + cnt = lst /\
  ((lst = first + t + 2 * cnt /\ je = ie + t) \/ (lst + 1 = first + t + 2 * cnt /\ 1 <= cnt /\ je + 1 = ie + t)).
Proof.
  rewrite Eie, Eje, Ecnt. unfold sweep_count. pose proof (div2_spec (S (lst - first - t))) as H.
  set (c := Nat.div2 _) in *. clearbody c. clear - H Hfl. lia.
Qed.

Lemma st_lsweep : forall n i, first <= i -> i + n <= ie ->
  lsweep Rops p Ub u t W i (getp A (i - 1)) n = map (getp A) (seq i n).
Proof.
  pose proof cnt_cases as Hc.
  induction n as [|n IH]; intros i H1 H2; [reflexivity|].
  cbn [lsweep seq map]. rewrite Hal_i by lia. rewrite HW_L by lia.
  rewrite unlerp_i_lerp; [| apply Hne; lia | rewrite !HdimA by lia; reflexivity].
  f_equal. specialize (IH (S i)). replace (S i - 1) with i in IH by (clear; lia). apply IH; lia.
Qed.

Lemma st_rsweep : forall n j, j <= lst -> je + n <= j ->
  rsweep Rops p Ub u t W j (getp A (j - t)) n = map (fun m => getp A (j - t - 1 - m)) (seq 0 n).
Proof.
  pose proof cnt_cases as Hc.
  induction n as [|n IH]; intros j H1 H2; [reflexivity|].
  assert (Hjt : S t <= j) by lia.
  cbn [rsweep seq map]. rewrite Hal_j by lia. rewrite HW_R by lia.
  rewrite unlerp_j_lerp; [| apply Hne; lia | rewrite !HdimA by lia; reflexivity].
  rewrite Nat.sub_0_r. f_equal.
  specialize (IH (Nat.pred j)). replace (Nat.pred j) with (j - 1) in * by (clear; lia).
  replace (j - 1 - t) with (j - t - 1) in IH by (clear; lia).
  rewrite IH by lia. rewrite <- seq_shift, map_map. apply map_ext. intros m. f_equal. clear. lia.
Qed.

Lemma st_test : rem_test Rops td p Ub u sp ml W t = 0%R.
Proof.
  pose proof cnt_cases as Hc.
  unfold rem_test. rewrite <- Efirst, <- Elst, <- Ecnt. cbv zeta.
  rewrite (HW_lo (first - 1)) by lia.
  rewrite (HW_hi (S lst)) by lia. replace (S lst - t - 1) with (lst - t) by (clear; lia).
  rewrite st_lsweep by lia. rewrite st_rsweep by lia.
  rewrite (last_map_seq (getp A) first cnt) by lia.
  rewrite (last_map_rev (getp A) (lst - t) cnt).
  replace (first + cnt) with ie by lia. replace (lst - cnt) with je by lia.
  destruct (Nat.ltb_spec je (ie + t)) as [Hb|Hb].
  - replace (lst - t - cnt) with (ie - 1) by lia.
    apply dist2_refl.
  - assert (Hm : je = ie + t) by lia.
    rewrite Hal_i by lia. rewrite HW_mid by exact Hm.
    replace (lst - t - cnt) with ie by lia.
    rewrite mix_lerp. rewrite <- firstn_lerp. apply dist2_refl.
Qed.

Lemma st_nth idx : idx < length W ->
  getp (rem_step Rops td tol2 p Ub u sp ml W t) idx =
    if Nat.ltb idx ie then getp A idx
    else if Nat.ltb je idx then getp A (idx - t - 1)
    else getp W idx.
Proof.
  intros Hidx. pose proof cnt_cases as Hc.
  unfold rem_step. rewrite st_test. cbn [oleb Rops]. rewrite (Rleb_true 0 tol2) by exact Htol.
  rewrite <- Efirst, <- Elst, <- Ecnt. cbv zeta.
  rewrite (HW_lo (first - 1)) by lia.
  rewrite (HW_hi (S lst)) by lia. replace (S lst - t - 1) with (lst - t) by (clear; lia).
  rewrite st_lsweep by lia. rewrite st_rsweep by lia.
  unfold getp at 1. rewrite nth_map_seq by lia.
  replace (first + cnt) with ie by lia. replace (lst - cnt) with je by lia.
  destruct (Nat.ltb_spec idx ie) as [H1|H1].
  - destruct (Nat.leb_spec first idx) as [H2|H2]; cbn [andb].
    + rewrite nth_map_seq_from by lia. f_equal. clear - H2. lia.
    + destruct (Nat.ltb_spec je idx) as [H3|H3]; [lia|]. cbn [andb].
      fold (getp W idx). apply HW_lo. lia.
  - rewrite andb_false_r.
    destruct (Nat.ltb_spec je idx) as [H3|H3].
    + destruct (Nat.leb_spec idx lst) as [H4|H4]; cbn [andb].
      * rewrite nth_map_seq by lia. f_equal.
        assert (Ht : S t <= idx) by lia. clear - H4 Ht. lia.
      * fold (getp W idx). apply HW_hi. lia.
    + cbn [andb]. reflexivity.
Qed.

Lemma st_both : rem_test Rops td p Ub u sp ml W t = 0%R /\
  forall idx, idx < length W ->
  getp (rem_step Rops td tol2 p Ub u sp ml W t) idx =
    if Nat.ltb idx ie then getp A idx
    else if Nat.ltb je idx then getp A (idx - t - 1)
    else getp W idx.
Proof. split; [exact st_test|exact st_nth]. Qed.
End Step.

(* ------------------------------------------------------------------ j removals after r insertions *)
Section Inst.
Variables (td : nat) (tol2 : R) (p : nat) (U : list R) (P : list (list R)) (u : R) (s k d r : nat).
Hypothesis Hsr : s + r <= p.
Hypothesis Hpk : p <= k.
Hypothesis HkP : k < length P.
Hypothesis HkU : k + p < length U.
Hypothesis Hdim : Forall (fun pt => length pt = d) P.
Hypothesis Htol : (0 <= tol2)%R.
(* u lies strictly right of U[k-s] and strictly left of U[k+1] (stated on the windows that are read) *)
Hypothesis HsepL : forall i, k - p < i <= k - s -> (knR U i < u)%R.
Hypothesis HsepR : forall j, k < j <= k + p -> (u < knR U j)%R.

Let KI (m : nat) := knot_insertion Rops p U P u m s k.
Let UU (m : nat) := knot_insertion_kv U u k m.
Let al (m y : nat) : R := ((u - knR (UU m) y) / (knR (UU m) (y + p) - knR (UU m) y))%R.

Lemma Pdim i : i < length P -> length (getp P i) = d.
Proof. intros H. unfold getp. rewrite Forall_forall in Hdim. apply Hdim. apply nth_In. exact H. Qed.

Lemma KI_length m : m <= r -> length (KI m) = length P + m.
Proof. intros Hm. unfold KI. destruct (knot_insertion_frame Rops p U P u m s k) as [HL _]; auto; lia. Qed.

Lemma KI_dim m y : m <= r -> y < length P + m -> length (getp (KI m) y) = d.
Proof. intros Hm Hy. unfold KI. apply ki_dim; auto; try lia. exact Pdim. Qed.

Lemma KI_succ m : m < r -> KI (S m) = insert1_net p (UU m) (KI m) u (s + m) (k + m).
Proof.
  intros Hm. unfold KI at 1.
  rewrite (knot_insertion_is_g Rops p U P u (S m)).
  rewrite (ki_succ Rops (lerp Rops) [] p U P u m s k) by lia.
  rewrite <- !knot_insertion_is_g. fold (KI m). fold (UU m).
  apply insert1_net_is_model; try lia. rewrite KI_length; lia.
Qed.

Lemma UU_nth m i : knR (UU m) i = if Nat.leb i k then knR U i else if Nat.leb i (k + m) then u else knR U (i - m).
Proof. unfold UU. apply knot_insertion_kv_nth. lia. Qed.

Lemma sepm m : m < r -> forall i, k + m - p < i <= k + m - (s + m) -> (knR (UU m) i < u < knR (UU m) (i + p))%R.
Proof.
  intros Hm i Hi. rewrite !UU_nth.
  destruct (Nat.leb_spec i k); [|lia].
  destruct (Nat.leb_spec (i + p) k); [lia|].
  destruct (Nat.leb_spec (i + p) (k + m)); [lia|].
  split; [apply HsepL|apply HsepR]; lia.
Qed.

Definition fs (t : nat) := k + r - p - t.
Definition ls (t : nat) := k + r - (s + r) + t.
Definition cn (t : nat) := sweep_count (fs t) (ls t) t.
Definition ee (t : nat) := fs t + cn t.
Definition ff (t : nat) := ls t - cn t.

Lemma cn_facts t : t < r ->
  fs t + p + t = k + r /\ ls t + s = k + t /\ ee t = fs t + cn t /\ ff t + cn t = ls t /\
  (ls t = fs t + t + 2 * cn t \/ (ls t + 1 = fs t + t + 2 * cn t /\ 1 <= cn t)).
Proof.
  intros Ht. unfold ee, ff, cn, sweep_count.
  pose proof (div2_spec (S (ls t - fs t - t))) as H. set (c := Nat.div2 _) in *. clearbody c.
  unfold fs, ls in *. lia.
Qed.

(* the working array after n passes: left of the last sweep end the (r-n)-fold insertion, right of it the same, n slots further *)
Definition Inv (n : nat) (W : list (list R)) : Prop :=
  length W = length P + r /\
  (forall x, x < length W -> (n = 0 \/ x < ee (n - 1)) -> getp W x = getp (KI (r - n)) x) /\
  (forall x, x < length W -> (n = 0 \/ ff (n - 1) < x) -> getp W x = getp (KI (r - n)) (x - n)).

Lemma inv_step_both n W : n < r -> Inv n W ->
  rem_test Rops td p (UU r) u (k + r) (s + r) W n = 0%R /\
  Inv (S n) (rem_step Rops td tol2 p (UU r) u (k + r) (s + r) W n).
Proof.
  intros Hn (HL & Hlo & Hhi).
  pose proof (cn_facts n Hn) as (F1 & F2 & F3 & F4 & F5).
  set (m := r - S n).
  assert (Em : r - n = S m) by (unfold m; lia).
  assert (Hm : m < r) by (unfold m; lia).
  assert (Emn : m + n + 1 = r) by (unfold m; lia).
  (* the valid parts of W *)
  assert (A1 : forall x, x < length W -> (x < ee n \/ (x = ee n /\ ff n = ee n + n)) -> getp W x = getp (KI (S m)) x).
  { intros x Hx Hc. rewrite <- Em. apply Hlo; [exact Hx|].
    destruct n as [|n']; [left; reflexivity|right].
    replace (S n' - 1) with n' by lia.
    pose proof (cn_facts n' ltac:(lia)) as (G1 & G2 & G3 & G4 & G5). lia. }
  assert (A2 : forall x, x < length W -> ff n < x -> getp W x = getp (KI (S m)) (x - n)).
  { intros x Hx Hc. rewrite <- Em. apply Hhi; [exact Hx|].
    destruct n as [|n']; [left; reflexivity|right].
    replace (S n' - 1) with n' by lia.
    pose proof (cn_facts n' ltac:(lia)) as (G1 & G2 & G3 & G4 & G5). lia. }
  rewrite KI_succ in A1, A2 by exact Hm.
  assert (HLm : length (KI m) = length P + m) by (apply KI_length; lia).
  assert (HS : rem_test Rops td p (UU r) u (k + r) (s + r) W n = 0%R /\ forall idx, idx < length W ->
    getp (rem_step Rops td tol2 p (UU r) u (k + r) (s + r) W n) idx =
      if Nat.ltb idx (ee n) then getp (KI m) idx
      else if Nat.ltb (ff n) idx then getp (KI m) (idx - n - 1) else getp W idx).
  { apply (st_both td tol2 p (UU r) u (k + r) (s + r) n W (KI m) d (al m) (fs n) (ls n) (cn n) (ee n) (ff n));
      try reflexivity; try assumption; try lia.
    - intros y Hy. apply KI_dim; lia.
    - (* alpha_i *)
      intros x Hx. unfold rem_alpha_i, al. rsimp. rewrite !UU_nth.
      destruct (Nat.leb_spec x k); [|lia].
      destruct (Nat.leb_spec (x + p + 1 + n) k); [lia|].
      destruct (Nat.leb_spec (x + p + 1 + n) (k + r)); [lia|].
      destruct (Nat.leb_spec (x + p) k); [lia|].
      destruct (Nat.leb_spec (x + p) (k + m)); [lia|].
      replace (x + p + 1 + n - r) with (x + p - m) by lia. reflexivity.
    - (* alpha_j *)
      intros x Hx. unfold rem_alpha_j, al. rsimp. rewrite !UU_nth.
      destruct (Nat.leb_spec (x - n) k); [|lia].
      destruct (Nat.leb_spec (x + p + 1) k); [lia|].
      destruct (Nat.leb_spec (x + p + 1) (k + r)); [lia|].
      destruct (Nat.leb_spec (x - n + p) k); [lia|].
      destruct (Nat.leb_spec (x - n + p) (k + m)); [lia|].
      replace (x + p + 1 - r) with (x - n + p - m) by lia. reflexivity.
    - (* alphas differ from 0 and 1 *)
      intros y Hy. unfold al.
      apply (alpha_ne p (UU m) (KI m) u (s + m) (k + m)); try lia.
      + unfold UU. rewrite kv_length. lia.
      + apply sepm. exact Hm.
    - (* left of the window *)
      intros x Hx. rewrite A1 by lia. apply Q_lo; try lia. unfold UU. rewrite kv_length. lia.
    - (* left sweep *)
      intros x Hx. rewrite A1 by lia. unfold al.
      apply (Q_mid p (UU m) (KI m) u (s + m) (k + m)); try lia. unfold UU. rewrite kv_length. lia.
    - (* middle slot *)
      intros Hmid. rewrite A1 by lia. unfold al.
      apply (Q_mid p (UU m) (KI m) u (s + m) (k + m)); try lia. unfold UU. rewrite kv_length. lia.
    - (* right sweep *)
      intros x Hx. rewrite A2 by lia. unfold al.
      replace (x - n - 1) with (x - n - 1) by reflexivity.
      apply (Q_mid p (UU m) (KI m) u (s + m) (k + m)); try lia. unfold UU. rewrite kv_length. lia.
    - (* right of the window *)
      intros x Hx. rewrite A2 by lia. replace (x - n - 1) with (x - n - 1) by reflexivity.
      apply Q_hi; try lia. unfold UU. rewrite kv_length. lia. }
  destruct HS as [HT HS]. split; [exact HT|].
  unfold Inv. rewrite rem_step_length.
  replace (r - S n) with m by reflexivity. replace (S n - 1) with n by lia.
  split; [exact HL|]. split.
  - intros x Hx [Hc|Hc]; [discriminate|]. rewrite HS by exact Hx.
    destruct (Nat.ltb_spec x (ee n)); [reflexivity|lia].
  - intros x Hx [Hc|Hc]; [discriminate|]. rewrite HS by exact Hx.
    destruct (Nat.ltb_spec x (ee n)) as [H1|H1].
    + (* impossible: ff n < x < ee n *) lia.
    + destruct (Nat.ltb_spec (ff n) x); [|lia]. f_equal. lia.
Qed.

Lemma inv_step n W : n < r -> Inv n W -> Inv (S n) (rem_step Rops td tol2 p (UU r) u (k + r) (s + r) W n).
Proof. intros Hn HI. apply inv_step_both; assumption. Qed.

Lemma inv_0 : Inv 0 (KI r).
Proof.
  unfold Inv. rewrite KI_length by lia. rewrite Nat.sub_0_r.
  split; [reflexivity|]. split; intros x _ _; [reflexivity|]. rewrite Nat.sub_0_r. reflexivity.
Qed.

Lemma inv_fold n : n <= r -> Inv n (fold_left (rem_step Rops td tol2 p (UU r) u (k + r) (s + r)) (seq 0 n) (KI r)).
Proof.
  induction n as [|n IH]; intros Hn.
  - cbn [seq fold_left]. apply inv_0.
  - rewrite seq_S_end, fold_left_app. cbn [fold_left Nat.add]. apply inv_step; [lia|apply IH; lia].
Qed.

(* at every pass the Eq. 5.30 distance is exactly 0: the knot is found removable for every tolerance *)
Theorem remove_pass_test_zero_net t : t < r ->
  rem_test Rops td p (UU r) u (k + r) (s + r)
    (fold_left (rem_step Rops td tol2 p (UU r) u (k + r) (s + r)) (seq 0 t) (KI r)) t = 0%R.
Proof. intros Ht. apply inv_step_both; [exact Ht|apply inv_fold; lia]. Qed.

(* j removals after r insertions leave r - j insertions *)
Theorem remove_j_insert_r_net j : 1 <= j <= r ->
  knot_removal Rops td tol2 p (UU r) (KI r) u j (s + r) (k + r) = KI (r - j).
Proof.
  intros Hj. unfold knot_removal. destruct (Nat.ltb_spec j 1) as [H0|_]; [lia|]. cbv zeta.
  pose proof (inv_fold j ltac:(lia)) as (HL & Hlo & Hhi).
  set (W := fold_left _ _ _) in *.
  pose proof (cn_facts (j - 1) ltac:(lia)) as (F1 & F2 & F3 & F4 & F5).
  pose proof (div2_spec (2 * (k + r) - (s + r) - p)) as D0.
  pose proof (div2_spec j) as D1. pose proof (div2_spec (j - 1)) as D2.
  set (j0 := Nat.div2 (2 * (k + r) - (s + r) - p)) in *.
  set (h1 := Nat.div2 j) in *. set (h2 := Nat.div2 (j - 1)) in *.
  clearbody j0 h1 h2.
  assert (HK : length (KI (r - j)) = length P + (r - j)) by (apply KI_length; lia).
  assert (Hlo' : forall x, x < length W -> x < ee (j - 1) -> getp W x = getp (KI (r - j)) x)
    by (intros x H1 H2; apply Hlo; [exact H1|right; exact H2]).
  assert (Hhi' : forall x, x < length W -> ff (j - 1) < x -> getp W x = getp (KI (r - j)) (x - j))
    by (intros x H1 H2; apply Hhi; [exact H1|right; exact H2]).
  clear Hlo Hhi.
  assert (Hx : exists jj, jj + h2 = j0 /\ jj <= ee (j - 1) /\ ff (j - 1) < jj + j /\ j0 + h1 + 1 = jj + j /\ jj + j <= length P + r).
  { exists (j0 - h2). lia. }
  destruct Hx as (jj & X1 & X2 & X3 & X4 & X5).
  replace (j0 - h2) with jj by lia. replace (S (j0 + h1)) with (jj + j) by lia.
  clear F1 F2 F3 F4 F5 D0 D1 D2 X1 X4.
  apply nth_ext with (d := []) (d' := []).
  - rewrite app_length, firstn_length, skipn_length, HL, HK. lia.
  - intros n Hn. rewrite app_length, firstn_length, skipn_length, HL in Hn.
    destruct (Nat.lt_ge_cases n jj) as [Hlt|Hge].
    + rewrite app_nth1 by (rewrite firstn_length, HL; lia).
      rewrite nth_firstn_lt by exact Hlt.
      apply Hlo'; lia.
    + rewrite app_nth2 by (rewrite firstn_length, HL; lia).
      rewrite firstn_length, HL. replace (Nat.min jj (length P + r)) with jj by lia.
      rewrite nth_skipn_add.
      replace (jj + j + (n - jj)) with (n + j) by lia.
      fold (getp W (n + j)). rewrite Hhi' by lia. unfold getp. f_equal. lia.
Qed.
End Inst.

(* ------------------------------------------------------------------ statements on the model functions *)
Lemma sep_of_sorted U u p s k : sortedR U -> k + p < length U ->
  (knR U (k - s) < u)%R -> (u < knR U (k + 1))%R ->
  (forall i, k - p < i <= k - s -> (knR U i < u)%R) /\ (forall j, k < j <= k + p -> (u < knR U j)%R).
Proof.
  intros HS HL H1 H2. split.
  - intros i Hi. apply Rle_lt_trans with (knR U (k - s)); [apply HS; lia|exact H1].
  - intros j Hj. apply Rlt_le_trans with (knR U (k + 1)); [exact H2|apply HS; lia].
Qed.

(* [G] j removals after r insertions = r - j insertions, under the bare separation hypotheses *)
Theorem remove_j_insert_r_seps td tol2 p (U : list R) (P : list (list R)) (u : R) s k d r j :
  1 <= j <= r -> s + r <= p -> p <= k -> k < length P -> k + p < length U ->
  Forall (fun pt => length pt = d) P -> (0 <= tol2)%R ->
  (forall i, k - p < i <= k - s -> (knR U i < u)%R) -> (forall i, k < i <= k + p -> (u < knR U i)%R) ->
  knot_removal Rops td tol2 p (knot_insertion_kv U u k r) (knot_insertion Rops p U P u r s k) u j (s + r) (k + r)
  = knot_insertion Rops p U P u (r - j) s k.
Proof. intros. eapply remove_j_insert_r_net; eassumption. Qed.

(* [G] the same for a sorted knot vector with U[k-s] < u < U[k+1] *)
Theorem remove_j_insert_r td tol2 p (U : list R) (P : list (list R)) (u : R) s k d r j :
  sortedR U -> 1 <= j <= r -> s + r <= p -> p <= k -> k < length P -> k + p < length U ->
  (knR U (k - s) < u)%R -> (u < knR U (k + 1))%R ->
  Forall (fun pt => length pt = d) P -> (0 <= tol2)%R ->
  knot_removal Rops td tol2 p (knot_insertion_kv U u k r) (knot_insertion Rops p U P u r s k) u j (s + r) (k + r)
  = knot_insertion Rops p U P u (r - j) s k.
Proof.
  intros HS Hj H1 H2 H3 H4 H5 H6 H7 H8.
  destruct (sep_of_sorted U u p s k HS H4 H5 H6) as [SL SR].
  eapply remove_j_insert_r_seps; eassumption.
Qed.

(* [G] r removals after r insertions restore the control points: the statement C06_remove_r_insert_r_id_full of Props/C06.v *)
Theorem remove_r_insert_r_id : forall td tol2 p (U : list R) (P : list (list R)) (u : R) s k d r,
  sortedR U -> 1 <= r -> s + r <= p -> p <= k -> k < length P -> k + p < length U ->
  (knR U (k - s) < u)%R -> (u < knR U (k + 1))%R ->
  Forall (fun pt => length pt = d) P -> (0 <= tol2)%R ->
  knot_removal Rops td tol2 p (knot_insertion_kv U u k r) (knot_insertion Rops p U P u r s k) u r (s + r) (k + r) = P.
Proof.
  intros td tol2 p U P u s k d r HS Hr H1 H2 H3 H4 H5 H6 H7 H8.
  rewrite (remove_j_insert_r td tol2 p U P u s k d r r) by (auto; lia).
  rewrite Nat.sub_diag. apply ki_zero; lia.
Qed.

Theorem remove_r_insert_r_id_seps td tol2 p (U : list R) (P : list (list R)) (u : R) s k d r :
  1 <= r -> s + r <= p -> p <= k -> k < length P -> k + p < length U ->
  Forall (fun pt => length pt = d) P -> (0 <= tol2)%R ->
  (forall i, k - p < i <= k - s -> (knR U i < u)%R) -> (forall i, k < i <= k + p -> (u < knR U i)%R) ->
  knot_removal Rops td tol2 p (knot_insertion_kv U u k r) (knot_insertion Rops p U P u r s k) u r (s + r) (k + r) = P.
Proof.
  intros. rewrite (remove_j_insert_r_seps td tol2 p U P u s k d r r) by (auto; lia).
  rewrite Nat.sub_diag. apply ki_zero; lia.
Qed.

Print Assumptions remove_j_insert_r.
Print Assumptions remove_r_insert_r_id.

(* [G] at every pass t < r of the removal loop the Eq. 5.30 distance is exactly 0 (the knot is found removable for every
   tolerance >= 0); the working array of pass t is the fold of the previous passes *)
Theorem remove_pass_test_zero td tol2 p (U : list R) (P : list (list R)) (u : R) s k d r t :
  sortedR U -> t < r -> s + r <= p -> p <= k -> k < length P -> k + p < length U ->
  (knR U (k - s) < u)%R -> (u < knR U (k + 1))%R ->
  Forall (fun pt => length pt = d) P -> (0 <= tol2)%R ->
  rem_test Rops td p (knot_insertion_kv U u k r) u (k + r) (s + r)
    (fold_left (rem_step Rops td tol2 p (knot_insertion_kv U u k r) u (k + r) (s + r)) (seq 0 t)
       (knot_insertion Rops p U P u r s k)) t = 0%R.
Proof.
  intros HS Ht H1 H2 H3 H4 H5 H6 H7 H8.
  destruct (sep_of_sorted U u p s k HS H4 H5 H6) as [SL SR].
  eapply remove_pass_test_zero_net; eassumption.
Qed.
Print Assumptions remove_pass_test_zero.

(* ------------------------------------------------------------------ the curve is unchanged *)
(* [G] after r insertions of u, removing u again j <= r times (knot vector by knot_removal_kv, control points by
   knot_removal, called as operations.remove_knot calls them) leaves every coordinate of every curve point unchanged:
   the curve after the removal = the curve before it = the original curve.  Uses the C04 theorem (insertion with any
   admissible count preserves the curve) for the counts r and r - j. *)
Theorem remove_preserves_curve_after_insertion td tol2 p (U : list R) (P : list (list R)) (u : R) s k dim r j :
  sortedR U -> length U = length P + p + 1 -> 1 <= j <= r -> s + r <= p -> p <= k -> k < length P ->
  (knR U k <= u < knR U (k + 1))%R -> (knR U (k - s) < u)%R ->
  (forall i, k - s < i <= k -> knR U i = u) ->
  (forall i, i < length P -> length (getp P i) = dim) -> (0 <= tol2)%R ->
  forall c x, c < dim ->
  curve_pt p (knot_removal_kv (knot_insertion_kv U u k r) (k + r) j)
             (knot_removal Rops td tol2 p (knot_insertion_kv U u k r) (knot_insertion Rops p U P u r s k) u j (s + r) (k + r)) c x
  = curve_pt p (knot_insertion_kv U u k r) (knot_insertion Rops p U P u r s k) c x
  /\ curve_pt p (knot_insertion_kv U u k r) (knot_insertion Rops p U P u r s k) c x = curve_pt p U P c x.
Proof.
  intros HS HL Hj H1 H2 H3 Hu H5 Hm Hd Ht c x Hc.
  assert (HF : Forall (fun pt => length pt = dim) P).
  { rewrite Forall_forall. intros pt Hin. destruct (In_nth P pt [] Hin) as (i & Hi & <-). apply Hd. exact Hi. }
  rewrite (remove_j_insert_r td tol2 p U P u s k dim r j) by (auto; try lia; lra).
  rewrite rem_kv_ins_kv_partial by lia.
  rewrite !(insertN_model_preserves_curve p U P u s k dim) by (auto; lia).
  split; reflexivity.
Qed.
Print Assumptions remove_preserves_curve_after_insertion.
