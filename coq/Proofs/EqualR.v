(* C19: __eq__ of spline geometries (repaired model) is an equivalence-like relation that tracks the definition. *)
From Coq Require Import List Arith Bool Reals Lra Lia.
From NV Require Import Scalar.Ops Model.Common Model.Equal.
Import ListNotations.
Local Open Scope nat_scope.

Section Zip.
Context {A : Type}.
Lemma zipall_refl (f : A -> A -> bool) a : (forall x, f x x = true) -> zipall f a a = true.
Proof. intro H. unfold zipall. induction a; simpl; auto. rewrite H, IHa. reflexivity. Qed.
Lemma zipall_sym (f : A -> A -> bool) : (forall x y, f x y = f y x) -> forall a b, zipall f a b = zipall f b a.
Proof. intro H. unfold zipall. induction a; intros [|y b]; simpl; auto. rewrite H, IHa. reflexivity. Qed.
Lemma zipall_nth (f : A -> A -> bool) d : forall a b, zipall f a b = true ->
  forall i, i < length a -> i < length b -> f (nth i a d) (nth i b d) = true.
Proof.
  unfold zipall. induction a; intros [|y b] H i Ha Hb; simpl in *; try lia.
  apply andb_prop in H. destruct H as [H1 H2]. destruct i; auto. apply IHa; auto; lia.
Qed.
Lemma zipall_false (f : A -> A -> bool) d : forall a b i, i < length a -> i < length b ->
  f (nth i a d) (nth i b d) = false -> zipall f a b = false.
Proof.
  intros a b i Ha Hb Hf. destruct (zipall f a b) eqn:E; auto.
  rewrite (zipall_nth f d a b E i Ha Hb) in Hf. discriminate.
Qed.
Lemma zipall_eq_nat : forall (a b : list nat), length a = length b -> zipall Nat.eqb a b = true -> a = b.
Proof.
  unfold zipall. induction a; intros [|y b] HL H; simpl in *; try discriminate; auto.
  apply andb_prop in H. destruct H as [H1 H2]. apply Nat.eqb_eq in H1. subst. f_equal. apply IHa; auto.
Qed.
End Zip.

Local Open Scope R_scope.
Lemma oabs_R x : oabs Rops x = Rabs x.
Proof.
  unfold oabs, oneg. rsimp. unfold Rleb. destruct (Rle_dec 0 x).
  - rewrite Rabs_right; lra.
  - rewrite Rabs_left; lra.
Qed.
Lemma close_lt_iff tol a b : close_lt Rops tol a b = true <-> Rabs (a - b) < tol.
Proof.
  unfold close_lt. rewrite oabs_R. rsimp. unfold Rltb. destruct (Rlt_dec (Rabs (a - b)) tol); split; auto; discriminate.
Qed.
Lemma close_lt_false tol a b : tol <= Rabs (a - b) -> close_lt Rops tol a b = false.
Proof. intro H. destruct (close_lt Rops tol a b) eqn:E; auto. apply close_lt_iff in E. lra. Qed.
Lemma close_lt_refl tol a : 0 < tol -> close_lt Rops tol a a = true.
Proof. intro H. apply close_lt_iff. replace (a - a) with 0 by ring. rewrite Rabs_R0. exact H. Qed.
Lemma close_lt_sym tol a b : close_lt Rops tol a b = close_lt Rops tol b a.
Proof.
  destruct (close_lt Rops tol b a) eqn:E.
  - apply close_lt_iff. apply close_lt_iff in E. rewrite Rabs_minus_sym. exact E.
  - destruct (close_lt Rops tol a b) eqn:E2; auto. apply close_lt_iff in E2. rewrite Rabs_minus_sym in E2.
    apply close_lt_iff in E2. congruence.
Qed.
Lemma vec_close_refl tol a : 0 < tol -> vec_close Rops tol a a = true.
Proof. intro H. unfold vec_close. rewrite Nat.eqb_refl, zipall_refl; auto. intro; apply close_lt_refl; exact H. Qed.
Lemma vec_close_sym tol a b : vec_close Rops tol a b = vec_close Rops tol b a.
Proof. unfold vec_close. rewrite Nat.eqb_sym. f_equal. apply zipall_sym. intros; apply close_lt_sym. Qed.
Lemma vec_close_spec tol a b : vec_close Rops tol a b = true ->
  length a = length b /\ forall j, (j < length a)%nat -> Rabs (nth j a 0 - nth j b 0) < tol.
Proof.
  unfold vec_close. intro H. apply andb_prop in H. destruct H as [H1 H2]. apply Nat.eqb_eq in H1. split; auto.
  intros j Hj. apply close_lt_iff. apply (zipall_nth _ 0 a b H2 j); lia.
Qed.
Lemma vec_close_false tol a b j : (j < length a)%nat -> (j < length b)%nat -> tol <= Rabs (nth j a 0 - nth j b 0) ->
  vec_close Rops tol a b = false.
Proof.
  intros Ha Hb H. unfold vec_close. rewrite (zipall_false _ 0 a b j Ha Hb (close_lt_false _ _ _ H)). apply andb_false_r.
Qed.

Theorem eq_refl_R tol (a : @shape R) : 0 < tol -> shape_eq Rops tol a a = true.
Proof.
  intro H. unfold shape_eq. rewrite Nat.eqb_refl, eqb_reflx, !zipall_refl; auto using Nat.eqb_refl.
  all: intro; apply vec_close_refl; exact H.
Qed.
Theorem eq_sym_R tol (a b : @shape R) : shape_eq Rops tol a b = shape_eq Rops tol b a.
Proof.
  unfold shape_eq. rewrite (Nat.eqb_sym (sh_pdim a)).
  replace (Bool.eqb (sh_rat a) (sh_rat b)) with (Bool.eqb (sh_rat b) (sh_rat a)) by (destruct (sh_rat a), (sh_rat b); reflexivity).
  rewrite (zipall_sym Nat.eqb Nat.eqb_sym (sh_size a)), (zipall_sym Nat.eqb Nat.eqb_sym (sh_deg a)).
  rewrite (zipall_sym _ (vec_close_sym tol) (sh_kv a)), (zipall_sym _ (vec_close_sym tol) (sh_cp a)). reflexivity.
Qed.

(* equal only if: same kind and rationality, sizes / degrees agree, knot vectors and (homogeneous) control points
   have the same lengths and agree within the tolerance *)
Theorem eq_implies_components_close tol (a b : @shape R) : shape_eq Rops tol a b = true ->
  sh_pdim a = sh_pdim b /\ sh_rat a = sh_rat b /\
  (forall k, (k < length (sh_size a))%nat -> (k < length (sh_size b))%nat -> nth k (sh_size a) 0%nat = nth k (sh_size b) 0%nat) /\
  (forall k, (k < length (sh_deg a))%nat -> (k < length (sh_deg b))%nat -> nth k (sh_deg a) 0%nat = nth k (sh_deg b) 0%nat) /\
  (forall k, (k < length (sh_kv a))%nat -> (k < length (sh_kv b))%nat ->
     length (nth k (sh_kv a) []) = length (nth k (sh_kv b) []) /\
     forall j, (j < length (nth k (sh_kv a) []))%nat -> Rabs (nth j (nth k (sh_kv a) []) 0 - nth j (nth k (sh_kv b) []) 0) < tol) /\
  (forall i, (i < length (sh_cp a))%nat -> (i < length (sh_cp b))%nat ->
     length (nth i (sh_cp a) []) = length (nth i (sh_cp b) []) /\
     forall j, (j < length (nth i (sh_cp a) []))%nat -> Rabs (nth j (nth i (sh_cp a) []) 0 - nth j (nth i (sh_cp b) []) 0) < tol).
Proof.
  unfold shape_eq. intro H. repeat (apply andb_prop in H; destruct H as [? H]).
  repeat split.
  - apply Nat.eqb_eq; assumption.
  - apply eqb_prop; assumption.
  - intros k Ha Hb. apply Nat.eqb_eq. apply (zipall_nth _ 0%nat _ _ H2 k Ha Hb).
  - intros k Ha Hb. apply Nat.eqb_eq. apply (zipall_nth _ 0%nat _ _ H3 k Ha Hb).
  - apply (vec_close_spec tol). apply (zipall_nth _ [] _ _ H4 k); assumption.
  - apply (vec_close_spec tol). apply (zipall_nth _ [] _ _ H4 k); assumption.
  - apply (vec_close_spec tol). apply (zipall_nth _ [] _ _ H i); assumption.
  - apply (vec_close_spec tol). apply (zipall_nth _ [] _ _ H i); assumption.
Qed.

(* for well-formed shapes equality forces equal size and degree vectors and equally many knot vectors / points *)
Theorem eq_wf_same_layout tol (a b : @shape R) : wf_shape a -> wf_shape b -> shape_eq Rops tol a b = true ->
  sh_size a = sh_size b /\ sh_deg a = sh_deg b /\ length (sh_kv a) = length (sh_kv b) /\ length (sh_cp a) = length (sh_cp b).
Proof.
  intros (A1 & A2 & A3 & A4) (B1 & B2 & B3 & B4) H. unfold shape_eq in H.
  repeat (apply andb_prop in H; destruct H as [? H]). apply Nat.eqb_eq in H0.
  assert (S: sh_size a = sh_size b) by (apply zipall_eq_nat; [congruence|assumption]).
  repeat split; auto.
  - apply zipall_eq_nat; [congruence|assumption].
  - congruence.
  - rewrite A4, B4, S. reflexivity.
Qed.

(* changing one component by at least the tolerance (resp. changing a degree, size, kind, rationality) makes the
   shapes unequal, whatever the other components are *)
Theorem coord_change_implies_neq tol (a b : @shape R) i j :
  (i < length (sh_cp a))%nat -> (i < length (sh_cp b))%nat ->
  (j < length (nth i (sh_cp a) []))%nat -> (j < length (nth i (sh_cp b) []))%nat ->
  tol <= Rabs (nth j (nth i (sh_cp a) []) 0 - nth j (nth i (sh_cp b) []) 0) -> shape_eq Rops tol a b = false.
Proof.
  intros Ha Hb Hja Hjb H. unfold shape_eq.
  rewrite (zipall_false _ [] (sh_cp a) (sh_cp b) i Ha Hb (vec_close_false tol _ _ j Hja Hjb H)).
  rewrite !andb_false_r. reflexivity.
Qed.
Theorem knot_change_implies_neq tol (a b : @shape R) k j :
  (k < length (sh_kv a))%nat -> (k < length (sh_kv b))%nat ->
  (j < length (nth k (sh_kv a) []))%nat -> (j < length (nth k (sh_kv b) []))%nat ->
  tol <= Rabs (nth j (nth k (sh_kv a) []) 0 - nth j (nth k (sh_kv b) []) 0) -> shape_eq Rops tol a b = false.
Proof.
  intros Ha Hb Hja Hjb H. unfold shape_eq.
  rewrite (zipall_false _ [] (sh_kv a) (sh_kv b) k Ha Hb (vec_close_false tol _ _ j Hja Hjb H)).
  rewrite !andb_false_r. reflexivity.
Qed.
Theorem degree_change_implies_neq tol (a b : @shape R) k :
  (k < length (sh_deg a))%nat -> (k < length (sh_deg b))%nat -> nth k (sh_deg a) 0%nat <> nth k (sh_deg b) 0%nat ->
  shape_eq Rops tol a b = false.
Proof.
  intros Ha Hb H. unfold shape_eq. apply Nat.eqb_neq in H.
  rewrite (zipall_false _ 0%nat (sh_deg a) (sh_deg b) k Ha Hb H). rewrite !andb_false_r. reflexivity.
Qed.
Theorem size_change_implies_neq tol (a b : @shape R) k :
  (k < length (sh_size a))%nat -> (k < length (sh_size b))%nat -> nth k (sh_size a) 0%nat <> nth k (sh_size b) 0%nat ->
  shape_eq Rops tol a b = false.
Proof.
  intros Ha Hb H. unfold shape_eq. apply Nat.eqb_neq in H.
  rewrite (zipall_false _ 0%nat (sh_size a) (sh_size b) k Ha Hb H). rewrite !andb_false_r. reflexivity.
Qed.
Theorem kind_change_implies_neq tol (a b : @shape R) : sh_pdim a <> sh_pdim b -> shape_eq Rops tol a b = false.
Proof. intro H. unfold shape_eq. apply Nat.eqb_neq in H. rewrite H. reflexivity. Qed.
Theorem rational_change_implies_neq tol (a b : @shape R) : sh_rat a <> sh_rat b -> shape_eq Rops tol a b = false.
Proof.
  intro H. unfold shape_eq. replace (Bool.eqb (sh_rat a) (sh_rat b)) with false; [apply andb_false_r|].
  destruct (sh_rat a), (sh_rat b); auto; contradiction.
Qed.
