(* Ties: generated _voxelize.is_point_inside_voxel / find_inouts_st (Gen/Voxelize.v) = Model/Voxel.v.
   The source calls linalg.vector_dot (a left sum), the model vdot (a right sum): stated under sum_laws K. *)
From Coq Require Import List ZArith Arith Bool Lia QArith.
From NV Require Import Scalar.Ops Model.Common Model.LinAlg Model.Geom2D Model.Voxel Gen.Prelude Gen.PreludeExt Gen.Linalg
  Gen.Voxelize Proofs.GenTieLib Proofs.GenTieLib2 Proofs.GenTieSums Proofs.GenTieLinAlg.
Import ListNotations.
Local Open Scope nat_scope.

Section Tie.
Context {T : Type} (K : ops T) (LW : sum_laws K).

Lemma vdot_ok (a b : list T) : a <> [] -> b <> [] -> Linalg.vector_dot K a b = GOk (vdot K a b).
Proof.
  intros Ha Hb. rewrite (vector_dot_tie K LW). unfold LinAlg.vector_dot.
  destruct a; [congruence|]. destruct b; [congruence|]. reflexivity.
Qed.

(* a voxel: two corners with (at least) three coordinates *)
Definition wf_voxel (bbox : list (list T)) : Prop :=
  2 <= length bbox /\ 3 <= length (nth 0 bbox []) /\ 3 <= length (nth 1 bbox []).

(* wf: the voxel has two corners with three coordinates (IndexError otherwise) and no point is the empty list (for an
   empty point Python's vector_dot raises ValueError, the model's dot product is 0) *)
Theorem is_point_inside_voxel_tie (tol : T) (bbox pts : list (list T)) :
  wf_voxel bbox -> (forall pt, In pt pts -> pt <> []) ->
  Voxelize.is_point_inside_voxel K bbox pts tol = GOk (Z.of_nat (Voxel.is_point_inside_voxel K tol bbox pts)).
Proof.
  intros (Hb & H0 & H1) Hpts. unfold Voxelize.is_point_inside_voxel, Voxel.is_point_inside_voxel.
  rewrite (znth_lit0 bbox []), (znth_lit1 bbox []) by lia. cbn [gbind].
  fold (vox_bbmin K tol bbox) (vox_bbmax K tol bbox).
  assert (Lmin : 3 <= length (vox_bbmin K tol bbox)) by (unfold vox_bbmin; rewrite map_length; lia).
  assert (Lmax : 3 <= length (vox_bbmax K tol bbox)) by (unfold vox_bbmax; rewrite map_length; lia).
  set (bbmin := vox_bbmin K tol bbox) in *. set (bbmax := vox_bbmax K tol bbox) in *.
  rewrite (znth_lit0 bbmax (o0 K)), (znth_lit0 bbmin (o0 K)), (znth_lit1 bbmax (o0 K)), (znth_lit1 bbmin (o0 K)),
    (znth_lit2 bbmax (o0 K)), (znth_lit2 bbmin (o0 K)) by lia. cbn [gbind].
  rewrite !vdot_ok by discriminate. cbn [gbind].
  set (i := [osub K (nth 0 bbmax (o0 K)) (nth 0 bbmin (o0 K)); o0 K; o0 K]).
  set (j := [o0 K; osub K (nth 1 bbmax (o0 K)) (nth 1 bbmin (o0 K)); o0 K]).
  set (k := [o0 K; o0 K; osub K (nth 2 bbmax (o0 K)) (nth 2 bbmin (o0 K))]).
  match goal with |- context [gfor_ret pts ?ff tt] =>
    assert (E : gfor_ret pts ff tt =
                GOk (if existsb (vox_test K bbmin i j k (vdot K i i) (vdot K j j) (vdot K k k)) pts then GRet 1%Z else GCont tt))
  end.
  { induction pts as [|pt r IH]; [reflexivity|].
    cbn [gfor_ret existsb].
    assert (Hv : map (fun '(p, b) => osub K p b) (combine pt bbmin) <> []).
    { assert (Hpt := Hpts pt (or_introl eq_refl)). destruct pt; [congruence|]. destruct bbmin; [simpl in Lmin; lia|]. discriminate. }
    rewrite !vdot_ok by (auto; discriminate). cbn [gbind].
    replace (map (fun '(p, b) => osub K p b) (combine pt bbmin)) with (vsub K pt bbmin)
      by (unfold vsub; apply map_ext; intros [p b]; reflexivity).
    unfold vox_test at 1.
    destruct (andb _ _); cbn [gbind orb]; [reflexivity|].
    apply IH. intros p Hp. apply Hpts. now right. }
  rewrite E. cbn [gbind]. destruct (existsb _ pts); reflexivity.
Qed.

Lemma find_inouts_loop (f : list (list T) -> gres Z) (g : list (list T) -> nat) :
  forall (rest : list (list (list T))) (done : list Z),
  (forall bb, In bb rest -> f bb = GOk (Z.of_nat (g bb))) -> (forall bb, g bb = 0 \/ g bb = 1) ->
  gfor (combine (map Z.of_nat (seq (length done) (length rest))) rest) (fun '(idx, bb) filled =>
      do pts_inside <- f bb ;;
      do filled <- (if negb (pts_inside =? 0)%Z then do filled <- zset filled idx 1%Z ;; GOk filled else GOk filled) ;;
      GOk filled) (done ++ repeat 0%Z (length rest))
  = GOk (done ++ map (fun bb => Z.of_nat (g bb)) rest).
Proof.
  induction rest as [|bb r IH]; intros done Hf Hg; [reflexivity|].
  cbn [length seq map combine gfor repeat].
  rewrite Hf by now left. cbn [gbind].
  assert (Hstep : (if negb (Z.of_nat (g bb) =? 0)%Z
                   then do filled <- zset (done ++ 0%Z :: repeat 0%Z (length r)) (Z.of_nat (length done)) 1%Z ;; GOk filled
                   else GOk (done ++ 0%Z :: repeat 0%Z (length r)))
                  = GOk ((done ++ [Z.of_nat (g bb)]) ++ repeat 0%Z (length r))).
  { destruct (Hg bb) as [-> | ->]; cbn [Z.of_nat Z.eqb negb].
    - now rewrite <- app_assoc.
    - rewrite zset_nat by (rewrite app_length; simpl; lia). cbn [gbind]. f_equal.
      rewrite <- app_assoc. clear. induction done; simpl; [reflexivity|]. now rewrite IHdone. }
  rewrite Hstep. cbn [gbind].
  replace (S (length done)) with (length (done ++ [Z.of_nat (g bb)])) by (rewrite app_length; simpl; lia).
  rewrite IH; auto.
  - now rewrite <- app_assoc.
  - intros b Hb. apply Hf. now right.
Qed.

(* wf: every voxel of the grid and every point as for is_point_inside_voxel *)
Theorem find_inouts_st_tie (tol : T) (grid : list (list (list T))) (pts : list (list T)) :
  (forall bb, In bb grid -> wf_voxel bb) -> (forall pt, In pt pts -> pt <> []) ->
  Voxelize.find_inouts_st K grid pts tol = GOk (map Z.of_nat (Voxel.find_inouts_st K tol grid pts)).
Proof.
  intros Hg Hp. unfold Voxelize.find_inouts_st, Voxel.find_inouts_st.
  unfold zlen. rewrite zrange_0_nat, map_map.
  rewrite (map_const_seq 0%Z (fun x => x)), seq_length.
  assert (E := find_inouts_loop (fun bb => Voxelize.is_point_inside_voxel K bb pts tol)
             (fun bb => Voxel.is_point_inside_voxel K tol bb pts) grid []).
  cbn [length app] in E. rewrite E.
  - cbn [gbind app]. now rewrite map_map.
  - intros bb Hbb. apply is_point_inside_voxel_tie; auto.
  - intros bb. unfold Voxel.is_point_inside_voxel. destruct (existsb _ pts); auto.
Qed.
End Tie.

Definition is_point_inside_voxel_tie_R := @is_point_inside_voxel_tie _ Rops Rops_sum_laws.
Definition is_point_inside_voxel_tie_Q := @is_point_inside_voxel_tie _ Qops Qops_sum_laws.
Definition find_inouts_st_tie_R := @find_inouts_st_tie _ Rops Rops_sum_laws.
Definition find_inouts_st_tie_Q := @find_inouts_st_tie _ Qops Qops_sum_laws.

(* ---- non-vacuity ---- *)
Local Open Scope Q_scope.
Example voxel_ex :
  let grid := [[[0; 0; 0]; [1; 1; 1]]; [[1; 0; 0]; [2; 1; 1]]; [[2; 0; 0]; [3; 1; 1]]] in
  let pts := [[1#2; 1#2; 1#2]; [5#2; 1#4; 3#4]; [7; 7; 7]] in
  Voxelize.find_inouts_st Qops grid pts (1#100) = GOk [1%Z; 0%Z; 1%Z]
  /\ Voxel.find_inouts_st Qops (1#100) grid pts = [1%nat; 0%nat; 1%nat]
  /\ Voxelize.is_point_inside_voxel Qops [[0; 0; 0]; [1; 1; 1]] [[1; 1#2; 1#2]] (1#100) = GOk 1%Z
  /\ Voxelize.is_point_inside_voxel Qops [[0; 0; 0]; [1; 1; 1]] [[101#100; 1#2; 1#2]] (1#100) = GOk 0%Z
  /\ Voxelize.is_point_inside_voxel Qops [[0; 0; 0]; [1; 1; 1]] [[]] (1#100) = GErr ValueError
  /\ Voxel.is_point_inside_voxel Qops (1#100) [[0; 0; 0]; [1; 1; 1]] [[]] = 1%nat.
Proof. repeat split; vm_compute; reflexivity. Qed.
