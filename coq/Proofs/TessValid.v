(* Boolean validator of a triangle mesh over an a x b vertex array (ids row-major: id = j + i*b).
   Directed edges are counted in a PositiveMap keyed by x*V + y.  Used by the finite-range theorem mesh_valid (C15). *)
From Coq Require Import List Arith NArith ZArith Bool FMapPositive Lia.
From NV Require Import Model.Common Model.TessCore.
Import ListNotations.

Definition ntri : Type := (N * N * N)%type.
Definition to_ntri (t : tri) : ntri := let '(x, y, z) := t in (N.of_nat x, N.of_nat y, N.of_nat z).
Definition dedges (t : ntri) : list (N * N) := let '(x, y, z) := t in [(x, y); (y, z); (z, x)].
Definition ekey (V : N) (e : N * N) : positive := N.succ_pos (fst e * V + snd e).
Definition addc (m : PositiveMap.t N) (k : positive) : PositiveMap.t N :=
  match PositiveMap.find k m with Some c => PositiveMap.add k (c + 1)%N m | None => PositiveMap.add k 1%N m end.
Definition cnt (m : PositiveMap.t N) (k : positive) : N := match PositiveMap.find k m with Some c => c | None => 0%N end.

(* both end points of the edge on the same side of the index rectangle [0,a-1] x [0,b-1] *)
Definition on_rect_side (a b : N) (e : N * N) : bool :=
  let x p := (p / b)%N in let y p := (p mod b)%N in
  let p := fst e in let q := snd e in
  orb (orb (andb (N.eqb (x p) 0) (N.eqb (x q) 0)) (andb (N.eqb (x p) (a - 1)) (N.eqb (x q) (a - 1))))
      (orb (andb (N.eqb (y p) 0) (N.eqb (y q) 0)) (andb (N.eqb (y p) (b - 1)) (N.eqb (y q) (b - 1)))).

Definition mesh_ok (an bn : nat) (ts : list tri) : bool :=
  let a := N.of_nat an in let b := N.of_nat bn in
  let V := (a * b)%N in
  let T := map to_ntri ts in
  let E := flat_map dedges T in
  let m := fold_left (fun m e => addc m (ekey V e)) E (PositiveMap.empty N) in
  let used := fold_left (fun m t => let '(x, y, z) := t in
                 PositiveMap.add (N.succ_pos x) tt (PositiveMap.add (N.succ_pos y) tt (PositiveMap.add (N.succ_pos z) tt m)))
                 T (PositiveMap.empty unit) in
  let inrange := forallb (fun t => let '(x, y, z) := t in ((x <? V) && (y <? V) && (z <? V))%N) T in
  (* every directed edge is used exactly once: consistent orientation, no overlap *)
  let once := forallb (fun e => N.eqb (cnt m (ekey V e)) 1) E in
  (* boundary edges: the reverse direction is absent; they must lie on the boundary of the rectangle *)
  let bnd := filter (fun e => N.eqb (cnt m (ekey V (snd e, fst e))) 0) E in
  let nb := N.of_nat (length bnd) in
  let nE := ((N.of_nat (length E) + nb) / 2)%N in
  let F := N.of_nat (length T) in
  let ccw := forallb (fun t => let '(x, y, z) := t in
        let cx p := Z.of_N (p / b) in let cy p := Z.of_N (p mod b) in
        Z.ltb 0 ((cx y - cx x) * (cy z - cy x) - (cx z - cx x) * (cy y - cy x))%Z) T in
  inrange && once && forallb (on_rect_side a b) bnd && N.eqb nb (2 * (a - 1) + 2 * (b - 1))
  && N.eqb (V + F) (nE + 1) && N.eqb F (2 * (a - 1) * (b - 1))
  && N.eqb (N.of_nat (PositiveMap.cardinal used)) V && ccw.

Definition mesh_ok_rows (alo an : nat) : bool :=
  forallb (fun a => forallb (fun b => mesh_ok a b (plain_tris a b)) (seq 2 39)) (seq alo an).

Lemma mesh_ok_rows_spec alo an : mesh_ok_rows alo an = true ->
  forall a b, alo <= a < alo + an -> 2 <= b <= 40 -> mesh_ok a b (plain_tris a b) = true.
Proof.
  unfold mesh_ok_rows. intros H a b Ha Hb.
  rewrite forallb_forall in H. specialize (H a). rewrite in_seq in H. specialize (H Ha).
  rewrite forallb_forall in H. apply H. rewrite in_seq. lia.
Qed.
