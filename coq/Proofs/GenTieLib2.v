(* Generic lemmas for the second round of ties (GenTieLib.v itself is left untouched so that the first-round .vo stay valid). *)
From Coq Require Import List ZArith Arith Bool Lia.
From NV Require Import Scalar.Ops Model.Common Gen.Prelude Gen.PreludeExt Proofs.GenTieLib.
Import ListNotations.
Local Open Scope nat_scope.

(* indexing at the literals 0, 1, 2 *)
Lemma znth_lit0 {A} (l : list A) d : 1 <= length l -> znth l 0 = GOk (nth 0 l d).
Proof. intros H. exact (znth_nat l 0 d H). Qed.
Lemma znth_lit1 {A} (l : list A) d : 2 <= length l -> znth l 1 = GOk (nth 1 l d).
Proof. intros H. exact (znth_nat l 1 d H). Qed.
Lemma znth_lit2 {A} (l : list A) d : 3 <= length l -> znth l 2 = GOk (nth 2 l d).
Proof. intros H. exact (znth_nat l 2 d H). Qed.

(* range(1, n) *)
Lemma zrange_1_of_nat (n : nat) : zrange 1 (Z.of_nat n) 1 = map Z.of_nat (seq 1 (n - 1)).
Proof. change 1%Z with (Z.of_nat 1) at 1. apply zrange_nat. Qed.
