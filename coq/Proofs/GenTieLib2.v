(* Generic lemmas for the second round of ties (GenTieLib.v itself is left untouched so that the first-round .vo stay valid). *)
From Coq Require Import List ZArith Arith Bool Lia.
From NV Require Import Scalar.Ops Model.Common Gen.Prelude Gen.PreludeExt Proofs.GenTieLib.
Import ListNotations.
Local Open Scope nat_scope.

(* indexing at the literals 0, 1, 2 *)
Lemma znth_lit0 {A} (l : list A) d : 1 <= length l -> znth l 0 = GOk (nth 0 l d).
Proof. intros H. exact (znth_nat l 0 d H). Qed.
Lemma znth_lit1 {A} (l : list A) d : 2 <= length l -> znth l 1 = GOk (nth 1 l d).
Proof. intros H. exact (znth_nat l 1 d H). Qed.
Lemma znth_lit2 {A} (l : list A) d : 3 <= length l -> znth l 2 = GOk (nth 2 l d).
Proof. intros H. exact (znth_nat l 2 d H). Qed.

(* range(1, n) *)
Lemma zrange_1_of_nat (n : nat) : zrange 1 (Z.of_nat n) 1 = map Z.of_nat (seq 1 (n - 1)).
Proof. change 1%Z with (Z.of_nat 1) at 1. apply zrange_nat. Qed.

(* a while loop that runs exactly cnt times: states st c x (c = number of passes done, x = the rest of the state) *)
Lemma gwhile_count {S X} (st : nat -> X -> S) (Inv : nat -> X -> Prop) (cond : S -> gres bool) (body : S -> gres S) (cnt : nat) :
  (forall c x, c < cnt -> Inv c x -> cond (st c x) = GOk true) ->
  (forall x, Inv cnt x -> cond (st cnt x) = GOk false) ->
  (forall c x, c < cnt -> Inv c x -> exists x', body (st c x) = GOk (st (Datatypes.S c) x') /\ Inv (Datatypes.S c) x') ->
  forall fuel x0, cnt < fuel -> Inv 0 x0 -> exists x', gwhile fuel cond body (st 0 x0) = GOk (st cnt x') /\ Inv cnt x'.
Proof.
  intros Ht Hf Hb.
  assert (H : forall k c x fuel, c + k = cnt -> k < fuel -> Inv c x ->
            exists x', gwhile fuel cond body (st c x) = GOk (st cnt x') /\ Inv cnt x').
  { induction k as [|k IH]; intros c x fuel Hc Hfuel HI.
    - assert (c = cnt) by lia. subst c. destruct fuel as [|fuel]; [lia|]. rewrite gwhile_unfold, Hf by exact HI. cbn [gbind]. eauto.
    - destruct fuel as [|fuel]; [lia|]. rewrite gwhile_unfold, Ht by (auto; lia). cbn [gbind].
      destruct (Hb c x ltac:(lia) HI) as (x1 & E1 & HI1). rewrite E1. cbn [gbind]. apply IH; auto; lia. }
  intros fuel x0 Hfuel HI. apply (H cnt 0 x0 fuel); auto.
Qed.
