(* Theorems about Model.Knots at the real instance: check() specification, normalize is affine and monotone. *)
From Coq Require Import List Reals Lra Lia Arith Bool.
From NV Require Import Scalar.Ops Model.Common Model.Knots.
Import ListNotations.
Open Scope R_scope.

Fixpoint nondecr (prev : R) (U : list R) : Prop :=
  match U with [] => True | k :: r => prev <= k /\ nondecr k r end.

Lemma nondecreasing_spec U : forall prev, nondecreasing Rops prev U = true <-> nondecr prev U.
Proof.
  induction U as [|k r IH]; intros prev; cbn [nondecreasing nondecr]; [tauto|].
  rsimp. unfold Rltb. destruct (Rlt_dec k prev) as [H|H].
  - split; [discriminate|]. intros [H1 _]. lra.
  - rewrite IH. split; [intros; split; [lra|assumption]|tauto].
Qed.

(* check = true  <->  length = p + n + 1  and the knots are non-decreasing *)
Theorem check_spec p n f U :
  check Rops p (f :: U) n = Ok true <-> (length (f :: U) = S (p + n) /\ nondecr f U).
Proof.
  unfold check. cbn [nondecreasing]. rsimp. unfold Rltb.
  destruct (Rlt_dec f f) as [H|_]; [lra|].
  destruct (Nat.eqb_spec (length (f :: U)) (S (p + n))) as [E|E]; cbn [andb].
  - rewrite <- nondecreasing_spec. split.
    + intros H. inversion H as [H1]. split; [exact E|]. destruct (nondecreasing Rops f U); auto.
    + intros [_ H]. rewrite H. reflexivity.
  - split; [discriminate|]. intros [H _]. contradiction.
Qed.
Theorem check_rejects_empty p n : check Rops p [] n = Rejected.
Proof. reflexivity. Qed.

(* normalize: out_i = (U_i - U_0) / (U_last - U_0); order preserving when U_0 < U_last; ends are 0 and 1 *)
Theorem normalize_affine f U : normalize Rops (f :: U) = Ok (map (fun k => (k - f) / (last (f :: U) f - f)) (f :: U)).
Proof. reflexivity. Qed.

Theorem normalize_monotone f U a b : f < last (f :: U) f -> a <= b ->
  (a - f) / (last (f :: U) f - f) <= (b - f) / (last (f :: U) f - f).
Proof.
  intros Hd Hab. unfold Rdiv. apply Rmult_le_compat_r; [|lra].
  left. apply Rinv_0_lt_compat. lra.
Qed.
Theorem normalize_ends f U : f < last (f :: U) f ->
  (f - f) / (last (f :: U) f - f) = 0 /\ (last (f :: U) f - f) / (last (f :: U) f - f) = 1.
Proof. intros Hd. split; field; lra. Qed.
