(* C05: the hypotheses of the general refinement theorems are satisfiable (real-number instance): the quadratic
   curve on U = [0,0,0,1/2,1,1,1] with the default plan of density 1, tolerance 1/1000. *)
From Coq Require Import List Reals Lra Lia Arith Bool Permutation Sorted.
From NV Require Import Scalar.Ops Model.Common Model.Basis Model.KnotIns Model.InsertKnot Model.KnotRefine
  Proofs.BasisR Proofs.RefineDefault Proofs.RefineOp.
Import ListNotations.
Local Open Scope R_scope.

Definition exU : list R := [0; 0; 0; 1/2; 1; 1; 1].
Definition exL : list R := [0; 0 + (1/2 - 0) / (1 + 1); 1/2; 1/2 + (1 - 1/2) / (1 + 1); 1].   (* 0, 1/4, 1/2, 3/4, 1 *)
Definition exX : list R := [1/4; 1/4; 1/2; 3/4; 3/4].

Ltac ssorted := repeat (first [apply SSorted_nil | apply SSorted_cons | apply Forall_nil | apply Forall_cons]); lra.
Ltac rdec := repeat (match goal with
  | |- context [Rlt_dec ?a ?b] => destruct (Rlt_dec a b); try (exfalso; lra)
  | |- context [Rle_dec ?a ?b] => destruct (Rle_dec a b); try (exfalso; lra) end).

Lemma exL_is_refine_L : refine_L 2 exU 1 = exL.
Proof.
  unfold refine_L, refine_Lk, exU, slice. cbn [length Nat.sub skipn firstn].
  unfold sort_uniq. cbn [fold_left ins_uniq]. rsimp. unfold Rltb, Rleb.
  rdec. cbn [ins_uniq]. rsimp. unfold Rltb, Rleb. rdec. cbn [ins_uniq]. rsimp. unfold Rltb, Rleb. rdec.
  cbn [ins_uniq]. cbn [iter_bisect bisect]. unfold o2. rsimp. reflexivity.
Qed.

Lemma exU_sorted : sortedR exU.
Proof. apply StronglySorted_sortedR. unfold exU. ssorted. Qed.

Example default_ok_satisfiable : default_ok (1/1000) 2 exU 4 1.
Proof.
  unfold default_ok. rewrite exL_is_refine_L.
  split; [lia|]. split; [exact exU_sorted|]. split; [lia|]. split; [reflexivity|]. split; [lra|].
  split; [reflexivity|].
  unfold exL, exU. cbn [In app]. intros v y Hv Hy Hne.
  repeat (destruct Hv as [<-|Hv]); try contradiction;
  repeat (destruct Hy as [<-|Hy]); try contradiction;
  try (exfalso; apply Hne; lra); unfold Rabs; destruct (Rcase_abs _); lra.
Qed.

Example refine_ok_satisfiable : refine_ok (1/1000) 2 exU 4 exX.
Proof.
  unfold refine_ok.
  split; [lia|]. split; [exact exU_sorted|]. split; [lia|]. split; [reflexivity|]. split; [discriminate|].
  split; [apply StronglySorted_sortedR; unfold exX; ssorted|].
  split; [unfold exX, exU, kn; cbn; lra|]. split; [unfold exX, exU, kn; cbn; lra|].
  split.
  - unfold exX, exU. cbn [In app]. intros x y Hx Hy Hlt.
    repeat (destruct Hx as [<-|Hx]); try contradiction;
    repeat (destruct Hy as [<-|Hy]); try contradiction; lra.
  - unfold exX, exU. cbn [In app]. intros x Hx.
    repeat (destruct Hx as [<-|Hx]); try contradiction; cbn [count_occ];
    repeat (match goal with |- context [Req_EM_T ?a ?b] =>
              let e := fresh "e" in let n := fresh "n" in
              destruct (Req_EM_T a b) as [e|n]; [try (exfalso; lra)|try (exfalso; apply n; lra)] end); lia.
Qed.
