(* C02 [B]: helpers.basis_function_ders (A2.3) on a symbolic knot window  k0 <= ... <= kp <= u < k(p+1) <= ... <= k(2p+1)
   (span = p; every multiplicity pattern at once, only the span itself is non-empty), degrees 1..5:
   - every derivative row k = 0..p equals the Eq. 2.9 recursion in its active form (dbasis): the k-th derivative of the
     p+1 functions that are non-zero on the span is  p * (D^{k-1} N_{i,p-1} / (U_{i+p}-U_i) - D^{k-1} N_{i+1,p-1} / (U_{i+p+1}-U_{i+1}))
     where terms of functions that vanish on the span are dropped (their denominators may be zero);
   - every derivative row k = 1..p sums to zero.
   One field goal per entry.  Not lifted to arbitrary knot vectors / spans (window-locality lemma not proved). *)
From Coq Require Import List Reals Lra Lia Arith Bool.
From NV Require Import Scalar.Ops Model.Common Model.Basis Proofs.BasisR.
Import ListNotations.
Open Scope R_scope.

Fixpoint dbasis (U : list R) (span : nat) (u : R) (k p : nat) {struct k} : list R :=
  match k with
  | O => basis_function Rops p U span u
  | S k' => match p with
            | O => [0]
            | S q => let D := dbasis U span u k' q in
                     map (fun r => INR (S q) * ((if Nat.eqb r 0 then 0 else nth (r - 1) D 0 / (knR U (span + r) - knR U (span + r - S q)))
                                              - (if Nat.eqb r (S q) then 0 else nth r D 0 / (knR U (span + r + 1) - knR U (span + r - q)))))
                         (seq 0 (S (S q)))
            end
  end.
Ltac rcbv := cbv -[Rplus Rminus Rmult Rdiv Rinv Ropp IZR].
Ltac lfld := repeat (apply (f_equal2 (@cons R)); [field; repeat split; lra|]); reflexivity.

Lemma ders_is_dbasis_1 : forall k0 k1 k2 k3 u, k0 <= k1 -> k1 <= u -> u < k2 -> k2 <= k3 ->
  let W := [k0;k1;k2;k3] in
  forall k, (k <= 1)%nat -> nth k (basis_function_ders Rops 1 W 1 u 1) [] = dbasis W 1 u k 1.
Proof.
  intros. assert (k = 0 \/ k = 1)%nat as Hc by lia.
  destruct Hc as [-> | ->]; unfold W; rcbv; lfld.
Qed.

Lemma ders_sum_zero_1 : forall k0 k1 k2 k3 u, k0 <= k1 -> k1 <= u -> u < k2 -> k2 <= k3 ->
  let W := [k0;k1;k2;k3] in
  forall k, (1 <= k <= 1)%nat -> sumT Rops (nth k (basis_function_ders Rops 1 W 1 u 1) []) = 0.
Proof.
  intros. assert (k = 1)%nat as Hc by lia.
  subst k; unfold W; rcbv; field; repeat split; lra.
Qed.

Lemma ders_is_dbasis_2 : forall k0 k1 k2 k3 k4 k5 u, k0 <= k1 -> k1 <= k2 -> k2 <= u -> u < k3 -> k3 <= k4 -> k4 <= k5 ->
  let W := [k0;k1;k2;k3;k4;k5] in
  forall k, (k <= 2)%nat -> nth k (basis_function_ders Rops 2 W 2 u 2) [] = dbasis W 2 u k 2.
Proof.
  intros. assert (k = 0 \/ k = 1 \/ k = 2)%nat as Hc by lia.
  destruct Hc as [-> | [-> | ->]]; unfold W; rcbv; lfld.
Qed.

Lemma ders_sum_zero_2 : forall k0 k1 k2 k3 k4 k5 u, k0 <= k1 -> k1 <= k2 -> k2 <= u -> u < k3 -> k3 <= k4 -> k4 <= k5 ->
  let W := [k0;k1;k2;k3;k4;k5] in
  forall k, (1 <= k <= 2)%nat -> sumT Rops (nth k (basis_function_ders Rops 2 W 2 u 2) []) = 0.
Proof.
  intros. assert (k = 1 \/ k = 2)%nat as Hc by lia.
  destruct Hc as [-> | ->]; unfold W; rcbv; field; repeat split; lra.
Qed.

Lemma ders_is_dbasis_3 : forall k0 k1 k2 k3 k4 k5 k6 k7 u, k0 <= k1 -> k1 <= k2 -> k2 <= k3 -> k3 <= u -> u < k4 -> k4 <= k5 -> k5 <= k6 -> k6 <= k7 ->
  let W := [k0;k1;k2;k3;k4;k5;k6;k7] in
  forall k, (k <= 3)%nat -> nth k (basis_function_ders Rops 3 W 3 u 3) [] = dbasis W 3 u k 3.
Proof.
  intros. assert (k = 0 \/ k = 1 \/ k = 2 \/ k = 3)%nat as Hc by lia.
  destruct Hc as [-> | [-> | [-> | ->]]]; unfold W; rcbv; lfld.
Qed.

Lemma ders_sum_zero_3 : forall k0 k1 k2 k3 k4 k5 k6 k7 u, k0 <= k1 -> k1 <= k2 -> k2 <= k3 -> k3 <= u -> u < k4 -> k4 <= k5 -> k5 <= k6 -> k6 <= k7 ->
  let W := [k0;k1;k2;k3;k4;k5;k6;k7] in
  forall k, (1 <= k <= 3)%nat -> sumT Rops (nth k (basis_function_ders Rops 3 W 3 u 3) []) = 0.
Proof.
  intros. assert (k = 1 \/ k = 2 \/ k = 3)%nat as Hc by lia.
  destruct Hc as [-> | [-> | ->]]; unfold W; rcbv; field; repeat split; lra.
Qed.

Lemma ders_is_dbasis_4 : forall k0 k1 k2 k3 k4 k5 k6 k7 k8 k9 u, k0 <= k1 -> k1 <= k2 -> k2 <= k3 -> k3 <= k4 -> k4 <= u -> u < k5 -> k5 <= k6 -> k6 <= k7 -> k7 <= k8 -> k8 <= k9 ->
  let W := [k0;k1;k2;k3;k4;k5;k6;k7;k8;k9] in
  forall k, (k <= 4)%nat -> nth k (basis_function_ders Rops 4 W 4 u 4) [] = dbasis W 4 u k 4.
Proof.
  intros. assert (k = 0 \/ k = 1 \/ k = 2 \/ k = 3 \/ k = 4)%nat as Hc by lia.
  destruct Hc as [-> | [-> | [-> | [-> | ->]]]]; unfold W; rcbv; lfld.
Qed.

Lemma ders_sum_zero_4 : forall k0 k1 k2 k3 k4 k5 k6 k7 k8 k9 u, k0 <= k1 -> k1 <= k2 -> k2 <= k3 -> k3 <= k4 -> k4 <= u -> u < k5 -> k5 <= k6 -> k6 <= k7 -> k7 <= k8 -> k8 <= k9 ->
  let W := [k0;k1;k2;k3;k4;k5;k6;k7;k8;k9] in
  forall k, (1 <= k <= 4)%nat -> sumT Rops (nth k (basis_function_ders Rops 4 W 4 u 4) []) = 0.
Proof.
  intros. assert (k = 1 \/ k = 2 \/ k = 3 \/ k = 4)%nat as Hc by lia.
  destruct Hc as [-> | [-> | [-> | ->]]]; unfold W; rcbv; field; repeat split; lra.
Qed.

Lemma ders_sum_zero_5 : forall k0 k1 k2 k3 k4 k5 k6 k7 k8 k9 k10 k11 u, k0 <= k1 -> k1 <= k2 -> k2 <= k3 -> k3 <= k4 -> k4 <= k5 -> k5 <= u -> u < k6 -> k6 <= k7 -> k7 <= k8 -> k8 <= k9 -> k9 <= k10 -> k10 <= k11 ->
  let W := [k0;k1;k2;k3;k4;k5;k6;k7;k8;k9;k10;k11] in
  forall k, (1 <= k <= 5)%nat -> sumT Rops (nth k (basis_function_ders Rops 5 W 5 u 5) []) = 0.
Proof.
  intros. assert (k = 1 \/ k = 2 \/ k = 3 \/ k = 4 \/ k = 5)%nat as Hc by lia.
  destruct Hc as [-> | [-> | [-> | [-> | ->]]]]; unfold W; rcbv; field; repeat split; lra.
Qed.
