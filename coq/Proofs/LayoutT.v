(* C13: transposition at the level of evaluated points.  For ANY coefficient families a (u direction) and b (v direction)
   - in particular the B-spline basis values N_{i,pu}(u), N_{j,pv}(v) - the tensor-product sum over the transposed net with
   the roles of the two families exchanged equals the sum over the original net:  S^T(v,u) = S(u,v). *)
From Coq Require Import List Arith Bool Lia Reals Lra.
From NV Require Import Model.Common Model.Layout Proofs.LayoutP Proofs.LayoutR.
Import ListNotations.
Open Scope R_scope.

Definition rsum (n : nat) (f : nat -> R) : R := fold_right Rplus 0 (map f (seq 0 n)).

Lemma rsum_S n f : rsum (S n) f = rsum n f + f n.
Proof.
  unfold rsum. rewrite seq_S, map_app. cbn [map plus]. induction (map f (seq 0 n)) as [|x l IH]; cbn; [lra|]. rewrite IH. lra.
Qed.
Lemma rsum_ext n f g : (forall i, (i < n)%nat -> f i = g i) -> rsum n f = rsum n g.
Proof. induction n as [|n IH]; intros H; [reflexivity|]. rewrite !rsum_S, IH by (intros; apply H; lia). rewrite H by lia. reflexivity. Qed.
Lemma rsum_plus n f g : rsum n (fun i => f i + g i) = rsum n f + rsum n g.
Proof. induction n as [|n IH]; [unfold rsum; cbn; lra|]. rewrite !rsum_S, IH. lra. Qed.
Lemma rsum_0 n : rsum n (fun _ => 0) = 0.
Proof. induction n as [|n IH]; [reflexivity|]. rewrite rsum_S, IH. lra. Qed.
Lemma rsum_exchange n m (f : nat -> nat -> R) : rsum n (fun i => rsum m (fun j => f i j)) = rsum m (fun j => rsum n (fun i => f i j)).
Proof.
  induction n as [|n IH].
  - unfold rsum at 1. cbn. symmetry. apply rsum_0.
  - rewrite rsum_S, IH. rewrite <- rsum_plus. apply rsum_ext. intros j _. rewrite rsum_S. reflexivity.
Qed.

Section T.
Context {A Kn : Type} (d : A) (coord : A -> R).
(* one coordinate of the tensor-product point: sum_i sum_j a_i * b_j * coord(P[idx2 i j]) *)
Definition tp_eval (su sv : nat) (a b : nat -> R) (P : list A) : R :=
  rsum su (fun i => rsum sv (fun j => a i * b j * coord (at_ d P (idx2 sv i j)))).

Theorem transpose_evaluates_swapped (s : surf A Kn) (a b : nat -> R) : (0 < s_sv s)%nat ->
  let t := transpose d s in
  tp_eval (s_su t) (s_sv t) b a (s_P t) = tp_eval (s_su s) (s_sv s) a b (s_P s).
Proof.
  intros Hsv t. destruct (transpose_spec d s Hsv) as (_ & _ & _ & _ & Esu & Esv & _ & Hpt). fold t in Esu, Esv, Hpt.
  unfold tp_eval. rewrite Esu, Esv. rewrite rsum_exchange. apply rsum_ext. intros i Hi. apply rsum_ext. intros j Hj.
  rewrite <- Esv at 1. rewrite Hpt by assumption. ring.
Qed.
End T.
