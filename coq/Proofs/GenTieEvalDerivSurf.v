(* Tie: generated evaluators.SurfaceEvaluator.derivatives (A3.6, as written: dd = min(deriv_order, d[1]))  =  Model/Derivs.v
   surface_derivs, for every scalar instance.  No law of the scalar operations is used. *)
From Coq Require Import List ZArith Arith Bool Lia QArith.
From NV Require Import Scalar.Ops Model.Common Model.Basis Model.Knots Model.Eval Model.Degree Model.Derivs
  Gen.Prelude Gen.PreludeExt Gen.Linalg Gen.Helpers Gen.Evaluators
  Proofs.GenTieLib Proofs.GenTieLib2 Proofs.GenTieKnots Proofs.GenTieSpan Proofs.GenTieBasis Proofs.GenTieDersLib Proofs.GenTieDers
  Proofs.GenTieEvalLib Proofs.GenTieEvalCurve Proofs.GenTieEvalDerivCurve.
Import ListNotations.
Local Open Scope nat_scope.

Section Tie.
Context {T : Type} (K : ops T).

(* datadict of a surface as the derivative methods read it (no sample_size): degree = (pu, pv), knotvector = (Uu, Uv),
   size = (su, sv), pdimension = 2, control_points = P (flat, v fastest) *)
Definition surf_dd' (dd : geomdata T) (pu pv : nat) (Uu Uv : list T) (su sv : nat) (P : list (list T)) : Prop :=
  geomdata_degree dd = [Z.of_nat pu; Z.of_nat pv] /\ geomdata_knotvector dd = [Uu; Uv] /\
  geomdata_size dd = [Z.of_nat su; Z.of_nat sv] /\ geomdata_pdimension dd = 2%Z /\ geomdata_control_points dd = P.

(* literal indices into pairs *)
Lemma znth_pair1 {A} (a b : A) : znth [a; b] 1 = GOk b. Proof. reflexivity. Qed.
Lemma zset_pair0 {A} (a b v : A) : zset [a; b] 0 v = GOk [v; b]. Proof. reflexivity. Qed.
Lemma zset_pair1 {A} (a b v : A) : zset [a; b] 1 v = GOk [a; v]. Proof. reflexivity. Qed.

(* wf: per direction degree < size and size + degree <= len(knot vector); size_u * size_v <= len(control points); any order >= 0 *)
Theorem SurfaceEvaluator_derivatives_tie_gen (func : Z -> list T -> Z -> T -> gres Z) (dd : geomdata T)
    (pu pv : nat) (Uu Uv : list T) (su sv : nat) (P : list (list T)) (u v : T) (order : nat) :
  surf_dd' dd pu pv Uu Uv su sv P ->
  pu < su -> su + pu <= length Uu -> pv < sv -> sv + pv <= length Uv -> su * sv <= length P ->
  func (Z.of_nat pu) Uu (Z.of_nat su) u = GOk (Z.of_nat (Basis.find_span_linear K pu Uu su u)) ->
  func (Z.of_nat pv) Uv (Z.of_nat sv) v = GOk (Z.of_nat (Basis.find_span_linear K pv Uv sv v)) ->
  Evaluators.SurfaceEvaluator_derivatives K func dd [u; v] (Z.of_nat order) =
  GOk (surface_derivs K (Z.to_nat (eval_dim dd)) pu pv Uu Uv su sv P u v order).
Proof.
  intros (Hd & Hk & Hs & Hpd & Hc) Hpu Hlu Hpv Hlv HP Hfu Hfv.
  unfold Evaluators.SurfaceEvaluator_derivatives. cbv zeta. fold (eval_dim dd).
  rewrite Hd, Hk, Hs, Hpd, Hc.
  change (zrange 0 2 1) with [0%Z; 1%Z]. cbn [map gfor].
  rewrite !znth_0, !znth_pair1. cbn [gbind].
  rewrite !zmin_nat. unfold surface_derivs.
  set (d0 := Nat.min pu order). set (d1 := Nat.min pv order).
  set (spu := Basis.find_span_linear K pu Uu su u). set (spv := Basis.find_span_linear K pv Uv sv v).
  set (dim := Z.to_nat (eval_dim dd)).
  assert (Bu : pu <= spu < su) by (apply find_span_linear_bounds; exact Hpu).
  assert (Bv : pv <= spv < sv) by (apply find_span_linear_bounds; exact Hpv).
  rewrite Hfu. cbn [gbind]. rewrite zset_pair0. cbn [gbind]. rewrite !znth_0. cbn [gbind].
  rewrite basis_function_ders_tie by (unfold d0; lia). cbn [gbind]. rewrite zset_pair0. cbn [gbind].
  rewrite Hfv. cbn [gbind]. rewrite zset_pair1. cbn [gbind]. rewrite !znth_pair1. cbn [gbind].
  rewrite basis_function_ders_tie by (unfold d1; lia). cbn [gbind]. rewrite zset_pair1. cbn [gbind].
  rewrite ?znth_0, ?znth_pair1. cbn [gbind]. fold spu spv.
  set (dersu := Basis.basis_function_ders K pu Uu spu u d0). set (dersv := Basis.basis_function_ders K pv Uv spv v d1).
  rewrite zmin_nat. replace (Nat.min order d1) with d1 by (unfold d1; lia).
  replace (Z.of_nat order + 1)%Z with (Z.of_nat (S order)) by lia.
  replace (Z.of_nat d0 + 1)%Z with (Z.of_nat (S d0)) by lia.
  replace (Z.of_nat d1 + 1)%Z with (Z.of_nat (S d1)) by lia.
  replace (Z.of_nat pu + 1)%Z with (Z.of_nat (S pu)) by lia.
  replace (Z.of_nat pv + 1)%Z with (Z.of_nat (S pv)) by lia.
  rewrite zeros_vzero. fold dim. rewrite !map_const_zrange, !Nat2Z.id, !zrange_0_nat.
  set (z := vzero K dim).
  set (TEMP := fun k => map (fun s => fold_left (fun acc r =>
                  axpy K (get2 K dersu k r) (pt_at P (spv - pv + s + sv * (spu - pu + r))) acc) (seq 0 (S pu)) z) (seq 0 (S pv))).
  rewrite gfor_map.
  rewrite (gfor_fill [] _ (fun k =>
     map (fun l => if Nat.leb l d1 then fold_left (fun acc s => axpy K (get2 K dersv l s) (nth s (TEMP k) []) acc) (seq 0 (S pv)) z
                   else z) (seq 0 (S order)))).
  - cbn [gbind]. f_equal. rewrite skipn_repeat.
    rewrite (map_if_leb _ (repeat z (S order)) d0 order) by (unfold d0; lia). reflexivity.
  - rewrite repeat_length. unfold d0. lia.
  - intros k SKL Hk_ HL Hrest. rewrite repeat_length in HL.
    assert (Hk0 : k <= d0) by lia.
    (* temp *)
    rewrite gfor_map.
    rewrite (gfor_fill [] _ (fun s => fold_left (fun acc r =>
                  axpy K (get2 K dersu k r) (pt_at P (spv - pv + s + sv * (spu - pu + r))) acc) (seq 0 (S pu)) z)).
    + cbn [gbind]. rewrite skipn_repeat, Nat.sub_diag. cbn [repeat]. rewrite app_nil_r. fold (TEMP k).
      (* the rows l = 0 .. dd of SKL[k] *)
      rewrite gfor_map.
      rewrite (gfor_rowQ [] (fun row => length row = S order) _ _ k
                 (fun row l => upd row l (fold_left (fun acc s => axpy K (get2 K dersv l s) (nth s (TEMP k) []) acc)
                                                          (seq 0 (S pv)) (nth l row [])))).
      * cbn [gbind]. f_equal. rewrite Hrest by lia. rewrite nth_repeat_lt by (unfold d0 in *; lia).
        rewrite (fold_fill [] (fun l c => fold_left (fun acc s => axpy K (get2 K dersv l s) (nth s (TEMP k) []) acc) (seq 0 (S pv)) c))
          by (rewrite repeat_length; unfold d1; lia).
        rewrite skipn_repeat.
        rewrite <- (map_if_leb _ z d1 order) by (unfold d1; lia). f_equal. f_equal.
        apply map_seq_ext. intros l Hl_. rewrite nth_repeat_lt by (unfold d1 in *; lia). reflexivity.
      * unfold d0 in *. lia.
      * rewrite Hrest by lia. rewrite nth_repeat_lt by (unfold d0 in *; lia). apply repeat_length.
      * intros b l _ Hb. now rewrite upd_length.
      * intros l M' Hl_ HM' HQ. apply in_seq in Hl_.
        rewrite gfor_map.
        rewrite (gfor_cell [] _ _ k l (fun acc s => axpy K (get2 K dersv l s) (nth s (TEMP k) []) acc)).
        -- reflexivity.
        -- unfold d0 in *. lia.
        -- rewrite HQ. unfold d1 in *. lia.
        -- intros s M'' Hs_ HM'' HQ''. apply in_seq in Hs_. rewrite HQ in HQ''.
           rewrite (znth_nat M'' k []) by (unfold d0 in *; lia). cbn [gbind].
           rewrite (znth_nat _ l []) by (unfold d1 in *; lia). cbn [gbind].
           rewrite (znth_nat (TEMP k) s []) by (unfold TEMP; rewrite map_length, seq_length; lia). cbn [gbind].
           rewrite (gmapM_axpy2 K dersv (Z.of_nat l) (Z.of_nat s) (nth l dersv []) (get2 K dersv l s)).
           ++ cbn [gbind].
              rewrite zset_nat by (unfold d1 in *; lia). cbn [gbind]. rewrite zset_nat by (unfold d0 in *; lia). reflexivity.
           ++ apply znth_nat. unfold dersv. rewrite bfd_length. lia.
           ++ unfold get2. apply znth_nat. unfold dersv. rewrite bfd_row_length by lia. lia.
    + rewrite repeat_length. lia.
    + intros s temp Hs_ HLt Hrest_t. rewrite repeat_length in HLt.
      rewrite gfor_map.
      rewrite (gfor_row [] _ _ s (fun row r => axpy K (get2 K dersu k r) (pt_at P (spv - pv + s + sv * (spu - pu + r))) row)).
      * cbn [gbind]. rewrite Hrest_t by lia. rewrite nth_repeat_lt by lia. reflexivity.
      * lia.
      * intros r M' Hr HM'. apply in_seq in Hr.
        rewrite (znth_nat M' s []) by lia. cbn [gbind].
        replace (Z.of_nat spv - Z.of_nat pv + Z.of_nat s + Z.of_nat sv * (Z.of_nat spu - Z.of_nat pu + Z.of_nat r))%Z
          with (Z.of_nat (spv - pv + s + sv * (spu - pu + r)))
          by (rewrite !Nat2Z.inj_add, Nat2Z.inj_mul, Nat2Z.inj_add, !Nat2Z.inj_sub by lia; reflexivity).
        rewrite (znth_nat P _ []) by nia. cbn [gbind].
        rewrite (gmapM_axpy2 K dersu (Z.of_nat k) (Z.of_nat r) (nth k dersu []) (get2 K dersu k r)).
        -- cbn [gbind]. rewrite zset_nat by lia. reflexivity.
        -- apply znth_nat. unfold dersu. rewrite bfd_length. lia.
        -- unfold get2. apply znth_nat. unfold dersu. rewrite bfd_row_length by lia. lia.
Qed.

Theorem SurfaceEvaluator_derivatives_tie (dd : geomdata T)
    (pu pv : nat) (Uu Uv : list T) (su sv : nat) (P : list (list T)) (u v : T) (order : nat) :
  surf_dd' dd pu pv Uu Uv su sv P ->
  pu < su -> su + pu <= length Uu -> pv < sv -> sv + pv <= length Uv -> su * sv <= length P ->
  Evaluators.SurfaceEvaluator_derivatives K (Helpers.find_span_linear K) dd [u; v] (Z.of_nat order) =
  GOk (surface_derivs K (Z.to_nat (eval_dim dd)) pu pv Uu Uv su sv P u v order).
Proof. intros. apply SurfaceEvaluator_derivatives_tie_gen; auto; apply find_span_linear_tie; lia. Qed.
End Tie.

Definition SurfaceEvaluator_derivatives_tie_R := @SurfaceEvaluator_derivatives_tie _ Rops.
Definition SurfaceEvaluator_derivatives_tie_Q := @SurfaceEvaluator_derivatives_tie _ Qops.

(* ---- non-vacuity: degrees (2, 1), 4 x 3 weighted control points, an interior knot in both directions, (u, v) = (1/4, 3/4),
   order 2 (> the degree in v); the values are what geomdl returns.  Note row [2][1]: A3.6 as written fills the whole square
   (dd = min(order, d[1])), A3.8 only the triangle k + l <= order ---- *)
Local Open Scope Q_scope.
Definition exUu : list Q := [0; 0; 0; 1#2; 1; 1; 1].
Definition exUv : list Q := [0; 0; 1#2; 1; 1].
Definition exPs : list (list Q) :=
  [[0; 0; 0; 1]; [0; 1; 1; 1]; [0; 2; 0; 1];   [1; 0; 1; 1]; [2; 2; 4; 2]; [1; 2; 1; 1];
   [2; 0; 0; 1]; [2; 1; 2; 1]; [4; 4; 0; 2];   [3; 0; 1; 1]; [3; 1; 0; 1]; [3; 2; 1; 1]].
Definition exdds (rat : bool) : geomdata Q :=
  mk_geomdata rat (if rat then 3 else 4)%Z 2%Z [3%Z; 2%Z] 18%Z [2%Z; 1%Z] [exUu; exUv] [4%Z; 3%Z] exPs.
Example SurfaceEvaluator_derivatives_ex :
  Evaluators.SurfaceEvaluator_derivatives Qops (Helpers.find_span_linear Qops) (exdds false) [1#4; 3#4] 2 =
    GOk (surface_derivs Qops 4 2 1 exUu exUv 4 3 exPs (1#4) (3#4) 2)
  /\ surface_derivs Qops 4 2 1 exUu exUv 4 3 exPs (1#4) (3#4) 2 =
     [[[21#16; 31#16; 29#16; 11#8]; [-3#4; 5#4; -19#4; -1]; [0; 0; 0; 0]];
      [[9#2; 3#2; 5#2; 1]; [2; 2; -6; 0]; [0; 0; 0; 0]];
      [[-6; -2; -22; -4]; [40; 40; 40; 32]; [0; 0; 0; 0]]]
  /\ surf_dd' (exdds false) 2 1 exUu exUv 4 3 exPs.
Proof. split; [vm_compute; reflexivity|]. split; [vm_compute; reflexivity|]. unfold surf_dd'. repeat split. Qed.
