(* A5.4 (Model.KnotRefine.refine_g at the reals, points = coordinate lists), step by step.
   View of a loop state (nw, kv, i, k):  the knot vector  Wl = U[0..i] ++ kv[k+1..]  and the control points
   Rl = P[0..i-p-1] ++ nw[k-p..]  of the curve "U with the already processed knots of X inserted".
   - the inner while loop (refine_shift) leaves both views unchanged;
   - the body of the outer loop inserts x after position i of Wl and replaces Rl by the Boehm combination. *)
From Coq Require Import List Reals Lra Lia Arith Bool Permutation.
From NV Require Import Scalar.Ops Model.Common Model.Basis Model.KnotIns Model.InsertKnot Model.KnotRefine
  Proofs.Boehm Proofs.BasisR Proofs.KnotInsR Proofs.InsertKnotR Proofs.KnotRefineR.
Import ListNotations.
Local Open Scope nat_scope.

(* ---------- functional arrays: views ---------- *)
Lemma skipn_upd_here {A} (l : list A) : forall k v, k < length l -> skipn k (upd l k v) = v :: skipn (S k) l.
Proof. induction l as [|a l IH]; intros [|k] v H; cbn in *; try lia; auto. apply IH. lia. Qed.

Lemma skipn_upd_lt {A} (l : list A) : forall k j v, j < k -> skipn k (upd l j v) = skipn k l.
Proof. induction l as [|a l IH]; intros [|k] [|j] v H; cbn in *; try lia; auto. apply IH. lia. Qed.

Lemma firstn_S_nth {A} (l : list A) d : forall i, i < length l -> firstn (S i) l = firstn i l ++ [nth i l d].
Proof. induction l as [|a l IH]; intros [|i] H; cbn in *; try lia; auto. f_equal. apply IH. lia. Qed.

Lemma skipn_length_ {A} (l : list A) n : length (skipn n l) = length l - n.
Proof. apply skipn_length. Qed.

Definition Wl (U kv : list R) (i k : nat) : list R := firstn (S i) U ++ skipn (S k) kv.
Definition Rl (p : nat) (P nw : list (list R)) (i k : nat) : list (list R) := firstn (i - p) P ++ skipn (k - p) nw.

Lemma Wl_length U kv i k : i < length U -> length (Wl U kv i k) = S i + (length kv - S k).
Proof. intros. unfold Wl. rewrite app_length, firstn_length, skipn_length. lia. Qed.

Lemma Wl_nth U kv i k w d : i < length U -> i <= k ->
  nth w (Wl U kv i k) d = if Nat.leb w i then nth w U d else nth (w + (k - i)) kv d.
Proof.
  intros Hi Hik. unfold Wl.
  assert (Hf : length (firstn (S i) U) = S i) by (rewrite firstn_length; lia).
  destruct (Nat.leb_spec w i).
  - rewrite app_nth1 by lia. apply nth_firstn_lt. lia.
  - rewrite app_nth2 by lia. rewrite Hf, nth_skipn_add. f_equal. lia.
Qed.

Lemma Rl_length p (P nw : list (list R)) i k : i - p <= length P -> length (Rl p P nw i k) = (i - p) + (length nw - (k - p)).
Proof. intros. unfold Rl. rewrite app_length, firstn_length, skipn_length. lia. Qed.

Lemma Rl_nth p (P nw : list (list R)) i k w : i - p <= length P ->
  nth w (Rl p P nw i k) [] = if Nat.ltb w (i - p) then nth w P [] else nth (w - (i - p) + (k - p)) nw [].
Proof.
  intros Hi. unfold Rl.
  assert (Hf : length (firstn (i - p) P) = i - p) by (rewrite firstn_length; lia).
  destruct (Nat.ltb_spec w (i - p)).
  - rewrite app_nth1 by lia. apply nth_firstn_lt. lia.
  - rewrite app_nth2 by lia. rewrite Hf, nth_skipn_add. f_equal. lia.
Qed.

(* ---------- the inner while loop ---------- *)
Section Shift.
Variables (p : nat) (U : list R) (P : list (list R)) (x : R) (a : nat).
Hypothesis Hpa : p <= a.

Lemma shift_spec : forall fuel nw kv i k d,
  a <= i -> i < length U -> i - p <= length P -> i - a < fuel -> k = i + d -> 1 <= d -> k < length kv -> k - p <= length nw ->
  let '(nw', kv', i', k') := refine_shift Rops [] fuel p U P x a (nw, kv, i, k) in
  a <= i' <= i /\ k' = i' + d /\ length kv' = length kv /\ length nw' = length nw /\
  Wl U kv' i' k' = Wl U kv i k /\ Rl p P nw' i' k' = Rl p P nw i k /\
  (forall w, w <= a -> nth w kv' 0%R = nth w kv 0%R) /\ (forall w, w < a - p -> nth w nw' [] = nth w nw []) /\
  (i' = a \/ (knR U i' < x)%R) /\
  ((x <= knR (Wl U kv i k) (S i))%R -> (x <= knR (Wl U kv i k) (S i'))%R).
Proof.
  induction fuel as [|f IH]; intros nw kv i k d Hai HiU HiP Hf Hk Hd HkL HnL; [lia|].
  cbn [refine_shift]. rsimp.
  destruct (Rleb x (knR U i)) eqn:Ele; cbn [andb].
  2:{ repeat split; auto; try lia. right. unfold Rleb in Ele. destruct (Rle_dec x (knR U i)); [discriminate|lra]. }
  destruct (Nat.ltb_spec a i) as [Hlt|Hge]; cbn [andb].
  2:{ repeat split; auto; try lia. }
  assert (Hx : (x <= knR U i)%R) by (unfold Rleb in Ele; destruct (Rle_dec x (knR U i)); [assumption|discriminate]).
  specialize (IH (upd nw (k - p - 1) (getA [] P (i - p - 1))) (upd kv k (knR U i)) (Nat.pred i) (Nat.pred k) d).
  rewrite !upd_length in IH.
  specialize (IH ltac:(lia) ltac:(lia) ltac:(lia) ltac:(lia) ltac:(lia) Hd ltac:(lia) ltac:(lia)).
  destruct (refine_shift Rops [] f p U P x a (upd nw (k - p - 1) (getA [] P (i - p - 1)), upd kv k (knR U i), Nat.pred i, Nat.pred k))
    as [[[nw' kv'] i'] k'].
  destruct IH as [H1 [H2 [H3 [H4 [H5 [H6 [H7 [H8 [H9 H10]]]]]]]]].
  assert (EW : Wl U (upd kv k (knR U i)) (Nat.pred i) (Nat.pred k) = Wl U kv i k).
  { unfold Wl. replace (S (Nat.pred i)) with i by lia. replace (S (Nat.pred k)) with k by lia.
    rewrite skipn_upd_here by lia. rewrite (firstn_S_nth U 0%R i) by lia. rewrite <- app_assoc. reflexivity. }
  assert (ER : Rl p P (upd nw (k - p - 1) (getA [] P (i - p - 1))) (Nat.pred i) (Nat.pred k) = Rl p P nw i k).
  { unfold Rl. replace (Nat.pred k - p) with (k - p - 1) by lia. replace (Nat.pred i - p) with (i - p - 1) by lia.
    rewrite skipn_upd_here by lia. replace (S (k - p - 1)) with (k - p) by lia.
    assert (Hq : i - p - 1 < length P) by lia. revert Hq.
    assert (Eq : i - p = S (i - p - 1)) by lia. revert Eq. generalize (i - p - 1). intros q -> Hq.
    rewrite (firstn_S_nth P [] q) by lia. rewrite <- app_assoc. reflexivity. }
  split; [lia|]. split; [lia|]. split; [congruence|]. split; [congruence|]. split; [congruence|]. split; [congruence|].
  split; [|split; [|split; [exact H9|]]].
  - intros w Hw. rewrite H7 by exact Hw. apply nth_upd_other. lia.
  - intros w Hw. rewrite H8 by exact Hw. apply nth_upd_other. lia.
  - intros _. rewrite EW in H10. apply H10.
    unfold kn. rewrite Wl_nth by lia. replace (S (Nat.pred i)) with i by lia.
    destruct (Nat.leb_spec i i); [|lia]. exact Hx.
Qed.
End Shift.

(* ---------- the body of the outer loop after the shift: insert x behind position i ---------- *)
Section Insert.
Variables (tol : R) (p : nat) (U : list R) (P : list (list R)) (x : R).

(* the lerp / copy decision for offset l (1..p), old points y = nw[idx-1], z = nw[idx] *)
Definition ins_h (kv : list R) (i k : nat) (l : nat) (y z : list R) : list R :=
  if oltb Rops (oabs Rops (osub Rops (knR kv (k + l)) x)) tol then z
  else lerp Rops (odiv Rops (osub Rops (knR kv (k + l)) x) (osub Rops (knR kv (k + l)) (knR U (i - p + l)))) z y.

Definition ins_nw (nw : list (list R)) (kv : list R) (i k : nat) : list (list R) :=
  fold_left (fun nw l =>
      let idx := Nat.add (Nat.sub k p) l in
      let alpha := osub Rops (knR kv (Nat.add k l)) x in
      if oltb Rops (oabs Rops alpha) tol then upd nw (Nat.sub idx 1) (getA [] nw idx)
      else let alpha := odiv Rops alpha (osub Rops (knR kv (Nat.add k l)) (knR U (Nat.add (Nat.sub i p) l))) in
           upd nw (Nat.sub idx 1) (lerp Rops alpha (getA [] nw idx) (getA [] nw (Nat.sub idx 1)))) (seq 1 p)
    (upd nw (Nat.sub (Nat.sub k p) 1) (getA [] nw (Nat.sub k p))).

Lemma ins_nw_length nw kv i k : length (ins_nw nw kv i k) = length nw.
Proof.
  unfold ins_nw. set (nw1 := upd nw _ _). assert (H1 : length nw1 = length nw) by apply upd_length.
  rewrite <- H1. generalize nw1. generalize (seq 1 p).
  induction l as [|l0 l IH]; intros n0; cbn [fold_left]; auto.
  rewrite IH. destruct (oltb Rops _ tol); apply upd_length.
Qed.

Lemma ins_nw_nth nw kv i k m : p < k -> k < length nw ->
  nth m (ins_nw nw kv i k) [] =
    if Nat.eqb m (k - p - 1) then nth (k - p) nw []
    else if andb (Nat.leb (k - p) m) (Nat.ltb m k) then ins_h kv i k (m - (k - p - 1)) (nth m nw []) (nth (S m) nw [])
    else nth m nw [].
Proof.
  intros Hpk HkL. unfold ins_nw.
  set (nw1 := upd nw (k - p - 1) (getA [] nw (k - p))).
  rewrite (fold_left_ext_in _ (scan_step_off [] (k - p - 1) (fun l y z => ins_h kv i k l y z))).
  2:{ intros nw0 l Hl. apply in_seq in Hl. cbv zeta. unfold scan_step_off, ins_h, getA.
      replace (k - p + l - 1) with (l + (k - p - 1)) by lia. replace (k - p + l) with (S (l + (k - p - 1))) by lia.
      destruct (oltb Rops _ tol); reflexivity. }
  assert (HL1 : length nw1 = length nw) by apply upd_length.
  rewrite scan_off_nth by lia.
  assert (Hn1 : forall q, nth q nw1 [] = if Nat.eqb q (k - p - 1) then nth (k - p) nw [] else nth q nw []).
  { intros q. unfold nw1. rewrite nth_upd. destruct (Nat.eqb_spec q (k - p - 1)); cbn [andb]; auto.
    destruct (Nat.ltb_spec (k - p - 1) (length nw)); [reflexivity|lia]. }
  rewrite !Hn1.
  destruct (Nat.eqb_spec m (k - p - 1)) as [->|Hne].
  - destruct (Nat.leb_spec (1 + (k - p - 1)) (k - p - 1)); [lia|]. reflexivity.
  - destruct (Nat.leb_spec (1 + (k - p - 1)) m); destruct (Nat.ltb_spec m (1 + p + (k - p - 1)));
    destruct (Nat.leb_spec (k - p) m); destruct (Nat.ltb_spec m k); cbn [andb]; try lia; auto.
    destruct (Nat.eqb_spec (S m) (k - p - 1)); [lia|]. reflexivity.
Qed.
End Insert.

(* ---------- refine_g as a fold of (shift; insert) ---------- *)
Definition rstep (tol : R) (p : nat) (U : list R) (P : list (list R)) (a : nat)
    (st : list (list R) * list R * nat * nat) (xj : R) : list (list R) * list R * nat * nat :=
  let '(nw, kv, i, k) := refine_shift Rops [] (S (length U)) p U P xj a st in
  (ins_nw tol p U xj nw kv i k, upd kv k xj, i, Nat.pred k).

Definition rinit (p : nat) (U : list R) (P : list (list R)) (X : list R) (a b : nat) : list (list R) * list R * nat * nat :=
  let r := length X - 1 in
  let n := length P - 1 in
  let m := n + p + 1 in
  let new0 := repeat [] (n + r + 2) in
  let new1 := fold_left (fun nw j => upd nw j (getA [] P j)) (seq 0 (S (a - p))) new0 in
  let new2 := fold_left (fun nw j => upd nw (j + r + 1) (getA [] P j)) (seq (b - 1) (S n - (b - 1))) new1 in
  let kv0 := repeat 0%R (m + r + 2) in
  let kv1 := fold_left (fun kv j => upd kv j (knR U j)) (seq 0 (S a)) kv0 in
  let kv2 := fold_left (fun kv j => upd kv (j + r + 1) (knR U j)) (seq (b + p) (S m - (b + p))) kv1 in
  (new2, kv2, b + p - 1, b + p + r).

Lemma refine_pts_fold tol p U P X :
  let a := find_span_linear Rops p U (S (length P - 1)) (nth 0 X 0%R) in
  let b := S (find_span_linear Rops p U (S (length P - 1)) (nth (length X - 1) X 0%R)) in
  refine_pts Rops tol p U P X =
  let '(nwF, kvF, _, _) := fold_left (rstep tol p U P a) (rev X) (rinit p U P X a b) in (nwF, kvF).
Proof. reflexivity. Qed.
