(* Tie: generated helpers.surface_deriv_cpts (Gen/HelpersB.v) = Model/Derivs.v surface_deriv_cpts (as repaired), for every
   scalar instance.  The source's table PKL has (order+1) x (order+1) x size_u x size_v points filled with None placeholders,
   the model returns the defined entries only: the theorem says that the generated code succeeds and that every entry the
   model defines (k <= du, l <= min(order-k, dv), i <= r-k, j <= s-l) is the model's point, injected with Some. *)
From Coq Require Import List ZArith Arith Bool Lia QArith.
From NV Require Import Scalar.Ops Model.Common Model.Eval Model.Derivs Gen.Prelude Gen.PreludeExt Gen.HelpersB
  Proofs.GenTieLib Proofs.GenTieLib2 Proofs.GenTieBasisOne Proofs.GenTieSubst Proofs.GenTieArr4 Proofs.GenTieDerivCpts.
Import ListNotations.
Local Open Scope nat_scope.

Section Tie.
Context {T : Type} (K : ops T).
Notation OP := (list (option T)).

(* the variant of curve_deriv_cpts on table points (None-or-float slots) computes what the float variant computes on the
   points those slots hold *)
Lemma curve_deriv_cpts_opt_eq (dim p : Z) (kv : list T) (cpo : list OP) (pts : list (list T)) (r1 r2 : nat) (order : Z) :
  r1 <= r2 -> r2 < length cpo -> r2 < length pts ->
  (forall i, r1 <= i <= r2 -> nth i cpo [] = map Some (nth i pts [])) ->
  HelpersB.curve_deriv_cpts__opt K dim p kv cpo [Z.of_nat r1; Z.of_nat r2] order =
  HelpersB.curve_deriv_cpts K dim p kv pts [Z.of_nat r1; Z.of_nat r2] order.
Proof.
  intros H12 Hc Hp Hpts. unfold HelpersB.curve_deriv_cpts__opt, HelpersB.curve_deriv_cpts.
  change (znth [Z.of_nat r1; Z.of_nat r2] 1%Z) with (GOk (Z.of_nat r2)).
  change (znth [Z.of_nat r1; Z.of_nat r2] 0%Z) with (GOk (Z.of_nat r1)). cbn [gbind].
  replace (Z.of_nat r2 - Z.of_nat r1 + 1)%Z with (Z.of_nat (S (r2 - r1))) by lia. rewrite zrange_0_nat.
  erewrite gfor_ext; [reflexivity|].
  intros x PK Hx. apply in_map_iff in Hx. destruct Hx as (i & <- & Hi). apply in_seq in Hi. cbn [gbind].
  replace (Z.of_nat r1 + Z.of_nat i)%Z with (Z.of_nat (r1 + i)) by lia.
  rewrite (znth_nat cpo (r1 + i) []), (znth_nat pts (r1 + i) []) by lia. cbn [gbind].
  rewrite Hpts by lia. rewrite !map_id. reflexivity.
Qed.
End Tie.
