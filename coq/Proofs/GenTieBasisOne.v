(* Tie: generated helpers.basis_function_one (A2.4) = Model/Basis.v basis_function_one, for every scalar instance.
   The Python table N has degree + span + 1 entries, the model's has degree + 2; the loops only touch N[0..degree],
   on which the two tables agree step by step (relation Rel). *)
From Coq Require Import List ZArith Arith Bool Lia QArith.
From NV Require Import Scalar.Ops Model.Common Model.Basis Gen.Prelude Gen.Helpers Proofs.GenTieLib.
Import ListNotations.
Local Open Scope nat_scope.

Lemma gbind_eq {A B} (r : gres A) (a : A) (k : A -> gres B) : r = GOk a -> gbind r k = k a.
Proof. intros ->. reflexivity. Qed.

Lemma nth_map_seq {B} (f : nat -> B) n i d : i < n -> nth i (map f (seq 0 n)) d = f i.
Proof.
  intros H. rewrite (nth_indep _ d (f 0)) by (now rewrite map_length, seq_length).
  rewrite (map_nth f (seq 0 n) 0 i). now rewrite seq_nth.
Qed.

Section Tie.
Context {T : Type} (K : ops T).
Notation kn := (kn K).
Notation "0" := (o0 K).

Definition Rel (p sp : nat) (NG NM : list T) : Prop :=
  length NG = p + sp + 1 /\ length NM = p + 2 /\ forall i, i <= p -> nth i NG 0 = nth i NM 0.

Lemma Rel_upd p sp NG NM j x : Rel p sp NG NM -> j <= p -> Rel p sp (upd NG j x) (upd NM j x).
Proof.
  intros (H1 & H2 & H3) Hj. unfold Rel. rewrite !upd_length. repeat split; auto.
  intros i Hi. destruct (Nat.eq_dec j i) as [->|Hne].
  - rewrite !nth_upd_same by lia. reflexivity.
  - rewrite !nth_upd_other by auto. auto.
Qed.

Definition ind (U : list T) (sp : nat) (u : T) (j : nat) : T :=
  if in_half_open K (kn U (sp + j)) (kn U (S (sp + j))) u then o1 K else 0.

(* wf: span + degree + 1 < len(knot_vector) *)
Theorem basis_function_one_tie (p : nat) (U : list T) (sp : nat) (u : T) :
  sp + p + 1 < length U ->
  Helpers.basis_function_one K (Z.of_nat p) U (Z.of_nat sp) u = GOk (Basis.basis_function_one K p U sp u).
Proof.
  intros Hl. unfold Helpers.basis_function_one, Basis.basis_function_one.
  (* span == 0 and knot == knot_vector[0] *)
  match goal with |- gbind ?A _ = _ => assert (EA : A = GOk (andb (Nat.eqb sp O) (oeqb K u (kn U O)))) end.
  { destruct (Z.eqb_spec (Z.of_nat sp) 0); destruct (Nat.eqb_spec sp O); try lia; auto.
    rewrite (znth_Z U _ 0) by lia. reflexivity. }
  rewrite (gbind_eq _ _ _ EA). clear EA.
  (* ... or span == len - degree - 2 and knot == knot_vector[len - 1] *)
  match goal with |- gbind ?A _ = _ =>
    assert (EA : A = GOk (orb (andb (Nat.eqb sp O) (oeqb K u (kn U O)))
                              (andb (Nat.eqb (sp + (p + 2)) (length U)) (oeqb K u (kn U (Nat.pred (length U))))))) end.
  { destruct (andb (Nat.eqb sp O) (oeqb K u (kn U O))); auto. unfold zlen.
    destruct (Z.eqb_spec (Z.of_nat sp) (Z.of_nat (length U) - Z.of_nat p - 2));
      destruct (Nat.eqb_spec (sp + (p + 2)) (length U)); try lia; auto.
    rewrite (znth_Z U _ 0) by lia. cbn [gbind orb andb].
    replace (Z.to_nat (Z.of_nat (length U) - 1)) with (Nat.pred (length U)) by lia. reflexivity. }
  rewrite (gbind_eq _ _ _ EA). clear EA.
  destruct (orb _ _); [reflexivity|].
  (* knot < knot_vector[span] or knot >= knot_vector[span + degree + 1] *)
  rewrite (znth_Z U _ 0) by lia. cbn [gbind]. rewrite Nat2Z.id. fold (kn U sp).
  match goal with |- gbind ?A _ = _ =>
    assert (EA : A = GOk (orb (oltb K u (kn U sp)) (oleb K (kn U (S (sp + p))) u))) end.
  { destruct (oltb K u (kn U sp)); auto.
    rewrite (znth_Z U _ 0) by lia. cbn [gbind orb].
    replace (Z.to_nat (Z.of_nat sp + Z.of_nat p + 1)) with (S (sp + p)) by lia. reflexivity. }
  rewrite (gbind_eq _ _ _ EA). clear EA.
  destruct (orb _ _); [reflexivity|].
  (* the table *)
  rewrite map_const_zrange.
  replace (Z.to_nat (Z.of_nat p + Z.of_nat sp + 1)) with (p + sp + 1) by lia.
  replace (Z.of_nat p + 1)%Z with (Z.of_nat (S p)) by lia.
  rewrite zrange_0_nat, zrange_1_nat.
  (* first loop: the degree-0 functions *)
  match goal with |- context [gfor (map Z.of_nat (seq O (S p))) ?ff ?s0] =>
    destruct (gfor_seq_inv (fun j N => length N = p + sp + 1 /\ (forall i, i < j -> nth i N 0 = ind U sp u i)
                                       /\ (forall i, j <= i -> nth i N 0 = 0)) ff (S p) O)
      with (s := s0) as (N1 & E1 & HN1 & Hind & _)
  end.
  { intros j N Hj (HN & Hlo & Hhi). cbn [gbind].
    rewrite (znth_Z U _ 0) by lia. cbn [gbind].
    replace (Z.to_nat (Z.of_nat sp + Z.of_nat j)) with (sp + j) by lia. fold (kn U (sp + j)).
    match goal with |- context [gbind ?A _] =>
      assert (EA : A = GOk (in_half_open K (kn U (sp + j)) (kn U (S (sp + j))) u)) end.
    { unfold in_half_open. destruct (oleb K (kn U (sp + j)) u); auto.
      rewrite (znth_Z U _ 0) by lia. cbn [gbind andb].
      replace (Z.to_nat (Z.of_nat sp + Z.of_nat j + 1)) with (S (sp + j)) by lia. reflexivity. }
    rewrite (gbind_eq _ _ _ EA). clear EA.
    pose proof (eq_refl (ind U sp u j)) as Ei. unfold ind at 2 in Ei.
    destruct (in_half_open K (kn U (sp + j)) (kn U (S (sp + j))) u).
    - rewrite zset_Z by lia. cbn [gbind]. rewrite Nat2Z.id.
      eexists. split; [reflexivity|]. rewrite upd_length. repeat split; auto.
      + intros i Hi. destruct (Nat.eq_dec i j) as [->|Hne].
        * rewrite nth_upd_same by lia. auto.
        * rewrite nth_upd_other by lia. apply Hlo. lia.
      + intros i Hi. rewrite nth_upd_other by lia. apply Hhi. lia.
    - cbn [gbind]. eexists. split; [reflexivity|]. repeat split; auto.
      + intros i Hi. destruct (Nat.eq_dec i j) as [->|Hne].
        * rewrite Hhi by lia. auto.
        * apply Hlo. lia.
      + intros i Hi. apply Hhi. lia. }
  { rewrite repeat_length. repeat split; auto; try lia.
    intros i _. destruct (Nat.lt_ge_cases i (p + sp + 1)).
    - apply nth_repeat.
    - apply nth_overflow. rewrite repeat_length. lia. }
  rewrite E1. cbn [gbind]. clear E1.
  set (N0M := map (fun j => if in_half_open K (kn U (sp + j)) (kn U (S (sp + j))) u then o1 K else 0) (seq O (S p)) ++ [0]).
  assert (R1 : Rel p sp N1 N0M).
  { unfold Rel, N0M. rewrite app_length, map_length, seq_length. cbn [length]. repeat split; auto; try lia.
    intros i Hi. rewrite Hind by lia. rewrite app_nth1 by (rewrite map_length, seq_length; lia).
    rewrite nth_map_seq by lia. reflexivity. }
  clearbody N0M. clear HN1 Hind.
  (* second loop: the triangular table *)
  match goal with |- context [gfor (map Z.of_nat (seq 1 p)) ?ff ?s0] =>
    destruct (gfor_seq_fold (fun (_ : nat) NG NM => Rel p sp NG NM) ff (fun N k => one_table_step K U sp u p k N) p 1)
      with (s := s0) (s' := N0M) as (N2 & E2 & R2)
  end; auto.
  { intros k NG NM Hk HR. cbn [gbind].
    pose proof HR as (HG & HM & Hnth).
    rewrite (znth_Z NG _ 0) by lia. cbn [gbind]. change (Z.to_nat 0) with O.
    rewrite (Hnth O) by lia.
    unfold one_table_step, isz.
    (* saved *)
    match goal with |- context [gbind ?A _] =>
      assert (EA : A = GOk (if oeqb K (nth O NM 0) 0 then 0
                            else odiv K (omul K (osub K u (kn U sp)) (nth O NM 0)) (osub K (kn U (sp + k)) (kn U sp)))) end.
    { destruct (oeqb K (nth O NM 0) 0); cbn [negb]; auto.
      rewrite !(znth_Z U _ 0) by lia. cbn [gbind].
      rewrite ?Nat2Z.id. replace (Z.to_nat (Z.of_nat sp + Z.of_nat k)) with (sp + k) by lia. reflexivity. }
    rewrite (gbind_eq _ _ _ EA). clear EA.
    set (saved0 := if oeqb K (nth O NM 0) 0 then 0 else _).
    replace (Z.of_nat p - Z.of_nat k + 1)%Z with (Z.of_nat (S (p - k))) by lia.
    rewrite zrange_0_nat.
    match goal with |- context [gfor (map Z.of_nat (seq O (S (p - k)))) ?ff ?s0] =>
      match goal with |- context [fold_left ?gg (seq O (S (p - k))) ?s0'] =>
        destruct (gfor_seq_fold (fun (_ : nat) (s : list T * T) (s' : list T * T) => Rel p sp (fst s) (fst s') /\ snd s = snd s')
                    ff gg (S (p - k)) O) with (s := s0) (s' := s0') as ([N3 sv3] & E3 & R3 & _)
      end
    end.
    { intros j [NG' sG] [NM' sM] Hj [HR' Es]. simpl in HR', Es. subst sM.
      pose proof HR' as (HG' & HM' & Hnth').
      cbn [gbind].
      rewrite !(znth_Z U _ 0) by lia. cbn [gbind].
      rewrite (znth_Z NG' _ 0) by lia. cbn [gbind].
      replace (Z.to_nat (Z.of_nat j + 1)) with (S j) by lia.
      replace (Z.to_nat (Z.of_nat sp + Z.of_nat j + 1)) with (S (sp + j)) by lia.
      replace (Z.to_nat (Z.of_nat sp + Z.of_nat j + Z.of_nat k + 1)) with (S (sp + j + k)) by lia.
      rewrite (Hnth' (S j)) by lia. fold (kn U (S (sp + j))) (kn U (S (sp + j + k))).
      destruct (oeqb K (nth (S j) NM' 0) 0).
      - rewrite zset_Z by lia. cbn [gbind]. rewrite Nat2Z.id.
        eexists. split; [reflexivity|]. simpl. split; auto. apply Rel_upd; auto. lia.
      - cbn [gbind]. rewrite zset_Z by lia. cbn [gbind]. rewrite Nat2Z.id.
        eexists. split; [reflexivity|]. simpl. split; auto. apply Rel_upd; auto. lia. }
    { simpl. auto. }
    rewrite E3. cbn [gbind]. eexists. split; [reflexivity|]. exact R3. }
  rewrite E2. cbn [gbind].
  destruct R2 as (HG & HM & Hnth).
  rewrite (znth_Z N2 _ 0) by lia. cbn [gbind]. change (Z.to_nat 0) with O.
  rewrite (Hnth O) by lia. reflexivity.
Qed.
End Tie.

Definition basis_function_one_tie_R := @basis_function_one_tie _ Rops.
Definition basis_function_one_tie_Q := @basis_function_one_tie _ Qops.

(* ---- non-vacuity (degree 3, a repeated interior knot) ---- *)
Local Open Scope Q_scope.
Definition exU : list Q := [0; 0; 0; 0; 1#4; 1#2; 1#2; 3#4; 1; 1; 1; 1].
Example basis_function_one_ex :
  Helpers.basis_function_one Qops 3 exU 3 (3#10) = GOk (21#50)
  /\ Basis.basis_function_one Qops 3 exU 3 (3#10) = 21#50
  /\ Helpers.basis_function_one Qops 3 exU 2 (1#2) = GOk (Basis.basis_function_one Qops 3 exU 2 (1#2))
  /\ Helpers.basis_function_one Qops 3 exU 7 1 = GOk 1
  /\ (3 + 3 + 1 < length exU)%nat.
Proof. repeat split; try (vm_compute; reflexivity); unfold exU; simpl; lia. Qed.
