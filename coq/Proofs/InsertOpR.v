(* The curve operation as a whole: operations.insert_knot (model) on a curve either rejects the call and
   returns the curve unchanged, or returns a curve with the same points.  Ties the span / multiplicity searches
   to the hypotheses of the insertion theorems. *)
From Coq Require Import List Reals Lra Lia Arith Bool ZArith.
From NV Require Import Scalar.Ops Model.Common Model.Basis Model.KnotIns Model.InsertKnot
  Proofs.Boehm Proofs.BasisR Proofs.KnotInsR Proofs.InsertKnotR Proofs.KnotInsN Proofs.InsertNR.
Import ListNotations.
Open Scope R_scope.

Lemma filter_length_le' {A} (f : A -> bool) (l : list A) : (length (filter f l) <= length l)%nat.
Proof. induction l as [|a l IH]; cbn; [lia|]. destruct (f a); cbn; lia. Qed.
Lemma filter_nil' {A} (f : A -> bool) (l : list A) : (forall x, In x l -> f x = false) -> filter f l = [].
Proof. induction l as [|a l IH]; intros H; cbn; auto. rewrite (H a) by (left; reflexivity). apply IH. intros; apply H; right; assumption. Qed.

(* ---- multiplicity: in a sorted list whose entries are all <= u the entries equal to u are the last ones ---- *)
Section Mult.
Variables (tol u : R).
Hypothesis Htol : 0 <= tol.
Definition nearb (x : R) : bool := oleb Rops (oabs Rops (osub Rops u x)) tol.

Lemma nearb_eq x : x = u -> nearb x = true.
Proof.
  intros ->. unfold nearb, oabs, oneg. rsimp. replace (u - u) with 0 by ring.
  unfold Rleb. destruct (Rle_dec 0 0); [|lra]. destruct (Rle_dec 0 tol); [reflexivity|lra].
Qed.

Lemma filter_suffix : forall (A : list R),
  (forall i j, (i <= j < length A)%nat -> nth i A 0 <= nth j A 0) ->
  (forall i, (i < length A)%nat -> nth i A 0 <= u) ->
  (forall i, (i < length A)%nat -> nearb (nth i A 0) = true -> nth i A 0 = u) ->
  forall i, (length A - length (filter nearb A) <= i < length A)%nat -> nth i A 0 = u.
Proof.
  induction A as [|a A IH]; intros Hs Hle Hsep i Hi; [cbn in Hi; lia|].
  assert (HsA : forall i j, (i <= j < length A)%nat -> nth i A 0 <= nth j A 0).
  { intros i' j' H. apply (Hs (S i') (S j')). cbn [length]. lia. }
  assert (HleA : forall i, (i < length A)%nat -> nth i A 0 <= u).
  { intros i' H. apply (Hle (S i')). cbn [length]. lia. }
  assert (HsepA : forall i, (i < length A)%nat -> nearb (nth i A 0) = true -> nth i A 0 = u).
  { intros i' H. apply (Hsep (S i')). cbn [length]. lia. }
  cbn [filter] in Hi. destruct (nearb a) eqn:Ea.
  - (* a = u: everything after it equals u *)
    assert (a = u) by (apply (Hsep 0%nat); [cbn; lia|exact Ea]).
    assert (a <= nth i (a :: A) 0) by (apply (Hs 0%nat i); lia).
    assert (nth i (a :: A) 0 <= u) by (apply Hle; lia). lra.
  - destruct i as [|i].
    + cbn [length] in Hi. pose proof (filter_length_le' nearb A). lia.
    + cbn [nth]. apply IH; auto. cbn [length] in Hi. lia.
Qed.
End Mult.

Section Op.
Variables (tol : R) (c : curve (T:=R)) (u : R) (dim : nat).
Notation p := (c_p c). Notation U := (c_U c). Notation P := (c_P c).
Hypothesis Htol : 0 <= tol.
Hypothesis Usorted : sortedR U.
Hypothesis HpP : (p < length P)%nat.
Hypothesis HlenU : length U = (length P + p + 1)%nat.
(* u in the half-open domain [U_p, U_n): inside a span or on an interior knot (the domain end has full multiplicity) *)
Hypothesis Hu : knR U p <= u < knR U (length P).
(* the multiplicity tolerance does not confuse distinct knots *)
Hypothesis Hsep : forall i, (i < length U)%nat -> Rabs (u - knR U i) <= tol -> knR U i = u.
Hypothesis Hdim : forall i, (i < length P)%nat -> length (getp P i) = dim.

Let k := find_span_linear Rops p U (length P) u.
Let s := find_multiplicity Rops tol u U.

Lemma k_spec : (p <= k < length P)%nat /\ knR U k <= u < knR U (k + 1).
Proof.
  pose proof (find_span_linear_spec U u p (length P) HpP ltac:(lia) (proj1 Hu)) as H.
  cbv zeta in H. fold k in H. destruct H as [H1 [H2 [H3|[H3 H4]]]].
  - replace (k + 1)%nat with (S k) by lia. split; [exact H1|split; assumption].
  - lra.
Qed.

Lemma nearb_abs x : nearb tol u x = true -> Rabs (u - x) <= tol.
Proof.
  unfold nearb, oabs, oneg. rsimp. unfold Rleb.
  destruct (Rle_dec 0 (u - x)) as [H|H]; intros E.
  - destruct (Rle_dec (u - x) tol); [|discriminate]. rewrite Rabs_right by lra. assumption.
  - destruct (Rle_dec (0 - (u - x)) tol); [|discriminate]. rewrite Rabs_left by lra. lra.
Qed.

Lemma s_spec : forall i, (k - s < i <= k)%nat -> knR U i = u.
Proof.
  destruct k_spec as [[Hk1 Hk2] [Hk3 Hk4]].
  set (A := firstn (S k) U).
  assert (HlA : length A = S k) by (unfold A; rewrite firstn_length; lia).
  assert (HnA : forall i, (i < S k)%nat -> nth i A 0 = knR U i).
  { intros i Hi. unfold A. rewrite nth_firstn_lt by lia. reflexivity. }
  assert (Hskip : filter (nearb tol u) (skipn (S k) U) = []).
  { apply filter_nil'. intros x Hx. destruct (In_nth _ _ 0 Hx) as [j [Hj Hjx]].
    rewrite skipn_length in Hj. rewrite nth_skipn_add in Hjx.
    destruct (nearb tol u x) eqn:E; [|reflexivity]. exfalso.
    assert (knR U (S k + j) = u). { apply Hsep; [lia|]. unfold Common.kn. rsimp. rewrite Hjx. apply nearb_abs. exact E. }
    assert (knR U (k + 1) <= knR U (S k + j)) by (apply Usorted; lia). lra. }
  assert (Hs : s = length (filter (nearb tol u) A)).
  { unfold s, find_multiplicity. rewrite <- (firstn_skipn (S k) U) at 1. rewrite filter_app, app_length.
    fold A. unfold nearb in Hskip. rewrite Hskip. cbn [length]. unfold nearb. lia. }
  intros i Hi. rewrite <- HnA by lia.
  apply (filter_suffix tol u A).
  - intros i' j' H. rewrite !HnA by lia. apply Usorted. lia.
  - intros i' H. rewrite HnA by lia. assert (knR U i' <= knR U k) by (apply Usorted; lia). lra.
  - intros i' H E. rewrite HnA in * by lia. apply Hsep; [lia|]. apply nearb_abs. exact E.
  - rewrite HlA, <- Hs. lia.
Qed.


Theorem insert_knot_curve_correct (num : nat) : (1 <= num)%nat ->
  let '(c', raised) := insert_knot_curve Rops tol true c [Some u] [Z.of_nat num] in
  (raised = true -> c' = c /\ (p - s < num)%nat) /\
  (raised = false -> (num <= p - s)%nat /\ c_p c' = p /\ length (c_P c') = (length P + num)%nat /\
     forall cc t, (cc < dim)%nat -> curve_pt (c_p c') (c_U c') (c_P c') cc t = curve_pt p U P cc t).
Proof.
  intros Hnum. destruct k_spec as [[Hk1 Hk2] [Hk3 Hk4]].
  destruct (le_lt_dec num (p - s)) as [Hok|Hbad].
  - rewrite insert_knot_curve_accept by (fold s; lia). fold s. fold k.
    split; [discriminate|]. intros _. cbn [c_p c_U c_P].
    split; [exact Hok|]. split; [reflexivity|].
    split. { destruct (knot_insertion_frame Rops p U P u num s k) as [HL _]; auto; lia. }
    intros cc t Hcc.
    apply (insertN_model_preserves_curve p U P u s k dim); auto; try lia. apply s_spec.
  - rewrite insert_knot_curve_rejected by (fold s; lia).
    split; [intros _; split; [reflexivity|exact Hbad]|discriminate].
Qed.
End Op.
