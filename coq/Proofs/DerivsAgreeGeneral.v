(* C02 / C17 [G]: the two shipped curve derivative evaluators agree, for ALL degrees.

     curve_derivs2_eq_curve_derivs :
       curve_derivs2 Rops dim p U P u order = curve_derivs Rops dim p U P u order        (equality of the returned lists)

   for every degree p, every sorted knot vector (any multiplicities), every well-formed control polygon, EVERY real
   parameter u (inside the domain, at its closed right end, outside) and every order (also above the degree: zero rows).
   curve_derivs  = A3.2, CurveEvaluator.derivatives : sum of basis-function derivatives (A2.3) times control points;
   curve_derivs2 = A3.4, CurveEvaluator2.derivatives: derivative control points (A3.3, helpers.curve_deriv_cpts) times
                   basis functions of lower degree (helpers.basis_function_all).

   Ingredients:
     cdc_row_spec, curve_deriv_cpts_is_PK
                           A3.3 as called by the evaluator computes the specification-level points PK of DerivCptsSpec.v
     bfall_get_piece       basis_function_all supplies the polynomial pieces Nk of the span, degree p-k (DersNdu.bf_is_piece)
     ders_general_pieces   A2.3 supplies the derivatives dNk of the pieces (DersGeneral.v)
     deriv_cpts_window     sum_j dNk_{k,p} P = sum_j Nk_{p-k} PK_k on the active window (DerivCptsSpec.v)
   Both algorithms are formal computations on the knots of the active window, so no condition on u is needed; inside the
   half-open domain the common value is the k-th derivative of the curve (DersGeneralCurve.v), see
   curve_derivs2_is_dN_sum_general below. *)
From Coq Require Import List Reals Lra Lia Arith Bool.
From NV Require Import Scalar.Ops Model.Common Model.Basis Model.Knots Model.Eval Model.Degree Model.Derivs
  Proofs.Boehm Proofs.BfN Proofs.BasisR Proofs.DerivAnalytic Proofs.EvalR Proofs.DerivLinkCurve Proofs.DersNdu
  Proofs.DersGeneral Proofs.DersGeneralCurve Proofs.DerivCptsSpec.
Import ListNotations.
Open Scope R_scope.

(* ---- the span search always returns a span p <= span < n (for every real u) ---- *)
Lemma find_span_range (U : list R) u p n : (p < n)%nat -> (n < length U)%nat ->
  (p <= find_span_linear Rops p U n u < n)%nat.
Proof.
  intros Hp HL. unfold find_span_linear.
  destruct (aux_spec U u p n Hp HL n (S p) ltac:(lia) ltac:(lia)) as [H _].
  { intros i Hi1 Hi2. lia. }
  lia.
Qed.

(* ---- A2.2 / basis_function_all: polynomial pieces of the span, every u ---- *)
Lemma bf_model_piece (U : list R) u span q r : (q <= span)%nat -> (span + q < length U)%nat -> (r <= q)%nat ->
  nth r (basis_function Rops q U span u) 0 = Nk (Ufun U) span q (span - q + r) u.
Proof. intros Hq HL Hr. rewrite bf_Ufun by exact HL. apply bf_is_piece; assumption. Qed.

Lemma bfall_get_piece (U : list R) u span p q j :
  (q <= p)%nat -> (j <= q)%nat -> (q <= span)%nat -> (span + q < length U)%nat ->
  bfall_get Rops (basis_function_all Rops p U span u) j q = Nk (Ufun U) span q (span - q + j) u.
Proof.
  intros Hq Hj Hs HL. unfold bfall_get, basis_function_all.
  rewrite nth_map_seq_gen by lia. cbn [Nat.add]. rewrite nth_map_seq_gen by lia.
  replace (j + (q - j))%nat with q by lia. apply bf_model_piece; assumption.
Qed.

(* on the half-open span the pieces are the Cox-de Boor functions: bfuns[j][q] = N_{span-q+j, q}(u) *)
Lemma bfall_get_is_N (U : list R) u span p q j :
  sortedR U -> knR U span <= u < knR U (span + 1) -> (span + 1 < length U)%nat ->
  (q <= p)%nat -> (j <= q)%nat -> (q <= span)%nat -> (span + q < length U)%nat ->
  bfall_get Rops (basis_function_all Rops p U span u) j q = N (Ufun U) q (span - q + j) u.
Proof.
  intros Hs Hu HL1 Hq Hj Hsp HL. rewrite bfall_get_piece by assumption. symmetry.
  apply (Nk_eq_N (Ufun U) (Ufun_sorted U Hs) span).
  replace (S span) with (span + 1)%nat by lia. rewrite !Ufun_in by lia. exact Hu.
Qed.

(* ---- A3.3: the rows of helpers.curve_deriv_cpts ---- *)
Definition cdc_row0 (cpts : list (list R)) (r1 r : nat) : list (list R) :=
  map (fun i => pt_at cpts (Nat.add r1 i)) (seq 0 (S r)).
Fixpoint cdc_row (p : nat) (kv : list R) (cpts : list (list R)) (r1 r k : nat) : list (list R) :=
  match k with
  | O => cdc_row0 cpts r1 r
  | S k' => deriv_row Rops p kv r1 r (S k') (cdc_row p kv cpts r1 r k')
  end.

Lemma cdc_fold p kv cpts r1 r m :
  fold_left (fun (st : list (list (list R)) * list (list R)) k =>
               let row := deriv_row Rops p kv r1 r k (snd st) in (fst st ++ [row], row))
            (seq 1 m) ([cdc_row0 cpts r1 r], cdc_row0 cpts r1 r)
  = (map (cdc_row p kv cpts r1 r) (seq 0 (S m)), cdc_row p kv cpts r1 r m).
Proof.
  induction m as [|m IH]; [reflexivity|].
  rewrite seq_S, fold_left_app, IH. cbn [fold_left fst snd Nat.add].
  rewrite (seq_S (S m) 0), map_app. reflexivity.
Qed.

Lemma cdc_unfold p kv cpts r1 r2 order :
  curve_deriv_cpts Rops p kv cpts r1 r2 order = map (cdc_row p kv cpts r1 (r2 - r1)) (seq 0 (S order)).
Proof. exact (f_equal fst (cdc_fold p kv cpts r1 (r2 - r1) order)). Qed.

Lemma cdc_nth p kv cpts r1 r2 order k : (k <= order)%nat ->
  nth k (curve_deriv_cpts Rops p kv cpts r1 r2 order) [] = cdc_row p kv cpts r1 (r2 - r1) k.
Proof. intros Hk. rewrite cdc_unfold, nth_map_seq_gen by lia. reflexivity. Qed.

Lemma deriv_row_nth p kv r1 r k prev i : (i < S r - k)%nat ->
  nth i (deriv_row Rops p kv r1 r k prev) []
  = map (fun e => (ofnat Rops (p + 1 - k) * (fst e - snd e)) / (knR kv (r1 + i + p + 1) - knR kv (r1 + i + k)))
        (combine (pt_at prev (S i)) (pt_at prev i)).
Proof. intros Hi. unfold deriv_row. rewrite nth_map_seq_gen by exact Hi. reflexivity. Qed.

Lemma map_combine_nth (f : R * R -> R) : forall (l1 l2 : list R) c, (c < length l1)%nat -> (c < length l2)%nat ->
  nth c (map f (combine l1 l2)) 0 = f (nth c l1 0, nth c l2 0).
Proof.
  intros l1 l2 c. revert l1 l2. induction c as [|c IH]; intros [|x l1] [|y l2] H1 H2; cbn [length] in *; try lia.
  - reflexivity.
  - cbn [combine map nth]. apply IH; lia.
Qed.

(* [G] row k of A3.3 on the window r1 .. r1+r holds the points PK k (r1+i), i + k <= r, coordinate-wise; V is any total knot
   function that agrees with the knot list on the indices that are read *)
Lemma cdc_row_spec p kv cpts r1 r dim (V : nat -> R) :
  (forall m, (m <= r1 + r + p)%nat -> knR kv m = V m) ->
  (forall i, (i <= r)%nat -> length (nth (r1 + i) cpts []) = dim) ->
  forall k i, (i + k <= r)%nat ->
    length (nth i (cdc_row p kv cpts r1 r k) []) = dim /\
    forall d, (d < dim)%nat ->
      nth d (nth i (cdc_row p kv cpts r1 r k) []) 0 = PK V p (fun m => coord cpts m d) k (r1 + i).
Proof.
  intros HV Hwf. induction k as [|k IH]; intros i Hi.
  - cbn [cdc_row]. unfold cdc_row0. rewrite nth_map_seq_gen by lia. cbn [Nat.add]. unfold pt_at.
    split; [apply Hwf; lia|]. intros d Hd. reflexivity.
  - cbn [cdc_row]. rewrite deriv_row_nth by lia. unfold pt_at.
    destruct (IH (S i) ltac:(lia)) as [L1 N1]. destruct (IH i ltac:(lia)) as [L0 N0].
    split.
    + rewrite map_length, combine_length, L1, L0. apply Nat.min_id.
    + intros d Hd. rewrite map_combine_nth by lia. cbn [fst snd]. rsimp.
      rewrite N1, N0 by exact Hd. rewrite ofnat_INR. rewrite !HV by lia. rewrite PK_S.
      replace (p + 1 - S k)%nat with (p - k)%nat by lia.
      replace (r1 + S i)%nat with (S (r1 + i)) by lia.
      replace (r1 + i + S k)%nat with (r1 + i + k + 1)%nat by lia. reflexivity.
Qed.

(* [G] the same about the function as it is called: entry i of row k of helpers.curve_deriv_cpts(p, kv, cpts, rs=(r1, r2), order) *)
Theorem curve_deriv_cpts_is_PK (p : nat) (kv : list R) (cpts : list (list R)) (r1 r2 order dim k i : nat) :
  (r1 + (r2 - r1) + p < length kv)%nat -> (forall i, (i <= r2 - r1)%nat -> length (nth (r1 + i) cpts []) = dim) ->
  (k <= order)%nat -> (i + k <= r2 - r1)%nat ->
  let e := nth i (nth k (curve_deriv_cpts Rops p kv cpts r1 r2 order) []) [] in
  length e = dim /\ forall d, (d < dim)%nat -> nth d e 0 = PK (Ufun kv) p (fun m => coord cpts m d) k (r1 + i).
Proof.
  intros HL Hwf Hk Hi. cbv zeta. rewrite cdc_nth by exact Hk.
  apply cdc_row_spec; try assumption. intros m Hm. symmetry. apply Ufun_in. lia.
Qed.

(* ---- the two evaluators ---- *)
Section Curve.
Variables (U : list R) (P : list (list R)) (p dim : nat).
Hypothesis Usorted : sortedR U.
Hypothesis Hwf : wf_net P dim.
Hypothesis Hp : (p < length P)%nat.
Hypothesis HL : length U = (length P + p + 1)%nat.

(* [G] entry k <= min(p, order) of A3.4: sum over the p-k+1 active functions of degree p-k of piece * PK k *)
Lemma curve_derivs2_entry u order k : (k <= Nat.min p order)%nat ->
  let span := find_span_linear Rops p U (length P) u in
  let row := nth k (curve_derivs2 Rops dim p U P u order) [] in
  length row = dim /\
  forall d, (d < dim)%nat ->
    nth d row 0 = sumf (fun j => Nk (Ufun U) span (p - k) (span - p + k + j) u
                                 * PK (Ufun U) p (fun m => coord P m d) k (span - p + j)) (S (p - k)).
Proof.
  intros Hk. cbv zeta.
  pose proof (find_span_range U u p (length P) Hp ltac:(lia)) as Hs.
  unfold curve_derivs2. rewrite nth_map_seq_gen by lia. cbn [Nat.add].
  set (span := find_span_linear Rops p U (length P) u) in *.
  destruct (Nat.leb_spec k (Nat.min p order)) as [_|Hc]; [|lia].
  rewrite cdc_nth by exact Hk. replace (span - (span - p))%nat with p by lia.
  assert (Hrow : forall i, (i + k <= p)%nat ->
            length (nth i (cdc_row p U P (span - p) p k) []) = dim /\
            forall d, (d < dim)%nat ->
              nth d (nth i (cdc_row p U P (span - p) p k) []) 0
              = PK (Ufun U) p (fun m => coord P m d) k (span - p + i)).
  { apply cdc_row_spec.
    - intros m Hm. symmetry. apply Ufun_in. lia.
    - intros i Hi. apply Hwf. lia. }
  destruct (fold_axpy_lt (fun j => bfall_get Rops (basis_function_all Rops p U span u) j (p - k))
                         (fun j => pt_at (cdc_row p U P (span - p) p k) j) dim (S (p - k))) as [HLr Hn].
  { intros j Hj. unfold pt_at. apply (Hrow j). lia. }
  cbv beta zeta in HLr, Hn.
  split; [exact HLr|]. intros d Hd. rewrite Hn by exact Hd. apply sumf_ext. intros j Hj.
  rewrite bfall_get_piece by lia. replace (span - (p - k) + j)%nat with (span - p + k + j)%nat by lia. f_equal.
  unfold pt_at. apply (Hrow j); [lia|exact Hd].
Qed.

(* [G] entry k <= min(p, order) of A3.2: sum over the p+1 active functions of degree p of (k-th derivative of the piece) * P *)
Lemma curve_derivs_entry u order k : (k <= Nat.min p order)%nat ->
  let span := find_span_linear Rops p U (length P) u in
  let row := nth k (curve_derivs Rops dim p U P u order) [] in
  length row = dim /\
  forall d, (d < dim)%nat ->
    nth d row 0 = sumf (fun j => dNk (Ufun U) span k p (span - p + j) u * coord P (span - p + j) d) (S p).
Proof.
  intros Hk. cbv zeta.
  pose proof (find_span_range U u p (length P) Hp ltac:(lia)) as Hs.
  unfold curve_derivs. rewrite nth_map_seq_gen by lia. cbn [Nat.add].
  set (span := find_span_linear Rops p U (length P) u) in *.
  destruct (Nat.leb_spec k (Nat.min p order)) as [_|Hc]; [|lia].
  destruct (curve_point_at_sum dim p P span (nth k (basis_function_ders Rops p U span u (Nat.min p order)) []) Hwf
              ltac:(lia) ltac:(lia)) as [HLr Hn]. cbv zeta in HLr, Hn.
  split; [exact HLr|]. intros d Hd. rewrite Hn by exact Hd. apply sumf_ext. intros j Hj. f_equal.
  apply (ders_general_pieces U span p Usorted); lia.
Qed.

(* [G] THE THEOREM: the two evaluators return the same list, all degrees, every u, every order *)
Theorem curve_derivs2_eq_curve_derivs u order :
  curve_derivs2 Rops dim p U P u order = curve_derivs Rops dim p U P u order.
Proof.
  pose proof (find_span_range U u p (length P) Hp ltac:(lia)) as Hs.
  apply (nth_ext _ _ [] []).
  - unfold curve_derivs2, curve_derivs. rewrite !map_length. reflexivity.
  - intros k Hk. unfold curve_derivs2 in Hk. rewrite map_length, seq_length in Hk.
    destruct (le_lt_dec k (Nat.min p order)) as [Hle|Hgt].
    + destruct (curve_derivs2_entry u order k Hle) as [L2 N2]. destruct (curve_derivs_entry u order k Hle) as [L1 N1].
      cbv zeta in *. apply (nth_ext _ _ 0 0); [congruence|]. intros d Hd. rewrite L2 in Hd.
      rewrite N2, N1 by exact Hd. symmetry.
      apply (deriv_cpts_window k (Ufun U) p (find_span_linear Rops p U (length P) u) (fun m => coord P m d) u); lia.
    + unfold curve_derivs2, curve_derivs. rewrite !nth_map_seq_gen by lia. cbn [Nat.add].
      destruct (Nat.leb_spec k (Nat.min p order)); [lia|reflexivity].
Qed.

(* lengths: S order rows of dim coordinates *)
Lemma curve_derivs2_length u order : length (curve_derivs2 Rops dim p U P u order) = S order.
Proof. unfold curve_derivs2. rewrite map_length, seq_length. reflexivity. Qed.

(* [G] hence, with DersGeneralCurve.v, the alternative evaluator returns sum_i dN k p i u * P_i, the k-th derivative of the
   curve, on the half-open domain *)
Corollary curve_derivs2_is_dN_sum_general u order k :
  knR U p <= u < knR U (length P) -> (k <= order)%nat ->
  let CK := curve_derivs2 Rops dim p U P u order in
  length (nth k CK []) = dim /\
  forall d, (d < dim)%nat -> nth d (nth k CK []) 0 = curve_dk U p P k d u.
Proof.
  intros Hu Hk. cbv zeta. rewrite curve_derivs2_eq_curve_derivs.
  exact (curve_derivs_is_dN_sum_general U P p dim Usorted Hwf Hp HL u order k Hu Hk).
Qed.

(* object level: BSpline.Curve.derivatives with evaluator = CurveEvaluator2 returns what the default evaluator returns *)
Corollary Curve_derivatives_alg2_eq normalize u order :
  Curve_derivatives Rops normalize false true dim p U P u order = Curve_derivatives Rops normalize false false dim p U P u order.
Proof. unfold Curve_derivatives. rewrite curve_derivs2_eq_curve_derivs. reflexivity. Qed.
(* operations.tangent on a non-rational curve: same answer with either evaluator *)
Corollary tangent_curve_alg2_eq normalize u :
  tangent_curve Rops normalize false true dim p U P u = tangent_curve Rops normalize false false dim p U P u.
Proof. unfold tangent_curve. rewrite Curve_derivatives_alg2_eq. reflexivity. Qed.
End Curve.

(* ---- the statement kept as a Definition in Props/C17.v (closed domain U_p <= u <= U_n, Forall-style net hypothesis),
        instantiated with the models of CurveEvaluator.derivatives and CurveEvaluator2.derivatives ---- *)
Lemma Forall_wf_net (P : list (list R)) dim : Forall (fun q => length q = dim) P -> wf_net P dim.
Proof. intros H i Hi. rewrite Forall_forall in H. apply H. apply nth_In. exact Hi. Qed.

Theorem curve_evaluator_variants_agree_full :
  forall dim p U P u order, sortedR U -> (p < length P)%nat -> length U = (length P + p + 1)%nat ->
    Forall (fun q => length q = dim) P -> knR U p <= u <= knR U (length P) ->
    curve_derivs Rops dim p U P u order = curve_derivs2 Rops dim p U P u order.
Proof.
  intros dim p U P u order Hs Hp HL HF _. symmetry.
  apply curve_derivs2_eq_curve_derivs; try assumption. apply Forall_wf_net. exact HF.
Qed.

Check curve_derivs2_eq_curve_derivs.
Check curve_derivs2_is_dN_sum_general.
Check Curve_derivatives_alg2_eq.
Print Assumptions curve_derivs2_eq_curve_derivs.
Print Assumptions curve_derivs2_is_dN_sum_general.
Check curve_evaluator_variants_agree_full.
Check tangent_curve_alg2_eq.
Print Assumptions curve_evaluator_variants_agree_full.
Check curve_deriv_cpts_is_PK.
Check bfall_get_piece.
Check bfall_get_is_N.
