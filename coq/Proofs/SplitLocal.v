(* Spec-level facts about the Cox-de Boor functions N (Proofs/Boehm.v) used for splitting:
   - locality at a knot of full multiplicity p: left of the knot the functions only see the knots up to the run,
     right of it only the knots from the run on (N_locality_full_multiplicity);
   - index shift and increasing affine change of the knot sequence;
   - the corresponding statements for the Cox-de Boor sums  sum_i N_{i,p}(u) P_i. *)
From Coq Require Import Reals Lra Lia Arith Bool.
From NV Require Import Proofs.Boehm.
Open Scope R_scope.

(* ---------------------------------------------------------------- sums *)
Lemma sumf_all_zero f n : (forall i, (i < n)%nat -> f i = 0) -> sumf f n = 0.
Proof. induction n as [|n IH]; intros H; cbn [sumf]; [reflexivity|]. rewrite IH, H by (intros; auto; lia). ring. Qed.

Lemma sumf_app f a n : sumf f (a + n) = sumf f a + sumf (fun j => f (a + j)%nat) n.
Proof.
  induction n as [|n IH]; cbn [sumf].
  - rewrite Nat.add_0_r. ring.
  - replace (a + S n)%nat with (S (a + n)) by lia. cbn [sumf]. rewrite IH. ring.
Qed.

(* ---------------------------------------------------------------- extensionality, shift, affine change *)
Lemma N_ext_fun (U V : nat -> R) : (forall i, U i = V i) -> forall p i u, N U p i u = N V p i u.
Proof.
  intros H p; induction p as [|q IH]; intros i u; cbn [N].
  - rewrite !H. reflexivity.
  - rewrite !IH, !H. reflexivity.
Qed.

Lemma N_shift_idx (U : nat -> R) (d : nat) : forall q i u, N (fun j => U (j + d)%nat) q i u = N U q (i + d) u.
Proof.
  induction q as [|q IH]; intros i u; cbn [N].
  - reflexivity.
  - rewrite !IH.
    replace (i + S q + d)%nat with (i + d + S q)%nat by lia.
    replace (i + S q + 1 + d)%nat with (i + d + S q + 1)%nat by lia.
    reflexivity.
Qed.

Lemma aff_le a b x y : 0 < a -> (a * x + b <= a * y + b <-> x <= y).
Proof.
  intros Ha. split; intros H.
  - apply (Rmult_le_reg_l a); [exact Ha|lra].
  - assert (a * x <= a * y) by (apply Rmult_le_compat_l; lra). lra.
Qed.
Lemma aff_lt a b x y : 0 < a -> (a * x + b < a * y + b <-> x < y).
Proof.
  intros Ha. split; intros H.
  - apply (Rmult_lt_reg_l a); [exact Ha|lra].
  - assert (a * x < a * y) by (apply Rmult_lt_compat_l; lra). lra.
Qed.

Lemma div_aff a b w x y z : a <> 0 -> (a * w + b - (a * x + b)) / (a * y + b - (a * z + b)) = (w - x) / (y - z).
Proof.
  intros Ha. replace (a * w + b - (a * x + b)) with (a * (w - x)) by ring.
  replace (a * y + b - (a * z + b)) with (a * (y - z)) by ring.
  destruct (Req_dec (y - z) 0) as [E|E].
  - rewrite E, Rmult_0_r. unfold Rdiv. rewrite Rinv_0. ring.
  - field. split; assumption.
Qed.

Lemma ind_aff a b x y u : 0 < a -> ind (a * x + b) (a * y + b) (a * u + b) = ind x y u.
Proof.
  intros Ha. unfold ind.
  destruct (Rle_dec (a * x + b) (a * u + b)) as [H1|H1]; destruct (Rle_dec x u) as [H2|H2];
    try (rewrite aff_le in H1 by exact Ha; contradiction).
  - destruct (Rlt_dec (a * u + b) (a * y + b)) as [H3|H3]; destruct (Rlt_dec u y) as [H4|H4];
      try (rewrite aff_lt in H3 by exact Ha; contradiction); reflexivity.
  - reflexivity.
Qed.

(* an increasing affine change of all knots and of the parameter leaves every basis function unchanged *)
Lemma N_affine (U : nat -> R) a b : 0 < a -> forall q i u, N (fun j => a * U j + b) q i (a * u + b) = N U q i u.
Proof.
  intros Ha. induction q as [|q IH]; intros i u; cbn [N].
  - apply ind_aff. exact Ha.
  - rewrite !IH. rewrite !div_aff by lra. reflexivity.
Qed.

(* ---------------------------------------------------------------- locality at a knot of full multiplicity *)
Section Local.
Variables U V : nat -> R.
Hypothesis Usorted : forall i, U i <= U (S i).
Hypothesis Vsorted : forall i, V i <= V (S i).
Variables (m p : nat) (t : R).

(* left of t: the two sequences agree up to index m+p and are >= t after index m *)
Section Left.
Hypothesis Hagree : forall j, (j <= m + p)%nat -> U j = V j.
Hypothesis HU : forall j, (m < j)%nat -> t <= U j.
Hypothesis HV : forall j, (m < j)%nat -> t <= V j.

Lemma N_zero_beyond_U q i u : u < t -> (m < i)%nat -> N U q i u = 0.
Proof. intros Hu Hi. apply N_support; [exact Usorted|]. left. specialize (HU i Hi). lra. Qed.
Lemma N_zero_beyond_V q i u : u < t -> (m < i)%nat -> N V q i u = 0.
Proof. intros Hu Hi. apply N_support; [exact Vsorted|]. left. specialize (HV i Hi). lra. Qed.

Lemma N_local_left u : u < t -> forall q, (q <= p)%nat -> forall i, N U q i u = N V q i u.
Proof.
  intros Hu. induction q as [|q IH]; intros Hq i.
  - cbn [N]. destruct (le_lt_dec (S i) (m + p)) as [H|H].
    + rewrite !Hagree by lia. reflexivity.
    + assert (HUs : t <= U (S i)) by (apply HU; lia). assert (HVs : t <= V (S i)) by (apply HV; lia).
      unfold ind. destruct (le_lt_dec i (m + p)) as [H2|H2].
      * rewrite (Hagree i) by lia. destruct (Rle_dec (V i) u); [|reflexivity].
        destruct (Rlt_dec u (U (S i))); destruct (Rlt_dec u (V (S i))); try reflexivity; exfalso; lra.
      * assert (t <= U i) by (apply HU; lia). assert (t <= V i) by (apply HV; lia).
        destruct (Rle_dec (U i) u); destruct (Rle_dec (V i) u); try reflexivity; exfalso; lra.
  - cbn [N]. specialize (IH ltac:(lia)).
    destruct (le_lt_dec (i + S q + 1) (m + p)) as [H|H].
    + rewrite !IH. rewrite (Hagree i), (Hagree (i + S q)%nat), (Hagree (i + S q + 1)%nat), (Hagree (S i)) by lia. reflexivity.
    + rewrite (N_zero_beyond_U q (S i) u Hu), (N_zero_beyond_V q (S i) u Hu) by lia.
      destruct (le_lt_dec (i + S q) (m + p)) as [H2|H2].
      * rewrite IH, (Hagree i), (Hagree (i + S q)%nat) by lia. ring.
      * rewrite (N_zero_beyond_U q i u Hu), (N_zero_beyond_V q i u Hu) by lia. ring.
Qed.
End Left.

(* right of t: the two sequences agree after index m and are <= t up to index m+p *)
Section Right.
Hypothesis Hagree : forall j, (m < j)%nat -> U j = V j.
Hypothesis HU : forall j, (j <= m + p)%nat -> U j <= t.
Hypothesis HV : forall j, (j <= m + p)%nat -> V j <= t.

Lemma N_zero_before_U q i u : t <= u -> (i + q + 1 <= m + p)%nat -> N U q i u = 0.
Proof. intros Hu Hi. apply N_support; [exact Usorted|]. right. specialize (HU _ Hi). lra. Qed.
Lemma N_zero_before_V q i u : t <= u -> (i + q + 1 <= m + p)%nat -> N V q i u = 0.
Proof. intros Hu Hi. apply N_support; [exact Vsorted|]. right. specialize (HV _ Hi). lra. Qed.

Lemma N_local_right u : t <= u -> forall q, (q <= p)%nat -> forall i, (m <= i)%nat -> N U q i u = N V q i u.
Proof.
  intros Hu. induction q as [|q IH]; intros Hq i Hi.
  - cbn [N]. rewrite (Hagree (S i)) by lia.
    destruct (Nat.eq_dec i m) as [E|E].
    + subst i. unfold ind. pose proof (HU m ltac:(lia)). pose proof (HV m ltac:(lia)).
      destruct (Rle_dec (U m) u); destruct (Rle_dec (V m) u); try reflexivity; exfalso; lra.
    + rewrite (Hagree i) by lia. reflexivity.
  - cbn [N]. specialize (IH ltac:(lia)).
    destruct (Nat.eq_dec i m) as [E|E].
    + subst i. rewrite (N_zero_before_U q m u Hu), (N_zero_before_V q m u Hu) by lia.
      rewrite (IH (S m)) by lia. rewrite (Hagree (m + S q + 1)%nat), (Hagree (S m)) by lia. ring.
    + rewrite (IH i), (IH (S i)) by lia.
      rewrite (Hagree i), (Hagree (i + S q)%nat), (Hagree (i + S q + 1)%nat), (Hagree (S i)) by lia. reflexivity.
Qed.
End Right.
End Local.

(* [G] N_locality_full_multiplicity.  U is a sorted knot sequence in which the value t occupies the p positions
   m+1..m+p (U_m <= t; after the run the knots are >= t by sortedness).
   (a) for u < t: N_{i,p}(u) = 0 for i > m, and for every i the value N_{i,p}(u) is the same for EVERY sorted sequence V
       that agrees with U up to index m+p and stays >= t afterwards (e.g. U_0..U_{m+p}, t, t, ...): the functions only
       depend on the knots U_0..U_{m+p};
   (b) for u >= t: N_{i,p}(u) = 0 for i < m, and for i >= m the value is the same for every sorted sequence W that agrees
       with U after index m and is <= t up to index m+p (e.g. ..., t, U_{m+1}, U_{m+2}, ...). *)
Theorem N_locality_full_multiplicity (U : nat -> R) (m p : nat) (t : R) :
  (forall i, U i <= U (S i)) -> (forall j, (m < j <= m + p)%nat -> U j = t) -> U m <= t -> t <= U (m + p + 1)%nat ->
  (forall u, u < t ->
     (forall i, (m < i)%nat -> N U p i u = 0) /\
     (forall V : nat -> R, (forall i, V i <= V (S i)) -> (forall j, (j <= m + p)%nat -> V j = U j) -> (forall j, (m + p < j)%nat -> t <= V j) ->
        forall i, N U p i u = N V p i u)) /\
  (forall u, t <= u ->
     (forall i, (i < m)%nat -> N U p i u = 0) /\
     (forall W : nat -> R, (forall i, W i <= W (S i)) -> (forall j, (m < j)%nat -> W j = U j) -> (forall j, (j <= m)%nat -> W j <= t) ->
        forall i, (m <= i)%nat -> N U p i u = N W p i u)).
Proof.
  intros Us Hrun Hm Hnext.
  assert (Hge : forall j, (m < j)%nat -> t <= U j).
  { intros j Hj. destruct (le_lt_dec j (m + p)) as [H|H]; [rewrite Hrun by lia; lra|].
    assert (U (m + p + 1)%nat <= U j) by (apply (U_mono U Us); lia). lra. }
  assert (Hle : forall j, (j <= m + p)%nat -> U j <= t).
  { intros j Hj. destruct (le_lt_dec j m) as [H|H]; [|rewrite Hrun by lia; lra].
    assert (U j <= U m) by (apply (U_mono U Us); lia). lra. }
  split; intros u Hu; split.
  - intros i Hi. apply N_support; [exact Us|]. left. specialize (Hge i Hi). lra.
  - intros V Vs HV1 HV2 i.
    apply (N_local_left U V Us Vs m p t); auto.
    + intros j Hj. symmetry. apply HV1. exact Hj.
    + intros j Hj. destruct (le_lt_dec j (m + p)) as [H|H]; [rewrite HV1 by lia; apply Hge; exact Hj|apply HV2; exact H].
  - intros i Hi. apply N_support; [exact Us|]. right. specialize (Hle (i + p + 1)%nat ltac:(lia)). lra.
  - intros W Ws HW1 HW2 i Hi.
    apply (N_local_right U W Us Ws m p t); auto.
    + intros j Hj. symmetry. apply HW1. exact Hj.
    + intros j Hj. destruct (le_lt_dec j m) as [H|H]; [apply HW2; exact H|rewrite HW1 by lia; apply Hle; exact Hj].
Qed.

(* ---------------------------------------------------------------- the Cox-de Boor sums of the two pieces *)
Section Pieces.
Variables U V : nat -> R.
Hypothesis Usorted : forall i, U i <= U (S i).
Hypothesis Vsorted : forall i, V i <= V (S i).
Variables (m p n : nat) (t : R) (P : nat -> R).

(* left piece: the first m+1 control values with the knots of V *)
Lemma curve_left_piece u :
  (forall j, (j <= m + p)%nat -> U j = V j) -> (forall j, (m < j)%nat -> t <= U j) -> (forall j, (m < j)%nat -> t <= V j) ->
  (m + 1 <= n)%nat -> u < t ->
  sumf (fun i => N U p i u * P i) n = sumf (fun i => N V p i u * P i) (m + 1).
Proof.
  intros H1 H2 H3 Hn Hu. replace n with (m + 1 + (n - (m + 1)))%nat by lia. rewrite sumf_app.
  rewrite (sumf_all_zero (fun j => N U p (m + 1 + j) u * P (m + 1 + j)%nat)).
  2:{ intros j _. rewrite (N_zero_beyond_U U Usorted m t H2) by (assumption || lia). ring. }
  rewrite Rplus_0_r. apply sumf_ext. intros i _.
  rewrite (N_local_left U V Usorted Vsorted m p t H1 H2 H3 u Hu p (le_n p) i). reflexivity.
Qed.

(* right piece: the control values from m on with the knots of V (same indexing as U) *)
Lemma curve_right_piece u :
  (forall j, (m < j)%nat -> U j = V j) -> (forall j, (j <= m + p)%nat -> U j <= t) -> (forall j, (j <= m + p)%nat -> V j <= t) ->
  (m <= n)%nat -> t <= u ->
  sumf (fun i => N U p i u * P i) n = sumf (fun j => N V p (m + j) u * P (m + j)%nat) (n - m).
Proof.
  intros H1 H2 H3 Hn Hu. replace n with (m + (n - m))%nat at 1 by lia. rewrite sumf_app.
  rewrite (sumf_all_zero (fun i => N U p i u * P i) m).
  2:{ intros i Hi. rewrite (N_zero_before_U U Usorted m p t H2) by (assumption || lia). ring. }
  rewrite Rplus_0_l. apply sumf_ext. intros j _.
  rewrite (N_local_right U V Usorted Vsorted m p t H1 H2 H3 u Hu p (le_n p) (m + j)%nat) by lia. reflexivity.
Qed.
End Pieces.

Print Assumptions N_locality_full_multiplicity.
