(* C01: the model's point evaluation equals the B-spline definition (sum over ALL control points of
   Cox-de Boor basis functions times control points). *)
From Coq Require Import List Reals Lra Lia Arith Bool.
From NV Require Import Scalar.Ops Model.Common Model.Basis Model.Knots Model.Eval Proofs.Boehm Proofs.BfN Proofs.BasisR.
Import ListNotations.
Open Scope R_scope.

(* coordinate d of control point i *)
Definition coord (P : list (list R)) (i d : nat) : R := nth d (nth i P []) 0.

(* ---------- finite sums ---------- *)
Lemma sumf_zero f n : (forall i, (i < n)%nat -> f i = 0) -> sumf f n = 0.
Proof. induction n; intros H; cbn; [reflexivity|]. rewrite IHn, H by (intros; auto; lia). lra. Qed.

Lemma sumf_split f a n : sumf f (a + n) = sumf f a + sumf (fun j => f (a + j)%nat) n.
Proof.
  induction n; cbn.
  - rewrite Nat.add_0_r. lra.
  - replace (a + S n)%nat with (S (a + n)) by lia. cbn. rewrite IHn. lra.
Qed.

(* a sum whose terms vanish outside the window [a, a+len) *)
Lemma sumf_window f a len n : (a + len <= n)%nat ->
  (forall i, (i < a)%nat -> f i = 0) -> (forall i, (a + len <= i < n)%nat -> f i = 0) ->
  sumf f n = sumf (fun j => f (a + j)%nat) len.
Proof.
  intros Hn Hlo Hhi.
  replace n with (a + len + (n - a - len))%nat by lia.
  rewrite sumf_split, sumf_split.
  rewrite (sumf_zero f a) by exact Hlo.
  rewrite (sumf_zero (fun j => f (a + len + j)%nat)) by (intros; apply Hhi; lia).
  lra.
Qed.

Lemma sumf_scale c f n : sumf (fun i => c * f i) n = c * sumf f n.
Proof. induction n; cbn; [lra|]. rewrite IHn. lra. Qed.

(* ---------- axpy / folds, coordinate-wise ---------- *)
Lemma fold_left_ext_in {A B} (f g : A -> B -> A) (l : list B) : forall a,
  (forall acc x, In x l -> f acc x = g acc x) -> fold_left f l a = fold_left g l a.
Proof.
  induction l as [|x l IH]; intros a H; cbn; [reflexivity|].
  rewrite H by (left; reflexivity). apply IH. intros acc y Hy. apply H. right. exact Hy.
Qed.
Lemma axpy_length c pt acc : length pt = length acc -> length (axpy Rops c pt acc) = length acc.
Proof. intros H. unfold axpy. rewrite map_length, combine_length. lia. Qed.

Lemma axpy_nth c pt acc d : length pt = length acc -> (d < length acc)%nat ->
  nth d (axpy Rops c pt acc) 0 = nth d acc 0 + c * nth d pt 0.
Proof.
  intros HL Hd. unfold axpy.
  match goal with |- context [map ?g _] => set (f := g) end.
  rewrite (nth_indep _ 0 (f (0, 0))) by (rewrite map_length, combine_length; lia).
  rewrite map_nth, combine_nth by lia. subst f. rsimp. cbn [fst snd]. reflexivity.
Qed.

Lemma vzero_length d : length (vzero Rops d) = d.
Proof. apply repeat_length. Qed.
Lemma vzero_nth dim d : nth d (vzero Rops dim) 0 = 0.
Proof. unfold vzero. rsimp. destruct (lt_dec d dim); [apply nth_repeat|apply nth_overflow; rewrite repeat_length; lia]. Qed.

Section Fold.
Variables (c : nat -> R) (pt : nat -> list R) (dim : nat).
Hypothesis Hpt : forall i, length (pt i) = dim.

Lemma fold_axpy_gen m : forall z, length z = dim ->
  let r := fold_left (fun acc i => axpy Rops (c i) (pt i) acc) (seq 0 m) z in
  length r = dim /\ forall d, (d < dim)%nat -> nth d r 0 = nth d z 0 + sumf (fun i => c i * nth d (pt i) 0) m.
Proof.
  induction m; intros z Hz; cbn zeta.
  - cbn. split; [exact Hz|intros; lra].
  - rewrite seq_S, fold_left_app. cbn [fold_left plus].
    destruct (IHm z Hz) as [HL Hn]. cbn zeta in HL, Hn.
    split.
    + rewrite axpy_length; [exact HL|]. rewrite Hpt, HL. reflexivity.
    + intros d Hd. rewrite axpy_nth; [|rewrite Hpt, HL; reflexivity|rewrite HL; exact Hd].
      rewrite Hn by exact Hd. cbn [sumf]. lra.
Qed.

Lemma fold_axpy m :
  let r := fold_left (fun acc i => axpy Rops (c i) (pt i) acc) (seq 0 m) (vzero Rops dim) in
  length r = dim /\ forall d, (d < dim)%nat -> nth d r 0 = sumf (fun i => c i * nth d (pt i) 0) m.
Proof.
  destruct (fold_axpy_gen m (vzero Rops dim) (vzero_length dim)) as [HL Hn]. cbn zeta in *.
  split; [exact HL|]. intros d Hd. rewrite Hn by exact Hd. rewrite vzero_nth. lra.
Qed.
End Fold.

(* ---------- curves ---------- *)
Definition wf_net (P : list (list R)) (dim : nat) : Prop := forall i, (i < length P)%nat -> length (nth i P []) = dim.

(* the definition: sum over ALL control points *)
Definition curve_def (U : list R) (p : nat) (P : list (list R)) (d : nat) (u : R) : R :=
  sumf (fun i => N (Ufun U) p i u * coord P i d) (length P).

Lemma curve_point_at_sum dim p P span Ns : wf_net P dim -> (p <= span)%nat -> (span < length P)%nat ->
  let r := curve_point_at Rops dim p P span Ns in
  length r = dim /\ forall d, (d < dim)%nat -> nth d r 0 = sumf (fun i => nth i Ns 0 * coord P (span - p + i) d) (S p).
Proof.
  intros Hwf Hp Hs. unfold curve_point_at, pt_at.
  (* points outside the net never occur because span < length P; make the point function total with length dim *)
  set (ptf := fun i => if lt_dec (span - p + i) (length P) then nth (span - p + i) P [] else vzero Rops dim).
  assert (Hptf : forall i, length (ptf i) = dim).
  { intros i. unfold ptf. destruct (lt_dec _ _); [apply Hwf; assumption|apply vzero_length]. }
  assert (Heq : fold_left (fun acc i => axpy Rops (nth i Ns (o0 Rops)) (nth (span - p + i) P []) acc) (seq 0 (S p)) (vzero Rops dim)
              = fold_left (fun acc i => axpy Rops (nth i Ns 0) (ptf i) acc) (seq 0 (S p)) (vzero Rops dim)).
  { apply fold_left_ext_in. intros acc i Hi. apply in_seq in Hi. unfold ptf.
    destruct (lt_dec _ _); [reflexivity|lia]. }
  cbn zeta. rewrite Heq.
  destruct (fold_axpy (fun i => nth i Ns 0) ptf dim Hptf (S p)) as [HL Hn]. cbn zeta in *.
  split; [exact HL|]. intros d Hd. rewrite Hn by exact Hd.
  apply sumf_ext. intros i Hi. unfold ptf, coord. destruct (lt_dec _ _); [reflexivity|lia].
Qed.

Lemma Ufun_mono U : sortedR U -> forall i j, (i <= j)%nat -> Ufun U i <= Ufun U j.
Proof. intros Hs. apply U_mono. apply Ufun_sorted. exact Hs. Qed.

(* [G] curve point = definition, for every parameter of the half-open domain [U_p, U_n) *)
Theorem curve_point_is_definition (U : list R) (P : list (list R)) (p dim : nat) (u : R) :
  sortedR U -> wf_net P dim -> (p < length P)%nat -> length U = (length P + p + 1)%nat ->
  knR U p <= u < knR U (length P) ->
  let r := curve_point Rops dim p U P u in
  length r = dim /\ forall d, (d < dim)%nat -> nth d r 0 = curve_def U p P d u.
Proof.
  intros Hs Hwf Hp HL [Hlo Hhi]. set (n := length P) in *.
  unfold curve_point. fold n.
  pose proof (find_span_linear_spec U u p n Hp ltac:(lia) Hlo) as Hk. cbn zeta in Hk.
  set (k := find_span_linear Rops p U n u) in *.
  destruct Hk as [[Hk1 Hk2] [Hk3 Hk4]].
  assert (Hk5 : u < knR U (k + 1)).
  { destruct Hk4 as [H|[_ H]]; [replace (k+1)%nat with (S k) by lia; exact H|lra]. }
  destruct (curve_point_at_sum dim p P k (basis_function Rops p U k u) Hwf Hk1 Hk2) as [HLr Hn]. cbn zeta in *.
  split; [exact HLr|]. intros d Hd. rewrite Hn by exact Hd.
  unfold curve_def. fold n.
  rewrite (sumf_window _ (k - p) (S p) n); try lia.
  - apply sumf_ext. intros j Hj. f_equal.
    rewrite (bf_is_cox_de_boor_list U u k Hs (conj Hk3 Hk5) p) by lia. reflexivity.
  - intros i Hi. rewrite (N_support (Ufun U) (Ufun_sorted U Hs) p i u); [lra|]. right.
    assert (Ufun U (i + p + 1) <= Ufun U k) by (apply Ufun_mono; [exact Hs|lia]).
    rewrite (Ufun_in U k) in H by lia. lra.
  - intros i Hi. rewrite (N_support (Ufun U) (Ufun_sorted U Hs) p i u); [lra|]. left.
    assert (Ufun U (k + 1) <= Ufun U i) by (apply Ufun_mono; [exact Hs|lia]).
    rewrite (Ufun_in U (k+1)) in H by lia. lra.
Qed.

(* ---------- rational curves: quotient with positive denominator ---------- *)
Lemma removelast_nth {A} (l : list A) d x : (d < length l - 1)%nat -> nth d (removelast l) x = nth d l x.
Proof.
  revert d. induction l as [|a l IH]; intros d Hd; [cbn in Hd; lia|].
  destruct l as [|b l']; [cbn in Hd; lia|].
  change (removelast (a :: b :: l')) with (a :: removelast (b :: l')).
  destruct d; [reflexivity|]. cbn [nth]. apply IH. cbn [length] in *. lia.
Qed.
Lemma removelast_length {A} (l : list A) : length (removelast l) = (length l - 1)%nat.
Proof.
  induction l as [|a l IH]; [reflexivity|]. destruct l as [|b l']; [reflexivity|].
  change (removelast (a :: b :: l')) with (a :: removelast (b :: l')). cbn [length] in *. lia.
Qed.

Lemma project_nth (ptw : list R) d : (d < length ptw - 1)%nat ->
  nth d (project Rops ptw) 0 = nth d ptw 0 / nth (length ptw - 1) ptw 0.
Proof.
  intros Hd. unfold project.
  match goal with |- context [map ?g _] => set (f := g) end.
  rewrite (nth_indep _ 0 (f 0)) by (rewrite map_length, removelast_length; exact Hd).
  rewrite map_nth. subst f. cbn beta. rsimp. rewrite removelast_nth by exact Hd.
  f_equal. destruct ptw as [|a l]; [cbn in Hd; lia|]. rewrite (last_nth (a :: l) 0) by congruence. reflexivity.
Qed.

(* rational definition: homogeneous net Pw (last coordinate = weight); point = A(u) / w(u) *)
Theorem rational_curve_point_is_quotient (U : list R) (Pw : list (list R)) (p dim : nat) (u : R) :
  sortedR U -> wf_net Pw (S dim) -> (p < length Pw)%nat -> length U = (length Pw + p + 1)%nat ->
  knR U p <= u < knR U (length Pw) ->
  forall d, (d < dim)%nat ->
  nth d (obj_curve_point Rops true dim p U Pw u) 0 = curve_def U p Pw d u / curve_def U p Pw dim u.
Proof.
  intros Hs Hwf Hp HL Hu d Hd. unfold obj_curve_point.
  destruct (curve_point_is_definition U Pw p (S dim) u Hs Hwf Hp HL Hu) as [HLr Hn]. cbn zeta in *.
  rewrite project_nth by (rewrite HLr; lia).
  rewrite HLr. replace (S dim - 1)%nat with dim by lia.
  rewrite !Hn by lia. reflexivity.
Qed.

(* the weight function is strictly positive for positive weights: a convex combination of positive numbers *)
Lemma sumf_nonneg (f : nat -> R) n : (forall i, (i < n)%nat -> 0 <= f i) -> 0 <= sumf f n.
Proof.
  induction n; intros H; cbn; [lra|].
  assert (0 <= f n) by (apply H; lia). assert (0 <= sumf f n) by (apply IHn; intros; apply H; lia). lra.
Qed.

Lemma sumf_pos_comb (c w : nat -> R) n : (forall i, (i < n)%nat -> 0 <= c i) -> (forall i, (i < n)%nat -> 0 < w i) ->
  0 < sumf c n -> 0 < sumf (fun i => c i * w i) n.
Proof.
  induction n; intros Hc Hw Hs; cbn in *; [lra|].
  assert (0 <= c n) by (apply Hc; lia). assert (0 < w n) by (apply Hw; lia).
  assert (0 <= sumf c n) by (apply sumf_nonneg; intros; apply Hc; lia).
  assert (0 <= sumf (fun i => c i * w i) n).
  { apply sumf_nonneg. intros i Hi. assert (0 <= c i) by (apply Hc; lia). assert (0 < w i) by (apply Hw; lia). nra. }
  destruct (Rle_lt_dec (sumf c n) 0) as [Hz|Hp].
  - nra.
  - assert (0 < sumf (fun i => c i * w i) n) by (apply IHn; [intros; apply Hc; lia|intros; apply Hw; lia|exact Hp]). nra.
Qed.

Lemma sumT_sumf (l : list R) : sumT Rops l = sumf (fun i => nth i l 0) (length l).
Proof.
  induction l as [|a l IH] using rev_ind; [reflexivity|].
  rewrite app_length. cbn [length]. replace (length l + 1)%nat with (S (length l)) by lia. cbn [sumf].
  rewrite app_nth2, Nat.sub_diag by lia. cbn [nth].
  rewrite (sumf_ext _ (fun i => nth i l 0)) by (intros; rewrite app_nth1 by lia; reflexivity).
  rewrite <- IH. clear. induction l; cbn [app sumT]; rsimp; [lra|]. rewrite IHl. lra.
Qed.

Theorem rational_weight_function_positive (U : list R) (Pw : list (list R)) (p dim : nat) (u : R) :
  sortedR U -> (p < length Pw)%nat -> length U = (length Pw + p + 1)%nat ->
  knR U p <= u < knR U (length Pw) ->
  (forall i, (i < length Pw)%nat -> 0 < coord Pw i dim) ->
  0 < curve_def U p Pw dim u.
Proof.
  intros Hs Hp HL [Hlo Hhi] Hw. set (n := length Pw) in *.
  pose proof (find_span_linear_spec U u p n Hp ltac:(lia) Hlo) as Hk. cbn zeta in Hk.
  set (k := find_span_linear Rops p U n u) in *.
  destruct Hk as [[Hk1 Hk2] [Hk3 Hk4]].
  assert (Hk5 : u < knR U (k + 1)).
  { destruct Hk4 as [H|[_ H]]; [replace (k+1)%nat with (S k) by lia; exact H|lra]. }
  unfold curve_def. fold n.
  rewrite (sumf_window _ (k - p) (S p) n); try lia.
  - apply sumf_pos_comb.
    + intros j Hj. rewrite <- (bf_is_cox_de_boor_list U u k Hs (conj Hk3 Hk5) p) by lia.
      pose proof (bf_nonneg U u k Hs (conj Hk3 Hk5) p ltac:(lia) ltac:(lia)) as Hnn.
      rewrite Forall_forall in Hnn. apply Hnn. apply nth_In. rewrite bf_length. lia.
    + intros j Hj. apply Hw. lia.
    + rewrite (sumf_ext _ (fun j => nth j (basis_function Rops p U k u) 0)).
      * replace (S p) with (length (basis_function Rops p U k u)) by apply bf_length.
        rewrite <- sumT_sumf. rewrite (bf_partition_unity U u k Hs (conj Hk3 Hk5) p) by lia. lra.
      * intros j Hj. rewrite (bf_is_cox_de_boor_list U u k Hs (conj Hk3 Hk5) p) by lia. reflexivity.
  - intros i Hi. rewrite (N_support (Ufun U) (Ufun_sorted U Hs) p i u); [lra|]. right.
    assert (Ufun U (i + p + 1) <= Ufun U k) by (apply Ufun_mono; [exact Hs|lia]).
    rewrite (Ufun_in U k) in H by lia. lra.
  - intros i Hi. rewrite (N_support (Ufun U) (Ufun_sorted U Hs) p i u); [lra|]. left.
    assert (Ufun U (k + 1) <= Ufun U i) by (apply Ufun_mono; [exact Hs|lia]).
    rewrite (Ufun_in U (k+1)) in H by lia. lra.
Qed.

(* fold of axpy with a length hypothesis only on the indices actually visited *)
Lemma fold_axpy_lt (c : nat -> R) (pt : nat -> list R) (dim m : nat) :
  (forall i, (i < m)%nat -> length (pt i) = dim) ->
  let r := fold_left (fun acc i => axpy Rops (c i) (pt i) acc) (seq 0 m) (vzero Rops dim) in
  length r = dim /\ forall d, (d < dim)%nat -> nth d r 0 = sumf (fun i => c i * nth d (pt i) 0) m.
Proof.
  intros Hpt.
  set (ptf := fun i => if lt_dec i m then pt i else vzero Rops dim).
  assert (Hptf : forall i, length (ptf i) = dim).
  { intros i. unfold ptf. destruct (lt_dec i m); [apply Hpt; assumption|apply vzero_length]. }
  assert (Heq : fold_left (fun acc i => axpy Rops (c i) (pt i) acc) (seq 0 m) (vzero Rops dim)
              = fold_left (fun acc i => axpy Rops (c i) (ptf i) acc) (seq 0 m) (vzero Rops dim)).
  { apply fold_left_ext_in. intros acc i Hi. apply in_seq in Hi. unfold ptf. destruct (lt_dec i m); [reflexivity|lia]. }
  cbn zeta. rewrite Heq.
  destruct (fold_axpy c ptf dim Hptf m) as [HL Hn]. cbn zeta in *.
  split; [exact HL|]. intros d Hd. rewrite Hn by exact Hd.
  apply sumf_ext. intros i Hi. unfold ptf. destruct (lt_dec i m); [reflexivity|lia].
Qed.

(* ---------- surfaces ---------- *)
Definition surface_def (Uu Uv : list R) (pu pv su sv : nat) (P : list (list R)) (d : nat) (u v : R) : R :=
  sumf (fun i => sumf (fun j => N (Ufun Uu) pu i u * N (Ufun Uv) pv j v * coord P (j + sv * i) d) sv) su.

Lemma surface_point_at_sum dim pu pv sv P ku kv Nu Nv su :
  wf_net P dim -> length P = (su * sv)%nat -> (pu <= ku < su)%nat -> (pv <= kv < sv)%nat ->
  let r := surface_point_at Rops dim pu pv sv P ku kv Nu Nv in
  length r = dim /\ forall d, (d < dim)%nat ->
    nth d r 0 = sumf (fun k => nth k Nu 0 * sumf (fun l => nth l Nv 0 * coord P (kv - pv + l + sv * (ku - pu + k)) d) (S pv)) (S pu).
Proof.
  intros Hwf HLP Hku Hkv. unfold surface_point_at, pt_at. cbn zeta.
  set (tempf := fun k => fold_left (fun tmp l => axpy Rops (nth l Nv 0) (nth (kv - pv + l + sv * (ku - pu + k)) P []) tmp) (seq 0 (S pv)) (vzero Rops dim)).
  assert (Htemp : forall k, (k < S pu)%nat -> length (tempf k) = dim /\
            forall d, (d < dim)%nat -> nth d (tempf k) 0 = sumf (fun l => nth l Nv 0 * coord P (kv - pv + l + sv * (ku - pu + k)) d) (S pv)).
  { intros k Hk. unfold tempf.
    apply (fold_axpy_lt (fun l => nth l Nv 0) (fun l => nth (kv - pv + l + sv * (ku - pu + k)) P []) dim (S pv)).
    intros l Hl. apply Hwf. rewrite HLP. nia. }
  destruct (fold_axpy_lt (fun k => nth k Nu 0) tempf dim (S pu) (fun k Hk => proj1 (Htemp k Hk))) as [HL Hn]. cbn zeta in *.
  split; [exact HL|]. intros d Hd. rewrite Hn by exact Hd.
  apply sumf_ext. intros k Hk. f_equal. apply (proj2 (Htemp k Hk)). exact Hd.
Qed.

Lemma N_outside U p i u k : sortedR U -> (k + 1 < length U)%nat -> knR U k <= u < knR U (k + 1) ->
  (i + p + 1 <= k \/ k < i)%nat -> N (Ufun U) p i u = 0.
Proof.
  intros Hs HL [H1 H2] [Hi|Hi]; apply (N_support (Ufun U) (Ufun_sorted U Hs) p i u).
  - right. assert (Ufun U (i + p + 1) <= Ufun U k) by (apply Ufun_mono; [exact Hs|lia]).
    rewrite (Ufun_in U k) in H by lia. lra.
  - left. assert (Ufun U (k + 1) <= Ufun U i) by (apply Ufun_mono; [exact Hs|lia]).
    rewrite (Ufun_in U (k+1)) in H by lia. lra.
Qed.

Lemma span_facts U u p n : (p < n)%nat -> (n < length U)%nat -> knR U p <= u < knR U n ->
  let k := find_span_linear Rops p U n u in (p <= k < n)%nat /\ knR U k <= u < knR U (k + 1).
Proof.
  intros Hp HL [Hlo Hhi]. pose proof (find_span_linear_spec U u p n Hp HL Hlo) as Hk. cbn zeta in *.
  destruct Hk as [Hk1 [Hk3 Hk4]]. split; [exact Hk1|]. split; [exact Hk3|].
  destruct Hk4 as [H|[_ H]]; [replace (find_span_linear Rops p U n u + 1)%nat with (S (find_span_linear Rops p U n u)) by lia; exact H|lra].
Qed.

(* [G] surface point = tensor-product definition over the whole net (flat index v + sv*u) *)
Theorem surface_point_is_definition (Uu Uv : list R) (P : list (list R)) (pu pv su sv dim : nat) (u v : R) :
  sortedR Uu -> sortedR Uv -> wf_net P dim -> length P = (su * sv)%nat ->
  (pu < su)%nat -> (pv < sv)%nat -> length Uu = (su + pu + 1)%nat -> length Uv = (sv + pv + 1)%nat ->
  knR Uu pu <= u < knR Uu su -> knR Uv pv <= v < knR Uv sv ->
  let r := surface_point Rops dim pu pv Uu Uv su sv P u v in
  length r = dim /\ forall d, (d < dim)%nat -> nth d r 0 = surface_def Uu Uv pu pv su sv P d u v.
Proof.
  intros Hsu Hsv Hwf HLP Hpu Hpv HLu HLv Hu Hv. unfold surface_point.
  destruct (span_facts Uu u pu su Hpu ltac:(lia) Hu) as [Hku Hiu].
  destruct (span_facts Uv v pv sv Hpv ltac:(lia) Hv) as [Hkv Hiv].
  set (ku := find_span_linear Rops pu Uu su u) in *. set (kv := find_span_linear Rops pv Uv sv v) in *.
  destruct (surface_point_at_sum dim pu pv sv P ku kv (basis_function Rops pu Uu ku u) (basis_function Rops pv Uv kv v) su Hwf HLP Hku Hkv) as [HL Hn].
  cbn zeta in *. split; [exact HL|]. intros d Hd. rewrite Hn by exact Hd.
  unfold surface_def.
  rewrite (sumf_window _ (ku - pu) (S pu) su); try lia.
  - apply sumf_ext. intros k Hk.
    rewrite (sumf_window _ (kv - pv) (S pv) sv); try lia.
    + rewrite <- sumf_scale. apply sumf_ext. intros l Hl.
      rewrite (bf_is_cox_de_boor_list Uu u ku Hsu Hiu pu) by lia.
      rewrite (bf_is_cox_de_boor_list Uv v kv Hsv Hiv pv) by lia. ring.
    + intros j Hj. rewrite (N_outside Uv pv j v kv Hsv ltac:(lia) Hiv) by lia. ring.
    + intros j Hj. rewrite (N_outside Uv pv j v kv Hsv ltac:(lia) Hiv) by lia. ring.
  - intros i Hi. apply sumf_zero. intros j Hj. rewrite (N_outside Uu pu i u ku Hsu ltac:(lia) Hiu) by lia. ring.
  - intros i Hi. apply sumf_zero. intros j Hj. rewrite (N_outside Uu pu i u ku Hsu ltac:(lia) Hiu) by lia. ring.
Qed.

(* ---------- sampled grid: documented size, first and last parameter on the domain ends ---------- *)
Lemma oabs_Rabs x : oabs Rops x = Rabs x.
Proof. unfold oabs, oneg. rsimp. unfold Rleb, Rabs. destruct (Rle_dec 0 x); destruct (Rcase_abs x); lra. Qed.

Lemma linspace_length tol8 a b n : tol8 < Rabs (a - b) -> (2 <= n)%nat -> length (linspace Rops tol8 a b n) = n.
Proof.
  intros Ht Hn. unfold linspace. rewrite oabs_Rabs. rsimp. unfold Rleb.
  destruct (Rle_dec (Rabs (a - b)) tol8); [lra|].
  destruct (Nat.ltb_spec 1 n); [|lia]. rewrite map_length, seq_length. reflexivity.
Qed.

Lemma ofnat_INR n : ofnat Rops n = INR n.
Proof. induction n; [reflexivity|]. cbn [ofnat]. rsimp. rewrite IHn, S_INR. reflexivity. Qed.

Lemma linspace_nth tol8 a b n i : tol8 < Rabs (a - b) -> (2 <= n)%nat -> (i < n)%nat ->
  nth i (linspace Rops tol8 a b n) 0 = a + INR i * (b - a) / INR (n - 1).
Proof.
  intros Ht Hn Hi. unfold linspace. rewrite oabs_Rabs. rsimp. unfold Rleb.
  destruct (Rle_dec (Rabs (a - b)) tol8); [lra|].
  destruct (Nat.ltb_spec 1 n); [|lia].
  match goal with |- context [map ?g _] => set (f := g) end.
  rewrite (nth_indep _ 0 (f 0%nat)) by (rewrite map_length, seq_length; exact Hi).
  rewrite map_nth, seq_nth by exact Hi. subst f. cbn beta. rewrite !ofnat_INR.
  replace (Nat.pred n) with (n - 1)%nat by lia. reflexivity.
Qed.

Theorem linspace_ends tol8 a b n : tol8 < Rabs (a - b) -> (2 <= n)%nat ->
  nth 0 (linspace Rops tol8 a b n) 0 = a /\ nth (n - 1) (linspace Rops tol8 a b n) 0 = b.
Proof.
  intros Ht Hn. rewrite !linspace_nth by (try assumption; lia). split.
  - cbn [INR]. unfold Rdiv. ring.
  - assert (0 < INR (n - 1)) by (apply lt_0_INR; lia). field. lra.
Qed.

(* grid layout of surface evalpts: element (i, j) sits at j + nv * i *)
Lemma flat_map_grid {A B C} (f : A -> B -> C) (la : list A) (lb : list B) (da : A) (db : B) (dc : C) i j :
  (i < length la)%nat -> (j < length lb)%nat ->
  nth (j + length lb * i) (flat_map (fun a => map (f a) lb) la) dc = f (nth i la da) (nth j lb db).
Proof.
  revert i. induction la as [|a la IH]; intros i Hi Hj; [cbn in Hi; lia|].
  cbn [flat_map]. destruct i.
  - rewrite Nat.mul_0_r, Nat.add_0_r. rewrite app_nth1 by (rewrite map_length; exact Hj).
    rewrite (nth_indep _ dc (f a db)) by (rewrite map_length; exact Hj). rewrite map_nth. reflexivity.
  - rewrite app_nth2 by (rewrite map_length; nia). rewrite map_length.
    replace (j + length lb * S i - length lb)%nat with (j + length lb * i)%nat by nia.
    cbn [nth]. apply IH; [cbn in Hi; lia|exact Hj].
Qed.

(* ---------- volumes ---------- *)
Definition volume_def (Uu Uv Uw : list R) (pu pv pw su sv sw : nat) (P : list (list R)) (d : nat) (u v w : R) : R :=
  sumf (fun i => sumf (fun j => sumf (fun k =>
     N (Ufun Uu) pu i u * N (Ufun Uv) pv j v * N (Ufun Uw) pw k w * coord P (j + sv * (i + su * k)) d) sw) sv) su.

(* [G] volume point = tensor-product definition over the whole net (flat index v + sv*(u + su*w)) *)
Theorem volume_point_is_definition (Uu Uv Uw : list R) (P : list (list R)) (pu pv pw su sv sw dim : nat) (u v w : R) :
  sortedR Uu -> sortedR Uv -> sortedR Uw -> wf_net P dim -> length P = (su * sv * sw)%nat ->
  (pu < su)%nat -> (pv < sv)%nat -> (pw < sw)%nat ->
  length Uu = (su + pu + 1)%nat -> length Uv = (sv + pv + 1)%nat -> length Uw = (sw + pw + 1)%nat ->
  knR Uu pu <= u < knR Uu su -> knR Uv pv <= v < knR Uv sv -> knR Uw pw <= w < knR Uw sw ->
  let r := volume_point Rops dim pu pv pw Uu Uv Uw su sv sw P u v w in
  length r = dim /\ forall d, (d < dim)%nat -> nth d r 0 = volume_def Uu Uv Uw pu pv pw su sv sw P d u v w.
Proof.
  intros Hsu Hsv Hsw Hwf HLP Hpu Hpv Hpw HLu HLv HLw Hu Hv Hw. unfold volume_point, pt_at.
  destruct (span_facts Uu u pu su Hpu ltac:(lia) Hu) as [Hku Hiu].
  destruct (span_facts Uv v pv sv Hpv ltac:(lia) Hv) as [Hkv Hiv].
  destruct (span_facts Uw w pw sw Hpw ltac:(lia) Hw) as [Hkw Hiw].
  set (ku := find_span_linear Rops pu Uu su u) in *. set (kv := find_span_linear Rops pv Uv sv v) in *.
  set (kw := find_span_linear Rops pw Uw sw w) in *.
  set (Nu := basis_function Rops pu Uu ku u). set (Nv := basis_function Rops pv Uv kv v). set (Nw := basis_function Rops pw Uw kw w).
  cbn zeta.
  set (idx := fun du dv dw => (kv - pv + dv + sv * (ku - pu + du + su * (kw - pw + dw)))%nat).
  set (t1 := fun du dv => fold_left (fun t dw => axpy Rops (nth dw Nw 0) (nth (idx du dv dw) P []) t) (seq 0 (S pw)) (vzero Rops dim)).
  set (t2 := fun du => fold_left (fun t dv => axpy Rops (nth dv Nv 0) (t1 du dv) t) (seq 0 (S pv)) (vzero Rops dim)).
  assert (H1 : forall du dv, (du < S pu)%nat -> (dv < S pv)%nat -> length (t1 du dv) = dim /\
            forall d, (d < dim)%nat -> nth d (t1 du dv) 0 = sumf (fun dw => nth dw Nw 0 * coord P (idx du dv dw) d) (S pw)).
  { intros du dv Hdu Hdv. unfold t1.
    apply (fold_axpy_lt (fun dw => nth dw Nw 0) (fun dw => nth (idx du dv dw) P []) dim (S pw)).
    intros dw Hdw. apply Hwf. rewrite HLP. unfold idx.
    set (a := (kv - pv + dv)%nat). set (b := (ku - pu + du)%nat). set (c := (kw - pw + dw)%nat).
    assert (Ha : (a < sv)%nat) by (unfold a; lia). assert (Hb : (b < su)%nat) by (unfold b; lia). assert (Hc : (c < sw)%nat) by (unfold c; lia).
    assert (Hx : (b + su * c + 1 <= su * sw)%nat) by nia.
    assert (Hy : (sv * (b + su * c + 1) <= sv * (su * sw))%nat) by (apply Nat.mul_le_mono_l; exact Hx).
    lia. }
  assert (H2 : forall du, (du < S pu)%nat -> length (t2 du) = dim /\
            forall d, (d < dim)%nat -> nth d (t2 du) 0 = sumf (fun dv => nth dv Nv 0 * sumf (fun dw => nth dw Nw 0 * coord P (idx du dv dw) d) (S pw)) (S pv)).
  { intros du Hdu. unfold t2.
    destruct (fold_axpy_lt (fun dv => nth dv Nv 0) (t1 du) dim (S pv) (fun dv Hdv => proj1 (H1 du dv Hdu Hdv))) as [HL Hn]. cbn zeta in *.
    split; [exact HL|]. intros d Hd. rewrite Hn by exact Hd. apply sumf_ext. intros dv Hdv. f_equal. apply (proj2 (H1 du dv Hdu Hdv)). exact Hd. }
  destruct (fold_axpy_lt (fun du => nth du Nu 0) t2 dim (S pu) (fun du Hdu => proj1 (H2 du Hdu))) as [HL Hn]. cbn zeta in *.
  split; [exact HL|]. intros d Hd. rewrite Hn by exact Hd.
  unfold volume_def.
  rewrite (sumf_window _ (ku - pu) (S pu) su); try lia.
  - apply sumf_ext. intros du Hdu. rewrite (proj2 (H2 du Hdu)) by exact Hd.
    rewrite (sumf_window _ (kv - pv) (S pv) sv); try lia.
    + rewrite <- sumf_scale. apply sumf_ext. intros dv Hdv.
      rewrite (sumf_window _ (kw - pw) (S pw) sw); try lia.
      * rewrite <- !sumf_scale. apply sumf_ext. intros dw Hdw. unfold idx, Nu, Nv, Nw.
        rewrite (bf_is_cox_de_boor_list Uu u ku Hsu Hiu pu) by lia.
        rewrite (bf_is_cox_de_boor_list Uv v kv Hsv Hiv pv) by lia.
        rewrite (bf_is_cox_de_boor_list Uw w kw Hsw Hiw pw) by lia. ring.
      * intros k Hk. rewrite (N_outside Uw pw k w kw Hsw ltac:(lia) Hiw) by lia. ring.
      * intros k Hk. rewrite (N_outside Uw pw k w kw Hsw ltac:(lia) Hiw) by lia. ring.
    + intros j Hj. apply sumf_zero. intros k Hk. rewrite (N_outside Uv pv j v kv Hsv ltac:(lia) Hiv) by lia. ring.
    + intros j Hj. apply sumf_zero. intros k Hk. rewrite (N_outside Uv pv j v kv Hsv ltac:(lia) Hiv) by lia. ring.
  - intros i Hi. apply sumf_zero. intros j Hj. apply sumf_zero. intros k Hk. rewrite (N_outside Uu pu i u ku Hsu ltac:(lia) Hiu) by lia. ring.
  - intros i Hi. apply sumf_zero. intros j Hj. apply sumf_zero. intros k Hk. rewrite (N_outside Uu pu i u ku Hsu ltac:(lia) Hiu) by lia. ring.
Qed.

(* ---------- the right domain end of a clamped curve: the model returns the last control point ---------- *)
Lemma inner_right_zero U span u j : forall Nold r saved,
  (forall r', (r <= r' < r + length Nold)%nat -> Basis.right Rops U span u (S r') = 0 /\ Basis.left Rops U span u (j - r') <> 0) ->
  Basis.inner Rops U span u j r Nold saved = saved :: Nold.
Proof.
  induction Nold as [|x rest IH]; intros r saved H; cbn [Basis.inner]; [reflexivity|].
  destruct (H r ltac:(cbn [length]; lia)) as [Hr Hl]. rewrite Hr. rsimp.
  rewrite IH.
  - f_equal; [lra|]. f_equal. field. exact Hl.
  - intros r' Hr'. apply H. cbn [length]. lia.
Qed.

Lemma find_span_linear_aux_end U n u fuel : forall span, (span <= n)%nat -> (n - span <= fuel)%nat ->
  (forall i, (span <= i < n)%nat -> knR U i <= u) -> find_span_linear_aux Rops fuel U n span u = n.
Proof.
  induction fuel as [|f IH]; intros span Hs Hf Hle; cbn [find_span_linear_aux]; [lia|].
  destruct (Nat.ltb_spec span n) as [Hlt|Hge]; cbn [andb]; [|lia].
  rsimp. unfold Rleb. destruct (Rle_dec (knR U span) u) as [H|H].
  - apply IH; try lia. intros i Hi. apply Hle. lia.
  - exfalso. apply H. apply Hle. lia.
Qed.

Theorem clamped_right_end (U : list R) (P : list (list R)) (p dim : nat) (u : R) :
  sortedR U -> wf_net P dim -> (p < length P)%nat -> length U = (length P + p + 1)%nat ->
  (forall r, (r <= p)%nat -> knR U (length P + r) = u) -> knR U (length P - 1) < u ->
  let r := curve_point Rops dim p U P u in
  length r = dim /\ forall d, (d < dim)%nat -> nth d r 0 = coord P (length P - 1) d.
Proof.
  intros Hs Hwf Hp HL Hend Hlast. set (n := length P) in *. unfold curve_point. fold n.
  assert (Hk : find_span_linear Rops p U n u = (n - 1)%nat).
  { unfold find_span_linear. rewrite find_span_linear_aux_end; try lia.
    intros i Hi. assert (knR U i <= knR U n) by (apply Hs; lia). rewrite <- (Hend 0%nat ltac:(lia)). rewrite Nat.add_0_r. exact H. }
  rewrite Hk.
  assert (Hbf : forall q, (q <= p)%nat -> basis_function Rops q U (n - 1) u = repeat 0 q ++ [1]).
  { induction q as [|q IHq]; intros Hq; cbn [basis_function]; [reflexivity|].
    rewrite IHq by lia. rewrite inner_right_zero.
    - rsimp. reflexivity.
    - intros r' Hr'. rewrite app_length, repeat_length in Hr'. cbn [length] in Hr'. split.
      + unfold Basis.right. rsimp. replace (n - 1 + S r')%nat with (n + r')%nat by lia. rewrite Hend by lia. lra.
      + unfold Basis.left. rsimp. assert (knR U (n - 1 + 1 - (S q - r')) <= knR U (n - 1)) by (apply Hs; lia). lra. }
  destruct (curve_point_at_sum dim p P (n - 1) (basis_function Rops p U (n - 1) u) Hwf ltac:(lia) ltac:(lia)) as [HLr Hn]. cbn zeta in *.
  split; [exact HLr|]. intros d Hd. rewrite Hn by exact Hd. rewrite Hbf by lia.
  cbn [sumf]. rewrite sumf_zero.
  - rewrite app_nth2 by (rewrite repeat_length; lia). rewrite repeat_length, Nat.sub_diag. cbn [nth].
    replace (n - 1 - p + p)%nat with (n - 1)%nat by lia. lra.
  - intros i Hi. rewrite app_nth1 by (rewrite repeat_length; lia). rewrite nth_repeat. lra.
Qed.

(* ---------- rational surfaces and volumes: quotient of the homogeneous tensor-product sums ---------- *)
Theorem rational_surface_point_is_quotient (Uu Uv : list R) (Pw : list (list R)) (pu pv su sv dim : nat) (u v : R) :
  sortedR Uu -> sortedR Uv -> wf_net Pw (S dim) -> length Pw = (su * sv)%nat ->
  (pu < su)%nat -> (pv < sv)%nat -> length Uu = (su + pu + 1)%nat -> length Uv = (sv + pv + 1)%nat ->
  knR Uu pu <= u < knR Uu su -> knR Uv pv <= v < knR Uv sv ->
  forall d, (d < dim)%nat ->
  nth d (obj_surface_point Rops true dim pu pv Uu Uv su sv Pw (u, v)) 0
  = surface_def Uu Uv pu pv su sv Pw d u v / surface_def Uu Uv pu pv su sv Pw dim u v.
Proof.
  intros Hsu Hsv Hwf HLP Hpu Hpv HLu HLv Hu Hv d Hd. unfold obj_surface_point. cbn [fst snd].
  destruct (surface_point_is_definition Uu Uv Pw pu pv su sv (S dim) u v Hsu Hsv Hwf HLP Hpu Hpv HLu HLv Hu Hv) as [HLr Hn]. cbn zeta in *.
  rewrite project_nth by (rewrite HLr; lia). rewrite HLr. replace (S dim - 1)%nat with dim by lia.
  rewrite !Hn by lia. reflexivity.
Qed.

Theorem rational_volume_point_is_quotient (Uu Uv Uw : list R) (Pw : list (list R)) (pu pv pw su sv sw dim : nat) (u v w : R) :
  sortedR Uu -> sortedR Uv -> sortedR Uw -> wf_net Pw (S dim) -> length Pw = (su * sv * sw)%nat ->
  (pu < su)%nat -> (pv < sv)%nat -> (pw < sw)%nat ->
  length Uu = (su + pu + 1)%nat -> length Uv = (sv + pv + 1)%nat -> length Uw = (sw + pw + 1)%nat ->
  knR Uu pu <= u < knR Uu su -> knR Uv pv <= v < knR Uv sv -> knR Uw pw <= w < knR Uw sw ->
  forall d, (d < dim)%nat ->
  nth d (obj_volume_point Rops true dim pu pv pw Uu Uv Uw su sv sw Pw (u, v, w)) 0
  = volume_def Uu Uv Uw pu pv pw su sv sw Pw d u v w / volume_def Uu Uv Uw pu pv pw su sv sw Pw dim u v w.
Proof.
  intros Hsu Hsv Hsw Hwf HLP Hpu Hpv Hpw HLu HLv HLw Hu Hv Hw d Hd. unfold obj_volume_point.
  destruct (volume_point_is_definition Uu Uv Uw Pw pu pv pw su sv sw (S dim) u v w Hsu Hsv Hsw Hwf HLP Hpu Hpv Hpw HLu HLv HLw Hu Hv Hw) as [HLr Hn]. cbn zeta in *.
  rewrite project_nth by (rewrite HLr; lia). rewrite HLr. replace (S dim - 1)%nat with dim by lia.
  rewrite !Hn by lia. reflexivity.
Qed.
