(* mesh_valid, chunk 1 of 4: vertex-array sizes a in 2 .. 20, b in 2 .. 40 (vm_compute, evaluated once at Qed) *)
From Coq Require Import List Arith Bool.
From NV Require Import Model.TessCore Proofs.TessValid.
Lemma mesh_ok_chunk1 : mesh_ok_rows 2 19 = true.
Proof. vm_cast_no_check (eq_refl true). Qed.
