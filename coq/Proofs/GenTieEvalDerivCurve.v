(* Ties: generated evaluators.CurveEvaluator.derivatives (A3.2) / CurveEvaluatorRational.derivatives (A4.2)  =  Model/Derivs.v
   (curve_derivs, rat_curve_derivs), for every scalar instance.  No law of the scalar operations is used. *)
From Coq Require Import List ZArith Arith Bool Lia QArith.
From NV Require Import Scalar.Ops Model.Common Model.Basis Model.Knots Model.Eval Model.Degree Model.Derivs
  Gen.Prelude Gen.PreludeExt Gen.Linalg Gen.LinalgMat Gen.Helpers Gen.Evaluators
  Proofs.GenTieLib Proofs.GenTieLib2 Proofs.GenTieKnots Proofs.GenTieSpan Proofs.GenTieBasis Proofs.GenTieDersLib Proofs.GenTieDers
  Proofs.GenTieSums Proofs.GenTieDegree Proofs.GenTieBinom Proofs.GenTieEvalLib Proofs.GenTieEvalCurve.
Import ListNotations.
Local Open Scope nat_scope.

Section Tie.
Context {T : Type} (K : ops T).

Lemma zmin_nat (a b : nat) : zmin (Z.of_nat a) (Z.of_nat b) = Z.of_nat (Nat.min a b).
Proof. unfold zmin. destruct (Z.ltb_spec (Z.of_nat b) (Z.of_nat a)); lia. Qed.

(* shape of the table of basis-function derivatives *)
Lemma bfd_length p U sp u order : length (Basis.basis_function_ders K p U sp u order) = S order.
Proof. unfold Basis.basis_function_ders. cbn [length]. now rewrite map_length, seq_length. Qed.
Lemma bfd_row_length p U sp u order k : k <= order -> length (nth k (Basis.basis_function_ders K p U sp u order) []) = S p.
Proof.
  intros Hk. unfold Basis.basis_function_ders. destruct k as [|k]; cbn [nth].
  - now rewrite map_length, seq_length.
  - rewrite (nth_map_lt _ _ k 0) by (rewrite seq_length; lia). now rewrite map_length, seq_length.
Qed.

(* ================= A3.2: CurveEvaluator.derivatives ================= *)
(* wf as for evaluate: degree < number of control points, len(ctrlpts) + degree <= len(knotvector); any derivative order >= 0 *)
Theorem CurveEvaluator_derivatives_tie_gen (func : Z -> list T -> Z -> T -> gres Z) (dd : geomdata T)
    (p : nat) (U : list T) (P : list (list T)) (u : T) (order : nat) :
  curve_dd dd p U P -> p < length P -> length P + p <= length U ->
  func (Z.of_nat p) U (Z.of_nat (length P)) u = GOk (Z.of_nat (Basis.find_span_linear K p U (length P) u)) ->
  Evaluators.CurveEvaluator_derivatives K func dd u (Z.of_nat order) =
  GOk (curve_derivs K (Z.to_nat (eval_dim dd)) p U P u order).
Proof.
  intros (Hd & Hk & Hs & Hc) Hp Hl Hf.
  unfold Evaluators.CurveEvaluator_derivatives. cbv zeta. fold (eval_dim dd).
  rewrite (znth_hd _ _ Hd), (znth_hd _ _ Hk), (znth_hd _ _ Hs). cbn [gbind].
  rewrite Hc, Hf. cbn [gbind].
  rewrite zmin_nat. unfold curve_derivs.
  set (du := Nat.min p order). set (span := Basis.find_span_linear K p U (length P) u).
  set (dim := Z.to_nat (eval_dim dd)).
  assert (Bs : p <= span < length P) by (apply find_span_linear_bounds; exact Hp).
  rewrite basis_function_ders_tie by (unfold du; lia). cbn [gbind].
  set (ders := Basis.basis_function_ders K p U span u du).
  replace (Z.of_nat order + 1)%Z with (Z.of_nat (S order)) by lia.
  replace (Z.of_nat du + 1)%Z with (Z.of_nat (S du)) by lia.
  replace (Z.of_nat p + 1)%Z with (Z.of_nat (S p)) by lia.
  rewrite zeros_vzero, map_const_zrange, Nat2Z.id. fold dim.
  rewrite !zrange_0_nat, gfor_map.
  rewrite (gfor_fill [] _ (fun k => curve_point_at K dim p P span (nth k ders []))).
  - cbn [gbind]. f_equal.
    rewrite skipn_repeat.
    replace (S order) with (S du + (order - du)) at 2 by (unfold du; lia).
    rewrite seq_app, map_app. f_equal.
    + apply map_seq_ext. intros k Hk_. destruct (Nat.leb_spec k du); [reflexivity|lia].
    + replace (S order - S du) with (order - du) by lia.
      rewrite <- (seq_length (order - du) (0 + S du)) at 1. rewrite <- map_const_seq by exact (fun x : nat => x).
      apply map_seq_ext. intros k Hk_. destruct (Nat.leb_spec k du); [lia|reflexivity].
  - rewrite repeat_length. unfold du. lia.
  - intros k CK Hk_ HL Hrest. rewrite repeat_length in HL.
    rewrite gfor_map.
    rewrite (gfor_row [] _ _ k (fun row j => axpy K (nth j (nth k ders []) (o0 K)) (pt_at P (span - p + j)) row)).
    + cbn [gbind]. unfold curve_point_at.
      rewrite Hrest by lia. rewrite nth_repeat_lt by (unfold du in *; lia). reflexivity.
    + unfold du in *. lia.
    + intros j M' Hj HM'. apply in_seq in Hj.
      rewrite (znth_nat M' k []) by (unfold du in *; lia). cbn [gbind].
      replace (Z.of_nat span - Z.of_nat p + Z.of_nat j)%Z with (Z.of_nat (span - p + j)) by lia.
      rewrite (znth_nat P _ []) by lia. cbn [gbind].
      rewrite (gmapM_axpy2 K ders (Z.of_nat k) (Z.of_nat j) (nth k ders []) (nth j (nth k ders []) (o0 K))).
      * cbn [gbind]. rewrite zset_nat by (unfold du in *; lia). reflexivity.
      * apply znth_nat. unfold ders. rewrite bfd_length. lia.
      * apply znth_nat. unfold ders. rewrite bfd_row_length by lia. lia.
Qed.

Theorem CurveEvaluator_derivatives_tie (dd : geomdata T) (p : nat) (U : list T) (P : list (list T)) (u : T) (order : nat) :
  curve_dd dd p U P -> p < length P -> length P + p <= length U ->
  Evaluators.CurveEvaluator_derivatives K (Helpers.find_span_linear K) dd u (Z.of_nat order) =
  GOk (curve_derivs K (Z.to_nat (eval_dim dd)) p U P u order).
Proof. intros. apply CurveEvaluator_derivatives_tie_gen; auto. apply find_span_linear_tie. lia. Qed.

(* ================= A4.2: CurveEvaluatorRational.derivatives ================= *)
Lemma vsub_scaled_map (c : T) (v d : list T) :
  map (fun '(tmp, drv) => osub K tmp (omul K c drv)) (combine v d) = vsub_scaled K c v d.
Proof. unfold vsub_scaled. apply map_ext. intros [a b]. reflexivity. Qed.

Lemma curve_point_at_length (dim p : nat) (P : list (list T)) (span : nat) (Ns : list T) :
  p <= span < length P -> (forall pt, In pt P -> length pt = dim) -> length (curve_point_at K dim p P span Ns) = dim.
Proof.
  intros Hs HP. unfold curve_point_at. apply fold_axpy_length.
  - apply repeat_length.
  - intros i Hi. apply in_seq in Hi. apply HP. apply nth_In. lia.
Qed.

Lemma curve_derivs_shape (dim p : nat) (U : list T) (P : list (list T)) (u : T) (order : nat) :
  p < length P -> (forall pt, In pt P -> length pt = dim) ->
  length (curve_derivs K dim p U P u order) = S order /\
  forall k, k <= order -> length (nth k (curve_derivs K dim p U P u order) []) = dim.
Proof.
  intros Hp HP. unfold curve_derivs. split; [now rewrite map_length, seq_length|].
  intros k Hk. rewrite (nth_map_lt _ _ k 0) by (rewrite seq_length; lia). rewrite seq_nth by lia. cbn [plus].
  destruct (Nat.leb k _).
  - apply curve_point_at_length; auto. apply find_span_linear_bounds. exact Hp.
  - apply repeat_length.
Qed.

(* the loop of A4.2 on any table CKw of order + 1 rows with `dimension` >= 1 coordinates each *)
Section Rat.
Context (BL : bin_laws K).

Lemma rat_curve_loop (dimension : Z) (CKw : list (list T)) (order : nat) :
  length CKw = S order -> (forall k, k <= order -> Z.of_nat (length (nth k CKw [])) = dimension) -> (1 <= dimension)%Z ->
  gfor (zrange 0 (Z.of_nat order + 1) 1) (fun k CK =>
    do v_2 <- znth CKw k ;;
    do v <- gfor (zrange 1 (k + 1) 1) (fun i v =>
      do v_3 <- znth CK (k - i) ;;
      do v_7 <- gmapM (fun '(tmp, drv) => do v_4 <- LinalgMat.binomial_coefficient K k i ;; do v_5 <- znth CKw i ;; do v_6 <- znth v_5 (-1) ;; GOk (osub K tmp (omul K (omul K v_4 v_6) drv))) (combine v v_3) ;;
      GOk v_7) (map (fun val => val) (zslice v_2 0 (dimension - 1))) ;;
    do v_10 <- gmapM (fun tmp => do v_8 <- znth CKw 0 ;; do v_9 <- znth v_8 (-1) ;; GOk (odiv K tmp v_9)) v ;;
    do CK <- zset CK k v_10 ;;
    GOk CK) (map (fun _ => (map (fun _ => (o0 K)) (zrange 0 (dimension - 1) 1))) (zrange 0 (Z.of_nat order + 1) 1))
  = GOk (rat_curve_derivs K CKw order).
Proof.
  intros HL Hrow Hdim.
  replace (Z.of_nat order + 1)%Z with (Z.of_nat (S order)) by lia.
  rewrite zeros_vzero, map_const_zrange, Nat2Z.id, zrange_0_nat.
  set (z := vzero K (Z.to_nat (dimension - 1))).
  assert (Hne : forall k, k <= order -> nth k CKw [] <> []).
  { intros k Hk E. specialize (Hrow k Hk). rewrite E in Hrow. simpl in Hrow. lia. }
  assert (Hsl : forall k, k <= order -> zslice (nth k CKw []) 0 (dimension - 1) = removelast (nth k CKw [])).
  { intros k Hk. specialize (Hrow k Hk). unfold zslice, zclamp. change (0 <? 0)%Z with false. cbv iota.
    change (Z.to_nat 0) with 0. rewrite Nat.min_0_r. cbn [skipn]. rewrite Nat.sub_0_r.
    destruct (Z.ltb_spec (dimension - 1) 0); [lia|]. rewrite removelast_firstn_len. f_equal. lia. }
  unfold rat_curve_derivs.
  match goal with |- gfor _ ?f _ = GOk (fold_left ?g _ _) =>
    destruct (gfor_seq_fold (fun i (CK CKm : list (list T)) => CK = CKm ++ repeat z (S order - i) /\ length CKm = i) f g (S order) 0)
      with (s := repeat z (S order)) (s' := @nil (list T)) as (t & E & Ht & _)
  end.
  - intros i CK CKm Hi (-> & HLm). cbn [plus] in Hi.
    rewrite (znth_nat CKw i []) by lia. cbn [gbind].
    rewrite map_id, Hsl by lia.
    replace (Z.of_nat i + 1)%Z with (Z.of_nat (S i)) by lia. rewrite zrange_1_nat, gfor_map.
    rewrite (gfor_pure _ _ (fun v i' => vsub_scaled K (omul K (Degree.binomial_coefficient K i i') (vlast K (nth i' CKw [])))
                                           v (nth (i - i') CKm []))).
    + cbn [gbind].
      rewrite (gmapM_ok _ (fun t => odiv K t (vlast K (nth 0 CKw [])))).
      * cbn [gbind]. rewrite zset_nat by (rewrite app_length, repeat_length; lia). cbn [gbind].
        replace (S order - i) with (S (S order - S i)) by lia. cbn [repeat].
        rewrite upd_app_at by exact HLm.
        eexists. split; [reflexivity|]. split.
        -- rewrite <- app_assoc. reflexivity.
        -- rewrite app_length. cbn [length]. lia.
      * intros t _. rewrite (znth_lit0 CKw []) by lia. cbn [gbind].
        rewrite (znth_last _ (o0 K)) by (apply Hne; lia). reflexivity.
    + intros i' v Hi'. apply in_seq in Hi'.
      replace (Z.of_nat i - Z.of_nat i')%Z with (Z.of_nat (i - i')) by lia.
      rewrite (znth_nat _ (i - i') []) by (rewrite app_length, repeat_length; lia). cbn [gbind].
      rewrite app_nth1 by lia.
      rewrite <- vsub_scaled_map.
      rewrite (gmapM_ok _ (fun '(tmp, drv) => osub K tmp
                 (omul K (omul K (Degree.binomial_coefficient K i i') (vlast K (nth i' CKw []))) drv))); [reflexivity|].
      intros [tmp drv] _. rewrite (binomial_coefficient_tie K BL). cbn [gbind].
      rewrite (znth_nat CKw i' []) by lia. cbn [gbind].
      rewrite (znth_last _ (o0 K)) by (apply Hne; lia). reflexivity.
  - split; [|reflexivity]. cbn [app]. now rewrite Nat.sub_0_r.
  - rewrite E. f_equal. rewrite Ht. cbn [plus]. rewrite Nat.sub_diag. cbn [repeat]. apply app_nil_r.
Qed.

(* wf: as for derivatives, and every (weighted) control point has exactly `dimension` >= 1 coordinates *)
Theorem CurveEvaluatorRational_derivatives_tie_gen (func : Z -> list T -> Z -> T -> gres Z) (dd : geomdata T)
    (p : nat) (U : list T) (P : list (list T)) (u : T) (order : nat) :
  curve_dd dd p U P -> p < length P -> length P + p <= length U ->
  (1 <= eval_dim dd)%Z -> (forall pt, In pt P -> Z.of_nat (length pt) = eval_dim dd) ->
  func (Z.of_nat p) U (Z.of_nat (length P)) u = GOk (Z.of_nat (Basis.find_span_linear K p U (length P) u)) ->
  Evaluators.CurveEvaluatorRational_derivatives K func dd u (Z.of_nat order) =
  GOk (rat_curve_derivs K (curve_derivs K (Z.to_nat (eval_dim dd)) p U P u order) order).
Proof.
  intros Hdd Hp Hl Hdim HP Hf.
  unfold Evaluators.CurveEvaluatorRational_derivatives. cbv zeta. fold (eval_dim dd).
  rewrite (CurveEvaluator_derivatives_tie_gen func dd p U P u order) by auto. cbn [gbind].
  destruct (curve_derivs_shape (Z.to_nat (eval_dim dd)) p U P u order Hp) as [S1 S2].
  { intros pt Hpt. specialize (HP pt Hpt). lia. }
  rewrite rat_curve_loop; auto.
  intros k Hk. rewrite S2 by auto. lia.
Qed.

Theorem CurveEvaluatorRational_derivatives_tie (dd : geomdata T) (p : nat) (U : list T) (P : list (list T)) (u : T) (order : nat) :
  curve_dd dd p U P -> p < length P -> length P + p <= length U ->
  (1 <= eval_dim dd)%Z -> (forall pt, In pt P -> Z.of_nat (length pt) = eval_dim dd) ->
  Evaluators.CurveEvaluatorRational_derivatives K (Helpers.find_span_linear K) dd u (Z.of_nat order) =
  GOk (rat_curve_derivs K (curve_derivs K (Z.to_nat (eval_dim dd)) p U P u order) order).
Proof. intros. apply CurveEvaluatorRational_derivatives_tie_gen; auto. apply find_span_linear_tie. lia. Qed.
End Rat.
End Tie.

Definition CurveEvaluator_derivatives_tie_R := @CurveEvaluator_derivatives_tie _ Rops.
Definition CurveEvaluator_derivatives_tie_Q := @CurveEvaluator_derivatives_tie _ Qops.
Definition CurveEvaluatorRational_derivatives_tie_R := @CurveEvaluatorRational_derivatives_tie _ Rops Rops_bin_laws.
Definition CurveEvaluatorRational_derivatives_tie_Q := @CurveEvaluatorRational_derivatives_tie _ Qops Qops_bin_laws.

(* ---- non-vacuity: the curve of GenTieEvalCurve.v (degree 3, a repeated interior knot), u = 3/10, orders 2 and 4 (> degree);
   the values are what geomdl returns ---- *)
Local Open Scope Q_scope.
Example CurveEvaluator_derivatives_ex :
  Evaluators.CurveEvaluator_derivatives Qops (Helpers.find_span_linear Qops) (exdd false) (3#10) 4 =
    GOk (curve_derivs Qops 3 3 exU exP (3#10) 4)
  /\ curve_derivs Qops 3 3 exU exP (3#10) 4 =
     [[799#250; 511#250; 181#125]; [54#25; -294#25; -48#25]; [-288#5; -432#5; -144#5]; [768; 1152; 384]; [0; 0; 0]].
Proof. split; vm_compute; reflexivity. Qed.
Example CurveEvaluatorRational_derivatives_ex :
  Evaluators.CurveEvaluatorRational_derivatives Qops (Helpers.find_span_linear Qops) (exdd true) (3#10) 2 =
    GOk (rat_curve_derivs Qops (curve_derivs Qops 3 3 exU exP (3#10) 2) 2)
  /\ firstn 2 (rat_curve_derivs Qops (curve_derivs Qops 3 3 exU exP (3#10) 2) 2) =
     [[799#362; 511#362]; [144750#32761; -204750#32761]]
  /\ length (rat_curve_derivs Qops (curve_derivs Qops 3 3 exU exP (3#10) 2) 2) = 3%nat.
Proof. split; [vm_compute; reflexivity|]. split; vm_compute; reflexivity. Qed.
