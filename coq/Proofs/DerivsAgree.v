(* C02 [B]: the two curve derivative algorithms agree: A3.4 (CurveEvaluator2: derivative control points A3.3 + lower-degree basis
   functions) returns the same vectors as A3.2 (CurveEvaluator: basis-function derivatives A2.3) for every order 0..p+2, degrees 1..3 (degree 4 takes about 9 minutes of field and is not included),
   on the symbolic knot window k0 <= ... <= kp <= u < k(p+1) <= ... (all multiplicity patterns) with symbolic control values.
   Both functions run their own span search; on the window it returns p (find_span_linear_spec). *)
From Coq Require Import List Reals Lra Lia Arith Bool.
From NV Require Import Scalar.Ops Model.Common Model.Basis Model.Knots Model.Eval Model.Degree Model.Derivs Proofs.BasisR.
Import ListNotations.
Open Scope R_scope.
Ltac rcbv := cbv -[Rplus Rminus Rmult Rdiv Rinv Ropp IZR].
Ltac lfld := repeat (apply (f_equal2 (@cons R)); [field; repeat split; lra|]); reflexivity.
Ltac llfld := repeat (apply (f_equal2 (@cons (list R))); [lfld|]); reflexivity.

Lemma sorted_of_chain (W : list R) : (forall i, (S i < length W)%nat -> knR W i <= knR W (S i)) -> sortedR W.
Proof.
  intros H i j [Hij Hj]. induction Hij as [|m Hm IH]; [lra|].
  specialize (IH ltac:(lia)). specialize (H m ltac:(lia)). lra.
Qed.

Lemma span_window_1 : forall k0 k1 k2 k3 u, k0 <= k1 -> k1 <= u -> u < k2 -> k2 <= k3 ->
  find_span_linear Rops 1 [k0;k1;k2;k3] 2 u = 1%nat.
Proof.
  intros.
  pose proof (find_span_linear_spec [k0;k1;k2;k3] u 1 2 ltac:(lia) ltac:(cbn; lia) ltac:(cbn; lra)) as [Hb _]. lia.
Qed.

Lemma evaluators_agree_1 : forall k0 k1 k2 k3 u a0 a1, k0 <= k1 -> k1 <= u -> u < k2 -> k2 <= k3 ->
  let W := [k0;k1;k2;k3] in let P := [[a0];[a1]] in
  forall order, (order <= 3)%nat -> curve_derivs2 Rops 1 1 W P u order = curve_derivs Rops 1 1 W P u order.
Proof.
  intros. assert (order = 0 \/ order = 1 \/ order = 2 \/ order = 3)%nat as Hc by lia.
  pose proof (span_window_1 k0 k1 k2 k3 u ltac:(assumption) ltac:(assumption) ltac:(assumption) ltac:(assumption)) as Hsp.
  unfold curve_derivs2, curve_derivs, W, P. cbn [length]. rewrite Hsp.
  destruct Hc as [-> | [-> | [-> | ->]]]; rcbv; llfld.
Qed.

Lemma span_window_2 : forall k0 k1 k2 k3 k4 k5 u, k0 <= k1 -> k1 <= k2 -> k2 <= u -> u < k3 -> k3 <= k4 -> k4 <= k5 ->
  find_span_linear Rops 2 [k0;k1;k2;k3;k4;k5] 3 u = 2%nat.
Proof.
  intros.
  pose proof (find_span_linear_spec [k0;k1;k2;k3;k4;k5] u 2 3 ltac:(lia) ltac:(cbn; lia) ltac:(cbn; lra)) as [Hb _]. lia.
Qed.

Lemma evaluators_agree_2 : forall k0 k1 k2 k3 k4 k5 u a0 a1 a2, k0 <= k1 -> k1 <= k2 -> k2 <= u -> u < k3 -> k3 <= k4 -> k4 <= k5 ->
  let W := [k0;k1;k2;k3;k4;k5] in let P := [[a0];[a1];[a2]] in
  forall order, (order <= 4)%nat -> curve_derivs2 Rops 1 2 W P u order = curve_derivs Rops 1 2 W P u order.
Proof.
  intros. assert (order = 0 \/ order = 1 \/ order = 2 \/ order = 3 \/ order = 4)%nat as Hc by lia.
  pose proof (span_window_2 k0 k1 k2 k3 k4 k5 u ltac:(assumption) ltac:(assumption) ltac:(assumption) ltac:(assumption) ltac:(assumption) ltac:(assumption)) as Hsp.
  unfold curve_derivs2, curve_derivs, W, P. cbn [length]. rewrite Hsp.
  destruct Hc as [-> | [-> | [-> | [-> | ->]]]]; rcbv; llfld.
Qed.

Lemma span_window_3 : forall k0 k1 k2 k3 k4 k5 k6 k7 u, k0 <= k1 -> k1 <= k2 -> k2 <= k3 -> k3 <= u -> u < k4 -> k4 <= k5 -> k5 <= k6 -> k6 <= k7 ->
  find_span_linear Rops 3 [k0;k1;k2;k3;k4;k5;k6;k7] 4 u = 3%nat.
Proof.
  intros.
  pose proof (find_span_linear_spec [k0;k1;k2;k3;k4;k5;k6;k7] u 3 4 ltac:(lia) ltac:(cbn; lia) ltac:(cbn; lra)) as [Hb _]. lia.
Qed.

Lemma evaluators_agree_3 : forall k0 k1 k2 k3 k4 k5 k6 k7 u a0 a1 a2 a3, k0 <= k1 -> k1 <= k2 -> k2 <= k3 -> k3 <= u -> u < k4 -> k4 <= k5 -> k5 <= k6 -> k6 <= k7 ->
  let W := [k0;k1;k2;k3;k4;k5;k6;k7] in let P := [[a0];[a1];[a2];[a3]] in
  forall order, (order <= 5)%nat -> curve_derivs2 Rops 1 3 W P u order = curve_derivs Rops 1 3 W P u order.
Proof.
  intros. assert (order = 0 \/ order = 1 \/ order = 2 \/ order = 3 \/ order = 4 \/ order = 5)%nat as Hc by lia.
  pose proof (span_window_3 k0 k1 k2 k3 k4 k5 k6 k7 u ltac:(assumption) ltac:(assumption) ltac:(assumption) ltac:(assumption) ltac:(assumption) ltac:(assumption) ltac:(assumption) ltac:(assumption)) as Hsp.
  unfold curve_derivs2, curve_derivs, W, P. cbn [length]. rewrite Hsp.
  destruct Hc as [-> | [-> | [-> | [-> | [-> | ->]]]]]; rcbv; llfld.
Qed.

