(* C02: structural theorems about Model.Derivs at the real-number instance.
   - float(n) by binary digits is INR n; binomial_coefficient is the binomial number
   - [G] non-rational derivative vectors of order above the degree are zero vectors (both evaluator families)
   - [G] A4.2 (rational curve derivatives) satisfies the Leibniz identity of  A = w * C  for every order
   - [G] cross product is orthogonal to both factors; unit vector has norm 1 *)
From Coq Require Import List Reals Lra Lia Arith Bool.
From NV Require Import Scalar.Ops Model.Common Model.Basis Model.Knots Model.Eval Model.Degree Model.Derivs.
Import ListNotations.
Open Scope R_scope.

(* ---- scalars ---- *)
Lemma ofnat_bin_INR : forall fuel n, (n <= fuel)%nat -> ofnat_bin Rops fuel n = INR n.
Proof.
  induction fuel as [|f IH]; intros n Hn.
  - assert (n = 0%nat) by lia. subst. reflexivity.
  - cbn [ofnat_bin]. destruct (Nat.eqb_spec n 0) as [->|H0]; [reflexivity|].
    destruct (Nat.eqb_spec n 1) as [->|H1]; [reflexivity|].
    assert (Hd : (Nat.div2 n <= f)%nat).
    { pose proof (Nat.div2_odd n) as E0. destruct (Nat.odd n); cbn [Nat.b2n] in E0; lia. }
    rewrite (IH _ Hd). unfold o2. rsimp.
    pose proof (Nat.div2_odd n) as E.
    destruct (Nat.odd n) eqn:Ho; cbn [Nat.b2n] in E.
    + rewrite E at 2. rewrite plus_INR, mult_INR. simpl. lra.
    + rewrite E at 2. rewrite plus_INR, mult_INR. simpl. lra.
Qed.

Lemma ofnatb_INR n : ofnatb Rops n = INR n.
Proof. apply ofnat_bin_INR. lia. Qed.
Lemma binomial_coefficient_INR k i : binomial_coefficient Rops k i = INR (binom k i).
Proof. apply ofnatb_INR. Qed.

(* ---- lists ---- *)
Lemma nth_map_seq {A} (f : nat -> A) a n k d : (k < n)%nat -> nth k (map f (seq a n)) d = f (a + k)%nat.
Proof.
  intros H. rewrite (nth_indep _ d (f 0%nat)) by (rewrite map_length, seq_length; exact H).
  rewrite map_nth. rewrite seq_nth by exact H. reflexivity.
Qed.
Lemma nth_repeat_in {A} (x d : A) n k : (k < n)%nat -> nth k (repeat x n) d = x.
Proof. revert k; induction n; intros [|k] H; simpl; try lia; auto. apply IHn. lia. Qed.

(* ---- [G] zero above the degree, non-rational, both evaluator families ---- *)
Theorem curve_derivs_zero_above_degree dim p U P u order k : (p < k <= order)%nat ->
  nth k (curve_derivs Rops dim p U P u order) [] = vzero Rops dim.
Proof.
  intros H. unfold curve_derivs. rewrite nth_map_seq by lia. cbn [Nat.add].
  destruct (Nat.leb_spec k (Nat.min p order)); [lia|reflexivity].
Qed.
Theorem curve_derivs2_zero_above_degree dim p U P u order k : (p < k <= order)%nat ->
  nth k (curve_derivs2 Rops dim p U P u order) [] = vzero Rops dim.
Proof.
  intros H. unfold curve_derivs2. rewrite nth_map_seq by lia. cbn [Nat.add].
  destruct (Nat.leb_spec k (Nat.min p order)); [lia|reflexivity].
Qed.
Theorem surface_derivs_zero_above_degree dim pu pv Uu Uv su sv P u v order k l :
  (k <= order)%nat -> (l <= order)%nat -> (pu < k \/ pv < l)%nat ->
  get3 (surface_derivs Rops dim pu pv Uu Uv su sv P u v order) k l = vzero Rops dim.
Proof.
  intros Hk Hl H. unfold get3, surface_derivs. rewrite nth_map_seq by lia. cbn [Nat.add].
  destruct (Nat.leb_spec k (Nat.min pu order)).
  - rewrite nth_map_seq by lia. cbn [Nat.add].
    destruct (Nat.leb_spec l (Nat.min order (Nat.min pv order))); [lia|reflexivity].
  - rewrite (nth_indep _ [] (vzero Rops dim)) by (rewrite repeat_length; lia). apply nth_repeat_in. lia.
Qed.
Theorem surface_derivs2_zero_above_degree dim pu pv Uu Uv su sv P u v order k l :
  (k <= order)%nat -> (l <= order)%nat -> (pu < k \/ pv < l)%nat ->
  get3 (surface_derivs2 Rops dim pu pv Uu Uv su sv P u v order) k l = vzero Rops dim.
Proof.
  intros Hk Hl H. unfold get3, surface_derivs2. rewrite nth_map_seq by lia. cbn [Nat.add].
  rewrite nth_map_seq by lia. cbn [Nat.add].
  destruct (Nat.leb_spec k (Nat.min pu order)); cbn [andb]; [|reflexivity].
  destruct (Nat.leb_spec l (Nat.min (order - k) (Nat.min pv order))); [lia|reflexivity].
Qed.

(* object level: a B-spline (non-rational) curve object, either evaluator *)
Theorem Curve_derivatives_zero_above_degree normalize alg2 dim p U P u order D k :
  Curve_derivatives Rops normalize false alg2 dim p U P u order = Ok D -> (p < k <= order)%nat ->
  nth k D [] = vzero Rops dim.
Proof.
  unfold Curve_derivatives. destruct (andb normalize _); [discriminate|].
  destruct alg2; intros E Hk; injection E as <-.
  - apply curve_derivs2_zero_above_degree; exact Hk.
  - apply curve_derivs_zero_above_degree; exact Hk.
Qed.
Theorem Surface_derivatives_zero_above_degree normalize alg2 dim pu pv Uu Uv su sv P u v order D k l :
  Surface_derivatives Rops normalize false alg2 dim pu pv Uu Uv su sv P u v order = Ok D ->
  (k <= order)%nat -> (l <= order)%nat -> (pu < k \/ pv < l)%nat -> get3 D k l = vzero Rops dim.
Proof.
  unfold Surface_derivatives. destruct (andb normalize _); [discriminate|].
  destruct alg2; intros E Hk Hl H; injection E as <-.
  - apply surface_derivs2_zero_above_degree; assumption.
  - apply surface_derivs_zero_above_degree; assumption.
Qed.

(* ---- [G] A4.2: Leibniz identity ---- *)
Fixpoint lsum (l : list nat) (f : nat -> R) : R := match l with [] => 0 | i :: r => f i + lsum r f end.

Lemma lsum_ext l f g : (forall i, In i l -> f i = g i) -> lsum l f = lsum l g.
Proof. induction l; simpl; intros H; [reflexivity|]. rewrite (H a) by auto. rewrite IHl; auto. Qed.

Lemma vsub_scaled_length s v d : length (vsub_scaled Rops s v d) = Nat.min (length v) (length d).
Proof. unfold vsub_scaled. rewrite map_length, combine_length. reflexivity. Qed.

Lemma nth_map_in {A B} (f : A -> B) (l : list A) n d d' : (n < length l)%nat -> nth n (map f l) d = f (nth n l d').
Proof. revert n; induction l; intros [|n] H; simpl in *; try lia; auto. apply IHl. lia. Qed.

Lemma combine_nth_lt {A B} : forall (l : list A) (l' : list B) n x y, (n < length l)%nat -> (n < length l')%nat ->
  nth n (combine l l') (x, y) = (nth n l x, nth n l' y).
Proof. induction l; intros [|b l'] [|n] x y H1 H2; simpl in *; try lia; auto. apply IHl; lia. Qed.

Lemma vsub_scaled_nth s v d c : (c < length v)%nat -> (c < length d)%nat ->
  nth c (vsub_scaled Rops s v d) 0 = nth c v 0 - s * nth c d 0.
Proof.
  intros Hv Hd. unfold vsub_scaled. rewrite (nth_map_in _ _ _ _ (0, 0)) by (rewrite combine_length; lia).
  rewrite combine_nth_lt by assumption. reflexivity.
Qed.

(* the inner loop of A4.2 on one coordinate *)
Lemma inner_fold_spec d c (s : nat -> R) (D : nat -> list R) : (c < d)%nat -> forall l v,
  length v = d -> (forall i, In i l -> length (D i) = d) ->
  let r := fold_left (fun v i => vsub_scaled Rops (s i) v (D i)) l v in
  length r = d /\ nth c r 0 = nth c v 0 - lsum l (fun i => s i * nth c (D i) 0).
Proof.
  intros Hc. induction l as [|a l IH]; intros v Hv HD; cbn [fold_left lsum].
  - split; [exact Hv|lra].
  - assert (Ha : length (D a) = d) by (apply HD; left; reflexivity).
    destruct (IH (vsub_scaled Rops (s a) v (D a))) as [L E].
    + rewrite vsub_scaled_length. lia.
    + intros i Hi. apply HD. right. exact Hi.
    + split; [exact L|]. rewrite E. rewrite vsub_scaled_nth by lia. lra.
Qed.

Section Leibniz.
Variables (CKw : list (list R)) (d : nat).
Definition wd (i : nat) : R := vlast Rops (nth i CKw []).
Definition Ad (k c : nat) : R := nth c (removelast (nth k CKw [])) 0.
Notation w0 := (wd 0).
Notation bc k i := (binomial_coefficient Rops k i).

Definition rc_row (CK : list (list R)) (k : nat) : list R :=
  map (fun t => t / w0)
      (fold_left (fun v i => vsub_scaled Rops (bc k i * wd i) v (nth (k - i) CK [])) (seq 1 k) (removelast (nth k CKw []))).

Lemma rat_curve_derivs_fold order :
  rat_curve_derivs Rops CKw order = fold_left (fun CK k => CK ++ [rc_row CK k]) (seq 0 (S order)) [].
Proof. reflexivity. Qed.

(* invariant of the outer loop *)
Definition Inv (n : nat) (CK : list (list R)) : Prop :=
  length CK = n /\ (forall j, (j < n)%nat -> length (nth j CK []) = d) /\
  forall j c, (j < n)%nat -> (c < d)%nat ->
    nth c (nth j CK []) 0 = (Ad j c - lsum (seq 1 j) (fun i => bc j i * wd i * nth c (nth (j - i) CK []) 0)) / w0.

Lemma removelast_length {A} (l : list A) : length (removelast l) = (length l - 1)%nat.
Proof. induction l as [|a [|b l] IH]; simpl in *; auto. rewrite IH. lia. Qed.

Lemma Inv_step n CK : (length (nth n CKw []) = S d) -> Inv n CK -> Inv (S n) (CK ++ [rc_row CK n]).
Proof.
  intros HL [L [HLen HEq]].
  assert (Hrow : length (rc_row CK n) = d /\ forall c, (c < d)%nat ->
     nth c (rc_row CK n) 0 = (Ad n c - lsum (seq 1 n) (fun i => bc n i * wd i * nth c (nth (n - i) CK []) 0)) / w0).
  { unfold rc_row. rewrite map_length.
    assert (H0 : length (removelast (nth n CKw [])) = d) by (rewrite removelast_length; lia).
    assert (HD : forall i, In i (seq 1 n) -> length (nth (n - i) CK []) = d).
    { intros i Hi. apply in_seq in Hi. apply HLen. lia. }
    split.
    - destruct d as [|d']; [|apply (inner_fold_spec (S d') 0 _ _ ltac:(lia) _ _ H0 HD)].
      (* d = 0: every vector is empty *)
      clear - H0 HD. revert H0. generalize (removelast (nth n CKw [])). generalize (seq 1 n) at 1 as l0. intros l0.
      induction l0 as [|a l0 IH]; intros v Hv; cbn [fold_left]; [exact Hv|]. apply IH. rewrite vsub_scaled_length. lia.
    - intros c Hc. destruct (inner_fold_spec d c (fun i => bc n i * wd i) (fun i => nth (n - i) CK []) Hc _ _ H0 HD) as [L2 E2].
      rewrite (nth_map_in _ _ _ _ 0) by lia. rewrite E2. unfold Ad. reflexivity. }
  destruct Hrow as [Hr1 Hr2].
  split; [rewrite app_length; simpl; lia|]. split.
  - intros j Hj. destruct (Nat.eq_dec j n) as [->|Hne].
    + rewrite app_nth2 by lia. rewrite L, Nat.sub_diag. exact Hr1.
    + rewrite app_nth1 by lia. apply HLen. lia.
  - intros j c Hj Hc. destruct (Nat.eq_dec j n) as [->|Hne].
    + rewrite app_nth2 by lia. rewrite L, Nat.sub_diag. cbn [nth]. rewrite Hr2 by exact Hc.
      f_equal. f_equal. apply lsum_ext. intros i Hi. apply in_seq in Hi. rewrite app_nth1 by lia. reflexivity.
    + rewrite app_nth1 by lia. rewrite HEq by (try lia; exact Hc).
      f_equal. f_equal. apply lsum_ext. intros i Hi. apply in_seq in Hi. rewrite app_nth1 by lia. reflexivity.
Qed.

Lemma Inv_fold : forall m n CK, (forall k, (n <= k < n + m)%nat -> length (nth k CKw []) = S d) -> Inv n CK ->
  Inv (n + m) (fold_left (fun CK k => CK ++ [rc_row CK k]) (seq n m) CK).
Proof.
  induction m as [|m IH]; intros n CK HL HI; cbn [seq fold_left].
  - replace (n + 0)%nat with n by lia. exact HI.
  - replace (n + S m)%nat with (S n + m)%nat by lia. apply IH.
    + intros k Hk. apply HL. lia.
    + apply Inv_step; [apply HL; lia|exact HI].
Qed.

(* A4.2's output C satisfies  sum_{i=0..k} C(k,i) w^(i) C^(k-i) = A^(k)  coordinate-wise, for every k <= order *)
Theorem rat_curve_derivs_leibniz order :
  (forall k, (k <= order)%nat -> length (nth k CKw []) = S d) -> w0 <> 0 ->
  let CK := rat_curve_derivs Rops CKw order in
  length CK = S order /\
  forall k c, (k <= order)%nat -> (c < d)%nat ->
    lsum (seq 0 (S k)) (fun i => INR (binom k i) * wd i * nth c (nth (k - i) CK []) 0) = Ad k c.
Proof.
  intros HL Hw CK.
  assert (HI : Inv (0 + S order) CK).
  { unfold CK. rewrite rat_curve_derivs_fold. apply Inv_fold.
    - intros k Hk. apply HL. lia.
    - split; [reflexivity|]. split; intros; lia. }
  destruct HI as [L [HLen HEq]]. split; [exact L|].
  intros k c Hk Hc. cbn [seq lsum]. rewrite Nat.sub_0_r.
  rewrite (HEq k c) by (try lia; exact Hc).
  replace (INR (binom k 0)) with 1 by (destruct k; reflexivity).
  rewrite (lsum_ext (seq 1 k) (fun i => INR (binom k i) * wd i * nth c (nth (k - i) CK []) 0)
                               (fun i => bc k i * wd i * nth c (nth (k - i) CK []) 0))
    by (intros i _; rewrite binomial_coefficient_INR; reflexivity).
  field. exact Hw.
Qed.
End Leibniz.

(* ---- [G] cross product orthogonal to both factors (3-D, and 2-D inputs padded with 0) ---- *)
Theorem cross_orthogonal_3 a0 a1 a2 b0 b1 b2 :
  vdot Rops (cross Rops [a0; a1; a2] [b0; b1; b2]) [a0; a1; a2] = 0 /\
  vdot Rops (cross Rops [a0; a1; a2] [b0; b1; b2]) [b0; b1; b2] = 0.
Proof. split; cbv -[Rplus Rminus Rmult]; ring. Qed.
Theorem cross_orthogonal_2 a0 a1 b0 b1 :
  vdot Rops (cross Rops [a0; a1] [b0; b1]) [a0; a1; 0] = 0 /\
  vdot Rops (cross Rops [a0; a1] [b0; b1]) [b0; b1; 0] = 0.
Proof. split; cbv -[Rplus Rminus Rmult]; ring. Qed.

(* the surface normal of the model is orthogonal to the two tangents it is built from *)
Theorem normal_orthogonal_to_tangents normalize rational alg2 dim pu pv Uu Uv su sv P u v pt nv :
  normal_surface Rops normalize rational alg2 dim pu pv Uu Uv su sv P u v = Ok (pt, nv) ->
  exists Su Sv, tangent_surface Rops normalize rational alg2 dim pu pv Uu Uv su sv P u v = Ok (pt, Su, Sv) /\ nv = cross Rops Su Sv /\
    (length Su = 3%nat -> length Sv = 3%nat -> vdot Rops nv Su = 0 /\ vdot Rops nv Sv = 0).
Proof.
  unfold normal_surface, tangent_surface.
  destruct (Surface_derivatives Rops normalize rational alg2 dim pu pv Uu Uv su sv P u v 1) as [skl| |]; cbn [res_map]; try discriminate.
  intros E. injection E as <- <-. exists (get3 skl 1 0), (get3 skl 0 1). split; [reflexivity|]. split; [reflexivity|].
  intros H1 H2. destruct (get3 skl 1 0) as [|a0 [|a1 [|a2 [|]]]]; try discriminate.
  destruct (get3 skl 0 1) as [|b0 [|b1 [|b2 [|]]]]; try discriminate. apply cross_orthogonal_3.
Qed.

(* ---- [G over R] the normalised vector v / sqrt(v.v) has unit length ---- *)
Lemma vdot_scale (s : R) : forall v, vdot Rops (map (fun x => x / s) v) (map (fun x => x / s) v) = vdot Rops v v / (s * s).
Proof.
  intros v. unfold vdot. induction v as [|a v IH]; cbn [map combine sumT]; rsimp.
  - unfold Rdiv. lra.
  - cbn [fst snd]. unfold vdot in IH. cbn [map combine] in IH. rewrite IH. unfold Rdiv.
    destruct (Req_dec s 0) as [->|Hs]; [rewrite Rmult_0_l, Rinv_0; lra|]. field. exact Hs.
Qed.
Theorem unit_vector_has_norm_1 v : 0 < vdot Rops v v ->
  vdot Rops (map (fun x => x / sqrt (vdot Rops v v)) v) (map (fun x => x / sqrt (vdot Rops v v)) v) = 1.
Proof.
  intros H. rewrite vdot_scale. rewrite sqrt_sqrt by lra. field. lra.
Qed.
