(* Tie: generated utilities.evaluate_bounding_box (Gen/Utilities.v) = Model/Hull.v bbox, for every scalar instance.
   float('inf') / float('-inf') have no counterpart in T: they are the parameters py_inf / py_ninf of the generated
   function, and the theorem holds for EVERY pair of scalars that compare strictly above / below the coordinates of the
   first point (which is all the source uses of them). *)
From Coq Require Import List ZArith Arith Bool Lia QArith.
From NV Require Import Scalar.Ops Model.Common Model.Hull Gen.Prelude Gen.PreludeExt Gen.Utilities Proofs.GenTieLib Proofs.GenTieLib2.
Import ListNotations.
Local Open Scope nat_scope.

Section Tie.
Context {T : Type} (K : ops T).

(* one pass  for i, arr in enumerate(zip(cpt, bb)): if tst arr[0] arr[1]: bb[i] = arr[0] *)
Lemma bb_pass (tst : T -> T -> bool) : forall (cpt rest done : list T),
  gfor (combine (map Z.of_nat (seq (length done) (length (combine cpt rest)))) (combine cpt rest))
    (fun '(i, arr) bb =>
       do bb <- (if tst (fst arr) (snd arr) then do bb <- zset bb i (fst arr) ;; GOk bb else GOk bb) ;; GOk bb)
    (done ++ rest)
  = GOk (done ++ bb_update tst cpt rest).
Proof.
  induction cpt as [|x c IH]; intros rest done; [reflexivity|].
  destruct rest as [|m b]; [reflexivity|].
  cbn [combine length seq map gfor fst snd bb_update].
  assert (E : (if tst x m then do bb <- zset (done ++ m :: b) (Z.of_nat (length done)) x ;; GOk bb else GOk (done ++ m :: b))
              = GOk ((done ++ [if tst x m then x else m]) ++ b)).
  { destruct (tst x m).
    - rewrite zset_nat by (rewrite app_length; simpl; lia). cbn [gbind]. f_equal.
      rewrite <- app_assoc. clear. induction done; simpl; [reflexivity|]. now rewrite IHdone.
    - now rewrite <- app_assoc. }
  rewrite E. cbn [gbind].
  replace (S (length done)) with (length (done ++ [if tst x m then x else m])) by (rewrite app_length; simpl; lia).
  rewrite IH. now rewrite <- app_assoc.
Qed.

Lemma bb_pass0 (tst : T -> T -> bool) (cpt bb : list T) :
  gfor (combine (zrange 0 (zlen (combine cpt bb)) 1) (combine cpt bb))
    (fun '(i, arr) bb =>
       do bb <- (if tst (fst arr) (snd arr) then do bb <- zset bb i (fst arr) ;; GOk bb else GOk bb) ;; GOk bb) bb
  = GOk (bb_update tst cpt bb).
Proof. unfold zlen. rewrite zrange_0_nat. exact (bb_pass tst cpt bb []). Qed.

Lemma bb_first (tst : T -> T -> bool) (inf : T) (p0 : list T) :
  (forall x, In x p0 -> tst x inf = true) -> bb_update tst p0 (repeat inf (length p0)) = p0.
Proof.
  induction p0 as [|x r IH]; intros H; [reflexivity|].
  cbn [length repeat bb_update]. rewrite H by now left. f_equal. apply IH. intros y Hy. apply H. now right.
Qed.

(* wf: none for the list of points (IndexError <-> Crash for the empty list); py_inf / py_ninf compare strictly above /
   below every coordinate of the first point *)
Theorem evaluate_bounding_box_tie (pts : list (list T)) (pinf ninf : T) :
  (forall x, In x (hd [] pts) -> oltb K x pinf = true /\ oltb K ninf x = true) ->
  Utilities.evaluate_bounding_box K pts pinf ninf = res_to_gres (fun x => x) ValueError IndexError (Hull.bbox K pts).
Proof.
  intros Hinf. unfold Utilities.evaluate_bounding_box, Hull.bbox.
  destruct pts as [|p0 r]; [reflexivity|]. rewrite znth_0. cbn [gbind res_to_gres hd] in *.
  rewrite !map_const_zrange. unfold zlen. rewrite Nat2Z.id.
  assert (Hloop : forall (l : list (list T)) (bmin bmax : list T),
    gfor l (fun cpt '(bbmin, bbmax) =>
      do bbmin <- gfor (combine (zrange 0 (Z.of_nat (length (combine cpt bbmin))) 1) (combine cpt bbmin))
         (fun '(i, arr) bbmin => do bbmin <- (if oltb K (fst arr) (snd arr) then do bbmin <- zset bbmin i (fst arr) ;; GOk bbmin else GOk bbmin) ;; GOk bbmin) bbmin ;;
      do bbmax <- gfor (combine (zrange 0 (Z.of_nat (length (combine cpt bbmax))) 1) (combine cpt bbmax))
         (fun '(i, arr) bbmax => do bbmax <- (if oltb K (snd arr) (fst arr) then do bbmax <- zset bbmax i (fst arr) ;; GOk bbmax else GOk bbmax) ;; GOk bbmax) bbmax ;;
      GOk (bbmin, bbmax)) (bmin, bmax)
    = GOk (fold_left (fun bb c => bb_update (oltb K) c bb) l bmin,
           fold_left (fun bb c => bb_update (fun a b => oltb K b a) c bb) l bmax)).
  { induction l as [|c l IH]; intros bmin bmax; [reflexivity|].
    cbn [gfor fold_left].
    assert (E1 := bb_pass0 (oltb K) c bmin). assert (E2 := bb_pass0 (fun a b => oltb K b a) c bmax).
    unfold zlen in E1, E2. cbn beta in E2. rewrite E1. cbn [gbind]. rewrite E2. cbn [gbind]. apply IH. }
  rewrite Hloop. cbn [gbind fold_left].
  rewrite (bb_first (oltb K) pinf p0) by (intros x Hx; apply Hinf, Hx).
  rewrite (bb_first (fun a b => oltb K b a) ninf p0) by (intros x Hx; apply Hinf, Hx).
  reflexivity.
Qed.
End Tie.

Definition evaluate_bounding_box_tie_R := @evaluate_bounding_box_tie _ Rops.
Definition evaluate_bounding_box_tie_Q := @evaluate_bounding_box_tie _ Qops.

(* ---- non-vacuity ---- *)
Local Open Scope Q_scope.
Example bbox_ex :
  Utilities.evaluate_bounding_box Qops [[1; 5; 2]; [0; 7; 2]; [3; 6; -1]] 1000 (-1000) = GOk ([0; 5; -1], [3; 7; 2])
  /\ Hull.bbox Qops [[1; 5; 2]; [0; 7; 2]; [3; 6; -1]] = Ok ([0; 5; -1], [3; 7; 2])
  /\ Utilities.evaluate_bounding_box Qops [] 1000 (-1000) = GErr IndexError /\ Hull.bbox Qops [] = Crash.
Proof. repeat split; vm_compute; reflexivity. Qed.
