(* Theorems about Model.Basis at the real-number instance: partition of unity, non-negativity,
   A2.2 = Cox-de Boor, span search specification. *)
From Coq Require Import List QArith Reals Qreals Lra Lia Arith Bool.
From NV Require Import Scalar.Ops Model.Common Model.Basis Proofs.Boehm Proofs.BfN.
Import ListNotations.
Open Scope R_scope.

Notation knR := (kn Rops).
Definition sortedR (U : list R) : Prop := forall i j, (i <= j < length U)%nat -> knR U i <= knR U j.

(* the knot sequence as a total function, constant after the last knot: sorted whenever the list is *)
Definition Ufun (U : list R) (i : nat) : R := nth i U (last U 0).

Lemma Ufun_in U i : (i < length U)%nat -> Ufun U i = knR U i.
Proof. intros H. unfold Ufun, kn. apply nth_indep. exact H. Qed.

Lemma last_nth (U : list R) d : U <> [] -> last U d = nth (length U - 1) U d.
Proof.
  induction U as [|a U IH]; intros H; [congruence|].
  destruct U as [|b U']; [reflexivity|].
  change (last (a :: b :: U') d) with (last (b :: U') d). rewrite IH by congruence.
  cbn [length]. replace (S (S (length U')) - 1)%nat with (S (S (length U') - 1)) by lia. reflexivity.
Qed.

Lemma Ufun_out U i : (length U <= i)%nat -> U <> [] -> Ufun U i = knR U (length U - 1).
Proof.
  intros H Hne. unfold Ufun. rewrite nth_overflow by exact H. rewrite (last_nth U 0 Hne). reflexivity.
Qed.

Lemma Ufun_sorted U : sortedR U -> forall i, Ufun U i <= Ufun U (S i).
Proof.
  intros Hs i. destruct U as [|a U']; [unfold Ufun; destruct i; simpl; lra|].
  set (L := a :: U') in *. assert (Hne : L <> []) by (unfold L; congruence).
  assert (HL : (0 < length L)%nat) by (unfold L; simpl; lia).
  destruct (lt_dec (S i) (length L)) as [H|H].
  - rewrite !Ufun_in by lia. apply Hs. lia.
  - destruct (lt_dec i (length L)) as [H2|H2].
    + rewrite Ufun_in by lia. rewrite Ufun_out by (try lia; assumption). apply Hs. lia.
    + rewrite !Ufun_out by (try lia; assumption). lra.
Qed.

Section B.
Variables (U : list R) (u : R) (span : nat).
Hypothesis Usorted : sortedR U.
Hypothesis Hspan : knR U span <= u < knR U (span + 1).

Lemma denom_pos j r : (r < j)%nat -> (j <= span)%nat -> (span + j < length U)%nat ->
  0 < Basis.right Rops U span u (S r) + Basis.left Rops U span u (j-r).
Proof.
  intros Hr Hj HL. unfold Basis.left, Basis.right. rsimp.
  assert (knR U (span + 1 - (j - r)) <= knR U span) by (apply Usorted; lia).
  assert (knR U (span + 1) <= knR U (span + S r)) by (apply Usorted; lia).
  lra.
Qed.

Lemma right_pos r : (span + S r < length U)%nat -> 0 < Basis.right Rops U span u (S r).
Proof. intros. unfold Basis.right. rsimp. assert (knR U (span + 1) <= knR U (span + S r)) by (apply Usorted; lia). lra. Qed.
Lemma left_nonneg j : (1 <= j)%nat -> (span + 1 < length U)%nat -> 0 <= Basis.left Rops U span u j.
Proof. intros. unfold Basis.left. rsimp. assert (knR U (span + 1 - j) <= knR U span) by (apply Usorted; lia). lra. Qed.

Lemma inner_sum j : (j <= span)%nat -> (span + j < length U)%nat -> forall Nold r saved, (r + length Nold = j)%nat ->
  sumT Rops (Basis.inner Rops U span u j r Nold saved) = saved + sumT Rops Nold.
Proof.
  intros Hj HL. induction Nold as [|x rest IH]; intros r saved Hlen'; cbn [Basis.inner sumT]; rsimp.
  - lra.
  - rewrite IH by (simpl in Hlen'; lia).
    assert (0 < Basis.right Rops U span u (S r) + Basis.left Rops U span u (j-r)) by (apply denom_pos; simpl in Hlen'; lia).
    field. lra.
Qed.

Lemma inner_length j : forall l r s, length (Basis.inner Rops U span u j r l s) = S (length l).
Proof. induction l; simpl; intros; auto. Qed.
Lemma bf_length p : length (basis_function Rops p U span u) = S p.
Proof. induction p; simpl; auto. rewrite inner_length, IHp. reflexivity. Qed.

Theorem bf_partition_unity p : (p <= span)%nat -> (span + p < length U)%nat -> sumT Rops (basis_function Rops p U span u) = 1.
Proof.
  induction p; intros Hp HL; cbn [basis_function].
  - cbn. lra.
  - rewrite inner_sum; try lia. rewrite IHp; try lia. rsimp. lra. rewrite bf_length. lia.
Qed.

Lemma inner_nonneg j : (1 <= j <= span)%nat -> (span + j < length U)%nat -> forall Nold r saved, (r + length Nold = j)%nat ->
  0 <= saved -> Forall (fun x => 0 <= x) Nold -> Forall (fun x => 0 <= x) (Basis.inner Rops U span u j r Nold saved).
Proof.
  intros Hj HL. induction Nold as [|x rest IH]; intros r saved Hlen Hs HN; cbn [Basis.inner].
  - constructor; auto.
  - cbn [length] in Hlen. apply Forall_cons_iff in HN; destruct HN as [Hx Hrest].
    assert (Hd : 0 < Basis.right Rops U span u (S r) + Basis.left Rops U span u (j-r)) by (apply denom_pos; lia).
    assert (Hr : 0 < Basis.right Rops U span u (S r)) by (apply right_pos; lia).
    assert (Hl : 0 <= Basis.left Rops U span u (j - r)) by (apply left_nonneg; lia).
    rsimp.
    assert (Ht : 0 <= x / (Basis.right Rops U span u (S r) + Basis.left Rops U span u (j - r))).
    { apply Rmult_le_pos; [exact Hx|]. left. apply Rinv_0_lt_compat. exact Hd. }
    constructor.
    + apply Rplus_le_le_0_compat; [exact Hs|]. apply Rmult_le_pos; lra.
    + apply IH; try lia; auto. apply Rmult_le_pos; lra.
Qed.

Theorem bf_nonneg p : (p <= span)%nat -> (span + p < length U)%nat ->
  Forall (fun x => 0 <= x) (basis_function Rops p U span u).
Proof.
  induction p; intros Hp HL; cbn [basis_function].
  - constructor; [rsimp; lra|constructor].
  - apply inner_nonneg; try lia.
    + rewrite bf_length. lia.
    + rsimp. lra.
    + apply IHp; lia.
Qed.

(* ---- the model's scan is the one of BfN on the total knot function ---- *)
Lemma left_Ufun k : (span + 1 < length U)%nat -> Basis.left Rops U span u k = BfN.left (Ufun U) span u k.
Proof. intros. unfold Basis.left, BfN.left. rsimp. rewrite Ufun_in by lia. reflexivity. Qed.
Lemma right_Ufun k : (span + k < length U)%nat -> Basis.right Rops U span u k = BfN.right (Ufun U) span u k.
Proof. intros. unfold Basis.right, BfN.right. rsimp. rewrite Ufun_in by lia. reflexivity. Qed.

Lemma inner_Ufun j : (span + j < length U)%nat -> forall Nold r saved, (r + length Nold = j)%nat ->
  Basis.inner Rops U span u j r Nold saved = BfN.inner (Ufun U) span u j r Nold saved.
Proof.
  intros HL. induction Nold as [|x rest IH]; intros r saved Hlen; cbn [Basis.inner BfN.inner]; [reflexivity|].
  cbn [length] in Hlen. rewrite IH by lia. rewrite left_Ufun by lia. rewrite right_Ufun by lia. rsimp. reflexivity.
Qed.

Lemma bf_Ufun p : (span + p < length U)%nat -> basis_function Rops p U span u = BfN.bf (Ufun U) span u p.
Proof.
  induction p; intros HL; cbn [basis_function BfN.bf]; [reflexivity|].
  rewrite inner_Ufun; try lia. rewrite IHp by lia. reflexivity. rewrite bf_length. lia.
Qed.

(* A2.2 computes the Cox-de Boor functions: r-th entry = N_{span-p+r, p}(u) *)
Theorem bf_is_cox_de_boor_list p : (p <= span)%nat -> (span + p < length U)%nat -> (span + 1 < length U)%nat ->
  forall r, (r <= p)%nat -> nth r (basis_function Rops p U span u) 0 = N (Ufun U) p (span - p + r) u.
Proof.
  intros Hp HL HL1 r Hr. rewrite bf_Ufun by exact HL.
  apply bf_is_cox_de_boor; auto.
  - apply Ufun_sorted. exact Usorted.
  - replace (S span) with (span + 1)%nat by lia. rewrite !Ufun_in by lia. exact Hspan.
Qed.
End B.

(* ---- span search (linear): specification ---- *)
Section Span.
Variables (U : list R) (u : R) (p n : nat).
Hypothesis Usorted : sortedR U.
Hypothesis Hn : (p < n)%nat.
Hypothesis HL : (n < length U)%nat.

Lemma aux_spec fuel : forall span, (span <= n)%nat -> (n - span <= fuel)%nat ->
  (forall i, (i < span)%nat -> (S p <= i)%nat -> knR U i <= u) ->
  let k := find_span_linear_aux Rops fuel U n span u in
  (span <= k <= n)%nat /\ (forall i, (S p <= i < k)%nat -> knR U i <= u) /\ ((k < n)%nat -> u < knR U k).
Proof.
  induction fuel as [|f IH]; intros span Hs Hf Hbelow; cbn [find_span_linear_aux].
  - assert (span = n) by lia. subst. repeat split; try lia. intros i Hi. apply Hbelow; lia.
  - destruct (Nat.ltb_spec span n) as [Hlt|Hge]; cbn [andb].
    + rsimp. unfold Rleb. destruct (Rle_dec (knR U span) u) as [Hle|Hgt].
      * specialize (IH (S span) ltac:(lia) ltac:(lia)).
        destruct IH as [H1 [H2 H3]].
        { intros i Hi Hpi. destruct (Nat.eq_dec i span); [subst; exact Hle|apply Hbelow; lia]. }
        repeat split; try lia; auto.
      * repeat split; try lia. intros i Hi. apply Hbelow; lia. intros _. lra.
    + assert (span = n) by lia. subst. repeat split; try lia. intros i Hi. apply Hbelow; lia.
Qed.

(* for u in the domain [U_p, U_n]: p <= k < n, U_k <= u, and u < U_{k+1} unless k = n-1 (domain end) *)
Theorem find_span_linear_spec : knR U p <= u ->
  let k := find_span_linear Rops p U n u in
  (p <= k < n)%nat /\ knR U k <= u /\ (u < knR U (S k) \/ (k = n - 1)%nat /\ knR U n <= u).
Proof.
  intros Hu. unfold find_span_linear.
  pose proof (aux_spec n (S p) ltac:(lia) ltac:(lia)) as H.
  destruct H as [[H1 H1'] [H2 H3]]. { intros i Hi Hpi. lia. }
  set (k' := find_span_linear_aux Rops n U n (S p) u) in *.
  cbn zeta. repeat split; try lia.
  - destruct (Nat.eq_dec k' (S p)) as [E|E].
    + rewrite E. cbn [Nat.pred]. exact Hu.
    + apply H2. lia.
  - destruct (Nat.eq_dec k' n) as [E|E].
    + destruct (Rlt_dec u (knR U n)) as [Hlt|Hge].
      * left. replace (S (Nat.pred k')) with k' by lia. rewrite E. exact Hlt.
      * right. split; [lia|lra].
    + left. replace (S (Nat.pred k')) with k' by lia. apply H3. lia.
Qed.
End Span.
