(* Eq. 2.10 of The NURBS Book at specification level, all degrees / orders / knot multiplicities:

     N^(k)_{i,p}(u) = p!/(p-k)! * sum_{j=0..k} a_{k,j} N_{i+j,p-k}(u)          (u in a non-empty knot span)

   with  a_{0,0} = 1,  a_{k,0} = a_{k-1,0} / (U_{i+p-k+1} - U_i),
         a_{k,j} = (a_{k-1,j} - a_{k-1,j-1}) / (U_{i+p+j-k+1} - U_{i+j})   (0 < j < k),
         a_{k,k} = - a_{k-1,k-1} / (U_{i+p+1} - U_{i+k}),
   where N^(k) is the algebraic derivative [dN] of Eq. 2.9 (DerivAnalytic.v) and x / 0 = 0 as everywhere.

   Route.  Eq. 2.9 differentiates "outside-in" (lower the degree first), Eq. 2.10 "inside-out" (differentiate the
   degree-(p-k+1) functions of the previous expansion term by term with Eq. 2.7).  That the two agree is not a formal
   identity of the recursions; it is proved here analytically on the polynomial pieces [Nk]/[dNk] of DerivAnalytic.v:
   [dNk (S k)] is the derivative of [dNk k] (dNk_deriv), [dNk k] is by induction a constant linear combination of the
   pieces [Nk (p-k)], whose derivatives are [dNk 1 (p-k)] (again dNk_deriv); uniqueness of the derivative and an Abel
   summation give the step.  No case analysis on vanishing denominators is needed.  The result is transferred to
   N / dN on the half-open span with Nk_eq_N / dN_eq_dNk.

   Also: support of dN / dNk and the telescoping sums  sum_{i=s-p..s} dN k p i u = 0  (u in the span) and
   sum_{i=s-p..s} dNk k p i x = 0  (every x)  for k >= 1 (rows of derivatives of the non-vanishing basis functions
   sum to zero). *)
From Coq Require Import Reals Lra Lia Arith Bool.
From NV Require Import Proofs.Boehm Proofs.DerivAnalytic.
Open Scope R_scope.

(* ------------------------------------------------------------------------------------------------ *)
(* finite sums (sumf of Boehm.v: sumf f n = f 0 + ... + f (n-1))                                      *)
Lemma sumf_scal c (g : nat -> R) n : sumf (fun j => c * g j) n = c * sumf g n.
Proof. induction n as [|n IH]; cbn [sumf]; [ring|]. rewrite IH. ring. Qed.

Lemma sumf_zero (g : nat -> R) n : (forall j, (j < n)%nat -> g j = 0) -> sumf g n = 0.
Proof.
  intros H. induction n as [|n IH]; cbn [sumf]; [reflexivity|].
  rewrite IH by (intros; apply H; lia). rewrite H by lia. ring.
Qed.

(* Abel summation / reindexing used in the induction step *)
Lemma sumf_abel (a f : nat -> R) n :
  sumf (fun j => (a j - match j with O => 0 | S j' => a j' end) * f j) (S n)
  = sumf (fun j => a j * (f j - f (S j))) n + a n * f n.
Proof.
  induction n as [|n IH].
  - cbn [sumf]. ring.
  - change (sumf (fun j => (a j - match j with O => 0 | S j' => a j' end) * f j) (S (S n)))
      with (sumf (fun j => (a j - match j with O => 0 | S j' => a j' end) * f j) (S n)
            + (a (S n) - a n) * f (S n)).
    rewrite IH. cbn [sumf]. ring.
Qed.

(* shifted sums *)
Definition rsum (f : nat -> R) (a n : nat) : R := sumf (fun t => f (a + t)%nat) n.

Lemma rsum_0 f a : rsum f a 0 = 0.
Proof. reflexivity. Qed.
Lemma rsum_S f a n : rsum f a (S n) = rsum f a n + f (a + n)%nat.
Proof. reflexivity. Qed.
Lemma rsum_zero f a n : (forall j, (a <= j < a + n)%nat -> f j = 0) -> rsum f a n = 0.
Proof. intros H. apply sumf_zero. intros j Hj. apply H. lia. Qed.
Lemma rsum_app f a n m : rsum f a (n + m) = rsum f a n + rsum f (a + n) m.
Proof.
  induction m as [|m IH].
  - rewrite Nat.add_0_r, rsum_0. ring.
  - replace (n + S m)%nat with (S (n + m)) by lia. rewrite !rsum_S, IH.
    replace (a + (n + m))%nat with (a + n + m)%nat by lia. ring.
Qed.
(* zero terms at both ends can be dropped *)
Lemma rsum_sub f a n b m :
  (a <= b)%nat -> (b + m <= a + n)%nat ->
  (forall j, (a <= j < b)%nat -> f j = 0) -> (forall j, (b + m <= j < a + n)%nat -> f j = 0) ->
  rsum f a n = rsum f b m.
Proof.
  intros H1 H2 Z1 Z2.
  replace n with ((b - a) + (m + (a + n - (b + m))))%nat by lia.
  rewrite !rsum_app. replace (a + (b - a))%nat with b by lia.
  rewrite (rsum_zero f a) by (intros; apply Z1; lia).
  rewrite (rsum_zero f (b + m)) by (intros; apply Z2; lia). ring.
Qed.
Lemma sumf_S_rsum f n : sumf f (S n) = f 0%nat + rsum f 1 n.
Proof.
  induction n as [|n IH]; [cbn [sumf]; rewrite rsum_0; ring|].
  change (sumf f (S (S n))) with (sumf f (S n) + f (S n)). rewrite IH, rsum_S.
  replace (1 + n)%nat with (S n) by lia. ring.
Qed.
(* first + middle + last *)
Lemma sumf_SS_rsum f n : sumf f (S (S n)) = f 0%nat + rsum f 1 n + f (S n).
Proof. change (sumf f (S (S n))) with (sumf f (S n) + f (S n)). rewrite sumf_S_rsum. ring. Qed.

(* ------------------------------------------------------------------------------------------------ *)
(* the constant p!/(p-k)! = p (p-1) ... (p-k+1)                                                       *)
Fixpoint ff (p k : nat) : R := match k with O => 1 | S k' => ff p k' * INR (p - k') end.

Lemma ff_0 p : ff p 0 = 1. Proof. reflexivity. Qed.
Lemma ff_S p k : ff p (S k) = ff p k * INR (p - k). Proof. reflexivity. Qed.
Lemma ff_fact p k : (k <= p)%nat -> ff p k * INR (fact (p - k)) = INR (fact p).
Proof.
  induction k as [|k IH]; intros Hk.
  - rewrite ff_0, Nat.sub_0_r. ring.
  - rewrite ff_S, <- IH by lia. replace (p - k)%nat with (S (p - S k)) by lia.
    change (fact (S (p - S k))) with (S (p - S k) * fact (p - S k))%nat. rewrite mult_INR. ring.
Qed.

Section Eq210.
Variable U : nat -> R.

(* the coefficients a_{k,j} of Eq. 2.10 for the function N_{i,p}; a_{k,j} = 0 for j > k *)
Fixpoint acoef (p i k j : nat) : R :=
  match k with
  | O => if (j =? 0)%nat then 1 else 0
  | S k' => (acoef p i k' j - match j with O => 0 | S j' => acoef p i k' j' end)
            / (U (i + j + (p - S k') + 1) - U (i + j))
  end.

Lemma acoef_0 p i j : acoef p i 0 j = if (j =? 0)%nat then 1 else 0.
Proof. reflexivity. Qed.
Lemma acoef_S p i k j :
  acoef p i (S k) j = (acoef p i k j - match j with O => 0 | S j' => acoef p i k j' end)
                      / (U (i + j + (p - S k) + 1) - U (i + j)).
Proof. reflexivity. Qed.

Lemma acoef_above p i k : forall j, (k < j)%nat -> acoef p i k j = 0.
Proof.
  induction k as [|k IH]; intros j Hj.
  - rewrite acoef_0. destruct (Nat.eqb_spec j 0); [lia|reflexivity].
  - rewrite acoef_S. destruct j as [|j']; [lia|].
    rewrite (IH (S j')), (IH j') by lia. unfold Rdiv. ring.
Qed.

(* the three cases of the book *)
Lemma acoef_first p i k :
  acoef p i (S k) 0 = acoef p i k 0 / (U (i + (p - S k) + 1) - U i).
Proof. rewrite acoef_S, Rminus_0_r, Nat.add_0_r. reflexivity. Qed.
Lemma acoef_mid p i k j :
  acoef p i (S k) (S j) = (acoef p i k (S j) - acoef p i k j) / (U (i + S j + (p - S k) + 1) - U (i + S j)).
Proof. reflexivity. Qed.
Lemma acoef_last p i k : (S k <= p)%nat ->
  acoef p i (S k) (S k) = - acoef p i k k / (U (i + p + 1) - U (i + S k)).
Proof.
  intros Hk. rewrite acoef_mid, (acoef_above p i k (S k)) by lia.
  replace (i + S k + (p - S k) + 1)%nat with (i + p + 1)%nat by lia. unfold Rdiv. ring.
Qed.

Hypothesis Usorted : forall i, U i <= U (S i).

Let Um i j : (i <= j)%nat -> U i <= U j.
Proof. apply U_mono; exact Usorted. Qed.

(* ---------------------------------------------------------------------------------------------- *)
(* Eq. 2.10 on the polynomial pieces of span s, for every x                                         *)
Section Pieces.
Variable s : nat.
Notation Nks := (Nk U s).
Notation dNks := (dNk U s).

Lemma dNk1_S q m x :
  dNks 1 (S q) m x = INR (S q) * (Nks q m x / (U (m + S q) - U m) - Nks q (S m) x / (U (m + S q + 1) - U (S m))).
Proof. reflexivity. Qed.
Lemma dNk1_0 m x : dNks 1 0 m x = 0.
Proof. reflexivity. Qed.

(* the derivative of a fixed linear combination of pieces *)
Lemma lincomb_deriv (c : R) (a : nat -> R) (q i n : nat) x :
  derivable_pt_lim (fun y => c * sumf (fun j => a j * Nks q (i + j) y) n) x
                   (c * sumf (fun j => a j * dNks 1 q (i + j) x) n).
Proof.
  apply dl_scal.
  apply (dl_ext (fun y => sumf (fun j => dNks 0 q (i + j) y * a j) n)).
  { intros y. apply sumf_ext. intros j _. cbn [dNk]. ring. }
  apply dl_eq with (sumf (fun j => dNks 1 q (i + j) x * a j) n).
  { apply sumf_ext. intros j _. ring. }
  apply (sumf_deriv (fun j y => dNks 0 q (i + j) y) (fun j y => dNks 1 q (i + j) y)).
  intros j. apply dNk_deriv. exact Usorted.
Qed.

Theorem eq_2_10_pieces k : forall p i x,
  dNks k p i x = ff p k * sumf (fun j => acoef p i k j * Nks (p - k) (i + j) x) (S k).
Proof.
  induction k as [|k IH]; intros p i x.
  - cbn [sumf ff dNk]. rewrite acoef_0. cbn [Nat.eqb]. rewrite Nat.sub_0_r, Nat.add_0_r. ring.
  - (* both sides are the derivative at x of dNk k p i *)
    assert (D1 : derivable_pt_lim (dNks k p i) x (dNks (S k) p i x)) by (apply dNk_deriv; exact Usorted).
    assert (D2 : derivable_pt_lim (dNks k p i) x
                   (ff p k * sumf (fun j => acoef p i k j * dNks 1 (p - k) (i + j) x) (S k))).
    { apply (dl_ext (fun y => ff p k * sumf (fun j => acoef p i k j * Nks (p - k) (i + j) y) (S k))).
      - intros y. symmetry. apply IH.
      - apply lincomb_deriv. }
    rewrite (uniqueness_limite _ _ _ _ D1 D2). clear D1 D2 IH.
    rewrite ff_S.
    destruct (p - k)%nat as [|q] eqn:Epk.
    + (* k >= p : both sides vanish *)
      rewrite (sumf_zero (fun j => acoef p i k j * dNks 1 0 (i + j) x)) by (intros; rewrite dNk1_0; ring).
      cbn [INR]. ring.
    + replace (p - S k)%nat with q by lia.
      set (f := fun j => Nks q (i + j) x / (U (i + j + q + 1) - U (i + j))).
      set (a := acoef p i k).
      rewrite (sumf_ext _ (fun j => INR (S q) * (a j * (f j - f (S j))))).
      2:{ intros j _. rewrite dNk1_S. unfold f, a.
          replace (i + j + S q)%nat with (i + j + q + 1)%nat by lia.
          replace (i + j + q + 1 + 1)%nat with (i + S j + q + 1)%nat by lia.
          replace (S (i + j)) with (i + S j)%nat by lia. ring. }
      rewrite sumf_scal.
      rewrite (sumf_ext (fun j => acoef p i (S k) j * Nks q (i + j) x)
                        (fun j => (a j - match j with O => 0 | S j' => a j' end) * f j)).
      2:{ intros j _. rewrite acoef_S. replace (p - S k)%nat with q by lia. unfold f, a, Rdiv. ring. }
      rewrite sumf_abel. unfold a at 3. rewrite (acoef_above p i k (S k)) by lia. ring.
Qed.

(* support of the piece derivatives; rows of piece derivatives sum to zero, for every x *)
Lemma dNk_support k : forall p i x, (s < i \/ i + p < s)%nat -> dNks k p i x = 0.
Proof.
  induction k as [|k IH]; intros p i x H.
  - cbn [dNk]. apply Nk_support. exact H.
  - destruct p as [|q]; [reflexivity|]. rewrite dNk_SS.
    rewrite (IH q i x), (IH q (S i) x) by lia. unfold Rdiv. ring.
Qed.

Lemma sumf_telescope (g : nat -> R) n : sumf (fun r => g r - g (S r)) n = g 0%nat - g n.
Proof. induction n as [|n IH]; cbn [sumf]; [ring|]. rewrite IH. ring. Qed.

Theorem dNk_row_sum_zero k p x :
  (p <= s)%nat -> (1 <= k)%nat -> sumf (fun r => dNks k p (s - p + r) x) (S p) = 0.
Proof.
  intros Hp Hk. destruct k as [|k]; [lia|]. destruct p as [|q].
  - cbn [sumf dNk]. ring.
  - set (g := fun r => dNks k q (s - S q + r) x / (U (s - S q + r + S q) - U (s - S q + r))).
    rewrite (sumf_ext _ (fun r => INR (S q) * (g r - g (S r)))).
    2:{ intros r _. rewrite dNk_SS. unfold g.
        replace (s - S q + S r)%nat with (S (s - S q + r)) by lia.
        replace (S (s - S q + r) + S q)%nat with (s - S q + r + S q + 1)%nat by lia. reflexivity. }
    rewrite sumf_scal, sumf_telescope. unfold g.
    rewrite (dNk_support k q (s - S q + 0)) by lia.
    rewrite (dNk_support k q (s - S q + S (S q))) by lia.
    unfold Rdiv. ring.
Qed.
End Pieces.

(* ---------------------------------------------------------------------------------------------- *)
(* Eq. 2.10 for the Cox-de Boor functions on a half-open span                                       *)
Theorem eq_2_10 s k p i u :
  U s <= u < U (S s) ->
  dN U k p i u = ff p k * sumf (fun j => acoef p i k j * N U (p - k) (i + j) u) (S k).
Proof.
  intros Hu. rewrite (dN_eq_dNk U Usorted s) by exact Hu. rewrite eq_2_10_pieces.
  f_equal. apply sumf_ext. intros j _. rewrite (Nk_eq_N U Usorted s) by exact Hu. reflexivity.
Qed.

(* ---------------------------------------------------------------------------------------------- *)
(* support of the algebraic derivatives; rows of derivatives sum to zero                            *)
Lemma dN_support k : forall p i u, (u < U i \/ U (i + p + 1) <= u) -> dN U k p i u = 0.
Proof.
  induction k as [|k IH]; intros p i u H.
  - cbn [dN]. apply N_support; assumption.
  - destruct p as [|q]; [reflexivity|]. rewrite dN_SS.
    rewrite (IH q i u), (IH q (S i) u).
    + unfold Rdiv. ring.
    + destruct H as [H|H]; [left|right].
      * pose proof (Usorted i). lra.
      * replace (S i + q + 1)%nat with (i + S q + 1)%nat by lia. exact H.
    + destruct H as [H|H]; [left; exact H|right].
      pose proof (Um (i + q + 1) (i + S q + 1) ltac:(lia)). lra.
Qed.

(* N vanishes on span s unless s - q <= m <= s *)
Lemma N_off_span s q m u : U s <= u < U (S s) -> (m + q + 1 <= s \/ s < m)%nat -> N U q m u = 0.
Proof.
  intros Hu [H|H]; apply N_support; try assumption.
  - right. pose proof (Um (m + q + 1) s H). lra.
  - left. pose proof (Um (S s) m H). lra.
Qed.
Lemma dN_off_span s k q m u : U s <= u < U (S s) -> (m + q + 1 <= s \/ s < m)%nat -> dN U k q m u = 0.
Proof.
  intros Hu [H|H]; apply dN_support.
  - right. pose proof (Um (m + q + 1) s H). lra.
  - left. pose proof (Um (S s) m H). lra.
Qed.

Theorem dN_row_sum_zero s k p u :
  U s <= u < U (S s) -> (p <= s)%nat -> (1 <= k)%nat ->
  sumf (fun r => dN U k p (s - p + r) u) (S p) = 0.
Proof.
  intros Hu Hp Hk. destruct k as [|k]; [lia|]. destruct p as [|q].
  - cbn [sumf dN]. ring.
  - set (g := fun r => dN U k q (s - S q + r) u / (U (s - S q + r + S q) - U (s - S q + r))).
    rewrite (sumf_ext _ (fun r => INR (S q) * (g r - g (S r)))).
    2:{ intros r _. rewrite dN_SS. unfold g.
        replace (s - S q + S r)%nat with (S (s - S q + r)) by lia.
        replace (S (s - S q + r) + S q)%nat with (s - S q + r + S q + 1)%nat by lia. reflexivity. }
    rewrite sumf_scal, sumf_telescope. unfold g.
    rewrite (dN_off_span s k q (s - S q + 0)) by (try assumption; left; lia).
    rewrite (dN_off_span s k q (s - S q + S (S q))) by (try assumption; right; lia).
    unfold Rdiv. ring.
Qed.
End Eq210.

Print Assumptions eq_2_10_pieces.
Print Assumptions dNk_row_sum_zero.
Print Assumptions eq_2_10.
Print Assumptions dN_row_sum_zero.
