(* C07: non-vacuity of the hypotheses of Proofs/SplitCoincide.v, SplitCount.v, SplitSurf.v on concrete real inputs
   (exact knot comparison, tol = 0): a cubic with a simple interior knot 1/4 and a double interior knot 1/2;
   a (2,1)-degree surface with an interior u-knot. *)
From Coq Require Import List Reals Lra Lia Arith Bool ZArith.
From NV Require Import Scalar.Ops Model.Common Model.Basis Model.Knots Model.KnotIns Model.InsertKnot Model.Split
  Proofs.Boehm Proofs.BasisR Proofs.KnotsR Proofs.KnotInsR Proofs.InsertKnotR Proofs.InsertDirR
  Proofs.SplitR Proofs.SplitBezier Proofs.SplitLocal Proofs.SplitCoincide Proofs.SplitCount Proofs.SplitSurf.
Import ListNotations.
Open Scope R_scope.

Lemma sortedR_adjacent (U : list R) : (forall i, (S i < length U)%nat -> knR U i <= knR U (S i)) -> sortedR U.
Proof.
  intros H i j [Hij HL]. revert HL. induction Hij as [|j' Hle IH]; intros HL; [lra|].
  assert (knR U i <= knR U j') by (apply IH; lia). specialize (H j' HL). lra.
Qed.

Lemma sep0 (t u : R) : Rabs (t - u) <= 0 -> u = t.
Proof.
  intros H. destruct (Req_dec (t - u) 0) as [E|E]; [lra|]. pose proof (Rabs_pos_lt _ E). lra.
Qed.

Lemma knots_separated_0 (U : list R) : knots_separated 0 U.
Proof.
  split; [lra|]. intros i j _ _ H. rewrite Rmult_0_l in H. symmetry. apply sep0. exact H.
Qed.

(* ---------------------------------------------------------------- the cubic *)
Definition exU : list R := [0; 0; 0; 0; 1/4; 1/2; 1/2; 1; 1; 1; 1].
Definition exP : list (list R) := [[0;0]; [1;2]; [3;1]; [4;4]; [6;0]; [7;3]; [9;1]].
Definition exR : @curve R := mkC 3 exU exP.

Lemma exU_sorted : sortedR exU.
Proof.
  apply sortedR_adjacent. intros i Hi. cbn [exU length] in Hi. unfold kn, exU.
  do 10 (destruct i as [|i]; [cbn [nth]; lra|]). lia.
Qed.

Lemma exU_mult_half : find_multiplicity Rops 0 (1/2) exU = 2%nat.
Proof.
  rewrite (mult0_run exU (1/2) 5 6 exU_sorted); [reflexivity|lia|cbn; lia| | |].
  - intros i Hi. assert (i = 5 \/ i = 6)%nat as [-> | ->] by lia; reflexivity.
  - unfold kn, exU. cbn [nth Nat.sub]. lra.
  - unfold kn, exU. cbn [nth]. lra.
Qed.

Lemma exU_mult_0 : find_multiplicity Rops 0 (3/10) exU = 0%nat.
Proof.
  unfold find_multiplicity. rewrite (filter_none _ 0); [reflexivity|].
  intros i Hi. cbn [exU length] in Hi.
  destruct (oleb Rops (oabs Rops (osub Rops (3 / 10) (nth i exU 0))) 0) eqn:E; [|reflexivity]. exfalso.
  apply mult_pred0 in E. unfold exU in E.
  do 11 (destruct i as [|i]; [cbn [nth] in E; lra|]). lia.
Qed.

Lemma exP_dim : forall i, (i < length exP)%nat -> length (getp exP i) = 2%nat.
Proof. intros i Hi. cbn [exP length] in Hi. do 7 (destruct i as [|i]; [reflexivity|]). lia. Qed.

(* split on the double knot 1/2 (multiplicity 2 <= 3: one insertion) and inside the span [1/4, 1/2) *)
Example split_hyps_satisfiable_on_knot : split_ok_hyps 0 exR (1/2) 2.
Proof.
  split; [|exact exP_dim]. unfold split_geom_hyps. cbn [exR c_p c_U c_P].
  split; [exact exU_sorted|]. split; [unfold exP; cbn [length]; lia|]. split; [reflexivity|].
  split; [unfold kn, exU, exP; cbn [nth length]; lra|].
  split; [intros i _ H; apply sep0; exact H|]. rewrite exU_mult_half. lia.
Qed.

Example split_hyps_satisfiable_in_span : split_ok_hyps 0 exR (3/10) 2.
Proof.
  split; [|exact exP_dim]. unfold split_geom_hyps. cbn [exR c_p c_U c_P].
  split; [exact exU_sorted|]. split; [unfold exP; cbn [length]; lia|]. split; [reflexivity|].
  split; [unfold kn, exU, exP; cbn [nth length]; lra|].
  split; [intros i _ H; apply sep0; exact H|]. rewrite exU_mult_0. lia.
Qed.

(* hence: both splits succeed and the pieces reproduce the curve *)
Example split_cubic_on_knot :
  exists c1 c2, split_curve Rops 0 exR (1/2) = Ok (c1, c2) /\
    (forall cc x, (cc < 2)%nat -> x < 1/2 -> curve_pt (c_p c1) (c_U c1) (c_P c1) cc ((x - 0) / (1/2 - 0)) = curve_pt 3 exU exP cc x) /\
    (forall cc x, (cc < 2)%nat -> 1/2 <= x -> curve_pt (c_p c2) (c_U c2) (c_P c2) cc ((x - 1/2) / (1 - 1/2)) = curve_pt 3 exU exP cc x).
Proof.
  destruct (split_pieces_coincide 0 exR (1/2) 2 split_hyps_satisfiable_on_knot) as (c1 & c2 & E & _ & _ & HL & HR).
  exists c1, c2. split; [exact E|]. split; [exact HL|exact HR].
Qed.

(* the decomposition: loop invariant, success, 3 = 2 distinct interior knots + 1 Bezier pieces *)
Lemma exR_valid : dec_valid 0 exR.
Proof.
  unfold dec_valid. cbn [exR c_p c_U c_P].
  split; [lia|]. split; [exact exU_sorted|]. split; [unfold exP; cbn [length]; lia|]. split; [reflexivity|].
  split; [intros i Hi; unfold kn, exU; do 4 (destruct i as [|i]; [reflexivity|]); lia|].
  split; [intros i Hi; cbn [exP length] in Hi; unfold kn, exU; do 7 (destruct i as [|i]; [lia|]);
          do 4 (destruct i as [|i]; [reflexivity|]); lia|].
  split; [unfold kn, exU, exP; cbn [nth length Nat.add]; lra|].
  split; [|apply knots_separated_0].
  intros i Hi. cbn [exP length] in Hi. unfold kn, exU. destruct i as [|i]; [lia|].
  do 6 (destruct i as [|i]; [cbn [nth Nat.add]; lra|]). lia.
Qed.

Example decompose_cubic :
  exists l, decompose_curve Rops 0 exR = Ok l /\ length l = 3%nat /\
    Forall (fun x => c_p x = 3%nat /\ bezier_kv 3 (c_U x) /\ length (c_P x) = 4%nat) l /\
    pieces_coincide_on exR l 2.
Proof.
  destruct (decompose_curve_succeeds 0 exR exR_valid) as [l Hl]. exists l. split; [exact Hl|].
  apply decompose_curve_is_split_chain in Hl.
  destruct (chain_spec 0 exR l Hl exR_valid) as (Hlen & HF & Hco).
  split; [|split; [exact HF|apply Hco; exact exP_dim]].
  rewrite Hlen. f_equal.
  change (interior_knots (c_p exR) (c_U exR)) with [1/4; 1/2; 1/2].
  rewrite dedup_cons2. destruct (Req_EM_T (1/4) (1/2)) as [E|_]; [lra|].
  rewrite dedup_cons2. destruct (Req_EM_T (1/2) (1/2)) as [_|E]; [reflexivity|congruence].
Qed.

(* the hypotheses of decompose_count as stated (ends of full multiplicity, distinct interior knots 1/4, 1/2) *)
Example decompose_count_hyps_satisfiable :
  sortedR (c_U exR) /\ length (c_U exR) = S (c_p exR + length (c_P exR)) /\
  bezier_kv (c_p exR) (firstn (S (c_p exR)) (c_U exR) ++ skipn (length (c_U exR) - S (c_p exR)) (c_U exR)) /\
  NoDup [1/4; 1/2] /\ (forall x, In x [1/4; 1/2] <-> In x (interior_knots (c_p exR) (c_U exR))) /\
  (1 <= c_p exR)%nat /\ (forall i, (1 <= i < length (c_P exR))%nat -> knR (c_U exR) i < knR (c_U exR) (i + c_p exR)) /\
  knots_separated 0 (c_U exR).
Proof.
  pose proof exR_valid as (V1 & V2 & V3 & V4 & V5 & V6 & V7 & V8 & V9).
  split; [exact V2|]. split; [reflexivity|]. split; [exists 0, 1; split; [lra|reflexivity]|].
  split; [constructor; [intros [H|[]]; lra|constructor; [intros []|constructor]]|].
  split; [|split; [exact V1|split; [exact V8|exact V9]]].
  intros x. change (interior_knots (c_p exR) (c_U exR)) with [1/4; 1/2; 1/2]. cbn [In]. tauto.
Qed.

(* ---------------------------------------------------------------- a surface: degree (2,1), 4 x 2 points, u-knot 1/2 *)
Definition exS : @surf R :=
  mkS 2 1 [0;0;0;1/2;1;1;1] [0;0;1;1] 4 2
      [[0;0;0]; [0;1;0]; [1;0;1]; [1;1;2]; [2;0;1]; [2;1;0]; [3;0;0]; [3;1;1]].

Lemma exS_Uu_sorted : sortedR (s_Uu exS).
Proof.
  apply sortedR_adjacent. intros i Hi. cbn [exS s_Uu length] in Hi. unfold kn. cbn [exS s_Uu].
  do 6 (destruct i as [|i]; [cbn [nth]; lra|]). lia.
Qed.

Example split_surface_u_hyps_satisfiable :
  dir_split_hyps 0 (s_pu exS) (s_Uu exS) (s_su exS) (1/2) /\ dir_keep_hyps (s_pv exS) (s_Uv exS) (s_sv exS) /\
  (forall i, (i < s_sv exS * s_su exS)%nat -> length (getp (s_P exS) i) = 3%nat).
Proof.
  split; [|split].
  - assert (HM : find_multiplicity Rops 0 (1/2) (s_Uu exS) = 1%nat).
    { rewrite (mult0_run _ (1/2) 3 3 exS_Uu_sorted); [reflexivity|lia|cbn; lia| | |].
      + intros i Hi. assert (i = 3)%nat as -> by lia. reflexivity.
      + unfold kn. cbn [exS s_Uu nth Nat.sub]. lra.
      + unfold kn. cbn [exS s_Uu nth]. lra. }
    split; [exact exS_Uu_sorted|]. rewrite HM. cbn [exS s_pu s_Uu s_su]. split; [lia|]. split; [reflexivity|].
    split; [unfold kn; cbn [nth]; lra|]. split; [intros i _ H; apply sep0; exact H|lia].
  - cbn [exS s_pv s_Uv s_sv]. split; [|split; [reflexivity|unfold kn; cbn [nth Nat.add]; lra]].
    apply sortedR_adjacent. intros i Hi. cbn [length] in Hi. unfold kn.
    do 3 (destruct i as [|i]; [cbn [nth]; lra|]). lia.
  - intros i Hi. cbn [exS s_sv s_su s_P Nat.mul Nat.add] in *. do 8 (destruct i as [|i]; [reflexivity|]). lia.
Qed.

Example split_surface_u_example :
  exists g1 g2, split_surface_u Rops 0 exS (1/2) = Ok (g1, g2) /\
    forall c x y, (c < 3)%nat -> x < 1/2 -> surf_pt g1 c ((x - 0) / (1/2 - 0)) ((y - 0) / (1 - 0)) = surf_pt exS c x y.
Proof.
  destruct split_surface_u_hyps_satisfiable as (H1 & H2 & H3).
  destruct (split_surface_u_coincide 0 exS (1/2) 3 H1 H2 H3) as (g1 & g2 & E & _ & HL & _).
  exists g1, g2. split; [exact E|exact HL].
Qed.

(* ---------------------------------------------------------------- the unrestricted count statement is false *)
(* C07_decompose_count_full of Props/C07.v (no lower bound on the degree, no bound on interior multiplicities, any
   tolerance) does not hold for the model: degree 0 with one interior knot (multiplicity 1 > degree) returns a first piece
   whose knot vector has three entries.  decompose_count adds the hypotheses degree >= 1, interior multiplicities <= degree
   and a separating tolerance, which every valid geomdl curve meets. *)
Definition decompose_count_unrestricted : Prop :=
  forall tol (c : @curve R) l ds,
  sortedR (c_U c) -> length (c_U c) = S (c_p c + length (c_P c)) ->
  bezier_kv (c_p c) (firstn (S (c_p c)) (c_U c) ++ skipn (length (c_U c) - S (c_p c)) (c_U c)) ->
  NoDup ds -> (forall x, In x ds <-> In x (interior_knots (c_p c) (c_U c))) ->
  decompose_curve Rops tol c = Ok l ->
  length l = S (length ds) /\ Forall (fun x => bezier_kv (c_p c) (c_U x)) l.

Definition refU : list R := [0; 1/2; 1].
Definition refC : @curve R := mkC 0 refU [[0]; [1]].

Lemma refU_sorted : sortedR refU.
Proof.
  apply sortedR_adjacent. intros i Hi. cbn [refU length] in Hi. unfold kn, refU.
  do 2 (destruct i as [|i]; [cbn [nth]; lra|]). lia.
Qed.

Lemma refU_span : find_span_linear Rops 0 refU 2 (1/2) = 1%nat.
Proof.
  apply (span_run refU (1/2) 1 1 refU_sorted); try (cbn; lia).
  - intros i Hi. assert (i = 1)%nat as -> by lia. reflexivity.
  - unfold kn, refU. cbn [nth]. lra.
  - unfold kn, refU. cbn [nth]. lra.
Qed.

Lemma refU_mult : find_multiplicity Rops 0 (1/2) refU = 1%nat.
Proof.
  rewrite (mult0_run refU (1/2) 1 1 refU_sorted); [reflexivity|lia|cbn; lia| | |].
  - intros i Hi. assert (i = 1)%nat as -> by lia. reflexivity.
  - unfold kn, refU. cbn [nth Nat.sub]. lra.
  - unfold kn, refU. cbn [nth]. lra.
Qed.

Lemma ref_split : exists K1 K2, split_curve Rops 0 refC (1/2) = Ok (mkC 0 K1 [[0]; [1]], mkC 0 K2 [[1]]) /\
  length K1 = 3%nat /\ length K2 = 2%nat.
Proof.
  assert (HE : at_domain_end Rops 0 refU (1/2) = false).
  { destruct (at_domain_end Rops 0 refU (1/2)) eqn:E; [|reflexivity]. exfalso.
    apply at_domain_end_spec in E. unfold kn, refU in E. cbn [nth length Nat.sub] in E. lra. }
  eexists. eexists. split.
  - unfold split_curve. cbn [refC c_p c_U c_P]. rewrite HE. cbv zeta.
    unfold split_ks. cbn [length]. rewrite refU_span, refU_mult.
    unfold insert_knot_curve. cbn [andb]. unfold parat, numat. cbn [nth Nat.sub Z.of_nat Z.to_nat].
    unfold dir_prep. cbn [Nat.eqb fst c_U c_P length]. unfold split_knots. cbn [refC c_U c_P length]. rewrite refU_span.
    cbn [fst snd Nat.add Nat.sub]. unfold refU. cbn [firstn skipn repeat app length].
    rewrite (set_kv_sorted 0 [0; 1/2; 1/2] 2).
    + rewrite normalize_nonempty by discriminate. cbn [res_bind].
      rewrite (set_kv_sorted 0 [1/2; 1] 1).
      * rewrite normalize_nonempty by discriminate. cbn [res_bind]. reflexivity.
      * reflexivity.
      * intros i j Hij. cbn [length] in Hij. do 2 (destruct i as [|i]; [do 2 (destruct j as [|j]; [try (exfalso; lia); cbn [nth]; lra|]); lia|]). lia.
    + reflexivity.
    + intros i j Hij. cbn [length] in Hij. do 3 (destruct i as [|i]; [do 3 (destruct j as [|j]; [try (exfalso; lia); cbn [nth]; lra|]); lia|]). lia.
  - split; rewrite map_length; reflexivity.
Qed.

Theorem decompose_count_unrestricted_refuted : ~ decompose_count_unrestricted.
Proof.
  intros H. destruct ref_split as (K1 & K2 & Hs & HL1 & HL2).
  assert (Hdec : decompose_curve Rops 0 refC = Ok [mkC 0 K1 [[0]; [1]]; mkC 0 K2 [[1]]]).
  { unfold decompose_curve. cbn [refC c_U refU length]. cbn [decompose_curve_loop].
    change (interior_knots (c_p refC) (c_U refC)) with [1/2]. cbv iota beta. rewrite Hs.
    cbn [c_p c_U]. unfold interior_knots, slice. rewrite HL2. cbn [Nat.sub firstn rev app]. reflexivity. }
  destruct (H 0 refC [mkC 0 K1 [[0]; [1]]; mkC 0 K2 [[1]]] [1/2] refU_sorted eq_refl) as [_ HF]; [| | |exact Hdec|].
  - exists 0, 1. split; [lra|reflexivity].
  - constructor; [intros []|constructor].
  - intros x. change (interior_knots (c_p refC) (c_U refC)) with [1/2]. tauto.
  - apply Forall_inv in HF. destruct HF as (a & b & _ & E). cbn [c_p c_U refC] in E.
    apply (f_equal (@length R)) in E. rewrite HL1 in E. cbn in E. discriminate.
Qed.
Print Assumptions decompose_count_unrestricted_refuted.
