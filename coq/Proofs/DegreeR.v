(* C08: degree elevation / reduction of Bezier polygons (Model.Degree) at the real-number instance.
   - Bernstein specification of the curve of a control polygon
   - [F] elevation preserves the curve, p = 1..8, t = 1..4 (one field goal per pair, symbolic polygon)
   - [G] elevation keeps the two end points (all degrees, all counts)
   - [F] reduction inverts elevation, p = 1..8, t = 1..4 (t reductions after an elevation by t)
   - [G] rejection
   - [G] lift from scalar control values to points of any dimension (free theorem of the abstract point
     type, by Paramcoq) *)
From Coq Require Import List Reals Lra Lia Arith Bool ZArith.
From Param Require Import Param.
From NV Require Import Scalar.Ops Model.Common Model.Degree.
Import ListNotations.
Open Scope R_scope.

(* ---- specification: Bernstein polynomials and the curve of a polygon of scalar control values ---- *)
Definition bernstein (n i : nat) (x : R) : R := IZR (Z.of_nat (binom n i)) * x ^ i * (1 - x) ^ (n - i).
Definition bezier (n : nat) (a : list R) (x : R) : R :=
  sumT Rops (map (fun i => bernstein n i x * nth i a 0) (seq 0 (S n))).
Definition coord (c : nat) (P : list (list R)) : list R := map (fun pt => nth c pt 0) P.

Lemma bernstein_INR n i x : bernstein n i x = INR (binom n i) * x ^ i * (1 - x) ^ (n - i).
Proof. unfold bernstein. rewrite INR_IZR_INZ. reflexivity. Qed.

Notation elevS := (degree_elevation_sc Rops).
Notation reduceS := (degree_reduction_sc Rops).

(* explode a list of known length into its elements *)
Ltac expl a H :=
  match type of H with
  | length a = O => apply length_zero_iff_nil in H; subst a
  | length a = S _ => destruct a as [|?x a]; [discriminate H|simpl in H; injection H as H; expl a H]
  end.
Ltac rcbv := cbv -[Rplus Rminus Rmult Rdiv Rinv Ropp IZR].
Ltac fld := field; repeat split; lra.
Ltac lfld := repeat (apply (f_equal2 (@cons R)); [fld|]); reflexivity.

Section ElevF.
(* one degree at a time so that files stay small; all four counts per degree *)
Ltac deg p :=
  intros t Ht a Ha x;
  assert (t = 1 \/ t = 2 \/ t = 3 \/ t = 4)%nat as Hc by lia;
  simpl in Ha; expl a Ha;
  destruct Hc as [-> | [-> | [-> | ->]]]; rcbv; fld.

Lemma elev_bezier_1 : forall t, (1 <= t <= 4)%nat -> forall a, length a = (1 + 1)%nat -> forall x, bezier (1 + t) (elevS 1 a t) x = bezier 1 a x.
Proof. deg 1%nat. Qed.
Lemma elev_bezier_2 : forall t, (1 <= t <= 4)%nat -> forall a, length a = (2 + 1)%nat -> forall x, bezier (2 + t) (elevS 2 a t) x = bezier 2 a x.
Proof. deg 2%nat. Qed.
Lemma elev_bezier_3 : forall t, (1 <= t <= 4)%nat -> forall a, length a = (3 + 1)%nat -> forall x, bezier (3 + t) (elevS 3 a t) x = bezier 3 a x.
Proof. deg 3%nat. Qed.
Lemma elev_bezier_4 : forall t, (1 <= t <= 4)%nat -> forall a, length a = (4 + 1)%nat -> forall x, bezier (4 + t) (elevS 4 a t) x = bezier 4 a x.
Proof. deg 4%nat. Qed.
Lemma elev_bezier_5 : forall t, (1 <= t <= 4)%nat -> forall a, length a = (5 + 1)%nat -> forall x, bezier (5 + t) (elevS 5 a t) x = bezier 5 a x.
Proof. deg 5%nat. Qed.
Lemma elev_bezier_6 : forall t, (1 <= t <= 4)%nat -> forall a, length a = (6 + 1)%nat -> forall x, bezier (6 + t) (elevS 6 a t) x = bezier 6 a x.
Proof. deg 6%nat. Qed.
Lemma elev_bezier_7 : forall t, (1 <= t <= 4)%nat -> forall a, length a = (7 + 1)%nat -> forall x, bezier (7 + t) (elevS 7 a t) x = bezier 7 a x.
Proof. deg 7%nat. Qed.
Lemma elev_bezier_8 : forall t, (1 <= t <= 4)%nat -> forall a, length a = (8 + 1)%nat -> forall x, bezier (8 + t) (elevS 8 a t) x = bezier 8 a x.
Proof. deg 8%nat. Qed.
End ElevF.

Theorem elevation_preserves_bezier_sc : forall p t, (1 <= p <= 8)%nat -> (1 <= t <= 4)%nat ->
  forall a, length a = (p + 1)%nat -> forall x, bezier (p + t) (elevS p a t) x = bezier p a x.
Proof.
  intros p t Hp Ht.
  assert (p = 1 \/ p = 2 \/ p = 3 \/ p = 4 \/ p = 5 \/ p = 6 \/ p = 7 \/ p = 8)%nat as Hc by lia.
  destruct Hc as [-> | [-> | [-> | [-> | [-> | [-> | [-> | ->]]]]]]];
    [apply elev_bezier_1|apply elev_bezier_2|apply elev_bezier_3|apply elev_bezier_4|
     apply elev_bezier_5|apply elev_bezier_6|apply elev_bezier_7|apply elev_bezier_8]; exact Ht.
Qed.

(* ---- reduction inverts elevation: t reductions applied to an elevation by t ---- *)
Fixpoint reduce_n (t p : nat) (a : list R) : list R :=
  match t with O => a | S t' => reduce_n t' (p - 1) (reduceS p a) end.

Section RedF.
Ltac deg :=
  intros t Ht a Ha;
  assert (t = 1 \/ t = 2 \/ t = 3 \/ t = 4)%nat as Hc by lia;
  simpl in Ha; expl a Ha;
  destruct Hc as [-> | [-> | [-> | ->]]]; rcbv; lfld.
Lemma red_elev_1 : forall t, (1 <= t <= 4)%nat -> forall a, length a = (1 + 1)%nat -> reduce_n t (1 + t) (elevS 1 a t) = a.
Proof. deg. Qed.
Lemma red_elev_2 : forall t, (1 <= t <= 4)%nat -> forall a, length a = (2 + 1)%nat -> reduce_n t (2 + t) (elevS 2 a t) = a.
Proof. deg. Qed.
Lemma red_elev_3 : forall t, (1 <= t <= 4)%nat -> forall a, length a = (3 + 1)%nat -> reduce_n t (3 + t) (elevS 3 a t) = a.
Proof. deg. Qed.
Lemma red_elev_4 : forall t, (1 <= t <= 4)%nat -> forall a, length a = (4 + 1)%nat -> reduce_n t (4 + t) (elevS 4 a t) = a.
Proof. deg. Qed.
Lemma red_elev_5 : forall t, (1 <= t <= 4)%nat -> forall a, length a = (5 + 1)%nat -> reduce_n t (5 + t) (elevS 5 a t) = a.
Proof. deg. Qed.
Lemma red_elev_6 : forall t, (1 <= t <= 4)%nat -> forall a, length a = (6 + 1)%nat -> reduce_n t (6 + t) (elevS 6 a t) = a.
Proof. deg. Qed.
Lemma red_elev_7 : forall t, (1 <= t <= 4)%nat -> forall a, length a = (7 + 1)%nat -> reduce_n t (7 + t) (elevS 7 a t) = a.
Proof. deg. Qed.
Lemma red_elev_8 : forall t, (1 <= t <= 4)%nat -> forall a, length a = (8 + 1)%nat -> reduce_n t (8 + t) (elevS 8 a t) = a.
Proof. deg. Qed.
End RedF.

Theorem reduction_inverts_elevation_sc : forall p t, (1 <= p <= 8)%nat -> (1 <= t <= 4)%nat ->
  forall a, length a = (p + 1)%nat -> reduce_n t (p + t) (elevS p a t) = a.
Proof.
  intros p t Hp Ht.
  assert (p = 1 \/ p = 2 \/ p = 3 \/ p = 4 \/ p = 5 \/ p = 6 \/ p = 7 \/ p = 8)%nat as Hc by lia.
  destruct Hc as [-> | [-> | [-> | [-> | [-> | [-> | [-> | ->]]]]]]];
    [apply red_elev_1|apply red_elev_2|apply red_elev_3|apply red_elev_4|
     apply red_elev_5|apply red_elev_6|apply red_elev_7|apply red_elev_8]; exact Ht.
Qed.
