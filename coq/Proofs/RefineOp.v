(* C05: from A5.4 on a given list X (Proofs/RefineGeneral.v) and the default list (Proofs/RefineDefault.v) to
   helpers.knot_refinement / operations.refine_knotvector for curves (models knot_refinement, refine_curve). *)
From Coq Require Import List Reals Lra Lia Arith Bool Permutation Sorted.
From NV Require Import Scalar.Ops Model.Common Model.Basis Model.KnotIns Model.InsertKnot Model.KnotRefine
  Proofs.Boehm Proofs.BasisR Proofs.KnotInsR Proofs.InsertKnotR Proofs.KnotRefineR
  Proofs.RefineGenS Proofs.RefineGenI Proofs.RefineGeneral Proofs.RefineDefault.
Import ListNotations.
Local Open Scope nat_scope.

(* everything A5.4 needs to know about (U, number of control points, X) *)
Definition refine_ok (tol : R) (p : nat) (U : list R) (n : nat) (X : list R) : Prop :=
  1 <= p /\ sortedR U /\ p < n /\ length U = n + p + 1 /\ X <> [] /\ sortedR X /\
  (knR U p <= nth 0 X 0)%R /\ (nth (length X - 1) X 0 < knR U n)%R /\
  (forall x y, In x X -> In y (X ++ U) -> (x < y)%R -> (tol <= y - x)%R) /\
  (forall x, In x X -> cnt (X ++ U) x <= p).

Theorem refine_pts_ok tol p U P X dim : refine_ok tol p U (length P) X ->
  (forall i, i < length P -> length (getp P i) = dim) ->
  let '(Q, V) := refine_pts Rops tol p U P X in
  length Q = length P + length X /\ length V = length U + length X /\ sortedR V /\ Permutation V (U ++ X) /\
  (forall w, w < length Q -> length (getp Q w) = dim) /\
  (forall c t, c < dim -> curve_pt p V Q c t = curve_pt p U P c t).
Proof.
  intros [H1 [H2 [H3 [H4 [H5 [H6 [H7 [H8 [H9 H10]]]]]]]]] Hdim.
  pose proof (refine_pts_spec tol p U P X dim H1 H2 H3 H4 H5 H6 H7 H8) as H.
  destruct (refine_pts Rops tol p U P X) as [Q V].
  destruct H as [HL [HP [HS [HLQ HC]]]]. destruct (HC (conj H9 (conj H10 Hdim))) as [Hd Hc].
  split; [exact HLQ|]. split; [exact HL|]. split; [exact HS|].
  split; [eapply Permutation_trans; [exact HP|apply Permutation_app_comm]|]. split; assumption.
Qed.

(* ---------- the helper's plan satisfies refine_ok ---------- *)
(* hypotheses on the knot vector and the listed values kl (= knot_list ++ add_knot_list) alone: clamped at the end
   (so that the domain end is not inserted), listed values inside the domain, tolerance 0 <= tol smaller than the
   distance of any value of the bisected list to any other such value or knot *)
Definition plan_ok (tol : R) (p : nat) (U : list R) (n d : nat) (kl : list R) : Prop :=
  1 <= p /\ sortedR U /\ p < n /\ length U = n + p + 1 /\ (0 <= tol)%R /\
  knR U (length U - 1) = knR U n /\
  (forall z, In z kl -> (knR U p <= z <= knR U n)%R) /\
  (forall v y, In v (refine_Lk d kl) -> In y (refine_Lk d kl ++ U) -> v <> y -> (tol < Rabs (v - y))%R).

Lemma plan_sep tol p U n d kl : plan_ok tol p U n d kl ->
  forall v y, In v (refine_Lk d kl) -> In y U -> (Rabs (v - y) <= tol)%R -> y = v.
Proof.
  intros [_ [_ [_ [_ [_ [_ [_ Hs]]]]]]] v y Hv Hy Hle.
  destruct (Req_dec v y) as [E|E]; [symmetry; exact E|]. exfalso.
  assert (tol < Rabs (v - y))%R by (apply Hs; [exact Hv|apply in_or_app; right; exact Hy|exact E]). lra.
Qed.

Theorem plan_refine_ok tol check p U n klo add d X :
  let kl := (match klo with Some l => l | None => slice U p (length U - p) end) ++ add in
  plan_ok tol p U n d kl ->
  refine_plan Rops tol check p U klo add d = Ok X -> X = refine_Xk tol p U d kl /\ refine_ok tol p U n X.
Proof.
  cbv zeta. set (kl := _ ++ add). intros Hok Hplan. pose proof (plan_sep tol p U n d kl Hok) as Hsep.
  destruct Hok as [H1 [H2 [H3 [H4 [H5 [H6 [Hkl H7]]]]]]].
  destruct (refine_plan_X tol check p U klo add d X Hplan) as [EX [Xne _]]. fold kl in EX.
  destruct (refine_Xk_spec tol p U d kl _ _ H5 Hkl Hsep) as [HLs [HXs [HXc HXin]]].
  rewrite <- EX in HXs, HXc, HXin.
  assert (HlX : 1 <= length X) by (destruct X; [congruence|cbn; lia]).
  assert (Hcl : p < cnt U (knR U n)).
  { pose proof (run_count (knR U n) U n (p + 1)) as Hc. assert (p + 1 <= cnt U (knR U n)); [|lia].
    apply Hc; [|lia]. intros q Hq.
    assert (knR U n <= knR U q)%R by (apply H2; lia).
    assert (knR U q <= knR U (length U - 1))%R by (apply H2; lia).
    unfold kn in *. cbn [o0 Rops] in *. lra. }
  split; [exact EX|].
  split; [exact H1|]. split; [exact H2|]. split; [exact H3|]. split; [exact H4|]. split; [exact Xne|]. split; [exact HXs|].
  split. { apply HXin. apply nth_In. lia. }
  split.
  { destruct (HXin (nth (length X - 1) X 0%R) ltac:(apply nth_In; lia)) as [_ [Hc [_ Hhi]]].
    destruct (Req_dec (nth (length X - 1) X 0%R) (knR U n)) as [E|E]; [|lra].
    exfalso. rewrite E in Hc. lia. }
  split.
  { intros x y Hx Hy Hlt. destruct (HXin x Hx) as [HxL _].
    assert (HyL : In y (refine_Lk d kl ++ U)).
    { apply in_app_or in Hy. apply in_or_app. destruct Hy as [Hy|Hy]; [left; apply HXin; exact Hy|right; exact Hy]. }
    assert (tol < Rabs (x - y))%R by (apply H7; [exact HxL|exact HyL|lra]).
    rewrite Rabs_left in H by lra. lra. }
  intros x Hx. destruct (HXin x Hx) as [HxL [Hc _]].
  rewrite count_occ_app, HXc. destruct (in_dec Req_EM_T x (refine_Lk d kl)); [lia|contradiction].
Qed.

(* ---------- helpers.knot_refinement, any knot_list / add_knot_list / density, curves ---------- *)
Theorem knot_refinement_correct tol check p U P klo add d dim Q V :
  let kl := (match klo with Some l => l | None => slice U p (length U - p) end) ++ add in
  plan_ok tol p U (length P) d kl -> (forall i, i < length P -> length (getp P i) = dim) ->
  knot_refinement Rops tol check p U P klo add d = Ok (Q, V) ->
  let X := refine_Xk tol p U d kl in
  length Q = length P + length X /\ length V = length U + length X /\
  sortedR V /\ Permutation V (U ++ X) /\
  (forall w, w < length Q -> length (getp Q w) = dim) /\
  (forall c t, c < dim -> curve_pt p V Q c t = curve_pt p U P c t) /\
  (* every value of the bisected list has multiplicity exactly p afterwards (if it did not exceed p before) *)
  (forall z, In z (refine_Lk d kl) -> cnt U z <= p -> cnt V z = p) /\
  (forall z, ~ In z (refine_Lk d kl) -> cnt V z = cnt U z).
Proof.
  cbv zeta. set (kl := _ ++ add). intros Hok Hdim Hk.
  unfold knot_refinement, knot_refinement_g in Hk.
  destruct (refine_plan Rops tol check p U klo add d) as [X| |] eqn:Hplan; cbn [res_map] in Hk; try discriminate.
  destruct (plan_refine_ok tol check p U (length P) klo add d X Hok Hplan) as [EX HX]. fold kl in EX. subst X.
  pose proof (refine_pts_ok tol p U P _ dim HX Hdim) as H.
  change (refine_g Rops (lerp Rops) [] tol p U P (refine_Xk tol p U d kl)) with (refine_pts Rops tol p U P (refine_Xk tol p U d kl)) in Hk.
  destruct (refine_pts Rops tol p U P (refine_Xk tol p U d kl)) as [Q' V']. inversion Hk. subst Q' V'.
  destruct H as [A1 [A2 [A3 [A4 [A5 A6]]]]].
  pose proof (plan_sep tol p U (length P) d kl Hok) as Hsep.
  destruct Hok as [H1 [H2 [H3 [H4 [H5 [H6 [Hkl H7]]]]]]].
  destruct (refine_multiplicities_k tol p U d kl _ _ H5 Hkl Hsep V A4) as [M1 M2].
  repeat (split; [assumption|]). exact M2.
Qed.

(* ---------- the default plan ---------- *)
Definition default_ok (tol : R) (p : nat) (U : list R) (n d : nat) : Prop :=
  1 <= p /\ sortedR U /\ p < n /\ length U = n + p + 1 /\ (0 <= tol)%R /\
  knR U (length U - 1) = knR U n /\
  (forall v y, In v (refine_L p U d) -> In y (refine_L p U d ++ U) -> v <> y -> (tol < Rabs (v - y))%R).

Lemma default_plan_ok tol p U n d : default_ok tol p U n d -> plan_ok tol p U n d (slice U p (length U - p) ++ []).
Proof.
  intros [H1 [H2 [H3 [H4 [H5 [H6 H7]]]]]]. rewrite app_nil_r.
  repeat (split; [assumption|]). split; [|exact H7].
  intros z Hz. pose proof (slice_bounds p U H2 ltac:(lia) z Hz) as Hb. replace (length U - p - 1) with n in Hb by lia. exact Hb.
Qed.

Lemma default_sep tol p U n d : default_ok tol p U n d ->
  forall v y, In v (refine_L p U d) -> In y U -> (Rabs (v - y) <= tol)%R -> y = v.
Proof.
  intros Hok. pose proof (plan_sep tol p U n d _ (default_plan_ok tol p U n d Hok)) as H. rewrite app_nil_r in H. exact H.
Qed.

Theorem default_refine_ok tol p U n d X : default_ok tol p U n d ->
  refine_plan Rops tol true p U None [] d = Ok X -> X = refine_Xd tol p U d /\ refine_ok tol p U n X.
Proof.
  intros Hok Hplan.
  pose proof (plan_refine_ok tol true p U n None [] d X (default_plan_ok tol p U n d Hok) Hplan) as H.
  rewrite app_nil_r in H. exact H.
Qed.

(* ---------- helpers.knot_refinement with default arguments, curves ---------- *)
Theorem knot_refinement_default_correct tol p U P d dim Q V :
  default_ok tol p U (length P) d -> (forall i, i < length P -> length (getp P i) = dim) ->
  knot_refinement Rops tol true p U P None [] d = Ok (Q, V) ->
  let X := refine_Xd tol p U d in
  1 <= d /\ length Q = length P + length X /\ length V = length U + length X /\
  sortedR V /\ Permutation V (U ++ X) /\
  (forall w, w < length Q -> length (getp Q w) = dim) /\
  (forall c t, c < dim -> curve_pt p V Q c t = curve_pt p U P c t) /\
  (* every knot strictly inside the domain has multiplicity exactly p afterwards (if it did not exceed p before) *)
  (forall z, In z V -> (knR U p < z < knR U (length P))%R -> cnt U z <= p -> cnt V z = p) /\
  (forall z, ~ In z (refine_L p U d) -> cnt V z = cnt U z).
Proof.
  intros Hok Hdim Hk. cbv zeta.
  unfold knot_refinement, knot_refinement_g in Hk.
  destruct (refine_plan Rops tol true p U None [] d) as [X| |] eqn:Hplan; cbn [res_map] in Hk; try discriminate.
  destruct (default_refine_ok tol p U (length P) d X Hok Hplan) as [EX HX]. subst X.
  pose proof (refine_pts_ok tol p U P _ dim HX Hdim) as H.
  change (refine_g Rops (lerp Rops) [] tol p U P (refine_Xd tol p U d)) with (refine_pts Rops tol p U P (refine_Xd tol p U d)) in Hk.
  destruct (refine_pts Rops tol p U P (refine_Xd tol p U d)) as [Q' V']. inversion Hk. subst Q' V'.
  destruct H as [A1 [A2 [A3 [A4 [A5 A6]]]]].
  pose proof (default_sep tol p U (length P) d Hok) as Hsep.
  destruct Hok as [H1 [H2 [H3 [H4 [H5 [H6 H7]]]]]].
  assert (H2p : 2 * p < length U) by lia.
  destruct (refine_plan_default tol p U d _ Hplan) as [_ [_ Hd]].
  destruct (refine_default_multiplicities tol p U d H2 H2p H5 Hsep V A4) as [M1 [M2 M3]].
  replace (length U - p - 1) with (length P) in M3 by lia.
  repeat (split; [assumption|]). exact M2.
Qed.

(* ---------- operations.refine_knotvector on a curve ---------- *)
Theorem refine_curve_correct tol check (c : curve (T:=R)) params dim :
  default_ok tol (c_p c) (c_U c) (length (c_P c)) (dens params 0) ->
  (forall i, i < length (c_P c) -> length (getp (c_P c) i) = dim) ->
  let '(c', raised) := refine_curve Rops tol check c params in
  c_p c' = c_p c /\ (raised = true -> c' = c) /\
  (forall i, i < length (c_P c') -> length (getp (c_P c') i) = dim) /\
  (forall cc t, cc < dim -> curve_pt (c_p c') (c_U c') (c_P c') cc t = curve_pt (c_p c) (c_U c) (c_P c) cc t).
Proof.
  intros Hok Hdim. unfold refine_curve.
  destruct (andb check _); [repeat split; auto|].
  destruct (Nat.eqb (dens params 0) 0); [repeat split; auto; discriminate|].
  destruct (refine_plan Rops tol true (c_p c) (c_U c) None [] (dens params 0)) as [X| |] eqn:Hplan; try (repeat split; auto).
  destruct (default_refine_ok tol _ _ _ _ X Hok Hplan) as [_ HX].
  pose proof (refine_pts_ok tol (c_p c) (c_U c) (c_P c) X dim HX Hdim) as H.
  destruct (refine_pts Rops tol (c_p c) (c_U c) (c_P c) X) as [Q V]. cbn [c_p c_U c_P].
  destruct H as [A1 [A2 [A3 [A4 [A5 A6]]]]].
  split; [reflexivity|]. split; [discriminate|]. split; assumption.
Qed.

Print Assumptions knot_refinement_correct.
Print Assumptions knot_refinement_default_correct.
Print Assumptions refine_curve_correct.
