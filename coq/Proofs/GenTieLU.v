(* Ties: generated _linalg.doolittle and linalg.lu_decomposition = Model/LinAlg.v, under sum_laws K.
   The Python code fills two n x n arrays in place (row i of U, then column i of L, with try/except ZeroDivisionError
   around the division by the pivot); the model appends one row of U and one COLUMN of L per step.  Relation after i
   steps (RelLU): U agrees with the i finished rows, L with the i finished columns, everything else is still 0. *)
From Coq Require Import List ZArith Arith Bool Lia QArith.
From NV Require Import Scalar.Ops Model.Common Model.LinAlg Gen.Prelude Gen.LinalgInternal Gen.Linalg
  Proofs.GenTieLib Proofs.GenTieBasisOne Proofs.GenTieDersLib Proofs.GenTieSums.
Import ListNotations.
Local Open Scope nat_scope.

Ltac sc := first [assumption | apply wfm_set2; assumption | lia].

Section Tie.
Context {T : Type} (K : ops T) (LW : sum_laws K).
Notation "0" := (o0 K).
Notation g2 := (get2 K).

Lemma mk2_get0 r c i j : g2 (mk2 r c 0) i j = 0.
Proof.
  unfold get2, mk2. destruct (Nat.lt_ge_cases i r).
  - rewrite nth_repeat_lt by lia. destruct (Nat.lt_ge_cases j c); [now apply nth_repeat_lt|].
    apply nth_overflow. rewrite repeat_length. lia.
  - rewrite (nth_overflow (repeat _ _)) by (rewrite repeat_length; lia). now destruct j.
Qed.

Definition RelLU (n i : nat) (UG LG Lc Ur : list (list T)) : Prop :=
  wfm n n UG /\ wfm n n LG /\ length Lc = i /\ length Ur = i
  /\ (forall r, r < i -> length (nth r Ur []) = n)
  /\ (forall r c, r < n -> c < n -> g2 UG r c = if Nat.ltb r i then g2 Ur r c else 0)
  /\ (forall r c, r < n -> c < n -> g2 LG r c = if Nat.ltb c i then g2 Lc c r else 0).

(* wf: the matrix is square (lu_decomposition checks this before calling doolittle) *)
Theorem doolittle_tie (A : list (list T)) :
  (forall r, In r A -> length r = length A) ->
  LinalgInternal.doolittle K A = GOk (LinAlg.doolittle K A).
Proof.
  intros Hsq. unfold LinalgInternal.doolittle, LinAlg.doolittle, doolittle_cols.
  unfold zlen. set (n := length A) in *.
  rewrite !map_const_zrange, !Nat2Z.id, zrange_0_nat. fold (mk2 n n 0).
  assert (HA : forall i, i < n -> length (nth i A []) = n).
  { intros i Hi. apply Hsq. now apply nth_In. }
  match goal with |- context [gfor (map Z.of_nat (seq O n)) ?ff ?s0] =>
    destruct (gfor_seq_fold (fun i (a b : list (list T) * list (list T)) => RelLU n i (fst a) (snd a) (fst b) (snd b))
                ff (doolittle_step K A n) n O) with (s := s0) (s' := (@nil (list T), @nil (list T))) as ([UF LF] & EF & RF)
  end.
  { (* ---- step i ---- *)
    intros i [UG LG] [Lc Ur] Hi (WU & WL & LLc & LUr & HUr & HU & HL). cbn [fst snd] in WU, WL, LLc, LUr, HUr, HU, HL.
    cbn [gbind].
    replace (Z.of_nat n) with (Z.of_nat (i + (n - i))) at 1 by lia. rewrite zrange_nat.
    replace (i + (n - i) - i) with (n - i) by lia.
    set (urow := fun c => osub K (g2 A i c) (lu_sum K Lc Ur i i c)).
    set (piv := urow i).
    set (lcol := fun r => if Nat.eqb r i then o1 K else if LinAlg.isz K piv then 0
                          else odiv K (osub K (g2 A r i) (lu_sum K Lc Ur i r i)) piv).
    match goal with |- context [gfor (map Z.of_nat (seq i (n - i))) ?ff ?s0] =>
      destruct (gfor_seq_inv (fun kp (st : list (list T) * list (list T)) =>
            wfm n n (fst st) /\ wfm n n (snd st)
            /\ (forall r c, r <> i -> g2 (fst st) r c = g2 UG r c)
            /\ (forall c, c < n -> g2 (fst st) i c = if andb (Nat.leb i c) (Nat.ltb c kp) then urow c else 0)
            /\ (forall r c, c <> i -> g2 (snd st) r c = g2 LG r c)
            /\ (forall r, r < n -> g2 (snd st) r i = if andb (Nat.leb i r) (Nat.ltb r kp) then lcol r else 0)) ff (n - i) i)
        with (s := s0) as ([U2 L2] & E2 & W2U & W2L & H2Uo & H2Ui & H2Lo & H2Li)
    end.
    { (* ---- column index k ---- *)
      intros k [U' L'] Hk (WU' & WL' & HUo & HUi & HLo & HLi). cbn [fst snd] in WU', WL', HUo, HUi, HLo, HLi.
      cbn [gbind].
      rewrite (zget2k K n n A) by (first [split; [reflexivity|intros; apply HA; lia]|lia]). rewrite !Nat2Z.id.
      rewrite zrange_0_nat.
      (* sum([l[i][j] * u[j][k] for j < i]) *)
      rewrite (gmapM_ok _ (fun j : Z => omul K (g2 Lc (Z.to_nat j) i) (g2 Ur (Z.to_nat j) k))).
      2:{ intros j Hj. apply in_map_iff in Hj. destruct Hj as (j' & <- & Hj'). apply in_seq in Hj'.
          rewrite (zget2k K n n L') by sc. rewrite (zget2k K n n U') by sc. rewrite !Nat2Z.id.
          rewrite HLo by lia. rewrite HUo by lia. rewrite HL, HU by lia.
          destruct (Nat.ltb_spec j' i); [reflexivity|lia]. }
      cbn [gbind]. rewrite map_map.
      rewrite (map_ext _ (fun j => omul K (g2 Lc j i) (g2 Ur j k))) by (intros j; now rewrite Nat2Z.id).
      rewrite (gsum_sumT K LW). fold (sumr K O i (fun j => omul K (g2 Lc j i) (g2 Ur j k))). fold (lu_sum K Lc Ur i i k).
      fold (urow k).
      rewrite (zset2k n n U') by sc. rewrite !Nat2Z.id.
      set (U'' := set2 U' i k (urow k)). assert (WU'' : wfm n n U'') by (now apply wfm_set2).
      assert (HUo'' : forall r c, r <> i -> g2 U'' r c = g2 UG r c).
      { intros r c Hr. unfold U''. rewrite (get_set2_other K n n) by (auto; lia). auto. }
      assert (HUi'' : forall c, c < n -> g2 U'' i c = if andb (Nat.leb i c) (Nat.ltb c (S k)) then urow c else 0).
      { intros c Hc. unfold U''. destruct (Nat.eq_dec c k) as [->|Hne].
        - rewrite (get_set2_same K n n) by sc. destruct (Nat.leb_spec i k); [|lia]. destruct (Nat.ltb_spec k (S k)); [reflexivity|lia].
        - rewrite (get_set2_other K n n) by (auto; lia). rewrite HUi by lia.
          destruct (Nat.leb_spec i c); cbn [andb]; auto. destruct (Nat.ltb_spec c k); destruct (Nat.ltb_spec c (S k)); auto; lia. }
      destruct (Z.eqb_spec (Z.of_nat i) (Z.of_nat k)) as [Eik|Nik].
      - (* the diagonal: l[i][i] = 1 *)
        assert (k = i) by lia. subst k.
        rewrite (zset2k n n L') by sc. cbn [gbind]. rewrite !Nat2Z.id.
        eexists. split; [reflexivity|]. cbn [fst snd].
        split; [assumption|]. split; [now apply wfm_set2|]. split; [assumption|]. split; [assumption|]. split.
        + intros r c Hc. rewrite (get_set2_other K n n) by (auto; lia). auto.
        + intros r Hr. destruct (Nat.eq_dec r i) as [->|Hne].
          * rewrite (get_set2_same K n n) by sc. destruct (Nat.leb_spec i i); [|lia]. destruct (Nat.ltb_spec i (S i)); [|lia].
            cbn [andb]. unfold lcol. now rewrite Nat.eqb_refl.
          * rewrite (get_set2_other K n n) by (auto; lia). rewrite HLi by lia.
            destruct (Nat.leb_spec i r); cbn [andb]; auto. destruct (Nat.ltb_spec r i); destruct (Nat.ltb_spec r (S i)); auto; lia.
      - (* below the diagonal: l[k][i] = (a[k][i] - sum) / u[i][i], 0.0 on ZeroDivisionError *)
        assert (Hik : i < k) by lia.
        rewrite (zget2k K n n A) by (first [split; [reflexivity|intros; apply HA; lia]|lia]). rewrite !Nat2Z.id.
        rewrite (gmapM_ok _ (fun j : Z => omul K (g2 Lc (Z.to_nat j) k) (g2 Ur (Z.to_nat j) i))).
        2:{ intros j Hj. apply in_map_iff in Hj. destruct Hj as (j' & <- & Hj'). apply in_seq in Hj'.
            rewrite (zget2k K n n L') by sc. rewrite (zget2k K n n U'') by sc. rewrite !Nat2Z.id.
            rewrite HLo by lia. rewrite HUo'' by lia. rewrite HL, HU by lia.
            destruct (Nat.ltb_spec j' i); [reflexivity|lia]. }
        cbn [gbind]. rewrite map_map.
        rewrite (map_ext _ (fun j => omul K (g2 Lc j k) (g2 Ur j i))) by (intros j; now rewrite Nat2Z.id).
        rewrite (gsum_sumT K LW). fold (sumr K O i (fun j => omul K (g2 Lc j k) (g2 Ur j i))). fold (lu_sum K Lc Ur i k i).
        set (X := osub K (g2 A k i) (lu_sum K Lc Ur i k i)).
        rewrite (zset2k n n L') by sc. rewrite !Nat2Z.id.
        set (L'' := set2 L' k i X). assert (WL'' : wfm n n L'') by (now apply wfm_set2).
        (* the try block *)
        rewrite (zget2k K n n L'') by sc. rewrite (zget2k K n n U'') by sc. rewrite !Nat2Z.id.
        unfold L'' at 1. rewrite (get_set2_same K n n) by sc.
        rewrite HUi'' by lia. destruct (Nat.leb_spec i i); [|lia]. destruct (Nat.ltb_spec i (S k)); [|lia]. cbn [andb]. fold piv.
        assert (Etry : exists Lnew, (gtry (do v_25 <- odiv_chk K X piv ;;
                                            do v_26 <- znth L'' (Z.of_nat k) ;;
                                            do v_27 <- zset v_26 (Z.of_nat i) v_25 ;;
                                            do matrix_l <- zset L'' (Z.of_nat k) v_27 ;; GOk matrix_l)
                                      (fun v_28 => match v_28 with
                                                   | ZeroDivisionError =>
                                                       do v_29 <- znth L'' (Z.of_nat k) ;;
                                                       do v_30 <- zset v_29 (Z.of_nat i) 0 ;;
                                                       do matrix_l <- zset L'' (Z.of_nat k) v_30 ;; GOk matrix_l
                                                   | _ => GErr v_28
                                                   end)) = GOk Lnew
                             /\ Lnew = set2 L'' k i (lcol k)).
        { unfold odiv_chk, lcol, LinAlg.isz. destruct (Nat.eqb_spec k i); [lia|].
          destruct (oeqb K piv 0); cbn [gbind gtry].
          - rewrite (zset2k n n L'') by sc. rewrite !Nat2Z.id. eexists. split; reflexivity.
          - rewrite (zset2k n n L'') by sc. rewrite !Nat2Z.id. eexists. split; reflexivity. }
        destruct Etry as (Lnew & Etry & ->). rewrite Etry. cbn [gbind].
        eexists. split; [reflexivity|]. cbn [fst snd].
        split; [assumption|]. split; [now apply wfm_set2|]. split; [assumption|]. split; [assumption|]. split.
        + intros r c Hc. rewrite (get_set2_other K n n) by (auto; lia). unfold L''.
          rewrite (get_set2_other K n n) by (auto; lia). auto.
        + intros r Hr. destruct (Nat.eq_dec r k) as [->|Hne].
          * rewrite (get_set2_same K n n) by sc. destruct (Nat.leb_spec i k); [|lia]. destruct (Nat.ltb_spec k (S k)); [reflexivity|lia].
          * rewrite (get_set2_other K n n) by (auto; lia). unfold L''. rewrite (get_set2_other K n n) by (auto; lia). rewrite HLi by lia.
            destruct (Nat.leb_spec i r); cbn [andb]; auto. destruct (Nat.ltb_spec r k); destruct (Nat.ltb_spec r (S k)); auto; lia. }
    { cbn [fst snd]. split; [assumption|]. split; [assumption|]. split; [auto|]. split.
      - intros c Hc. rewrite HU by lia. destruct (Nat.ltb_spec i i); [lia|].
        destruct (Nat.leb_spec i c); cbn [andb]; auto. destruct (Nat.ltb_spec c i); [lia|reflexivity].
      - split; [auto|]. intros r Hr. rewrite HL by lia. destruct (Nat.ltb_spec i i); [lia|].
        destruct (Nat.leb_spec i r); cbn [andb]; auto. destruct (Nat.ltb_spec r i); [lia|reflexivity]. }
    rewrite E2. cbn [gbind]. cbn [fst snd] in W2U, W2L, H2Uo, H2Ui, H2Lo, H2Li.
    replace (i + (n - i)) with n in H2Ui, H2Li by lia.
    eexists. split; [reflexivity|].
    unfold doolittle_step. cbn [fst snd].
    set (urowM := map (fun k => if Nat.ltb k i then 0 else osub K (g2 A i k) (lu_sum K Lc Ur i i k)) (seq O n)).
    assert (Eurow : forall c, c < n -> nth c urowM 0 = if Nat.ltb c i then 0 else urow c).
    { intros c Hc. unfold urowM. rewrite nth_map_seq by lia. reflexivity. }
    assert (Epiv : nth i urowM 0 = piv).
    { rewrite Eurow by lia. destruct (Nat.ltb_spec i i); [lia|reflexivity]. }
    rewrite Epiv.
    set (lcolM := map (fun k => if Nat.ltb k i then 0 else if Nat.eqb k i then o1 K else if LinAlg.isz K piv then 0
                               else odiv K (osub K (g2 A k i) (lu_sum K Lc Ur i k i)) piv) (seq O n)).
    assert (Elcol : forall r, r < n -> nth r lcolM 0 = if Nat.ltb r i then 0 else lcol r).
    { intros r Hr. unfold lcolM. rewrite nth_map_seq by lia. reflexivity. }
    unfold RelLU. split; [assumption|]. split; [assumption|].
    split; [rewrite app_length; simpl; lia|]. split; [rewrite app_length; simpl; lia|]. split.
    { intros r Hr. destruct (Nat.eq_dec r i) as [->|Hne].
      - rewrite app_nth2 by lia. rewrite LUr, Nat.sub_diag. cbn [nth]. unfold urowM. now rewrite map_length, seq_length.
      - rewrite app_nth1 by lia. apply HUr. lia. }
    split.
    { intros r c Hr Hc. unfold get2 at 2. destruct (Nat.lt_trichotomy r i) as [Hlt|[->|Hgt]].
      - rewrite H2Uo by lia. rewrite HU by lia. destruct (Nat.ltb_spec r i); [|lia]. destruct (Nat.ltb_spec r (S i)); [|lia].
        rewrite app_nth1 by lia. reflexivity.
      - rewrite H2Ui by lia. destruct (Nat.ltb_spec i (S i)); [|lia].
        rewrite app_nth2 by lia. rewrite LUr, Nat.sub_diag. cbn [nth]. rewrite Eurow by lia.
        destruct (Nat.leb_spec i c); destruct (Nat.ltb_spec c n); destruct (Nat.ltb_spec c i); cbn [andb]; auto; lia.
      - rewrite H2Uo by lia. rewrite HU by lia. destruct (Nat.ltb_spec r i); [lia|]. destruct (Nat.ltb_spec r (S i)); [lia|reflexivity]. }
    { intros r c Hr Hc. unfold get2 at 2. destruct (Nat.lt_trichotomy c i) as [Hlt|[->|Hgt]].
      - rewrite H2Lo by lia. rewrite HL by lia. destruct (Nat.ltb_spec c i); [|lia]. destruct (Nat.ltb_spec c (S i)); [|lia].
        rewrite app_nth1 by lia. reflexivity.
      - rewrite H2Li by lia. destruct (Nat.ltb_spec i (S i)); [|lia].
        rewrite app_nth2 by lia. rewrite LLc, Nat.sub_diag. cbn [nth]. rewrite Elcol by lia.
        destruct (Nat.leb_spec i r); destruct (Nat.ltb_spec r n); destruct (Nat.ltb_spec r i); cbn [andb]; auto; lia.
      - rewrite H2Lo by lia. rewrite HL by lia. destruct (Nat.ltb_spec c i); [lia|]. destruct (Nat.ltb_spec c (S i)); [lia|reflexivity]. } }
  { cbn [fst snd]. unfold RelLU. split; [apply mk2_wfm|]. split; [apply mk2_wfm|]. split; [reflexivity|]. split; [reflexivity|].
    split; [intros r Hr; lia|]. split; intros r c _ _; apply mk2_get0. }
  rewrite EF. cbn [gbind]. f_equal.
  unfold RelLU in RF. cbn [fst snd Nat.add] in RF |- *.
  destruct RF as ((WU1 & WU2) & (WL1 & WL2) & LLc & LUr & HUr & HU & HL).
  f_equal.
  - (* L = the columns read as rows *)
    unfold cols_to_rows. apply nth_ext with (d := []) (d' := []).
    + now rewrite map_length, seq_length.
    + intros r Hr. rewrite WL1 in Hr. rewrite nth_map_seq by lia.
      apply nth_ext with (d := 0) (d' := 0).
      * rewrite WL2 by lia. now rewrite map_length, seq_length.
      * intros c Hc. rewrite WL2 in Hc by lia. fold (g2 LF r c). rewrite HL by lia.
        destruct (Nat.ltb_spec c n); [|lia]. rewrite nth_map_seq by lia. reflexivity.
  - apply nth_ext with (d := []) (d' := []).
    + transitivity n; [exact WU1|symmetry; exact LUr].
    + intros r Hr. rewrite WU1 in Hr. apply nth_ext with (d := 0) (d' := 0).
      * rewrite WU2, HUr by lia. reflexivity.
      * intros c Hc. rewrite WU2 in Hc by lia. fold (g2 UF r c). rewrite HU by lia.
        destruct (Nat.ltb_spec r n); [reflexivity|lia].
Qed.

(* ---- lu_decomposition: ValueError exactly when the model rejects (a non-square matrix) ---- *)
Lemma square_check (q : Z) (qn : nat) : q = Z.of_nat qn -> forall (A : list (list T)) (idx : list Z), length idx = length A ->
  gfor (combine idx A) (fun '(idx, m_a) (_ : unit) => if negb (zlen m_a =? q)%Z then GErr ValueError else GOk tt) tt =
  if forallb (fun r => Nat.eqb (length r) qn) A then GOk tt else GErr ValueError.
Proof.
  intros ->. induction A as [|r A IH]; intros [|i idx] Hl; simpl in Hl; try lia; [reflexivity|].
  cbn [combine gfor forallb]. unfold zlen at 1.
  destruct (Z.eqb_spec (Z.of_nat (length r)) (Z.of_nat qn)); destruct (Nat.eqb_spec (length r) qn); try lia; cbn [negb gbind andb].
  - apply IH. lia.
  - reflexivity.
Qed.

Theorem lu_decomposition_tie (A : list (list T)) :
  Linalg.lu_decomposition K A = res_to_gres (fun x => x) ValueError IndexError (LinAlg.lu_decomposition K A).
Proof.
  unfold Linalg.lu_decomposition, LinAlg.lu_decomposition, is_square.
  rewrite (square_check (zlen A) (length A) eq_refl A) by (unfold zlen; rewrite zrange_0_nat, map_length, seq_length; reflexivity).
  destruct (forallb _ A) eqn:E; [|reflexivity]. cbn [gbind res_to_gres].
  rewrite doolittle_tie; [reflexivity|].
  intros r Hr. rewrite forallb_forall in E. apply Nat.eqb_eq. now apply E.
Qed.
End Tie.

Definition doolittle_tie_R := @doolittle_tie _ Rops Rops_sum_laws.
Definition doolittle_tie_Q := @doolittle_tie _ Qops Qops_sum_laws.
Definition lu_decomposition_tie_R := @lu_decomposition_tie _ Rops Rops_sum_laws.
Definition lu_decomposition_tie_Q := @lu_decomposition_tie _ Qops Qops_sum_laws.

(* ---- non-vacuity: a matrix with non-zero pivots, one with a zero pivot (ZeroDivisionError caught), a non-square one ---- *)
Local Open Scope Q_scope.
Example lu_decomposition_ex :
  Linalg.lu_decomposition Qops [[4; 3; 2]; [2; 1; 3]; [3; 4; 1]] =
    GOk ([[1; 0; 0]; [1#2; 1; 0]; [3#4; -7#2; 1]], [[4; 3; 2]; [0; -1#2; 2]; [0; 0; 13#2]])
  /\ LinAlg.lu_decomposition Qops [[4; 3; 2]; [2; 1; 3]; [3; 4; 1]] =
    Ok ([[1; 0; 0]; [1#2; 1; 0]; [3#4; -7#2; 1]], [[4; 3; 2]; [0; -1#2; 2]; [0; 0; 13#2]])
  /\ Linalg.lu_decomposition Qops [[0; 1]; [1; 0]] = GOk ([[1; 0]; [0; 1]], [[0; 1]; [0; 0]])
  /\ LinAlg.lu_decomposition Qops [[0; 1]; [1; 0]] = Ok ([[1; 0]; [0; 1]], [[0; 1]; [0; 0]])
  /\ Linalg.lu_decomposition Qops [[1; 2]; [3]] = GErr ValueError /\ LinAlg.lu_decomposition Qops [[1; 2]; [3]] = Rejected.
Proof. repeat split; vm_compute; reflexivity. Qed.
