(* The non-rational curve derivative evaluator A3.2 (CurveEvaluator.derivatives, Model.Derivs.curve_derivs) returns, for
   ALL degrees, the analytic derivatives of the curve  C(x) = sum_i N_{i,p}(x) P_i  (EvalR.curve_def), coordinate-wise,
   on every non-empty knot span of the domain, for every requested order (also above the degree).
   Same development as Proofs/DerivLinkCurve.v (degrees 1..5) with the bounded link ders_is_dN_deg_le_5 replaced by
   the general theorem DersGeneral.ders_general. *)
From Coq Require Import List Reals Lra Lia Arith Bool.
From NV Require Import Scalar.Ops Model.Common Model.Basis Model.Knots Model.Eval Model.Degree Model.Derivs
  Proofs.Boehm Proofs.BasisR Proofs.BasisOneR Proofs.DerivAnalytic Proofs.EvalR Proofs.DerivLink Proofs.DerivLinkCurve
  Proofs.DersGeneral.
Import ListNotations.
Open Scope R_scope.

Section CurveDerivs.
Variables (U : list R) (P : list (list R)) (p dim : nat).
Hypothesis Usorted : sortedR U.
Hypothesis Hwf : wf_net P dim.
Hypothesis Hp : (p < length P)%nat.
Hypothesis HL : length U = (length P + p + 1)%nat.

Theorem curve_derivs_is_dN_sum_general u order k :
  knR U p <= u < knR U (length P) -> (k <= order)%nat ->
  let CK := curve_derivs Rops dim p U P u order in
  length (nth k CK []) = dim /\
  forall d, (d < dim)%nat -> nth d (nth k CK []) 0 = curve_dk U p P k d u.
Proof.
  intros Hu Hk. cbn zeta. set (n := length P) in *.
  unfold curve_derivs. fold n. rewrite nth_map_seq_g by lia. cbn [Nat.add].
  destruct (Nat.leb_spec k (Nat.min p order)) as [Hkd|Hkd].
  - destruct (span_facts U u p n Hp ltac:(lia) Hu) as [Hk1 Hk2].
    set (span := find_span_linear Rops p U n u) in *.
    destruct (curve_point_at_sum dim p P span (nth k (basis_function_ders Rops p U span u (Nat.min p order)) []) Hwf
                ltac:(lia) ltac:(lia)) as [HLr Hn]. cbn zeta in *.
    split; [exact HLr|]. intros d Hd. rewrite Hn by exact Hd.
    unfold curve_dk. fold n. rewrite (sumf_window _ (span - p) (S p) n); try lia.
    + apply sumf_ext. intros j Hj. f_equal.
      apply (ders_general U span p Usorted); try assumption; lia.
    + intros i Hi. rewrite (dNa_outside U k p i u span Usorted ltac:(lia) Hk2) by lia. ring.
    + intros i Hi. rewrite (dNa_outside U k p i u span Usorted ltac:(lia) Hk2) by lia. ring.
  - split; [apply vzero_length|]. intros d Hd. rewrite vzero_nth.
    unfold curve_dk. symmetry. apply sumf_zero. intros i _. rewrite dNa_above_degree by lia. ring.
Qed.

(* object level (BSpline.Curve.derivatives with the default evaluator, non-rational) *)
Corollary Curve_derivatives_is_dN_sum_general normalize u order CK k d :
  Curve_derivatives Rops normalize false false dim p U P u order = Ok CK ->
  knR U p <= u < knR U (length P) -> (k <= order)%nat -> (d < dim)%nat ->
  nth d (nth k CK []) 0 = curve_dk U p P k d u.
Proof.
  unfold Curve_derivatives. destruct (andb normalize _); [discriminate|].
  intros E Hu Hk Hd. injection E as <-.
  apply (curve_derivs_is_dN_sum_general u order k Hu Hk). exact Hd.
Qed.

(* ---- analytic meaning ---- *)
Let Vs := Ufun_sorted U Usorted.

Lemma curve_dk_iterated_g s k d :
  kth_deriv_on (Ufun U s) (Ufun U (S s)) k (fun x => curve_def U p P d x) (fun x => curve_dk U p P k d x).
Proof.
  induction k as [|k IH]; cbn [kth_deriv_on].
  - intros x _. reflexivity.
  - exists (fun x => curve_dk U p P k d x). split; [exact IH|]. intros x Hx.
    unfold curve_dk. apply (curve_dN_is_kth_derivative (Ufun U) Vs s). exact Hx.
Qed.

Section Span.
Variable s : nat.                       (* a knot span of the domain *)
Hypothesis Hs : (p <= s < length P)%nat.

Let Es : Ufun U s = knR U s. Proof. apply Ufun_in. lia. Qed.
Let Es1 : Ufun U (S s) = knR U (s + 1). Proof. rewrite Ufun_in by lia. f_equal. lia. Qed.
Let dom x : knR U s <= x < knR U (s + 1) -> knR U p <= x < knR U (length P).
Proof.
  intros Hx. assert (knR U p <= knR U s) by (apply Usorted; lia).
  assert (knR U (s + 1) <= knR U (length P)) by (apply Usorted; lia). lra.
Qed.

(* coordinate d of CK[k], as a function of the parameter, is a k-th iterated analytic derivative of
   coordinate d of the curve on the open span (U_s, U_{s+1}) *)
Theorem curve_derivs_is_true_derivative_general order k d : (k <= order)%nat -> (d < dim)%nat ->
  kth_deriv_on (knR U s) (knR U (s + 1)) k
    (fun x => curve_def U p P d x)
    (fun x => nth d (nth k (curve_derivs Rops dim p U P x order) []) 0).
Proof.
  intros Hk Hd.
  apply (kth_deriv_on_ext _ _ _ _ (fun x => curve_dk U p P k d x)).
  - intros x Hx. apply (curve_derivs_is_dN_sum_general x order k); [apply dom; lra|exact Hk|exact Hd].
  - rewrite <- Es, <- Es1. apply curve_dk_iterated_g.
Qed.

(* one step: CK[k+1](u) is the derivative at u of x |-> CK[k](x), coordinate-wise, inside the span *)
Theorem curve_derivs_consecutive_general order k d u : (S k <= order)%nat -> (d < dim)%nat ->
  knR U s < u < knR U (s + 1) ->
  derivable_pt_lim (fun x => nth d (nth k (curve_derivs Rops dim p U P x order) []) 0) u
                   (nth d (nth (S k) (curve_derivs Rops dim p U P u order) []) 0).
Proof.
  intros Hk Hd Hu.
  apply (dl_local (fun x => curve_dk U p P k d x) _ (knR U s) (knR U (s + 1))); [exact Hu| |].
  - intros y Hy. symmetry.
    apply (curve_derivs_is_dN_sum_general y order k); [apply dom; lra|lia|exact Hd].
  - rewrite (proj2 (curve_derivs_is_dN_sum_general u order (S k) ltac:(apply dom; lra) Hk) d Hd).
    unfold curve_dk. apply (curve_dN_is_kth_derivative (Ufun U) Vs s). rewrite Es, Es1. exact Hu.
Qed.

(* right derivative on the half-open span, in particular at the knot U_s *)
Theorem curve_derivs_right_derivative_general order k d u : (S k <= order)%nat -> (d < dim)%nat ->
  knR U s <= u < knR U (s + 1) ->
  right_derivable_pt_lim (fun x => nth d (nth k (curve_derivs Rops dim p U P x order) []) 0) u
                         (nth d (nth (S k) (curve_derivs Rops dim p U P u order) []) 0).
Proof.
  intros Hk Hd Hu.
  apply (rdl_local (fun x => curve_dk U p P k d x) _ (knR U (s + 1))); [lra| |].
  - intros y Hy. symmetry.
    apply (curve_derivs_is_dN_sum_general y order k); [apply dom; lra|lia|exact Hd].
  - rewrite (proj2 (curve_derivs_is_dN_sum_general u order (S k) ltac:(apply dom; lra) Hk) d Hd).
    unfold curve_dk. apply (curve_dN_right_derivative (Ufun U) Vs s). rewrite Es, Es1. exact Hu.
Qed.

(* first derivative of the evaluated point: CK[1] is the derivative of x |-> curve_point x *)
Corollary curve_tangent_is_derivative_general order d u : (1 <= order)%nat -> (d < dim)%nat ->
  knR U s < u < knR U (s + 1) ->
  derivable_pt_lim (fun x => nth d (curve_point Rops dim p U P x) 0) u
                   (nth d (nth 1 (curve_derivs Rops dim p U P u order) []) 0).
Proof.
  intros Ho Hd Hu.
  apply (dl_local (fun x => curve_def U p P d x) _ (knR U s) (knR U (s + 1))); [exact Hu| |].
  - intros y Hy. symmetry.
    apply (curve_point_is_definition U P p dim y Usorted Hwf Hp HL); [apply dom; lra|exact Hd].
  - rewrite (proj2 (curve_derivs_is_dN_sum_general u order 1 ltac:(apply dom; lra) Ho) d Hd).
    unfold curve_dk, curve_def.
    apply (curve_dN_is_kth_derivative (Ufun U) Vs s 0). rewrite Es, Es1. exact Hu.
Qed.
End Span.
End CurveDerivs.

Check curve_derivs_is_dN_sum_general.
Check Curve_derivatives_is_dN_sum_general.
Check curve_derivs_is_true_derivative_general.
Check curve_derivs_consecutive_general.
Check curve_derivs_right_derivative_general.
Check curve_tangent_is_derivative_general.

Print Assumptions curve_derivs_is_dN_sum_general.
Print Assumptions Curve_derivatives_is_dN_sum_general.
Print Assumptions curve_derivs_is_true_derivative_general.
Print Assumptions curve_derivs_consecutive_general.
Print Assumptions curve_derivs_right_derivative_general.
Print Assumptions curve_tangent_is_derivative_general.
